package main

// C20 round 4 — two input dimensions the history oracle kept constant, plus the ties of Model/MigrateCols.lean.
//
// (1) SEVERAL STRUCT FIELDS → ONE COLUMN.  gorm.Model (anonymous) or a base struct (`embedded`) whose columns the model's
//     own fields shadow (other Go type, other default, other tags), the same `column:` tag on two fields, one struct
//     embedded twice without a prefix, and a v2 that ADDS such a pair.  schema.Parse decides who owns a column (shortest
//     bind path, then first appearance); the migrator must take ONE decision per column.  The oracle derives its
//     structural expectations from the owners only (c20Owners: the ownership rule applied to the SPEC) and compares
//     read-back values of owners only (a field that lost its column is not stored, by design).
// (2) TABLE NAMES.  The model's table is schema-qualified (`main.<table>` through the naming strategy — the path a Tabler
//     or `TablePrefix: "main."` takes), or AutoMigrate runs on db.Table("<t>") / db.Table("main.<t>") / a Scopes handle
//     that sets the table.  gorm splits a qualified name into Statement.TableExpr and the bare Statement.Table; every
//     catalogue look-up must use the bare name.
//     Not generated (SQLite / gorm.io/driver/sqlite, outside /repo; reproduced on the unchanged tree): `temp.` and ATTACHed
//     schemas (the driver's HasTable reads main's sqlite_master only: every run re-issues CREATE TABLE), names with blanks
//     or dashes (the driver's raw PRAGMA / sqlite_master queries), names with two dots, foreign keys INTO a qualified
//     table (SQLite's REFERENCES takes an unqualified name), db.Table(..) handles on models with relations (the special
//     table name leaks into auto-added dependencies: panic, known).

import (
	"encoding/json"
	"fmt"
	"math/rand"
	"reflect"
	"regexp"
	"sort"
	"strings"
	"time"

	"gorm.io/driver/sqlite"
	"gorm.io/gorm"
	"gorm.io/gorm/schema"
)

const (
	c20F31 = "F31-C20-qualified-table-added-unique"
	c20F32 = "F32-C20-qualified-child-table-constraint"
	c20F33 = "F33-C20-shadowed-field-unique"
	c20F34 = "F34-C20-numeric-type-digit-group"
)

// embedded structs whose columns the model's own fields may shadow
type C20Base struct {
	CreatedAt time.Time
	UpdatedAt time.Time
	Rev       int    `gorm:"default:1"`
	Memo      string `gorm:"size:50"` // (no index tag: an index declared by a shadowed member keeps its v1 shape by name — changed, not added)
}
type C20Plain2 struct {
	Note  string
	Count int
	Ratio float64
	Label string `gorm:"size:40"`
}

func c20Embeds(kind string) bool { return kind == "gmodel" || kind == "base" || kind == "plain2" }

func c20QualTable(sp c20Spec) string {
	if sp.Qual != "" {
		return sp.Qual + "." + sp.Table
	}
	return sp.Table
}

// c20HandleT: the handle AutoMigrate is called on; the last three name the table themselves
func c20HandleT(db *gorm.DB, c c20Cfg, table string) *gorm.DB {
	switch c.Handle {
	case "table":
		return db.Table(table)
	case "qtable":
		return db.Table("main." + table)
	case "scopes":
		return db.Scopes(func(d *gorm.DB) *gorm.DB { return d.Table("main." + table) })
	}
	return c20Handle(db, c)
}

func c20TableHandle(h string) bool { return h == "table" || h == "qtable" || h == "scopes" }

// c20Owners: the fields of a spec that own their column.  Ownership rule of schema.Parse read off the SPEC: the struct's own
// fields beat members of embedded structs; among own fields the first one that names a column keeps it.  Embedded structs
// and relations stay in the list (they carry no per-column expectations of their own that a shadow could falsify).
func c20Owners(fs []c20Field) []c20Field {
	claimed := map[string]bool{}
	var out []c20Field
	for _, f := range fs {
		if c20IsRel(f.Kind) || c20Embeds(f.Kind) || f.Kind == "audit" || f.Kind == "stamp" {
			out = append(out, f)
			continue
		}
		col := strings.ToLower(c20ColName(f.Name, f.Tag))
		if claimed[col] {
			continue
		}
		claimed[col] = true
		out = append(out, f)
	}
	return out
}

// c20Losers: own scalar fields that lost their column to an earlier own field
func c20Losers(fs []c20Field) map[string]string {
	first := map[string]string{}
	out := map[string]string{}
	for _, f := range fs {
		if c20IsRel(f.Kind) || c20Embeds(f.Kind) || f.Kind == "audit" || f.Kind == "stamp" {
			continue
		}
		col := strings.ToLower(c20ColName(f.Name, f.Tag))
		if w, ok := first[col]; ok {
			out[f.Name] = w
		} else {
			first[col] = f.Name
		}
	}
	return out
}

// c20EmbeddedSame compares the members of the embedded struct field `name` that own their column, written vs read back.
func c20EmbeddedSame(db *gorm.DB, sch *schema.Schema, name string, want, got reflect.Value) (member, expected, observed string) {
	for _, f := range sch.Fields {
		if f.DBName == "" || len(f.BindNames) != 2 || f.BindNames[0] != name || sch.FieldsByDBName[f.DBName] != f || !f.Readable || !f.Creatable {
			continue
		}
		a, b := f.ReflectValueOf(db.Statement.Context, want), f.ReflectValueOf(db.Statement.Context, got)
		if !c20SameScalar(a, b) {
			return f.Name, fmt.Sprint(a.Interface()), fmt.Sprint(b.Interface())
		}
	}
	return "", "", ""
}

func c20StripTag(tag string, drop func(lowerPart string) bool) string {
	var keep []string
	for _, p := range strings.Split(tag, ";") {
		if p == "" || drop(strings.ToLower(strings.TrimSpace(p))) {
			continue
		}
		keep = append(keep, p)
	}
	return strings.Join(keep, ";")
}

func c20IsUniquePart(lp string) bool { return lp == "unique" }

// collide: fields that make several struct fields map to one column.  hasGModel: the model embeds gorm.Model.
func (g *c20Gen) collide(ver string, hasGModel bool, have map[string]bool) []c20Field {
	var out []c20Field
	shared := func(name, col string) c20Field {
		f := g.scalarField(name, false, ver)
		f.Tag = c20StripTag(f.Tag, func(lp string) bool { return strings.HasPrefix(lp, "column:") || strings.HasPrefix(lp, "check:") })
		f.Tag = c20AddTag("column:"+col, f.Tag)
		f.Tag = strings.TrimSuffix(f.Tag, ";")
		return f
	}
	switch k := g.rng.Intn(5); {
	case k == 0 && hasGModel && !have["gshadow"]:
		have["gshadow"] = true
		g.f(ver + ":shadow:gorm.Model")
		opts := []c20Field{
			{Name: "UpdatedAt", Kind: "int64", Tag: "autoUpdateTime:milli"}, {Name: "CreatedAt", Kind: "int64", Tag: "autoCreateTime"},
			{Name: "UpdatedAt", Kind: "int", Tag: "autoUpdateTime:nano"}, {Name: "CreatedAt", Kind: "string", Tag: "size:40"},
			{Name: "UpdatedAt", Kind: "time", Tag: "not null"}, {Name: "CreatedAt", Kind: "ptime", Tag: "index"},
			{Name: "UpdatedAt", Kind: "string", Tag: "default:never"}, {Name: "CreatedAt", Kind: "int64", Tag: "autoCreateTime;index"},
		}
		a := opts[g.rng.Intn(len(opts))]
		out = append(out, a)
		if b := opts[g.rng.Intn(len(opts))]; b.Name != a.Name && g.rng.Intn(2) == 0 {
			out = append(out, b)
		}
	case k <= 1 && !have["base"]:
		have["base"] = true
		g.f(ver + ":shadow:base-struct")
		out = append(out, c20Field{Name: "Base", Kind: "base", Tag: "embedded"})
		opts := []c20Field{
			{Name: "UpdatedAt", Kind: "int64", Tag: "autoUpdateTime:milli"}, {Name: "CreatedAt", Kind: "string"},
			{Name: "Rev", Kind: "string", Tag: "default:r0;size:12"}, {Name: "Memo", Kind: "bytes"}, {Name: "Rev", Kind: "int64", Tag: "default:7;not null"},
			{Name: "Memo", Kind: "string", Tag: "size:255;uniqueIndex"},
		}
		a := opts[g.rng.Intn(len(opts))]
		if !hasGModel || (a.Name != "UpdatedAt" && a.Name != "CreatedAt") {
			out = append(out, a)
		}
	case k == 2 && !have["plain2"]:
		have["plain2"] = true
		g.f(ver + ":shadow:embedded-member")
		out = append(out, c20Field{Name: "P1", Kind: "plain2", Tag: "embedded"})
		names := []string{"Note", "Count", "Ratio", "Label"}
		g.rng.Shuffle(len(names), func(i, j int) { names[i], names[j] = names[j], names[i] })
		for _, n := range names[:1+g.rng.Intn(2)] {
			out = append(out, g.scalarField(n, false, ver))
		}
	case k == 3 && !have["shared"]:
		have["shared"] = true
		g.f(ver + ":shadow:same-column-tag")
		col := g.pick("shared_c", "SharedC", "sh")
		// a losing field keeps every setting except index settings (ParseIndexes ranges over all fields: the loser's entry joins
		// the owner's index, class and all — observed, not judged) and, unless tricky, `unique` (F33)
		loser := func(f c20Field) c20Field {
			f.Tag = c20StripTag(f.Tag, func(lp string) bool {
				return lp == "index" || lp == "uniqueindex" || strings.HasPrefix(lp, "index:") || strings.HasPrefix(lp, "uniqueindex:") || ((!g.tricky || g.qual) && lp == "unique")
			})
			return f
		}
		out = append(out, shared("SA", col), loser(shared("SB", col)))
		if g.rng.Intn(3) == 0 {
			out = append(out, loser(shared("SC", col)))
		}
	case k == 4 && !have["twice"]:
		have["twice"] = true
		g.f(ver + ":shadow:embedded-twice")
		if !have["plain2"] {
			have["plain2"] = true
			out = append(out, c20Field{Name: "P1", Kind: "plain2", Tag: "embedded"}, c20Field{Name: "P2", Kind: "plain2", Tag: g.pick("embedded", "embedded", "embedded;embeddedPrefix:p2_")})
		}
	}
	return out
}

// addedPair: a v2 that ADDS a shadowed pair (embedded struct + an own field over one of its columns)
func (g *c20Gen) addedPair(have map[string]bool) []c20Field {
	if have["plain2"] {
		return nil
	}
	have["plain2"] = true
	g.f("v2:add-shadowed-pair")
	own := []c20Field{{Name: "Count", Kind: "string", Tag: "default:zz"}, {Name: "Note", Kind: "int"}, {Name: "Ratio", Kind: "string", Tag: "size:20"},
		{Name: "Label", Kind: "int64", Tag: "default:3"}, {Name: "Count", Kind: "pint"}}[g.rng.Intn(5)]
	if g.rng.Intn(2) == 0 {
		return []c20Field{{Name: "P1", Kind: "plain2", Tag: "embedded"}, own}
	}
	return []c20Field{own, {Name: "P1", Kind: "plain2", Tag: "embedded"}}
}

var c20DigitGroup = regexp.MustCompile(`(?i)(^|;)\s*type:[a-z ]+\(\d+`)

// c20DigitGrouped: numeric Go kind with a `type:` tag that carries a digit group (int(11), decimal(10,2) …)
func c20DigitGrouped(f c20Field) bool {
	switch c20Class(f.Kind) {
	case "int", "uint", "float":
		return c20DigitGroup.MatchString(f.Tag)
	}
	return false
}

// c20AddedUnique: v2 fields that carry a `unique` setting v1 does not have (a new field, or the tag added to an old one)
func c20AddedUnique(sp c20Spec) []string {
	old := map[string]string{}
	for _, f := range sp.V1 {
		old[f.Name] = f.Tag
	}
	var out []string
	for _, f := range sp.V2 {
		t, was := old[f.Name]
		if (c20HasTag(f.Tag, "unique") && (!was || !c20HasTag(t, "unique"))) || (f.Kind == "stamp" && !was) { // (C20Stamp.Serial is `unique`)
			out = append(out, f.Name)
		}
	}
	return out
}

// c20KnownPattern4: patterns of the findings listed in round 4 over the MINIMISED failing history ("" = none)
func c20KnownPattern4(sp c20Spec, o c20Outcome) string {
	// F31: schema-qualified table + a `unique` that has to be added to an existing column (tag added in v2, or a v2 field whose
	// AddColumn carried no UNIQUE) -> MigrateColumnUnique asks for uni_<bare table>_<col>, unknown to the schema -> `invalid DDL`
	if sp.Qual != "" && o.Err == "invalid DDL" && (o.Stage == "v2" || o.Stage == "settle" || o.Stage == "third") && len(c20AddedUnique(sp)) > 0 {
		au := map[string]bool{}
		for _, n := range c20AddedUnique(sp) {
			au[n] = true
		}
		rest := 0
		for i, f := range sp.V2 {
			if i > 0 && !au[f.Name] && f.Tag != "" {
				rest++
			}
		}
		if rest == 0 {
			return c20F31
		}
	}
	if o.Stage == "insert-rejected" && strings.Contains(o.Err, "UNIQUE constraint failed") && len(sp.V1) <= 3 {
		// F33 seen from the data side: the UNIQUE CreateTable wrote for the shadowed field rejects rows whose OWNER values repeat
		byName := map[string]c20Field{}
		for _, f := range sp.V1 {
			byName[f.Name] = f
		}
		for l, w := range c20Losers(sp.V1) {
			if c20HasTag(byName[l].Tag, "unique") && !c20HasTag(byName[w].Tag, "unique") {
				return c20F33
			}
		}
	}
	if (o.Stage == "second" || o.Stage == "third") && strings.Contains(o.Verdict, "schema-changing statements") {
		fs := sp.V1
		if o.Stage == "third" {
			fs = sp.V2
		}
		// F33: a field that lost its column carries `unique`, the owner does not
		byName := map[string]c20Field{}
		for _, f := range fs {
			byName[f.Name] = f
		}
		shadowed := false
		for l, w := range c20Losers(fs) {
			if c20HasTag(byName[l].Tag, "unique") && !c20HasTag(byName[w].Tag, "unique") {
				shadowed = true
			}
		}
		if shadowed && len(fs) <= 3 {
			return c20F33
		}
		// F34: every field left (besides the key) is a numeric kind whose type tag carries a digit group
		n := 0
		for i, f := range fs {
			if i == 0 && !c20DigitGrouped(f) {
				continue
			}
			if !c20DigitGrouped(f) {
				return ""
			}
			n++
		}
		if n > 0 {
			return c20F34
		}
	}
	return ""
}

// ---- fixed families for relation constraints on qualified tables (F32 and its neighbours) ---------------------------

type C20qParent struct {
	ID   uint
	Name string
	Kids []C20qKid `gorm:"foreignKey:ParentID"`
}
type C20qKid struct {
	ID       uint
	ParentID uint
	Label    string
}

func (C20qKid) TableName() string { return "main.c20q_kids" }

type C20qOne struct {
	ID   uint
	Name string
	Kid  C20qOneKid `gorm:"foreignKey:ParentID"`
}
type C20qOneKid struct {
	ID       uint
	ParentID uint
}

func (C20qOneKid) TableName() string { return "main.c20q_one_kids" }

type C20qA struct {
	ID uint
	Bs []C20qB `gorm:"many2many:main.c20q_links"`
}
type C20qB struct {
	ID   uint
	Name string
}
type C20qC struct {
	ID      uint
	OwnerID uint
	Owner   C20Owner `gorm:"constraint:OnDelete:CASCADE"`
	Qty     int      `gorm:"check:qty > -5;index"`
	Code    string   `gorm:"unique;size:30"`
}

func (C20qC) TableName() string { return "main.c20q_cs" }

type c20QRelCase struct {
	Name   string `json:"name"`
	Order  []int  `json:"order"`
	Repeat int    `json:"repeat"`
}

var c20QRel = map[string][]interface{}{
	"hasmany-child-qualified":   {&C20qParent{}, &C20qKid{}},
	"hasone-child-qualified":    {&C20qOne{}, &C20qOneKid{}},
	"many2many-join-qualified":  {&C20qA{}, &C20qB{}},
	"belongsto-self-qualified":  {&C20qC{}},
}

func c20QRelRun(c c20QRelCase) (o c20Outcome) {
	defer func() {
		if p := recover(); p != nil {
			o = c20Outcome{Stage: "panic", Err: fmt.Sprint(p), Verdict: "AutoMigrate panicked"}
		}
	}()
	db, rec := c20Open("c20q_anon")
	if sq, e := db.DB(); e == nil {
		defer sq.Close()
	}
	ms := c20QRel[c.Name]
	var vals []interface{}
	for _, i := range c.Order {
		vals = append(vals, ms[i%len(ms)])
	}
	if err := db.AutoMigrate(vals...); err != nil {
		return c20Outcome{Stage: "v1-rejected", Err: err.Error(), Verdict: "AutoMigrate on an empty database returned an error", Observed: err.Error()}
	}
	for i := 0; i < c.Repeat; i++ {
		rec.Reset()
		err := db.AutoMigrate(vals...)
		ddl := c20SchemaStmts(rec.Snapshot())
		if err != nil {
			return c20Outcome{Stage: "second", Err: err.Error(), Verdict: "a repeated AutoMigrate on the database it created returned an error", Observed: err.Error(), Master: c20Master(db, rec)}
		}
		if len(ddl) > 0 {
			return c20Outcome{Stage: "second", Second: ddl, Verdict: "second identical AutoMigrate issued schema-changing statements", Expected: "no CREATE/ALTER/DROP", Observed: strings.Join(ddl, " ;; ")}
		}
	}
	// gorm's own answers for what it just created
	for _, m := range vals {
		st := &gorm.Statement{DB: db}
		if err := st.Parse(m); err != nil {
			continue
		}
		mg := db.Session(&gorm.Session{NewDB: true}).Migrator()
		for name := range st.Schema.ParseCheckConstraints() {
			if !mg.HasConstraint(m, name) {
				return c20Outcome{Stage: "ask", Verdict: "Migrator().HasConstraint(" + name + ") = false although AutoMigrate created the check", Expected: "true", Observed: "false"}
			}
		}
		for name := range st.Schema.ParseUniqueConstraints() {
			if !mg.HasConstraint(m, name) {
				return c20Outcome{Stage: "ask", Verdict: "Migrator().HasConstraint(" + name + ") = false although AutoMigrate created the unique constraint", Expected: "true", Observed: "false"}
			}
		}
		for _, ix := range st.Schema.ParseIndexes() {
			if !mg.HasIndex(m, ix.Name) {
				return c20Outcome{Stage: "ask", Verdict: "Migrator().HasIndex(" + ix.Name + ") = false although AutoMigrate created the index", Expected: "true", Observed: "false"}
			}
		}
	}
	return c20Outcome{Stage: "ok"}
}

func c20QRelJudge(r *Result, c c20QRelCase) {
	o := c20QRelRun(c)
	r.H("qualrel.stage", c.Name+":"+o.Stage)
	if o.Verdict == "" {
		return
	}
	// F32: the child table of a has-one / has-many is qualified and the repeated run fails with `invalid DDL`
	if (c.Name == "hasmany-child-qualified" || c.Name == "hasone-child-qualified") && o.Stage == "second" && o.Err == "invalid DDL" && listed(c20F32) {
		r.KnownFinding(c20F32, c.Name+": "+o.Verdict+": "+o.Err)
		return
	}
	r.Violate(Violation{Kind: "e2e", Suite: "qualrel", Input: c, Observed: o, Expected: o.Expected, Note: o.Verdict})
}

// ---- correspondence: the table GuessConstraintInterfaceAndTable answers with, Statement.Table, unique-constraint names --

type c20GuessCase struct {
	Table  string     `json:"table"`  // what the naming strategy answers for the generated model
	Via    string     `json:"via"`    // "", table:<t> = AutoMigrate-style handle db.Table(t)
	Fields []c20Field `json:"fields"`
	Fixed  string     `json:"fixed,omitempty"` // a fixed family of c20QRel instead of a generated model
	Idx    int        `json:"idx,omitempty"`
}

func c20GuessRun(c c20GuessCase) (real []map[string]interface{}, ops [][]interface{}, err error) {
	defer func() {
		if p := recover(); p != nil {
			err = fmt.Errorf("panic: %v", p)
		}
	}()
	db, _ := c20Open(c.Table)
	if sq, e := db.DB(); e == nil {
		defer sq.Close()
	}
	var val interface{}
	if c.Fixed != "" {
		val = c20QRel[c.Fixed][c.Idx%len(c20QRel[c.Fixed])]
		for _, m := range c20QRel[c.Fixed] { // warm cache: relations registered by the other side
			st := &gorm.Statement{DB: db}
			_ = st.Parse(m)
		}
	} else {
		t, e := c20Type(c.Fields)
		if e != nil {
			return nil, nil, e
		}
		val = reflect.New(t).Interface()
	}
	h := db
	if strings.HasPrefix(c.Via, "table:") {
		h = db.Table(c.Via[len("table:"):])
	}
	mg := h.Migrator().(sqlite.Migrator)
	err = mg.RunWithValue(val, func(stmt *gorm.Statement) error {
		sch := stmt.Schema
		real = append(real, map[string]interface{}{"q": "stmt", "stmt": stmt.Table})
		ops = append(ops, []interface{}{"mig.guesstable", sch.Table, "check"})
		if c.Via != "" { // Statement.Table comes from the handle: the split of chainable_api.go Table
			real[0]["stmt"] = stmt.Table
			ops[0] = []interface{}{"mig.guesstable", c.Via[len("table:"):], "check"}
		}
		chk, uni := sch.ParseCheckConstraints(), sch.ParseUniqueConstraints()
		relOf := func(rel *schema.Relationship) interface{} {
			jt := ""
			if rel.JoinTable != nil {
				jt = rel.JoinTable.Table
			}
			return map[string]interface{}{"typ": string(rel.Type), "child": rel.FieldSchema.Table, "join": jt}
		}
		type q struct {
			name  string
			found interface{}
		}
		var qs []q
		for n := range chk {
			qs = append(qs, q{n, "check"})
		}
		for n := range uni {
			if _, dup := chk[n]; !dup {
				qs = append(qs, q{n, "unique"})
			}
		}
		taken := map[string]bool{}
		for _, x := range qs {
			taken[x.name] = true
		}
		var rn []string
		for n := range sch.Relationships.Relations {
			rn = append(rn, n)
		}
		sort.Strings(rn)
		for _, n := range rn {
			rel := sch.Relationships.Relations[n]
			if k := rel.ParseConstraint(); k != nil && !taken[k.Name] {
				taken[k.Name] = true
				qs = append(qs, q{k.Name, relOf(rel)})
			}
		}
		// look-ups by FIELD name (the second half of the function)
		for _, f := range sch.Fields {
			if taken[f.Name] || taken[f.DBName] {
				continue
			}
			var found interface{} = "none"
			for _, k := range chk {
				if k.Field == f {
					found = "check"
				}
			}
			if found == "none" {
				for _, k := range uni {
					if k.Field == f {
						found = "unique"
					}
				}
			}
			if found == "none" {
				if rel := sch.Relationships.Relations[f.Name]; rel != nil && rel.Field == f && rel.ParseConstraint() != nil {
					found = relOf(rel)
				}
			}
			if sch.LookUpField(f.Name) == f {
				qs = append(qs, q{f.Name, found})
				taken[f.Name] = true
			}
		}
		qs = append(qs, q{"no_such_constraint_anywhere", "none"})
		sort.Slice(qs, func(i, j int) bool { return qs[i].name < qs[j].name })
		schemaT := sch.Table
		for _, x := range qs {
			_, tbl := mg.GuessConstraintInterfaceAndTable(stmt, x.name)
			real = append(real, map[string]interface{}{"q": x.name, "table": tbl})
			if c.Via != "" {
				// with a handle-given table the schema was parsed under that (bare) name: model input = what the schema says
				ops = append(ops, []interface{}{"mig.guesstable", schemaT, x.found, stmt.Table})
			} else {
				ops = append(ops, []interface{}{"mig.guesstable", schemaT, x.found})
			}
		}
		// the constraint MigrateColumnUnique would ask for, per column
		for _, dbn := range sch.DBNames {
			asked := db.NamingStrategy.UniqueName(stmt.Table, dbn)
			filed := db.NamingStrategy.UniqueName(sch.Table, dbn)
			f := sch.FieldsByDBName[dbn]
			if !f.Unique || len(asked) > 60 || c.Via != "" || dbn != strings.ToLower(dbn) { // (the namer snake-cases a mixed-case column: not modelled)
				continue
			}
			_, tbl := mg.GuessConstraintInterfaceAndTable(stmt, asked)
			real = append(real, map[string]interface{}{"q": "unique:" + dbn, "asked": asked, "filed": filed, "table": tbl})
			ops = append(ops, []interface{}{"mig.uniquefound", sch.Table, dbn})
		}
		return nil
	})
	return real, ops, err
}

func c20GuessJudge(r *Result, c c20GuessCase) bool {
	real, ops, err := c20GuessRun(c)
	if err != nil {
		r.H("guesstable.skip", strings.SplitN(err.Error(), ":", 2)[0])
		return false
	}
	outs, err := AskLean(ops)
	if err != nil {
		r.Violate(Violation{Kind: "correspondence", Suite: "mig.guesstable", Input: c, Note: err.Error()})
		return false
	}
	return c20GuessCompare(r, c, real, ops, outs)
}

// c20GuessCompare: the model's answers (one per op of the case) against what the real code answered
func c20GuessCompare(r *Result, c c20GuessCase, real []map[string]interface{}, ops [][]interface{}, outs []json.RawMessage) bool {
	var model []map[string]interface{}
	for i, raw := range outs {
		var m map[string]interface{}
		_ = json.Unmarshal(raw, &m)
		q := real[i]["q"].(string)
		switch {
		case q == "stmt":
			model = append(model, map[string]interface{}{"q": q, "stmt": m["stmt"]})
		case strings.HasPrefix(q, "unique:"):
			model = append(model, map[string]interface{}{"q": q, "asked": m["asked"], "filed": m["filed"], "table": m["table"]})
		default:
			t := m["table"]
			if len(ops[i]) == 4 && (ops[i][2] == "check" || ops[i][2] == "unique") { // handle-given table: stmt.Table is the handle's
				t = ops[i][3]
			} else if len(ops[i]) == 4 {
				if rm, ok := ops[i][2].(map[string]interface{}); ok && rm["typ"] == "belongs_to" {
					t = ops[i][3]
				}
			}
			model = append(model, map[string]interface{}{"q": q, "table": t})
		}
	}
	r.CorrCompared += len(real)
	if canon(real) != canon(model) {
		r.Violate(Violation{Kind: "correspondence", Suite: "mig.guesstable", Input: c, Observed: real, Expected: model,
			Note: "real Statement.Table / migrator.GuessConstraintInterfaceAndTable / NamingStrategy.UniqueName vs Lean stmtTable / guessTable / migrateUniqueFound"})
		return false
	}
	for _, m := range real {
		if t, ok := m["table"].(string); ok {
			if strings.Contains(t, ".") {
				r.H("guesstable.answer", "qualified")
			} else {
				r.H("guesstable.answer", "bare")
			}
		}
	}
	return true
}

func c20TieGuess(r *Result, rng *rand.Rand, tier string) {
	if !c20Only("guesstable") {
		return
	}
	n := 300
	if tier == "thorough" {
		n = 4000
	} else if tier == "search" {
		n = 1000
	}
	names := []string{"items", "main.items", "main.items", "aux.items", "Main.Items", "a.b.c", "x_y", "main.order", "s1.t_2", ".lead", "trail.", "tp_items"}
	fixed := []string{"hasmany-child-qualified", "hasone-child-qualified", "many2many-join-qualified", "belongsto-self-qualified"}
	// (the real code runs case by case; the model is asked ONCE for the whole batch: one driver process instead of n)
	type pending struct {
		c    c20GuessCase
		real []map[string]interface{}
		ops  [][]interface{}
		at   int
	}
	var pend []pending
	var batch [][]interface{}
	for i := 0; i < n && !expired(); i++ {
		c := c20GuessCase{Table: names[rng.Intn(len(names))]}
		if i < len(names) {
			c.Table = names[i]
		}
		if i%7 == 6 {
			c.Fixed, c.Idx, c.Table = fixed[rng.Intn(len(fixed))], rng.Intn(2), "c20q_anon"
		} else {
			g := &c20Gen{rng: rng, feat: map[string]bool{}}
			c.Fields = []c20Field{{Name: "ID", Kind: "uint"}}
			for k := 0; k < 1+rng.Intn(4); k++ {
				f := g.scalarField(fmt.Sprintf("F%c", 'A'+k), false, "v1")
				if rng.Intn(3) == 0 && !c20HasTag(f.Tag, "check") {
					f.Tag = c20AddTag(f.Tag, g.checkFor(c20Class(f.Kind), c20ColName(f.Name, f.Tag), rng.Intn(2) == 0, f.Name))
				}
				if rng.Intn(3) == 0 && !c20HasTag(f.Tag, "unique") && f.Kind != "bool" {
					f.Tag = c20AddTag(f.Tag, "unique")
				}
				c.Fields = append(c.Fields, f)
			}
			if rng.Intn(2) == 0 {
				c.Fields = append(c.Fields, g.relation("v1", map[string]bool{"audit": true, "stamp": true}, false)...)
			}
			if rng.Intn(5) == 0 {
				c.Via = "table:" + []string{"other", "main.other", "x.y.z"}[rng.Intn(3)]
				var fs []c20Field
				for _, f := range c.Fields { // (db.Table(..) handles and relations do not mix: known panic)
					if !c20IsRel(f.Kind) {
						fs = append(fs, f)
					}
				}
				c.Fields = fs
			}
		}
		if real, ops, err := c20GuessRun(c); err != nil {
			r.H("guesstable.skip", strings.SplitN(err.Error(), ":", 2)[0])
			r.Case("mig.guesstable", canon(c), false)
		} else {
			pend = append(pend, pending{c, real, ops, len(batch)})
			batch = append(batch, ops...)
		}
		r.H("guesstable.table", c.Table)
		if c.Via != "" {
			r.H("guesstable.via", c.Via)
		}
	}
	if len(batch) == 0 {
		return
	}
	outs, err := AskLean(batch)
	for _, p := range pend {
		ok := false
		if err != nil { // fall back to case-by-case questions so that the failing case is named
			ok = c20GuessJudge(r, p.c)
		} else {
			ok = c20GuessCompare(r, p.c, p.real, p.ops, outs[p.at:p.at+len(p.ops)])
		}
		r.Case("mig.guesstable", canon(p.c), ok)
	}
}

func init() {
	register("C20", func(r *Result, rng *rand.Rand, tier string) {
		if !c20Only("qualrel") {
			return
		}
		var names []string
		for n := range c20QRel {
			names = append(names, n)
		}
		sort.Strings(names)
		for _, n := range names {
			for _, order := range [][]int{{0, 1}, {1, 0}, {0}} {
				c := c20QRelCase{Name: n, Order: order, Repeat: 2}
				c20QRelJudge(r, c)
				r.Case("qualrel", canon(c), true)
			}
		}
	})
	register("C20", c20TieGuess)
	replayers["C20/qualrel"] = func(r *Result, input json.RawMessage) {
		var c c20QRelCase
		if err := json.Unmarshal(input, &c); err != nil {
			r.Note("bad replay input: %v", err)
			return
		}
		c20QRelJudge(r, c)
	}
	replayers["C20/mig.guesstable"] = func(r *Result, input json.RawMessage) {
		var c c20GuessCase
		if err := json.Unmarshal(input, &c); err != nil {
			r.Note("bad replay input: %v", err)
			return
		}
		c20GuessJudge(r, c)
	}
}
