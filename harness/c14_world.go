package main

// C14 forced-schedule world: the REAL gorm.PreparedStmtDB on top of a fake database/sql driver, with every
// pool-level PrepareContext and every driver-level statement execution parked on a gate until the controller
// releases it with an answer (ok | err | bad).  Quiescence between two releases is detected exactly: a
// stop-the-world goroutine dump in which no goroutine other than the controller is running/runnable.

import (
	"context"
	"database/sql"
	"database/sql/driver"
	"errors"
	"fmt"
	"io"
	"reflect"
	"runtime"
	"strings"
	"sync"
	"sync/atomic"
	"time"

	"gorm.io/gorm"
	"gorm.io/gorm/logger"
)

type c14TidKey struct{}

func c14Tid(ctx context.Context) int {
	if v, ok := ctx.Value(c14TidKey{}).(int); ok {
		return v
	}
	return -1
}

var errC14Prep = errors.New("injected prepare failure")
var errC14Use = errors.New("injected exec failure")

type c14Gate struct {
	kind string // "P" | "U"
	text int
	ch   chan string
}

type c14Op struct {
	Kind string `json:"kind"` // use | tx | reset | close
	View int    `json:"view"`
	Text int    `json:"text"`
}

type c14Event struct {
	T    int    `json:"t"`
	What string `json:"what"` // start | arriveP | arriveU | relP:ans | relU:ans | fin
	Text int    `json:"text"`
}

type c14World struct {
	mu      sync.Mutex
	sqlDB   *sql.DB
	views   []*gorm.PreparedStmtDB
	gates   map[int]*c14Gate
	sticky  map[int]string // answer already given to thread's statement execution (database/sql retries ErrBadConn)
	handles []*sql.Stmt    // statements returned by pool-level PrepareContext, in order
	htx     []bool
	preps   []int // pool-level PrepareContext calls per text
	results []string
	started []bool
	events  []c14Event
	ops     []c14Op
	openDrv int64 // driver-level open statements
	gated   bool  // false: nothing parks (free-running mode)
	wg      sync.WaitGroup
	// abandoned (under mu): the controller gave up on this world (hang): nothing parks any more, every parked
	// and every later driver call fails immediately, so that whatever can still unwind does
	abandoned bool
	maxOpen   int // > 0: database/sql pool limit (suite "pool"); 0 = unlimited
	shape     int // which SQL texts stand behind the text indexes (c14ShapedSQL)
}

// ---- fake driver ----
type c14Connector struct{ w *c14World }
type c14Conn struct{ w *c14World }
type c14Stmt struct {
	w      *c14World
	q      string
	closed int32
}
type c14Tx struct{}
type c14Rows struct {
	v int64
	n int
}

func (c *c14Connector) Connect(context.Context) (driver.Conn, error) { return &c14Conn{c.w}, nil }
func (c *c14Connector) Driver() driver.Driver                        { return nil }
func (c *c14Conn) Prepare(q string) (driver.Stmt, error) {
	atomic.AddInt64(&c.w.openDrv, 1)
	return &c14Stmt{w: c.w, q: q}, nil
}
func (c *c14Conn) Close() error              { return nil }
func (c *c14Conn) Begin() (driver.Tx, error) { return c14Tx{}, nil }
func (c14Tx) Commit() error                  { return nil }
func (c14Tx) Rollback() error                { return nil }
func (s *c14Stmt) Close() error {
	if atomic.CompareAndSwapInt32(&s.closed, 0, 1) {
		atomic.AddInt64(&s.w.openDrv, -1)
	}
	return nil
}
func (s *c14Stmt) NumInput() int { return -1 }
func (s *c14Stmt) Exec([]driver.Value) (driver.Result, error) {
	return nil, errors.New("use ExecContext")
}
func (s *c14Stmt) Query([]driver.Value) (driver.Rows, error) {
	return nil, errors.New("use QueryContext")
}
func c14RowValue(q string) int64 {
	var h int64 = 7
	for _, c := range q {
		h = h*31 + int64(c)
	}
	return h % 100000
}
func (s *c14Stmt) ExecContext(ctx context.Context, _ []driver.NamedValue) (driver.Result, error) {
	if err := s.w.useGate(ctx, s.q); err != nil {
		return nil, err
	}
	return driver.RowsAffected(c14RowValue(s.q)), nil
}
func (s *c14Stmt) QueryContext(ctx context.Context, _ []driver.NamedValue) (driver.Rows, error) {
	if err := s.w.useGate(ctx, s.q); err != nil {
		return nil, err
	}
	return &c14Rows{v: c14RowValue(s.q)}, nil
}
func (r *c14Rows) Columns() []string { return []string{"x"} }
func (r *c14Rows) Close() error      { return nil }
func (r *c14Rows) Next(dest []driver.Value) error {
	if r.n > 0 {
		return io.EOF
	}
	r.n++
	dest[0] = r.v
	return nil
}

// c14TextOf: the text index behind an SQL text of a forced world (texts of the non-default SHAPES are registered by
// c14ShapedSQL, harness/c14_texts.go: they need not be parseable — the empty text, texts differing only in letter case)
func c14TextOf(q string) int {
	if v, ok := c14ShapeIndex.Load(q); ok {
		return v.(int)
	}
	var n int
	fmt.Sscanf(q, "SELECT %d", &n)
	return n
}
func c14SQL(text int) string { return fmt.Sprintf("SELECT %d /* c14 */", text) }

func (w *c14World) park(tid int, kind string, text int) string {
	g := &c14Gate{kind: kind, text: text, ch: make(chan string, 1)}
	w.mu.Lock()
	if w.abandoned {
		w.mu.Unlock()
		return "err"
	}
	w.gates[tid] = g
	w.events = append(w.events, c14Event{tid, "arrive" + kind, text})
	w.mu.Unlock()
	ans := <-g.ch
	return ans
}

func (w *c14World) useGate(ctx context.Context, q string) error {
	tid := c14Tid(ctx)
	if tid < 0 || !w.gated {
		return nil
	}
	w.mu.Lock()
	ans, ok := w.sticky[tid]
	w.mu.Unlock()
	if !ok {
		ans = w.park(tid, "U", c14TextOf(q))
		w.mu.Lock()
		w.sticky[tid] = ans
		w.mu.Unlock()
	}
	switch ans {
	case "err":
		return errC14Use
	case "bad":
		return driver.ErrBadConn
	}
	return nil
}

// ---- parking ConnPool in front of *sql.DB / *sql.Tx ----
type c14Preparer interface {
	PrepareContext(ctx context.Context, query string) (*sql.Stmt, error)
}

func (w *c14World) prepare(ctx context.Context, inner c14Preparer, q string, tx bool) (*sql.Stmt, error) {
	tid := c14Tid(ctx)
	text := c14TextOf(q)
	w.mu.Lock()
	for len(w.preps) <= text {
		w.preps = append(w.preps, 0)
	}
	w.preps[text]++
	w.mu.Unlock()
	if tid >= 0 && w.gated {
		if ans := w.park(tid, "P", text); ans != "ok" {
			return nil, errC14Prep
		}
	}
	st, err := inner.PrepareContext(ctx, q)
	if err == nil {
		w.mu.Lock()
		w.handles = append(w.handles, st)
		w.htx = append(w.htx, tx)
		w.mu.Unlock()
	}
	return st, err
}

type c14Pool struct {
	*sql.DB
	w *c14World
}

func (p *c14Pool) PrepareContext(ctx context.Context, q string) (*sql.Stmt, error) {
	return p.w.prepare(ctx, p.DB, q, false)
}
func (p *c14Pool) BeginTx(ctx context.Context, opts *sql.TxOptions) (gorm.ConnPool, error) {
	tx, err := p.DB.BeginTx(ctx, opts)
	if err != nil {
		return nil, err
	}
	return &c14PoolTx{Tx: tx, w: p.w}, nil
}

type c14PoolTx struct {
	*sql.Tx
	w *c14World
}

func (t *c14PoolTx) PrepareContext(ctx context.Context, q string) (*sql.Stmt, error) {
	return t.w.prepare(ctx, t.Tx, q, true)
}

func newC14World(nViews int, ops []c14Op, gated bool) *c14World {
	return newC14WorldPool(nViews, ops, gated, 0)
}

func newC14WorldPool(nViews int, ops []c14Op, gated bool, maxOpen int) *c14World {
	w := &c14World{gates: map[int]*c14Gate{}, sticky: map[int]string{}, ops: ops, gated: gated, maxOpen: maxOpen,
		results: make([]string, len(ops)), started: make([]bool, len(ops))}
	w.sqlDB = sql.OpenDB(&c14Connector{w})
	if maxOpen > 0 {
		w.sqlDB.SetMaxOpenConns(maxOpen)
	}
	pool := &c14Pool{DB: w.sqlDB, w: w}
	// The structs are obtained the way an application obtains them, so the world follows the gorm.go under check:
	// view 0 = the database's own cache (gorm.Open with Config.PrepareStmt: NewPreparedStmtDB + cacheStore.Store),
	// every further view = what db.Session(&Session{PrepareStmt: true}) hands to the new handle — a second struct
	// around the registered cache's Mux and current map (unrepaired F14a), or the registered struct itself.
	db, err := gorm.Open(c14Dialector{pool: pool}, &gorm.Config{PrepareStmt: true, DisableAutomaticPing: true, Logger: logger.Discard})
	if err != nil {
		panic("c14 world: gorm.Open: " + err.Error())
	}
	v0, ok := db.ConnPool.(*gorm.PreparedStmtDB)
	if !ok {
		panic(fmt.Sprintf("c14 world: gorm.Open(PrepareStmt) left ConnPool %T", db.ConnPool))
	}
	w.views = []*gorm.PreparedStmtDB{v0}
	for i := 1; i < nViews; i++ {
		v, ok := db.Session(&gorm.Session{PrepareStmt: true}).Statement.ConnPool.(*gorm.PreparedStmtDB)
		if !ok {
			panic("c14 world: Session(PrepareStmt) did not yield a *PreparedStmtDB")
		}
		w.views = append(w.views, v)
	}
	return w
}

// c14Dialector: no database behind it — Initialize only installs the parking pool as the ConnPool of gorm.Open
type c14Dialector struct {
	dummyDialector
	pool gorm.ConnPool
}

func (d c14Dialector) Initialize(db *gorm.DB) error { db.ConnPool = d.pool; return nil }

// vstruct: identity of the struct behind every view (index of the first view holding the same *PreparedStmtDB)
func (w *c14World) vstruct() []int {
	out := make([]int, len(w.views))
	ids := map[*gorm.PreparedStmtDB]int{}
	for i, v := range w.views {
		if _, ok := ids[v]; !ok {
			ids[v] = len(ids)
		}
		out[i] = ids[v]
	}
	return out
}

func c14Classify(err error) string {
	switch {
	case err == nil:
		return "rows"
	case errors.Is(err, errC14Prep):
		return "prepErr"
	case errors.Is(err, errC14Use):
		return "useErr"
	case errors.Is(err, driver.ErrBadConn):
		return "badConn"
	case errors.Is(err, gorm.ErrInvalidDB):
		return "invalidDB"
	case strings.Contains(err.Error(), "statement is closed"):
		return "stmtClosed"
	}
	return "other:" + err.Error()
}

func (w *c14World) runOp(tid int) (res string) {
	defer func() {
		if p := recover(); p != nil {
			res = fmt.Sprintf("panic:%v", p)
		}
	}()
	op := w.ops[tid]
	ctx := context.WithValue(context.Background(), c14TidKey{}, tid)
	v := w.views[op.View]
	q := c14ShapedSQL(w.shape, op.Text)
	switch op.Kind {
	case "reset":
		v.Reset()
		return "done"
	case "close":
		v.Close()
		return "done"
	case "use":
		if tid%2 == 0 {
			r, err := v.ExecContext(ctx, q)
			if err == nil {
				if n, _ := r.RowsAffected(); n != c14RowValue(q) {
					return "wrongRows"
				}
			}
			return c14Classify(err)
		}
		rows, err := v.QueryContext(ctx, q)
		if err != nil {
			return c14Classify(err)
		}
		defer rows.Close()
		var x int64
		if !rows.Next() {
			return "wrongRows"
		}
		if rows.Scan(&x) != nil || x != c14RowValue(q) {
			return "wrongRows"
		}
		return "rows"
	case "tx2":
		// suite "pool" only: one transaction, two statements (texts q, then q+2); the transaction owns its
		// connection from BeginTx to Commit/Rollback
		cp, err := v.BeginTx(ctx, nil)
		if err != nil {
			return "other:" + err.Error()
		}
		tx := cp.(*gorm.PreparedStmtTX)
		for k := 0; k < 2 && err == nil; k++ {
			qk := c14ShapedSQL(w.shape, op.Text+2*k)
			var r sql.Result
			r, err = tx.ExecContext(ctx, qk)
			if err == nil {
				if n, _ := r.RowsAffected(); n != c14RowValue(qk) {
					err = errors.New("wrongRows")
				}
			}
			w.mu.Lock()
			delete(w.sticky, tid) // the next statement of this goroutine parks again
			w.mu.Unlock()
		}
		if err == nil {
			_ = tx.Commit()
		} else {
			_ = tx.Rollback()
		}
		return c14Classify(err)
	case "tx":
		cp, err := v.BeginTx(ctx, nil)
		if err != nil {
			return "other:" + err.Error()
		}
		tx := cp.(*gorm.PreparedStmtTX)
		r, err := tx.ExecContext(ctx, q)
		if err == nil {
			if n, _ := r.RowsAffected(); n != c14RowValue(q) {
				err = errors.New("wrongRows")
			}
		}
		if err == nil {
			_ = tx.Commit()
		} else {
			_ = tx.Rollback()
		}
		return c14Classify(err)
	}
	return "bad-op"
}

func (w *c14World) start(tid int) {
	w.mu.Lock()
	w.started[tid] = true
	w.events = append(w.events, c14Event{tid, "start", w.ops[tid].Text})
	w.mu.Unlock()
	w.wg.Add(1)
	go func() {
		defer w.wg.Done()
		r := w.runOp(tid)
		w.mu.Lock()
		w.results[tid] = r
		w.events = append(w.events, c14Event{tid, "fin", w.ops[tid].Text})
		w.mu.Unlock()
	}()
}

func (w *c14World) release(tid int, ans string) {
	w.mu.Lock()
	g := w.gates[tid]
	delete(w.gates, tid)
	w.events = append(w.events, c14Event{tid, "rel" + g.kind + ":" + ans, g.text})
	w.mu.Unlock()
	g.ch <- ans
}

// abandon gives up on a world whose goroutines hang: every parked driver call is answered with an error and no
// later call parks, so every goroutine that is not blocked inside the cache for good unwinds; then the cache
// structs and the pool are closed from a helper goroutine (Close may itself block on the cache mutex of a broken
// cache, the controller must not).  Goroutines that stay blocked forever are left behind: they hold no OS resource
// and do not keep the process from exiting.
func (w *c14World) abandon() {
	w.mu.Lock()
	w.abandoned = true
	gs := w.gates
	w.gates = map[int]*c14Gate{}
	w.mu.Unlock()
	for _, g := range gs {
		g.ch <- "err"
	}
	go func() {
		for _, v := range w.views {
			v.Close()
		}
		w.sqlDB.Close()
	}()
	c14Settle(200 * time.Millisecond)
}

// gate snapshot sorted by thread: [[t,"P"|"U"]...]
func (w *c14World) gateList() [][]interface{} {
	w.mu.Lock()
	defer w.mu.Unlock()
	out := [][]interface{}{}
	for t := range w.ops {
		if g, ok := w.gates[t]; ok {
			out = append(out, []interface{}{t, g.kind})
		}
	}
	return out
}

var c14StackBuf = make([]byte, 1<<20)

// c14AllBlocked: consistent (stop-the-world) snapshot in which no goroutine but the caller can run.
func c14AllBlocked() bool {
	n := runtime.Stack(c14StackBuf, true)
	s := c14StackBuf[:n]
	running := 0
	for len(s) > 0 {
		i := strings.Index(string(s), "goroutine ")
		if i < 0 {
			break
		}
		s = s[i:]
		j := strings.IndexByte(string(s), '\n')
		if j < 0 {
			j = len(s)
		}
		head := string(s[:j])
		s = s[j:]
		if !strings.HasSuffix(head, "]:") {
			continue
		}
		k := strings.IndexByte(head, '[')
		if k < 0 {
			continue
		}
		st := head[k+1:]
		if strings.HasPrefix(st, "running") || strings.HasPrefix(st, "runnable") {
			running++
		}
	}
	return running <= 1 // the controller itself
}

// settle waits until nothing but the controller can make progress; false = timeout
func c14Settle(timeout time.Duration) bool {
	deadline := time.Now().Add(timeout)
	for {
		runtime.Gosched()
		if c14AllBlocked() {
			runtime.Gosched()
			if c14AllBlocked() {
				return true
			}
		}
		if time.Now().After(deadline) {
			return false
		}
		time.Sleep(20 * time.Microsecond)
	}
}

func c14StmtClosed(st *sql.Stmt) bool {
	return reflect.ValueOf(st).Elem().FieldByName("closed").Bool()
}

func (w *c14World) closedFlags() []bool {
	w.mu.Lock()
	defer w.mu.Unlock()
	out := make([]bool, len(w.handles))
	for i, h := range w.handles {
		out[i] = c14StmtClosed(h)
	}
	return out
}

func (w *c14World) allDone() bool {
	w.mu.Lock()
	defer w.mu.Unlock()
	for t := range w.ops {
		if !w.started[t] || w.results[t] == "" {
			return false
		}
	}
	return true
}
