package main

import (
	"fmt"
	"math/rand"
	"testing"

	"gorm.io/gorm"
)

func TestC08XDestJoins(t *testing.T) {
	db, _, sqlDB := OpenRec(&gorm.Config{NowFunc: fixedNowFunc})
	defer sqlDB.Close()
	c08DSeed(db, rand.New(rand.NewSource(5)))
	db.Exec("UPDATE d8_owners SET deleted_at = NULL")
	db.Exec("UPDATE d8_firms SET deleted_at = NULL")
	db.Exec("UPDATE d8_orders SET deleted_at = NULL")
	db.Exec("UPDATE d8_owners SET boss_id = 1 WHERE id = 2")
	var o D8Owner
	fmt.Println(db.Joins("Firm").Joins("Boss").Take(&o, 2).Error, o.Firm.ID, o.Boss != nil)
	db.Exec("UPDATE d8_owners SET deleted_at = '2020-01-01' WHERE id = 1")
	db.Exec("UPDATE d8_firms SET deleted_at = '2020-01-01'")
	fmt.Println(db.Joins("Firm").Joins("Boss").Take(&o, 2).Error, o.Firm.ID, o.Boss != nil)
	var ord D8Order
	fmt.Println(db.Joins("Owner").Joins("Payer").Take(&ord, 1).Error, ord.OwnerID, ord.Owner != nil, ord.PayerID, ord.Payer.ID)
	db.Exec("UPDATE d8_owners SET deleted_at = '2020-01-01'")
	fmt.Println(db.Joins("Owner").Joins("Payer").Take(&ord, 1).Error, ord.OwnerID, ord.Owner != nil, ord.PayerID, ord.Payer.ID)
}
