package main

// C13 compound world: three related models (parent -belongs to-> boss, parent -has many-> kids), every one of
// them implementing all nine hooks, an event log that interleaves hook invocations with the statements gorm
// sends (probe callbacks) and with the position in the recording driver's stream, and an executor for the
// COMPOUND finishers (Save, FirstOrCreate, CreateInBatches, Create with CreateBatchSize, association
// auto-saves, Delete with Select-ed associations, Updates/Delete over slices, Find/First/Take/Preload/FindInBatches)
// in four contexts (default transaction, user transaction, SkipDefaultTransaction, PrepareStmt).

import (
	"fmt"
	"sort"
	"strings"
	"sync"

	"gorm.io/gorm"
	"gorm.io/gorm/clause"
)

type c13xEv struct {
	Kind  string `json:"k"` // hook name, or "stmt:<pipeline>" (probe callback right after the statement callback)
	Table string `json:"t"`
	Name  string `json:"n"`
	Pool  int    `json:"pool"` // index of the distinct ConnPool identity (tx.Statement.ConnPool) within the case
	IsTx  bool   `json:"tx"`
	Drv   int    `json:"drv"` // number of driver-level events recorded before this event
}

func (e c13xEv) isStmt() bool { return strings.HasPrefix(e.Kind, "stmt:") }
func (e c13xEv) short() string {
	if e.isStmt() {
		return e.Kind + "/" + e.Table
	}
	return e.Kind + "/" + e.Table + "/" + e.Name
}

var c13x struct {
	mu       sync.Mutex
	log      []c13xEv
	pools    []interface{} // kept alive so that identities (addresses) cannot be reused within a case
	failAt   string        // "<Hook>/<table>/<name>"
	failErr  string        // error VALUE kind the failing hook returns (c13_errvals.go)
	returned []error       // error objects returned by failing hooks
	rec      *Recorder
}

func c13xPoolID(p gorm.ConnPool) (int, bool) {
	if w, ok := p.(*gorm.PreparedStmtTX); ok && w != nil {
		p = w.Tx
	}
	if w, ok := p.(*gorm.PreparedStmtDB); ok && w != nil {
		p = w.ConnPool
	}
	_, isTx := p.(gorm.TxCommitter)
	for i, q := range c13x.pools {
		if q == interface{}(p) {
			return i, isTx
		}
	}
	c13x.pools = append(c13x.pools, p)
	return len(c13x.pools) - 1, isTx
}

func c13xDrvPos() int {
	if c13x.rec == nil {
		return 0
	}
	c13x.rec.mu.Lock()
	defer c13x.rec.mu.Unlock()
	return len(c13x.rec.Events)
}

func c13xHook(hook, table, name string, tx *gorm.DB) error {
	pos := c13xDrvPos()
	c13x.mu.Lock()
	defer c13x.mu.Unlock()
	id, isTx := c13xPoolID(tx.Statement.ConnPool)
	c13x.log = append(c13x.log, c13xEv{hook, table, name, id, isTx, pos})
	if c13x.failAt == hook+"/"+table+"/"+name {
		kind := c13x.failErr
		c13x.mu.Unlock()
		err := c13MakeErr(kind, tx, hook) // may issue statements through tx (probe callbacks take the lock)
		c13x.mu.Lock()
		c13x.returned = append(c13x.returned, err)
		return err
	}
	return nil
}

func c13xProbe(kind string) func(db *gorm.DB) {
	return func(db *gorm.DB) {
		if db.Error != nil || db.Statement.Schema == nil || db.DryRun || db.Statement.Table == "hxuniq" {
			return
		}
		pos := c13xDrvPos()
		c13x.mu.Lock()
		defer c13x.mu.Unlock()
		id, isTx := c13xPoolID(db.Statement.ConnPool)
		c13x.log = append(c13x.log, c13xEv{"stmt:" + kind, db.Statement.Table, "", id, isTx, pos})
	}
}

// ---- models -------------------------------------------------------------------------------------

type HxBoss struct {
	ID   uint `gorm:"primaryKey"`
	Name string
	Tag  string
	Note string
	Hits int
}
type HxKid struct {
	ID         uint `gorm:"primaryKey"`
	Name       string
	Tag        string
	Note       string
	Hits       int
	HxParentID uint
}
type HxParent struct {
	ID     uint `gorm:"primaryKey"`
	Name   string
	Tag    string
	Note   string
	Hits   int
	BossID *uint
	Boss   *HxBoss
	Kids   []HxKid
}

func (HxBoss) TableName() string   { return "hxboss" }
func (HxKid) TableName() string    { return "hxkid" }
func (HxParent) TableName() string { return "hxparent" }

var c13xTables = []string{"hxparent", "hxkid", "hxboss"}

// every model: BeforeSave counts (non-idempotent side effect), BeforeCreate assigns Tag directly and Note
// through SetColumn, BeforeUpdate sets Note through SetColumn
func c13xBC(tx *gorm.DB, tag *string, name string) {
	*tag = "direct:" + name
	tx.Statement.SetColumn("Note", "setcolumn:"+name)
}

func (h *HxParent) BeforeSave(tx *gorm.DB) error {
	h.Hits++
	return c13xHook("BeforeSave", "hxparent", h.Name, tx)
}
func (h *HxParent) BeforeCreate(tx *gorm.DB) error {
	c13xBC(tx, &h.Tag, h.Name)
	return c13xHook("BeforeCreate", "hxparent", h.Name, tx)
}
func (h *HxParent) AfterCreate(tx *gorm.DB) error {
	return c13xHook("AfterCreate", "hxparent", h.Name, tx)
}
func (h *HxParent) AfterSave(tx *gorm.DB) error { return c13xHook("AfterSave", "hxparent", h.Name, tx) }
func (h *HxParent) BeforeUpdate(tx *gorm.DB) error {
	tx.Statement.SetColumn("Note", "updhook:"+h.Name)
	return c13xHook("BeforeUpdate", "hxparent", h.Name, tx)
}
func (h *HxParent) AfterUpdate(tx *gorm.DB) error {
	return c13xHook("AfterUpdate", "hxparent", h.Name, tx)
}
func (h *HxParent) BeforeDelete(tx *gorm.DB) error {
	return c13xHook("BeforeDelete", "hxparent", h.Name, tx)
}
func (h *HxParent) AfterDelete(tx *gorm.DB) error {
	return c13xHook("AfterDelete", "hxparent", h.Name, tx)
}
func (h *HxParent) AfterFind(tx *gorm.DB) error { return c13xHook("AfterFind", "hxparent", h.Name, tx) }

func (h *HxKid) BeforeSave(tx *gorm.DB) error {
	h.Hits++
	return c13xHook("BeforeSave", "hxkid", h.Name, tx)
}
func (h *HxKid) BeforeCreate(tx *gorm.DB) error {
	c13xBC(tx, &h.Tag, h.Name)
	return c13xHook("BeforeCreate", "hxkid", h.Name, tx)
}
func (h *HxKid) AfterCreate(tx *gorm.DB) error { return c13xHook("AfterCreate", "hxkid", h.Name, tx) }
func (h *HxKid) AfterSave(tx *gorm.DB) error   { return c13xHook("AfterSave", "hxkid", h.Name, tx) }
func (h *HxKid) BeforeUpdate(tx *gorm.DB) error {
	tx.Statement.SetColumn("Note", "updhook:"+h.Name)
	return c13xHook("BeforeUpdate", "hxkid", h.Name, tx)
}
func (h *HxKid) AfterUpdate(tx *gorm.DB) error  { return c13xHook("AfterUpdate", "hxkid", h.Name, tx) }
func (h *HxKid) BeforeDelete(tx *gorm.DB) error { return c13xHook("BeforeDelete", "hxkid", h.Name, tx) }
func (h *HxKid) AfterDelete(tx *gorm.DB) error  { return c13xHook("AfterDelete", "hxkid", h.Name, tx) }
func (h *HxKid) AfterFind(tx *gorm.DB) error    { return c13xHook("AfterFind", "hxkid", h.Name, tx) }

func (h *HxBoss) BeforeSave(tx *gorm.DB) error {
	h.Hits++
	return c13xHook("BeforeSave", "hxboss", h.Name, tx)
}
func (h *HxBoss) BeforeCreate(tx *gorm.DB) error {
	c13xBC(tx, &h.Tag, h.Name)
	return c13xHook("BeforeCreate", "hxboss", h.Name, tx)
}
func (h *HxBoss) AfterCreate(tx *gorm.DB) error { return c13xHook("AfterCreate", "hxboss", h.Name, tx) }
func (h *HxBoss) AfterSave(tx *gorm.DB) error   { return c13xHook("AfterSave", "hxboss", h.Name, tx) }
func (h *HxBoss) BeforeUpdate(tx *gorm.DB) error {
	tx.Statement.SetColumn("Note", "updhook:"+h.Name)
	return c13xHook("BeforeUpdate", "hxboss", h.Name, tx)
}
func (h *HxBoss) AfterUpdate(tx *gorm.DB) error { return c13xHook("AfterUpdate", "hxboss", h.Name, tx) }
func (h *HxBoss) BeforeDelete(tx *gorm.DB) error {
	return c13xHook("BeforeDelete", "hxboss", h.Name, tx)
}
func (h *HxBoss) AfterDelete(tx *gorm.DB) error { return c13xHook("AfterDelete", "hxboss", h.Name, tx) }
func (h *HxBoss) AfterFind(tx *gorm.DB) error   { return c13xHook("AfterFind", "hxboss", h.Name, tx) }

// ---- case ---------------------------------------------------------------------------------------

type c13xCase struct {
	Op    string   `json:"op"`              // create save firstorcreate updates delete find
	Via   string   `json:"via,omitempty"`   // create: "", inbatches, session, config | updates: map, struct, update | find: find, first, take, last, batches
	Shape string   `json:"shape"`           // single ptrslice valslice
	N     int      `json:"n"`               // number of top-level records (seeded rows for updates/delete/find)
	Keys  []string `json:"keys,omitempty"`  // save/firstorcreate: per record zero | existing | missing
	Batch int      `json:"batch,omitempty"` // batch size (create via inbatches/session/config, find via batches)
	Sel   string   `json:"sel,omitempty"`   // "", select:name,tag  omit:tag  select:*  omit:assoc  select:Kids select:assoc | firstorcreate: attrs assign | find: preload:Kids preload:Boss preload:assoc
	Assoc string   `json:"assoc,omitempty"` // in-memory associations of the records written: "", kids, boss, both
	Ctx   string   `json:"ctx,omitempty"`   // "" (default transaction), usertx, skipdefault, prepare, nested, prepare-session
	Skip  string   `json:"skip,omitempty"`  // "", session, updatecolumn, updatecolumns
	// fault: a hook invocation that returns an error, or the k-th (1-based) write statement failing at the driver
	FailAt   string `json:"fail_at,omitempty"`
	FailStmt int    `json:"fail_stmt,omitempty"`
	FailErr  string `json:"fail_err,omitempty"` // error VALUE kind of the failing hook (c13ErrKinds; "" = plain)
}

type c13xObs struct {
	Events      []c13xEv            `json:"events"`
	Err         string              `json:"err"`
	Before      map[string][]string `json:"-"`
	After       map[string][]string `json:"after"`
	Writes      []int               `json:"write_windows"` // per write statement at the driver: index of the begin..commit window it lies in (-1 = outside any)
	Windows     int                 `json:"windows"`
	Batches     []int               `json:"batches,omitempty"` // rows per INSERT into hxparent, in order
	ErrReturned bool                `json:"err_returned"`      // the result carries every error a failing hook returned
}

func c13xDump(db *gorm.DB, rec *Recorder) map[string][]string {
	rec.mu.Lock()
	off := rec.Off
	rec.Off = true
	rec.mu.Unlock()
	defer func() { rec.mu.Lock(); rec.Off = off; rec.mu.Unlock() }()
	out := map[string][]string{}
	raw := db.Session(&gorm.Session{NewDB: true, SkipHooks: true})
	for _, t := range c13xTables {
		fk := "0"
		if t == "hxparent" {
			fk = "ifnull(boss_id,0)"
		} else if t == "hxkid" {
			fk = "hx_parent_id"
		}
		rows, err := raw.Raw("SELECT id, name, tag, note, hits, " + fk + " FROM " + t + " ORDER BY id").Rows()
		if err != nil {
			out[t] = []string{"ERR " + err.Error()}
			continue
		}
		list := []string{}
		for rows.Next() {
			var id, hits, f int
			var a, b, c string
			_ = rows.Scan(&id, &a, &b, &c, &hits, &f)
			list = append(list, fmt.Sprintf("%d|%s|%s|%s|%d|%d", id, a, b, c, hits, f))
		}
		rows.Close()
		out[t] = list
	}
	out["aux"] = c13AuxDump(db)
	return out
}

func c13xName(i int) string { return fmt.Sprint("p", i) }

func c13xMk(c c13xCase, i int, id uint) HxParent {
	p := HxParent{ID: id, Name: c13xName(i), Tag: "mem"}
	if c.Assoc == "kids" || c.Assoc == "both" {
		p.Kids = []HxKid{{Name: p.Name + "k0"}, {Name: p.Name + "k1"}}
	}
	if c.Assoc == "boss" || c.Assoc == "both" {
		p.Boss = &HxBoss{Name: p.Name + "b"}
	}
	return p
}

func c13xApplySel(h *gorm.DB, sel string) *gorm.DB {
	switch {
	case sel == "select:*":
		return h.Select("*")
	case sel == "select:assoc":
		return h.Select(clause.Associations)
	case sel == "omit:assoc":
		return h.Omit(clause.Associations)
	case strings.HasPrefix(sel, "select:"):
		parts := strings.Split(strings.TrimPrefix(sel, "select:"), ",")
		args := make([]interface{}, len(parts)-1)
		for i, p := range parts[1:] {
			args[i] = p
		}
		return h.Select(parts[0], args...)
	case strings.HasPrefix(sel, "omit:"):
		return h.Omit(strings.Split(strings.TrimPrefix(sel, "omit:"), ",")...)
	case strings.HasPrefix(sel, "preload:"):
		what := strings.TrimPrefix(sel, "preload:")
		if what == "assoc" {
			return h.Preload(clause.Associations)
		}
		for _, p := range strings.Split(what, ",") {
			h = h.Preload(p)
		}
		return h
	}
	return h
}

// c13xExec runs the operation of the case on handle h.
func c13xExec(h *gorm.DB, c c13xCase) *gorm.DB {
	ids := func(i int) uint {
		if i < len(c.Keys) {
			switch c.Keys[i] {
			case "existing":
				return uint(i + 1)
			case "missing":
				return uint(100 + i)
			}
		}
		return 0
	}
	switch c.Op {
	case "create", "save":
		h = c13xApplySel(h, c.Sel)
		call := func(v interface{}) *gorm.DB {
			if c.Op == "save" {
				return h.Save(v)
			}
			switch c.Via {
			case "inbatches":
				return h.CreateInBatches(v, c.Batch)
			case "session":
				return h.Session(&gorm.Session{CreateBatchSize: c.Batch}).Create(v)
			}
			return h.Create(v) // "", config
		}
		switch c.Shape {
		case "ptrslice":
			items := make([]*HxParent, c.N)
			for i := range items {
				it := c13xMk(c, i, ids(i))
				items[i] = &it
			}
			return call(&items)
		case "valslice":
			items := make([]HxParent, c.N)
			for i := range items {
				items[i] = c13xMk(c, i, ids(i))
			}
			return call(&items)
		case "slicevalue": // the slice itself, not a pointer to it (elements are pointers, hence addressable)
			items := make([]*HxParent, c.N)
			for i := range items {
				it := c13xMk(c, i, ids(i))
				items[i] = &it
			}
			return call(items)
		}
		it := c13xMk(c, 0, ids(0))
		return call(&it)
	case "firstorcreate":
		q := h.Where(HxParent{Name: c13xName(0)})
		switch c.Sel {
		case "attrs":
			q = q.Attrs(HxParent{Tag: "attr"})
		case "assign":
			q = q.Assign(HxParent{Tag: "asg"})
		}
		var dest HxParent
		return q.FirstOrCreate(&dest)
	case "updates":
		var m *gorm.DB
		switch c.Shape {
		case "ptrslice":
			items := make([]*HxParent, c.N)
			for i := range items {
				items[i] = &HxParent{ID: uint(i + 1), Name: c13xName(i)}
			}
			m = h.Model(&items)
		case "valslice":
			items := make([]HxParent, c.N)
			for i := range items {
				items[i] = HxParent{ID: uint(i + 1), Name: c13xName(i)}
			}
			m = h.Model(&items)
		default:
			m = h.Model(&HxParent{ID: 1, Name: c13xName(0)})
		}
		switch c.Skip {
		case "updatecolumn":
			return m.UpdateColumn("tag", "uc")
		case "updatecolumns":
			return m.UpdateColumns(map[string]interface{}{"tag": "ucs"})
		}
		switch c.Via {
		case "struct":
			return m.Updates(HxParent{Tag: "upd"})
		case "update":
			return m.Update("tag", "upd")
		}
		return m.Updates(map[string]interface{}{"tag": "upd"})
	case "delete":
		h = c13xApplySel(h, c.Sel)
		switch c.Shape {
		case "ptrslice":
			items := make([]*HxParent, c.N)
			for i := range items {
				items[i] = &HxParent{ID: uint(i + 1), Name: c13xName(i)}
			}
			return h.Delete(&items)
		case "valslice":
			items := make([]HxParent, c.N)
			for i := range items {
				items[i] = HxParent{ID: uint(i + 1), Name: c13xName(i)}
			}
			return h.Delete(&items)
		}
		return h.Delete(&HxParent{ID: 1, Name: c13xName(0)})
	case "find":
		h = c13xApplySel(h, c.Sel)
		switch c.Via {
		case "first":
			var one HxParent
			return h.First(&one)
		case "take":
			var one HxParent
			return h.Take(&one)
		case "last":
			var one HxParent
			return h.Last(&one)
		case "batches":
			var items []HxParent
			return h.FindInBatches(&items, c.Batch, func(tx *gorm.DB, batch int) error { return nil })
		}
		if c.Shape == "ptrslice" {
			var items []*HxParent
			return h.Order("id").Find(&items)
		}
		var items []HxParent
		return h.Order("id").Find(&items)
	}
	panic("c13x: unknown op " + c.Op)
}

// c13xRun executes one case on a fresh database.
func c13xRun(c c13xCase) c13xObs {
	cfg := &gorm.Config{}
	switch c.Ctx {
	case "skipdefault":
		cfg.SkipDefaultTransaction = true
	case "prepare":
		cfg.PrepareStmt = true
	}
	if c.Via == "config" {
		cfg.CreateBatchSize = c.Batch
	}
	db, rec, sqlDB := OpenRec(cfg)
	defer sqlDB.Close()
	if err := db.AutoMigrate(&HxBoss{}, &HxParent{}, &HxKid{}); err != nil {
		panic(err)
	}
	_ = db.Callback().Create().After("gorm:create").Before("gorm:save_after_associations").Register("c13x:stmt", c13xProbe("create"))
	_ = db.Callback().Update().After("gorm:update").Before("gorm:save_after_associations").Register("c13x:stmt", c13xProbe("update"))
	_ = db.Callback().Delete().After("gorm:delete").Before("gorm:after_delete").Register("c13x:stmt", c13xProbe("delete"))
	_ = db.Callback().Query().After("gorm:query").Before("gorm:preload").Register("c13x:stmt", c13xProbe("query"))
	c13EnsureAux(db)
	c13x.mu.Lock()
	c13x.failAt, c13x.log, c13x.pools, c13x.rec = "", nil, nil, rec
	c13x.mu.Unlock()
	// seed
	seed := db.Session(&gorm.Session{SkipHooks: true})
	switch c.Op {
	case "save":
		for i, k := range c.Keys {
			if k == "existing" {
				seed.Create(&HxParent{ID: uint(i + 1), Name: c13xName(i), Tag: "old"})
			}
		}
	case "firstorcreate":
		if len(c.Keys) > 0 && c.Keys[0] == "existing" {
			seed.Create(&HxParent{ID: 1, Name: c13xName(0), Tag: "old"})
		}
		seed.Create(&HxParent{ID: 50, Name: "other", Tag: "old"})
	case "updates", "delete", "find":
		for i := 0; i < c.N; i++ {
			n := c13xName(i)
			seed.Create(&HxParent{ID: uint(i + 1), Name: n, Tag: "old", Boss: &HxBoss{Name: n + "b"},
				Kids: []HxKid{{Name: n + "k0"}, {Name: n + "k1"}}})
		}
	}
	var obs c13xObs
	obs.Before = c13xDump(db, rec)
	c13x.mu.Lock()
	c13x.failAt, c13x.log, c13x.pools = c.FailAt, nil, nil
	c13x.failErr, c13x.returned = c.FailErr, nil
	c13x.mu.Unlock()
	rec.Reset()
	if c.FailStmt > 0 {
		k := 0
		rec.mu.Lock()
		rec.Fault = func(idx int, ev *Event) error {
			if c13xIsWrite(*ev) {
				k++
				if k == c.FailStmt {
					return c13xErrInjected
				}
			}
			return nil
		}
		rec.mu.Unlock()
	}
	h := db
	if c.Ctx == "prepare-session" {
		h = db.Session(&gorm.Session{PrepareStmt: true}) // prepared statements per session, not per config
	}
	if c.Skip == "session" {
		h = h.Session(&gorm.Session{SkipHooks: true})
	}
	var res *gorm.DB
	if c.Ctx == "nested" {
		// the operation runs in an inner Transaction (SAVEPOINT) whose error the outer one swallows and commits:
		// only the rollback to the savepoint can undo what the failed operation did
		_ = db.Transaction(func(tx *gorm.DB) error {
			_ = tx.Transaction(func(tx2 *gorm.DB) error {
				if c.Skip == "session" {
					tx2 = tx2.Session(&gorm.Session{SkipHooks: true})
				}
				res = c13Guard(func() *gorm.DB { return c13xExec(tx2, c) })
				return res.Error
			})
			return nil
		})
	} else if c.Ctx == "usertx" {
		_ = db.Transaction(func(tx *gorm.DB) error {
			if c.Skip == "session" {
				tx = tx.Session(&gorm.Session{SkipHooks: true})
			}
			res = c13Guard(func() *gorm.DB { return c13xExec(tx, c) })
			return res.Error
		})
	} else {
		res = c13Guard(func() *gorm.DB { return c13xExec(h, c) })
	}
	if res != nil && res.Error != nil {
		obs.Err = res.Error.Error()
	}
	rec.mu.Lock()
	rec.Fault = nil
	rec.mu.Unlock()
	c13x.mu.Lock()
	obs.Events = append([]c13xEv{}, c13x.log...)
	returned := c13x.returned
	c13x.failAt, c13x.rec, c13x.failErr, c13x.returned = "", nil, "", nil
	c13x.mu.Unlock()
	obs.ErrReturned = res != nil && res.Error != nil && len(returned) > 0
	for _, e := range returned {
		if !c13ErrCarries(res.Error, e) {
			obs.ErrReturned = false
		}
	}
	// driver-level transaction windows
	win, open := -1, false
	for _, e := range rec.Snapshot() {
		switch e.Kind {
		case "begin":
			if e.Err == "" {
				win++
				open = true
			}
		case "commit", "rollback":
			open = false
		default:
			if c13xIsWrite(e) {
				w := -1
				if open {
					w = win
				}
				obs.Writes = append(obs.Writes, w)
				if strings.HasPrefix(strings.ToUpper(e.SQL), "INSERT INTO `HXPARENT`") && e.Err == "" {
					obs.Batches = append(obs.Batches, strings.Count(e.SQL, "),(")+1)
				}
			}
		}
	}
	obs.Windows = win + 1
	obs.After = c13xDump(db, rec)
	return obs
}

var c13xErrInjected = fmt.Errorf("verif: injected statement failure")

func c13xIsWrite(e Event) bool {
	if e.Kind != "exec" && e.Kind != "stmt_exec" && e.Kind != "query" && e.Kind != "stmt_query" {
		return false
	}
	u := strings.ToUpper(strings.TrimSpace(e.SQL))
	return strings.HasPrefix(u, "INSERT") || strings.HasPrefix(u, "UPDATE") || strings.HasPrefix(u, "DELETE")
}

func c13xShorts(evs []c13xEv) []string {
	out := make([]string, len(evs))
	for i, e := range evs {
		out[i] = e.short()
	}
	return out
}

func c13xSortedKeys(m map[string]bool) []string {
	var ks []string
	for k := range m {
		ks = append(ks, k)
	}
	sort.Strings(ks)
	return ks
}
