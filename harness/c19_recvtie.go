package main

// C19 suite "recvtie": the Lean model of Model/DryRunRecv.lean against the real handles.
//
//   session : for a set of Session fields F, `recv.Session(&Session{F})` on a receiver that carries Model + Where + Unscoped:
//             model `sessionHandle F` = {stmt: recv|empty, fresh, dryRun, skipDefaultTx}  vs  the real handle:
//               stmt  — does the statement of a Find on the handle carry the receiver's condition (and its Unscoped)?
//               fresh — is a chain started on the handle invisible to the next one (clone > 0)?
//               dryRun / skipDefaultTx — Config fields of the handle (the root configuration has both off)
//   tosql   : the same for the handle `recv.ToSQL` passes to its callback  vs  model `toSQLHandle`
//   wire    : model `wire kind sql vars` vs what the recording driver was handed (prepare text, statement text, values) for a
//             raw statement sent through a plain pool / PreparedStmtDB / PreparedStmtTX
// PropagateUnscoped is left out of the flag alphabet (the model's `empty` abstracts from the Unscoped bit it propagates).

import (
	"encoding/json"
	"fmt"
	"math/rand"
	"reflect"
	"sort"
	"strings"

	"gorm.io/gorm"
)

var c19sTested = []string{"NewDB", "Initialized", "PrepareStmt", "SkipHooks", "Context", "DryRun"}
var c19sOther = []string{"SkipDefaultTransaction", "QueryFields", "AllowGlobalUpdate", "FullSaveAssociations", "DisableNestedTransaction", "Logger", "NowFunc", "CreateBatchSize"}

type c19sSpec struct {
	Kind  string   `json:"kind"` // session | tosql | wire
	Flags []string `json:"flags,omitempty"`
	Pool  string   `json:"pool,omitempty"`
	K     int      `json:"k"`
}

type c19sHandle struct {
	Stmt          string `json:"stmt"`
	Fresh         bool   `json:"fresh"`
	DryRun        bool   `json:"dryRun"`
	SkipDefaultTx bool   `json:"skipDefaultTx"`
	OK            bool   `json:"ok"`
}

func c19sSession(flags []string) *gorm.Session {
	s := &gorm.Session{}
	for _, f := range flags {
		switch f {
		case "NewDB":
			s.NewDB = true
		case "Initialized":
			s.Initialized = true
		case "PrepareStmt":
			s.PrepareStmt = true
		case "SkipHooks":
			s.SkipHooks = true
		case "Context":
			s.Context = c19Ctx
		case "DryRun":
			s.DryRun = true
		case "SkipDefaultTransaction":
			s.SkipDefaultTransaction = true
		case "QueryFields":
			s.QueryFields = true
		case "AllowGlobalUpdate":
			s.AllowGlobalUpdate = true
		case "FullSaveAssociations":
			s.FullSaveAssociations = true
		case "DisableNestedTransaction":
			s.DisableNestedTransaction = true
		case "Logger":
			s.Logger = c19sLogger
		case "NowFunc":
			s.NowFunc = fixedNowFunc
		case "CreateBatchSize":
			s.CreateBatchSize = 3
		}
	}
	return s
}

var c19sLogger = c19Config("plain", false).Logger

// c19sObserve: what the handle h (derived from the receiver) shows.  find runs a Find on a handle and returns its text.
func c19sObserve(w *c19World, h *gorm.DB, k int) (o c19sHandle, text string) {
	o.OK = true
	o.DryRun = h.Config.DryRun
	o.SkipDefaultTx = h.Config.SkipDefaultTransaction
	find := func(q *gorm.DB) string {
		var xs []C19Plain
		w.rec.Reset()
		res := q.Find(&xs)
		evs := w.rec.Snapshot()
		w.rec.Reset()
		for i := len(evs) - 1; i >= 0; i-- {
			if c19IsStmtKind(evs[i].Kind) {
				return evs[i].SQL
			}
		}
		if res.Statement != nil {
			return res.Statement.SQL.String()
		}
		return ""
	}
	_ = h.Where("name = ?", fmt.Sprint("fresh", k)) // a chain started on h and thrown away
	text = find(h)
	o.Fresh = !strings.Contains(text, "name = ?")
	hasCond := strings.Contains(text, "age > ?")
	scoped := strings.Contains(text, "`deleted_at` IS NULL")
	switch {
	case hasCond && !scoped:
		o.Stmt = "recv"
	case !hasCond && scoped:
		o.Stmt = "empty"
	default:
		o.Stmt = fmt.Sprintf("mixed(cond=%t,scoped=%t)", hasCond, scoped)
	}
	return
}

func c19sRecv(w *c19World, k int) *gorm.DB {
	return w.db.Model(&C19Plain{}).Where("age > ?", 41+k%3).Unscoped()
}

type c19sWire struct {
	Prepared *string  `json:"prepared"`
	Text     string   `json:"text"`
	Args     []string `json:"args"`
}

func c19sEval(r *Result, specs []c19sSpec) {
	w := c19WorldOf("plain")
	var ops [][]interface{}
	type obsT struct {
		h    c19sHandle
		text string
		wire *c19sWire
	}
	obs := make([]obsT, len(specs))
	for i, sp := range specs {
		switch sp.Kind {
		case "session":
			fl := make([]interface{}, len(sp.Flags))
			for j, f := range sp.Flags {
				fl[j] = f
			}
			ops = append(ops, []interface{}{"c19.session", fl})
			obs[i].h, obs[i].text = c19sObserve(w, c19sRecv(w, sp.K).Session(c19sSession(sp.Flags)), sp.K)
		case "tosql":
			ops = append(ops, []interface{}{"c19.tosql"})
			w.rec.Reset()
			_ = c19sRecv(w, sp.K).ToSQL(func(tx *gorm.DB) *gorm.DB {
				obs[i].h, obs[i].text = c19sObserve(w, tx, sp.K)
				return tx
			})
		case "wire":
			pre, post, sep := c19rShape(sp.K)
			text := pre + fmt.Sprintf("/* w%d */ ", sp.K) + "SELECT name" + sep + "FROM c19_plains" + sep + "WHERE age > ? AND name <> ?" + post
			vals := []interface{}{sp.K % 50, c19Str(sp.K)}
			norm := c19NormArgs(vals)
			ops = append(ops, []interface{}{"c19.wire", sp.Pool, text, []interface{}{norm[0], norm[1]}})
			var h *gorm.DB
			done := func() {}
			switch sp.Pool {
			case "prepDB":
				h = w.db.Session(&gorm.Session{PrepareStmt: true})
			case "prepTX":
				tx := w.db.Begin()
				h, done = tx.Session(&gorm.Session{PrepareStmt: true}), func() { tx.Rollback() }
			default:
				h = w.db
			}
			var rs []map[string]interface{}
			w.rec.Reset()
			h.Raw(text, vals...).Scan(&rs)
			evs := w.rec.Snapshot()
			done()
			w.rec.Reset()
			ow := &c19sWire{}
			for _, e := range evs {
				if e.Kind == "prepare" && ow.Prepared == nil {
					s := e.SQL
					ow.Prepared = &s
				}
				if c19IsStmtKind(e.Kind) {
					ow.Text, ow.Args = e.SQL, c19NormArgs(e.Args)
				}
			}
			obs[i].wire = ow
		}
	}
	outs, err := AskLean(ops)
	if err != nil || len(outs) != len(specs) {
		r.Violate(Violation{Kind: "correspondence", Suite: "recvtie", Input: specs, Observed: fmt.Sprint(err), Expected: "one answer per op from the Lean driver"})
		return
	}
	for i, sp := range specs {
		key := sp.Kind + "|" + strings.Join(sp.Flags, ",") + "|" + sp.Pool
		r.H("recvtie_kind", sp.Kind)
		if sp.Kind == "wire" {
			var m *c19sWire
			_ = json.Unmarshal(outs[i], &m)
			o := obs[i].wire
			r.Case("recvtie", fmt.Sprint(key, "|", sp.K), true)
			r.CorrCompared++
			r.H("recvtie_wire_pool", sp.Pool)
			ok := m != nil && m.Text == o.Text && (reflect.DeepEqual(m.Args, o.Args) || len(m.Args)+len(o.Args) == 0) &&
				(m.Prepared == nil) == (o.Prepared == nil) && (m.Prepared == nil || *m.Prepared == *o.Prepared)
			if !ok {
				r.Violate(Violation{Kind: "correspondence", Suite: "recvtie", Input: sp, Observed: o, Expected: fmt.Sprintf("model wire = %s", string(outs[i]))})
			}
			continue
		}
		var m c19sHandle
		_ = json.Unmarshal(outs[i], &m)
		o := obs[i].h
		r.Case("recvtie", key, true)
		r.CorrCompared++
		r.H("recvtie_model_stmt", m.Stmt)
		r.H("recvtie_model_fresh", fmt.Sprint(m.Fresh))
		if !m.OK || m != o {
			r.Violate(Violation{Kind: "correspondence", Suite: "recvtie", Input: sp,
				Observed: map[string]interface{}{"handle": o, "statement": obs[i].text}, Expected: fmt.Sprintf("model handle = %s", string(outs[i]))})
		}
	}
}

func init() {
	register("C19", func(r *Result, rng *rand.Rand, tier string) {
		var specs []c19sSpec
		// every subset of the flags Session() tests, each with a random set of the others
		for mask := 0; mask < 1<<len(c19sTested); mask++ {
			reps := 2
			if tier != "quick" {
				reps = 8
			}
			for rep := 0; rep < reps; rep++ {
				var fl []string
				for i, f := range c19sTested {
					if mask&(1<<i) != 0 {
						fl = append(fl, f)
					}
				}
				for _, f := range c19sOther {
					if rep > 0 && rng.Intn(3) == 0 {
						fl = append(fl, f)
					}
				}
				sort.Strings(fl)
				specs = append(specs, c19sSpec{Kind: "session", Flags: fl, K: rng.Intn(1000)})
			}
		}
		for i := 0; i < 5; i++ {
			specs = append(specs, c19sSpec{Kind: "tosql", K: rng.Intn(1000)})
		}
		for i := 0; i < 60; i++ {
			specs = append(specs, c19sSpec{Kind: "wire", Pool: []string{"plain", "prepDB", "prepTX"}[i%3], K: rng.Intn(100000)})
		}
		c19sEval(r, specs)
	})
	replayers["C19/recvtie"] = func(r *Result, input json.RawMessage) {
		var sp c19sSpec
		if err := json.Unmarshal(input, &sp); err != nil {
			var sps []c19sSpec
			if err2 := json.Unmarshal(input, &sps); err2 != nil {
				r.Note("bad replay input: %v", err)
				return
			}
			c19sEval(r, sps)
			return
		}
		c19sEval(r, []c19sSpec{sp})
	}
}
