package main

// C01: dedicated per-run probe of finding F26 (a `$`+digits literal in the raw text of a rendered sub-query under `$n`).

import (
	"encoding/json"
	"fmt"
	"math/rand"

	"gorm.io/gorm"
)

func c01ProbeF26(r *Result, dialect string) {
	db, rec := c01OpenSqlite(dialect)
	m := &markerGen{}
	o, a := m.S(), m.I()
	c := &c01Case{Fin: "Find", M: m,
		Desc:   []string{`Where("email <> ?", o).Where("id IN (?)", db.Raw("SELECT id FROM v_users WHERE name <> '$100' AND age > ?", a))`},
		Expect: []c01Expect{{"SELECT", c01NormAll([]interface{}{o, a})}},
		Run: func(d *gorm.DB) *gorm.DB {
			var us []VUser
			sub := d.Session(&gorm.Session{NewDB: true}).Raw("SELECT id FROM v_users WHERE name <> '$100' AND age > ?", a)
			return d.Model(&VUser{}).Where("email <> ?", o).Where("id IN (?)", sub).Find(&us)
		}}
	v := c01Judge(db, rec, dialect, c)
	r.Case("e2e-probe-F26", dialect, true)
	if dialect != "dollar" {
		// control: the `?` dialect must be fine
		if v.Bad != "" {
			r.Violate(Violation{Kind: "e2e", Suite: "e2e-probe-F26", Input: map[string]interface{}{"dialect": dialect},
				Observed: map[string]interface{}{"statements": v.Stmts, "err": v.Err}, Expected: map[string]interface{}{"verdict": v.Bad, "expected": c.Expect}})
		}
		return
	}
	if v.Bad == "" {
		r.Note("F26 no longer reproduces under %s: %v", dialect, v.Stmts)
		return
	}
	what := fmt.Sprintf("'$100' literal in a rendered Raw sub-query under $n: %s; statement %q", v.Bad, v.Stmts)
	if listed("F26-C01-dollar-literal-in-rendered-subquery") {
		r.KnownFinding("F26-C01-dollar-literal-in-rendered-subquery", what)
	} else {
		r.Violate(Violation{Kind: "e2e", Suite: "e2e-probe-F26", Input: map[string]interface{}{"dialect": dialect},
			Observed: map[string]interface{}{"statements": v.Stmts, "err": v.Err}, Expected: map[string]interface{}{"verdict": v.Bad, "expected": c.Expect}})
	}
}

func init() {
	register("C01", func(r *Result, rng *rand.Rand, tier string) {
		c01ProbeF26(r, "qmark")
		c01ProbeF26(r, "dollar")
	})
	replayers["C01/e2e-probe-F26"] = func(r *Result, input json.RawMessage) {
		var in struct {
			Dialect string `json:"dialect"`
		}
		_ = json.Unmarshal(input, &in)
		c01ProbeF26(r, in.Dialect)
	}
}
