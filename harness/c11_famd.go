package main

import (
	"math/rand"
	"reflect"
	"strings"

	"gorm.io/gorm"
)

// ---- family D: WHERE in the struct a relation and its key fields are DECLARED ------------------------------------------------
//
// Every other family declares relations and key fields at the top level of the model (E puts a key into one embedded struct and
// names it by tag).  Here NOTHING is named by tag unless stated: the foreign key of a relation is found by gorm's conventions
// (schema/relationship.go guessRelation: candidate names `<Field><PK>`, `<Field>ID`, `<Field>Id`, snake column; first
// Schema.LookUpFieldByBindName = walk OUTWARD from the struct that declares the relation, the closest enclosing struct that has
// a field of that name wins; then Schema.LookUpField = column name, then Go name over the whole model).  The zoo:
//
//   C11DOrg                      ID N DeletedAt
//     Outer   C11DOuter  (named value, prefix o_)        level 1:  ZoneID(decoy, fk of Home by column tag)  LandID(decoy)  Home  Parent/ParentID (self)  Tags (many2many)
//       Inner C11DInner  (named value, prefix i_)        level 2:  LandID (key of Land, which is declared one level DEEPER)
//         C11DGeo        (anonymous value, no prefix)    level 3:  ZoneID Zone   — struct shared with C11DTask
//         Core C11DCore  (named value, prefix c_)        level 3:  Land (key one level up)  RegionID Region (target's key embedded)  Tasks (has-many)  Badge (has-one)
//     *C11DSide          (anonymous POINTER, no prefix)  level 1:  DockID Dock
//     Wing    *C11DWing  (named POINTER, prefix w_)      level 1:  PortID Port  Notes (polymorphic)
//     PortID  (decoy, level 0, declared after Wing)      SpotID (level 0: fk of Core.Spot, whose tag names it by Go name)  ZoneID (level 0, fk of Base by Go-name tag)  Base
//   C11DTask                     ID N DeletedAt
//     Geo     C11DGeo    (named value, prefix g_)        ZoneID Zone   — the shared struct again, other prefix
//     Meta    C11DMeta   (prefix m_)                     Deep{C11DOrgID (decoy, declared FIRST)}  C11DOrgID (fk of Org.Tasks and Task.Org)
//   C11DRegion                   Box C11DBox (prefix b_){ID primary key}  — the REFERENCED field is embedded too
//
// The same field NAME sits at several levels (ZoneID at 0 / 1 / 3, LandID at 1 / 2, PortID at 0 / 1, C11DOrgID at 1 / 2 of the
// child) and the columns carry DIFFERENT data (every link gets its own rotation of targets; decoy columns no relation reads
// hold the value of the neighbouring row), so a relation that resolves its key to another level attaches a visibly different row.
// The descriptors below are written by hand from the conventions; suite rel-refs ties them to the parser, suite bind-resolve
// ties the parser's lookups to the Lean model (Model/BindLookup.lean).

type C11DZone struct {
	ID        uint `gorm:"primaryKey"`
	N         int
	DeletedAt gorm.DeletedAt
}

func (C11DZone) TableName() string { return "c11d_zones" }

type C11DBox struct {
	ID uint `gorm:"primaryKey"`
}

type C11DRegion struct {
	Box       C11DBox `gorm:"embedded;embeddedPrefix:b_"`
	N         int
	DeletedAt gorm.DeletedAt
}

func (C11DRegion) TableName() string { return "c11d_regions" }

type C11DGeo struct {
	ZoneID *uint
	Zone   *C11DZone
}

type C11DDeep struct {
	C11DOrgID *uint `gorm:"column:org_id"`
}

type C11DMeta struct {
	Deep      C11DDeep `gorm:"embedded;embeddedPrefix:d_"`
	C11DOrgID *uint    `gorm:"column:org_id"`
}

type C11DTask struct {
	ID        uint `gorm:"primaryKey"`
	N         int
	DeletedAt gorm.DeletedAt
	Geo       C11DGeo  `gorm:"embedded;embeddedPrefix:g_"`
	Meta      C11DMeta `gorm:"embedded;embeddedPrefix:m_"`
	Org       *C11DOrg `gorm:"foreignKey:C11DOrgID"`
}

func (C11DTask) TableName() string { return "c11d_tasks" }

type C11DBadge struct {
	ID        uint `gorm:"primaryKey"`
	N         int
	DeletedAt gorm.DeletedAt
	C11DOrgID *uint `gorm:"column:org_id"`
}

func (C11DBadge) TableName() string { return "c11d_badges" }

type C11DTag struct {
	ID        uint `gorm:"primaryKey"`
	N         int
	DeletedAt gorm.DeletedAt
}

func (C11DTag) TableName() string { return "c11d_tags" }

type C11DNote struct {
	ID        uint `gorm:"primaryKey"`
	N         int
	DeletedAt gorm.DeletedAt
	OwnerID   uint
	OwnerType string
}

func (C11DNote) TableName() string { return "c11d_notes" }

type C11DCore struct {
	SpotID   *uint
	Spot     *C11DZone `gorm:"foreignKey:SpotID"` // explicit tag by Go name: resolved MODEL-WIDE (last declared SpotID = the top-level one)
	Land     *C11DZone
	RegionID *uint
	Region   *C11DRegion
	Tasks    []C11DTask
	Badge    *C11DBadge
}

type C11DInner struct {
	C11DGeo
	LandID *uint
	Core   C11DCore `gorm:"embedded;embeddedPrefix:c_"`
}

type C11DOuter struct {
	Home     *C11DZone `gorm:"foreignKey:o_zone_id"`
	ParentID *uint
	Parent   *C11DOrg
	Tags     []C11DTag `gorm:"many2many:c11d_org_tags;joinForeignKey:OrgID;joinReferences:TagID"`
	Inner    C11DInner `gorm:"embedded;embeddedPrefix:i_"`
	ZoneID   *uint // declared AFTER the nested struct that holds Zone and its own ZoneID
	LandID   *uint
}

type C11DSide struct {
	DockID *uint
	Dock   *C11DZone
}

type C11DWing struct {
	PortID *uint
	Port   *C11DZone
	Notes  []C11DNote `gorm:"polymorphic:Owner;polymorphicValue:dorg"`
}

type C11DOrg struct {
	ID        uint `gorm:"primaryKey"`
	N         int
	DeletedAt gorm.DeletedAt
	Outer     C11DOuter `gorm:"embedded;embeddedPrefix:o_"`
	*C11DSide
	Wing   *C11DWing `gorm:"embedded;embeddedPrefix:w_"`
	PortID *uint
	SpotID *uint
	ZoneID *uint
	Base   *C11DZone `gorm:"foreignKey:ZoneID"`
}

func (C11DOrg) TableName() string { return "c11d_orgs" }

// a column no relation reads, next to a same-named foreign key at another level: it holds the Like-column of the NEXT row
type c11Decoy struct{ Table, Col, Like string }

func init() {
	up := func(n string) c11ColT { return c11ColT{n, "uint", true} }
	orgRels := []c11RelD{
		{Field: "Zone", Emb: "Outer.Inner", Kind: "belongs_to", Child: "c11d_zones", Single: true, On: c11Pairs("o_i_zone_id", "id")},
		{Field: "Home", Emb: "Outer", Kind: "belongs_to", Child: "c11d_zones", Single: true, On: c11Pairs("o_zone_id", "id")},
		{Field: "Base", Kind: "belongs_to", Child: "c11d_zones", Single: true, On: c11Pairs("zone_id", "id")},
		{Field: "Spot", Emb: "Outer.Inner.Core", Kind: "belongs_to", Child: "c11d_zones", Single: true, On: c11Pairs("spot_id", "id")},
		{Field: "Land", Emb: "Outer.Inner.Core", Kind: "belongs_to", Child: "c11d_zones", Single: true, On: c11Pairs("o_i_land_id", "id")},
		{Field: "Region", Emb: "Outer.Inner.Core", Kind: "belongs_to", Child: "c11d_regions", Single: true, On: c11Pairs("o_i_c_region_id", "b_id")},
		{Field: "Tasks", Emb: "Outer.Inner.Core", Kind: "has_many", Child: "c11d_tasks", On: c11Pairs("id", "m_org_id")},
		{Field: "Badge", Emb: "Outer.Inner.Core", Kind: "has_one", Child: "c11d_badges", Single: true, On: c11Pairs("id", "org_id")},
		{Field: "Tags", Emb: "Outer", Kind: "many2many", Child: "c11d_tags", Via: "c11d_org_tags", ViaP: c11Pairs("id", "org_id"), ViaC: c11Pairs("tag_id", "id")},
		{Field: "Notes", Emb: "Wing", Kind: "poly_many", Child: "c11d_notes", On: c11Pairs("id", "owner_id"), Const: c11Pairs("owner_type", "dorg")},
		{Field: "Port", Emb: "Wing", Kind: "belongs_to", Child: "c11d_zones", Single: true, On: c11Pairs("w_port_id", "id")},
		{Field: "Dock", Kind: "belongs_to", Child: "c11d_zones", Single: true, On: c11Pairs("dock_id", "id")},
		{Field: "Parent", Emb: "Outer", Kind: "self_belongs_to", Child: "c11d_orgs", Single: true, On: c11Pairs("o_parent_id", "id")},
	}
	taskRels := []c11RelD{
		{Field: "Zone", Emb: "Geo", Kind: "belongs_to", Child: "c11d_zones", Single: true, On: c11Pairs("g_zone_id", "id")},
		{Field: "Org", Kind: "belongs_to", Child: "c11d_orgs", Single: true, On: c11Pairs("m_org_id", "id")},
	}
	famD := &c11Family{Name: "D", Tables: []*c11Table{
		{Name: "c11d_orgs", Model: &C11DOrg{}, Cols: []c11ColT{{"id", "uint", false}, up("o_i_zone_id"), up("o_zone_id"), up("zone_id"), up("o_i_land_id"), up("o_land_id"),
			up("o_i_c_region_id"), up("w_port_id"), up("port_id"), up("dock_id"), up("o_parent_id"), up("spot_id"), up("o_i_c_spot_id")}, Rels: orgRels},
		{Name: "c11d_zones", Model: &C11DZone{}, Cols: []c11ColT{{"id", "uint", false}}},
		{Name: "c11d_regions", Model: &C11DRegion{}, Cols: []c11ColT{{"b_id", "uint", false}}},
		{Name: "c11d_tasks", Model: &C11DTask{}, Cols: []c11ColT{up("m_org_id"), up("m_d_org_id"), up("g_zone_id")}, Rels: taskRels},
		{Name: "c11d_badges", Model: &C11DBadge{}, Cols: []c11ColT{up("org_id")}},
		{Name: "c11d_tags", Model: &C11DTag{}, Cols: []c11ColT{{"id", "uint", false}}},
		{Name: "c11d_notes", Model: &C11DNote{}, Cols: []c11ColT{{"owner_id", "uint", false}, {"owner_type", "str", false}}},
		{Name: "c11d_org_tags", Cols: []c11ColT{{"org_id", "uint", false}, {"tag_id", "uint", false}}},
	}, Decoys: []c11Decoy{
		{"c11d_orgs", "o_land_id", "o_i_land_id"},
		{"c11d_orgs", "port_id", "w_port_id"},
		{"c11d_orgs", "o_i_c_spot_id", "spot_id"},
		{"c11d_tasks", "m_d_org_id", "m_org_id"},
	}}
	famD.Gen = func(rng *rand.Rand, mode int) c11World {
		w := c11ScaleWorld(famD, 2+rng.Intn(6), rng.Int63n(1<<40), nil)
		w.idx = nil
		return w
	}
	c11Families["D"] = famD
}

// ---- reflection over models whose fields sit in embedded structs -------------------------------------------------------------

// the field `name` of a loaded struct, searched through embedded structs (anonymous or tagged `embedded`, value or pointer;
// a nil embedded pointer holds nothing); shallower levels first, as Go's own promotion rule
func c11FieldDeep(v reflect.Value, name string) reflect.Value {
	v = reflect.Indirect(v)
	level := []reflect.Value{v}
	for len(level) > 0 {
		var next []reflect.Value
		for _, s := range level {
			st := s.Type()
			for i := 0; i < st.NumField(); i++ {
				sf := st.Field(i)
				if sf.Name == name {
					return s.Field(i)
				}
				if !sf.Anonymous && !strings.Contains(strings.ToLower(sf.Tag.Get("gorm")), "embedded") {
					continue
				}
				fv := s.Field(i)
				if fv.Kind() == reflect.Ptr {
					if fv.IsNil() {
						continue
					}
					fv = fv.Elem()
				}
				if fv.Kind() == reflect.Struct {
					next = append(next, fv)
				}
			}
		}
		level = next
	}
	return reflect.Value{}
}

// the field at a bind path (Go field names from the model down); ok=false below a nil embedded pointer
func c11FieldByBind(v reflect.Value, bind []string) (reflect.Value, bool) {
	v = reflect.Indirect(v)
	for i, n := range bind {
		v = v.FieldByName(n)
		if i == len(bind)-1 {
			return v, true
		}
		if v.Kind() == reflect.Ptr {
			if v.IsNil() {
				return reflect.Value{}, false
			}
			v = v.Elem()
		}
	}
	return v, true
}
