package main

// C08 (round 4) — suite `assoc`: Unscoped through ASSOCIATION MODE, on soft-delete targets of every MODE.
//
// World: owners with eight relations whose TARGET models are soft-deletable in three modes —
//   NULL mode      (`gorm.DeletedAt`, live = NULL)
//   zeroValue mode (`gorm.DeletedAt` with a valid `zeroValue:` tag and the matching column default, live = that timestamp)
//   flag mode      (plugin-like `C08Flag int64`, live = 0)
// has-many (NULL, zeroValue), has-one (NULL, flag; a has-one table may hold a live row AND older marked rows of one owner),
// polymorphic has-many (zeroValue) / has-one (NULL), many2many (targets NULL / zeroValue; one relation through a join MODEL
// that is itself soft-deletable).  About 40 % of all target rows are marked; every owner has live and marked targets.
//
// A case = relation × operation (Find, Find with conditions, Count, Clear, Replace by a new / by a kept value, Delete of
// some targets, Append) × db.Unscoped() (before or after Model, or on a Session handle) × Association().Unscoped() ×
// one owner / a slice of owners × context (user transaction, nested transaction, PrepareStmt session, PropagateUnscoped
// config).  ORACLE — the sentences of the property, judged on raw dumps of the target (and join) tables:
//   without db.Unscoped():
//     reads        Find / Count deliver exactly the live targets (matching the conditions) reached through live links
//     I1           every row that was marked before the call is byte for byte unchanged ("untouched")
//     I2           no row is removed physically ("Delete marks … instead of removing") — also when the association's
//                  own Unscoped() asks for the related rows to be deleted
//     I3           Association().Unscoped().Clear/Replace/Delete: the live targets the call has to delete are MARKED
//                  afterwards (a delete that silently marks nothing is a miss of "Delete marks the matching live rows")
//   with db.Unscoped():
//     reads        the marked targets are visible again
//     I4           + Association().Unscoped(): the targets the call deletes — marked or live — are gone PHYSICALLY
//     I5           without it (detach): the marked targets are reached too (no row of the relation keeps the owner's key)
// What is NOT judged here: which live rows get attached / detached (link algebra, C12's subject); many2many target rows
// under db.Unscoped (the relation only owns the link rows).

import (
	"encoding/json"
	"fmt"
	"math/rand"
	"reflect"
	"sort"
	"strings"
	"sync"

	"gorm.io/gorm"
)

const c08ZeroTag = "1970-01-01 00:00:01"

type A8Owner struct {
	ID        uint `gorm:"primaryKey"`
	Name      string
	Pets      []A8Pet  `gorm:"foreignKey:OwnerID"`
	Cats      []A8Cat  `gorm:"foreignKey:OwnerID"`
	Den       *A8Den   `gorm:"foreignKey:OwnerID"`
	Chip      *A8Chip  `gorm:"foreignKey:OwnerID"`
	Notes     []A8Note `gorm:"polymorphic:Subject"`
	Badge     *A8Badge `gorm:"polymorphic:Subject"`
	Langs     []A8Lang `gorm:"many2many:a8_owner_langs"`
	Clubs     []A8Club `gorm:"many2many:a8_owner_clubs"`
	Teams     []A8Team `gorm:"many2many:a8_memberships"`
	HomeID    uint    // (not a pointer: with a *uint key, Association().Unscoped().Replace(new) on the unchanged tree deletes the NEW home —
	Home      *A8Home //  the recorded old key aliases the field that is overwritten; link algebra, C12's subject) belongs-to, zeroValue mode
	DeletedAt gorm.DeletedAt
}

// the belongs-to side: the OWNER row carries the key; Association().Unscoped() asks for the old home to be deleted
type A8Home struct {
	ID        uint `gorm:"primaryKey"`
	V         int
	DeletedAt gorm.DeletedAt `gorm:"zeroValue:1970-01-01 00:00:01;default:'1970-01-01 00:00:01'"`
}
type A8Pet struct {
	ID        uint `gorm:"primaryKey"`
	OwnerID   *uint
	V         int
	DeletedAt gorm.DeletedAt
}
type A8Cat struct {
	ID        uint `gorm:"primaryKey"`
	OwnerID   *uint
	V         int
	DeletedAt gorm.DeletedAt `gorm:"zeroValue:1970-01-01 00:00:01;default:'1970-01-01 00:00:01'"`
}
type A8Den struct {
	ID        uint `gorm:"primaryKey"`
	OwnerID   *uint
	V         int
	DeletedAt *gorm.DeletedAt
}
type A8Chip struct {
	ID      uint `gorm:"primaryKey"`
	OwnerID *uint
	V       int
	Gone    C08Flag
}
type A8Note struct {
	ID          uint `gorm:"primaryKey"`
	SubjectID   *uint
	SubjectType string
	V           int
	RemovedAt   gorm.DeletedAt `gorm:"column:removed_at;zeroValue:1970-01-01 00:00:01;default:'1970-01-01 00:00:01'"`
}
type A8Badge struct {
	ID          uint `gorm:"primaryKey"`
	SubjectID   *uint
	SubjectType string
	V           int
	DeletedAt   gorm.DeletedAt
}
type A8Lang struct {
	ID        uint `gorm:"primaryKey"`
	V         int
	DeletedAt gorm.DeletedAt
}
type A8Club struct {
	ID        uint `gorm:"primaryKey"`
	V         int
	DeletedAt gorm.DeletedAt `gorm:"zeroValue:1970-01-01 00:00:01;default:'1970-01-01 00:00:01'"`
}
type A8Team struct {
	ID        uint `gorm:"primaryKey"`
	V         int
	DeletedAt gorm.DeletedAt
}

// the join MODEL of Owner.Teams: a link can be soft-deleted itself
type A8Membership struct {
	A8OwnerID uint `gorm:"primaryKey"`
	A8TeamID  uint `gorm:"primaryKey"`
	DeletedAt gorm.DeletedAt
}

type c08Rel8 struct {
	Name    string
	Kind    string // hasmany hasone m2m belongsto
	Table   string
	FK      string // owner key column of the target table ("" for m2m)
	Poly    bool
	Col     string // soft-delete column of the target
	LiveSQL string // raw predicate: the row is live
	Marked  string // raw SQL literal that marks a row
	Join    string // m2m: join table
	JoinOwn string
	JoinRel string
	JoinDel bool // the join model is soft-deletable (NULL mode)
	newVal  func(v int) interface{}
	keyed   func(id uint) interface{}
	slice   func() interface{}
}

func c08LiveOf(mode, col string) (live, marked string) {
	switch mode {
	case "zero":
		return col + " = '" + c08ZeroTag + "'", "'2020-01-01 00:00:00'"
	case "flag":
		return col + " = 0", "1577836800"
	}
	return col + " IS NULL", "'2020-01-01 00:00:00'"
}

var c08Rels8 = func() []c08Rel8 {
	mk := func(name, kind, table, fk, mode, col string, poly bool, nv func(int) interface{}, kd func(uint) interface{}, sl func() interface{}) c08Rel8 {
		l, m := c08LiveOf(mode, col)
		return c08Rel8{Name: name, Kind: kind, Table: table, FK: fk, Poly: poly, Col: col, LiveSQL: l, Marked: m, newVal: nv, keyed: kd, slice: sl}
	}
	rs := []c08Rel8{
		mk("Pets", "hasmany", "a8_pets", "owner_id", "null", "deleted_at", false, func(v int) interface{} { return &A8Pet{V: v} }, func(id uint) interface{} { return &A8Pet{ID: id} }, func() interface{} { return &[]A8Pet{} }),
		mk("Cats", "hasmany", "a8_cats", "owner_id", "zero", "deleted_at", false, func(v int) interface{} { return &A8Cat{V: v} }, func(id uint) interface{} { return &A8Cat{ID: id} }, func() interface{} { return &[]A8Cat{} }),
		mk("Den", "hasone", "a8_dens", "owner_id", "null", "deleted_at", false, func(v int) interface{} { return &A8Den{V: v} }, func(id uint) interface{} { return &A8Den{ID: id} }, func() interface{} { return &[]A8Den{} }),
		mk("Chip", "hasone", "a8_chips", "owner_id", "flag", "gone", false, func(v int) interface{} { return &A8Chip{V: v} }, func(id uint) interface{} { return &A8Chip{ID: id} }, func() interface{} { return &[]A8Chip{} }),
		mk("Notes", "hasmany", "a8_notes", "subject_id", "zero", "removed_at", true, func(v int) interface{} { return &A8Note{V: v} }, func(id uint) interface{} { return &A8Note{ID: id} }, func() interface{} { return &[]A8Note{} }),
		mk("Badge", "hasone", "a8_badges", "subject_id", "null", "deleted_at", true, func(v int) interface{} { return &A8Badge{V: v} }, func(id uint) interface{} { return &A8Badge{ID: id} }, func() interface{} { return &[]A8Badge{} }),
		mk("Langs", "m2m", "a8_langs", "", "null", "deleted_at", false, func(v int) interface{} { return &A8Lang{V: v} }, func(id uint) interface{} { return &A8Lang{ID: id} }, func() interface{} { return &[]A8Lang{} }),
		mk("Clubs", "m2m", "a8_clubs", "", "zero", "deleted_at", false, func(v int) interface{} { return &A8Club{V: v} }, func(id uint) interface{} { return &A8Club{ID: id} }, func() interface{} { return &[]A8Club{} }),
		mk("Home", "belongsto", "a8_homes", "", "zero", "deleted_at", false, func(v int) interface{} { return &A8Home{V: v} }, func(id uint) interface{} { return &A8Home{ID: id} }, func() interface{} { return &[]A8Home{} }),
		mk("Teams", "m2m", "a8_teams", "", "null", "deleted_at", false, func(v int) interface{} { return &A8Team{V: v} }, func(id uint) interface{} { return &A8Team{ID: id} }, func() interface{} { return &[]A8Team{} }),
	}
	for i := range rs {
		switch rs[i].Name {
		case "Langs":
			rs[i].Join, rs[i].JoinOwn, rs[i].JoinRel = "a8_owner_langs", "a8_owner_id", "a8_lang_id"
		case "Clubs":
			rs[i].Join, rs[i].JoinOwn, rs[i].JoinRel = "a8_owner_clubs", "a8_owner_id", "a8_club_id"
		case "Teams":
			rs[i].Join, rs[i].JoinOwn, rs[i].JoinRel, rs[i].JoinDel = "a8_memberships", "a8_owner_id", "a8_team_id", true
		}
	}
	return rs
}()

// one row of a target table / one link row, as raw SQL sees it
type c08TRow struct {
	ID    uint
	Owner uint // 0 = NULL / none
	V     int
	Live  bool
	Mark  string // raw text of the soft-delete column
}
type c08Link struct {
	Owner, Rel uint
	Live       bool
	Mark       string
}

func c08DumpT(db *gorm.DB, rel c08Rel8) []c08TRow {
	fk := "0"
	if rel.FK != "" {
		fk = "COALESCE(" + rel.FK + ", 0)"
	}
	rows, err := db.Session(&gorm.Session{NewDB: true}).Raw("SELECT id, " + fk + ", v, COALESCE((" + rel.LiveSQL + "), 0), COALESCE(CAST(" + rel.Col + " AS TEXT), 'NULL') FROM " + rel.Table + " ORDER BY id").Rows()
	if err != nil {
		panic(err)
	}
	defer rows.Close()
	var out []c08TRow
	for rows.Next() {
		var r c08TRow
		if err := rows.Scan(&r.ID, &r.Owner, &r.V, &r.Live, &r.Mark); err != nil {
			panic(err)
		}
		out = append(out, r)
	}
	return out
}

func c08DumpL(db *gorm.DB, rel c08Rel8) []c08Link {
	if rel.Kind == "belongsto" {
		// the links of a belongs-to relation live in the owner rows
		var out []c08Link
		rows, err := db.Session(&gorm.Session{NewDB: true}).Raw("SELECT id, home_id FROM a8_owners WHERE COALESCE(home_id, 0) <> 0 ORDER BY id").Rows()
		if err != nil {
			panic(err)
		}
		defer rows.Close()
		for rows.Next() {
			l := c08Link{Live: true}
			if err := rows.Scan(&l.Owner, &l.Rel); err != nil {
				panic(err)
			}
			out = append(out, l)
		}
		return out
	}
	if rel.Join == "" {
		return nil
	}
	live, mark := "1", "''"
	if rel.JoinDel {
		live, mark = "(deleted_at IS NULL)", "COALESCE(CAST(deleted_at AS TEXT), 'NULL')"
	}
	rows, err := db.Session(&gorm.Session{NewDB: true}).Raw("SELECT " + rel.JoinOwn + ", " + rel.JoinRel + ", " + live + ", " + mark + " FROM " + rel.Join + " ORDER BY 1, 2").Rows()
	if err != nil {
		panic(err)
	}
	defer rows.Close()
	var out []c08Link
	for rows.Next() {
		var l c08Link
		if err := rows.Scan(&l.Owner, &l.Rel, &l.Live, &l.Mark); err != nil {
			panic(err)
		}
		out = append(out, l)
	}
	return out
}

func c08AssocSeed(db *gorm.DB, rng *rand.Rand) (owners []uint) {
	if err := db.SetupJoinTable(&A8Owner{}, "Teams", &A8Membership{}); err != nil {
		panic(err)
	}
	if err := db.AutoMigrate(&A8Owner{}, &A8Pet{}, &A8Cat{}, &A8Den{}, &A8Chip{}, &A8Note{}, &A8Badge{}, &A8Lang{}, &A8Club{}, &A8Team{}, &A8Membership{}, &A8Home{}); err != nil {
		panic(err)
	}
	ex := func(q string, args ...interface{}) {
		if err := db.Exec(q, args...).Error; err != nil {
			panic(fmt.Sprint(q, ": ", err))
		}
	}
	no := 3
	for i := 1; i <= no; i++ {
		ex("INSERT INTO a8_owners (id, name) VALUES (?, ?)", i, fmt.Sprintf("o%d", i))
		owners = append(owners, uint(i))
	}
	for _, rel := range c08Rels8 {
		id := 1
		ins := func(owner int, marked bool) {
			cols, vals := "id, v", fmt.Sprintf("%d, %d", id, rng.Intn(4))
			if rel.FK != "" {
				cols += ", " + rel.FK
				vals += fmt.Sprintf(", %d", owner)
				if rel.Poly {
					cols += ", subject_type"
					vals += ", 'a8_owners'"
				}
			}
			if marked {
				cols += ", " + rel.Col
				vals += ", " + rel.Marked
			} else if strings.HasSuffix(rel.LiveSQL, "= 0") {
				cols += ", " + rel.Col
				vals += ", 0"
			}
			ex("INSERT INTO " + rel.Table + " (" + cols + ") VALUES (" + vals + ")")
			id++
		}
		switch rel.Kind {
		case "hasmany":
			for o := 1; o <= no; o++ {
				for i, n := 0, 1+rng.Intn(3); i < n; i++ {
					ins(o, false)
				}
				for i, n := 0, rng.Intn(3); i < n || (o == 1 && i < 1); i++ {
					ins(o, true)
				}
			}
		case "hasone":
			for o := 1; o <= no; o++ {
				for i, n := 0, rng.Intn(3); i < n || (o == 1 && i < 1); i++ {
					ins(o, true) // older, marked rows of this owner
				}
				if rng.Intn(4) > 0 || o == 1 {
					ins(o, false)
				}
			}
		case "belongsto":
			nt := 4 + rng.Intn(2)
			for i := 0; i < nt; i++ {
				ins(0, i%2 == 1)
			}
			for o := 1; o <= no; o++ {
				if o == 1 || rng.Intn(4) > 0 {
					ex("UPDATE a8_owners SET home_id = ? WHERE id = ?", 1+rng.Intn(nt), o)
				}
			}
		case "m2m":
			nt := 4 + rng.Intn(3)
			for i := 0; i < nt; i++ {
				ins(0, i%3 == 1 || rng.Intn(4) == 0)
			}
			for o := 1; o <= no; o++ {
				for t := 1; t <= nt; t++ {
					if rng.Intn(2) == 0 || (o == 1 && t <= 2) {
						if rel.JoinDel {
							var del interface{}
							if rng.Intn(3) == 0 {
								del = "2020-01-01 00:00:00"
							}
							ex("INSERT INTO "+rel.Join+" ("+rel.JoinOwn+", "+rel.JoinRel+", deleted_at) VALUES (?, ?, ?)", o, t, del)
						} else {
							ex("INSERT INTO "+rel.Join+" ("+rel.JoinOwn+", "+rel.JoinRel+") VALUES (?, ?)", o, t)
						}
					}
				}
			}
		}
	}
	return owners
}

type c08AssocCase struct {
	Seed     int64  `json:"seed"`
	N        int    `json:"case_no"`
	Rel      string `json:"relation"`
	Op       string `json:"operation"`
	DBUn     string `json:"db_unscoped"` // "" | before-model | after-model | session
	AssocUn  bool   `json:"association_unscoped"`
	Owners   []uint `json:"owners"`
	Ctx      string `json:"context"`
	Detail   string `json:"detail,omitempty"`
	Violated string `json:"sentence,omitempty"`
}

func c08GenAssocCase(rng *rand.Rand, seed int64, n int) c08AssocCase {
	c := c08AssocCase{Seed: seed, N: n}
	c.Rel = c08Rels8[rng.Intn(len(c08Rels8))].Name
	c.Op = []string{"find", "find-cond", "count", "clear", "clear", "replace-new", "replace-keep", "delete", "delete", "append", "preload", "joins", "innerjoins", "delete-owner"}[rng.Intn(14)]
	if c.Op == "joins" || c.Op == "innerjoins" {
		c.Rel = []string{"Den", "Chip", "Badge", "Home"}[rng.Intn(4)] // association joins: to-one relations
	}
	if rng.Intn(2) == 0 {
		c.DBUn = []string{"before-model", "before-model", "after-model", "session"}[rng.Intn(4)]
	}
	c.AssocUn = rng.Intn(2) == 0
	c.Owners = []uint{uint(1 + rng.Intn(3))}
	if c.Op == "delete-owner" {
		// db.Select("Rel").Delete(&owner): callbacks/delete.go DeleteBeforeAssociations deletes the related rows (has-one /
		// has-many / link rows) on a NewDB session and hands Unscoped on by hand
		c.AssocUn = true
		// (Teams + Unscoped is the pattern of finding F33: visited rarely while the finding is listed AND the regenerated arms say
		// the repair is absent; ordinary input space otherwise)
		for c.Rel == "Home" || (c.Rel == "Teams" && c.DBUn != "" && c08AvoidF33() && rng.Intn(4) > 0) {
			c.Rel = c08Rels8[rng.Intn(len(c08Rels8))].Name
		}
	}
	if c.Rel == "Home" && (c.Op == "replace-keep" || c.Op == "append") {
		c.Op = "clear" // belongs-to: Append is Replace; the key lives in the owner row
	}
	if rng.Intn(4) == 0 && (c.Op == "find" || c.Op == "count" || c.Op == "clear" || c.Op == "delete" || c.Op == "preload" || c.Op == "joins" || c.Op == "innerjoins") {
		c.Owners = []uint{1, uint(2 + rng.Intn(2))}
	}
	c.Ctx = []string{"tx", "tx", "tx", "nested-tx", "prepare", "propagate"}[rng.Intn(6)]
	return c
}

func c08AssocWorld(r *Result, seed int64) {
	rng := rand.New(rand.NewSource(seed))
	dbs := map[bool]*gorm.DB{}
	for _, prop := range []bool{false, true} {
		if prop && rng.Intn(3) > 0 {
			continue
		}
		db, _, sqlDB := OpenRec(&gorm.Config{NowFunc: fixedNowFunc, PropagateUnscoped: prop})
		defer sqlDB.Close()
		c08AssocSeed(db, rand.New(rand.NewSource(seed)))
		dbs[prop] = db
	}
	for n := 0; n < 8; n++ {
		c := c08GenAssocCase(rng, seed, n)
		if c.Ctx == "propagate" && dbs[true] == nil {
			c.Ctx = "tx"
		}
		c08AssocOne(r, dbs[c.Ctx == "propagate"], c, rng.Int63())
	}
}

func c08RelByName(name string) c08Rel8 {
	for _, x := range c08Rels8 {
		if x.Name == name {
			return x
		}
	}
	panic(name)
}

// c08AssocOne runs one case inside a transaction that is rolled back, and judges it on raw dumps
func c08AssocOne(r *Result, db *gorm.DB, c c08AssocCase, sub int64) {
	rng := rand.New(rand.NewSource(sub))
	rel := c08RelByName(c.Rel)
	un := c.DBUn != ""
	tx := db.Begin()
	defer tx.Rollback()
	before := c08DumpT(tx, rel)
	linksBefore := c08DumpL(tx, rel)
	isOwner := func(o uint) bool {
		for _, x := range c.Owners {
			if x == o {
				return true
			}
		}
		return false
	}
	byID := map[uint]c08TRow{}
	for _, t := range before {
		byID[t.ID] = t
	}
	// targets of the owners: id -> reached through a live link (m2m) / directly
	type tgt struct {
		row      c08TRow
		linkLive bool
	}
	var targets []tgt
	linked := rel.Kind == "m2m" || rel.Kind == "belongsto"
	homeOf := map[uint]uint{}
	if rel.Kind == "belongsto" {
		for _, l := range linksBefore {
			homeOf[l.Owner] = l.Rel
		}
	}
	if linked {
		for _, l := range linksBefore {
			if isOwner(l.Owner) {
				targets = append(targets, tgt{byID[l.Rel], l.Live})
			}
		}
	} else {
		for _, t := range before {
			if isOwner(t.Owner) {
				targets = append(targets, tgt{t, true})
			}
		}
	}
	visible := func(t tgt) bool { return un || (t.row.Live && t.linkLive) }

	// ---- the handle
	var model interface{}
	if len(c.Owners) == 1 {
		o := &A8Owner{ID: c.Owners[0]}
		if h, ok := homeOf[o.ID]; ok {
			o.HomeID = h // a loaded owner: its belongs-to key is known
		}
		model = o
	} else {
		os := []A8Owner{}
		for _, o := range c.Owners {
			x := A8Owner{ID: o}
			if h, ok := homeOf[o]; ok {
				x.HomeID = h
			}
			os = append(os, x)
		}
		model = &os
	}
	h := tx.Session(&gorm.Session{})
	if c.Ctx == "prepare" {
		h = tx.Session(&gorm.Session{PrepareStmt: true})
	}
	var loaded [][2]uint // Preload / Joins: (owner, loaded target id | 0)
	run := func(h *gorm.DB) (err error, ids []uint, cnt int64, detail string) {
		loaded = nil
		switch c.DBUn {
		case "before-model":
			h = h.Unscoped().Model(model)
		case "after-model":
			h = h.Model(model).Unscoped()
		case "session":
			h = h.Unscoped().Session(&gorm.Session{}).Model(model)
		default:
			h = h.Model(model)
		}
		if c.Op == "preload" || c.Op == "joins" || c.Op == "innerjoins" {
			// the same relations loaded by Preload / association Joins from the owners
			var os []A8Owner
			q := h.Where("`a8_owners`.`id` IN ?", c.Owners)
			switch c.Op {
			case "preload":
				q = q.Preload(c.Rel)
			case "joins":
				q = q.Joins(c.Rel)
			default:
				q = q.InnerJoins(c.Rel)
			}
			err = q.Find(&os).Error
			for i := range os {
				f := reflect.Indirect(reflect.ValueOf(&os[i]).Elem().FieldByName(c.Rel))
				switch {
				case !f.IsValid():
					loaded = append(loaded, [2]uint{os[i].ID, 0}) // nil pointer: nothing loaded
				case f.Kind() == reflect.Slice:
					for j := 0; j < f.Len(); j++ {
						loaded = append(loaded, [2]uint{os[i].ID, uint(f.Index(j).FieldByName("ID").Uint())})
					}
					if f.Len() == 0 {
						loaded = append(loaded, [2]uint{os[i].ID, 0})
					}
				default:
					loaded = append(loaded, [2]uint{os[i].ID, uint(f.FieldByName("ID").Uint())})
				}
			}
			return
		}
		if c.Op == "delete-owner" {
			err = h.Select(c.Rel).Delete(model).Error
			return
		}
		a := h.Association(c.Rel)
		if c.AssocUn {
			a = a.Unscoped()
		}
		collect := func(sl interface{}) {
			rv := reflect.ValueOf(sl).Elem()
			for i := 0; i < rv.Len(); i++ {
				ids = append(ids, uint(rv.Index(i).FieldByName("ID").Uint()))
			}
			sort.Slice(ids, func(i, j int) bool { return ids[i] < ids[j] })
		}
		switch c.Op {
		case "find":
			sl := rel.slice()
			err = a.Find(sl)
			collect(sl)
		case "find-cond":
			sl := rel.slice()
			k := rng.Intn(3)
			detail = fmt.Sprintf("Find(&out, \"v <= ? OR v = ?\", %d, 3)", k)
			err = a.Find(sl, "v <= ? OR v = ?", k, 3)
			collect(sl)
			detail += fmt.Sprintf("|%d", k)
		case "count":
			cnt = a.Count()
			err = a.Error
		case "clear":
			err = a.Clear()
		case "replace-new":
			err = a.Replace(rel.newVal(7))
		case "replace-keep":
			var keep []uint
			for _, t := range targets {
				if t.row.Live && t.linkLive {
					keep = append(keep, t.row.ID)
				}
			}
			if len(keep) == 0 {
				detail = "nothing to keep: Replace(new)"
				err = a.Replace(rel.newVal(7))
			} else {
				k := keep[rng.Intn(len(keep))]
				detail = fmt.Sprintf("Replace(&{ID:%d})|%d", k, k)
				err = a.Replace(rel.keyed(k))
			}
		case "delete":
			var vs []interface{}
			var picked []string
			for _, t := range targets {
				if rng.Intn(2) == 0 {
					vs = append(vs, rel.keyed(t.row.ID))
					picked = append(picked, fmt.Sprint(t.row.ID))
				}
			}
			if len(vs) == 0 && len(targets) > 0 {
				vs = append(vs, rel.keyed(targets[0].row.ID))
				picked = append(picked, fmt.Sprint(targets[0].row.ID))
			}
			detail = "Delete(ids " + strings.Join(picked, ",") + ")|" + strings.Join(picked, ",")
			if len(vs) == 0 {
				return nil, nil, 0, "no target"
			}
			err = a.Delete(vs...)
		case "append":
			err = a.Append(rel.newVal(8))
		}
		return
	}
	var err error
	var ids []uint
	var cnt int64
	var detail string
	func() {
		defer func() {
			if e := recover(); e != nil {
				err = fmt.Errorf("panic: %v", e)
			}
		}()
		if c.Ctx == "nested-tx" {
			h.Transaction(func(tx2 *gorm.DB) error {
				err, ids, cnt, detail = run(tx2)
				return nil
			})
		} else {
			err, ids, cnt, detail = run(h)
		}
	}()
	arg := ""
	if i := strings.Index(detail, "|"); i >= 0 {
		detail, arg = detail[:i], detail[i+1:]
	}
	c.Detail = detail
	key := fmt.Sprint(c.Rel, c.Op, c.DBUn, c.AssocUn, len(c.Owners), c.Ctx)
	r.Case("assoc", key, true)
	r.H("assoc.relation", fmt.Sprintf("%s (%s)", rel.Name, rel.Kind))
	r.H("assoc.op", fmt.Sprintf("%s dbUnscoped=%v assocUnscoped=%v", c.Op, un, c.AssocUn))
	r.H("assoc.context", c.Ctx)
	if err != nil {
		r.H("assoc.error", trunc(err.Error(), 50))
		return
	}
	bad := func(sentence string, obs, exp interface{}, note string) {
		c2 := c
		c2.Violated = sentence
		r.Violate(Violation{Kind: "e2e", Suite: "assoc", Input: c2, Observed: obs, Expected: exp, Note: note})
	}
	after := c08DumpT(tx, rel)
	linksAfter := c08DumpL(tx, rel)
	afterByID := map[uint]c08TRow{}
	for _, t := range after {
		afterByID[t.ID] = t
	}

	// ---- Preload / Joins of the relation
	if c.Op == "preload" || c.Op == "joins" || c.Op == "innerjoins" {
		want := map[[2]uint]bool{}
		has := map[uint]bool{}
		if linked {
			for _, l := range linksBefore {
				if isOwner(l.Owner) && visible(tgt{byID[l.Rel], l.Live}) {
					want[[2]uint{l.Owner, l.Rel}], has[l.Owner] = true, true
				}
			}
		} else {
			for _, t := range targets {
				if visible(t) {
					want[[2]uint{t.row.Owner, t.row.ID}], has[t.row.Owner] = true, true
				}
			}
		}
		got := map[[2]uint]bool{}
		for _, p := range loaded {
			if p[1] != 0 {
				got[p] = true
			}
		}
		what := "without Unscoped a preloaded / joined relation shows exactly the live rows"
		if un {
			what = "with Unscoped the marked rows of a preloaded / joined relation are visible again"
		}
		if c.Op == "preload" && rel.Kind == "hasone" {
			// a has-one field holds ONE of the visible rows: which one is not this property's subject
			for p := range got {
				if !want[p] {
					bad("reads", fmt.Sprint(p), fmt.Sprint(want), what+" ("+c.Op+")")
					return
				}
			}
			for _, o := range c.Owners {
				n := 0
				for p := range got {
					if p[0] == o {
						n++
					}
				}
				if has[o] != (n > 0) {
					bad("reads", fmt.Sprintf("owner %d: loaded=%v", o, n > 0), fmt.Sprintf("loaded=%v", has[o]), what+" ("+c.Op+")")
					return
				}
			}
			return
		}
		if fmt.Sprint(len(got)) != fmt.Sprint(len(want)) {
			bad("reads", fmt.Sprint(got), fmt.Sprint(want), what+" ("+c.Op+")")
			return
		}
		for p := range want {
			if !got[p] {
				bad("reads", fmt.Sprint(got), fmt.Sprint(want), what+" ("+c.Op+")")
				return
			}
		}
		if c.Op == "innerjoins" {
			for _, p := range loaded {
				if p[1] == 0 {
					bad("reads", fmt.Sprintf("owner %d returned without a related row", p[0]), "owners with a visible related row only", what+" (InnerJoins)")
					return
				}
			}
		}
		return
	}

	// ---- reads
	switch c.Op {
	case "find", "find-cond", "count":
		want := []uint{}
		seen := map[uint]bool{}
		for _, t := range targets {
			ok := visible(t)
			if c.Op == "find-cond" {
				k := 0
				fmt.Sscan(arg, &k)
				ok = ok && (t.row.V <= k || t.row.V == 3)
			}
			if ok && !(rel.Kind == "belongsto" && seen[t.row.ID]) {
				want = append(want, t.row.ID) // many2many: one entry per link, a target linked to two of the owners comes twice
				seen[t.row.ID] = true
			}
		}
		sort.Slice(want, func(i, j int) bool { return want[i] < want[j] })
		what := "without Unscoped the association lookup behaves as if the marked rows did not exist"
		if un {
			what = "with Unscoped the marked rows are visible again"
		}
		if c.Op == "count" {
			// latitude: a target reached from two of the owners may be counted once or twice
			distinct := len(seen)
			if int(cnt) != len(want) && int(cnt) != distinct {
				bad("reads", cnt, len(want), what+" (Association.Count)")
			}
		} else if !sameUints(ids, want) {
			bad("reads", ids, want, what+" (Association.Find)")
		}
		return
	}

	// ---- writes
	if !un {
		// I1: marked rows untouched; I2: nothing removed physically
		for _, t := range before {
			a, ok := afterByID[t.ID]
			if !ok {
				bad("I2", fmt.Sprintf("row %d of %s is gone", t.ID, rel.Table), "every row still present", "without db.Unscoped() a delete marks the matching live rows instead of removing them")
				return
			}
			if !t.Live && a != t {
				bad("I1", fmt.Sprintf("%+v", a), fmt.Sprintf("%+v", t), "a marked row was changed by an association call issued without Unscoped")
				return
			}
		}
		if rel.JoinDel {
			was := map[[2]uint]c08Link{}
			for _, l := range linksAfter {
				was[[2]uint{l.Owner, l.Rel}] = l
			}
			for _, l := range linksBefore {
				a, ok := was[[2]uint{l.Owner, l.Rel}]
				if !ok {
					bad("I2", fmt.Sprintf("link row (%d,%d) of %s is gone", l.Owner, l.Rel, rel.Join), "every link row still present (marked)", "the join model is soft-deletable: without db.Unscoped() its rows are marked, not removed")
					return
				}
				if !l.Live && a != l {
					bad("I1", fmt.Sprintf("%+v", a), fmt.Sprintf("%+v", l), "a marked link row was changed")
					return
				}
			}
		}
	}
	// which targets does the call have to delete / detach?
	doomed := func(t tgt) bool {
		switch c.Op {
		case "clear", "replace-new", "delete-owner":
			return true
		case "replace-keep":
			return arg == "" || fmt.Sprint(t.row.ID) != arg
		case "delete":
			for _, p := range strings.Split(arg, ",") {
				if p == fmt.Sprint(t.row.ID) {
					return true
				}
			}
		}
		return false
	}
	if c.Op == "append" {
		return
	}
	if c.Op == "delete-owner" {
		// the owner itself: marked without Unscoped, gone with it
		for _, o := range c.Owners {
			var present, live int64
			tx.Session(&gorm.Session{NewDB: true}).Raw("SELECT count(*) FROM a8_owners WHERE id = ?", o).Scan(&present)
			tx.Session(&gorm.Session{NewDB: true}).Raw("SELECT count(*) FROM a8_owners WHERE id = ? AND deleted_at IS NULL", o).Scan(&live)
			if !un && (present != 1 || live != 0) || un && present != 0 {
				bad(map[bool]string{false: "I3", true: "I4"}[un], fmt.Sprintf("owner %d: present=%d live=%d", o, present, live),
					map[bool]string{false: "present and marked", true: "removed physically"}[un], "Select(relation).Delete(&owner)")
				return
			}
		}
	}
	if c.Op == "delete-owner" && (rel.Kind != "m2m" || rel.JoinDel) && rel.Kind != "belongsto" {
		// TIE assoc.tie: Model/AssocScope.lean deleteAssocFlag over the REGENERATED arms of DeleteBeforeAssociations says which
		// flag the nested Delete of this relation kind sees on the tree under test; the rows say which Delete ran (a live row
		// that is gone: physical; a live row that is marked now: the soft-delete rewrite)
		arm := "schema.HasOne, schema.HasMany"
		if rel.Kind == "m2m" {
			arm = "schema.Many2Many"
		}
		gone, marked := 0, 0
		if rel.Kind == "m2m" {
			left := map[[2]uint]c08Link{}
			for _, l := range linksAfter {
				left[[2]uint{l.Owner, l.Rel}] = l
			}
			for _, l := range linksBefore {
				if !isOwner(l.Owner) || !l.Live {
					continue
				}
				if a, present := left[[2]uint{l.Owner, l.Rel}]; !present {
					gone++
				} else if !a.Live {
					marked++
				}
			}
		} else {
			for _, t := range targets {
				if !t.row.Live {
					continue
				}
				if a, present := afterByID[t.row.ID]; !present {
					gone++
				} else if !a.Live {
					marked++
				}
			}
		}
		if model, ok := c08DeleteAssocModel(arm, c.Ctx == "propagate", un); ok && gone+marked > 0 {
			r.CorrCompared++
			r.Case("assoc.tie", fmt.Sprint(arm, c.Ctx == "propagate", un, rel.Name), true)
			r.H("assoc.tie", fmt.Sprintf("%s propagate=%v unscoped=%v -> nested Delete unscoped=%v", arm, c.Ctx == "propagate", un, model))
			if (model && marked > 0) || (!model && gone > 0) {
				r.Violate(Violation{Kind: "correspondence", Suite: "assoc.tie", Input: c,
					Observed: fmt.Sprintf("live rows removed physically: %d, marked: %d", gone, marked),
					Expected: fmt.Sprintf("nested Delete unscoped = %v (deleteAssocFlag over Gen.deleteAssocArms)", model),
					Note:     "callbacks/delete.go DeleteBeforeAssociations vs Model/AssocScope.lean nestedDeleteUnscoped"})
				return
			}
		}
	}
	if rel.Kind != "m2m" {
		for _, t := range targets {
			if !doomed(t) {
				continue
			}
			a, present := afterByID[t.row.ID]
			switch {
			case !un && c.AssocUn && t.row.Live:
				// I3: the live target is marked now
				if present && a.Live {
					bad("I3", fmt.Sprintf("row %d of %s is still live (%s = %s)", t.row.ID, rel.Table, rel.Col, a.Mark), "marked",
						"Association().Unscoped()."+c.Op+" without db.Unscoped(): Delete marks the matching live rows")
					return
				}
			case un && c.AssocUn:
				// I4: gone physically, marked or not
				if present {
					bad("I4", fmt.Sprintf("row %d of %s is still in the table (live=%v)", t.row.ID, rel.Table, a.Live), "removed physically",
						"db.Unscoped() + Association().Unscoped()."+c.Op+": with Unscoped, Delete removes rows physically (marked rows included: they are visible again)")
					return
				}
			case un && !c.AssocUn && rel.Kind != "belongsto":
				// I5: detached, marked or not
				if present && isOwner(a.Owner) {
					bad("I5", fmt.Sprintf("row %d of %s still carries owner %d (live=%v)", t.row.ID, rel.Table, a.Owner, a.Live), "detached",
						"db.Unscoped()."+c.Op+" (detach): with Unscoped the marked rows are visible to the statement again")
					return
				}
			}
		}
		return
	}
	if rel.JoinDel {
		// the link rows are the soft-deletable rows here
		left := map[[2]uint]c08Link{}
		for _, l := range linksAfter {
			left[[2]uint{l.Owner, l.Rel}] = l
		}
		for _, l := range linksBefore {
			if !isOwner(l.Owner) || !doomed(tgt{byID[l.Rel], l.Live}) {
				continue
			}
			a, present := left[[2]uint{l.Owner, l.Rel}]
			if !un && l.Live && present && a.Live {
				bad("I3", fmt.Sprintf("link (%d,%d) is still live", l.Owner, l.Rel), "marked", "the association call has to delete this link: without Unscoped the link row is marked")
				return
			}
			if un && present {
				if c.Op == "delete-owner" && c.Ctx != "propagate" && listed(c08F33) {
					// FINDING F33: the many2many arm of DeleteBeforeAssociations works on a NewDB session and does not hand
					// Unscoped on (the has-one/has-many arm does): the link rows of a soft-deletable join model are marked
					r.KnownFinding(c08F33, fmt.Sprintf("db.Unscoped().Select(%q).Delete(&owner): link (%d,%d) of the soft-deletable join model is still in %s", c.Rel, l.Owner, l.Rel, rel.Join))
					return
				}
				bad("I4", fmt.Sprintf("link (%d,%d) is still in %s (live=%v)", l.Owner, l.Rel, rel.Join, a.Live), "removed physically", "with db.Unscoped() Delete removes rows physically")
				return
			}
		}
	}
}

const c08F33 = "F33-C08-select-delete-m2m-links-scoped"

// the model's answers for DeleteBeforeAssociations on the tree under test (driver ops c08.deleteAssoc / c08.deleteAssoc.allCopy)
var c08DelAssoc struct {
	once    sync.Once
	ok      bool
	allCopy bool
	flag    map[string]bool // arm|propagate|u -> the nested Delete is unscoped
}

func c08DelAssocLoad() {
	c08DelAssoc.once.Do(func() {
		c08DelAssoc.flag = map[string]bool{}
		ask := [][]interface{}{{"c08.deleteAssoc.allCopy"}}
		var keys []string
		for _, arm := range []string{"schema.HasOne, schema.HasMany", "schema.Many2Many"} {
			for _, p := range []bool{false, true} {
				for _, u := range []bool{false, true} {
					ask = append(ask, []interface{}{"c08.deleteAssoc", arm, p, u})
					keys = append(keys, fmt.Sprint(arm, "|", p, "|", u))
				}
			}
		}
		outs, err := AskLean(ask)
		if err != nil || len(outs) != len(ask) || json.Unmarshal(outs[0], &c08DelAssoc.allCopy) != nil {
			return
		}
		for i, k := range keys {
			var b *bool
			if json.Unmarshal(outs[i+1], &b) == nil && b != nil {
				c08DelAssoc.flag[k] = *b
			}
		}
		c08DelAssoc.ok = true
	})
}

func c08DeleteAssocModel(arm string, propagate, u bool) (bool, bool) {
	c08DelAssocLoad()
	b, ok := c08DelAssoc.flag[fmt.Sprint(arm, "|", propagate, "|", u)]
	return b, ok && c08DelAssoc.ok
}

// c08AvoidF33: while F33 is a listed finding of an unrepaired tree the generator visits its pattern only now and then
func c08AvoidF33() bool {
	c08DelAssocLoad()
	return listed(c08F33) && !(c08DelAssoc.ok && c08DelAssoc.allCopy)
}

// c08ProbeF33 runs the witness of F33 on the real code, literally, on every run: while the finding is listed (and present) it
// prints the KNOWN-FINDING line; when the entry is not listed (status "fixed") the ordinary oracle applies — the link rows of the
// soft-deletable join model must be gone (I4), anything else is a VIOLATION; the tie assoc.tie is judged in both cases
func c08ProbeF33(r *Result) {
	db, _, sqlDB := OpenRec(&gorm.Config{NowFunc: fixedNowFunc})
	defer sqlDB.Close()
	c08AssocSeed(db, rand.New(rand.NewSource(1)))
	c08AssocOne(r, db, c08AssocCase{Seed: 1, N: -1, Rel: "Teams", Op: "delete-owner", DBUn: "before-model", AssocUn: true, Owners: []uint{1}, Ctx: "tx"}, 1)
	// … and every arm x Unscoped x PropagateUnscoped of DeleteBeforeAssociations once per run (all branches of the model behind
	// the tie assoc.tie; the ordinary oracle judges each case)
	dbP, _, sqlP := OpenRec(&gorm.Config{NowFunc: fixedNowFunc, PropagateUnscoped: true})
	defer sqlP.Close()
	c08AssocSeed(dbP, rand.New(rand.NewSource(1)))
	for _, rel := range []string{"Pets", "Den", "Notes", "Teams"} {
		for _, un := range []string{"", "before-model", "session"} {
			for o := uint(1); o <= 3; o++ {
				c08AssocOne(r, db, c08AssocCase{Seed: 1, N: -1, Rel: rel, Op: "delete-owner", DBUn: un, AssocUn: true, Owners: []uint{o}, Ctx: "tx"}, 1)
				c08AssocOne(r, dbP, c08AssocCase{Seed: 1, N: -1, Rel: rel, Op: "delete-owner", DBUn: un, AssocUn: true, Owners: []uint{o}, Ctx: "propagate"}, 1)
			}
		}
	}
}

func init() {
	register("C08", func(r *Result, rng *rand.Rand, tier string) {
		c08ProbeF33(r)
		n := map[string]int{"quick": 110, "thorough": 5000, "search": 500}[tier]
		for i := 0; i < n && !expired(); i++ {
			c08AssocWorld(r, rng.Int63())
		}
	})
	replayers["C08/assoc"] = func(r *Result, input json.RawMessage) {
		var c c08AssocCase
		if json.Unmarshal(input, &c) == nil {
			if c.N < 0 {
				c08ProbeF33(r) // the per-run witness probe of F33
				return
			}
			c08AssocWorld(r, c.Seed)
		}
	}
	replayers["C08/assoc.tie"] = replayers["C08/assoc"]
}
