package main

import (
	"fmt"
	"math/rand"

	"gorm.io/gorm"
)

// ---- family R: relations whose foreign key references a NON-primary column ----------------------------------
//
// Every model carries a surrogate integer primary key `id` (= the row number n) that NO relation uses; the relations
// reference other columns of the parent (`code` string, `ref` integer, the composite (`region`,`slot`)).  The value
// alphabets are chosen so that a referenced key very often looks like the PRIMARY key of ANOTHER row of the same
// table ("2" / 2 on the row with id 1, …): loading code that compares a foreign key with the primary key instead of
// the referenced column then silently delivers another parent's rows instead of failing.

type C11RGroup struct {
	ID        uint `gorm:"primaryKey"`
	Code      string
	Ref       int64
	N         int
	DeletedAt gorm.DeletedAt
}

func (C11RGroup) TableName() string { return "c11r_groups" }

type C11RCard struct {
	ID        uint `gorm:"primaryKey"`
	N         int
	OwnerCode *string
	DeletedAt gorm.DeletedAt
}

func (C11RCard) TableName() string { return "c11r_cards" }

type C11RItem struct {
	ID        uint `gorm:"primaryKey"`
	N         int
	OwnerRef  *int64
	DeletedAt gorm.DeletedAt
	Owner     *C11ROwner `gorm:"foreignKey:OwnerRef;references:Ref"`
}

func (C11RItem) TableName() string { return "c11r_items" }

type C11RLine struct {
	ID        uint `gorm:"primaryKey"`
	N         int
	ORegion   *uint
	OSlot     *string
	DeletedAt gorm.DeletedAt
	Owner     *C11ROwner `gorm:"foreignKey:ORegion,OSlot;references:Region,Slot"`
}

func (C11RLine) TableName() string { return "c11r_lines" }

type C11RTag struct {
	ID        uint `gorm:"primaryKey"`
	Code      string
	N         int
	DeletedAt gorm.DeletedAt
}

func (C11RTag) TableName() string { return "c11r_tags" }

type C11RNote struct {
	ID        uint `gorm:"primaryKey"`
	N         int
	OwnerID   string
	OwnerType string
	DeletedAt gorm.DeletedAt
}

func (C11RNote) TableName() string { return "c11r_notes" }

type C11ROwner struct {
	ID        uint `gorm:"primaryKey"`
	Code      string
	Ref       int64
	Region    uint
	Slot      string
	N         int
	DeletedAt gorm.DeletedAt
	GroupCode *string
	Group     *C11RGroup `gorm:"foreignKey:GroupCode;references:Code"` // belongs to, string column
	GroupRef  *int64
	GroupR    *C11RGroup   `gorm:"foreignKey:GroupRef;references:Ref"` // second relation between the same models, integer column
	Card      *C11RCard    `gorm:"foreignKey:OwnerCode;references:Code"`
	Items     []C11RItem   `gorm:"foreignKey:OwnerRef;references:Ref"`
	Lines     []C11RLine   `gorm:"foreignKey:ORegion,OSlot;references:Region,Slot"`
	Tags      []C11RTag    `gorm:"many2many:c11r_owner_tags;foreignKey:Ref;joinForeignKey:OwnerRef;references:Code;joinReferences:TagCode"`
	Notes     []C11RNote   `gorm:"polymorphic:Owner;polymorphicValue:rown;foreignKey:Code"`
	Memo      *C11RNote    `gorm:"polymorphic:Owner;polymorphicValue:rmemo;foreignKey:Code"`
	BossRef   *int64
	Boss      *C11ROwner   `gorm:"foreignKey:BossRef;references:Ref"`
	Staff     []*C11ROwner `gorm:"foreignKey:BossRef;references:Ref"`
	Friends   []*C11ROwner `gorm:"many2many:c11r_friends;foreignKey:Code;joinForeignKey:OwnerCode;references:Ref;joinReferences:FriendRef"`
}

func (C11ROwner) TableName() string { return "c11r_owners" }

// k distinct non-empty reference strings for rows 1..k: mostly the decimal text of ANOTHER row's id (a derangement of
// 1..k, so that `id = code` never identifies the row itself), sometimes a spelling that is not an id at all
func c11RCodes(rng *rand.Rand, k int) []string {
	out := make([]string, k)
	shift := 1 + rng.Intn(k)
	seen := map[string]bool{}
	for i := 0; i < k; i++ {
		c := fmt.Sprint((i+shift)%(k+1) + 1) // values 1..k+1, a cyclic shift: never i+1 itself
		if (i+shift)%(k+1) == i {
			c = fmt.Sprint(k + 2)
		}
		if rng.Intn(5) == 0 {
			c = []string{"XX", "ab", "AB", "0" + c, c + " ", "nil", "a_b"}[rng.Intn(7)]
		}
		for seen[c] {
			c += "x"
		}
		seen[c] = true
		out[i] = c
	}
	return out
}

// k distinct non-zero integer references for rows 1..k, again mostly another row's id
func c11RRefs(rng *rand.Rand, k int) []int {
	out := make([]int, k)
	shift := 1 + rng.Intn(k)
	seen := map[int]bool{}
	for i := 0; i < k; i++ {
		v := (i+shift)%(k+1) + 1
		if (i+shift)%(k+1) == i {
			v = k + 2
		}
		if rng.Intn(6) == 0 {
			v = []int{-1, -2, 10, 1 << 33, 100}[rng.Intn(5)]
		}
		for seen[v] {
			v += 7
		}
		seen[v] = true
		out[i] = v
	}
	return out
}

func init() {
	rOwnerRels := []c11RelD{
		{Field: "Group", Kind: "belongs_to", Child: "c11r_groups", Single: true, On: c11Pairs("group_code", "code")},
		{Field: "GroupR", Kind: "belongs_to", Child: "c11r_groups", Single: true, On: c11Pairs("group_ref", "ref")},
		{Field: "Card", Kind: "has_one", Child: "c11r_cards", Single: true, On: c11Pairs("code", "owner_code")},
		{Field: "Items", Kind: "has_many", Child: "c11r_items", On: c11Pairs("ref", "owner_ref")},
		{Field: "Lines", Kind: "has_many", Child: "c11r_lines", On: c11Pairs("region", "o_region", "slot", "o_slot")},
		{Field: "Tags", Kind: "many2many", Child: "c11r_tags", Via: "c11r_owner_tags", ViaP: c11Pairs("ref", "owner_ref"), ViaC: c11Pairs("tag_code", "code")},
		{Field: "Notes", Kind: "poly_many", Child: "c11r_notes", On: c11Pairs("code", "owner_id"), Const: c11Pairs("owner_type", "rown")},
		{Field: "Memo", Kind: "poly_one", Child: "c11r_notes", Single: true, On: c11Pairs("code", "owner_id"), Const: c11Pairs("owner_type", "rmemo")},
		{Field: "Boss", Kind: "self_belongs_to", Child: "c11r_owners", Single: true, On: c11Pairs("boss_ref", "ref")},
		{Field: "Staff", Kind: "self_has_many", Child: "c11r_owners", On: c11Pairs("ref", "boss_ref")},
		{Field: "Friends", Kind: "self_many2many", Child: "c11r_owners", Via: "c11r_friends", ViaP: c11Pairs("code", "owner_code"), ViaC: c11Pairs("friend_ref", "ref")},
	}
	famR := &c11Family{Name: "R", Tables: []*c11Table{
		{Name: "c11r_owners", Model: &C11ROwner{}, Cols: []c11ColT{{"code", "str", false}, {"ref", "int", false}, {"region", "uint", false}, {"slot", "str", false},
			{"group_code", "str", true}, {"group_ref", "int", true}, {"boss_ref", "int", true}}, Rels: rOwnerRels},
		{Name: "c11r_groups", Model: &C11RGroup{}, Cols: []c11ColT{{"code", "str", false}, {"ref", "int", false}}},
		{Name: "c11r_cards", Model: &C11RCard{}, Cols: []c11ColT{{"owner_code", "str", true}}},
		{Name: "c11r_items", Model: &C11RItem{}, Cols: []c11ColT{{"owner_ref", "int", true}},
			Rels: []c11RelD{{Field: "Owner", Kind: "belongs_to", Child: "c11r_owners", Single: true, On: c11Pairs("owner_ref", "ref")}}},
		{Name: "c11r_lines", Model: &C11RLine{}, Cols: []c11ColT{{"o_region", "uint", true}, {"o_slot", "str", true}},
			Rels: []c11RelD{{Field: "Owner", Kind: "belongs_to", Child: "c11r_owners", Single: true, On: c11Pairs("o_region", "region", "o_slot", "slot")}}},
		{Name: "c11r_tags", Model: &C11RTag{}, Cols: []c11ColT{{"code", "str", false}}},
		{Name: "c11r_notes", Model: &C11RNote{}, Cols: []c11ColT{{"owner_id", "str", false}, {"owner_type", "str", false}}},
		{Name: "c11r_owner_tags", Cols: []c11ColT{{"owner_ref", "int", false}, {"tag_code", "str", false}}},
		{Name: "c11r_friends", Cols: []c11ColT{{"owner_code", "str", false}, {"friend_ref", "int", false}}},
	}}
	famR.Gen = func(rng *rand.Rand, mode int) c11World {
		w := c11World{Family: "R", Tables: map[string][]c11Row{}}
		add := func(t string, r c11Row) { w.Tables[t] = append(w.Tables[t], r) }
		// a foreign key: an existing referenced value | NULL | an orphan that is the PRIMARY key of an existing row but
		// nobody's referenced value (whenever such a number exists) | an orphan that is no key of any kind
		strFK := func(keys []string, pNull, pOrphan int) interface{} {
			x := rng.Intn(100)
			if x < pNull {
				return nil
			}
			if x < pNull+pOrphan || len(keys) == 0 {
				for id := 1; id <= len(keys) && rng.Intn(3) > 0; id++ {
					if !c11In(keys, fmt.Sprint(id)) {
						return fmt.Sprint(id)
					}
				}
				return []string{"zz", "0", "99"}[rng.Intn(3)]
			}
			return keys[rng.Intn(len(keys))]
		}
		intFK := func(keys []int, pNull, pOrphan int) interface{} {
			x := rng.Intn(100)
			if x < pNull {
				return nil
			}
			if x < pNull+pOrphan || len(keys) == 0 {
				for id := 1; id <= len(keys) && rng.Intn(3) > 0; id++ {
					found := false
					for _, k := range keys {
						found = found || k == id
					}
					if !found {
						return id
					}
				}
				return []int{0, 90, 91}[rng.Intn(3)]
			}
			return keys[rng.Intn(len(keys))]
		}
		ng := 1 + rng.Intn(3)
		gCodes, gRefs := c11RCodes(rng, ng), c11RRefs(rng, ng)
		for i := 0; i < ng; i++ {
			add("c11r_groups", c11Row{"code": gCodes[i], "ref": gRefs[i], "n": i + 1, "deleted_at": c11Del(rng, 5)})
		}
		no := 2 + rng.Intn(4)
		oCodes, oRefs := c11RCodes(rng, no), c11RRefs(rng, no)
		type rs struct {
			r int
			s string
		}
		slots := []string{"", "a", "A", "1", "2", "3"}
		var oRS []rs
		seenRS := map[rs]bool{}
		for i := 0; i < no; i++ {
			p := rs{rng.Intn(3), slots[rng.Intn(len(slots))]}
			for (p.r == 0 && p.s == "") || seenRS[p] {
				p = rs{rng.Intn(4), slots[rng.Intn(len(slots))]}
			}
			seenRS[p] = true
			oRS = append(oRS, p)
		}
		for i := 0; i < no; i++ {
			add("c11r_owners", c11Row{"code": oCodes[i], "ref": oRefs[i], "region": oRS[i].r, "slot": oRS[i].s, "n": i + 1, "deleted_at": c11Del(rng, 8),
				"group_code": strFK(gCodes, 20, 20), "group_ref": intFK(gRefs, 20, 20), "boss_ref": intFK(oRefs, 30, 15)})
		}
		n := 0
		for _, o := range oCodes {
			if rng.Intn(2) == 0 {
				n++
				add("c11r_cards", c11Row{"n": n, "owner_code": o, "deleted_at": false})
			}
			for rng.Intn(4) == 0 {
				n++
				add("c11r_cards", c11Row{"n": n, "owner_code": o, "deleted_at": true})
			}
		}
		for i := 0; i < 2; i++ { // cards of nobody: NULL, or the primary key of an owner that is nobody's code
			if rng.Intn(2) == 0 {
				n++
				add("c11r_cards", c11Row{"n": n, "owner_code": strFK(oCodes, 30, 70), "deleted_at": false})
			}
		}
		for i, k := 0, rng.Intn(8); i < k; i++ {
			add("c11r_items", c11Row{"n": i + 1, "owner_ref": intFK(oRefs, 10, 25), "deleted_at": c11Del(rng, 5)})
		}
		for i, k := 0, rng.Intn(7); i < k; i++ {
			var a, b interface{}
			o := oRS[rng.Intn(len(oRS))]
			switch x := rng.Intn(10); {
			case x < 1:
			case x < 2:
				if rng.Intn(2) == 0 {
					a = o.r
				} else {
					b = o.s
				}
			case x < 4: // orphan differing in one component, often equal to another owner's (id, slot) / (region, id)
				p := rs{o.r, o.s}
				if rng.Intn(2) == 0 {
					p.r = rng.Intn(4)
				} else {
					p.s = slots[rng.Intn(len(slots))]
				}
				if !seenRS[p] {
					a, b = p.r, p.s
				} else {
					a, b = 9, "zz"
				}
			default:
				a, b = o.r, o.s
			}
			add("c11r_lines", c11Row{"n": i + 1, "o_region": a, "o_slot": b, "deleted_at": c11Del(rng, 5)})
		}
		nt := 1 + rng.Intn(4)
		tCodes := c11RCodes(rng, nt)
		for i, t := range tCodes {
			add("c11r_tags", c11Row{"code": t, "n": i + 1, "deleted_at": c11Del(rng, 5)})
		}
		seenJ := map[string]bool{}
		addJoin := func(tab string, r c11Row) {
			k := tab + fmt.Sprint(r)
			if !seenJ[k] {
				seenJ[k] = true
				add(tab, r)
			}
		}
		for i := range oCodes {
			for _, t := range tCodes {
				if rng.Intn(3) == 0 {
					addJoin("c11r_owner_tags", c11Row{"owner_ref": oRefs[i], "tag_code": t})
				}
			}
			for j := range oCodes {
				if rng.Intn(5) == 0 {
					addJoin("c11r_friends", c11Row{"owner_code": oCodes[i], "friend_ref": oRefs[j]})
				}
			}
		}
		for i := 0; i < 2; i++ { // join rows naming primary keys instead of referenced values / pointing nowhere
			if rng.Intn(2) == 0 {
				if a, ok := intFK(oRefs, 0, 100).(int); ok && a != 0 {
					addJoin("c11r_owner_tags", c11Row{"owner_ref": a, "tag_code": tCodes[0]})
				}
				if b, ok := strFK(tCodes, 0, 100).(string); ok {
					addJoin("c11r_owner_tags", c11Row{"owner_ref": oRefs[0], "tag_code": b})
				}
				if a, ok := strFK(oCodes, 0, 100).(string); ok {
					addJoin("c11r_friends", c11Row{"owner_code": a, "friend_ref": oRefs[0]})
				}
				if b, ok := intFK(oRefs, 0, 100).(int); ok && b != 0 {
					addJoin("c11r_friends", c11Row{"owner_code": oCodes[0], "friend_ref": b})
				}
			}
		}
		memo := map[string]bool{}
		for i, k := 0, rng.Intn(7); i < k; i++ {
			o, _ := strFK(oCodes, 0, 25).(string)
			typ := []string{"rown", "rown", "rmemo", "other", "c11r_owners"}[rng.Intn(5)]
			del := c11Del(rng, 4)
			if typ == "rmemo" && !del {
				if memo[o] {
					del = true
				}
				memo[o] = true
			}
			add("c11r_notes", c11Row{"n": i + 1, "owner_id": o, "owner_type": typ, "deleted_at": del})
		}
		return w
	}
	c11Families["R"] = famR
}
