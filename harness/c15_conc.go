package main

// C15 round 3 — the path-agreement oracle under CONCURRENT readers (`conc`).
//
// Everything else in C15 exercises one read path at a time.  gorm documents *gorm.DB as safe for concurrent use, and
// "Find into structs, Find into maps, Rows with ScanRows, Scan, Pluck, Count, First/Take/Last and FindInBatches report
// the same rows and values" is demanded of every reader whatever the others do.  Process-wide state on the read path
// (the scan-holder pools keyed by Go type, the schema cache, a shared `values` slice, a pooled statement …) only
// shows when readers overlap.
//
// A round: k ∈ 2..8 goroutines on ONE *gorm.DB (shared-cache SQLite, MaxOpenConns ≥ k + 2, read-only while readers
// run), each with its own program = a read path × chain × table of the wide world of c15_pool.go (15 columns of mixed
// types, cell = f(table, id, column)), its OWN fresh destination per call, repeated `reps` times after a common start
// signal.  The last column's type implements sql.Scanner; its Scan method (which runs INSIDE rows.Scan, after the
// other columns of the row were written to their holders and before field.Set reads them) yields the processor, so
// readers interleave exactly in the window where a shared holder hurts — also on few cores.
// Oracle: every result of every goroutine equals the in-memory reference (c15WJudge); the first foreign value is
// reported with the programs of the round as replay input.  LATITUDE: none beyond c15WJudge's; an error whose text
// says the database/table is locked or busy is the environment (SQLite), not gorm: counted, not judged.

import (
	"encoding/json"
	"fmt"
	"math/rand"
	"os"
	"runtime"
	"strings"
	"sync"
	"sync/atomic"
)

type c15CRound struct {
	N     int        `json:"n"`
	Reps  int        `json:"reps"`
	Specs []c15WSpec `json:"specs"`
}

type c15CMiss struct {
	G    int      `json:"goroutine"`
	Rep  int      `json:"rep"`
	Spec c15WSpec `json:"spec"`
	Msg  string   `json:"judgement"`
	Obs  *c15WObs `json:"delivered"`
	Env  bool     `json:"-"`
}

func c15CEnvErr(s string) bool {
	s = strings.ToLower(s)
	return strings.Contains(s, "locked") || strings.Contains(s, "busy") || strings.Contains(s, "interrupted")
}

// c15CRun runs one round; returns the first mismatch (nil = all readers agree with the table) and the number of calls
func c15CRun(w *c15WWorld, rd *c15CRound) (*c15CMiss, int, int) {
	var (
		wg    sync.WaitGroup
		start = make(chan struct{})
		stop  int32
		mu    sync.Mutex
		first *c15CMiss
		calls int64
		envs  int64
	)
	for g, spec := range rd.Specs {
		wg.Add(1)
		go func(g int, spec c15WSpec) {
			defer wg.Done()
			<-start
			for rep := 0; rep < rd.Reps && atomic.LoadInt32(&stop) == 0; rep++ {
				o := c15WRun(w.db, spec)
				atomic.AddInt64(&calls, 1)
				if o.Err != "" && c15CEnvErr(o.Err) {
					atomic.AddInt64(&envs, 1)
					continue
				}
				if msg := c15WJudge(spec, rd.N, o); msg != "" {
					mu.Lock()
					if first == nil {
						first = &c15CMiss{G: g, Rep: rep, Spec: spec, Msg: msg, Obs: o}
					}
					mu.Unlock()
					atomic.StoreInt32(&stop, 1)
					return
				}
			}
		}(g, spec)
	}
	close(start)
	wg.Wait()
	return first, int(calls), int(envs)
}

func c15CGenRound(rng *rand.Rand, n int) *c15CRound {
	k := 2 + rng.Intn(7)
	rd := &c15CRound{N: n, Reps: 3 + rng.Intn(6)}
	// at least two struct-destination readers with several rows each (the pooled holders), the rest any path
	for g := 0; g < k; g++ {
		paths := c15WPaths
		if g < 2 || rng.Intn(2) == 0 {
			paths = []string{"find.structs", "find.ptrs", "rows.scanrows", "scan.small", "scan.structs", "batches"}
		}
		s := c15WGenSpec(rng, n, paths)
		if g < 2 { // ≥ 2 rows guaranteed
			s.Gt, s.Le, s.Limit = int64(rng.Intn(n/3+1)), 0, 0
		}
		rd.Specs = append(rd.Specs, s)
	}
	return rd
}

func init() {
	register("C15", func(r *Result, _ *rand.Rand, tier string) {
		// own stream derived from the run's seed: the older suites keep the streams they were validated with
		rng := rand.New(rand.NewSource(r.Seed*7919 + 152))
		if only := os.Getenv("C15_ONLY"); only != "" && !strings.Contains(only, "conc") {
			return
		}
		rounds, n := 260, 12
		if tier == "thorough" {
			rounds, n = 6000, 24
		} else if tier == "search" {
			rounds, n = 1500, 16
		}
		w := c15WOpen(n, 12)
		defer w.close()
		c15GateHook.Store(func() { runtime.Gosched() })
		defer c15GateHook.Store(func() {})
		// warm the schema cache with one sequential call per destination type: cold concurrent parsing of a schema is
		// C07's subject (listed findings F10/F12 there), not this property's
		for _, p := range []string{"find.structs", "scan.small", "find.maps"} {
			c15WRun(w.db, c15WSpec{Path: p})
		}
		viol, missRounds := 0, 0
		calls, envs := 0, 0
		for i := 0; i < rounds && !expired(); i++ {
			rd := c15CGenRound(rng, n)
			miss, c, e := c15CRun(w, rd)
			calls += c
			envs += e
			pooled := 0
			for _, s := range rd.Specs {
				if c15WPooled(s.Path) {
					pooled++
				}
				r.H("conc.path", s.Path)
			}
			r.Case("conc", canon(rd), pooled >= 2)
			r.H("conc.goroutines", fmt.Sprint(len(rd.Specs)))
			if i%67 == 0 {
				r.Sample(map[string]interface{}{"suite": "conc", "input": rd})
			}
			if miss != nil && viol < 3 {
				viol++
				r.Violate(Violation{Kind: "e2e", Suite: "conc", Input: rd, Observed: miss, Expected: "every reader's rows and values equal the in-memory table, whatever the other readers do",
					Note: fmt.Sprintf("%d goroutines reading concurrently through one *gorm.DB, each into its own fresh destination; goroutine %d, repetition %d", len(rd.Specs), miss.G, miss.Rep)})
			}
			if miss != nil {
				missRounds++
			}
			if viol >= 3 && os.Getenv("C15_CONC_STATS") == "" {
				break
			}
		}
		r.H("conc.calls", fmt.Sprint(calls/1000, "k"))
		if os.Getenv("C15_CONC_STATS") != "" { // development aid: per-round detection rate against a mutated tree
			r.Note("conc: %d of %d rounds saw a reader disagree with the table", missRounds, rounds)
		}
		if envs > 0 {
			r.Note("conc: %d of %d calls hit a locked/busy database (environment, not judged)", envs, calls)
		}
	})
	replayers["C15/conc"] = func(r *Result, input json.RawMessage) {
		var rd c15CRound
		if err := json.Unmarshal(input, &rd); err != nil || len(rd.Specs) == 0 {
			r.Note("bad replay input: %v", err)
			return
		}
		w := c15WOpen(rd.N, 12)
		defer w.close()
		c15GateHook.Store(func() { runtime.Gosched() })
		defer c15GateHook.Store(func() {})
		for _, p := range []string{"find.structs", "scan.small", "find.maps"} {
			c15WRun(w.db, c15WSpec{Path: p})
		}
		// a schedule cannot be replayed, the programs can: repeat the round until the readers disagree with the table
		big := rd
		if big.Reps < 20 {
			big.Reps = 20
		}
		for i := 0; i < 400; i++ {
			miss, _, _ := c15CRun(w, &big)
			r.Case("conc", canon(rd), true)
			if miss != nil {
				r.Violate(Violation{Kind: "e2e", Suite: "conc", Input: rd, Observed: miss, Expected: "every reader's rows and values equal the in-memory table, whatever the other readers do"})
				return
			}
		}
	}
}
