package main

import (
	"database/sql"
	"encoding/json"
	"fmt"
	"math/rand"
	"sort"
	"strings"

	"gorm.io/gorm"
	"gorm.io/gorm/clause"
	"gorm.io/gorm/utils"
)

// C11: eager loading attaches to each record exactly its own associated rows.

// composite string keys
type KParent struct {
	A    string `gorm:"primaryKey"`
	B    string `gorm:"primaryKey"`
	Name string
	Kids []KChild `gorm:"foreignKey:PA,PB;references:A,B"`
}

type KChild struct {
	ID uint `gorm:"primaryKey"`
	PA string
	PB string
	V  int
}

var keyAlphabet = []string{"a", "b", "c", "a_b", "b_c", "nil", "x y", "é", "a_", "_b", "0", "1",
	"A", "AB", "Ab", "aB", "ab", "É", "NIL", "Nil", "", "ß", "İ", "a\tb", "true", "-1", "a ", " a", "a\n", "01", "1.0", "+1"}

func genKeyVal(rng *rand.Rand) (interface{}, interface{}) {
	s := keyAlphabet[rng.Intn(len(keyAlphabet))]
	switch rng.Intn(20) {
	case 12:
		if s == "" {
			return c11Code(s), nil // named string type: default arm, zero value prints "nil"
		}
		return c11Code(s), map[string]interface{}{"s": s}
	case 13:
		if rng.Intn(2) == 0 {
			return false, nil
		}
		return true, map[string]interface{}{"s": "true"}
	case 14:
		n := int8(rng.Intn(5) - 2)
		return n, map[string]interface{}{"i": n}
	case 15:
		n := uint(rng.Intn(3))
		return &n, map[string]interface{}{"u": n} // *uint is not `uint`: default arm, prints the pointee (also 0)
	case 16:
		return &s, map[string]interface{}{"s": s} // non-nil *string prints the pointee (also "")
	case 17:
		if rng.Intn(2) == 0 {
			return sql.NullInt64{}, nil
		}
		n := int64(rng.Intn(3))
		return sql.NullInt64{Int64: n, Valid: true}, map[string]interface{}{"i": n}
	case 18:
		var b []byte
		return b, map[string]interface{}{"b": ""}
	case 0:
		return s, map[string]interface{}{"s": s}
	case 1:
		return []byte(s), map[string]interface{}{"b": s}
	case 2:
		n := uint(rng.Intn(3))
		return n, map[string]interface{}{"u": n}
	case 3:
		n := rng.Intn(5) - 2
		return n, map[string]interface{}{"i": n}
	case 4:
		n := int64(rng.Intn(3))
		return n, map[string]interface{}{"i": n}
	case 5:
		n := uint64(rng.Intn(3))
		return n, map[string]interface{}{"i": n}
	case 6:
		var p *int
		return p, nil
	case 7:
		n := rng.Intn(3)
		if n == 0 {
			// pointer to zero: reflect.ValueOf(ptr) is not zero, prints the pointee
			return &n, map[string]interface{}{"s": "0"}
		}
		return &n, map[string]interface{}{"i": n}
	case 8:
		return sql.NullString{String: s, Valid: true}, map[string]interface{}{"s": s}
	case 9:
		return sql.NullString{}, nil
	case 10:
		return nil, nil
	default:
		return s, map[string]interface{}{"s": s}
	}
}

// three-column key of mixed Go types (int: zero prints "nil"; uint: zero prints "0"; string: "" prints "")
type C11K3Parent struct {
	R    int    `gorm:"primaryKey;autoIncrement:false"`
	U    uint   `gorm:"primaryKey;autoIncrement:false"`
	S    string `gorm:"primaryKey"`
	Name string
	Kids []C11K3Child `gorm:"foreignKey:PR,PU,PS;references:R,U,S"`
}

type C11K3Child struct {
	ID uint `gorm:"primaryKey"`
	PR int
	PU uint
	PS string
}

type c11Graph struct {
	Shape    string          `json:"shape,omitempty"` // "" = two strings (KParent) | "ius" = int, uint, string (C11K3Parent)
	Parents  [][]interface{} `json:"parents"`         // key tuples, distinct
	Children [][]interface{} `json:"children"`        // id, fk tuple
}

var c11SafeAlpha = []string{"a", "A", "ab", "AB", "Ab", "b", "c", "x y", "é", "É", "0", "1", "nil", "nilx", "", "a ", " a", "ab\t", "01", "1.0"}

func (g c11Graph) arity() int {
	if g.Shape == "ius" {
		return 3
	}
	return 2
}

func genKeyGraph(rng *rand.Rand, safe bool) c11Graph {
	alpha := c11SafeAlpha
	if !safe {
		alpha = keyAlphabet
	}
	g := c11Graph{}
	if rng.Intn(2) == 0 {
		g.Shape = "ius"
	}
	tuple := func() []interface{} {
		if g.Shape == "ius" {
			return []interface{}{rng.Intn(4) - 1, rng.Intn(3), alpha[rng.Intn(len(alpha))]}
		}
		return []interface{}{alpha[rng.Intn(len(alpha))], alpha[rng.Intn(len(alpha))]}
	}
	seen := map[string]bool{}
	for i, n := 0, 1+rng.Intn(6); i < n; i++ {
		k := tuple()
		if rng.Intn(3) == 0 { // zero-valued components
			z := rng.Intn(len(k))
			k[z] = c11ZeroLike(k[z])
			for j := range k {
				if rng.Intn(3) == 0 {
					k[j] = c11ZeroLike(k[j])
				}
			}
		}
		if !seen[canon(k)] {
			seen[canon(k)] = true
			g.Parents = append(g.Parents, k)
		}
	}
	for i, n := 0, rng.Intn(9); i < n; i++ {
		var k []interface{}
		if rng.Intn(4) > 0 {
			k = g.Parents[rng.Intn(len(g.Parents))]
		} else {
			k = tuple() // usually an orphan
		}
		g.Children = append(g.Children, append([]interface{}{i + 1}, k...))
	}
	return g
}

func c11ZeroLike(v interface{}) interface{} {
	if _, ok := v.(string); ok {
		return ""
	}
	return 0
}

// reference rendering of one component (what the unchanged ToStringKey prints), used only for the F6 pattern
func (g c11Graph) render(k []interface{}) string {
	var parts []string
	for j, v := range k {
		v = c11Norm(v)
		if n, ok := v.(int64); ok && n == 0 && !(g.Shape == "ius" && j == 1) {
			parts = append(parts, "nil")
		} else {
			parts = append(parts, fmt.Sprint(v))
		}
	}
	return strings.Join(parts, "_")
}

func (g c11Graph) collision() bool {
	keys := map[string]string{}
	for _, p := range g.Parents {
		if c11TupleZero(p) {
			continue
		}
		j := g.render(p)
		if o, ok := keys[j]; ok && o != canon(p) {
			return true
		}
		keys[j] = canon(p)
	}
	return false
}

func c11TupleZero(k []interface{}) bool {
	for _, v := range k {
		v = c11Norm(v)
		if v != int64(0) && v != "" {
			return false
		}
	}
	return true
}

func c11TupleEq(a, b []interface{}) bool {
	if len(a) != len(b) {
		return false
	}
	for i := range a {
		if c11Norm(a[i]) != c11Norm(b[i]) {
			return false
		}
	}
	return true
}

// KeyVal JSON + zero flag of one component of a graph tuple (per column type of the shape)
func (g c11Graph) kv(j int, v interface{}) (interface{}, bool) {
	v = c11Norm(v)
	switch x := v.(type) {
	case string:
		return map[string]interface{}{"s": x}, x == ""
	case int64:
		if g.Shape == "ius" && j == 1 {
			return map[string]interface{}{"u": x}, x == 0
		}
		return map[string]interface{}{"i": x}, x == 0
	}
	panic("c11 kv")
}

type c11KeyRun struct {
	Slice  map[int][]int // parent index -> attached child ids, Find(&[]parents) path
	Single map[int][]int // First(&parent) path (struct branch of the identity map)
	Want   map[int][]int // reference join (tuple equality); all-zero parents are not judged
	Order  []int         // parent indexes in the order Find returned them
	Err    error
}

func c11RunKeyGraph(g c11Graph) (res c11KeyRun) {
	db, _, sqlDB := OpenRec(nil)
	defer sqlDB.Close()
	if e := db.AutoMigrate(&KParent{}, &KChild{}, &C11K3Parent{}, &C11K3Child{}); e != nil {
		panic(e)
	}
	ptab, ctab, pcols, ccols := "k_parents", "k_children", "a,b", "pa,pb"
	if g.Shape == "ius" {
		ptab, ctab, pcols, ccols = "c11_k3_parents", "c11_k3_children", "r,u,s", "pr,pu,ps"
	}
	qs := strings.TrimSuffix(strings.Repeat("?,", g.arity()+1), ",")
	for i, p := range g.Parents {
		args := append([]interface{}{}, p[:g.arity()]...)
		for j := range args {
			args[j] = c11Norm(args[j])
		}
		if _, e := sqlDB.Exec("INSERT INTO "+ptab+" ("+pcols+",name) VALUES ("+qs+")", append(args, fmt.Sprintf("p%03d", i))...); e != nil {
			res.Err = e
			return
		}
	}
	res.Want = map[int][]int{}
	for _, c := range g.Children {
		args := []interface{}{}
		for _, v := range c[:g.arity()+1] {
			args = append(args, c11Norm(v))
		}
		if _, e := sqlDB.Exec("INSERT INTO "+ctab+" (id,"+ccols+") VALUES ("+qs+")", args...); e != nil {
			res.Err = e
			return
		}
		for i, p := range g.Parents {
			if c11TupleEq(p, c[1:]) {
				res.Want[i] = append(res.Want[i], int(c11Norm(c[0]).(int64)))
			}
		}
	}
	res.Slice, res.Single = map[int][]int{}, map[int][]int{}
	idx := func(name string) int {
		var i int
		fmt.Sscanf(name, "p%d", &i)
		return i
	}
	put := func(m map[int][]int, i int, ids []int) {
		sort.Ints(ids)
		if len(ids) > 0 {
			m[i] = ids
		}
	}
	if g.Shape == "ius" {
		var ps []C11K3Parent
		if e := db.Preload("Kids").Order("name").Find(&ps).Error; e != nil {
			res.Err = e
			return
		}
		for _, p := range ps {
			ids := []int{}
			for _, k := range p.Kids {
				ids = append(ids, int(k.ID))
			}
			res.Order = append(res.Order, idx(p.Name))
			put(res.Slice, idx(p.Name), ids)
		}
		for i := range g.Parents {
			var one C11K3Parent
			if e := db.Preload("Kids").Where("name = ?", fmt.Sprintf("p%03d", i)).Take(&one).Error; e != nil {
				res.Err = e
				return
			}
			ids := []int{}
			for _, k := range one.Kids {
				ids = append(ids, int(k.ID))
			}
			put(res.Single, i, ids)
		}
	} else {
		var ps []*KParent
		if e := db.Preload("Kids").Order("name").Find(&ps).Error; e != nil {
			res.Err = e
			return
		}
		for _, p := range ps {
			ids := []int{}
			for _, k := range p.Kids {
				ids = append(ids, int(k.ID))
			}
			res.Order = append(res.Order, idx(p.Name))
			put(res.Slice, idx(p.Name), ids)
		}
		for i := range g.Parents {
			var one KParent
			if e := db.Preload("Kids").Where("name = ?", fmt.Sprintf("p%03d", i)).Take(&one).Error; e != nil {
				res.Err = e
				return
			}
			ids := []int{}
			for _, k := range one.Kids {
				ids = append(ids, int(k.ID))
			}
			put(res.Single, i, ids)
		}
	}
	for i, p := range g.Parents {
		if c11TupleZero(p) {
			delete(res.Want, i) // convention: an entirely zero key is "no key"; not judged by the reference join
		}
	}
	return
}

// the Lean ops predicting the attachment of one graph: slice path, then one single-struct path per parent
func (g c11Graph) leanOps(order []int) [][]interface{} {
	row := func(i int) []interface{} {
		comps := []interface{}{}
		for j, v := range g.Parents[i] {
			kv, z := g.kv(j, v)
			comps = append(comps, []interface{}{kv, z})
		}
		return []interface{}{i, comps}
	}
	kids := []interface{}{}
	for _, c := range g.Children {
		fk := []interface{}{}
		for j, v := range c[1:] {
			kv, _ := g.kv(j, v)
			fk = append(fk, kv)
		}
		kids = append(kids, []interface{}{c11Norm(c[0]), fk})
	}
	rows := []interface{}{}
	for _, i := range order {
		rows = append(rows, row(i))
	}
	ops := [][]interface{}{{"preload.direct", rows, kids}}
	for i := range g.Parents {
		ops = append(ops, []interface{}{"preload.direct", []interface{}{row(i)}, kids})
	}
	return ops
}

func c11ParseAttach(raw json.RawMessage, into map[int][]int) {
	var prs [][]json.RawMessage
	_ = json.Unmarshal(raw, &prs)
	for _, pr := range prs {
		var a int
		var ids []int
		_ = json.Unmarshal(pr[0], &a)
		_ = json.Unmarshal(pr[1], &ids)
		sort.Ints(ids)
		if len(ids) > 0 {
			into[a] = ids
		}
	}
}

func c11JudgeKeyGraph(r *Result, g c11Graph, res c11KeyRun) {
	bad := ""
	if res.Err != nil {
		bad = "preload failed: " + res.Err.Error()
	} else {
		for i, p := range g.Parents {
			if c11TupleZero(p) {
				continue
			}
			if fmt.Sprint(res.Slice[i]) != fmt.Sprint(res.Want[i]) {
				bad = fmt.Sprintf("Find+Preload: parent %d %v got children %v, reference join %v", i, p, res.Slice[i], res.Want[i])
				break
			}
			if fmt.Sprint(res.Single[i]) != fmt.Sprint(res.Want[i]) {
				bad = fmt.Sprintf("Take+Preload (single struct): parent %d %v got children %v, reference join %v", i, p, res.Single[i], res.Want[i])
				break
			}
		}
	}
	if bad != "" {
		if g.collision() && listed("F6-C11-key-collision") {
			r.KnownFinding("F6-C11-key-collision", "attached children differ from the reference join")
		} else {
			r.Violate(Violation{Kind: "e2e", Suite: "composite-keys", Input: g, Observed: map[string]interface{}{"slice": res.Slice, "single": res.Single, "err": fmt.Sprint(res.Err), "verdict": bad}, Expected: map[string]interface{}{"want": res.Want}})
		}
	}
}

// ---- relation family graph ------------------------------------------------------------------------

type c11Rel struct {
	Users     int     `json:"users"`
	Company   []int   `json:"company"`   // per user: company id or 0
	Manager   []int   `json:"manager"`   // per user: manager user id or 0
	PetOwner  []int   `json:"pet_owner"` // per pet: user id or 0 (NULL)
	PetDel    []bool  `json:"pet_deleted"`
	ProfOwner []int   `json:"profile_owner"`
	ToyOwner  []int   `json:"toy_owner"`
	Langs     [][]int `json:"langs"` // per user: language indexes
}

var langCodes = []string{"en", "de_DE", "nil", "x_y", "zh"}

func genRel(rng *rand.Rand) c11Rel {
	n := 1 + rng.Intn(5)
	g := c11Rel{Users: n}
	for u := 1; u <= n; u++ {
		g.Company = append(g.Company, rng.Intn(3))
		m := rng.Intn(n + 1)
		g.Manager = append(g.Manager, m)
		var ls []int
		for l := range langCodes {
			if rng.Intn(3) == 0 {
				ls = append(ls, l)
			}
		}
		g.Langs = append(g.Langs, ls)
	}
	for i, k := 0, rng.Intn(8); i < k; i++ {
		g.PetOwner = append(g.PetOwner, rng.Intn(n+1))
		g.PetDel = append(g.PetDel, rng.Intn(4) == 0)
	}
	used := map[int]bool{}
	for i, k := 0, rng.Intn(n+1); i < k; i++ {
		o := 1 + rng.Intn(n)
		if !used[o] { // has-one: at most one profile per user (otherwise which one is loaded is not defined)
			used[o] = true
			g.ProfOwner = append(g.ProfOwner, o)
		}
	}
	for i, k := 0, rng.Intn(5); i < k; i++ {
		g.ToyOwner = append(g.ToyOwner, 1+rng.Intn(n))
	}
	return g
}

func c11Load(db *gorm.DB, g c11Rel) {
	for c := 1; c <= 2; c++ {
		db.Exec("INSERT INTO r_companies (id, name) VALUES (?, ?)", c, fmt.Sprint("co", c))
	}
	for i, code := range langCodes {
		db.Exec("INSERT INTO r_langs (code, name) VALUES (?, ?)", code, fmt.Sprint("lang", i))
	}
	for u := 1; u <= g.Users; u++ {
		var co, mg interface{}
		if g.Company[u-1] != 0 {
			co = g.Company[u-1]
		}
		if g.Manager[u-1] != 0 {
			mg = g.Manager[u-1]
		}
		db.Exec("INSERT INTO r_users (id, name, age, company_id, manager_id) VALUES (?, ?, ?, ?, ?)", u, fmt.Sprint("u", u), 20+u, co, mg)
		for _, l := range g.Langs[u-1] {
			db.Exec("INSERT INTO r_user_langs (r_user_id, r_lang_code) VALUES (?, ?)", u, langCodes[l])
		}
	}
	for i, o := range g.PetOwner {
		var ow, del interface{}
		if o != 0 {
			ow = o
		}
		if g.PetDel[i] {
			del = fixedNow
		}
		db.Exec("INSERT INTO r_pets (id, r_user_id, name, deleted_at) VALUES (?, ?, ?, ?)", i+1, ow, fmt.Sprint("p", i+1), del)
	}
	for i, o := range g.ProfOwner {
		db.Exec("INSERT INTO r_profiles (id, r_user_id, bio) VALUES (?, ?, ?)", i+1, o, "bio")
	}
	for i, o := range g.ToyOwner {
		db.Exec("INSERT INTO r_toys (id, name, owner_id, owner_type) VALUES (?, ?, ?, ?)", i+1, fmt.Sprint("t", i+1), o, "r_users")
		// a decoy toy of another owner type with the same owner id must never be attached
		db.Exec("INSERT INTO r_toys (id, name, owner_id, owner_type) VALUES (?, ?, ?, ?)", 100+i+1, "decoy", o, "r_companies")
	}
}

// c11View = canonical description of what is attached to one user
func c11View(u *RUser, nested bool) string {
	var pets, toys, team []int
	var langs []string
	for _, p := range u.Pets {
		pets = append(pets, int(p.ID))
	}
	for _, t := range u.Toys {
		toys = append(toys, int(t.ID))
	}
	for _, t := range u.Team {
		team = append(team, int(t.ID))
	}
	for _, l := range u.Langs {
		langs = append(langs, l.Code)
	}
	sort.Ints(pets)
	sort.Ints(toys)
	sort.Ints(team)
	sort.Strings(langs)
	co, mg, pr := 0, 0, 0
	if u.Company != nil {
		co = int(u.Company.ID)
	}
	if u.Manager != nil {
		mg = int(u.Manager.ID)
	}
	if u.Profile != nil {
		pr = int(u.Profile.ID)
	}
	s := fmt.Sprintf("u%d co=%d mg=%d pr=%d pets=%v toys=%v team=%v langs=%v", u.ID, co, mg, pr, pets, toys, team, langs)
	if nested && u.Manager != nil {
		mco := 0
		if u.Manager.Company != nil {
			mco = int(u.Manager.Company.ID)
		}
		s += fmt.Sprintf(" mg.co=%d", mco)
	}
	return s
}

// reference join over the generated tables
func c11Want(g c11Rel, u int, petFilterOdd bool, nested bool) string {
	var pets, toys, team []int
	var langs []string
	for i, o := range g.PetOwner {
		if o == u && !g.PetDel[i] && (!petFilterOdd || (i+1)%2 == 1) {
			pets = append(pets, i+1)
		}
	}
	for i, o := range g.ToyOwner {
		if o == u {
			toys = append(toys, i+1)
		}
	}
	for v := 1; v <= g.Users; v++ {
		if g.Manager[v-1] == u {
			team = append(team, v)
		}
	}
	for _, l := range g.Langs[u-1] {
		langs = append(langs, langCodes[l])
	}
	sort.Strings(langs)
	pr := 0
	for i, o := range g.ProfOwner {
		if o == u {
			pr = i + 1
		}
	}
	s := fmt.Sprintf("u%d co=%d mg=%d pr=%d pets=%v toys=%v team=%v langs=%v", u, g.Company[u-1], g.Manager[u-1], pr, pets, toys, team, langs)
	if nested && g.Manager[u-1] != 0 {
		s += fmt.Sprintf(" mg.co=%d", g.Company[g.Manager[u-1]-1])
	}
	return s
}

func c11RunRel(g c11Rel, variant int) (got, want []string, err error) {
	db, _, sqlDB := OpenRec(nil)
	defer sqlDB.Close()
	if e := db.AutoMigrate(relModels...); e != nil {
		panic(e)
	}
	c11Load(db, g)
	petOdd := variant%2 == 1
	nested := variant%3 == 0
	q := db.Preload("Company").Preload("Profile").Preload("Toys").Preload("Team").Preload("Langs")
	if petOdd {
		if variant%4 == 1 {
			q = q.Preload("Pets", "id % 2 = ?", 1)
		} else {
			q = q.Preload("Pets", func(tx *gorm.DB) *gorm.DB { return tx.Where("id % 2 = 1") })
		}
	} else {
		q = q.Preload("Pets")
	}
	if nested {
		q = q.Preload("Manager.Company")
	} else {
		q = q.Preload("Manager")
	}
	if variant%5 == 0 && !petOdd && !nested {
		q = db.Preload(clause.Associations)
	}
	var users []*RUser
	switch variant % 3 {
	case 0:
		if e := q.Order("id").Find(&users).Error; e != nil {
			return nil, nil, e
		}
	case 1:
		var us []RUser
		if e := q.Order("id").Find(&us).Error; e != nil {
			return nil, nil, e
		}
		for i := range us {
			users = append(users, &us[i])
		}
	default:
		// duplicate parents: the same user loaded twice into one slice (UNION ALL through a raw table expression)
		var us []RUser
		if e := q.Table("(SELECT * FROM r_users UNION ALL SELECT * FROM r_users) AS r_users").Order("id").Find(&us).Error; e != nil {
			return nil, nil, e
		}
		for i := range us {
			users = append(users, &us[i])
		}
	}
	for _, u := range users {
		got = append(got, c11View(u, nested))
		want = append(want, c11Want(g, int(u.ID), petOdd, nested))
	}
	// Association().Find for has-many and many2many of the first user
	if len(users) > 0 {
		var pets []RPet
		if e := db.Model(&RUser{ID: users[0].ID}).Association("Pets").Find(&pets); e != nil {
			return nil, nil, e
		}
		ids := []int{}
		for _, p := range pets {
			ids = append(ids, int(p.ID))
		}
		sort.Ints(ids)
		w := []int{}
		for i, o := range g.PetOwner {
			if o == int(users[0].ID) && !g.PetDel[i] {
				w = append(w, i+1)
			}
		}
		got = append(got, fmt.Sprint("assoc.pets ", ids))
		want = append(want, fmt.Sprint("assoc.pets ", w))
		var ls []RLang
		if e := db.Model(&RUser{ID: users[0].ID}).Association("Langs").Find(&ls); e != nil {
			return nil, nil, e
		}
		cs := []string{}
		for _, l := range ls {
			cs = append(cs, l.Code)
		}
		sort.Strings(cs)
		ws := []string{}
		for _, l := range g.Langs[users[0].ID-1] {
			ws = append(ws, langCodes[l])
		}
		sort.Strings(ws)
		got = append(got, fmt.Sprint("assoc.langs ", cs))
		want = append(want, fmt.Sprint("assoc.langs ", ws))
	}
	// Joins (belongs-to / has-one) must attach the same rows as Preload
	var ju []RUser
	if e := db.Joins("Company").Joins("Profile").Order("r_users.id").Find(&ju).Error; e != nil {
		return nil, nil, e
	}
	for i := range ju {
		co, pr := 0, 0
		if ju[i].Company != nil {
			co = int(ju[i].Company.ID)
		}
		if ju[i].Profile != nil {
			pr = int(ju[i].Profile.ID)
		}
		wpr := 0
		for k, o := range g.ProfOwner {
			if o == int(ju[i].ID) {
				wpr = k + 1
			}
		}
		got = append(got, fmt.Sprintf("join u%d co=%d pr=%d", ju[i].ID, co, pr))
		want = append(want, fmt.Sprintf("join u%d co=%d pr=%d", ju[i].ID, g.Company[ju[i].ID-1], wpr))
	}
	return got, want, nil
}

func init() {
	// correspondence: utils.ToStringKey vs Lean toStringKey
	register("C11", func(r *Result, rng *rand.Rand, tier string) {
		n := 4000
		if tier == "thorough" {
			n = 300000
		}
		var ops [][]interface{}
		var reals []string
		for i := 0; i < n; i++ {
			k := rng.Intn(4)
			vals := make([]interface{}, k)
			js := make([]interface{}, k)
			for j := range vals {
				vals[j], js[j] = genKeyVal(rng)
			}
			reals = append(reals, utils.ToStringKey(vals...))
			ops = append(ops, []interface{}{"key.join", js})
		}
		outs, err := AskLean(ops)
		if err != nil {
			r.Violate(Violation{Kind: "correspondence", Suite: "tostringkey", Note: err.Error()})
			return
		}
		for i := range ops {
			var m string
			_ = json.Unmarshal(outs[i], &m)
			r.CorrCompared++
			r.Case("tostringkey", canon(ops[i]), len(ops[i][1].([]interface{})) >= 2)
			if m != reals[i] {
				r.Violate(Violation{Kind: "correspondence", Suite: "tostringkey", Input: ops[i][1], Observed: reals[i], Expected: m,
					Note: "real utils.ToStringKey vs Lean Gorm.toStringKey"})
			}
		}
	})
	// e2e + correspondence: composite keys (two strings; int+uint+string) with zero-valued components and letter case;
	// the reference join judges the property, the Lean model (identitySlice + attachedTo) must predict the observed
	// attachment exactly — also under key-string collisions
	register("C11", func(r *Result, rng *rand.Rand, tier string) {
		n := 600
		if tier == "thorough" {
			n = 15000
		} else if tier == "search" {
			n = 2500
		}
		var graphs []c11Graph
		var runs []c11KeyRun
		var ops [][]interface{}
		var opAt []int
		for i := 0; i < n && !expired(); i++ {
			g := genKeyGraph(rng, i%4 != 0) // three quarters avoid the listed collision pattern
			if i < 2 || i%10 == 9 {
				// dedicated probe of the listed finding F6: two distinct tuples with the same '_'-join
				g = c11Graph{Parents: [][]interface{}{{"a_b", "c"}, {"a", "b_c"}}, Children: [][]interface{}{{1, "a_b", "c"}, {2, "a", "b_c"}}}
				if i%10 == 9 {
					g.Parents = append(g.Parents, []interface{}{keyAlphabet[rng.Intn(3)], keyAlphabet[rng.Intn(3)]})
					g.Children = append(g.Children, []interface{}{3, g.Parents[2][0], g.Parents[2][1]})
				}
			}
			res := c11RunKeyGraph(g)
			zero, part := false, false
			for _, p := range g.Parents {
				if c11TupleZero(p) {
					zero = true
				} else {
					for _, v := range p {
						if c11Norm(v) == int64(0) || c11Norm(v) == "" {
							part = true
						}
					}
				}
			}
			r.Case("composite-keys", canon(g), len(g.Parents) >= 2 && len(g.Children) >= 1)
			r.H("composite.collision", fmt.Sprint(g.collision()))
			r.H("composite.shape", fmt.Sprintf("%s allzero-parent=%v partzero-parent=%v", g.Shape, zero, part))
			if i%53 == 0 {
				r.Sample(map[string]interface{}{"suite": "composite-keys", "input": g, "attached": res.Slice})
			}
			c11JudgeKeyGraph(r, g, res)
			if res.Err == nil {
				graphs = append(graphs, g)
				runs = append(runs, res)
				opAt = append(opAt, len(ops))
				ops = append(ops, g.leanOps(res.Order)...)
			}
		}
		outs, err := AskLean(ops)
		if err != nil {
			r.Violate(Violation{Kind: "correspondence", Suite: "preload-attach", Note: err.Error()})
			return
		}
		for gi, g := range graphs {
			slice, single := map[int][]int{}, map[int][]int{}
			c11ParseAttach(outs[opAt[gi]], slice)
			for i := range g.Parents {
				one := map[int][]int{}
				c11ParseAttach(outs[opAt[gi]+1+i], one)
				if len(one[i]) > 0 {
					single[i] = one[i]
				}
			}
			r.CorrCompared++
			if canon(slice) != canon(runs[gi].Slice) || canon(single) != canon(runs[gi].Single) {
				r.Violate(Violation{Kind: "correspondence", Suite: "preload-attach", Input: g,
					Observed: map[string]interface{}{"slice": runs[gi].Slice, "single": runs[gi].Single},
					Expected: map[string]interface{}{"slice": slice, "single": single},
					Note:     "real Preload attachment vs Lean Gorm.preloadDirect (identitySlice + fetchIn + attachedTo)"})
			}
		}
	})
	replayers["C11/composite-keys"] = func(r *Result, input json.RawMessage) {
		var g c11Graph
		if err := json.Unmarshal(input, &g); err != nil {
			r.Note("bad replay input: %v", err)
			return
		}
		c11JudgeKeyGraph(r, g, c11RunKeyGraph(g))
	}
	replayers["C11/preload-attach"] = func(r *Result, input json.RawMessage) { r.Note("preload-attach replays are correspondence-only: rerun the suite") }
	replayers["C11/relations"] = func(r *Result, input json.RawMessage) {
		var in struct {
			Graph   c11Rel `json:"graph"`
			Variant int    `json:"variant"`
		}
		if err := json.Unmarshal(input, &in); err != nil {
			r.Note("bad replay input: %v", err)
			return
		}
		got, want, err := c11RunRel(in.Graph, in.Variant)
		if err != nil {
			r.Violate(Violation{Kind: "e2e", Suite: "relations", Input: in, Observed: err.Error(), Expected: "no error"})
		} else if strings.Join(got, "\n") != strings.Join(want, "\n") {
			r.Violate(Violation{Kind: "e2e", Suite: "relations", Input: in, Observed: got, Expected: want})
		}
	}
	// e2e: relation family
	register("C11", func(r *Result, rng *rand.Rand, tier string) {
		n := 120
		if tier == "thorough" {
			n = 12000
		} else if tier == "search" {
			n = 1500
		}
		for i := 0; i < n && !expired(); i++ {
			g := genRel(rng)
			variant := rng.Intn(60)
			got, want, err := c11RunRel(g, variant)
			in := map[string]interface{}{"graph": g, "variant": variant}
			r.Case("relations", canon(in), g.Users >= 2 && len(g.PetOwner)+len(g.ToyOwner) >= 1)
			r.H("relations.users", fmt.Sprint(g.Users))
			r.H("relations.variant%3(shape)", fmt.Sprint(variant%3))
			if i%41 == 0 {
				r.Sample(map[string]interface{}{"suite": "relations", "input": in, "attached": got})
			}
			if err != nil {
				r.Violate(Violation{Kind: "e2e", Suite: "relations", Input: in, Observed: err.Error(), Expected: "no error"})
			} else if strings.Join(got, "\n") != strings.Join(want, "\n") {
				r.Violate(Violation{Kind: "e2e", Suite: "relations", Input: in, Observed: got, Expected: want})
			}
		}
	})
}
