package main

// C06, second family of suites ("sess", "real", "shape"): histories on a REAL database (SQLite behind the
// recording driver, not DryRun) over
//   (1) Session(&Session{…}) with every flag and random COMBINATIONS of flags, derived from shared handles and
//       possibly never used: merely building a session must not change the parent.  The parent's later chains are
//       observed through the statements the DRIVER receives (SQL, bound values, the context object, BEGIN/COMMIT,
//       prepared or not), the hooks that fire (and the context they see), the logger that traces, the result
//       rows, errors and RowsAffected — and compared with the same chain replayed alone on a fresh gorm.Open.
//   (2) chains on which real queries were EXECUTED (Find/First/Count/Pluck/Scan/Rows/Row/FindInBatches) before a
//       handle is derived from them or before they are used once more.
//   (3) clause entries of every SHAPE: Expression nil with Before/AfterName/AfterExpression or Builder set (hint
//       style StatementModifiers), empty marker entries, From{Joins}, Locking, Returning, OnConflict, Set, custom
//       clause.Interface implementations — copy-on-derive must keep all of them.
// Oracle ("replay alone"): every finisher's observation inside the history equals the observation of the same
// finisher when only the ops it depends on (its ancestors) are executed, on a fresh gorm.Open over the same data.
// Latitudes (written next to c06xSameObs): top-level AND conjuncts of a WHERE are compared as a multiset (a query
// executed earlier on the same chain instance leaves the schema's query clauses — `deleted_at IS NULL` — in the
// statement, so a later conjunct lands behind instead of in front of it); "prepare" round trips are not compared
// (the statement cache is legitimately shared), only whether the statement went through a prepared statement.
// Tie to the Lean model (suite "sesstie"): for every Session call the model's symbolic run of the REGENERATED body
// of Session() (c06.sess) says which receiver fields are written (none), the clone mode and whether the statement
// is private; the real receiver is snapshotted before/after by reflection.  c06.clonemap / c06.from tie
// Statement.clone's clause-map copy and AfterQuery's FROM restore.

import (
	"context"
	"database/sql"
	"encoding/json"
	"fmt"
	"reflect"
	"sort"
	"strings"
	"time"

	"gorm.io/driver/sqlite"
	"gorm.io/gorm"
	"gorm.io/gorm/clause"
	"gorm.io/gorm/logger"
)

// ---- models -----------------------------------------------------------------------------------------

type C06Co struct {
	ID   uint `gorm:"primaryKey"`
	Name string
}

// soft delete + AfterFind hook + belongs-to
type C06Emp struct {
	ID        uint `gorm:"primaryKey"`
	Name      string
	Age       int
	CoID      uint
	Co        C06Co
	DeletedAt gorm.DeletedAt
}

// no soft delete, no hooks
type C06Pl struct {
	ID   uint `gorm:"primaryKey"`
	Name string
	Age  int
	CoID uint
	Co   C06Co
}

type C06Note struct {
	ID        uint `gorm:"primaryKey"`
	Title     string
	CreatedAt time.Time
}

var c06xHooks []string
var c06xLogs []string

func c06xHook(name string, tx *gorm.DB) {
	c06xHooks = append(c06xHooks, name+"@"+CtxMarker(tx.Statement.Context))
}

func (e *C06Emp) AfterFind(tx *gorm.DB) error {
	c06xHook("AfterFind", tx)
	e.Name = "af:" + e.Name
	return nil
}

func (n *C06Note) BeforeCreate(tx *gorm.DB) error {
	c06xHook("BeforeCreate", tx)
	n.Title = "hooked:" + n.Title
	return nil
}

func (n *C06Note) AfterCreate(tx *gorm.DB) error {
	c06xHook("AfterCreate", tx)
	return nil
}

type c06xLogger struct{ tag string }

func (l c06xLogger) LogMode(m logger.LogLevel) logger.Interface {
	return c06xLogger{tag: fmt.Sprintf("%s/m%d", l.tag, m)}
}
func (l c06xLogger) Info(context.Context, string, ...interface{})  {}
func (l c06xLogger) Warn(context.Context, string, ...interface{})  {}
func (l c06xLogger) Error(context.Context, string, ...interface{}) {}
func (l c06xLogger) Trace(ctx context.Context, begin time.Time, fc func() (string, int64), err error) {
	c06xLogs = append(c06xLogs, l.tag+"@"+CtxMarker(ctx))
}

// ---- clause shapes ----------------------------------------------------------------------------------

// hint-style StatementModifier (what gorm.io/hints does): decorates a clause entry, leaves Expression alone
type c06xHint struct {
	Key  string
	Pos  int // 0 BeforeExpression, 1 AfterNameExpression, 2 AfterExpression
	Text string
}

func (h c06xHint) Build(clause.Builder) {}
func (h c06xHint) ModifyStatement(stmt *gorm.Statement) {
	c := stmt.Clauses[h.Key]
	e := clause.Expr{SQL: "/* " + h.Text + " */"}
	switch h.Pos {
	case 0:
		c.BeforeExpression = e
	case 1:
		c.AfterNameExpression = e
	default:
		c.AfterExpression = e
	}
	stmt.Clauses[h.Key] = c
}

// modifier that installs only a Builder on a clause entry
type c06xBuilderMod struct {
	Key  string
	Text string
}

func (b c06xBuilderMod) Build(clause.Builder) {}
func (b c06xBuilderMod) ModifyStatement(stmt *gorm.Statement) {
	c := stmt.Clauses[b.Key]
	text := b.Text
	c.Builder = func(c clause.Clause, builder clause.Builder) {
		builder.WriteString("/* bld " + text + " */")
		if c.Expression != nil {
			builder.WriteByte(' ')
			builder.WriteString(c.Name)
			builder.WriteByte(' ')
			c.Expression.Build(builder)
		}
	}
	stmt.Clauses[b.Key] = c
}

// modifier in the style of SoftDeleteQueryClause: adds its condition once, remembers that in an EMPTY marker entry
type c06xOnce struct{ N int }

func (o c06xOnce) Build(clause.Builder) {}
func (o c06xOnce) ModifyStatement(stmt *gorm.Statement) {
	key := fmt.Sprint("c06_once_", o.N)
	if _, ok := stmt.Clauses[key]; !ok {
		stmt.AddClause(clause.Where{Exprs: []clause.Expression{clause.Expr{SQL: "id <> ?", Vars: []interface{}{1000 + o.N}}}})
		stmt.Clauses[key] = clause.Clause{}
	}
}

// a clause.Interface of our own: ORDER BY with a foreign expression type
type c06xCustom struct{ N int }

func (c c06xCustom) Name() string { return "ORDER BY" }
func (c c06xCustom) Build(b clause.Builder) {
	b.WriteString(fmt.Sprintf("(age + %d)", c.N))
}
func (c c06xCustom) MergeClause(cl *clause.Clause) { cl.Expression = c }

// a clause.Interface under a key gorm never renders for queries
type c06xTag struct{ N int }

func (c c06xTag) Name() string                  { return "C06TAG" }
func (c c06xTag) Build(b clause.Builder)        { b.WriteString(fmt.Sprint("tag", c.N)) }
func (c c06xTag) MergeClause(cl *clause.Clause) { cl.Expression = c }

func c06xBit(b bool) string {
	if b {
		return "1"
	}
	return "0"
}

// c06ClauseShape: every key of Statement.Clauses with the shape of its entry and the size of its expression
func c06ClauseShape(st *gorm.Statement) string {
	var ks []string
	for k, c := range st.Clauses {
		d := ""
		switch e := c.Expression.(type) {
		case nil:
			d = "nil"
		case clause.From:
			d = fmt.Sprintf("From{t%d,j%d}", len(e.Tables), len(e.Joins))
		case clause.Where:
			d = fmt.Sprintf("Where{%d}", len(e.Exprs))
		case clause.Select:
			d = fmt.Sprintf("Select{d%v,c%d,e%v}", e.Distinct, len(e.Columns), e.Expression != nil)
		case clause.OrderBy:
			d = fmt.Sprintf("OrderBy{%d,e%v}", len(e.Columns), e.Expression != nil)
		case clause.Limit:
			l := -1
			if e.Limit != nil {
				l = *e.Limit
			}
			d = fmt.Sprintf("Limit{%d,%d}", l, e.Offset)
		case clause.Returning:
			d = fmt.Sprintf("Returning{%d}", len(e.Columns))
		case clause.OnConflict:
			d = fmt.Sprintf("OnConflict{c%d,w%d,u%d,n%v,a%v}", len(e.Columns), len(e.Where.Exprs), len(e.DoUpdates), e.DoNothing, e.UpdateAll)
		case clause.Set:
			d = fmt.Sprintf("Set{%d}", len(e))
		case clause.Values:
			d = fmt.Sprintf("Values{c%d,v%d}", len(e.Columns), len(e.Values))
		case clause.Locking:
			d = fmt.Sprintf("Locking{%s,%s}", e.Strength, e.Options)
		case clause.GroupBy:
			d = fmt.Sprintf("GroupBy{%d,%d}", len(e.Columns), len(e.Having))
		default:
			d = fmt.Sprintf("%T%v", e, e)
		}
		ex := func(e clause.Expression) string {
			if e == nil {
				return "-"
			}
			if x, ok := e.(clause.Expr); ok {
				return x.SQL
			}
			return fmt.Sprintf("%T", e)
		}
		ks = append(ks, fmt.Sprintf("%s[%s|B:%s|N:%s|A:%s|F:%s]", k, d, ex(c.BeforeExpression), ex(c.AfterNameExpression), ex(c.AfterExpression), c06xBit(c.Builder != nil)))
	}
	sort.Strings(ks)
	return strings.Join(ks, " ")
}

// ---- history language ---------------------------------------------------------------------------------

type c06xOp struct {
	N string `json:"n"`
	S int    `json:"s"`
	A int    `json:"a,omitempty"`
	B int    `json:"b,omitempty"`
	F int    `json:"f,omitempty"` // Session flag bits
}

type c06xHist struct {
	Cfg   int      `json:"cfg"`   // root gorm.Config bits: 1 SkipDefaultTransaction, 2 PrepareStmt, 4 QueryFields, 8 PropagateUnscoped, 16 DryRun
	Model int      `json:"model"` // 0 C06Emp (soft delete, hooks), 1 C06Pl
	Ops   []c06xOp `json:"ops"`
}

var c06xFlagNames = []string{"NewDB", "Context", "SkipHooks", "PrepareStmt", "DryRun", "Logger", "SkipDefaultTransaction",
	"AllowGlobalUpdate", "QueryFields", "NowFunc", "CreateBatchSize", "FullSaveAssociations", "PropagateUnscoped",
	"DisableNestedTransaction", "Initialized"}

const (
	c06fNewDB = 1 << iota
	c06fContext
	c06fSkipHooks
	c06fPrepareStmt
	c06fDryRun
	c06fLogger
	c06fSkipDefTx
	c06fAllowGlobal
	c06fQueryFields
	c06fNowFunc
	c06fBatch
	c06fFullSave
	c06fPropUnscoped
	c06fNoNested
	c06fInitialized
)

func c06xFlagList(f int) []string {
	out := []string{}
	for i, n := range c06xFlagNames {
		if f&(1<<i) != 0 {
			out = append(out, n)
		}
	}
	return out
}

var c06xFins = []string{"Find", "First", "Take", "Last", "Count", "Pluck", "Scan", "Rows", "FindInBatches", "Create", "CreateSlice",
	"UpdateNoRows", "UpdateGlobalNotes", "DeleteNoRows", "Row"}

func c06xIsDerive(n string) bool { return n == "sess" || n == "ctx" || n == "debug" || n == "begin" }

func (o c06xOp) String() string {
	switch o.N {
	case "sess":
		return fmt.Sprintf("h%d.Session({%s})", o.S, strings.Join(c06xFlagList(o.F), ","))
	case "fin":
		return fmt.Sprintf("h%d.%s()", o.S, c06xFins[o.A])
	case "skip":
		return "-"
	}
	return fmt.Sprintf("h%d.%s(%d,%d)", o.S, o.N, o.A, o.B)
}

func (h c06xHist) Desc() string {
	var out []string
	for i, o := range h.Ops {
		out = append(out, fmt.Sprintf("h%d := %s", i+1, o.String()))
	}
	return fmt.Sprintf("cfg=%d model=%d: ", h.Cfg, h.Model) + strings.Join(out, "; ")
}

func (h c06xHist) mask(k int) []bool {
	need := map[int]bool{k + 1: true}
	m := make([]bool, len(h.Ops))
	for i := k; i >= 0; i-- {
		if need[i+1] {
			m[i] = true
			need[h.Ops[i].S] = true
		}
	}
	return m
}

// ---- world ------------------------------------------------------------------------------------------

type c06xWorld struct {
	sqlDB *sql.DB
	rec   *Recorder
}

func c06xOpenWorld() *c06xWorld {
	db, rec, sqlDB := OpenRec(&gorm.Config{NowFunc: fixedNowFunc})
	if err := db.AutoMigrate(&C06Co{}, &C06Emp{}, &C06Pl{}, &C06Note{}); err != nil {
		panic(err)
	}
	db = db.Session(&gorm.Session{SkipHooks: true})
	for i := 1; i <= 3; i++ {
		db.Create(&C06Co{ID: uint(i), Name: fmt.Sprint("co", i)})
	}
	for i := 1; i <= 9; i++ {
		e := C06Emp{ID: uint(i), Name: fmt.Sprint("e", i), Age: 20 + 3*i, CoID: uint(1 + i%3)}
		if i%4 == 0 {
			e.DeletedAt = gorm.DeletedAt{Time: fixedNow, Valid: true}
		}
		db.Create(&e)
		db.Create(&C06Pl{ID: uint(i), Name: fmt.Sprint("p", i), Age: 20 + 3*i, CoID: uint(1 + i%3)})
	}
	for _, q := range []string{"CREATE TABLE c06_emps_bak AS SELECT * FROM c06_emps", "CREATE TABLE c06_pls_bak AS SELECT * FROM c06_pls"} {
		if _, err := sqlDB.Exec(q); err != nil {
			panic(err)
		}
	}
	rec.Reset()
	return &c06xWorld{sqlDB: sqlDB, rec: rec}
}

func (w *c06xWorld) close() { w.sqlDB.Close() }

// restore: the seeded rows of the tables the histories read
func (w *c06xWorld) restore() {
	off := w.rec.Off
	w.rec.Off = true
	for _, q := range []string{"DELETE FROM c06_emps", "INSERT INTO c06_emps SELECT * FROM c06_emps_bak",
		"DELETE FROM c06_pls", "INSERT INTO c06_pls SELECT * FROM c06_pls_bak"} {
		if _, err := w.sqlDB.Exec(q); err != nil {
			panic(err)
		}
	}
	w.rec.Off = off
}

func (w *c06xWorld) open(cfg int) *gorm.DB {
	w.restore()
	w.rec.Off = true
	w.sqlDB.Exec("DELETE FROM c06_notes")
	db, err := gorm.Open(sqlite.Dialector{Conn: w.sqlDB}, &gorm.Config{
		Logger: c06xLogger{tag: "root"}, NowFunc: fixedNowFunc,
		SkipDefaultTransaction: cfg&1 != 0, PrepareStmt: cfg&2 != 0, QueryFields: cfg&4 != 0, PropagateUnscoped: cfg&8 != 0, DryRun: cfg&16 != 0,
	})
	w.rec.Off = false
	if err != nil {
		panic(err)
	}
	return db
}

// ---- observation ------------------------------------------------------------------------------------

type c06xObs struct {
	Events   []string `json:"events"`
	Prepared bool     `json:"prepared,omitempty"`
	SQL      string   `json:"sql,omitempty"` // DryRun handles: Statement.SQL / Vars
	Vars     []string `json:"vars,omitempty"`
	Res      string   `json:"res"`
	Err      string   `json:"err,omitempty"`
	Rows     int64    `json:"rows"`
	Hooks    []string `json:"hooks,omitempty"`
	Logs     []string `json:"logs,omitempty"`
	Clauses  string   `json:"clauses"`
	Stmt     string   `json:"stmt"`
}

func c06xWhereSplit(q string) string {
	i := strings.Index(q, " WHERE ")
	if i < 0 {
		return q
	}
	rest := q[i+7:]
	end := len(rest)
	for _, kw := range []string{" GROUP BY ", " ORDER BY ", " LIMIT ", " RETURNING ", " ON CONFLICT "} {
		if j := strings.Index(rest, kw); j >= 0 && j < end {
			end = j
		}
	}
	seg := rest[:end]
	var comments []string // decorations of the WHERE clause stay where they are: behind the conjuncts
	for {
		a := strings.Index(seg, "/*")
		if a < 0 {
			break
		}
		b := strings.Index(seg[a:], "*/")
		if b < 0 {
			break
		}
		comments = append(comments, seg[a:a+b+2])
		seg = seg[:a] + seg[a+b+2:]
	}
	parts := strings.Split(seg, " AND ")
	parts = append(parts[:len(parts):len(parts)], comments...)
	sortN := len(parts) - len(comments)
	for j := range parts {
		parts[j] = strings.TrimSpace(parts[j])
	}
	sort.Strings(parts[:sortN])
	return q[:i+7] + strings.Join(parts, " AND ") + " " + strings.TrimLeft(rest[end:], " ")
}

// one driver statement: kind, the context object's marker, SQL with the values inlined (conjuncts sorted)
func c06xEvent(db *gorm.DB, e Event) string {
	kind := e.Kind
	switch kind {
	case "stmt_query":
		kind = "query"
	case "stmt_exec":
		kind = "exec"
	}
	q := e.SQL
	if len(e.Args) > 0 {
		q = db.Dialector.Explain(e.SQL, e.Args...)
	}
	s := kind + "@" + e.Marker + " " + c06xWhereSplit(q)
	if e.Err != "" {
		s += " !" + e.Err
	}
	return s
}

func c06xErr(err error) string {
	if err == nil {
		return ""
	}
	e := c06HexRe.ReplaceAllString(err.Error(), "PTR")
	if len(e) > 90 {
		e = e[:90]
	}
	return e
}

// everything of a handle's statement / config that decides how its chains behave, for the receiver snapshots
type c06xSnap struct {
	Stmt     *gorm.Statement
	Ctx      context.Context
	Skip     bool
	Pool     gorm.ConnPool
	Unscoped bool
	Model    interface{}
	Table    string
	Clauses  string
	Selects  string
	Omits    string
	Joins    int
	Preloads string
	Settings string
	Distinct bool
	Err      error
	Clone    int64
	Cfg      string
	Logger   logger.Interface
	CfgPool  gorm.ConnPool
	NowFunc  uintptr
	StmtDB   *gorm.DB
}

func c06xSettings(st *gorm.Statement) string {
	var ks []string
	st.Settings.Range(func(k, v interface{}) bool {
		ks = append(ks, c06HexRe.ReplaceAllString(fmt.Sprintf("%v=%v", k, v), "PTR"))
		return true
	})
	sort.Strings(ks)
	return strings.Join(ks, ",")
}

func c06xSnapshot(h *gorm.DB) c06xSnap {
	st := h.Statement
	var pre []string
	for k, v := range st.Preloads {
		pre = append(pre, fmt.Sprintf("%s%v", k, v))
	}
	sort.Strings(pre)
	c := h.Config
	nf := uintptr(0)
	if c.NowFunc != nil {
		nf = reflect.ValueOf(c.NowFunc).Pointer()
	}
	return c06xSnap{Stmt: st, Ctx: st.Context, Skip: st.SkipHooks, Pool: st.ConnPool, Unscoped: st.Unscoped, Model: st.Model, Table: st.Table,
		Clauses: c06ClauseShape(st), Selects: strings.Join(st.Selects, ","), Omits: strings.Join(st.Omits, ","), Joins: len(st.Joins),
		Preloads: strings.Join(pre, ","), Settings: c06xSettings(st), Distinct: st.Distinct, Err: h.Error,
		Clone: reflect.ValueOf(h).Elem().FieldByName("clone").Int(),
		Cfg: fmt.Sprint(c.DryRun, c.PrepareStmt, c.SkipDefaultTransaction, c.AllowGlobalUpdate, c.QueryFields, c.CreateBatchSize,
			c.FullSaveAssociations, c.PropagateUnscoped, c.DisableNestedTransaction),
		Logger: c.Logger, CfgPool: c.ConnPool, NowFunc: nf, StmtDB: st.DB}
}

// names of the fields in which two snapshots of one handle differ
func c06xSnapDiff(a, b c06xSnap) []string {
	var d []string
	add := func(n string, same bool) {
		if !same {
			d = append(d, n)
		}
	}
	add("Statement(pointer)", a.Stmt == b.Stmt)
	add("Statement.Context", a.Ctx == b.Ctx)
	add("Statement.SkipHooks", a.Skip == b.Skip)
	add("Statement.ConnPool", a.Pool == b.Pool)
	add("Statement.Unscoped", a.Unscoped == b.Unscoped)
	add("Statement.Model", a.Model == b.Model)
	add("Statement.Table", a.Table == b.Table)
	add("Statement.Clauses", a.Clauses == b.Clauses)
	add("Statement.Selects", a.Selects == b.Selects)
	add("Statement.Omits", a.Omits == b.Omits)
	add("Statement.Joins", a.Joins == b.Joins)
	add("Statement.Preloads", a.Preloads == b.Preloads)
	add("Statement.Settings", a.Settings == b.Settings)
	add("Statement.Distinct", a.Distinct == b.Distinct)
	add("Statement.DB", a.StmtDB == b.StmtDB)
	add("Error", a.Err == b.Err)
	add("clone", a.Clone == b.Clone)
	add("Config", a.Cfg == b.Cfg)
	add("Config.Logger", a.Logger == b.Logger)
	add("Config.ConnPool", a.CfgPool == b.CfgPool)
	add("Config.NowFunc", a.NowFunc == b.NowFunc)
	return d
}

// what one Session call did to its receiver and what it returned (for the tie with the Lean model)
type c06xSessFact struct {
	Op       int      `json:"op"`
	Flags    int      `json:"flags"`
	SrcClone int64    `json:"src_clone"`
	Diff     []string `json:"receiver_fields_changed"`
	Shared   bool     `json:"shares_statement"`
	Clone    int64    `json:"clone"`
}

func c06xNow2() time.Time { return fixedNow.Add(48 * time.Hour) }

var c06xHintKeys = []string{"SELECT", "FROM", "WHERE", "ORDER BY", "LIMIT", "INSERT", "UPDATE"}
var c06xBuilderKeys = []string{"GROUP BY", "ORDER BY", "FOR"}

type c06xRun struct {
	hs    []*gorm.DB
	Obs   map[int]c06xObs
	Sess  []c06xSessFact
	Panic string
}

func c06xCanon(v interface{}) string {
	b, _ := json.Marshal(v)
	return string(b)
}

// c06xExec runs the ops selected by mask (nil = all) on a fresh gorm.Open over the world's data.
func c06xExec(w *c06xWorld, h c06xHist, mask []bool) (run c06xRun) {
	return c06xExecMode(w, h, mask, false)
}

// flat = the plain `Session(&Session{})` derivations among the executed ops are left out: the chain continues on the
// instance itself.  A flag-less Session is an identity for the chain that follows, so the flattened chain is "the
// same chain" written without intermediate handles (only meaningful for a single path, i.e. with a mask).
func c06xExecMode(w *c06xWorld, h c06xHist, mask []bool, flat bool) (run c06xRun) {
	run.Obs = map[int]c06xObs{}
	db := w.open(h.Cfg)
	hs := []*gorm.DB{db}
	var txs []*gorm.DB
	defer func() {
		run.hs = hs
		for _, t := range txs {
			t.Rollback()
		}
		if p := recover(); p != nil {
			run.Panic = c06HexRe.ReplaceAllString(fmt.Sprint(p), "PTR")
		}
	}()
	get := func(i int) *gorm.DB {
		if i < len(hs) && hs[i] != nil {
			return hs[i]
		}
		return db
	}
	tbl := []string{"c06_emps", "c06_pls"}[h.Model]
	model := func() interface{} {
		if h.Model == 0 {
			return &C06Emp{}
		}
		return &C06Pl{}
	}
	for i, o := range h.Ops {
		if mask != nil && !mask[i] || o.N == "skip" {
			hs = append(hs, nil)
			continue
		}
		s := get(o.S)
		var t *gorm.DB
		var before c06xSnap
		if c06xIsDerive(o.N) {
			before = c06xSnapshot(s)
		}
		if flat && o.N == "sess" && o.F == 0 && c06xClones(h)[o.S] != 1 {
			hs = append(hs, s)
			continue
		}
		switch o.N {
		case "sess":
			cfg := &gorm.Session{
				NewDB: o.F&c06fNewDB != 0, SkipHooks: o.F&c06fSkipHooks != 0, PrepareStmt: o.F&c06fPrepareStmt != 0, DryRun: o.F&c06fDryRun != 0,
				SkipDefaultTransaction: o.F&c06fSkipDefTx != 0, AllowGlobalUpdate: o.F&c06fAllowGlobal != 0, QueryFields: o.F&c06fQueryFields != 0,
				FullSaveAssociations: o.F&c06fFullSave != 0, PropagateUnscoped: o.F&c06fPropUnscoped != 0,
				DisableNestedTransaction: o.F&c06fNoNested != 0, Initialized: o.F&c06fInitialized != 0,
			}
			if o.F&c06fContext != 0 {
				cfg.Context = WithMarker(context.Background(), fmt.Sprint("s", i))
			}
			if o.F&c06fLogger != 0 {
				cfg.Logger = c06xLogger{tag: fmt.Sprint("L", i)}
			}
			if o.F&c06fNowFunc != 0 {
				cfg.NowFunc = c06xNow2
			}
			if o.F&c06fBatch != 0 {
				cfg.CreateBatchSize = 2
			}
			t = s.Session(cfg)
		case "ctx":
			t = s.WithContext(WithMarker(context.Background(), fmt.Sprint("w", i)))
		case "debug":
			t = s.Debug()
		case "begin":
			t = s.Begin()
			txs = append(txs, t)
		case "where", "or", "not":
			var q string
			var v interface{}
			switch o.A % 3 {
			case 0:
				q, v = "age > ?", 20+o.B
			case 1:
				q, v = "name <> ?", fmt.Sprint("e", o.B)
			default:
				q, v = "co_id <> ?", 1+o.B%3
			}
			switch o.N {
			case "where":
				t = s.Where(q, v)
			case "or":
				t = s.Or(q, v)
			default:
				t = s.Not(q, v)
			}
		case "order":
			t = s.Order([]string{"age", "name desc", "id desc"}[o.A%3])
		case "limit":
			t = s.Limit(1 + o.A%7)
		case "offset":
			t = s.Offset(1 + o.A%3)
		case "select":
			switch o.A % 3 {
			case 0:
				t = s.Select("name")
			case 1:
				t = s.Select("id", "name")
			default:
				t = s.Select([]string{"name", "age"})
			}
		case "omit":
			t = s.Omit([]string{"age", "name", "co_id"}[o.A%3])
		case "distinct":
			t = s.Distinct()
		case "joinsA":
			t = s.Joins("Co")
		case "joinsR":
			t = s.Joins(fmt.Sprintf("JOIN c06_cos AS jr%d ON jr%d.id = %s.co_id", o.A, o.A, tbl))
		case "fromj":
			n := 1 + o.A%2
			js := make([]clause.Join, n, n+o.B%3)
			for j := range js {
				al := fmt.Sprintf("fj%d_%d", o.A, j)
				js[j] = clause.Join{Type: clause.InnerJoin, Table: clause.Table{Name: "c06_cos", Alias: al},
					ON: clause.Where{Exprs: []clause.Expression{clause.Eq{Column: clause.Column{Table: tbl, Name: "co_id"}, Value: clause.Column{Table: al, Name: "id"}}}}}
			}
			fr := clause.From{Joins: js}
			if o.B%2 == 1 {
				fr.Tables = []clause.Table{{Name: clause.CurrentTable}}
			}
			t = s.Clauses(fr)
		case "hint":
			t = s.Clauses(c06xHint{Key: c06xHintKeys[o.A%len(c06xHintKeys)], Pos: o.B % 3, Text: fmt.Sprint("h", i)})
		case "builder":
			t = s.Clauses(c06xBuilderMod{Key: c06xBuilderKeys[o.A%len(c06xBuilderKeys)], Text: fmt.Sprint("b", i)})
		case "once":
			t = s.Clauses(c06xOnce{N: o.A % 3})
		case "custom":
			t = s.Clauses(c06xCustom{N: 1 + o.A%5})
		case "tag":
			t = s.Clauses(c06xTag{N: 1 + o.A%5})
		case "lock":
			t = s.Clauses(clause.Locking{Strength: []string{"UPDATE", "SHARE"}[o.A%2], Options: []string{"", "NOWAIT"}[o.B%2]})
		case "ret":
			cols := []clause.Column{{Name: "id"}, {Name: "title"}}
			t = s.Clauses(clause.Returning{Columns: cols[:o.A%3]})
		case "onconf":
			switch o.A % 3 {
			case 0:
				t = s.Clauses(clause.OnConflict{DoNothing: true})
			case 1:
				t = s.Clauses(clause.OnConflict{Columns: []clause.Column{{Name: "id"}}, DoUpdates: clause.AssignmentColumns([]string{"title"})})
			default:
				t = s.Clauses(clause.OnConflict{Columns: []clause.Column{{Name: "id"}},
					Where:     clause.Where{Exprs: []clause.Expression{clause.Expr{SQL: "id > ?", Vars: []interface{}{o.B}}}},
					DoUpdates: clause.Assignments(map[string]interface{}{"title": fmt.Sprint("up", o.B)})})
			}
		case "setc":
			t = s.Clauses(clause.Set{{Column: clause.Column{Name: "age"}, Value: 30 + o.A%5}})
		case "unscoped":
			t = s.Unscoped()
		case "model":
			t = s.Model(model())
		case "scopes":
			a := o.A
			t = s.Scopes(func(d *gorm.DB) *gorm.DB { return d.Where("age < ?", 60+a) })
		case "preload":
			t = s.Preload("Co")
		case "set":
			t = s.Set(fmt.Sprint("c06x:k", o.A%3), o.B)
		case "fin":
			w.rec.Reset()
			c06xHooks, c06xLogs = nil, nil
			var res interface{}
			norows := false
			switch c06xFins[o.A] {
			case "Find":
				if h.Model == 0 {
					var us []C06Emp
					t = s.Find(&us)
					res = us
				} else {
					var us []C06Pl
					t = s.Find(&us)
					res = us
				}
			case "First", "Take", "Last":
				f := func(d interface{}) *gorm.DB {
					switch c06xFins[o.A] {
					case "First":
						return s.First(d)
					case "Take":
						return s.Take(d)
					}
					return s.Last(d)
				}
				if h.Model == 0 {
					var u C06Emp
					t = f(&u)
					res = u
				} else {
					var u C06Pl
					t = f(&u)
					res = u
				}
			case "Count":
				var n int64
				t = s.Model(model()).Count(&n)
				res = n
			case "Pluck":
				var names []string
				t = s.Model(model()).Pluck("name", &names)
				res = names
			case "Scan":
				var out []struct {
					Name string
					Age  int
				}
				t = s.Model(model()).Scan(&out)
				res = out
			case "Rows":
				t = s.Model(model())
				rows, err := t.Rows()
				var names []string
				if err == nil {
					for rows.Next() {
						var m map[string]interface{}
						if e := t.ScanRows(rows, &m); e != nil {
							names = append(names, "scanerr")
						} else {
							names = append(names, fmt.Sprint(m["name"]))
						}
					}
					rows.Close()
				} else {
					names = append(names, "err:"+c06xErr(err))
				}
				res = names
			case "Row":
				t = s.Model(model()).Select("count(*)")
				var n sql.NullInt64
				if row := t.Row(); row != nil {
					row.Scan(&n)
				}
				res = n.Int64
			case "FindInBatches":
				var names []string
				if h.Model == 0 {
					var us []C06Emp
					t = s.FindInBatches(&us, 3, func(tx *gorm.DB, batch int) error {
						for _, u := range us {
							names = append(names, u.Name)
						}
						if batch > 5 { // an Or condition makes `pk > last` ineffective: FindInBatches would never end
							return fmt.Errorf("c06x: stop")
						}
						return nil
					})
				} else {
					var us []C06Pl
					t = s.FindInBatches(&us, 3, func(tx *gorm.DB, batch int) error {
						for _, u := range us {
							names = append(names, u.Name)
						}
						if batch > 5 { // an Or condition makes `pk > last` ineffective: FindInBatches would never end
							return fmt.Errorf("c06x: stop")
						}
						return nil
					})
				}
				res = names
			case "Create":
				n := C06Note{ID: uint(100 + i), Title: fmt.Sprint("n", i)}
				t = s.Create(&n)
				res = n.Title
			case "CreateSlice":
				ns := []C06Note{{ID: uint(1000 + 10*i), Title: "a"}, {ID: uint(1001 + 10*i), Title: "b"}, {ID: uint(1002 + 10*i), Title: "c"}}
				t = s.Create(&ns)
				res = []string{ns[0].Title, ns[1].Title, ns[2].Title}
			case "UpdateNoRows":
				t = s.Model(model()).Where("id < ?", 0).Update("age", 1)
			case "UpdateGlobalNotes":
				t = s.Model(&C06Note{}).Update("title", gorm.Expr("title"))
				norows = true
			case "DeleteNoRows":
				t = s.Where("id < ?", 0).Delete(model())
			}
			switch c06xFins[o.A] {
			case "UpdateNoRows", "DeleteNoRows", "Create", "CreateSlice", "UpdateGlobalNotes":
				evs := w.rec.Snapshot()
				w.restore() // an Or condition can make them hit rows: later reads must see the original data
				w.rec.Events = evs
			}
			ob := c06xObs{Res: c06xCanon(res), Err: c06xErr(t.Error), Rows: t.RowsAffected, Hooks: c06xHooks, Logs: c06xLogs,
				Clauses: c06ClauseShape(t.Statement)}
			if norows {
				ob.Rows = 0
			}
			for _, e := range w.rec.Snapshot() {
				if e.Kind == "prepare" || e.Kind == "stmt_close" {
					continue
				}
				if strings.HasPrefix(e.Kind, "stmt_") {
					ob.Prepared = true
				}
				ob.Events = append(ob.Events, c06xEvent(db, e))
			}
			if t.DryRun {
				ob.SQL = c06xWhereSplit(db.Dialector.Explain(t.Statement.SQL.String(), t.Statement.Vars...))
			}
			st := t.Statement
			ob.Stmt = fmt.Sprintf("ctx=%s skip=%v unscoped=%v sel=%v omit=%v joins=%d distinct=%v set=%s dry=%v", CtxMarker(st.Context), st.SkipHooks, st.Unscoped,
				st.Selects, st.Omits, len(st.Joins), st.Distinct, c06xSettings(st), t.DryRun)
			c06xHooks, c06xLogs = nil, nil
			run.Obs[i] = ob
		default:
			panic("c06x: unknown op " + o.N)
		}
		if c06xIsDerive(o.N) && o.N != "begin" {
			after := c06xSnapshot(s)
			f := o.F
			switch o.N {
			case "ctx":
				f = c06fContext
			case "debug":
				f = c06fLogger
			}
			if o.N != "debug" || before.Clone == 0 {
				// Debug() = getInstance().Session(…): on a reusable receiver the Session call is made on a fresh instance
				run.Sess = append(run.Sess, c06xSessFact{Op: i, Flags: f, SrcClone: before.Clone, Diff: c06xSnapDiff(before, after),
					Shared: t.Statement == s.Statement, Clone: reflect.ValueOf(t).Elem().FieldByName("clone").Int()})
			} else if d := c06xSnapDiff(before, after); len(d) > 0 {
				run.Sess = append(run.Sess, c06xSessFact{Op: i, Flags: -1, SrcClone: before.Clone, Diff: d})
			}
		}
		hs = append(hs, t)
	}
	return
}

// c06xHandles: the handles of a full run (nil after a panic)
func c06xHandles(w *c06xWorld, h c06xHist) []*gorm.DB {
	run := c06xExec(w, h, nil)
	if run.Panic != "" || len(run.hs) != len(h.Ops)+1 {
		return nil
	}
	return run.hs
}

// ---- oracle -----------------------------------------------------------------------------------------

// c06xSameObs: the replay-alone oracle's comparison.  Latitudes: conjunct order (already canonical in Events/SQL).
//   After a statement that FAILED with the same error in both runs the destination / RowsAffected are not compared: a failed
//   finisher leaves whatever the destination variable and the chain instance held before (on a chain instance that already
//   executed a query that is the earlier query's count), which no sentence of the property speaks about.
func c06xSameObs(a, b c06xObs) bool {
	if a.Err != "" && a.Err == b.Err {
		a.Res, b.Res = "", ""
		a.Rows, b.Rows = 0, 0
	}
	return reflect.DeepEqual(a, b)
}

type c06xMismatch struct {
	Op     int     `json:"op"`
	InHist c06xObs `json:"in_history"`
	Alone  c06xObs `json:"alone"`
	What   string  `json:"what"`
}

func c06xWhat(a, b c06xObs) string {
	var d []string
	if !reflect.DeepEqual(a.Events, b.Events) || a.Prepared != b.Prepared {
		d = append(d, "driver statements")
	}
	if a.SQL != b.SQL {
		d = append(d, "dry-run SQL")
	}
	if a.Res != b.Res || a.Rows != b.Rows {
		d = append(d, "results")
	}
	if a.Err != b.Err {
		d = append(d, "error")
	}
	if !reflect.DeepEqual(a.Hooks, b.Hooks) {
		d = append(d, "hooks")
	}
	if !reflect.DeepEqual(a.Logs, b.Logs) {
		d = append(d, "logger")
	}
	if a.Clauses != b.Clauses {
		d = append(d, "clauses")
	}
	if a.Stmt != b.Stmt {
		d = append(d, "statement")
	}
	return strings.Join(d, ",")
}

// c06xAfterQuery: per op, whether its result descends from a chain instance that was used again after a query had
// been executed on it (the finisher op comes earlier in the history and is not among the op's ancestors)
func c06xAfterQuery(h c06xHist) [][]int {
	out := make([][]int, len(h.Ops)+1)
	finAt := map[int]int{} // instance -> index of the first finisher executed on it
	for i, o := range h.Ops {
		if o.N == "skip" {
			continue
		}
		if o.N == "fin" {
			if _, ok := finAt[o.S]; !ok {
				finAt[o.S] = i
				out[i+1] = out[o.S]
				continue
			}
		}
		f, ok := finAt[o.S]
		chainInst := o.S > 0 && h.Ops[o.S-1].N != "fin" && !c06xIsDerive(h.Ops[o.S-1].N)
		if o.S > 0 && h.Ops[o.S-1].N == "sess" && h.Ops[o.S-1].F&c06fInitialized != 0 {
			chainInst = true
		}
		out[i+1] = out[o.S]
		if ok && f < i && chainInst {
			out[i+1] = append(append([]int(nil), out[o.S]...), f)
		}
	}
	return out
}

// latitude for finishers after a re-used executed chain: the first query leaves SELECT / FROM / the schema's query
// clauses and their marker in the statement, so the clause SET of the later statement legitimately differs from the
// replay in which that query never ran.  What the caller put there must still be the same: every decoration
// (Before/AfterName/After/Builder) and every entry under another key.
func c06xLooseClauses(c string) string {
	var keep []string
	for _, e := range strings.Split(c, " ") {
		k := e
		if i := strings.Index(e, "["); i >= 0 {
			k = e[:i]
		}
		plain := strings.HasSuffix(e, "|B:-|N:-|A:-|F:0]")
		switch k {
		case "SELECT", "FROM", "WHERE", "soft_delete_enabled":
			if plain {
				continue
			}
			if i := strings.Index(e, "|B:"); i >= 0 {
				e = k + e[i:]
			}
		}
		keep = append(keep, e)
	}
	return strings.Join(keep, " ")
}

// clone mode of every handle (0 chain instance, 1 starts chains from an empty statement, 2 from a copy).  A plain
// Session on a clone-1 handle is NOT an identity: Session{NewDB} keeps the receiver's statement (only hidden), and the
// plain Session after it makes it visible again — gorm's behaviour on the unchanged tree, left alone here.
func c06xClones(h c06xHist) []int {
	cl := []int{1}
	for _, o := range h.Ops {
		c := 0
		src := 1
		if o.S < len(cl) {
			src = cl[o.S]
		}
		switch o.N {
		case "skip":
			c = 1
		case "sess":
			c = 2
			if o.F&c06fNewDB != 0 {
				c = 1
			}
			if o.F&c06fInitialized != 0 {
				c = 0
			}
		case "ctx", "debug":
			c = 2
		case "begin":
			c = 2
			if src == 1 {
				c = 1
			}
		}
		cl = append(cl, c)
	}
	return cl
}

// c06xFlattens: the path of finisher op k contains a flag-less Session taken from a chain instance
func c06xFlattens(h c06xHist, k int) bool {
	m := h.mask(k)
	for i, o := range h.Ops {
		if m[i] && o.N == "sess" && o.F == 0 && c06xClones(h)[o.S] != 1 {
			return true
		}
	}
	return false
}

func c06xJudge(w *c06xWorld, h c06xHist) (full c06xRun, bad []c06xMismatch) {
	full = c06xExec(w, h, nil)
	if full.Panic != "" {
		return
	}
	after := c06xAfterQuery(h)
	for i, o := range h.Ops {
		if o.N != "fin" {
			continue
		}
		al := c06xExec(w, h, h.mask(i))
		a, ok := al.Obs[i]
		if !ok && al.Panic != "" {
			a = c06xObs{Err: "panic: " + al.Panic}
		}
		f, ok := full.Obs[i]
		if ok && len(after[i+1]) > 0 {
			failed := false
			for _, q := range after[i+1] {
				failed = failed || full.Obs[q].Err != ""
			}
			if failed {
				continue // a query executed earlier on the chain instance FAILED: the instance keeps the error (gorm's contract)
			}
			// (round 3) the same relation joined twice — Joins("Co").…Joins("Co") — generates ONE join clause for TWO
			// Statement.Joins elements, and AfterQuery trims one clause per element: the query executed earlier on
			// the instance then also removed one of the caller's own FROM joins.  Same family as the nested
			// "A.B" join of the obligations' assumptions; a chain INSTANCE used again after a query is outside the
			// property's quantifier.
			dup := 0
			for j := i; j >= 0; {
				if h.Ops[j].N == "joinsA" {
					dup++
				}
				if h.Ops[j].S == 0 {
					break
				}
				j = h.Ops[j].S - 1
			}
			if dup >= 2 {
				continue
			}
			f.Clauses, a.Clauses = c06xLooseClauses(f.Clauses), c06xLooseClauses(a.Clauses)
			if f.Err != "" && f.Err == a.Err {
				f.Rows, a.Rows = 0, 0 // a failing finisher does not reset the RowsAffected the earlier query left on the instance
			}
		}
		if ok && len(after[i+1]) == 0 && c06xFlattens(h, i) {
			// second reference: the same chain written WITHOUT the plain Session(&Session{}) derivations on its path
			fl := c06xExecMode(w, h, h.mask(i), true)
			if b, ok2 := fl.Obs[i]; ok2 && fl.Panic == "" {
				f2 := f
				b.Stmt, f2.Stmt = "", ""
				if !c06xSameObs(f2, b) {
					bad = append(bad, c06xMismatch{Op: i, InHist: f2, Alone: b, What: "flattened: " + c06xWhat(f2, b)})
					continue
				}
			}
		}
		if ok && !c06xSameObs(f, a) {
			bad = append(bad, c06xMismatch{Op: i, InHist: f, Alone: a, What: c06xWhat(f, a)})
		}
	}
	return
}

func c06xShrink(w *c06xWorld, h c06xHist) c06xHist {
	cur := h
	for changed := true; changed; {
		changed = false
		for i := len(cur.Ops) - 1; i >= 0; i-- {
			if cur.Ops[i].N == "skip" {
				continue
			}
			cand := c06xHist{Cfg: cur.Cfg, Model: cur.Model, Ops: append([]c06xOp(nil), cur.Ops...)}
			dead := map[int]bool{i + 1: true}
			cand.Ops[i] = c06xOp{N: "skip"}
			for j := i + 1; j < len(cand.Ops); j++ {
				if dead[cand.Ops[j].S] && cand.Ops[j].N != "skip" {
					dead[j+1] = true
					cand.Ops[j] = c06xOp{N: "skip"}
				}
			}
			if _, bad := c06xJudge(w, cand); len(bad) > 0 {
				cur, changed = cand, true
			}
		}
		// fewer session flags
		for i := range cur.Ops {
			if cur.Ops[i].N != "sess" {
				continue
			}
			for b := 0; b < len(c06xFlagNames); b++ {
				if cur.Ops[i].F&(1<<b) == 0 {
					continue
				}
				cand := c06xHist{Cfg: cur.Cfg, Model: cur.Model, Ops: append([]c06xOp(nil), cur.Ops...)}
				cand.Ops[i].F &^= 1 << b
				if _, bad := c06xJudge(w, cand); len(bad) > 0 {
					cur, changed = cand, true
				}
			}
		}
	}
	return cur
}

var c06xReports int

func c06xReport(r *Result, w *c06xWorld, suite string, h c06xHist, bad []c06xMismatch) {
	c06xReports++
	if c06xReports > 3 {
		r.H("x_unreported_mismatch (more than 3 in one run)", bad[0].What)
		return
	}
	min := c06xShrink(w, h)
	_, mb := c06xJudge(w, min)
	if len(mb) == 0 {
		min, mb = h, bad
	}
	m := mb[0]
	r.Violate(Violation{Kind: "e2e", Suite: suite, Input: min, Observed: m.InHist, Expected: m.Alone,
		Note: "finisher op " + fmt.Sprint(m.Op) + " behaves differently inside the history than replayed alone (" + m.What + "); history: " + min.Desc()})
}
