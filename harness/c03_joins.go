package main

// C03 e2e, Joins read path: a fixed family of named relation types whose schemas have CROSSING names (column of one
// field = Go name of another, in the owner and in both joined schemas) and self-serializing members; owners are
// created with and without the related rows and read back through Joins("Ref") / Joins("Ref").Joins("Ref.Deep")
// (nested `Ref__Deep__col` aliases resolved by scan.go through rel.FieldSchema.LookUpField), Find and First.

import (
	"encoding/json"
	"fmt"
	"math/rand"
	"reflect"

	"gorm.io/gorm"
	"gorm.io/gorm/clause"
)

type c03JoinInput struct {
	Seed      int64 `json:"seed"`
	N         int   `json:"n"`
	Returning bool  `json:"returning"`
}

// LATITUDE: a related record that was never stored reads back as nil OR as an all-zero struct (scan.go allocates the
// relation as soon as one joined column has a non-pointer scan holder, e.g. a serializer member): both are accepted.
func c03JoinCanon(o *C03JOwner) string {
	c := *o
	c.ID = 0
	if c.Ref != nil && c.Ref.ID == 0 {
		c.Ref = nil
	}
	if c.Ref != nil && c.Ref.Deep != nil && c.Ref.Deep.ID == 0 {
		r := *c.Ref
		r.Deep = nil
		c.Ref = &r
	}
	s := c03Canon(reflect.ValueOf(struct {
		A, B, C string
		D       CSelfDoc
		HasRef  bool
	}{c.Name, c.LegacyName, c.DisplayName, c.Doc, c.Ref != nil}))
	if c.Ref != nil {
		s += c03Canon(reflect.ValueOf(struct {
			A, B string
			L    int
			T    CSelfList
			Has  bool
		}{c.Ref.Title, c.Ref.Label, c.Ref.Level, c.Ref.Tags, c.Ref.Deep != nil}))
		if c.Ref.Deep != nil {
			s += c03Canon(reflect.ValueOf(struct {
				A, B string
				R    *int64
			}{c.Ref.Deep.Code, c.Ref.Deep.Note, c.Ref.Deep.Rank}))
		}
	}
	return s
}

func c03RunJoins(in c03JoinInput) (bad []string) {
	defer func() {
		if p := recover(); p != nil {
			bad = append(bad, fmt.Sprint("panic: ", p))
		}
	}()
	rng := rand.New(rand.NewSource(in.Seed))
	db, sqlDB := c03Open(in.Returning, &gorm.Config{NowFunc: fixedNowFunc})
	defer sqlDB.Close()
	if err := db.AutoMigrate(&C03JDeep{}, &C03JRef{}, &C03JOwner{}); err != nil {
		return []string{"AutoMigrate: " + err.Error()}
	}
	str := func(tag string, i int) string {
		if rng.Intn(5) == 0 {
			return ""
		}
		return fmt.Sprintf("%s%d-%s", tag, i, genS(rng))
	}
	owners := make([]*C03JOwner, in.N)
	for i := range owners {
		o := &C03JOwner{Name: str("name", i), LegacyName: str("legacy", i), DisplayName: str("display", i)}
		if rng.Intn(2) == 0 {
			o.Doc.Theme = genS(rng)
		}
		if rng.Intn(2) == 0 {
			o.Doc.Tags = []string{fmt.Sprint("t", i), "u", "v"}[:1+rng.Intn(3)]
		}
		if rng.Intn(2) == 0 {
			o.Doc.Level = 1 + rng.Intn(9)
		}
		if rng.Intn(3) > 0 {
			ref := &C03JRef{Title: str("title", i), Label: str("label", i), Level: rng.Intn(5)}
			if rng.Intn(2) == 0 {
				ref.Tags = CSelfList{fmt.Sprint("r", i), "s", "t", "u"}[:1+rng.Intn(4)]
			}
			if rng.Intn(2) == 0 {
				d := &C03JDeep{Code: str("code", i), Note: str("note", i)}
				if rng.Intn(2) == 0 {
					n := int64(rng.Intn(100))
					d.Rank = &n
				}
				if err := db.Create(d).Error; err != nil {
					return []string{"Create(deep): " + err.Error()}
				}
				ref.Deep, ref.DeepID = d, &d.ID
			}
			if err := db.Omit(clause.Associations).Create(ref).Error; err != nil {
				return []string{"Create(ref): " + err.Error()}
			}
			o.Ref, o.RefID = ref, &ref.ID
		}
		owners[i] = o
	}
	if err := db.Omit(clause.Associations).Create(&owners).Error; err != nil {
		return []string{"Create(owners): " + err.Error()}
	}
	want := map[uint]string{}
	for i, o := range owners {
		if o.ID == 0 || want[o.ID] != "" {
			bad = append(bad, fmt.Sprintf("owner %d: missing or duplicate key %d after Create", i, o.ID))
		}
		want[o.ID] = c03JoinCanon(o)
	}
	judge := func(how string, got []*C03JOwner, depth int) {
		if len(got) != in.N {
			bad = append(bad, fmt.Sprintf("%s returned %d owners, created %d", how, len(got), in.N))
		}
		for _, g := range got {
			var w string
			for _, o := range owners {
				if o.ID == g.ID {
					c := *o
					if depth == 0 {
						c.Ref = nil
					} else if depth == 1 && c.Ref != nil {
						r := *c.Ref
						r.Deep = nil
						c.Ref = &r
					}
					w = c03JoinCanon(&c)
				}
			}
			if gc := c03JoinCanon(g); gc != w {
				bad = append(bad, fmt.Sprintf("%s owner id=%d: stored %s loaded %s", how, g.ID, w, gc))
			}
		}
	}
	var plain, j1, j2 []*C03JOwner
	if err := db.Find(&plain).Error; err != nil {
		return append(bad, "Find: "+err.Error())
	}
	judge("Find", plain, 0)
	if err := db.Joins("Ref").Find(&j1).Error; err != nil {
		return append(bad, `Joins("Ref").Find: `+err.Error())
	}
	judge(`Joins("Ref").Find`, j1, 1)
	if err := db.Joins("Ref").Joins("Ref.Deep").Find(&j2).Error; err != nil {
		return append(bad, `Joins("Ref").Joins("Ref.Deep").Find: `+err.Error())
	}
	judge(`Joins("Ref").Joins("Ref.Deep").Find`, j2, 2)
	var firsts []*C03JOwner
	for _, o := range owners {
		one := &C03JOwner{}
		if err := db.Joins("Ref").Joins("Ref.Deep").First(one, o.ID).Error; err != nil {
			bad = append(bad, fmt.Sprintf(`Joins.First(%d): %v`, o.ID, err))
			continue
		}
		firsts = append(firsts, one)
	}
	judge(`Joins("Ref").Joins("Ref.Deep").First`, firsts, 2)
	// the loaded owners must not share memory
	if len(bad) == 0 && len(j2) > 1 {
		before := make([]string, len(j2))
		for i, g := range j2 {
			before[i] = c03JoinCanon(g)
		}
		c03Scribble(reflect.ValueOf(j2[0]).Elem())
		for i := 1; i < len(j2); i++ {
			if after := c03JoinCanon(j2[i]); after != before[i] {
				bad = append(bad, fmt.Sprintf("joined owners share memory: overwriting owner id=%d changed owner id=%d: %s -> %s", j2[0].ID, j2[i].ID, before[i], after))
			}
		}
	}
	return bad
}

func c03JoinSuite(r *Result, rng *rand.Rand, tier string) {
	n := 60
	if tier == "thorough" {
		n = 1500
	}
	for i := 0; i < n && !expired(); i++ {
		in := c03JoinInput{Seed: rng.Int63(), N: 1 + rng.Intn(6), Returning: rng.Intn(2) == 0}
		bad := c03RunJoins(in)
		r.Case("joins", fmt.Sprint(in.Seed), in.N > 1)
		r.H("joins.owners", fmt.Sprint(in.N))
		if len(bad) > 0 {
			if len(bad) > 6 {
				bad = append(bad[:6], fmt.Sprintf("… %d more", len(bad)-6))
			}
			r.H("joins.verdict", "violation")
			r.Violate(Violation{Kind: "e2e", Suite: "joins", Input: in, Observed: bad, Expected: "owners, joined Ref and Ref.Deep read back with the values Create stored"})
		} else {
			r.H("joins.verdict", "ok")
		}
	}
}

func init() {
	register("C03", c03JoinSuite)
	replayers["C03/joins"] = func(r *Result, input json.RawMessage) {
		var in c03JoinInput
		if json.Unmarshal(input, &in) != nil {
			return
		}
		if bad := c03RunJoins(in); len(bad) > 0 {
			r.Violate(Violation{Kind: "e2e", Suite: "joins", Input: in, Observed: bad})
		}
	}
}
