package main

// C15 — read paths on SHARED handles, finisher return values, nested queries; query-shape correspondence.
//
// A scenario is a small program over *gorm.DB handles:
//
//	base := db.Model(&C15Rec{}) + Where/Or members + 0..4 Order calls + Limit/Offset calls   [+ Session / WithContext]
//	step : h := base + extra calls ; tx := h.<finisher>(…) ; optionally  tx + extra calls → second finisher (the
//	       finisher's RETURN VALUE is reused) ; optionally further steps issued from INSIDE a FindInBatches
//	       callback / a Rows loop ; optionally all step handles are built before the first one is executed.
//
// E2E oracle (no model): every finisher is judged against the in-memory table under the property's reading of
// the chain (members indivisible, joined left to right with AND/OR under standard precedence; ordered by the
// user's columns; "later positive Limit/Offset override, negative cancel").  Latitude, exactly what the
// property leaves: rows that tie under the user's ordering may come in any order (sequences are compared
// only when the ordering is total, otherwise as sets / sizes); Count is compared only without effective
// LIMIT/OFFSET; ErrRecordNotFound is demanded of First/Take/Last only and forbidden elsewhere; chains that begin
// with Or, Limit(0), and the three listed FindInBatches findings are not generated here.
// Correspondence: the same chain is sent to the Lean model (`paths` / `batchesW`): rows, RowsAffected,
// not-found flag and the SHAPE of the SQL each finisher sends (ORDER BY columns, LIMIT, OFFSET) are diffed.

import (
	"context"
	"database/sql"
	"encoding/json"
	"errors"
	"fmt"
	"math/rand"
	"reflect"
	"regexp"
	"sort"
	"strings"

	"gorm.io/gorm"
	"gorm.io/gorm/clause"
)

type C15Rec struct {
	ID uint `gorm:"primaryKey"`
	N  int
	M  *int
	S  string
	U  int
	K  int
}

type c15Small struct {
	ID uint
	N  int
}

type c15Row struct {
	ID int    `json:"id"`
	N  int    `json:"n"`
	M  *int   `json:"m"`
	S  string `json:"s"`
	U  int    `json:"u"`
	K  int    `json:"k"`
}

type c15Atom struct {
	Kind string `json:"kind"`
	V    int    `json:"v"`
	Str  string `json:"s,omitempty"`
	IDs  []int  `json:"ids,omitempty"`
	Or   bool   `json:"or,omitempty"`
}

type c15Ord struct {
	Col  string `json:"col"`
	Desc bool   `json:"desc,omitempty"`
	Expr bool   `json:"expr,omitempty"` // clause.OrderByColumn form instead of the string form
}

type c15Chain struct {
	Atoms []c15Atom `json:"atoms,omitempty"`
	Ords  []c15Ord  `json:"ords,omitempty"`
	Lims  []limCall `json:"lims,omitempty"`
}

type c15Step struct {
	Extra  c15Chain  `json:"extra"`
	Fin    string    `json:"fin"`
	Batch  int       `json:"batch,omitempty"`
	Reuse  *c15Step  `json:"reuse,omitempty"`  // applied to the handle the finisher returned
	Nested []c15Step `json:"nested,omitempty"` // issued from inside the batch callback / the Rows loop (on base)
}

type c15Scn struct {
	Rows     []c15Row  `json:"rows"`
	Base     c15Chain  `json:"base"`
	Handle   string    `json:"handle"` // fresh | session | ctx
	Prebuild bool      `json:"prebuild,omitempty"`
	Steps    []c15Step `json:"steps"`
}

var c15Strs = []string{"a", "b", "c", "d"}

func (a c15Atom) sat(r c15Row) bool {
	switch a.Kind {
	case "nge":
		return r.N >= a.V
	case "nne", "notn":
		return r.N != a.V
	case "mnn":
		return r.M != nil
	case "meq":
		return r.M != nil && *r.M == a.V
	case "smap":
		return r.S == a.Str
	case "nstruct":
		return r.N == a.V
	case "idin":
		for _, x := range a.IDs {
			if x == r.ID {
				return true
			}
		}
		return false
	case "idgt":
		return r.ID > a.V
	}
	panic("atom " + a.Kind)
}

func (a c15Atom) apply(db *gorm.DB) *gorm.DB {
	w := db.Where
	if a.Or {
		w = db.Or
	}
	switch a.Kind {
	case "nge":
		return w("n >= ?", a.V)
	case "nne":
		return w("n <> ?", a.V)
	case "notn":
		if a.Or {
			return w("NOT n = ?", a.V)
		}
		return db.Not("n = ?", a.V)
	case "mnn":
		return w("m IS NOT NULL")
	case "meq":
		return w("m = ?", a.V)
	case "smap":
		return w(map[string]interface{}{"s": a.Str})
	case "nstruct":
		return w(&C15Rec{N: a.V})
	case "idin":
		return w("id IN ?", a.IDs)
	case "idgt":
		return w("id > ?", a.V)
	}
	panic("atom " + a.Kind)
}

var c15Tags = map[string]int{"id": 0, "n": 1, "s": 2, "m": 3, "u": 4, "k": 5}

func (o c15Ord) rank(r c15Row) int {
	switch o.Col {
	case "id":
		return r.ID
	case "n":
		return r.N
	case "s":
		return int(r.S[0])
	case "m":
		if r.M == nil {
			return -1000 // SQLite: NULL sorts first ascending
		}
		return *r.M
	case "u":
		return r.U
	case "k":
		return r.K
	}
	panic("ord " + o.Col)
}

func (o c15Ord) apply(db *gorm.DB) *gorm.DB {
	if o.Expr {
		return db.Order(clause.OrderByColumn{Column: clause.Column{Name: o.Col}, Desc: o.Desc})
	}
	if o.Desc {
		return db.Order(o.Col + " desc")
	}
	return db.Order(o.Col)
}

func (c c15Chain) apply(db *gorm.DB) *gorm.DB {
	for _, a := range c.Atoms {
		db = a.apply(db)
	}
	for _, o := range c.Ords {
		db = o.apply(db)
	}
	return applyLimCalls(db, c.Lims)
}

func (c c15Chain) plus(d c15Chain) c15Chain {
	return c15Chain{
		Atoms: append(append([]c15Atom{}, c.Atoms...), d.Atoms...),
		Ords:  append(append([]c15Ord{}, c.Ords...), d.Ords...),
		Lims:  append(append([]limCall{}, c.Lims...), d.Lims...),
	}
}

func (c c15Chain) hasOr() bool {
	for _, a := range c.Atoms {
		if a.Or {
			return true
		}
	}
	return false
}

// ---- the property's reading of a chain (independent of gorm and of the Lean model) ----------------------

func c15Matching(rows []c15Row, atoms []c15Atom) []c15Row {
	var out []c15Row
	for _, r := range rows {
		ok := true
		if len(atoms) > 0 {
			res, cur := false, atoms[0].sat(r)
			for _, a := range atoms[1:] {
				if a.Or {
					res = res || cur
					cur = a.sat(r)
				} else {
					cur = cur && a.sat(r)
				}
			}
			ok = res || cur
		}
		if ok {
			out = append(out, r)
		}
	}
	return out
}

// "later positive values override earlier ones and negative values cancel them"; a zero leaves an earlier value
// alone, and a chain whose Limit calls are all Limit(0) reads LIMIT 0 (what Find sends: C15_limit_merge_limit).
// Zero limits are only generated for FindInBatches steps once the tree carries the repair of F7c.
func c15Eff(lims []limCall) (lim, off int) {
	lim, off = -1, 0
	sawLimit, nonZero := false, false
	defer func() {
		if sawLimit && !nonZero {
			lim = 0
		}
	}()
	for _, c := range lims {
		if c.Kind == "limit" {
			sawLimit = true
		}
		if c.N == 0 {
			continue
		}
		v := c.N
		if c.Kind == "limit" {
			nonZero = true
			if v < 0 {
				v = -1
			}
			lim = v
		} else {
			if v < 0 {
				v = 0
			}
			off = v
		}
	}
	return
}

func c15Less(ords []c15Ord, a, b c15Row) int {
	for _, o := range ords {
		x, y := o.rank(a), o.rank(b)
		if x != y {
			if (x < y) != o.Desc {
				return -1
			}
			return 1
		}
	}
	return 0
}

func c15Total(ords []c15Ord) bool {
	for _, o := range ords {
		if o.Col == "id" || o.Col == "u" {
			return true
		}
	}
	return false
}

func c15Window(rows []c15Row, lims []limCall) []c15Row {
	lim, off := c15Eff(lims)
	if off > len(rows) {
		off = len(rows)
	}
	rows = rows[off:]
	if lim >= 0 && lim < len(rows) {
		rows = rows[:lim]
	}
	return rows
}

func c15IDs(rows []c15Row) []int {
	out := make([]int, len(rows))
	for i, r := range rows {
		out[i] = r.ID
	}
	return out
}

// ---- running one finisher on the real code ------------------------------------------------------------------

type c15Out struct {
	IDs    []int    `json:"ids"`
	RA     int64    `json:"ra"`
	Err    string   `json:"err,omitempty"`
	Count  int64    `json:"count,omitempty"`
	Bad    string   `json:"bad,omitempty"` // value mismatch against the table, if any
	Prim   int      `json:"prim,omitempty"`
	Shapes []string `json:"shapes,omitempty"`
	Batches [][]int `json:"batches,omitempty"`
	tx     *gorm.DB
}

func c15ErrName(err error) string {
	switch {
	case err == nil:
		return ""
	case errors.Is(err, gorm.ErrRecordNotFound):
		return "notfound"
	case errors.Is(err, errC15Abort):
		return "abort"
	default:
		return "error:" + err.Error()
	}
}

var errC15Abort = errors.New("c15 abort")

type c15World struct {
	db    *gorm.DB
	rec   *Recorder
	byID  map[int]c15Row
	rows  []c15Row
	skip  [][2]int // event index ranges produced by nested steps
	maxBatches int // the batch callback aborts the loop after this many batches
	viol  func(kind, what string, detail interface{})
	judge func(ch c15Chain, st c15Step, out *c15Out, where string)
}

func (w *c15World) checkRec(out *c15Out, x C15Rec) {
	r, ok := w.byID[int(x.ID)]
	if !ok {
		out.Bad = fmt.Sprintf("row with unknown id %d", x.ID)
		return
	}
	if x.N != r.N || x.S != r.S || x.U != r.U || (x.M == nil) != (r.M == nil) || (x.M != nil && *x.M != *r.M) {
		out.Bad = fmt.Sprintf("row %d delivered with values %+v, table has %+v", x.ID, x, r)
	}
}

func c15Int(v interface{}) (int, bool) {
	if rv := reflect.ValueOf(v); rv.IsValid() && rv.Kind() == reflect.Ptr {
		if rv.IsNil() {
			return 0, false
		}
		v = rv.Elem().Interface()
	}
	switch t := v.(type) {
	case int64:
		return int(t), true
	case int:
		return t, true
	case uint:
		return int(t), true
	case uint64:
		return int(t), true
	case nil:
		return 0, false
	}
	return 0, false
}

func (w *c15World) checkMap(out *c15Out, m map[string]interface{}) {
	id, _ := c15Int(m["id"])
	out.IDs = append(out.IDs, id)
	r, ok := w.byID[id]
	if !ok {
		out.Bad = fmt.Sprintf("map row with unknown id %v", m["id"])
		return
	}
	n, _ := c15Int(m["n"])
	if _, has := m["m"]; !has {
		// a NULL column must be REPORTED by the map path (key present, nil), as the struct path reports a nil pointer
		out.Bad = fmt.Sprintf("row %d delivered as map %v: no key for column m", id, m)
		return
	}
	mv, mok := c15Int(m["m"])
	if n != r.N || fmt.Sprint(m["s"]) != r.S || mok != (r.M != nil) || (mok && mv != *r.M) {
		out.Bad = fmt.Sprintf("row %d delivered as map %v, table has %+v", id, m, r)
	}
}

// run executes finisher st.Fin on handle h. Nested steps run on `base` from inside the callback / loop.
func (w *c15World) run(h *gorm.DB, st c15Step, base *gorm.DB, baseCh c15Chain) *c15Out {
	out := &c15Out{IDs: []int{}}
	start := len(w.rec.Snapshot())
	nested := func() {
		if len(st.Nested) == 0 {
			return
		}
		s := len(w.rec.Snapshot())
		for _, ns := range st.Nested {
			w.step(base, baseCh, ns, "nested")
		}
		w.skip = append(w.skip, [2]int{s, len(w.rec.Snapshot())})
	}
	var tx *gorm.DB
	fin, col := st.Fin, ""
	if i := strings.IndexByte(fin, ':'); i > 0 {
		fin, col = fin[:i], fin[i+1:]
	}
	switch fin {
	case "find":
		var xs []C15Rec
		tx = h.Find(&xs)
		for _, x := range xs {
			out.IDs = append(out.IDs, int(x.ID))
			w.checkRec(out, x)
		}
	case "findptr":
		var xs []*C15Rec
		tx = h.Find(&xs)
		for _, x := range xs {
			out.IDs = append(out.IDs, int(x.ID))
			w.checkRec(out, *x)
		}
	case "findsmall":
		var xs []c15Small
		tx = h.Find(&xs)
		for _, x := range xs {
			out.IDs = append(out.IDs, int(x.ID))
			if r, ok := w.byID[int(x.ID)]; !ok || r.N != x.N {
				out.Bad = fmt.Sprintf("small row %+v, table has %+v", x, r)
			}
		}
	case "findmap":
		var ms []map[string]interface{}
		tx = h.Find(&ms)
		for _, m := range ms {
			w.checkMap(out, m)
		}
	case "scan":
		var xs []C15Rec
		tx = h.Scan(&xs)
		for _, x := range xs {
			out.IDs = append(out.IDs, int(x.ID))
			w.checkRec(out, x)
		}
	case "scanmaps":
		var ms []map[string]interface{}
		tx = h.Scan(&ms)
		for _, m := range ms {
			w.checkMap(out, m)
		}
	case "scan1":
		var x C15Rec
		tx = h.Scan(&x)
		if tx.RowsAffected > 0 {
			out.IDs = append(out.IDs, int(x.ID))
			w.checkRec(out, x)
		}
	case "scanprim":
		var v int
		tx = h.Select("id").Scan(&v)
		// scan.go Scan, primitive destination: EVERY row is scanned into dest (the last one stays), RowsAffected = rows read
		out.Prim = v
	case "pluck":
		switch col {
		case "id", "n", "u":
			var vs []int
			tx = h.Pluck(col, &vs)
			out.IDs = vs
		case "s":
			var vs []string
			tx = h.Pluck(col, &vs)
			for _, v := range vs {
				out.IDs = append(out.IDs, int(v[0]))
			}
		case "m":
			var vs []sql.NullInt64
			tx = h.Pluck(col, &vs)
			for _, v := range vs {
				if !v.Valid {
					out.IDs = append(out.IDs, -1000)
				} else {
					out.IDs = append(out.IDs, int(v.Int64))
				}
			}
		}
		if out.IDs == nil {
			out.IDs = []int{}
		}
	case "rows":
		rows, err := h.Rows()
		if err != nil {
			out.Err = c15ErrName(err)
			break
		}
		for rows.Next() {
			var x C15Rec
			if err := w.db.ScanRows(rows, &x); err != nil {
				out.Err = c15ErrName(err)
				break
			}
			out.IDs = append(out.IDs, int(x.ID))
			w.checkRec(out, x)
			if len(out.IDs) == 1 {
				nested()
			}
		}
		rows.Close()
		out.RA = int64(len(out.IDs))
	case "count":
		tx = h.Count(&out.Count)
	case "countsel": // COUNT(`col`) on a NOT NULL column
		tx = h.Select(col).Count(&out.Count)
	case "countdist": // COUNT(DISTINCT(`col`)) on a unique column
		tx = h.Distinct(col).Count(&out.Count)
	case "first", "last", "take":
		var x C15Rec
		switch fin {
		case "first":
			tx = h.First(&x)
		case "last":
			tx = h.Last(&x)
		default:
			tx = h.Take(&x)
		}
		if tx.Error == nil {
			out.IDs = append(out.IDs, int(x.ID))
			w.checkRec(out, x)
		}
	case "firstmap", "lastmap":
		m := map[string]interface{}{}
		if fin == "firstmap" {
			tx = h.First(&m)
		} else {
			tx = h.Last(&m)
		}
		if tx.Error == nil {
			w.checkMap(out, m)
		}
	case "batches":
		var xs []C15Rec
		nb := 0
		out.Batches = [][]int{}
		tx = h.FindInBatches(&xs, st.Batch, func(_ *gorm.DB, b int) error {
			ids := []int{}
			for _, x := range xs {
				ids = append(ids, int(x.ID))
				w.checkRec(out, x)
			}
			out.Batches = append(out.Batches, ids)
			out.IDs = append(out.IDs, ids...)
			nb++
			if nb == 1 {
				nested()
			}
			if nb >= w.maxBatches {
				return errC15Abort
			}
			return nil
		})
	default:
		panic("fin " + st.Fin)
	}
	if tx != nil {
		out.RA = tx.RowsAffected
		out.Err = c15ErrName(tx.Error)
		out.tx = tx
	}
	// the SELECTs this finisher sent (nested ones excluded)
	evs := w.rec.Snapshot()
	for i := start; i < len(evs); i++ {
		skip := false
		for _, s := range w.skip {
			if i >= s[0] && i < s[1] {
				skip = true
			}
		}
		if !skip && evs[i].Kind == "query" {
			out.Shapes = append(out.Shapes, c15Shape(evs[i]))
		}
	}
	return out
}

var (
	c15ReOrder  = regexp.MustCompile(`ORDER BY (.*?)( LIMIT | OFFSET |$)`)
	c15ReLimit  = regexp.MustCompile(`LIMIT (\?|\d+)`)
	c15ReOffset = regexp.MustCompile(`OFFSET (\?|\d+)`)
	c15ReCursor = regexp.MustCompile("`id` > (\\?|\\d+)")
)

// c15SQLValue: the value printed (inline) or bound (placeholder) at the first match of re, nil if absent
func c15SQLValue(ev Event, re *regexp.Regexp) interface{} {
	loc := re.FindStringSubmatchIndex(ev.SQL)
	if loc == nil {
		return nil
	}
	tok := ev.SQL[loc[2]:loc[3]]
	if tok != "?" {
		var v int
		fmt.Sscan(tok, &v)
		return v
	}
	k := strings.Count(ev.SQL[:loc[2]], "?")
	if k >= len(ev.Args) {
		return "?"
	}
	if v, ok := c15Int(ev.Args[k]); ok {
		return v
	}
	return fmt.Sprint(ev.Args[k])
}

// c15Shape = "ord=<col[-],…> lim=<v|-> off=<v|-> cur=<v|->" of one recorded SELECT
func c15Shape(ev Event) string {
	sql := ev.SQL
	ord := ""
	if m := c15ReOrder.FindStringSubmatch(sql); m != nil {
		var cols []string
		for _, c := range strings.Split(m[1], ",") {
			c = strings.ToLower(strings.TrimSpace(strings.ReplaceAll(c, "`", "")))
			c = strings.TrimPrefix(c, "c15_recs.")
			if strings.HasSuffix(c, " desc") {
				c = strings.TrimSuffix(c, " desc") + "-"
			}
			cols = append(cols, c)
		}
		ord = strings.Join(cols, ",")
	}
	f := func(v interface{}) string {
		if v == nil {
			return "-"
		}
		return fmt.Sprint(v)
	}
	return fmt.Sprintf("ord=%s lim=%s off=%s cur=%s", ord, f(c15SQLValue(ev, c15ReLimit)), f(c15SQLValue(ev, c15ReOffset)), f(c15SQLValue(ev, c15ReCursor)))
}

func c15ShapeOf(ords []c15Ord, lim, off, cur interface{}) string {
	var cols []string
	for _, o := range ords {
		c := o.Col
		if o.Desc {
			c += "-"
		}
		cols = append(cols, c)
	}
	f := func(v interface{}) string {
		if v == nil {
			return "-"
		}
		return fmt.Sprint(v)
	}
	return fmt.Sprintf("ord=%s lim=%s off=%s cur=%s", strings.Join(cols, ","), f(lim), f(off), f(cur))
}

// step executes one step (and its reuse step) from handle `base` carrying chain `baseCh`.
func (w *c15World) step(base *gorm.DB, baseCh c15Chain, st c15Step, where string) {
	h := st.Extra.apply(base)
	w.exec(h, baseCh.plus(st.Extra), st, base, baseCh, where)
}

func (w *c15World) exec(h *gorm.DB, ch c15Chain, st c15Step, base *gorm.DB, baseCh c15Chain, where string) {
	out := w.run(h, st, base, baseCh)
	w.judge(ch, st, out, where)
	if st.Reuse != nil && out.tx != nil && out.Err == "" {
		after := ch
		switch strings.SplitN(st.Fin, ":", 2)[0] {
		case "first", "firstmap":
			after = ch.plus(c15Chain{Ords: []c15Ord{{Col: "id"}}, Lims: []limCall{{"limit", 1}}})
		case "last", "lastmap":
			after = ch.plus(c15Chain{Ords: []c15Ord{{Col: "id", Desc: true}}, Lims: []limCall{{"limit", 1}}})
		case "take":
			after = ch.plus(c15Chain{Lims: []limCall{{"limit", 1}}})
		case "batches":
			// FindInBatches returns its working handle: Order(pk) added, and Offset(-1) when a LIMIT clause existed
			after = ch.plus(c15Chain{Ords: []c15Ord{{Col: "id"}}})
			if len(ch.Lims) > 0 {
				after.Lims = append(after.Lims, limCall{"offset", -1})
			}
		}
		h2 := st.Reuse.Extra.apply(out.tx)
		w.exec(h2, after.plus(st.Reuse.Extra), *st.Reuse, base, baseCh, where+"+reuse("+st.Fin+")")
	}
}

func c15OpenScn(scn *c15Scn) *c15World {
	db, rec, _ := OpenRec(nil)
	if err := db.AutoMigrate(&C15Rec{}); err != nil {
		panic(err)
	}
	w := &c15World{db: db, rec: rec, byID: map[int]c15Row{}, rows: scn.Rows, maxBatches: len(scn.Rows) + 4}
	if len(scn.Rows) > 0 {
		recs := make([]C15Rec, len(scn.Rows))
		for i, r := range scn.Rows {
			recs[i] = C15Rec{ID: uint(r.ID), N: r.N, M: r.M, S: r.S, U: r.U, K: r.K}
			w.byID[r.ID] = r
		}
		if err := db.Create(&recs).Error; err != nil {
			panic(err)
		}
	}
	rec.Reset()
	return w
}

func (w *c15World) runScn(scn *c15Scn) {
	mk := func() *gorm.DB {
		b := scn.Base.apply(w.db.Model(&C15Rec{}))
		switch scn.Handle {
		case "session":
			b = b.Session(&gorm.Session{})
		case "ctx":
			b = b.WithContext(context.Background())
		}
		return b
	}
	if scn.Handle == "fresh" {
		for i, st := range scn.Steps {
			w.step(mk(), scn.Base, st, fmt.Sprint("step", i))
		}
		return
	}
	base := mk()
	if scn.Prebuild {
		hs := make([]*gorm.DB, len(scn.Steps))
		for i, st := range scn.Steps {
			hs[i] = st.Extra.apply(base)
		}
		for i, st := range scn.Steps {
			w.exec(hs[i], scn.Base.plus(st.Extra), st, base, scn.Base, fmt.Sprint("prebuilt", i))
		}
		return
	}
	for i, st := range scn.Steps {
		w.step(base, scn.Base, st, fmt.Sprint("step", i))
	}
}

// ---- E2E judge ------------------------------------------------------------------------------------------

func c15Judge(rows []c15Row, ch c15Chain, st c15Step, out *c15Out) string {
	fin, col := st.Fin, ""
	if i := strings.IndexByte(fin, ':'); i > 0 {
		fin, col = fin[:i], fin[i+1:]
	}
	if strings.HasPrefix(out.Err, "error:") || out.Err == "abort" {
		return "unexpected error " + out.Err
	}
	if out.Bad != "" {
		return out.Bad
	}
	match := c15Matching(rows, ch.Atoms)
	lim, off := c15Eff(ch.Lims)
	ords := ch.Ords
	single := false
	switch fin {
	case "first", "firstmap":
		ords = append(append([]c15Ord{}, ords...), c15Ord{Col: "id"})
		single = true
	case "last", "lastmap":
		ords = append(append([]c15Ord{}, ords...), c15Ord{Col: "id", Desc: true})
		single = true
	case "take":
		single = true
	case "batches":
		ords = append(append([]c15Ord{}, ords...), c15Ord{Col: "id"})
	}
	sorted := append([]c15Row{}, match...)
	sort.SliceStable(sorted, func(i, j int) bool { return c15Less(ords, sorted[i], sorted[j]) < 0 })
	lims := ch.Lims
	if single {
		lims = append(append([]limCall{}, lims...), limCall{"limit", 1})
	}
	want := c15Window(sorted, lims)
	total := c15Total(ords)
	key := func(r c15Row) int { return r.ID }
	if fin == "pluck" {
		key = func(r c15Row) int { return c15Ord{Col: col}.rank(r) }
	}
	wantKeys := make([]int, len(want))
	for i, r := range want {
		wantKeys[i] = key(r)
	}
	switch fin {
	case "count", "countsel", "countdist":
		// latitude: a handle returned by First/Take/Last keeps RaiseErrorOnNotFound; with an OFFSET the count query
		// returns no row and that flag fires — Count is only judged "without limit, offset"
		if out.Err == "" && lim < 0 && off == 0 && out.Count != int64(len(match)) {
			return fmt.Sprintf("Count = %d, Find returns %d rows", out.Count, len(match))
		}
		return ""
	case "scan1":
		if len(want) > 1 {
			want, wantKeys = want[:1], wantKeys[:1]
		}
	case "scanprim":
		// latitude: the property does not say which row a primitive destination keeps; RowsAffected = rows returned
		if out.Err != "" {
			return "unexpected " + out.Err
		}
		if int(out.RA) != len(want) {
			return fmt.Sprintf("RowsAffected %d, the query returns %d rows", out.RA, len(want))
		}
		if len(want) > 0 {
			// under a non-total ordering (in particular none at all) the LIMIT/OFFSET window may hold any matching row
			cands := want
			if !total {
				cands = match
			}
			ok := false
			for _, c := range cands {
				ok = ok || c.ID == out.Prim
			}
			if !ok {
				return fmt.Sprintf("scanned id %d is not among the rows %v", out.Prim, c15IDs(cands))
			}
		}
		return ""
	}
	// ErrRecordNotFound exactly when a single-record finder matches nothing
	if single {
		if (out.Err == "notfound") != (len(want) == 0) {
			return fmt.Sprintf("ErrRecordNotFound=%v but %d matching row(s) after offset", out.Err == "notfound", len(want))
		}
	} else if out.Err != "" {
		return "unexpected " + out.Err
	}
	if fin != "rows" && int(out.RA) != len(out.IDs) {
		return fmt.Sprintf("RowsAffected %d, rows returned %d", out.RA, len(out.IDs))
	}
	if len(out.IDs) != len(want) {
		return fmt.Sprintf("%d rows returned, want %d %v", len(out.IDs), len(want), wantKeys)
	}
	if total {
		if !reflect.DeepEqual(out.IDs, wantKeys) {
			return fmt.Sprintf("rows %v, want %v", out.IDs, wantKeys)
		}
	} else if fin != "pluck" {
		// ties under the user's ordering: delivered rows must match, be in user order, and nothing that is
		// strictly earlier in that order than a delivered row may be missing (when there is no offset)
		in := map[int]c15Row{}
		for _, r := range match {
			in[r.ID] = r
		}
		seen := map[int]bool{}
		var got []c15Row
		for _, id := range out.IDs {
			r, ok := in[id]
			if !ok || seen[id] {
				return fmt.Sprintf("row %d does not match / repeated (rows %v)", id, out.IDs)
			}
			seen[id] = true
			got = append(got, r)
		}
		if len(ords) > 0 {
			for i := 1; i < len(got); i++ {
				if c15Less(ords, got[i-1], got[i]) > 0 {
					return fmt.Sprintf("rows %v not in the requested order", out.IDs)
				}
			}
			if off == 0 && len(got) > 0 {
				last := got[len(got)-1]
				for _, r := range match {
					if !seen[r.ID] && c15Less(ords, r, last) < 0 {
						return fmt.Sprintf("row %d sorts before delivered row %d but is missing (rows %v)", r.ID, last.ID, out.IDs)
					}
				}
			}
		}
	}
	if fin == "batches" {
		for _, b := range out.Batches {
			if len(b) == 0 || len(b) > st.Batch {
				return fmt.Sprintf("batch of size %d (requested %d)", len(b), st.Batch)
			}
		}
	}
	return ""
}

// ---- generator ------------------------------------------------------------------------------------------

func c15GenRows(rng *rand.Rand, n int) []c15Row {
	rows := make([]c15Row, 0, n)
	perm := rng.Perm(n + 3)
	id := 0
	for i := 0; i < n; i++ {
		id += 1 + rng.Intn(3)
		r := c15Row{ID: id, N: rng.Intn(4), S: c15Strs[rng.Intn(len(c15Strs))], U: perm[i] + 1, K: id / 3}
		if rng.Intn(4) != 0 {
			v := rng.Intn(3)
			r.M = &v
		}
		rows = append(rows, r)
	}
	return rows
}

func c15GenAtom(rng *rand.Rand, rows []c15Row, or bool) c15Atom {
	maxID := 1
	if len(rows) > 0 {
		maxID = rows[len(rows)-1].ID
	}
	a := c15Atom{Or: or}
	switch rng.Intn(9) {
	case 0:
		a.Kind, a.V = "nge", rng.Intn(4)
	case 1:
		a.Kind, a.V = "nne", rng.Intn(4)
	case 2:
		a.Kind = "mnn"
	case 3:
		a.Kind, a.V = "meq", rng.Intn(3)
	case 4:
		a.Kind, a.Str = "smap", c15Strs[rng.Intn(len(c15Strs))]
	case 5:
		a.Kind, a.V = "nstruct", 1+rng.Intn(3)
	case 6:
		a.Kind, a.V = "notn", rng.Intn(4)
	case 7:
		a.Kind = "idin"
		a.IDs = []int{}
		for _, r := range rows {
			if rng.Intn(2) == 0 {
				a.IDs = append(a.IDs, r.ID)
			}
		}
		if len(a.IDs) == 0 {
			a.IDs = []int{maxID + 5}
		}
	default:
		a.Kind, a.V = "idgt", rng.Intn(maxID+1)
	}
	return a
}

var c15OrdCols = []string{"n", "s", "m", "u", "k", "id"}

func c15GenOrds(rng *rand.Rand, n int, monotone bool) []c15Ord {
	var out []c15Ord
	for i := 0; i < n; i++ {
		o := c15Ord{Col: c15OrdCols[rng.Intn(len(c15OrdCols))], Desc: rng.Intn(3) == 0, Expr: rng.Intn(3) == 0}
		if monotone {
			o.Col, o.Desc = []string{"k", "id"}[rng.Intn(2)], false
		}
		out = append(out, o)
	}
	return out
}

func c15GenLims(rng *rand.Rand, maxLen, maxV int) []limCall {
	n := rng.Intn(maxLen + 1)
	var out []limCall
	for i := 0; i < n; i++ {
		v := 1 + rng.Intn(maxV)
		if rng.Intn(5) == 0 {
			v = -1
		}
		k := "limit"
		if rng.Intn(2) == 0 {
			k = "offset"
		}
		out = append(out, limCall{k, v})
	}
	return out
}

var c15Fins = []string{"find", "findptr", "findsmall", "findmap", "scan", "scanmaps", "scan1", "scanprim", "pluck:id", "pluck:n",
	"pluck:m", "pluck:s", "pluck:u", "rows", "count", "countsel:n", "countdist:u", "first", "last", "take", "firstmap", "lastmap", "batches"}
var c15ReuseFrom = []string{"count", "count", "count", "find", "findmap", "findptr", "first", "last", "take", "batches"}
var c15ReuseTo = []string{"find", "find", "findmap", "pluck:id", "pluck:u", "rows", "scan", "first", "last", "take", "count", "batches", "scan1"}

// batchable: FindInBatches is only generated outside the listed findings
func c15Batchable(ch c15Chain) bool {
	if ch.hasOr() {
		return false
	}
	for _, o := range ch.Ords {
		if o.Desc || (o.Col != "k" && o.Col != "id") {
			return false
		}
	}
	return true
}

func c15GenStep(rng *rand.Rand, scn *c15Scn, ch c15Chain, depth int, n int) c15Step {
	st := c15Step{}
	// extra calls: an Order most of the time (two derived chains differ in their LAST order column), sometimes
	// Limit / Offset / one more AND member
	if rng.Intn(4) != 0 {
		st.Extra.Ords = c15GenOrds(rng, 1, false)
		if rng.Intn(2) == 0 {
			st.Extra.Ords[0].Col = []string{"u", "id"}[rng.Intn(2)]
		}
	}
	if rng.Intn(3) == 0 {
		st.Extra.Lims = c15GenLims(rng, 2, n/2+2)
	}
	if rng.Intn(3) == 0 {
		st.Extra.Atoms = []c15Atom{c15GenAtom(rng, scn.Rows, false)}
	}
	full := ch.plus(st.Extra)
	st.Fin = c15Fins[rng.Intn(len(c15Fins))]
	if depth == 0 && rng.Intn(3) == 0 {
		st.Fin = c15ReuseFrom[rng.Intn(len(c15ReuseFrom))]
	}
	if st.Fin == "batches" && c15Facts().ZeroLimitReturn && rng.Intn(5) == 0 {
		// the pattern of F7c (a Limit(0) call; effective LIMIT 0 when the chain carries no other limit) is ordinary
		// input once the tree has the early return
		st.Extra.Lims = []limCall{{"limit", 0}}
		if rng.Intn(2) == 0 {
			st.Extra.Lims = append(st.Extra.Lims, limCall{"offset", rng.Intn(3)})
		}
		full = ch.plus(st.Extra)
	}
	if st.Fin == "batches" {
		if !c15Batchable(full) {
			// drop the extra order; if the base itself is not batchable fall back to Find
			st.Extra.Ords = nil
			full = ch.plus(st.Extra)
			if !c15Batchable(full) {
				st.Fin = "find"
			}
		}
		st.Batch = 1 + rng.Intn(n/2+2)
	}
	if depth == 0 {
		if (st.Fin == "batches" || st.Fin == "rows") && rng.Intn(2) == 0 && scn.Handle != "fresh" {
			k := 1 + rng.Intn(2)
			for i := 0; i < k; i++ {
				ns := c15GenStep(rng, scn, scn.Base, 1, n)
				ns.Nested, ns.Reuse = nil, nil
				st.Nested = append(st.Nested, ns)
			}
		}
		reusable := false
		for _, f := range c15ReuseFrom {
			if f == st.Fin {
				reusable = true
			}
		}
		if reusable && rng.Intn(2) == 0 {
			ru := c15Step{Fin: c15ReuseTo[rng.Intn(len(c15ReuseTo))]}
			singleFrom := st.Fin == "first" || st.Fin == "last" || st.Fin == "take"
			if rng.Intn(2) == 0 {
				ru.Extra.Lims = []limCall{{"limit", 1 + rng.Intn(n/2+2)}}
				if !singleFrom && rng.Intn(2) == 0 {
					ru.Extra.Lims = append(ru.Extra.Lims, limCall{"offset", 1 + rng.Intn(3)})
				}
			}
			if rng.Intn(3) == 0 {
				ru.Extra.Ords = c15GenOrds(rng, 1, false)
			}
			after := full
			if strings.HasPrefix(ru.Fin, "pluck") && st.Fin != "count" {
				ru.Fin = "find" // Pluck on a handle that already carries Find's SELECT clause is outside the property
			}
			if singleFrom && (ru.Fin == "rows" || strings.HasPrefix(ru.Fin, "scan")) {
				// Rows/Scan keep Statement.Dest: the record First/Take/Last filled would add its primary key as a
				// condition (documented gorm behaviour, not a read-path disagreement)
				ru.Fin = "find"
			}
			if ru.Fin == "batches" {
				ru.Extra.Ords = nil
				if singleFrom || !c15Batchable(after.plus(ru.Extra)) {
					ru.Fin = "find"
				}
				ru.Batch = 1 + rng.Intn(n/2+2)
			}
			st.Reuse = &ru
		}
	}
	return st
}

func c15GenScn(rng *rand.Rand, maxN int) *c15Scn {
	n := rng.Intn(maxN + 1)
	scn := &c15Scn{Rows: c15GenRows(rng, n)}
	scn.Handle = []string{"session", "session", "ctx", "fresh"}[rng.Intn(4)]
	na := rng.Intn(5) // 0..4 prior Where merges
	for i := 0; i < na; i++ {
		scn.Base.Atoms = append(scn.Base.Atoms, c15GenAtom(rng, scn.Rows, i > 0 && rng.Intn(3) == 0))
	}
	// 0..4 prior Order merges: the spare capacity of the column slice depends on this count
	scn.Base.Ords = c15GenOrds(rng, rng.Intn(5), rng.Intn(3) == 0)
	if rng.Intn(3) == 0 {
		scn.Base.Lims = c15GenLims(rng, 3, n/2+2)
	}
	scn.Prebuild = scn.Handle != "fresh" && rng.Intn(3) == 0
	ns := 1 + rng.Intn(4)
	for i := 0; i < ns; i++ {
		scn.Steps = append(scn.Steps, c15GenStep(rng, scn, scn.Base, 0, n))
	}
	return scn
}

// ---- Lean side ------------------------------------------------------------------------------------------

func c15LeanChain(rows []c15Row, ch c15Chain) (tbl []int, units, ords []interface{}) {
	tbl = c15IDs(rows)
	units = []interface{}{}
	for _, a := range ch.Atoms {
		ids := []int{}
		for _, r := range rows {
			if a.sat(r) {
				ids = append(ids, r.ID)
			}
		}
		units = append(units, []interface{}{a.Or, ids})
	}
	ords = []interface{}{}
	for _, o := range ch.Ords {
		kv := [][]int{}
		for _, r := range rows {
			kv = append(kv, []int{r.ID, o.rank(r)})
		}
		ords = append(ords, []interface{}{c15Tags[o.Col], o.Desc, kv})
	}
	return
}

type c15Pending struct {
	scn   *c15Scn
	ch    c15Chain
	st    c15Step
	out   *c15Out
	where string
	op    []interface{}
	lenient bool // findings probes: the model may (and must) report an exhausted fuel exactly when the real loop was aborted
}

var c15TagName = map[int]string{0: "id", 1: "n", 2: "s", 3: "m", 4: "u", 5: "k"}

func c15ModelShape(raw interface{}) string {
	m, _ := raw.(map[string]interface{})
	var ords []c15Ord
	if a, ok := m["ord"].([]interface{}); ok {
		for _, e := range a {
			p := e.([]interface{})
			ords = append(ords, c15Ord{Col: c15TagName[int(p[0].(float64))], Desc: p[1].(bool)})
		}
	}
	return c15ShapeOf(ords, m["lim"], m["off"], nil)
}

func c15Floats(v interface{}) []int {
	out := []int{}
	if a, ok := v.([]interface{}); ok {
		for _, x := range a {
			out = append(out, int(x.(float64)))
		}
	}
	return out
}

// compare one executed finisher with the Lean model's answer; returns "" or the difference
func c15Compare(p *c15Pending, ans json.RawMessage) string {
	var m map[string]interface{}
	if err := json.Unmarshal(ans, &m); err != nil {
		return "bad model answer " + string(ans)
	}
	fin := strings.SplitN(p.st.Fin, ":", 2)[0]
	total := c15Total(p.ch.Ords)
	if fin == "countsel" || fin == "countdist" {
		fin = "count" // same query shape and value as Count: the selected column is NOT NULL / unique
	}
	if fin == "batches" {
		mb := [][]int{}
		for _, b := range m["batches"].([]interface{}) {
			mb = append(mb, c15Floats(b))
		}
		if m["pk"].(bool) {
			return "model: pk required"
		}
		if m["fuel"].(bool) != (p.out.Err == "abort") {
			return fmt.Sprintf("model: fuel exhausted = %v, real loop aborted by the bounding callback = %v", m["fuel"], p.out.Err == "abort")
		}
		if !reflect.DeepEqual(mb, p.out.Batches) {
			return fmt.Sprintf("batches real %v model %v", p.out.Batches, mb)
		}
		if int64(m["ra"].(float64)) != p.out.RA {
			return fmt.Sprintf("RowsAffected real %d model %v", p.out.RA, m["ra"])
		}
		var ms []string
		for _, q := range m["queries"].([]interface{}) {
			a := q.([]interface{})
			ords := append(append([]c15Ord{}, p.ch.Ords...), c15Ord{Col: "id"})
			ms = append(ms, c15ShapeOf(ords, a[0], a[1], a[2]))
		}
		if !reflect.DeepEqual(ms, p.out.Shapes) {
			return fmt.Sprintf("query sequence real %v model %v", p.out.Shapes, ms)
		}
		return ""
	}
	key := map[string]string{"find": "find", "findptr": "find", "findsmall": "find", "findmap": "find", "scan": "find",
		"scanmaps": "find", "rows": "find", "pluck": "find", "scan1": "scan1", "scanprim": "find", "count": "count",
		"first": "first", "firstmap": "first", "last": "last", "lastmap": "last", "take": "take"}[fin]
	shapes := m["shape"].(map[string]interface{})
	skey := key
	if key == "scan1" {
		skey = "find"
	}
	want := c15ModelShape(shapes[skey])
	if len(p.out.Shapes) != 1 || p.out.Shapes[0] != want {
		return fmt.Sprintf("query shape real %v model [%s]", p.out.Shapes, want)
	}
	if key == "count" {
		if int64(m["count"].(float64)) != p.out.Count {
			return fmt.Sprintf("count real %d model %v", p.out.Count, m["count"])
		}
		return ""
	}
	o := m[key].(map[string]interface{})
	rows := c15Floats(o["rows"])
	if fin == "scanprim" {
		if int64(o["ra"].(float64)) != p.out.RA || (total && len(rows) > 0 && rows[len(rows)-1] != p.out.Prim) {
			return fmt.Sprintf("Scan(&int): RowsAffected %d value %d, model rows %v", p.out.RA, p.out.Prim, rows)
		}
		return ""
	}
	if o["nf"].(bool) != (p.out.Err == "notfound") {
		return fmt.Sprintf("not-found real %q model %v", p.out.Err, o["nf"])
	}
	if fin != "rows" && int64(o["ra"].(float64)) != p.out.RA {
		return fmt.Sprintf("RowsAffected real %d model %v", p.out.RA, o["ra"])
	}
	if len(rows) != len(p.out.IDs) {
		return fmt.Sprintf("rows real %v model %v", p.out.IDs, rows)
	}
	if fin != "pluck" && (total || key == "first" || key == "last") && !reflect.DeepEqual(rows, p.out.IDs) {
		return fmt.Sprintf("rows real %v model %v", p.out.IDs, rows)
	}
	return ""
}

func c15RunScn(r *Result, scn *c15Scn, pend *[]*c15Pending) {
	w := c15OpenScn(scn)
	w.judge = func(ch c15Chain, st c15Step, out *c15Out, where string) {
		fin := strings.SplitN(st.Fin, ":", 2)[0]
		r.Case("paths", canon([]interface{}{ch, st.Fin, st.Batch, c15IDs(scn.Rows)}), len(scn.Rows) > 1 && (len(ch.Ords) > 0 || len(ch.Atoms) > 0))
		r.H("paths.finisher", fin)
		r.H("paths.where", where[:4])
		r.H("paths.handle", scn.Handle)
		r.H("paths.base.orders", fmt.Sprint(len(scn.Base.Ords)))
		r.H("paths.err", out.Err)
		if msg := c15Judge(scn.Rows, ch, st, out); msg != "" {
			r.Violate(Violation{Kind: "e2e", Suite: "paths", Input: scn, Observed: map[string]interface{}{"at": where, "finisher": st.Fin, "chain": ch, "out": out},
				Expected: msg, Note: "read path disagrees with the in-memory table under the chain's reading"})
		}
		if pend != nil {
			tbl, units, ords := c15LeanChain(scn.Rows, ch)
			p := &c15Pending{scn: scn, ch: ch, st: st, out: out, where: where}
			if fin == "batches" {
				p.op = []interface{}{"batchesW", tbl, units, ords, callsJ(ch.Lims), st.Batch, len(tbl) + 2}
			} else {
				p.op = []interface{}{"paths", tbl, units, ords, callsJ(ch.Lims)}
			}
			*pend = append(*pend, p)
		}
	}
	w.runScn(scn)
}

func init() {
	register("C15", func(r *Result, rng *rand.Rand, tier string) {
		rounds, maxN := 1100, 9
		if tier == "thorough" {
			rounds, maxN = 40000, 16
		} else if tier == "search" {
			rounds, maxN = 12000, 12
		}
		var pend []*c15Pending
		for i := 0; i < rounds && !expired(); i++ {
			scn := c15GenScn(rng, maxN)
			if i%150 == 0 {
				r.Sample(map[string]interface{}{"suite": "paths", "input": scn})
			}
			c15RunScn(r, scn, &pend)
			if len(pend) > 6000 || i == rounds-1 {
				c15Flush(r, &pend)
			}
		}
		c15Flush(r, &pend)
	})
	replayers["C15/paths"] = func(r *Result, input json.RawMessage) {
		var scn c15Scn
		if err := json.Unmarshal(input, &scn); err != nil {
			r.Note("bad replay input: %v", err)
			return
		}
		c15RunScn(r, &scn, nil)
	}
}

func c15Flush(r *Result, pend *[]*c15Pending) {
	if len(*pend) == 0 {
		return
	}
	ops := make([][]interface{}, len(*pend))
	for i, p := range *pend {
		ops[i] = p.op
	}
	outs, err := AskLean(ops)
	if err != nil {
		r.Violate(Violation{Kind: "correspondence", Suite: "paths.shape", Note: err.Error()})
		*pend = nil
		return
	}
	for i, p := range *pend {
		r.CorrCompared++
		if d := c15Compare(p, outs[i]); d != "" {
			r.Violate(Violation{Kind: "correspondence", Suite: "paths.shape", Input: p.scn,
				Observed: map[string]interface{}{"at": p.where, "finisher": p.st.Fin, "chain": p.ch, "out": p.out}, Expected: d,
				Note: "real finisher (rows / RowsAffected / not-found / SQL shape) vs Lean Gorm.Chain.* / findInBatchesW"})
		}
	}
	*pend = nil
}
