package main

// C06, round 5: three families of suites about state that chains of one handle share BEYOND the statement's clause map.
//
//  suite "pre"   — handles that carry state the CALLBACKS read while a chain really executes (Preload with arguments of
//                  every form: scope functions, string + args, map, clause expression, key list, in every order, with and
//                  without spare capacity; clause.Associations; nested relations; relation / raw Joins with bound values;
//                  Select / Omit / Set …).  Several chains are derived from the handle (and from handles derived from it),
//                  built early or late, and EXECUTED on a database with rows, so that preloads really run.  Observable =
//                  every statement the driver receives (main query AND preload queries, values inlined), the loaded
//                  destination incl. associations, error, RowsAffected.  Oracle: the same chain replayed alone (fresh
//                  gorm.Open, only its ancestors built).  Second oracle: deep reflection snapshot of every handle's
//                  statement before the chains = after them.
//  suite "cache" — the schema cache as shared state between chains of one handle tree: the FIRST use of a model goes
//                  through an unusual entry path (Table(x).AutoMigrate / Migrator().CreateTable / HasTable / HasColumn /
//                  ColumnTypes / DropTable, Scopes(table), Statement.ParseWithSpecialTableName, Table(x).Find / Create /
//                  Update / Delete / Count, Association mode, Preload through a relation, DryRun), later chains are plain
//                  (or use another table).  Fresh gorm.Open per trial = fresh cache.  Observable = driver statements,
//                  result, error, the tables existing afterwards + their row counts.  Oracle: the later chain replayed
//                  alone on a fresh Open over the same database state.
//  suite "mid"   — derivations called MID-CHAIN (on a clone-0 instance) or on a handle, with arguments that make them
//                  "no-ops" (WithContext(the context already bound / Background / TODO / the same marker twice),
//                  Session(&Session{}), Session with one flag, Session{Context: same}, Session{Logger: same}, Debug,
//                  Debug twice, Begin) — also from inside a Scopes function.  "Every derivation returns an independent
//                  handle": chains A and B started from the result, in five build/execute schedules, and the bare result
//                  itself, equal their replay alone.
// Latitudes: none — every chain starts from a reusable handle and is finished at most once, both runs see equal data.
// Not generated: Session{Initialized: true} (gorm's internal flag: the result keeps clone 0, it is no reusable handle);
// AutoMigrate / CreateTable / DropTable of the two RELATED models as later chains (parsing the parent registers its
// constraint on the child's cached schema by design, the migrator then visits the parent too).

import (
	"context"
	"encoding/json"
	"fmt"
	"math/rand"
	"sort"
	"strings"

	"gorm.io/driver/sqlite"
	"gorm.io/gorm"
	"gorm.io/gorm/clause"
	"gorm.io/gorm/logger"
)

func c06zEvents(db *gorm.DB, evs []Event) []string {
	var out []string
	for _, e := range evs {
		kind := e.Kind
		switch kind {
		case "stmt_query":
			kind = "query"
		case "stmt_exec":
			kind = "exec"
		case "prepare", "stmt_close":
			continue
		}
		q := e.SQL
		if len(e.Args) > 0 {
			q = db.Dialector.Explain(e.SQL, e.Args...)
		}
		out = append(out, kind+" "+q)
	}
	return out
}

func c06zJSON(v interface{}) string {
	b, err := json.Marshal(v)
	if err != nil {
		return "json:" + err.Error()
	}
	return string(b)
}

func c06zOpen(w *c06aWorld, cfg int, dry bool) *gorm.DB {
	db, err := gorm.Open(sqlite.Dialector{Conn: w.sqlDB}, &gorm.Config{Logger: logger.Discard, NowFunc: fixedNowFunc,
		SkipDefaultTransaction: cfg&1 != 0, QueryFields: cfg&2 != 0, PropagateUnscoped: cfg&4 != 0, DryRun: dry})
	if err != nil {
		panic(err)
	}
	return db
}

// ======================================================================================================
// suite "pre"
// ======================================================================================================

type c06pArg struct {
	K string `json:"k"`
	N int    `json:"n,omitempty"`
}

type c06pOp struct {
	K     string    `json:"k"`
	N     int       `json:"n,omitempty"`
	Rel   string    `json:"rel,omitempty"`
	Args  []c06pArg `json:"args,omitempty"`
	Spare int       `json:"spare,omitempty"`
}

type c06pHandle struct {
	Src    int      `json:"src"`
	Ops    []c06pOp `json:"ops"`
	Derive string   `json:"derive"`
}

type c06pChain struct {
	H    int      `json:"h"`
	Ops  []c06pOp `json:"ops"`
	Fin  int      `json:"fin"`
	Late bool     `json:"late,omitempty"`
}

type c06pHist struct {
	Cfg     int          `json:"cfg"`
	Base    int          `json:"base"` // 0 users, 1 pets
	Handles []c06pHandle `json:"handles"`
	Chains  []c06pChain  `json:"chains"`
}

const c06pAssoc = "*associations*"

var c06pRels = [][]string{
	{"Pets", "Account", "Pets.Owner", c06pAssoc, "Pets"},
	{"Owner", "Owner.Pets", "Owner.Account", c06pAssoc, "Owner"},
}

var c06pFnKinds = []string{"fnorder", "fnwhere", "fnunscoped"}
var c06pCondKinds = []string{"str0", "str1", "str2", "map", "expr", "ints"}
var c06pFinNames = []string{"Find", "First", "Find[]*", "Find+inline", "Take", "Last", "DryRun.Find", "abandoned", "FindInBatches", "Count", "First+key"}

func c06pArgs(items []c06pArg, spare int) []interface{} {
	var out []interface{}
	for _, it := range items {
		n := it.N
		switch it.K {
		case "fnorder":
			out = append(out, func(d *gorm.DB) *gorm.DB { return d.Order("id desc") })
		case "fnwhere":
			out = append(out, func(d *gorm.DB) *gorm.DB { return d.Where("id <> ?", 1+n%7) })
		case "fnunscoped":
			out = append(out, func(d *gorm.DB) *gorm.DB { return d.Unscoped() })
		case "str0":
			out = append(out, "id > 0")
		case "str1":
			out = append(out, "id <> ?", 1+n%7)
		case "str2":
			out = append(out, "id > ? AND id < ?", 0, 90+n%7)
		case "map":
			out = append(out, map[string]interface{}{"id": []int{1, 2, 3, 4, 5, 6, 7}[:3+n%5]})
		case "expr":
			out = append(out, clause.Neq{Column: "id", Value: 1 + n%7})
		case "ints":
			out = append(out, []int{1, 2, 3, 1 + n%7})
		default:
			panic("c06p: unknown preload argument " + it.K)
		}
	}
	buf := make([]interface{}, len(out), len(out)+spare)
	copy(buf, out)
	for i := 0; i < spare; i++ { // the caller's own data behind the arguments
		buf = append(buf, "spare")
	}
	return buf[:len(out)]
}

func (o c06pOp) String() string {
	switch o.K {
	case "preload":
		var as []string
		for _, a := range o.Args {
			as = append(as, a.K)
		}
		s := fmt.Sprintf("Preload(%s; %s)", o.Rel, strings.Join(as, ","))
		if o.Spare > 0 {
			s += fmt.Sprintf("[cap+%d]", o.Spare)
		}
		return s
	}
	return c06aOp{K: o.K, N: o.N}.String()
}

func c06pTable(base int) string {
	if base == 0 {
		return "c06a_users"
	}
	return "c06a_pets"
}

func c06pApply(t *gorm.DB, o c06pOp, base int) *gorm.DB {
	switch o.K {
	case "preload":
		rel := o.Rel
		if rel == c06pAssoc {
			rel = clause.Associations
		}
		return t.Preload(rel, c06pArgs(o.Args, o.Spare)...)
	case "joinrel":
		rel := []string{"Account", "Owner"}[base]
		if o.N%2 == 1 {
			return t.InnerJoins(rel)
		}
		return t.Joins(rel)
	case "joinraw":
		tb := c06pTable(base)
		if base == 0 {
			return t.Joins("JOIN c06a_accts ja ON ja.user_id = "+tb+".id AND ja.id <> ?", 90+o.N%5)
		}
		return t.Joins("JOIN c06a_users ju ON ju.id = "+tb+".user_id AND ju.age > ?", 20+o.N%3)
	case "select2":
		tb := c06pTable(base)
		if base == 0 {
			return t.Select(tb+".id", tb+".name")
		}
		return t.Select(tb+".id", tb+".user_id", tb+".name")
	case "mapcols": // a renamed result column reaches its field only through Statement.ColumnMapping
		tb := c06pTable(base)
		if base == 0 {
			return t.Select(tb+".id", tb+".name AS nm").MapColumns(map[string]string{"nm": "name"})
		}
		return t.Select(tb+".id", tb+".user_id", tb+".name AS nm").MapColumns(map[string]string{"nm": "name"})
	case "set":
		return t.Set(fmt.Sprint("c06p:k", o.N%2), o.N)
	case "iset":
		return t.InstanceSet("c06p:i", o.N)
	case "model":
		if base == 0 {
			return t.Model(&C06AUser{})
		}
		return t.Model(&C06APet{})
	case "where":
		tb := c06pTable(base)
		switch o.N % 4 {
		case 0:
			return t.Where(tb+".id > ?", o.N%3)
		case 1:
			return t.Where(tb+".id IN ?", []int{1, 2, 3, 4, 5})
		case 2:
			return t.Where(map[string]interface{}{"id": []int{1, 2, 3, 4}})
		default:
			return t.Where(tb+".id <> ? AND "+tb+".id < ?", 90+o.N%5, 100)
		}
	case "or":
		return t.Or(c06pTable(base)+".id = ?", 1+o.N%5)
	case "not":
		return t.Not(c06pTable(base)+".id = ?", 90+o.N%5)
	case "scope":
		tb := c06pTable(base)
		return t.Scopes(func(d *gorm.DB) *gorm.DB { return d.Where(tb+".id >= ?", o.N%2) })
	case "order":
		return t.Order(c06pTable(base) + []string{".id desc", ".id", ".name desc"}[o.N%3])
	case "limit":
		return t.Limit(3 + o.N%3)
	case "unscoped":
		return t.Unscoped()
	}
	panic("c06p: unknown op " + o.K)
}

func (h c06pHist) Desc() string {
	var p []string
	for i, x := range h.Handles {
		var ops []string
		for _, o := range x.Ops {
			ops = append(ops, o.String())
		}
		src := "root"
		if x.Src >= 0 {
			src = fmt.Sprint("h", x.Src)
		}
		p = append(p, fmt.Sprintf("h%d := %s.%s.%s()", i, src, strings.Join(ops, "."), x.Derive))
	}
	for i, c := range h.Chains {
		var ops []string
		for _, o := range c.Ops {
			ops = append(ops, o.String())
		}
		late := ""
		if c.Late {
			late = " (built now, finished at the end)"
		}
		p = append(p, fmt.Sprintf("c%d := h%d.%s.%s%s", i, c.H, strings.Join(ops, "."), c06pFinNames[c.Fin%len(c06pFinNames)], late))
	}
	return fmt.Sprintf("cfg=%d base=%s: ", h.Cfg, c06pTable(h.Base)) + strings.Join(p, "; ")
}

// finish one chain and observe it
func c06pFinish(w *c06aWorld, t *gorm.DB, base, fin int) (obs string) {
	defer func() {
		if p := recover(); p != nil {
			obs = "panic:" + c06HexRe.ReplaceAllString(fmt.Sprint(p), "PTR")
		}
		w.rec.Off = true
	}()
	w.rec.Reset()
	w.rec.Off = false
	var res *gorm.DB
	var out interface{}
	fin = fin % len(c06pFinNames)
	if base == 0 {
		var us []C06AUser
		var ups []*C06AUser
		var u C06AUser
		switch fin {
		case 0:
			res, out = t.Find(&us), &us
		case 1:
			res, out = t.First(&u), &u
		case 2:
			res, out = t.Find(&ups), &ups
		case 3:
			res, out = t.Find(&us, "c06a_users.id > ?", 1), &us
		case 4:
			res, out = t.Take(&u), &u
		case 5:
			res, out = t.Last(&u), &u
		case 6:
			res = t.Session(&gorm.Session{DryRun: true}).Find(&us)
			out = res.Statement.SQL.String() + " " + strings.Join(normArgs(res.Statement.Vars), ",")
		case 8:
			var all [][]C06AUser
			n := 0
			res = t.FindInBatches(&us, 2, func(tx *gorm.DB, batch int) error {
				n++
				if n > 6 {
					return fmt.Errorf("too many batches")
				}
				all = append(all, append([]C06AUser(nil), us...))
				return nil
			})
			out = all
		case 9:
			var n int64
			res, out = t.Count(&n), &n
		default:
			res, out = t.First(&u, 2), &u
		}
	} else {
		var ps []C06APet
		var pps []*C06APet
		var p C06APet
		switch fin {
		case 0:
			res, out = t.Find(&ps), &ps
		case 1:
			res, out = t.First(&p), &p
		case 2:
			res, out = t.Find(&pps), &pps
		case 3:
			res, out = t.Find(&ps, "c06a_pets.id > ?", 1), &ps
		case 4:
			res, out = t.Take(&p), &p
		case 5:
			res, out = t.Last(&p), &p
		case 6:
			res = t.Session(&gorm.Session{DryRun: true}).Find(&ps)
			out = res.Statement.SQL.String() + " " + strings.Join(normArgs(res.Statement.Vars), ",")
		case 8:
			var all [][]C06APet
			n := 0
			res = t.FindInBatches(&ps, 3, func(tx *gorm.DB, batch int) error {
				n++
				if n > 6 {
					return fmt.Errorf("too many batches")
				}
				all = append(all, append([]C06APet(nil), ps...))
				return nil
			})
			out = all
		case 9:
			var n int64
			res, out = t.Count(&n), &n
		default:
			res, out = t.First(&p, 2), &p
		}
	}
	w.rec.Off = true
	evs := c06zEvents(t, w.rec.Snapshot())
	return strings.Join(evs, " ;; ") + " || dest=" + c06zJSON(out) + " err=" + c06aErr(res.Error) + fmt.Sprint(" n=", res.RowsAffected)
}

type c06pRun struct {
	Obs      []string // per chain ("" = not finished)
	SnapDiff []string
	Detail   string
}

// only < 0: the whole history; otherwise only chain `only` and the handles it descends from
func c06pExec(w *c06aWorld, h c06pHist, only int) (run c06pRun) {
	root := c06zOpen(w, h.Cfg, false)
	need := make([]bool, len(h.Handles))
	if only >= 0 {
		for i := h.Chains[only].H; i >= 0 && i < len(h.Handles); i = h.Handles[i].Src {
			need[i] = true
			if h.Handles[i].Src >= i {
				break
			}
		}
	}
	hs := make([]*gorm.DB, len(h.Handles))
	for i, x := range h.Handles {
		if only >= 0 && !need[i] {
			continue
		}
		t := root
		if x.Src >= 0 && x.Src < i && hs[x.Src] != nil {
			t = hs[x.Src]
		}
		for _, o := range x.Ops {
			t = c06pApply(t, o, h.Base)
		}
		hs[i] = c06aDerive(t, x.Derive, i)
	}
	snap := func() []map[string]string {
		s := make([]map[string]string, len(hs))
		for i, x := range hs {
			if x != nil {
				s[i] = c06aSnapshot(x)
			}
		}
		return s
	}
	before := snap()
	run.Obs = make([]string, len(h.Chains))
	built := make([]*gorm.DB, len(h.Chains))
	for i, c := range h.Chains {
		if only >= 0 && i != only {
			continue
		}
		if c.H >= len(hs) || hs[c.H] == nil {
			continue
		}
		t := hs[c.H]
		for _, o := range c.Ops {
			t = c06pApply(t, o, h.Base)
		}
		if c.Fin%len(c06pFinNames) == 7 {
			continue // abandoned
		}
		if c.Late {
			built[i] = t
			continue
		}
		run.Obs[i] = c06pFinish(w, t, h.Base, c.Fin)
	}
	for i, c := range h.Chains {
		if built[i] != nil {
			run.Obs[i] = c06pFinish(w, built[i], h.Base, c.Fin)
		}
	}
	after := snap()
	for i := range hs {
		if hs[i] == nil {
			continue
		}
		for _, d := range c06aSnapDiff(before[i], after[i]) {
			run.SnapDiff = append(run.SnapDiff, fmt.Sprintf("h%d.%s", i, d))
			if run.Detail == "" {
				run.Detail = fmt.Sprintf("h%d.%s: %s  →  %s", i, d, c06aClip(before[i][d]), c06aClip(after[i][d]))
			}
		}
	}
	return run
}

type c06pVerdict struct {
	Bad      int
	In, Al   string
	SnapDiff []string
	Detail   string
}

func c06pJudge(w *c06aWorld, h c06pHist) c06pVerdict {
	full := c06pExec(w, h, -1)
	v := c06pVerdict{Bad: -1, SnapDiff: full.SnapDiff, Detail: full.Detail}
	for i := range h.Chains {
		if full.Obs[i] == "" {
			continue
		}
		alone := c06pExec(w, h, i)
		if alone.Obs[i] != full.Obs[i] {
			v.Bad, v.In, v.Al = i, full.Obs[i], alone.Obs[i]
			break
		}
	}
	return v
}

func (v c06pVerdict) bad() bool { return v.Bad >= 0 || len(v.SnapDiff) > 0 }

func c06pShrink(w *c06aWorld, h c06pHist, still func(c06pVerdict) bool) c06pHist {
	cur := h
	try := func(c c06pHist) bool {
		if still(c06pJudge(w, c)) {
			cur = c
			return true
		}
		return false
	}
	for changed, rounds := true, 0; changed && rounds < 6; rounds++ {
		changed = false
		for i := len(cur.Chains) - 1; i >= 0 && len(cur.Chains) > 1; i-- {
			if i >= len(cur.Chains) {
				continue
			}
			c := cur
			c.Chains = append(append([]c06pChain(nil), cur.Chains[:i]...), cur.Chains[i+1:]...)
			changed = try(c) || changed
		}
		for ci := range cur.Chains {
			for i := len(cur.Chains[ci].Ops) - 1; i >= 0; i-- {
				if i >= len(cur.Chains[ci].Ops) {
					continue
				}
				c := cur
				c.Chains = append([]c06pChain(nil), cur.Chains...)
				x := c.Chains[ci]
				x.Ops = append(append([]c06pOp(nil), x.Ops[:i]...), x.Ops[i+1:]...)
				c.Chains[ci] = x
				changed = try(c) || changed
			}
			if cur.Chains[ci].Late {
				c := cur
				c.Chains = append([]c06pChain(nil), cur.Chains...)
				c.Chains[ci].Late = false
				changed = try(c) || changed
			}
		}
		for hi := range cur.Handles {
			for i := len(cur.Handles[hi].Ops) - 1; i >= 0; i-- {
				if i >= len(cur.Handles[hi].Ops) {
					continue
				}
				c := cur
				c.Handles = append([]c06pHandle(nil), cur.Handles...)
				x := c.Handles[hi]
				x.Ops = append(append([]c06pOp(nil), x.Ops[:i]...), x.Ops[i+1:]...)
				c.Handles[hi] = x
				changed = try(c) || changed
			}
		}
		if cur.Cfg != 0 {
			c := cur
			c.Cfg = 0
			changed = try(c) || changed
		}
	}
	return cur
}

func c06pReport(r *Result, w *c06aWorld, h c06pHist, v c06pVerdict) {
	if v.Bad >= 0 {
		min := c06pShrink(w, h, func(x c06pVerdict) bool { return x.Bad >= 0 })
		mv := c06pJudge(w, min)
		r.Violate(Violation{Kind: "e2e", Suite: "pre", Input: min, Observed: fmt.Sprintf("chain c%d: %s", mv.Bad, mv.In), Expected: mv.Al,
			Note: "a chain EXECUTED from a shared handle (driver statements incl. preload queries, loaded associations) differs from the same chain replayed alone; " + mv.Detail + "; history: " + min.Desc()})
		return
	}
	min := c06pShrink(w, h, func(x c06pVerdict) bool { return len(x.SnapDiff) > 0 })
	mv := c06pJudge(w, min)
	r.Violate(Violation{Kind: "correspondence", Suite: "pretie", Input: min, Observed: mv.SnapDiff, Expected: "no field of any handle's statement differs after chains derived from it were executed",
		Note: "executing a chain wrote into the statement of the handle it was derived from (deep reflection snapshot; no generated chain shows it): " + mv.Detail + "; history: " + min.Desc()})
}

func c06pGenArgs(rng *rand.Rand) []c06pArg {
	var items []c06pArg
	for n := rng.Intn(3); n > 0; n-- {
		items = append(items, c06pArg{K: c06pFnKinds[rng.Intn(len(c06pFnKinds))], N: rng.Intn(20)})
	}
	if rng.Intn(4) != 0 {
		items = append(items, c06pArg{K: c06pCondKinds[rng.Intn(len(c06pCondKinds))], N: rng.Intn(20)})
	}
	rng.Shuffle(len(items), func(i, j int) { items[i], items[j] = items[j], items[i] })
	return items
}

func c06pGenOps(rng *rand.Rand, n int, base int, pPre int) []c06pOp {
	var ops []c06pOp
	kinds := []string{"where", "where", "or", "not", "scope", "order", "limit", "unscoped", "joinrel", "joinraw", "select2", "set", "iset", "model", "mapcols"}
	for i := 0; i < n; i++ {
		if rng.Intn(100) < pPre {
			o := c06pOp{K: "preload", Rel: c06pRels[base][rng.Intn(len(c06pRels[base]))], Args: c06pGenArgs(rng)}
			if rng.Intn(4) == 0 {
				o.Spare = 1 + rng.Intn(3)
			}
			ops = append(ops, o)
			continue
		}
		ops = append(ops, c06pOp{K: kinds[rng.Intn(len(kinds))], N: rng.Intn(40)})
	}
	return ops
}

func c06pGenerate(rng *rand.Rand) c06pHist {
	h := c06pHist{Cfg: rng.Intn(8), Base: rng.Intn(3) / 2}
	derives := []string{"session", "ctx", "debug", "skiphooks", "qf", "sessctx"}
	nh := 1 + rng.Intn(2)
	for i := 0; i < nh; i++ {
		x := c06pHandle{Src: -1, Derive: derives[rng.Intn(len(derives))]}
		if i > 0 && rng.Intn(4) != 0 {
			x.Src = rng.Intn(i)
		}
		x.Ops = c06pGenOps(rng, 1+rng.Intn(3), h.Base, 60)
		h.Handles = append(h.Handles, x)
	}
	nc := 2 + rng.Intn(3)
	for i := 0; i < nc; i++ {
		c := c06pChain{H: rng.Intn(nh), Late: rng.Intn(4) == 0}
		c.Ops = c06pGenOps(rng, rng.Intn(3), h.Base, 25)
		switch x := rng.Intn(20); {
		case x < 8:
			c.Fin = 0
		case x < 10:
			c.Fin = 1
		default:
			c.Fin = rng.Intn(len(c06pFinNames))
		}
		h.Chains = append(h.Chains, c)
	}
	return h
}

func c06pStats(r *Result, h c06pHist, v c06pRun) {
	for _, x := range h.Handles {
		for _, o := range x.Ops {
			r.H("pre_handle_op", o.K)
			if o.K == "preload" {
				var ks []string
				fnFirst, sawFn := false, false
				for _, a := range o.Args {
					ks = append(ks, a.K)
					if strings.HasPrefix(a.K, "fn") {
						sawFn = true
					} else if sawFn {
						fnFirst = true
					}
				}
				if len(ks) == 0 {
					ks = []string{"none"}
				}
				r.H("pre_preload_args", strings.Join(ks, "+"))
				r.H("pre_preload_rel", o.Rel)
				if fnFirst {
					r.H("pre_preload_shape", "function before condition")
				}
				if o.Spare > 0 {
					r.H("pre_preload_shape", "spare capacity")
				}
			}
		}
	}
	for i, c := range h.Chains {
		r.H("pre_finisher", c06pFinNames[c.Fin%len(c06pFinNames)])
		if c.Late {
			r.H("pre_timing", "built early, finished late")
		}
		if i < len(v.Obs) && strings.Count(v.Obs[i], " ;; ") >= 1 {
			r.H("pre_preload_ran", fmt.Sprint(min(strings.Count(v.Obs[i], " ;; "), 4), "+ extra statements"))
		}
	}
}

func c06pSuite(r *Result, rng *rand.Rand, rounds int) {
	w := c06aOpenWorld()
	defer w.close()
	for i := 0; i < rounds && !expired(); i++ {
		h := c06pGenerate(rng)
		v := c06pJudge(w, h)
		c06pStats(r, h, c06pExec(w, h, -1))
		fin := 0
		for _, c := range h.Chains {
			if c.Fin%len(c06pFinNames) != 7 {
				fin++
			}
		}
		r.Case("pre", canon(h), fin >= 2)
		if v.bad() {
			c06pReport(r, w, h, v)
			return
		}
		if i%97 == 0 {
			r.Sample(map[string]interface{}{"pre_history": h.Desc()})
		}
	}
}

// ======================================================================================================
// suite "mid"
// ======================================================================================================

type c06mHist struct {
	Cfg   int      `json:"cfg"` // bits 0–2 as c06a; bit 3: DryRun configured at Open (renderings) instead of real execution
	M     int      `json:"m"`   // model of the handle: 0 acct, 1 pet, 2 user
	H0    []c06aOp `json:"h0"`
	D0    string   `json:"d0"` // "" = the Open handle itself after Model(..) — then H0 must be empty
	C     []c06aOp `json:"c"`  // chain ops in front of the derivation (empty = the derivation is called on the handle)
	D     []string `json:"d"`  // the derivation(s) under test
	A     []c06aOp `json:"a"`
	B     []c06aOp `json:"b"`
	Sched int      `json:"sched"`
	Fin   int      `json:"fin"`
}

var c06mDerivs = []string{"ctxsame", "ctxbg", "ctxtodo", "ctxnew", "ctxtwice", "sess0", "sessctxsame", "sesslogger", "sessnow",
	"sess:SkipHooks", "sess:QueryFields", "sess:AllowGlobalUpdate", "sess:FullSaveAssociations", "sess:SkipDefaultTransaction",
	"sess:NewDB", "sess:DryRun", "sess:PrepareStmt", "sess:CreateBatchSize", "sess:DisableNestedTransaction", "debug", "debug2", "begin"}

// schedules over: bA bB (build), xA xB (finish), xR (finish the bare result), aA (A stays abandoned)
var c06mScheds = [][]string{
	{"bA", "xA", "bB", "xB", "xR"},
	{"bA", "bB", "xA", "xB", "xR"},
	{"bA", "bB", "xB", "xA", "xR"},
	{"xR", "bA", "bB", "xB", "xA"},
	{"bA", "bB", "xB", "xR"},
}

func c06mDerive(t *gorm.DB, d string, i int) (out *gorm.DB, tx *gorm.DB) {
	switch d {
	case "ctxsame":
		return t.WithContext(t.Statement.Context), nil
	case "ctxbg":
		return t.WithContext(context.Background()), nil
	case "ctxtodo":
		return t.WithContext(context.TODO()), nil
	case "ctxnew":
		return t.WithContext(context.WithValue(context.Background(), c06aCtxKey{}, 100+i)), nil
	case "ctxtwice":
		c := context.WithValue(context.Background(), c06aCtxKey{}, 200+i)
		return t.WithContext(c).WithContext(c), nil
	case "sess0":
		return t.Session(&gorm.Session{}), nil
	case "sessctxsame":
		return t.Session(&gorm.Session{Context: t.Statement.Context}), nil
	case "sesslogger":
		return t.Session(&gorm.Session{Logger: t.Logger}), nil
	case "sessnow":
		return t.Session(&gorm.Session{NowFunc: fixedNowFunc}), nil
	case "debug": // the handles log to logger.Discard: Debug() prints nothing
		return t.Debug(), nil
	case "debug2":
		return t.Debug().Debug(), nil
	case "begin":
		b := t.Begin()
		return b, b
	}
	if strings.HasPrefix(d, "sess:") {
		s := &gorm.Session{}
		switch d[5:] {
		case "SkipHooks":
			s.SkipHooks = true
		case "QueryFields":
			s.QueryFields = true
		case "AllowGlobalUpdate":
			s.AllowGlobalUpdate = true
		case "FullSaveAssociations":
			s.FullSaveAssociations = true
		case "SkipDefaultTransaction":
			s.SkipDefaultTransaction = true
		case "NewDB":
			s.NewDB = true
		case "DryRun":
			s.DryRun = true
		case "PrepareStmt":
			s.PrepareStmt = true
		case "CreateBatchSize":
			s.CreateBatchSize = 7
		case "DisableNestedTransaction":
			s.DisableNestedTransaction = true
		}
		return t.Session(s), nil
	}
	panic("c06m: unknown derivation " + d)
}

// chain ops of suite mid: those of c06aApply plus same-value Model / Table, a Debug()-free "debugreal" is avoided (it
// prints); "scopederive": a Scopes function that derives a handle from the chain it is given, starts one chain from it
// that it abandons and returns another one
func c06mApply(t *gorm.DB, o c06aOp, m int, table string) *gorm.DB {
	switch o.K {
	case "modelsame":
		return t.Model([]interface{}{&C06AAcct{}, &C06APet{}, &C06AUser{}}[m%3])
	case "tablesame":
		return t.Table(table)
	case "scopederive":
		d := c06mDerivs[o.N%(len(c06mDerivs)-1)] // never Begin inside a scope
		col := c06aKeyCol(table)
		return t.Scopes(func(x *gorm.DB) *gorm.DB {
			s, _ := c06mDerive(x, d, o.N)
			s.Where(col+" = ?", 77) // abandoned sibling
			return s.Where("id < ?", 1000+o.N)
		})
	}
	return c06aApply(t, o, table)
}

func (h c06mHist) Desc() string {
	str := func(ops []c06aOp) string {
		var s []string
		for _, o := range ops {
			s = append(s, o.String())
		}
		return strings.Join(s, ".")
	}
	fin := []string{"Find", "Count", "First"}[h.Fin%3]
	return fmt.Sprintf("cfg=%d h0 := root.Model(&%s{}).%s.%s(); c := h0.%s; r := c.%s; A := r.%s; B := r.%s; schedule %v; finisher %s",
		h.Cfg, c06aModelNames[h.M%3], str(h.H0), h.D0, str(h.C), strings.Join(h.D, "."), str(h.A), str(h.B), c06mScheds[h.Sched%len(c06mScheds)], fin)
}

func c06mFinish(w *c06aWorld, t *gorm.DB, fin int, dry bool) (obs string) {
	defer func() {
		if p := recover(); p != nil {
			obs = "panic:" + c06HexRe.ReplaceAllString(fmt.Sprint(p), "PTR")
		}
		w.rec.Off = true
	}()
	w.rec.Reset()
	w.rec.Off = false
	var rows c06aRows
	var res *gorm.DB
	out := ""
	switch fin % 3 {
	case 0:
		res = t.Find(&rows)
		out = c06aCanonRows(rows)
	case 1:
		var n int64
		res = t.Count(&n)
		out = fmt.Sprint(n)
	default:
		row := map[string]interface{}{}
		res = t.Order("id").Limit(1).Find(&row)
		out = c06zJSON(row)
	}
	w.rec.Off = true
	evs := c06zEvents(t, w.rec.Snapshot())
	s := "sql=" + res.Statement.SQL.String() + " vars=" + strings.Join(normArgs(res.Statement.Vars), ",")
	if !dry {
		s = strings.Join(evs, " ;; ") + " rows=" + out
	}
	return s + " err=" + c06aErr(res.Error) + fmt.Sprint(" n=", res.RowsAffected)
}

// only: "" = the whole schedule; "A" / "B" / "R" = that chain alone
func c06mExec(w *c06aWorld, h c06mHist, only string) (obs map[string]string, snapDiff []string, detail string) {
	obs = map[string]string{}
	dry := h.Cfg&8 != 0
	root := c06zOpen(w, h.Cfg&7, dry)
	table := []string{"c06a_accts", "c06a_pets", "c06a_users"}[h.M%3]
	t := root.Model([]interface{}{&C06AAcct{}, &C06APet{}, &C06AUser{}}[h.M%3])
	for _, o := range h.H0 {
		t = c06mApply(t, o, h.M, table)
	}
	h0 := t
	if h.D0 != "" {
		h0 = c06aDerive(t, h.D0, 0)
	} else {
		h0 = t.Session(&gorm.Session{})
	}
	c := h0
	for _, o := range h.C {
		c = c06mApply(c, o, h.M, table)
	}
	r := c
	var txs []*gorm.DB
	defer func() {
		for _, x := range txs {
			x.Rollback()
		}
	}()
	for i, d := range h.D {
		var tx *gorm.DB
		r, tx = c06mDerive(r, d, i)
		if tx != nil {
			txs = append(txs, tx)
		}
	}
	before := c06aSnapshot(r)
	h0before := c06aSnapshot(h0)
	var a, b *gorm.DB
	build := func(ops []c06aOp) *gorm.DB {
		x := r
		for _, o := range ops {
			x = c06mApply(x, o, h.M, table)
		}
		if len(ops) == 0 {
			x = r.Where("id >= ?", 0)
		}
		return x
	}
	for _, step := range c06mScheds[h.Sched%len(c06mScheds)] {
		if only != "" && step[1:] != only {
			continue
		}
		switch step {
		case "bA":
			a = build(h.A)
		case "bB":
			b = build(h.B)
		case "xA":
			obs["A"] = c06mFinish(w, a, h.Fin, dry)
		case "xB":
			obs["B"] = c06mFinish(w, b, h.Fin, dry)
		case "xR":
			obs["R"] = c06mFinish(w, r, h.Fin, dry)
		}
	}
	// R was finished from r itself: when r is a reusable handle its statement stays as it was
	after := c06aSnapshot(r)
	for _, d := range c06aSnapDiff(before, after) {
		snapDiff = append(snapDiff, "r."+d)
		if detail == "" {
			detail = fmt.Sprintf("r.%s: %s  →  %s", d, c06aClip(before[d]), c06aClip(after[d]))
		}
	}
	h0after := c06aSnapshot(h0)
	for _, d := range c06aSnapDiff(h0before, h0after) {
		snapDiff = append(snapDiff, "h0."+d)
		if detail == "" {
			detail = fmt.Sprintf("h0.%s: %s  →  %s", d, c06aClip(h0before[d]), c06aClip(h0after[d]))
		}
	}
	return obs, snapDiff, detail
}

type c06mVerdict struct {
	Bad      string
	In, Al   string
	SnapDiff []string
	Detail   string
}

func c06mJudge(w *c06aWorld, h c06mHist) c06mVerdict {
	full, sd, detail := c06mExec(w, h, "")
	v := c06mVerdict{SnapDiff: sd, Detail: detail}
	for _, k := range []string{"A", "B", "R"} {
		if _, ok := full[k]; !ok {
			continue
		}
		alone, _, _ := c06mExec(w, h, k)
		if alone[k] != full[k] {
			v.Bad, v.In, v.Al = k, full[k], alone[k]
			break
		}
	}
	return v
}

func (v c06mVerdict) bad() bool { return v.Bad != "" || len(v.SnapDiff) > 0 }

func c06mCut(ops []c06aOp, i int) []c06aOp {
	return append(append([]c06aOp(nil), ops[:i]...), ops[i+1:]...)
}

func c06mShrink(w *c06aWorld, h c06mHist, still func(c06mVerdict) bool) c06mHist {
	cur := h
	try := func(c c06mHist) bool {
		if still(c06mJudge(w, c)) {
			cur = c
			return true
		}
		return false
	}
	for changed, rounds := true, 0; changed && rounds < 6; rounds++ {
		changed = false
		for i := len(cur.H0) - 1; i >= 0; i-- {
			c := cur
			c.H0 = c06mCut(cur.H0, i)
			changed = try(c) || changed
		}
		for i := len(cur.C) - 1; i >= 0 && len(cur.C) > 1; i-- {
			if i >= len(cur.C) {
				continue
			}
			c := cur
			c.C = c06mCut(cur.C, i)
			changed = try(c) || changed
		}
		for i := len(cur.A) - 1; i >= 0 && len(cur.A) > 1; i-- {
			if i >= len(cur.A) {
				continue
			}
			c := cur
			c.A = c06mCut(cur.A, i)
			changed = try(c) || changed
		}
		for i := len(cur.B) - 1; i >= 0 && len(cur.B) > 1; i-- {
			if i >= len(cur.B) {
				continue
			}
			c := cur
			c.B = c06mCut(cur.B, i)
			changed = try(c) || changed
		}
		if len(cur.D) > 1 {
			for i := range cur.D {
				c := cur
				c.D = append(append([]string(nil), cur.D[:i]...), cur.D[i+1:]...)
				if try(c) {
					changed = true
					break
				}
			}
		}
		if cur.Cfg != 0 {
			c := cur
			c.Cfg = cur.Cfg & 8
			if c.Cfg != cur.Cfg {
				changed = try(c) || changed
			}
		}
	}
	return cur
}

func c06mReport(r *Result, w *c06aWorld, h c06mHist, v c06mVerdict) {
	if v.Bad != "" {
		min := c06mShrink(w, h, func(x c06mVerdict) bool { return x.Bad != "" })
		mv := c06mJudge(w, min)
		r.Violate(Violation{Kind: "e2e", Suite: "mid", Input: min, Observed: fmt.Sprintf("chain %s: %s", mv.Bad, mv.In), Expected: mv.Al,
			Note: "the value returned by a derivation (Session / WithContext / Debug / Begin) is not an independent handle: a chain started from it differs from the same chain replayed alone; " + mv.Detail + "; history: " + min.Desc()})
		return
	}
	min := c06mShrink(w, h, func(x c06mVerdict) bool { return len(x.SnapDiff) > 0 })
	mv := c06mJudge(w, min)
	r.Violate(Violation{Kind: "correspondence", Suite: "midtie", Input: min, Observed: mv.SnapDiff, Expected: "the statement of the derived handle and of its source handle do not change when chains are started from the derived handle",
		Note: "chains started from the result of a derivation wrote into a handle's statement (deep reflection snapshot): " + mv.Detail + "; history: " + min.Desc()})
}

func c06mGenOps(rng *rand.Rand, n int, extra bool) []c06aOp {
	kinds := []string{"where", "where", "where", "or", "or2", "ormap", "not", "notmap", "scope", "scopeor", "scope2", "select", "omit",
		"limit", "offset", "order", "joins", "unscoped", "hint", "cwhere", "cor", "group", "having", "distinct"}
	if extra {
		kinds = append(kinds, "modelsame", "tablesame", "scopederive", "scopederive")
	}
	var ops []c06aOp
	for i := 0; i < n; i++ {
		ops = append(ops, c06aOp{K: kinds[rng.Intn(len(kinds))], N: rng.Intn(60)})
	}
	return ops
}

func c06mGenerate(rng *rand.Rand) c06mHist {
	h := c06mHist{Cfg: rng.Intn(16), M: rng.Intn(3), Sched: rng.Intn(len(c06mScheds)), Fin: rng.Intn(5) / 2}
	if rng.Intn(4) != 0 {
		h.H0 = c06mGenOps(rng, rng.Intn(3), false)
		h.D0 = []string{"session", "ctx", "debug", "skiphooks", "qf", "sessctx"}[rng.Intn(6)]
	}
	if rng.Intn(6) != 0 {
		h.C = c06mGenOps(rng, 1+rng.Intn(3), true)
	}
	nd := 1
	if rng.Intn(4) == 0 {
		nd = 2
	}
	for i := 0; i < nd; i++ {
		d := c06mDerivs[rng.Intn(len(c06mDerivs))]
		if rng.Intn(3) == 0 {
			d = c06mDerivs[rng.Intn(7)] // the "nothing changes" calls
		}
		if d == "begin" && i > 0 {
			d = "sess0"
		}
		h.D = append(h.D, d)
	}
	h.A = c06mGenOps(rng, 1+rng.Intn(3), true)
	h.B = c06mGenOps(rng, 1+rng.Intn(3), true)
	return h
}

func c06mSuite(r *Result, rng *rand.Rand, rounds int) {
	w := c06aOpenWorld()
	defer w.close()
	for i := 0; i < rounds && !expired(); i++ {
		h := c06mGenerate(rng)
		v := c06mJudge(w, h)
		for _, d := range h.D {
			r.H("mid_derivation", d)
		}
		if len(h.C) == 0 {
			r.H("mid_receiver", "handle")
		} else {
			r.H("mid_receiver", "chain in progress (clone 0)")
		}
		for _, ops := range [][]c06aOp{h.C, h.A, h.B} {
			for _, o := range ops {
				r.H("mid_chain_op", o.K)
			}
		}
		r.H("mid_schedule", strings.Join(c06mScheds[h.Sched%len(c06mScheds)], " "))
		r.H("mid_mode", map[bool]string{true: "DryRun at Open", false: "executed"}[h.Cfg&8 != 0])
		r.Case("mid", canon(h), true)
		if v.bad() {
			c06mReport(r, w, h, v)
			return
		}
		if i%97 == 0 {
			r.Sample(map[string]interface{}{"mid_history": h.Desc()})
		}
	}
}

// ======================================================================================================
// suite "cache"
// ======================================================================================================

type C06CPlain struct {
	ID   uint `gorm:"primaryKey"`
	Name string
	Qty  int
}

type C06CSoft struct {
	ID        uint `gorm:"primaryKey"`
	Name      string
	DeletedAt gorm.DeletedAt
}

type C06CTab struct {
	ID   uint `gorm:"primaryKey"`
	Name string
	Qty  int
}

func (C06CTab) TableName() string { return "c06c_tabbed" }

type C06CRel struct {
	ID    uint `gorm:"primaryKey"`
	Name  string
	Items []C06CItem `gorm:"foreignKey:RelID"`
}

type C06CItem struct {
	ID    uint `gorm:"primaryKey"`
	RelID uint
	Name  string
}

const c06cModels = 5

func c06cNew(m int) (one interface{}, many interface{}, val interface{}) {
	switch m % c06cModels {
	case 0:
		return &C06CPlain{}, &[]C06CPlain{}, C06CPlain{}
	case 1:
		return &C06CSoft{}, &[]C06CSoft{}, C06CSoft{}
	case 2:
		return &C06CTab{}, &[]C06CTab{}, C06CTab{}
	case 3:
		return &C06CRel{}, &[]C06CRel{}, C06CRel{}
	}
	return &C06CItem{}, &[]C06CItem{}, C06CItem{}
}

func c06cKeyed(m int, id uint, name string) interface{} {
	switch m % c06cModels {
	case 0:
		return &C06CPlain{ID: id, Name: name, Qty: 3}
	case 1:
		return &C06CSoft{ID: id, Name: name}
	case 2:
		return &C06CTab{ID: id, Name: name, Qty: 4}
	case 3:
		return &C06CRel{ID: id, Name: name}
	}
	return &C06CItem{ID: id, RelID: 1, Name: name}
}

var c06cModelNames = []string{"C06CPlain", "C06CSoft", "C06CTab", "C06CRel", "C06CItem"}

func c06cSpecial(m, sp int) string {
	return fmt.Sprintf("c06c_%s_m%d", []string{"archive", "other"}[sp%2], m%c06cModels)
}

type c06cWorld struct {
	*c06aWorld
	own  []string          // the models' own table names
	ddl  map[string]string // table → CREATE statement
	all  []string
	cols map[string]string
}

func c06cOpenWorld() *c06cWorld {
	db, rec, sqlDB := OpenRec(&gorm.Config{NowFunc: fixedNowFunc})
	w := &c06cWorld{c06aWorld: &c06aWorld{sqlDB: sqlDB, rec: rec}, ddl: map[string]string{}, cols: map[string]string{}}
	rec.Off = true
	for m := 0; m < c06cModels; m++ {
		one, _, _ := c06cNew(m)
		if err := db.AutoMigrate(one); err != nil {
			panic(err)
		}
		st := &gorm.Statement{DB: db}
		if err := st.Parse(one); err != nil {
			panic(err)
		}
		w.own = append(w.own, st.Schema.Table)
		w.all = append(w.all, st.Schema.Table)
		for sp := 0; sp < 2; sp++ {
			w.all = append(w.all, c06cSpecial(m, sp))
		}
	}
	rows, err := sqlDB.Query("SELECT name, sql FROM sqlite_master WHERE type = 'table'")
	if err != nil {
		panic(err)
	}
	for rows.Next() {
		var n, s string
		rows.Scan(&n, &s)
		w.ddl[n] = s
	}
	rows.Close()
	// the special tables have the shape of the model's own table (not created through Table(sp).AutoMigrate: that
	// panics in migrator.ReorderModels for a model with a has-many relation on the unchanged tree)
	for m, own := range w.own {
		for sp := 0; sp < 2; sp++ {
			w.ddl[c06cSpecial(m, sp)] = strings.Replace(w.ddl[own], "`"+own+"`", "`"+c06cSpecial(m, sp)+"`", 1)
		}
	}
	for _, t := range w.all {
		if w.ddl[t] == "" {
			panic("c06c: no DDL for " + t)
		}
	}
	return w
}

// bring the database into state 0 (no tables) or 1 (every own and special table exists with three rows)
func (w *c06cWorld) reset(state int) {
	w.rec.Off = true
	for _, t := range w.all {
		if _, err := w.sqlDB.Exec("DROP TABLE IF EXISTS `" + t + "`"); err != nil {
			panic(err)
		}
	}
	if state%2 == 0 {
		return
	}
	for i, t := range w.all {
		if _, err := w.sqlDB.Exec(w.ddl[t]); err != nil {
			panic(err)
		}
		m := i / 3
		for id := 1; id <= 3; id++ {
			var err error
			name := fmt.Sprintf("%s-%d", t, id)
			switch m {
			case 0, 2:
				_, err = w.sqlDB.Exec("INSERT INTO `"+t+"` (id, name, qty) VALUES (?, ?, ?)", id, name, id*10)
			case 1, 3:
				_, err = w.sqlDB.Exec("INSERT INTO `"+t+"` (id, name) VALUES (?, ?)", id, name)
			default:
				_, err = w.sqlDB.Exec("INSERT INTO `"+t+"` (id, rel_id, name) VALUES (?, ?, ?)", id, 1+id%2, name)
			}
			if err != nil {
				panic(err)
			}
		}
	}
}

func (w *c06cWorld) tables() string {
	var out []string
	rows, err := w.sqlDB.Query("SELECT name FROM sqlite_master WHERE type = 'table' ORDER BY name")
	if err != nil {
		return "err:" + err.Error()
	}
	var names []string
	for rows.Next() {
		var n string
		rows.Scan(&n)
		names = append(names, n)
	}
	rows.Close()
	for _, n := range names {
		var c int
		w.sqlDB.QueryRow("SELECT count(*) FROM `" + n + "`").Scan(&c)
		var nm string
		w.sqlDB.QueryRow("SELECT group_concat(name, ',') FROM (SELECT name FROM `" + n + "` ORDER BY id)").Scan(&nm)
		out = append(out, fmt.Sprintf("%s:%d[%s]", n, c, nm))
	}
	return strings.Join(out, " ")
}

type c06cStep struct {
	H     int `json:"h"`
	Via   int `json:"via"`
	M     int `json:"m"`
	Sp    int `json:"sp"`
	State int `json:"state"`
}

type c06cHist struct {
	Cfg     int        `json:"cfg"`
	Handles []string   `json:"handles"` // handle i+1 = derive kind applied to handle Src[i]
	Src     []int      `json:"src"`
	First   []c06cStep `json:"first"`
	Later   []c06cStep `json:"later"`
}

var c06cFirstNames = []string{"Table(sp).AutoMigrate(&M{})", "Table(sp).Migrator().CreateTable(&M{})", "Table(sp).Migrator().HasTable(&M{})",
	"Scopes(Table(sp)).AutoMigrate(&M{})", "Table(sp).Migrator().HasColumn(&M{}, name)", "Table(sp).Find(&[]M{})", "Table(sp).Create(&M{})",
	"Table(sp).Model(&M{}).Update", "Table(sp).Delete(&M{})", "Session{DryRun}.Table(sp).Find", "Table(sp).Migrator().ColumnTypes(&M{})",
	"Table(sp).Migrator().DropTable(&M{})", "Model(&M{}).Table(sp).Count", "Statement.ParseWithSpecialTableName(&M{}, sp)", "Table(sp).First(&m)",
	"Find(&[]M{}) (plain)", "Migrator().HasTable(&M{}) (plain)", "Table(sp).AutoMigrate(M{} by value)", "Table(sp).Migrator().HasIndex(&M{}, x)",
	"relation: Table(sp).Preload(Items).Find(&[]Rel{})", "relation: Table(sp).Model(&Rel{1}).Association(Items).Find", "Table(sp).Migrator().CreateTable(&[]M{})"}

var c06cLaterNames = []string{"Find(&[]M{})", "First(&m)", "Create(&M{})", "Where.Delete(&M{})", "Model(&M{}).Update", "Model(&M{}).Count", "AutoMigrate(&M{})",
	"Migrator().HasTable(&M{})", "Migrator().CreateTable(&M{})", "Session{DryRun}.Find", "Table(sp2).Find(&[]M{})", "Save(&M{})", "Migrator().DropTable(&M{})",
	"Migrator().HasColumn(&M{}, name)", "Table(sp2).AutoMigrate(&M{})", "relation: Preload(Items).Find(&[]Rel{})", "relation: Model(&Rel{1}).Association(Items).Find",
	"Model(&M{}).Find(&[]map)", "Migrator().ColumnTypes(&M{})"}

func (s c06cStep) desc(first bool) string {
	n := c06cLaterNames[s.Via%len(c06cLaterNames)]
	if first {
		n = c06cFirstNames[s.Via%len(c06cFirstNames)]
	}
	return fmt.Sprintf("h%d.%s [M=%s sp=%s state=%d]", s.H, n, c06cModelNames[s.M%c06cModels], c06cSpecial(s.M, s.Sp), s.State%2)
}

func (h c06cHist) Desc() string {
	var p []string
	for i, d := range h.Handles {
		src := "root"
		if h.Src[i] > 0 {
			src = fmt.Sprint("h", h.Src[i])
		}
		p = append(p, fmt.Sprintf("h%d := %s.%s()", i+1, src, d))
	}
	for _, s := range h.First {
		p = append(p, "FIRST USE "+s.desc(true))
	}
	for _, s := range h.Later {
		p = append(p, "LATER "+s.desc(false))
	}
	return fmt.Sprintf("cfg=%d (h0 = root): ", h.Cfg) + strings.Join(p, "; ")
}

func c06cErrStr(err error) string { return c06aErr(err) }

func c06cRunFirst(x *gorm.DB, s c06cStep) (out string) {
	defer func() {
		if p := recover(); p != nil {
			out = "panic:" + c06HexRe.ReplaceAllString(fmt.Sprint(p), "PTR")
		}
	}()
	m := s.M % c06cModels
	sp := c06cSpecial(m, s.Sp)
	one, many, val := c06cNew(m)
	via := s.Via % len(c06cFirstNames)
	if via >= 19 && via <= 20 {
		m = 3
		sp = c06cSpecial(m, s.Sp)
		one, many, val = c06cNew(m)
	}
	_ = val
	switch via {
	case 0:
		return c06cErrStr(x.Table(sp).AutoMigrate(one))
	case 1:
		return c06cErrStr(x.Table(sp).Migrator().CreateTable(one))
	case 2:
		return fmt.Sprint(x.Table(sp).Migrator().HasTable(one))
	case 3:
		return c06cErrStr(x.Scopes(func(d *gorm.DB) *gorm.DB { return d.Table(sp) }).AutoMigrate(one))
	case 4:
		return fmt.Sprint(x.Table(sp).Migrator().HasColumn(one, "name"))
	case 5:
		return c06cErrStr(x.Table(sp).Find(many).Error)
	case 6:
		return c06cErrStr(x.Table(sp).Create(c06cKeyed(m, 50, "first")).Error)
	case 7:
		return c06cErrStr(x.Table(sp).Model(one).Where("id = ?", 1).Update("name", "upd").Error)
	case 8:
		return c06cErrStr(x.Table(sp).Where("id = ?", 3).Delete(one).Error)
	case 9:
		return c06cErrStr(x.Session(&gorm.Session{DryRun: true}).Table(sp).Find(many).Error)
	case 10:
		_, err := x.Table(sp).Migrator().ColumnTypes(one)
		return c06cErrStr(err)
	case 11:
		return c06cErrStr(x.Table(sp).Migrator().DropTable(one))
	case 12:
		var n int64
		return c06cErrStr(x.Model(one).Table(sp).Count(&n).Error)
	case 13:
		st := &gorm.Statement{DB: x}
		return c06cErrStr(st.ParseWithSpecialTableName(one, sp))
	case 14:
		return c06cErrStr(x.Table(sp).First(one).Error)
	case 15:
		return c06cErrStr(x.Find(many).Error)
	case 16:
		return fmt.Sprint(x.Migrator().HasTable(one))
	case 17:
		return c06cErrStr(x.Table(sp).AutoMigrate(one))
	case 18:
		return fmt.Sprint(x.Table(sp).Migrator().HasIndex(one, "idx_none"))
	case 19:
		return c06cErrStr(x.Table(sp).Preload("Items").Find(many).Error)
	case 20:
		var items []C06CItem
		return c06cErrStr(x.Table(sp).Model(&C06CRel{ID: 1}).Association("Items").Find(&items))
	default:
		return c06cErrStr(x.Table(sp).Migrator().CreateTable(many))
	}
}

func c06cRunLater(w *c06cWorld, x *gorm.DB, s c06cStep) (obs string) {
	defer func() {
		if p := recover(); p != nil {
			obs = "panic:" + c06HexRe.ReplaceAllString(fmt.Sprint(p), "PTR")
		}
		w.rec.Off = true
	}()
	m := s.M % c06cModels
	via := s.Via % len(c06cLaterNames)
	if via == 15 || via == 16 {
		m = 3
	}
	sp2 := c06cSpecial(m, s.Sp+1)
	one, many, _ := c06cNew(m)
	w.rec.Reset()
	w.rec.Off = false
	var err error
	var out interface{}
	switch via {
	case 0:
		err, out = x.Find(many).Error, many
	case 1:
		err, out = x.First(one).Error, one
	case 2:
		err = x.Create(c06cKeyed(m, 60, "later")).Error
	case 3:
		err = x.Where("id = ?", 2).Delete(one).Error
	case 4:
		err = x.Model(one).Where("id = ?", 2).Update("name", "z").Error
	case 5:
		var n int64
		err, out = x.Model(one).Count(&n).Error, &n
	case 6:
		err = x.AutoMigrate(one)
	case 7:
		out = x.Migrator().HasTable(one)
	case 8:
		err = x.Migrator().CreateTable(one)
	case 9:
		t := x.Session(&gorm.Session{DryRun: true}).Find(many)
		err, out = t.Error, t.Statement.SQL.String()
	case 10:
		err, out = x.Table(sp2).Find(many).Error, many
	case 11:
		err = x.Save(c06cKeyed(m, 1, "saved")).Error
	case 12:
		err = x.Migrator().DropTable(one)
	case 13:
		out = x.Migrator().HasColumn(one, "name")
	case 14:
		err = x.Table(sp2).AutoMigrate(one)
	case 15:
		err, out = x.Preload("Items").Find(many).Error, many
	case 16:
		var items []C06CItem
		err, out = x.Model(&C06CRel{ID: 1}).Association("Items").Find(&items), &items
	case 17:
		var rows c06aRows
		err = x.Model(one).Find(&rows).Error
		out = c06aCanonRows(rows)
	default:
		var cts []gorm.ColumnType
		cts, err = x.Migrator().ColumnTypes(one)
		var ns []string
		for _, c := range cts {
			ns = append(ns, c.Name())
		}
		out = ns
	}
	w.rec.Off = true
	evs := c06zEvents(x, w.rec.Snapshot())
	return strings.Join(evs, " ;; ") + " || out=" + c06zJSON(out) + " err=" + c06cErrStr(err) + " || tables: " + w.tables()
}

func c06cHandles(w *c06cWorld, h c06cHist, need []bool) []*gorm.DB {
	root := c06zOpen(w.c06aWorld, h.Cfg, false)
	hs := make([]*gorm.DB, len(h.Handles)+1)
	hs[0] = root
	for i, d := range h.Handles {
		if need != nil && !need[i+1] {
			continue
		}
		src := root
		if h.Src[i] > 0 && h.Src[i] <= i && hs[h.Src[i]] != nil {
			src = hs[h.Src[i]]
		}
		switch d {
		case "newdb":
			hs[i+1] = src.Session(&gorm.Session{NewDB: true})
		default:
			hs[i+1] = c06aDerive(src, d, i)
		}
	}
	return hs
}

func c06cExecFull(w *c06cWorld, h c06cHist) []string {
	hs := c06cHandles(w, h, nil)
	for _, s := range h.First {
		w.reset(s.State)
		c06cRunFirst(hs[s.H%len(hs)], s)
	}
	obs := make([]string, len(h.Later))
	for i, s := range h.Later {
		w.reset(s.State)
		obs[i] = c06cRunLater(w, hs[s.H%len(hs)], s)
	}
	return obs
}

func c06cExecAlone(w *c06cWorld, h c06cHist, i int) string {
	s := h.Later[i]
	need := make([]bool, len(h.Handles)+1)
	for k := s.H % (len(h.Handles) + 1); k > 0; k = h.Src[k-1] {
		need[k] = true
		if h.Src[k-1] >= k {
			break
		}
	}
	hs := c06cHandles(w, h, need)
	w.reset(s.State)
	return c06cRunLater(w, hs[s.H%len(hs)], s)
}

func c06cJudge(w *c06cWorld, h c06cHist) (bad int, in, al string) {
	full := c06cExecFull(w, h)
	for i := range h.Later {
		alone := c06cExecAlone(w, h, i)
		if alone != full[i] {
			return i, full[i], alone
		}
	}
	return -1, "", ""
}

func c06cShrink(w *c06cWorld, h c06cHist) c06cHist {
	cur := h
	try := func(c c06cHist) bool {
		if b, _, _ := c06cJudge(w, c); b >= 0 {
			cur = c
			return true
		}
		return false
	}
	for changed, rounds := true, 0; changed && rounds < 5; rounds++ {
		changed = false
		for i := len(cur.Later) - 1; i >= 0 && len(cur.Later) > 1; i-- {
			if i >= len(cur.Later) {
				continue
			}
			c := cur
			c.Later = append(append([]c06cStep(nil), cur.Later[:i]...), cur.Later[i+1:]...)
			changed = try(c) || changed
		}
		for i := len(cur.First) - 1; i >= 0; i-- {
			if i >= len(cur.First) {
				continue
			}
			c := cur
			c.First = append(append([]c06cStep(nil), cur.First[:i]...), cur.First[i+1:]...)
			changed = try(c) || changed
		}
		if cur.Cfg != 0 {
			c := cur
			c.Cfg = 0
			changed = try(c) || changed
		}
	}
	return cur
}

func c06cReport(r *Result, w *c06cWorld, h c06cHist) {
	min := c06cShrink(w, h)
	b, in, al := c06cJudge(w, min)
	if b < 0 {
		min = h
		b, in, al = c06cJudge(w, h)
	}
	r.Violate(Violation{Kind: "e2e", Suite: "cache", Input: min, Observed: fmt.Sprintf("later chain %d: %s", b, in), Expected: al,
		Note: "a chain run after OTHER chains of the same handle tree had used the model first (through an unusual entry path) differs from the same chain replayed alone on a fresh gorm.Open over the same database state; history: " + min.Desc()})
}

func c06cGenerate(rng *rand.Rand) c06cHist {
	h := c06cHist{Cfg: rng.Intn(4)}
	derives := []string{"session", "ctx", "debug", "skiphooks", "newdb", "sessctx"}
	for i, n := 0, rng.Intn(3); i < n; i++ {
		h.Handles = append(h.Handles, derives[rng.Intn(len(derives))])
		h.Src = append(h.Src, rng.Intn(i+1))
	}
	nh := len(h.Handles) + 1
	m := rng.Intn(c06cModels)
	for i, n := 0, 1+rng.Intn(2); i < n; i++ {
		s := c06cStep{H: rng.Intn(nh), Via: rng.Intn(len(c06cFirstNames)), M: m, Sp: rng.Intn(2), State: rng.Intn(2)}
		if i > 0 && rng.Intn(2) == 0 {
			s.M = rng.Intn(c06cModels)
		}
		if s.M%c06cModels == 3 && (s.Via == 0 || s.Via == 1 || s.Via == 3 || s.Via == 17 || s.Via == 21) {
			s.M = 4 // Table(sp).AutoMigrate of a model with a has-many relation panics in ReorderModels (unchanged tree)
		}
		if s.Via == 11 || s.Via == 5 || s.Via == 14 || s.Via == 7 || s.Via == 8 || s.Via == 12 || s.Via == 19 || s.Via == 20 {
			s.State = 1
		}
		h.First = append(h.First, s)
	}
	for i, n := 0, 1+rng.Intn(3); i < n; i++ {
		s := c06cStep{H: rng.Intn(nh), Via: rng.Intn(len(c06cLaterNames)), M: m, Sp: rng.Intn(2), State: rng.Intn(3) % 2}
		if rng.Intn(6) == 0 {
			s.M = rng.Intn(c06cModels)
		}
		switch s.Via {
		case 6, 8, 14:
			s.State = rng.Intn(2)
		case 7, 13:
		default:
			if rng.Intn(5) != 0 {
				s.State = 1
			}
		}
		if s.M%c06cModels >= 3 && (s.Via == 6 || s.Via == 8 || s.Via == 12 || s.Via == 14) {
			// by design a parent model parsed earlier registers its constraint on the child's cached schema: the
			// migrator then also visits the parent (AutoMigrate / CreateTable / DropTable of the related models are
			// history dependent on the unchanged tree) — not generated
			s.Via = 0
		}
		h.Later = append(h.Later, s)
	}
	return h
}

func c06cSuite(r *Result, rng *rand.Rand, rounds int) {
	w := c06cOpenWorld()
	defer w.close()
	for i := 0; i < rounds && !expired(); i++ {
		h := c06cGenerate(rng)
		b, _, _ := c06cJudge(w, h)
		for _, s := range h.First {
			r.H("cache_first_use", c06cFirstNames[s.Via%len(c06cFirstNames)])
			r.H("cache_model", c06cModelNames[s.M%c06cModels])
		}
		for _, s := range h.Later {
			r.H("cache_later", c06cLaterNames[s.Via%len(c06cLaterNames)])
			r.H("cache_later_state", []string{"no tables", "tables with rows"}[s.State%2])
		}
		r.H("cache_handles", fmt.Sprint(len(h.Handles)+1))
		r.Case("cache", canon(h), len(h.First) >= 1 && len(h.Later) >= 1)
		if b >= 0 {
			c06cReport(r, w, h)
			return
		}
		if i%97 == 0 {
			r.Sample(map[string]interface{}{"cache_history": h.Desc()})
		}
	}
}


// ======================================================================================================
// suite "preconds" (tie): the handle's Preloads[name] after ONE chain derived from it ran its preload, vs
// Model/PreloadConds.lean argsAfter under the regenerated discipline (c06.preconds)
// ======================================================================================================

type c06qCase struct {
	Args  []c06pArg `json:"args"`
	Spare int       `json:"spare"`
	Assoc []c06pArg `json:"assoc"`
	Fin   int       `json:"fin"`
}

func c06qAtoms(vals []interface{}, base int) []int {
	out := make([]int, len(vals))
	for i, v := range vals {
		if _, ok := v.(func(*gorm.DB) *gorm.DB); ok {
			out[i] = 0
		} else {
			out[i] = base + 2*i + 1
		}
	}
	return out
}

func c06qStr(v interface{}) string {
	if _, ok := v.(func(*gorm.DB) *gorm.DB); ok {
		return "fn"
	}
	return fmt.Sprintf("%T:%v", v, v)
}

// an atom of the model's answer spelled as the value it stands for
func c06qSpell(atom int, args, assoc []interface{}) string {
	switch {
	case atom == 0:
		return "fn"
	case atom > 1000 && (atom-1001)/2 < len(assoc):
		return c06qStr(assoc[(atom-1001)/2])
	case atom < 1000 && (atom-1)/2 < len(args):
		return c06qStr(args[(atom-1)/2])
	}
	return fmt.Sprint("?", atom)
}

func c06qReal(w *c06aWorld, c c06qCase) (before, after []string, note string) {
	defer func() {
		if p := recover(); p != nil {
			note = "panic:" + c06HexRe.ReplaceAllString(fmt.Sprint(p), "PTR")
		}
	}()
	args := c06pArgs(c.Args, c.Spare)
	root := c06zOpen(w, 0, false)
	t := root.Model(&C06AUser{}).Preload("Pets", args...)
	if len(c.Assoc) > 0 {
		t = t.Preload(clause.Associations, c06pArgs(c.Assoc, 0)...)
	}
	h := t.Session(&gorm.Session{})
	ids := func() []string {
		out := []string{}
		for _, v := range h.Statement.Preloads["Pets"] {
			out = append(out, c06qStr(v))
		}
		return out
	}
	before = ids()
	var us []C06AUser
	var u C06AUser
	var err error
	switch c.Fin % 3 {
	case 0:
		err = h.Find(&us).Error
	case 1:
		err = h.First(&u).Error
	default:
		err = h.Where("id > ?", 1).Order("id").Find(&us).Error
	}
	after = ids()
	return before, after, c06aErr(err)
}

func c06qSuite(r *Result, rng *rand.Rand, rounds int) {
	w := c06aOpenWorld()
	defer w.close()
	var cases []c06qCase
	var ops [][]interface{}
	var reals [][]string
	for i := 0; i < rounds; i++ {
		c := c06qCase{Args: c06pGenArgs(rng), Fin: rng.Intn(3)}
		if rng.Intn(3) == 0 {
			c.Spare = 1 + rng.Intn(3)
		}
		if rng.Intn(3) == 0 {
			c.Assoc = c06pGenArgs(rng)
		}
		before, after, note := c06qReal(w, c)
		if strings.HasPrefix(note, "panic:") {
			r.H("preconds_note", "panic")
			continue
		}
		atoms := c06qAtoms(c06pArgs(c.Args, 0), 0)
		assoc := c06qAtoms(c06pArgs(c.Assoc, 0), 1000)
		_ = before
		cases = append(cases, c)
		reals = append(reals, after)
		ops = append(ops, []interface{}{"c06.preconds", atoms, c.Spare, assoc})
		fnFirst, sawFn := false, false
		for _, a := range c.Args {
			if strings.HasPrefix(a.K, "fn") {
				sawFn = true
			} else if sawFn {
				fnFirst = true
			}
		}
		r.H("preconds_shape", fmt.Sprintf("fnBeforeCond=%v spare=%v assoc=%v err=%v", fnFirst, c.Spare > 0, len(c.Assoc) > 0, note != ""))
	}
	if len(ops) == 0 {
		return
	}
	ans, err := AskLean(ops)
	if err != nil {
		r.Violate(Violation{Kind: "correspondence", Suite: "preconds", Input: "batch", Observed: err.Error(), Expected: "answers"})
		return
	}
	for i, a := range ans {
		var m struct {
			After      []int `json:"after"`
			Writes     int   `json:"writes"`
			PrefixInit bool  `json:"prefixInit"`
		}
		if err := json.Unmarshal(a, &m); err != nil {
			r.Violate(Violation{Kind: "correspondence", Suite: "preconds", Input: cases[i], Observed: string(a), Expected: "an object"})
			return
		}
		r.CorrCompared++
		r.Case("preconds", canon(cases[i]), len(cases[i].Args) >= 2)
		spelled := []string{}
		for _, a := range m.After {
			spelled = append(spelled, c06qSpell(a, c06pArgs(cases[i].Args, 0), c06pArgs(cases[i].Assoc, 0)))
		}
		if fmt.Sprint(spelled) != fmt.Sprint(reals[i]) {
			r.Violate(Violation{Kind: "correspondence", Suite: "preconds", Input: cases[i], Observed: reals[i], Expected: spelled,
				Note: fmt.Sprintf("the handle's Statement.Preloads[\"Pets\"] after one derived chain ran its preload differs from Model/PreloadConds.lean argsAfter (regenerated discipline prefixInit=%v)", m.PrefixInit)})
			return
		}
	}
}

// ======================================================================================================

func init() {
	register("C06", func(r *Result, rng *rand.Rand, tier string) {
		pre, mid, cache := 700, 900, 700
		if tier == "thorough" {
			pre, mid, cache = 15000, 20000, 12000
		} else if tier == "search" {
			pre, mid, cache = 3000, 4000, 3000
		}
		c06pSuite(r, rng, pre)
		c06mSuite(r, rng, mid)
		c06cSuite(r, rng, cache)
		c06qSuite(r, rng, pre/2)
	})
	replayers["C06/pre"] = func(r *Result, input json.RawMessage) {
		var h c06pHist
		if err := json.Unmarshal(input, &h); err != nil {
			r.Violate(Violation{Kind: "e2e", Suite: "pre", Input: string(input), Observed: err.Error(), Expected: "a history"})
			return
		}
		w := c06aOpenWorld()
		defer w.close()
		if v := c06pJudge(w, h); v.bad() {
			c06pReport(r, w, h, v)
		}
	}
	replayers["C06/pretie"] = replayers["C06/pre"]
	replayers["C06/preconds"] = func(r *Result, input json.RawMessage) {
		var c c06qCase
		if err := json.Unmarshal(input, &c); err != nil {
			return
		}
		w := c06aOpenWorld()
		defer w.close()
		before, after, note := c06qReal(w, c)
		if fmt.Sprint(before) != fmt.Sprint(after) {
			r.Violate(Violation{Kind: "e2e", Suite: "preconds", Input: c, Observed: after, Expected: before,
				Note: "executing ONE chain derived from a handle changed the handle's Preload arguments " + note})
		}
	}
	replayers["C06/mid"] = func(r *Result, input json.RawMessage) {
		var h c06mHist
		if err := json.Unmarshal(input, &h); err != nil {
			r.Violate(Violation{Kind: "e2e", Suite: "mid", Input: string(input), Observed: err.Error(), Expected: "a history"})
			return
		}
		w := c06aOpenWorld()
		defer w.close()
		if v := c06mJudge(w, h); v.bad() {
			c06mReport(r, w, h, v)
		}
	}
	replayers["C06/midtie"] = replayers["C06/mid"]
	replayers["C06/cache"] = func(r *Result, input json.RawMessage) {
		var h c06cHist
		if err := json.Unmarshal(input, &h); err != nil {
			r.Violate(Violation{Kind: "e2e", Suite: "cache", Input: string(input), Observed: err.Error(), Expected: "a history"})
			return
		}
		w := c06cOpenWorld()
		defer w.close()
		if b, _, _ := c06cJudge(w, h); b >= 0 {
			c06cReport(r, w, h)
		}
	}
	_ = sort.Strings
}
