package main

// C19 suite "recv": the RECEIVER of ToSQL / Session{DryRun} and the MODE of the real run.
//
// The suites "ops" / "dryrun" always call ToSQL on the ROOT handle (the whole chain lives inside the callback) and run
// the real statement in one mode (an explicit transaction of the same configuration).  Here
//
//   receiver  = base(root) followed by a state-carrying chain (Model / Table / Where / Or / Not / Select / Omit / Order /
//               Limit / Joins / Preload / Unscoped / Scopes / Clauses / Session / WithContext / Debug / inside a transaction)
//   finisher  = a terminal call made ON the receiver (it adds no state of its own beyond what the API needs)
//   mode      = how the REAL run reaches the driver: explicit transaction, nested transaction, PrepareStmt session (in a
//               transaction and on the pool), SkipDefaultTransaction, Debug, plain pool handle (implicit transaction)
//
// and one case runs the same operation
//   L  receiver(db).Session(&Session{DryRun: true}) -> finisher      (DryRun switched on AFTER the chain)
//   E  receiver(db.Session(&Session{DryRun: true})) -> finisher      (… BEFORE the chain)
//   C  receiver(dbOpenedWithConfigDryRun)           -> finisher
//   T  receiver(db).ToSQL(finisher)                                  (ToSQL called on the handle that carries the state)
//   R  receiver(mode(db))                           -> finisher      for real, behind the recording driver
//
// Judged (only what the property text states):
//   S1  L, E, C: no prepare / exec / query event            S2  T: no driver event at all
//   E1  L, E, C and the handle T's callback returned expose the same SQL + bound values; T's string is Explain of them
//   E2  the exposed SQL/Vars equal — byte for byte, values normalised as the driver sees them — a statement of R with the
//       same verb + table; in PrepareStmt modes the text compared is the text the driver was asked to PREPARE and the
//       values are those handed to the prepared statement (the recorder keeps both on the stmt_exec / stmt_query event).
// Latitudes: as in suite "ops" (a real run that fails before sending is not compared; FirstOrCreate/FirstOrInit are
// compared only when the real run sent a statement of the exposed kind); batched finishers (finding F26) are not generated.
// Raw finishers ignore the receiver's conditions by design (Raw/Exec replace the statement) — identical in all runs.

import (
	"database/sql"
	"encoding/json"
	"fmt"
	"math/rand"
	"reflect"
	"strings"

	"gorm.io/gorm"
	"gorm.io/gorm/clause"
)

// ---- models (generic access so that receivers and finishers are written once) ------------------------------------

type c19rModel struct {
	Name   string
	Table  string
	IC, SC string // an integer column, a string column
	PK     string
	New    func() interface{}      // pointer to a zero value
	Slice  func() interface{}      // pointer to an empty slice
	Keyed  func(k int) interface{} // pointer to a zero value carrying the key of an existing row
	Fresh  func(k int) interface{} // pointer to a new record without key
	Full   func(k int) interface{} // pointer to a record with the key of an existing row and data
	KeyVal func(k int) interface{}
}

var c19rModels = map[string]c19rModel{
	"plain": {Name: "plain", Table: "c19_plains", IC: "age", SC: "name", PK: "id",
		New: func() interface{} { return &C19Plain{} }, Slice: func() interface{} { return &[]C19Plain{} },
		Keyed:  func(k int) interface{} { return &C19Plain{ID: c19ExistID(k)} },
		Fresh:  func(k int) interface{} { p := c19MkPlain(k); return &p },
		Full:   func(k int) interface{} { p := c19MkPlain(k); p.ID = c19ExistID(k); return &p },
		KeyVal: func(k int) interface{} { return c19ExistID(k) }},
	"doc": {Name: "doc", Table: "c19_docs", IC: "qty", SC: "title", PK: "id",
		New: func() interface{} { return &C19Doc{} }, Slice: func() interface{} { return &[]C19Doc{} },
		Keyed:  func(k int) interface{} { return &C19Doc{ID: c19ExistID(k)} },
		Fresh:  func(k int) interface{} { d := c19MkDoc(k); return &d },
		Full:   func(k int) interface{} { d := c19MkDoc(k); d.ID = c19ExistID(k); return &d },
		KeyVal: func(k int) interface{} { return c19ExistID(k) }},
	"hard": {Name: "hard", Table: "c19_hards", IC: "n", SC: "name", PK: "code",
		New: func() interface{} { return &C19Hard{} }, Slice: func() interface{} { return &[]C19Hard{} },
		Keyed:  func(k int) interface{} { return &C19Hard{Code: fmt.Sprint("h", 1+k%6)} },
		Fresh:  func(k int) interface{} { return &C19Hard{Code: fmt.Sprint("new", k), Name: c19Str(k), N: k % 9} },
		Full:   func(k int) interface{} { return &C19Hard{Code: fmt.Sprint("h", 1+k%6), Name: c19Str(k), N: k % 9} },
		KeyVal: func(k int) interface{} { return fmt.Sprint("h", 1+k%6) }},
}

var c19rModelNames = []string{"plain", "doc", "hard"}

// ---- receivers: chains that leave STATE on the handle -----------------------------------------------------------

type c19rRecv struct {
	Name  string
	Only  string // "" = every model
	Conds bool   // carries a WHERE condition (global update/delete is not refused)
	Build func(h *gorm.DB, m c19rModel, k int) *gorm.DB
}

func c19rRecvs() []c19rRecv {
	var rs []c19rRecv
	add := func(name, only string, conds bool, f func(h *gorm.DB, m c19rModel, k int) *gorm.DB) {
		rs = append(rs, c19rRecv{Name: name, Only: only, Conds: conds, Build: f})
	}
	add("root", "", false, func(h *gorm.DB, m c19rModel, k int) *gorm.DB { return h })
	add("model", "", false, func(h *gorm.DB, m c19rModel, k int) *gorm.DB { return h.Model(m.New()) })
	add("model_keyed", "", true, func(h *gorm.DB, m c19rModel, k int) *gorm.DB { return h.Model(m.Keyed(k)) })
	add("model_where", "", true, func(h *gorm.DB, m c19rModel, k int) *gorm.DB {
		return h.Model(m.New()).Where(m.IC+" > ?", 18+k%5)
	})
	add("table", "", false, func(h *gorm.DB, m c19rModel, k int) *gorm.DB { return h.Table(m.Table) })
	add("table_where", "", true, func(h *gorm.DB, m c19rModel, k int) *gorm.DB {
		return h.Table(m.Table).Where(m.SC+" <> ?", c19Str(k))
	})
	add("where", "", true, func(h *gorm.DB, m c19rModel, k int) *gorm.DB { return h.Where(m.IC+" < ?", 10+k%40) })
	add("where_or_not", "", true, func(h *gorm.DB, m c19rModel, k int) *gorm.DB {
		return h.Where(m.IC+" > ?", k%30).Or(m.SC+" = ?", c19Str(k)).Not(m.IC+" = ?", k%7)
	})
	add("where_map", "", true, func(h *gorm.DB, m c19rModel, k int) *gorm.DB {
		return h.Where(map[string]interface{}{m.IC: []int{k % 9, 21 + k%5}, m.SC: fmt.Sprint("p", k%3)})
	})
	add("where_named", "", true, func(h *gorm.DB, m c19rModel, k int) *gorm.DB {
		return h.Where(m.IC+" > @a OR "+m.SC+" = @s", sql.Named("a", k%30), sql.Named("s", c19Str(k)))
	})
	add("where_zero_values", "", true, func(h *gorm.DB, m c19rModel, k int) *gorm.DB {
		return h.Where(m.IC+" >= ? AND "+m.SC+" <> ?", 0, "")
	})
	add("where_subquery", "", true, func(h *gorm.DB, m c19rModel, k int) *gorm.DB {
		sub := h.Session(&gorm.Session{NewDB: true}).Table(m.Table).Select("AVG(" + m.IC + ")").Where(m.IC+" <> ?", k%11)
		return h.Where(m.IC+" >= (?)", sub)
	})
	add("where_group", "", true, func(h *gorm.DB, m c19rModel, k int) *gorm.DB {
		g := h.Session(&gorm.Session{NewDB: true}).Where(m.IC+" = ?", k%30).Or(m.SC+" = ?", c19Str(k))
		return h.Where(g).Where(m.IC+" <> ?", 5)
	})
	add("not_map", "", true, func(h *gorm.DB, m c19rModel, k int) *gorm.DB {
		return h.Not(map[string]interface{}{m.IC: []int{k % 5, 3}})
	})
	add("not_clause_expr", "", true, func(h *gorm.DB, m c19rModel, k int) *gorm.DB {
		return h.Not(clause.Eq{Column: m.SC, Value: c19Str(k)}).Where(clause.Gt{Column: m.IC, Value: k % 20})
	})
	add("select_cols", "", false, func(h *gorm.DB, m c19rModel, k int) *gorm.DB { return h.Select(m.PK, m.SC) })
	add("select_where", "", true, func(h *gorm.DB, m c19rModel, k int) *gorm.DB {
		return h.Select(m.SC, m.IC).Where(m.IC+" > ?", k%25)
	})
	add("omit_col", "", false, func(h *gorm.DB, m c19rModel, k int) *gorm.DB { return h.Omit(m.IC) })
	add("omit_where", "", true, func(h *gorm.DB, m c19rModel, k int) *gorm.DB {
		return h.Omit(m.SC).Where(m.IC+" <= ?", 20+k%30)
	})
	add("order_limit", "", false, func(h *gorm.DB, m c19rModel, k int) *gorm.DB {
		return h.Order(m.IC + " desc").Limit(1 + k%4).Offset(k % 3)
	})
	add("where_order_limit", "", true, func(h *gorm.DB, m c19rModel, k int) *gorm.DB {
		return h.Where(m.IC+" > ?", k%20).Order(clause.OrderByColumn{Column: clause.Column{Name: m.SC}, Desc: k%2 == 0}).Limit(2 + k%3)
	})
	add("distinct", "", false, func(h *gorm.DB, m c19rModel, k int) *gorm.DB { return h.Distinct(m.SC) })
	add("group_having", "", false, func(h *gorm.DB, m c19rModel, k int) *gorm.DB {
		return h.Select(m.SC).Group(m.SC).Having("count(*) > ?", k%3)
	})
	add("joins_raw", "", true, func(h *gorm.DB, m c19rModel, k int) *gorm.DB {
		return h.Joins("LEFT JOIN c19_cos ON c19_cos.id = ?", 1+k%3).Where(m.Table+"."+m.IC+" > ?", k%20)
	})
	add("joins_assoc", "doc", false, func(h *gorm.DB, m c19rModel, k int) *gorm.DB { return h.Joins("Co") })
	add("joins_assoc_where", "doc", true, func(h *gorm.DB, m c19rModel, k int) *gorm.DB {
		return h.Joins("Co").Where("c19_docs.qty > ?", k%40)
	})
	add("preload", "doc", false, func(h *gorm.DB, m c19rModel, k int) *gorm.DB { return h.Preload("Lines") })
	add("preload_where", "doc", true, func(h *gorm.DB, m c19rModel, k int) *gorm.DB {
		return h.Preload("Tags", "name <> ?", c19Str(k)).Preload("Co").Where("qty >= ?", k%40)
	})
	add("unscoped", "", false, func(h *gorm.DB, m c19rModel, k int) *gorm.DB { return h.Unscoped() })
	add("unscoped_where", "", true, func(h *gorm.DB, m c19rModel, k int) *gorm.DB {
		return h.Unscoped().Where(m.IC+" > ?", k%30)
	})
	add("where_unscoped_model", "", true, func(h *gorm.DB, m c19rModel, k int) *gorm.DB {
		return h.Where(m.IC+" < ?", 30+k%30).Unscoped().Model(m.New())
	})
	add("scopes_one", "", true, func(h *gorm.DB, m c19rModel, k int) *gorm.DB {
		return h.Scopes(func(d *gorm.DB) *gorm.DB { return d.Where(m.IC+" <> ?", k%13) })
	})
	add("scopes_two", "", true, func(h *gorm.DB, m c19rModel, k int) *gorm.DB {
		return h.Scopes(
			func(d *gorm.DB) *gorm.DB { return d.Where(m.IC+" >= ?", k%9) },
			func(d *gorm.DB) *gorm.DB { return d.Or(m.SC+" = ?", c19Str(k)).Order(m.IC) })
	})
	add("scopes_only_channel", "", true, func(h *gorm.DB, m c19rModel, k int) *gorm.DB {
		// the table AND the condition come through scopes only
		return h.Scopes(func(d *gorm.DB) *gorm.DB { return d.Table(m.Table) }).Scopes(func(d *gorm.DB) *gorm.DB {
			return d.Where(clause.Lte{Column: m.IC, Value: 40 + k%20})
		})
	})
	add("clauses_where", "", true, func(h *gorm.DB, m c19rModel, k int) *gorm.DB {
		return h.Clauses(clause.Where{Exprs: []clause.Expression{clause.Gt{Column: m.IC, Value: k % 25}, clause.Neq{Column: m.SC, Value: c19Str(k)}}})
	})
	add("clauses_order_limit", "", false, func(h *gorm.DB, m c19rModel, k int) *gorm.DB {
		n := 1 + k%5
		return h.Clauses(clause.OrderBy{Columns: []clause.OrderByColumn{{Column: clause.Column{Name: m.IC}, Desc: true}}}, clause.Limit{Limit: &n})
	})
	add("clauses_returning_where", "", true, func(h *gorm.DB, m c19rModel, k int) *gorm.DB {
		return h.Clauses(clause.Returning{Columns: []clause.Column{{Name: m.SC}}}).Where(m.IC+" > ?", k%30)
	})
	add("clauses_onconflict", "", false, func(h *gorm.DB, m c19rModel, k int) *gorm.DB {
		return h.Clauses(clause.OnConflict{DoNothing: true})
	})
	add("where_then_session", "", true, func(h *gorm.DB, m c19rModel, k int) *gorm.DB {
		return h.Where(m.IC+" > ?", k%30).Session(&gorm.Session{})
	})
	add("model_where_then_ctx", "", true, func(h *gorm.DB, m c19rModel, k int) *gorm.DB {
		return h.Model(m.New()).Where(m.SC+" <> ?", c19Str(k)).WithContext(c19Ctx)
	})
	add("where_then_debug", "", true, func(h *gorm.DB, m c19rModel, k int) *gorm.DB {
		return h.Where(m.IC+" <> ?", k%17).Debug()
	})
	add("where_then_skiptx_session", "", true, func(h *gorm.DB, m c19rModel, k int) *gorm.DB {
		return h.Where(m.IC+" <> ?", k%19).Session(&gorm.Session{SkipDefaultTransaction: true, QueryFields: true})
	})
	add("session_then_where", "", true, func(h *gorm.DB, m c19rModel, k int) *gorm.DB {
		return h.Session(&gorm.Session{}).Where(m.IC+" >= ?", k%10).Where(m.SC+" <> ?", "zz")
	})
	add("set_where", "", true, func(h *gorm.DB, m c19rModel, k int) *gorm.DB {
		return h.Set("c19:k", k).Where(m.IC+" <> ?", k%23)
	})
	add("attrs_assign", "", true, func(h *gorm.DB, m c19rModel, k int) *gorm.DB {
		return h.Where(map[string]interface{}{m.SC: fmt.Sprint("p", k%4)}).Attrs(map[string]interface{}{m.IC: 1 + k%5}).Assign(map[string]interface{}{m.IC: 2 + k%5})
	})
	return rs
}

// ---- finishers made ON the receiver -----------------------------------------------------------------------------

type c19rFin struct {
	Name  string
	Write bool
	Must  bool
	Raw   bool // Raw/Exec: the text is the user's (white space, comments …); compared against every real statement
	Run   func(q *gorm.DB, m c19rModel, k int) *gorm.DB
}

// white-space / comment / terminator shapes of user-written SQL text (an indented back-quoted block is the usual
// spelling of raw SQL in Go)
var c19rPre = []string{"", "\n\t\t", " ", "\t", "\r\n  ", "\n\n", "-- c19\n", "/* c19 */ ", " \n\t /* x */\n\t"}
var c19rPost = []string{"", "\n\t", " ", "\t\t", "\r\n", ";", " ;\n", "\n-- tail", " /* tail */ ", "\n\n\t "}
var c19rSep = []string{" ", "\n\t\t", "  ", "\t", "\n\t\t -- inner\n\t\t", " /* i */ "}

func c19rShape(k int) (pre, post, sep string) {
	return c19rPre[k%len(c19rPre)], c19rPost[(k/len(c19rPre))%len(c19rPost)], c19rSep[(k/7)%len(c19rSep)]
}

func c19rFins() []c19rFin {
	var fs []c19rFin
	add := func(name string, write, must bool, f func(q *gorm.DB, m c19rModel, k int) *gorm.DB) {
		fs = append(fs, c19rFin{Name: name, Write: write, Must: must, Run: f})
	}
	raw := func(name string, write bool, f func(q *gorm.DB, m c19rModel, k int) *gorm.DB) {
		fs = append(fs, c19rFin{Name: name, Write: write, Must: true, Raw: true, Run: f})
	}
	// reads
	add("find", false, true, func(q *gorm.DB, m c19rModel, k int) *gorm.DB { return q.Find(m.Slice()) })
	add("find_inline", false, true, func(q *gorm.DB, m c19rModel, k int) *gorm.DB {
		return q.Find(m.Slice(), m.IC+" <> ?", 1000+k)
	})
	add("first", false, true, func(q *gorm.DB, m c19rModel, k int) *gorm.DB { return q.First(m.New()) })
	add("take", false, true, func(q *gorm.DB, m c19rModel, k int) *gorm.DB { return q.Take(m.New()) })
	add("last", false, true, func(q *gorm.DB, m c19rModel, k int) *gorm.DB { return q.Last(m.New()) })
	add("first_keyed_dest", false, true, func(q *gorm.DB, m c19rModel, k int) *gorm.DB { return q.First(m.Keyed(k)) })
	add("count", false, true, func(q *gorm.DB, m c19rModel, k int) *gorm.DB {
		var n int64
		return q.Model(m.New()).Count(&n)
	})
	add("pluck", false, true, func(q *gorm.DB, m c19rModel, k int) *gorm.DB {
		var ss []string
		return q.Model(m.New()).Pluck(m.SC, &ss)
	})
	add("scan_maps", false, true, func(q *gorm.DB, m c19rModel, k int) *gorm.DB {
		var rs []map[string]interface{}
		return q.Model(m.New()).Scan(&rs)
	})
	add("rows", false, true, func(q *gorm.DB, m c19rModel, k int) *gorm.DB {
		c := q.Model(m.New()).Where(m.IC+" < ?", 500+k%9)
		if rows, _ := c.Rows(); rows != nil {
			rows.Close()
		}
		return c
	})
	add("row", false, true, func(q *gorm.DB, m c19rModel, k int) *gorm.DB {
		c := q.Model(m.New()).Where(m.IC+" < ?", 500+k%9)
		if row := c.Row(); row != nil {
			var x interface{}
			_ = row.Scan(&x)
		}
		return c
	})
	add("first_or_init", false, false, func(q *gorm.DB, m c19rModel, k int) *gorm.DB { return q.FirstOrInit(m.New()) })
	// history: ONE sub-query handle (built from the same handle, so it is a dry-run handle in the dry runs) bound by two
	// statements, each binding a value of its own before it; the second statement is the one exposed / compared
	add("subquery_reused", false, true, func(q *gorm.DB, m c19rModel, k int) *gorm.DB {
		base := q.Session(&gorm.Session{})
		sub := base.Session(&gorm.Session{NewDB: true}).Table(m.Table).Select(m.PK).Where(m.IC+" > ?", k%20)
		base.Where(m.SC+" = ? AND "+m.PK+" IN (?)", "first"+c19Str(k), sub).Find(m.Slice())
		return base.Where(m.SC+" <> ? AND "+m.PK+" IN (?)", "second"+c19Str(k), sub).Find(m.Slice())
	})
	// writes
	add("update", true, true, func(q *gorm.DB, m c19rModel, k int) *gorm.DB {
		return q.Model(m.New()).Update(m.SC, c19Str(k))
	})
	add("update_no_model", true, true, func(q *gorm.DB, m c19rModel, k int) *gorm.DB {
		return q.Update(m.SC, c19Str(k)) // the receiver must supply Model / Table
	})
	add("updates_map", true, true, func(q *gorm.DB, m c19rModel, k int) *gorm.DB {
		return q.Model(m.New()).Updates(map[string]interface{}{m.SC: c19Str(k), m.IC: k % 9})
	})
	add("updates_struct", true, true, func(q *gorm.DB, m c19rModel, k int) *gorm.DB {
		return q.Model(m.New()).Updates(m.Fresh(k))
	})
	add("updates_keyed_value", true, true, func(q *gorm.DB, m c19rModel, k int) *gorm.DB {
		return q.Updates(m.Full(k)) // keyed struct as the update VALUE
	})
	add("update_column", true, true, func(q *gorm.DB, m c19rModel, k int) *gorm.DB {
		return q.Model(m.New()).UpdateColumn(m.IC, k%77)
	})
	add("update_expr", true, true, func(q *gorm.DB, m c19rModel, k int) *gorm.DB {
		return q.Model(m.New()).Update(m.IC, gorm.Expr(m.IC+" + ?", 1+k%3))
	})
	add("delete", true, true, func(q *gorm.DB, m c19rModel, k int) *gorm.DB { return q.Delete(m.New()) })
	add("delete_keyed", true, true, func(q *gorm.DB, m c19rModel, k int) *gorm.DB { return q.Delete(m.Keyed(k)) })
	add("delete_inline", true, true, func(q *gorm.DB, m c19rModel, k int) *gorm.DB {
		return q.Delete(m.New(), m.IC+" = ?", 2000+k)
	})
	add("create", true, true, func(q *gorm.DB, m c19rModel, k int) *gorm.DB { return q.Create(m.Fresh(k)) })
	add("create_map", true, true, func(q *gorm.DB, m c19rModel, k int) *gorm.DB {
		return q.Model(m.New()).Create(map[string]interface{}{m.SC: c19Str(k), m.IC: k % 80, m.PK: 7000 + k%50})
	})
	add("save_keyed", true, true, func(q *gorm.DB, m c19rModel, k int) *gorm.DB { return q.Save(m.Full(k)) })
	add("first_or_create", true, false, func(q *gorm.DB, m c19rModel, k int) *gorm.DB { return q.FirstOrCreate(m.New()) })
	// raw text in many white-space shapes
	raw("raw_scan_ws", false, func(q *gorm.DB, m c19rModel, k int) *gorm.DB {
		pre, post, sep := c19rShape(k)
		var rs []map[string]interface{}
		return q.Raw(pre+"SELECT "+m.SC+", "+m.IC+sep+"FROM "+m.Table+sep+"WHERE "+m.IC+" > ?"+sep+"ORDER BY "+m.PK+post, k%30).Scan(&rs)
	})
	raw("raw_find_ws_in", false, func(q *gorm.DB, m c19rModel, k int) *gorm.DB {
		pre, post, sep := c19rShape(k)
		return q.Raw(pre+"SELECT *"+sep+"FROM "+m.Table+sep+"WHERE "+m.SC+" = ? OR "+m.IC+" IN ?"+post, c19Str(k), []int{k % 50, 1 + k%50}).Find(m.Slice())
	})
	raw("raw_rows_ws_named", false, func(q *gorm.DB, m c19rModel, k int) *gorm.DB {
		pre, post, sep := c19rShape(k)
		c := q.Raw(pre+"SELECT "+m.SC+sep+"FROM "+m.Table+sep+"WHERE "+m.IC+" > @a"+post, sql.Named("a", k%30))
		if rows, _ := c.Rows(); rows != nil {
			rows.Close()
		}
		return c
	})
	raw("raw_row_ws", false, func(q *gorm.DB, m c19rModel, k int) *gorm.DB {
		pre, post, sep := c19rShape(k)
		c := q.Raw(pre+"SELECT count(*)"+sep+"FROM "+m.Table+sep+"WHERE "+m.IC+" <> ?"+post, k%30)
		if row := c.Row(); row != nil {
			var n int
			_ = row.Scan(&n)
		}
		return c
	})
	raw("exec_ws", true, func(q *gorm.DB, m c19rModel, k int) *gorm.DB {
		pre, post, sep := c19rShape(k)
		return q.Exec(pre+"UPDATE "+m.Table+sep+"SET "+m.SC+" = ?"+sep+"WHERE "+m.IC+" = ?"+post, c19Str(k), k%50)
	})
	raw("exec_ws_named", true, func(q *gorm.DB, m c19rModel, k int) *gorm.DB {
		pre, post, sep := c19rShape(k)
		return q.Exec(pre+"UPDATE "+m.Table+sep+"SET "+m.IC+" = "+m.IC+" + @d"+sep+"WHERE "+m.SC+" = @s"+post,
			map[string]interface{}{"d": 1 + k%4, "s": fmt.Sprint("p", k%3)})
	})
	raw("exec_ws_delete", true, func(q *gorm.DB, m c19rModel, k int) *gorm.DB {
		pre, post, sep := c19rShape(k)
		return q.Exec(pre+"DELETE FROM "+m.Table+sep+"WHERE "+m.IC+" = ?"+post, 3000+k)
	})
	return fs
}

// ---- bases (how the receiver's root is obtained, in every run) and modes (the real run only) --------------------------

var c19rBases = []string{"id", "session", "ctx", "debug", "newdb", "tx", "transaction"}

// c19rOnBase runs body on base(h).  For "tx"/"transaction" an explicit user transaction is opened on h first (its begin /
// rollback are the user's own driver calls: the recorder is reset after the begin and the events are cut before the end).
func c19rOnBase(base string, h *gorm.DB, rec *Recorder, body func(b *gorm.DB)) (evs []Event) {
	switch base {
	case "session":
		rec.Reset()
		body(h.Session(&gorm.Session{}))
	case "ctx":
		rec.Reset()
		body(h.WithContext(c19Ctx))
	case "debug":
		rec.Reset()
		body(h.Debug())
	case "newdb":
		rec.Reset()
		body(h.Session(&gorm.Session{NewDB: true}))
	case "tx":
		tx := h.Begin()
		if tx.Error != nil { // h already is a transaction (real run in a tx mode)
			rec.Reset()
			body(h)
			return rec.Snapshot()
		}
		rec.Reset()
		body(tx)
		evs = rec.Snapshot()
		tx.Rollback()
		return evs
	case "transaction":
		_ = h.Transaction(func(tx *gorm.DB) error {
			rec.Reset()
			body(tx)
			evs = rec.Snapshot()
			return fmt.Errorf("c19: roll back")
		})
		return evs
	default:
		rec.Reset()
		body(h)
	}
	return rec.Snapshot()
}

var c19rModes = []string{"tx", "tx_prepare", "tx_skip", "tx_debug", "tx_nested", "pool", "pool_prepare", "pool_skip", "pool_prepare_skip"}

func c19rIsPool(mode string) bool { return strings.HasPrefix(mode, "pool") }

// c19rRealRoot: the root handle of the real run.  done() undoes the run (rollback); pool modes are undone by the caller
// (the world is rebuilt after a write).
func c19rRealRoot(mode string, db *gorm.DB) (root *gorm.DB, done func()) {
	switch mode {
	case "pool":
		return db, func() {}
	case "pool_prepare":
		return db.Session(&gorm.Session{PrepareStmt: true}), func() {}
	case "pool_skip":
		return db.Session(&gorm.Session{SkipDefaultTransaction: true}), func() {}
	case "pool_prepare_skip":
		return db.Session(&gorm.Session{PrepareStmt: true, SkipDefaultTransaction: true}), func() {}
	}
	tx := db.Begin()
	done = func() { tx.Rollback() }
	switch mode {
	case "tx_prepare":
		return tx.Session(&gorm.Session{PrepareStmt: true}), done
	case "tx_skip":
		return tx.Session(&gorm.Session{SkipDefaultTransaction: true}), done
	case "tx_debug":
		return tx.Debug(), done
	case "tx_nested":
		return tx.Session(&gorm.Session{}), done // the nested block is opened by c19rRun (needs a closure)
	}
	return tx, done
}

// ---- one case ----------------------------------------------------------------------------------------------------------

type c19rSpec struct {
	Cfg   string `json:"cfg"`
	Model string `json:"model"`
	Base  string `json:"base"`
	Recv  string `json:"recv"`
	Fin   string `json:"fin"`
	Mode  string `json:"mode"`
	K     int    `json:"k"`
}

type c19rObs struct {
	Late   c19RunObs `json:"late"`
	Early  c19RunObs `json:"early"`
	Config c19RunObs `json:"config"`
	ToSQL  c19RunObs `json:"tosql"`
	Real   c19RunObs `json:"real"`
}

func c19rCollect(w *c19World, evs []Event, res *gorm.DB, real bool) (o c19RunObs) {
	o.Events = evKinds(evs)
	if real {
		for _, e := range evs {
			if c19IsStmtKind(e.Kind) && !isTxEvent(e) && !strings.HasPrefix(strings.ToUpper(strings.TrimSpace(e.SQL)), "SAVEPOINT") &&
				!strings.HasPrefix(strings.ToUpper(strings.TrimSpace(e.SQL)), "RELEASE") {
				o.Stmts = append(o.Stmts, c19Stmt{Kind: e.Kind, SQL: e.SQL, Args: c19NormArgs(e.Args)})
			}
		}
	}
	if res != nil {
		o.HasRes = true
		if res.Statement != nil {
			o.SQL = res.Statement.SQL.String()
			o.Vars = c19NormArgs(res.Statement.Vars)
			if !real {
				o.Explain = w.db.Dialector.Explain(o.SQL, res.Statement.Vars...)
			}
		}
		if res.Error != nil {
			o.Err = res.Error.Error()
		}
	}
	return
}

func c19rRun(w *c19World, spec c19rSpec, m c19rModel, rv c19rRecv, fin c19rFin) (obs c19rObs) {
	k := spec.K
	dry := &gorm.Session{DryRun: true}
	one := func(root *gorm.DB, real bool, f func(b *gorm.DB) *gorm.DB) (o c19RunObs) {
		var res *gorm.DB
		var pan c19RunObs
		var evs []Event
		c19Guard(&pan, func() { evs = c19rOnBase(spec.Base, root, w.rec, func(b *gorm.DB) { res = f(b) }) })
		if pan.Panic != "" {
			evs = w.rec.Snapshot()
		}
		o = c19rCollect(w, evs, res, real)
		o.Panic = pan.Panic
		return
	}
	obs.Late = one(w.db, false, func(b *gorm.DB) *gorm.DB { return fin.Run(rv.Build(b, m, k).Session(dry), m, k) })
	obs.Early = one(w.db, false, func(b *gorm.DB) *gorm.DB { return fin.Run(rv.Build(b.Session(dry), m, k), m, k) })
	obs.Config = one(w.dry, false, func(b *gorm.DB) *gorm.DB { return fin.Run(rv.Build(b, m, k), m, k) })
	var str string
	obs.ToSQL = one(w.db, false, func(b *gorm.DB) *gorm.DB {
		var res *gorm.DB
		str = rv.Build(b, m, k).ToSQL(func(tx *gorm.DB) *gorm.DB {
			res = fin.Run(tx, m, k)
			return res
		})
		return res
	})
	obs.ToSQL.Explain = str
	// real
	root, done := c19rRealRoot(spec.Mode, w.db)
	if spec.Mode == "tx_nested" {
		var o c19RunObs
		_ = root.Transaction(func(tx2 *gorm.DB) error {
			o = one(tx2, true, func(b *gorm.DB) *gorm.DB { return fin.Run(rv.Build(b, m, k), m, k) })
			return nil
		})
		obs.Real = o
	} else {
		obs.Real = one(root, true, func(b *gorm.DB) *gorm.DB { return fin.Run(rv.Build(b, m, k), m, k) })
	}
	done()
	w.rec.Reset()
	return
}

// c19rSkipLead: the text after leading white space and comments (so that verb + table are recognised)
func c19rSkipLead(s string) string {
	for {
		t := strings.TrimLeft(s, " \t\r\n")
		switch {
		case strings.HasPrefix(t, "--"):
			if i := strings.IndexByte(t, '\n'); i >= 0 {
				s = t[i+1:]
				continue
			}
			return ""
		case strings.HasPrefix(t, "/*"):
			if i := strings.Index(t, "*/"); i >= 0 {
				s = t[i+2:]
				continue
			}
			return ""
		}
		return t
	}
}

func c19rVerbTable(s string) (string, string) { return c19VerbTable(c19rSkipLead(s)) }

func c19rSame(a, b *c19RunObs) bool {
	return a.SQL == b.SQL && (reflect.DeepEqual(a.Vars, b.Vars) || (len(a.Vars) == 0 && len(b.Vars) == 0))
}

func c19rJudge(fin c19rFin, obs *c19rObs) (msgs []string, compared bool) {
	bad := func(f string, a ...interface{}) { msgs = append(msgs, fmt.Sprintf(f, a...)) }
	silent := func(n string, o *c19RunObs, none bool) {
		for _, e := range o.Events {
			if none || (e != "begin" && e != "commit" && e != "rollback") {
				bad("%s run reached the driver: %v", n, o.Events)
				return
			}
		}
	}
	silent("DryRun session (after the chain)", &obs.Late, false)
	silent("DryRun session (before the chain)", &obs.Early, false)
	silent("DryRun config", &obs.Config, false)
	silent("ToSQL on the receiver", &obs.ToSQL, true)
	ex := &obs.Late
	if !ex.HasRes || ex.Panic != "" {
		return
	}
	// E1
	for _, r := range []struct {
		n string
		o *c19RunObs
	}{{"a DryRun session opened before the chain", &obs.Early}, {"DryRun by configuration", &obs.Config}, {"the handle ToSQL passes to its callback", &obs.ToSQL}} {
		if r.o.HasRes && r.o.Panic == "" && !c19rSame(r.o, ex) {
			bad("%s exposes %q %v, a DryRun session derived from the receiver exposes %q %v", r.n, r.o.SQL, r.o.Vars, ex.SQL, ex.Vars)
		}
	}
	if obs.ToSQL.Panic == "" && obs.ToSQL.Explain != ex.Explain {
		bad("receiver.ToSQL returns %q, a DryRun session derived from the receiver exposes %q", obs.ToSQL.Explain, ex.Explain)
	}
	// E2
	real := &obs.Real
	if real.Panic != "" {
		return
	}
	if ex.SQL == "" {
		if fin.Must && len(real.Stmts) > 0 && ex.Err == "" {
			bad("DryRun exposes no statement although the real run sends %q", real.Stmts[0].SQL)
		}
		return
	}
	verb, tbl := c19rVerbTable(ex.SQL)
	var cands []c19Stmt
	for _, s := range real.Stmts {
		v2, t2 := c19rVerbTable(s.SQL)
		if fin.Raw || (verb != "" && v2 == verb && t2 == tbl) {
			cands = append(cands, s)
		}
	}
	if len(cands) == 0 {
		if fin.Must && real.Err == "" && len(real.Stmts) > 0 {
			bad("the real run sent no %s on %s; DryRun exposed %q", verb, tbl, ex.SQL)
		}
		return
	}
	compared = true
	var sameText *c19Stmt
	for i := range cands {
		c := &cands[i]
		if c.SQL == ex.SQL {
			if reflect.DeepEqual(c.Args, ex.Vars) || (len(c.Args) == 0 && len(ex.Vars) == 0) {
				return
			}
			if sameText == nil {
				sameText = c
			}
		}
	}
	if sameText != nil {
		bad("DryRun bound values %v differ from the values sent for real %v (%s, %s)", ex.Vars, sameText.Args, sameText.Kind, sameText.SQL)
		return
	}
	last := cands[len(cands)-1]
	bad("DryRun statement %q differs from the statement sent for real %q (%s)", ex.SQL, last.SQL, last.Kind)
	return
}

func c19rDropWorld(key string) {
	if w, ok := c19Worlds[key]; ok {
		if s, err := w.db.DB(); err == nil {
			s.Close()
		}
		delete(c19Worlds, key)
	}
}

type c19rSuite struct {
	recvs map[string]c19rRecv
	fins  map[string]c19rFin
	rl    []c19rRecv
	fl    []c19rFin
}

func c19rNew() *c19rSuite {
	s := &c19rSuite{recvs: map[string]c19rRecv{}, fins: map[string]c19rFin{}, rl: c19rRecvs(), fl: c19rFins()}
	for _, r := range s.rl {
		s.recvs[r.Name] = r
	}
	for _, f := range s.fl {
		s.fins[f.Name] = f
	}
	return s
}

func (s *c19rSuite) eval(r *Result, spec c19rSpec) {
	m, ok0 := c19rModels[spec.Model]
	rv, ok1 := s.recvs[spec.Recv]
	fin, ok2 := s.fins[spec.Fin]
	if !ok0 || !ok1 || !ok2 {
		r.Note("unknown model/receiver/finisher in spec %+v", spec)
		return
	}
	if rv.Only != "" && rv.Only != spec.Model {
		m = c19rModels[rv.Only]
		spec.Model = rv.Only
	}
	key := spec.Cfg
	if c19rIsPool(spec.Mode) {
		key += "#pool"
	}
	w, ok := c19Worlds[key]
	if !ok {
		w = c19Open(spec.Cfg)
		c19Worlds[key] = w
	}
	obs := c19rRun(w, spec, m, rv, fin)
	if c19rIsPool(spec.Mode) && (fin.Write || len(obs.Real.Stmts) > 1) {
		c19rDropWorld(key) // the real run was not rolled back: next case starts from fresh data
	}
	msgs, compared := c19rJudge(fin, &obs)
	r.Case("recv", spec.Recv+"|"+spec.Fin+"|"+spec.Model+"|"+spec.Base+"|"+spec.Mode+"|"+spec.Cfg, compared)
	r.H("recv_receiver", spec.Recv)
	r.H("recv_finisher", spec.Fin)
	r.H("recv_model", spec.Model)
	r.H("recv_base", spec.Base)
	r.H("recv_mode", spec.Mode)
	r.H("recv_cfg", spec.Cfg)
	r.H("recv_main_compared", fmt.Sprint(compared))
	for _, st := range obs.Real.Stmts {
		r.H("recv_real_event_kind", st.Kind)
	}
	if fin.Raw && compared {
		pre, post, _ := c19rShape(spec.K)
		r.H("recv_raw_shape", fmt.Sprintf("lead=%t trail=%t", pre != "", post != ""))
	}
	if obs.Real.Err != "" {
		e := obs.Real.Err
		if len(e) > 40 {
			e = e[:40]
		}
		r.H("recv_real_error", e)
	}
	for _, p := range []string{obs.Late.Panic, obs.Early.Panic, obs.Config.Panic, obs.ToSQL.Panic, obs.Real.Panic} {
		if p != "" {
			r.H("recv_panic", spec.Recv+"/"+spec.Fin)
			break
		}
	}
	for _, msg := range msgs {
		r.Violate(Violation{Kind: "e2e", Suite: "recv", Input: spec, Observed: obs, Expected: msg})
	}
}

func init() {
	s := c19rNew()
	register("C19", func(r *Result, rng *rand.Rand, tier string) {
		pick := func(xs []string) string { return xs[rng.Intn(len(xs))] }
		// (a) every receiver x every finisher: plain configuration, receiver built on the root, real run in a transaction
		for _, rv := range s.rl {
			for _, f := range s.fl {
				if expired() {
					return
				}
				s.eval(r, c19rSpec{Cfg: "plain", Model: pick(c19rModelNames), Base: "id", Recv: rv.Name, Fin: f.Name, Mode: "tx", K: rng.Intn(1000)})
			}
		}
		// (b) every finisher x every mode x (plain, prep) configuration, random receiver / base
		for _, f := range s.fl {
			for _, mode := range c19rModes {
				for _, cfg := range []string{"plain", "prep"} {
					if expired() {
						return
					}
					s.eval(r, c19rSpec{Cfg: cfg, Model: pick(c19rModelNames), Base: pick(c19rBases), Recv: s.rl[rng.Intn(len(s.rl))].Name, Fin: f.Name, Mode: mode, K: rng.Intn(100000)})
				}
			}
		}
		// (c) every receiver x every base, random finisher / mode / configuration
		for _, rv := range s.rl {
			for _, b := range c19rBases {
				if expired() {
					return
				}
				s.eval(r, c19rSpec{Cfg: pick(c19CfgNames), Model: pick(c19rModelNames), Base: b, Recv: rv.Name, Fin: s.fl[rng.Intn(len(s.fl))].Name, Mode: pick(c19rModes), K: rng.Intn(100000)})
			}
		}
		// (d) random
		extra := 800
		if tier == "thorough" {
			extra = 150000
		} else if tier == "search" {
			extra = 30000
		}
		for i := 0; i < extra && !expired(); i++ {
			s.eval(r, c19rSpec{Cfg: pick(c19CfgNames), Model: pick(c19rModelNames), Base: pick(c19rBases), Recv: s.rl[rng.Intn(len(s.rl))].Name,
				Fin: s.fl[rng.Intn(len(s.fl))].Name, Mode: pick(c19rModes), K: rng.Intn(100000)})
		}
	})
	replayers["C19/recv"] = func(r *Result, input json.RawMessage) {
		var spec c19rSpec
		if err := json.Unmarshal(input, &spec); err != nil {
			r.Note("bad replay input: %v", err)
			return
		}
		s.eval(r, spec)
	}
}
