package main

// C01 end-to-end oracle on the real code: SQLite behind the recording driver, `?` dialect (the stock SQLite
// dialector) and `$n` dialect (the same dialector with BindVarTo writing `$`+len(stmt.Vars); SQLite accepts `$1`
// as a parameter name and go-sqlite3 binds positional args by ordinal, so the statements really execute).
//
// Every bound value is a unique hostile marker.  For each statement the driver receives:
//   (1) no marker occurs in the query text,
//   (2) the number of placeholders found by a small SQL lexer (string literals / quoted identifiers skipped)
//       equals len(args); for `$n` the numbers are exactly 1..n in order,
//   (3) the args equal the left-to-right flattening the GENERATOR computed when it built the chain.
// Latitude: statements gorm issues on its own (BEGIN/COMMIT/SAVEPOINT) are skipped; LIMIT/OFFSET are printed
// into the text by the SQLite dialector's own clause builder (outside /repo) and carry no marker; a database
// error is not judged (only counted).  Out of scope: Migrator DDL (CreateView interpolates via Explain).

import (
	"database/sql"
	"encoding/json"
	"errors"
	"fmt"
	"math/rand"
	"reflect"
	"strconv"
	"strings"
	"sync/atomic"

	sqlite3 "github.com/mattn/go-sqlite3"
	"gorm.io/driver/sqlite"
	"gorm.io/gorm"
	"gorm.io/gorm/clause"
	"gorm.io/gorm/logger"
)

type c01SqliteDollar struct{ sqlite.Dialector }

func (c01SqliteDollar) BindVarTo(writer clause.Writer, stmt *gorm.Statement, v interface{}) {
	writer.WriteByte('$')
	writer.WriteString(strconv.Itoa(len(stmt.Vars)))
}

func c01OpenSqlite(dialect string) (*gorm.DB, *Recorder) {
	n := atomic.AddInt64(&memCounter, 1)
	dsn := fmt.Sprintf("file:verifmem%d?mode=memory&cache=shared", n)
	rec := &Recorder{}
	sqlDB := sql.OpenDB(&recConnector{dsn: dsn, drv: &sqlite3.SQLiteDriver{}, rec: rec})
	sqlDB.SetMaxIdleConns(4)
	var d gorm.Dialector = sqlite.Dialector{Conn: sqlDB}
	if dialect == "dollar" {
		d = c01SqliteDollar{sqlite.Dialector{Conn: sqlDB}}
	}
	db, err := gorm.Open(d, &gorm.Config{Logger: logger.Discard, NowFunc: fixedNowFunc})
	if err != nil {
		panic(err)
	}
	if err := db.AutoMigrate(&VUser{}, &VSoft{}); err != nil {
		panic(err)
	}
	seedUsers(db, 12)
	for i := 1; i <= 6; i++ {
		db.Create(&VSoft{ID: uint(i), Name: fmt.Sprint("n", i%3), Age: 20 + i})
	}
	c01SeedRel(db)
	rec.Reset()
	return db, rec
}

// ---- lexer ------------------------------------------------------------------------------------------

// c01Placeholders returns the placeholders outside quoted regions: for `?` a list of 0s, for `$n` the numbers
func c01Placeholders(sqlText string) []int {
	out := []int{}
	var q byte
	for i := 0; i < len(sqlText); i++ {
		c := sqlText[i]
		if q != 0 {
			if c == q {
				if i+1 < len(sqlText) && sqlText[i+1] == q {
					i++
					continue
				}
				q = 0
			}
			continue
		}
		switch c {
		case '\'', '"', '`':
			q = c
		case '?':
			out = append(out, 0)
		case '$':
			j := i + 1
			for j < len(sqlText) && sqlText[j] >= '0' && sqlText[j] <= '9' {
				j++
			}
			if j > i+1 {
				n, _ := strconv.Atoi(sqlText[i+1 : j])
				out = append(out, n)
				i = j - 1
			}
		}
	}
	return out
}

// ---- case generator ------------------------------------------------------------------------------------

type c01E2EArgs struct {
	Name string
	Age  int
}

type c01Step struct {
	Desc  string
	Group string // select table joins where having order none
	Args  []interface{}
	Apply func(*gorm.DB) *gorm.DB
}

type c01Expect struct {
	Prefix string // statement keyword the expectation applies to
	Args   []string
}

type c01Case struct {
	Desc    []string
	Fin     string
	M       *markerGen
	Run     func(db *gorm.DB) *gorm.DB
	Expect  []c01Expect
	ExtraOK bool // statements after the expected ones (preload queries) are judged on text / placeholder count only
}

// c01AnyCond: a condition from one of the generators (shared genCond, typed lists, named containers, sub-queries)
func c01AnyCond(rng *rand.Rand, m *markerGen, db *gorm.DB) condForm {
	switch r := rng.Intn(12); {
	case r < 5:
		c01H("e2e.cond-source", "genCond")
		return genCond(rng, m, db, 1)
	case r < 8:
		c01H("e2e.cond-source", "typed-list")
		return c01TypedCond(rng, m, "")
	case r < 11:
		c01H("e2e.cond-source", "named")
		return c01NamedCond(rng, m)
	default:
		c01H("e2e.cond-source", "sub-query")
		return c01SubCond(rng, m, db, false)
	}
}

func c01SimpleCond(rng *rand.Rand, m *markerGen) condForm {
	switch rng.Intn(9) {
	case 7:
		a := m.S()
		return condForm{"clause.IN{1 value}", clause.IN{Column: "name", Values: []interface{}{a}}, nil, []interface{}{a}}
	case 8:
		a := m.I()
		return condForm{"map{age: []int{1}}", map[string]interface{}{"age": []int{a}}, nil, []interface{}{a}}
	case 5:
		a, b, c := m.I(), m.I(), m.I()
		return condForm{"age IN (?) []int{3}", "age IN (?)", []interface{}{[]int{a, b, c}}, []interface{}{a, b, c}}
	case 6:
		a, b, c := m.S(), m.S(), m.S()
		return condForm{"name IN (@ns) []string{3}", "name IN (@ns)", []interface{}{sql.Named("ns", []string{a, b, c})}, []interface{}{a, b, c}}
	case 0:
		s := m.S()
		return condForm{"name <> ?", "name <> ?", []interface{}{s}, []interface{}{s}}
	case 1:
		a, b := m.I(), m.I()
		return condForm{"age IN (?,?)", "age IN (?,?)", []interface{}{a, b}, []interface{}{a, b}}
	case 2:
		a, b := m.I(), m.I()
		return condForm{"age IN ? []int", "age IN ?", []interface{}{[]int{a, b}}, []interface{}{a, b}}
	case 3:
		a, s := m.I(), m.S()
		return condForm{"named", "age > @a OR name = @n", []interface{}{sql.Named("n", s), sql.Named("a", a)}, []interface{}{a, s}}
	default:
		a, b := m.I(), m.I()
		return condForm{"gorm.Expr arg", "age > ?", []interface{}{gorm.Expr("? + ?", a, b)}, []interface{}{a, b}}
	}
}

type c01Caps struct{ sel, order, group, joins, table bool }

func c01GenSteps(rng *rand.Rand, m *markerGen, db *gorm.DB, caps c01Caps, whereOnly bool) []c01Step {
	var steps []c01Step
	n := rng.Intn(6)
	haveSelect, haveTable, haveGroup, haveOrder, firstWhere := false, false, false, false, true
	nj := 0
	for i := 0; i < n; i++ {
		k := rng.Intn(25)
		switch {
		case k < 11 || whereOnly:
			c := c01AnyCond(rng, m, db)
			op := rng.Intn(6)
			if firstWhere && op >= 3 && op < 5 {
				op = 0 // a leading Or is re-ordered by Where.Build; keep the generator's order trivially right
			}
			firstWhere = false
			switch {
			case op < 3:
				steps = append(steps, c01Step{"Where(" + c.desc + ")", "where", c.bound, func(d *gorm.DB) *gorm.DB { return d.Where(c.query, c.args...) }})
			case op < 5:
				steps = append(steps, c01Step{"Or(" + c.desc + ")", "where", c.bound, func(d *gorm.DB) *gorm.DB { return d.Or(c.query, c.args...) }})
			default:
				steps = append(steps, c01Step{"Not(" + c.desc + ")", "where", c.bound, func(d *gorm.DB) *gorm.DB { return d.Not(c.query, c.args...) }})
			}
		case k == 11 && caps.sel && !haveSelect:
			haveSelect = true
			a := m.I()
			steps = append(steps, c01Step{"Select(expr, arg)", "select", []interface{}{a}, func(d *gorm.DB) *gorm.DB {
				return d.Select("v_users.*, age + ? AS x", a)
			}})
		case k == 12 && caps.sel && !haveSelect:
			haveSelect = true
			s, a := m.S(), m.I()
			sub := db.Session(&gorm.Session{NewDB: true}).Table("v_users AS s2").Select("COUNT(*)").Where("s2.name = ? OR s2.age = ?", s, a)
			steps = append(steps, c01Step{"Select(sub-query arg)", "select", []interface{}{s, a}, func(d *gorm.DB) *gorm.DB {
				return d.Select("v_users.*, (?) AS cnt", sub)
			}})
		case k == 13 && caps.joins:
			nj++
			alias := fmt.Sprint("j", nj)
			s := m.S()
			steps = append(steps, c01Step{"Joins(raw, arg)", "joins", []interface{}{s}, func(d *gorm.DB) *gorm.DB {
				return d.Joins("LEFT JOIN v_users AS "+alias+" ON "+alias+".id = v_users.id AND "+alias+".name <> ?", s)
			}})
		case k == 14 && caps.joins:
			nj++
			alias := fmt.Sprint("j", nj)
			a, s := m.I(), m.S()
			sub := db.Session(&gorm.Session{NewDB: true}).Model(&VUser{}).Select("id").Where("age < ?", a)
			steps = append(steps, c01Step{"Joins(sub-query, arg)", "joins", []interface{}{a, s}, func(d *gorm.DB) *gorm.DB {
				return d.Joins("LEFT JOIN (?) AS "+alias+" ON "+alias+".id = v_users.id AND v_users.email <> ?", sub, s)
			}})
		case k == 20 && caps.sel && !haveSelect:
			haveSelect = true
			nm := c01GenNamed(rng, m, "v_users.")
			steps = append(steps, c01Step{"Select(" + nm.Desc + ")", "select", nm.Bound, func(d *gorm.DB) *gorm.DB {
				return d.Select("v_users.*, (CASE WHEN "+nm.Tmpl+" THEN 1 ELSE 0 END) AS x", nm.Args...)
			}})
		case k == 21 && caps.joins:
			nj++
			alias := fmt.Sprint("j", nj)
			nm := c01GenNamed(rng, m, alias+".")
			steps = append(steps, c01Step{"Joins(raw, " + nm.Desc + ")", "joins", nm.Bound, func(d *gorm.DB) *gorm.DB {
				return d.Joins("LEFT JOIN v_users AS "+alias+" ON "+alias+".id = v_users.id AND ("+nm.Tmpl+")", nm.Args...)
			}})
		case k == 22 && caps.joins:
			nj++
			alias := fmt.Sprint("j", nj)
			c := c01TypedCond(rng, m, alias+".")
			for { // raw joins take a text + args: only the template routes
				if _, ok := c.query.(string); ok {
					break
				}
				c = c01TypedCond(rng, m, alias+".")
			}
			steps = append(steps, c01Step{"Joins(raw, " + c.desc + ")", "joins", c.bound, func(d *gorm.DB) *gorm.DB {
				return d.Joins("INNER JOIN v_users AS "+alias+" ON "+alias+".id = v_users.id AND "+c.query.(string), c.args...)
			}})
		case k == 23 && caps.order && !haveOrder:
			haveOrder = true
			sub, b, sd := c01GenSub(rng, m, db, rng.Intn(3), true)
			steps = append(steps, c01Step{"Order(clause.Expr{sub-query " + sd + "})", "order", b, func(d *gorm.DB) *gorm.DB {
				return d.Order(clause.OrderBy{Expression: clause.Expr{SQL: "(age > (?)) DESC", Vars: []interface{}{sub}}})
			}})
		case k == 24 && !whereOnly:
			c := c01SubCond(rng, m, db, false)
			firstWhere = false
			steps = append(steps, c01Step{"Where(" + c.desc + ")", "where", c.bound, func(d *gorm.DB) *gorm.DB { return d.Where(c.query, c.args...) }})
		case k == 15 && caps.group && !haveGroup:
			haveGroup = true
			c := c01SimpleCond(rng, m)
			switch rng.Intn(5) {
			case 0:
				c = c01TypedCond(rng, m, "")
			case 1:
				c = c01NamedCond(rng, m)
			case 2:
				c = c01SubCond(rng, m, db, true)
			}
			steps = append(steps, c01Step{"Group(name).Having(" + c.desc + ")", "having", c.bound, func(d *gorm.DB) *gorm.DB {
				return d.Group("name").Having(c.query, c.args...)
			}})
		case k == 16 && caps.order && !haveOrder:
			haveOrder = true
			s := m.S()
			steps = append(steps, c01Step{"Order(clause.Expr)", "order", []interface{}{s}, func(d *gorm.DB) *gorm.DB {
				return d.Order(clause.OrderBy{Expression: clause.Expr{SQL: "CASE WHEN name = ? THEN 0 ELSE 1 END", Vars: []interface{}{s}}})
			}})
		case k == 17 && caps.table && !haveTable:
			haveTable = true
			a := m.I()
			sub := db.Session(&gorm.Session{NewDB: true}).Model(&VUser{}).Where("age > ?", a)
			steps = append(steps, c01Step{"Table((?) AS v_users, sub-query)", "table", []interface{}{a}, func(d *gorm.DB) *gorm.DB {
				return d.Table("(?) AS v_users", sub)
			}})
		case k == 18:
			l := 1 + rng.Intn(5)
			steps = append(steps, c01Step{fmt.Sprintf("Limit(%d).Offset(1)", l), "none", nil, func(d *gorm.DB) *gorm.DB { return d.Limit(l).Offset(1) }})
		default:
			c := c01SimpleCond(rng, m)
			firstWhere = false
			steps = append(steps, c01Step{"Clauses(Where{" + c.desc + "})", "where", c.bound, func(d *gorm.DB) *gorm.DB {
				exprs := d.Session(&gorm.Session{NewDB: true}).Statement.BuildCondition(c.query, c.args...)
				return d.Clauses(clause.Where{Exprs: exprs})
			}})
		}
	}
	return steps
}

func c01Apply(db *gorm.DB, steps []c01Step) *gorm.DB {
	for _, s := range steps {
		db = s.Apply(db)
	}
	return db
}

func c01ChainArgs(steps []c01Step) []interface{} {
	var out []interface{}
	for _, g := range []string{"select", "table", "joins", "where", "having", "order"} {
		for _, s := range steps {
			if s.Group == g {
				out = append(out, s.Args...)
			}
		}
	}
	return out
}

func c01Descs(steps []c01Step) []string {
	out := []string{}
	for _, s := range steps {
		out = append(out, s.Desc)
	}
	return out
}

var c01Finishers = []string{"Find", "Scan", "Take", "First", "Last", "Count", "Pluck", "FindInline", "Rows",
	"Update", "UpdatesMap", "UpdatesStruct", "UpdateColumn", "UpdateExpr", "UpdatesMapExpr", "Delete", "DeleteInline", "SoftDelete", "SoftFind",
	"CreateStruct", "CreateSlice", "CreateMap", "Upsert", "UpsertExpr", "UpsertUpdateAll", "FirstOrCreate",
	"RawPositional", "RawNamed", "RawMap", "RawStruct", "RawSubquery", "RawInRaw", "ExecPositional", "ExecNamed",
	"RelJoin", "RelJoin", "RelJoin", "RelJoin", "RawNamedGen", "RawNamedGen", "ExecNamedGen", "ExecNamedGen", "InlineNamed", "RawNested",
	"UpdateExprList", "UpdatesMapExprList", "CreateMapExprList", "UpdateSub", "UpdatesMapSub", "RawTypedList", "ExecTypedList"}

func nowArg() interface{} { return fixedNow }

// c01GenCase builds one case from its own seed (so that a replay can regenerate it)
func c01GenCase(seed int64, db *gorm.DB) *c01Case {
	rng := rand.New(rand.NewSource(seed))
	m := &markerGen{}
	fin := c01Finishers[rng.Intn(len(c01Finishers))]
	c := &c01Case{Fin: fin, M: m}
	exp := func(prefix string, args ...interface{}) {
		c.Expect = append(c.Expect, c01Expect{prefix, c01NormAll(args)})
	}
	cat := func(a []interface{}, b ...interface{}) []interface{} { return append(append([]interface{}{}, a...), b...) }
	switch fin {
	case "Find", "Scan", "Take", "Rows":
		steps := c01GenSteps(rng, m, db, c01Caps{true, true, true, true, true}, false)
		c.Desc = c01Descs(steps)
		exp("SELECT", c01ChainArgs(steps)...)
		c.Run = func(d *gorm.DB) *gorm.DB {
			tx := c01Apply(d, steps).Model(&VUser{})
			switch fin {
			case "Find":
				var us []VUser
				return tx.Find(&us)
			case "Scan":
				var rs []map[string]interface{}
				return tx.Scan(&rs)
			case "Rows":
				rows, err := tx.Rows()
				if err == nil {
					rows.Close()
				}
				return tx
			default:
				var u VUser
				return tx.Take(&u)
			}
		}
	case "First", "Last", "Count", "Pluck", "FindInline":
		steps := c01GenSteps(rng, m, db, c01Caps{false, false, false, true, true}, false)
		c.Desc = c01Descs(steps)
		args := c01ChainArgs(steps)
		var inline string
		if fin == "FindInline" {
			inline = m.S()
			args = cat(args, inline)
		}
		exp("SELECT", args...)
		c.Run = func(d *gorm.DB) *gorm.DB {
			tx := c01Apply(d, steps).Model(&VUser{})
			switch fin {
			case "First":
				var u VUser
				return tx.First(&u)
			case "Last":
				var u VUser
				return tx.Last(&u)
			case "Count":
				var n int64
				return tx.Count(&n)
			case "Pluck":
				var ns []string
				return tx.Pluck("v_users.name", &ns)
			default:
				var us []VUser
				return tx.Find(&us, "email = ?", inline)
			}
		}
	case "Update", "UpdatesMap", "UpdatesStruct", "UpdateColumn", "UpdateExpr", "UpdatesMapExpr", "Delete", "DeleteInline":
		steps := c01GenSteps(rng, m, db, c01Caps{}, true)
		c.Desc = c01Descs(steps)
		w := c01ChainArgs(steps)
		s1, i1 := m.S(), m.I()
		switch fin {
		case "Update":
			exp("UPDATE", cat([]interface{}{s1, nowArg()}, w...)...)
		case "UpdatesMap":
			exp("UPDATE", cat([]interface{}{i1, s1, nowArg()}, w...)...)
		case "UpdatesStruct":
			exp("UPDATE", cat([]interface{}{s1, i1, nowArg()}, w...)...)
		case "UpdateColumn":
			exp("UPDATE", cat([]interface{}{s1}, w...)...)
		case "UpdateExpr":
			exp("UPDATE", cat([]interface{}{i1, nowArg()}, w...)...)
		case "UpdatesMapExpr":
			exp("UPDATE", cat([]interface{}{i1, s1, nowArg()}, w...)...)
		case "Delete":
			exp("DELETE", w...)
		case "DeleteInline":
			exp("DELETE", cat(w, s1)...)
		}
		c.Run = func(d *gorm.DB) *gorm.DB {
			tx := c01Apply(d, steps)
			switch fin {
			case "Update":
				return tx.Model(&VUser{}).Update("email", s1)
			case "UpdatesMap":
				return tx.Model(&VUser{}).Updates(map[string]interface{}{"age": i1, "email": s1})
			case "UpdatesStruct":
				return tx.Model(&VUser{}).Updates(VUser{Name: s1, Age: i1})
			case "UpdateColumn":
				return tx.Model(&VUser{}).UpdateColumn("email", s1)
			case "UpdateExpr":
				return tx.Model(&VUser{}).Update("age", gorm.Expr("age + ?", i1))
			case "UpdatesMapExpr":
				return tx.Model(&VUser{}).Updates(map[string]interface{}{"age": gorm.Expr("age * ?", i1), "email": s1})
			case "Delete":
				return tx.Delete(&VUser{})
			default:
				return tx.Delete(&VUser{}, "email = ?", s1)
			}
		}
	case "SoftDelete", "SoftFind":
		steps := c01GenSteps(rng, m, db, c01Caps{}, true)
		c.Desc = c01Descs(steps)
		w := c01ChainArgs(steps)
		if fin == "SoftDelete" {
			exp("UPDATE", cat([]interface{}{nowArg()}, w...)...)
		} else {
			exp("SELECT", w...)
		}
		c.Run = func(d *gorm.DB) *gorm.DB {
			tx := c01Apply(d, steps)
			if fin == "SoftDelete" {
				return tx.Delete(&VSoft{})
			}
			var vs []VSoft
			return tx.Find(&vs)
		}
	case "RelJoin":
		c01GenRelCase(rng, m, db, c)
	case "RawNamedGen", "ExecNamedGen", "InlineNamed", "RawNested", "UpdateExprList", "UpdatesMapExprList", "CreateMapExprList",
		"UpdateSub", "UpdatesMapSub", "RawTypedList", "ExecTypedList":
		c01GenCase2(rng, m, db, c, exp, cat)
	case "CreateStruct":
		s1, i1, s2 := m.S(), m.I(), m.S()
		exp("INSERT", s1, i1, nil, s2, nowArg())
		c.Run = func(d *gorm.DB) *gorm.DB { return d.Create(&VUser{Name: s1, Age: i1, Email: s2}) }
	case "CreateSlice":
		s1, i1, s2, i2, z := m.S(), m.I(), m.S(), m.I(), m.I()
		exp("INSERT", s1, i1, nil, "", nowArg(), s2, i2, z, "", nowArg())
		c.Run = func(d *gorm.DB) *gorm.DB {
			return d.Create(&[]VUser{{Name: s1, Age: i1}, {Name: s2, Age: i2, Z: intPtr(z)}})
		}
	case "CreateMap":
		i1, s1 := m.I(), m.S()
		exp("INSERT", i1, s1)
		c.Run = func(d *gorm.DB) *gorm.DB {
			return d.Model(&VUser{}).Create(map[string]interface{}{"age": i1, "name": s1})
		}
	case "Upsert", "UpsertExpr":
		s1, i1, s2, i2 := m.S(), m.I(), m.S(), m.I()
		if fin == "Upsert" {
			exp("INSERT", s1, i1, nil, "", nowArg(), 1, s2)
		} else {
			exp("INSERT", s1, i1, nil, "", nowArg(), 1, i2, s2)
		}
		c.Run = func(d *gorm.DB) *gorm.DB {
			du := map[string]interface{}{"email": s2}
			if fin == "UpsertExpr" {
				du["age"] = gorm.Expr("v_users.age + ?", i2)
			}
			return d.Clauses(clause.OnConflict{Columns: []clause.Column{{Name: "id"}}, DoUpdates: clause.Assignments(du)}).
				Create(&VUser{ID: 1, Name: s1, Age: i1})
		}
	case "UpsertUpdateAll":
		s1, i1 := m.S(), m.I()
		exp("INSERT", s1, i1, nil, "", nowArg(), 2, nowArg()) // UpdateAll also assigns updated_at = now
		c.Run = func(d *gorm.DB) *gorm.DB {
			return d.Clauses(clause.OnConflict{UpdateAll: true}).Create(&VUser{ID: 2, Name: s1, Age: i1})
		}
	case "FirstOrCreate":
		s1, s2 := m.S(), m.S()
		exp("SELECT", s1)
		exp("INSERT", s1, 0, nil, s2, nowArg())
		c.Run = func(d *gorm.DB) *gorm.DB {
			var u VUser
			return d.Where(VUser{Name: s1}).Attrs(VUser{Email: s2}).FirstOrCreate(&u)
		}
	case "RawPositional":
		s1, i1, i2 := m.S(), m.I(), m.I()
		exp("SELECT", s1, i1, i2)
		c.Run = func(d *gorm.DB) *gorm.DB {
			var us []VUser
			return d.Raw("SELECT * FROM v_users WHERE name = ? OR age IN ?", s1, []int{i1, i2}).Scan(&us)
		}
	case "RawNamed":
		s1, i1 := m.S(), m.I()
		exp("SELECT", s1, i1, s1)
		c.Run = func(d *gorm.DB) *gorm.DB {
			var us []VUser
			return d.Raw("SELECT * FROM v_users WHERE name = @n OR (age > @a AND email <> @n)", sql.Named("n", s1), sql.Named("a", i1)).Scan(&us)
		}
	case "RawMap":
		s1, i1 := m.S(), m.I()
		exp("SELECT", i1, s1)
		c.Run = func(d *gorm.DB) *gorm.DB {
			var us []VUser
			return d.Raw("SELECT * FROM v_users WHERE age IN (@a) OR name = @n", map[string]interface{}{"n": s1, "a": i1}).Scan(&us)
		}
	case "RawStruct":
		s1, i1 := m.S(), m.I()
		exp("SELECT", s1, i1)
		c.Run = func(d *gorm.DB) *gorm.DB {
			var us []VUser
			return d.Raw("SELECT * FROM v_users WHERE name = @Name AND age > @Age", c01E2EArgs{Name: s1, Age: i1}).Scan(&us)
		}
	case "RawSubquery":
		s1, s2, i1 := m.S(), m.S(), m.I()
		exp("SELECT", i1, s1, s2)
		c.Run = func(d *gorm.DB) *gorm.DB {
			var us []VUser
			sub := d.Session(&gorm.Session{NewDB: true}).Model(&VUser{}).Select("AVG(age) + ?", i1).Where("name = ?", s1)
			return d.Raw("SELECT * FROM v_users WHERE age > (?) AND name <> ?", sub, s2).Scan(&us)
		}
	case "RawInRaw":
		// a rendered Raw handle as argument (AddVar's re-templating branch); enough vars for `$10`
		vals := []interface{}{}
		for i := 0; i < 11; i++ {
			vals = append(vals, m.I())
		}
		s0, s1 := m.S(), m.S()
		exp("SELECT", cat(cat([]interface{}{s0}, vals...), s1)...)
		c.Run = func(d *gorm.DB) *gorm.DB {
			var us []VUser
			sub := d.Session(&gorm.Session{NewDB: true}).Raw("SELECT id FROM v_users WHERE age IN ?", vals)
			return d.Model(&VUser{}).Where("email <> ?", s0).Where("id IN (?) OR name = ?", sub, s1).Find(&us)
		}
	case "ExecPositional":
		s1, i1 := m.S(), m.I()
		exp("UPDATE", s1, i1)
		c.Run = func(d *gorm.DB) *gorm.DB { return d.Exec("UPDATE v_users SET email = ? WHERE age = ?", s1, i1) }
	default: // ExecNamed
		s1, i1 := m.S(), m.I()
		exp("UPDATE", s1, i1)
		c.Run = func(d *gorm.DB) *gorm.DB {
			return d.Exec("UPDATE v_users SET email = @e WHERE age = @a", sql.Named("e", s1), sql.Named("a", i1))
		}
	}
	return c
}

type c01Verdict struct {
	Bad      string     `json:"bad"`
	Stmts    [][]string `json:"statements"` // sql + args
	Err      string     `json:"err"`
	Expected []c01Expect
}

// c01Judge runs the case inside a transaction that is rolled back and judges every statement the driver saw
func c01Judge(db *gorm.DB, rec *Recorder, dialect string, c *c01Case) c01Verdict {
	v := c01Verdict{Expected: c.Expect}
	tx := db.Begin()
	rec.Reset()
	var res *gorm.DB
	func() {
		defer func() {
			if e := recover(); e != nil {
				v.Err = "panic: " + fmt.Sprint(e)
			}
		}()
		res = c.Run(tx)
	}()
	evs := rec.Snapshot()
	tx.Rollback()
	if res != nil && res.Error != nil {
		v.Err = res.Error.Error()
	}
	ei := 0
	for _, e := range evs {
		if isTxEvent(e) || e.Kind == "prepare" || e.Kind == "stmt_close" {
			continue
		}
		args := c01NormAll(e.Args)
		v.Stmts = append(v.Stmts, append([]string{e.SQL}, args...))
		// (1) no marker in the text
		for _, s := range c.M.strs {
			if strings.Contains(e.SQL, s) {
				v.Bad = "marker value occurs in the SQL text: " + s
			}
		}
		for _, n := range c.M.ints {
			if strings.Contains(e.SQL, strconv.Itoa(n)) {
				v.Bad = "marker value occurs in the SQL text: " + strconv.Itoa(n)
			}
		}
		// (2) placeholders = args
		phs := c01Placeholders(e.SQL)
		if len(phs) != len(e.Args) {
			v.Bad = fmt.Sprintf("%d placeholders in the text, %d bound values", len(phs), len(e.Args))
		} else if dialect == "dollar" {
			for k, p := range phs {
				if p != k+1 {
					v.Bad = fmt.Sprintf("placeholder #%d is $%d", k+1, p)
					break
				}
			}
		} else {
			for _, p := range phs {
				if p != 0 {
					v.Bad = "a $n placeholder under the ? dialect"
				}
			}
		}
		// (3) args = the generator's flattening
		if ei < len(c.Expect) {
			if !strings.HasPrefix(strings.TrimSpace(e.SQL), c.Expect[ei].Prefix) {
				v.Bad = "statement #" + strconv.Itoa(ei+1) + " is not a " + c.Expect[ei].Prefix
			} else if !reflect.DeepEqual(args, c.Expect[ei].Args) && !(len(args) == 0 && len(c.Expect[ei].Args) == 0) {
				v.Bad = "bound values differ from the generator's left-to-right flattening"
			}
			ei++
		} else if !c.ExtraOK {
			v.Bad = "more statements than expected"
		}
	}
	if v.Bad == "" && len(c.Expect) == 1 && !c.ExtraOK {
		c01JudgeDry(db, dialect, c, &v)
	}
	return v
}

// c01JudgeDry: the second observation point named by the property - Statement.SQL / Statement.Vars after a DryRun
// finisher (same dialector).  It sees statements database/sql refuses before they reach the driver (a bound value
// of a type the default converter rejects, e.g. a struct that should have been taken apart into named arguments).
// Latitude: a run that ends in an error other than "dry run mode unsupported" built no statement to judge.
func c01JudgeDry(db *gorm.DB, dialect string, c *c01Case, v *c01Verdict) {
	var res *gorm.DB
	func() {
		defer func() {
			if e := recover(); e != nil {
				res = nil
			}
		}()
		res = c.Run(db.Session(&gorm.Session{DryRun: true}))
	}()
	if res == nil || res.Statement == nil || (res.Error != nil && !errors.Is(res.Error, gorm.ErrDryRunModeUnsupported)) {
		return
	}
	text := res.Statement.SQL.String()
	if text == "" {
		return
	}
	args := c01NormAll(res.Statement.Vars)
	bad := ""
	for _, s := range c.M.strs {
		if strings.Contains(text, s) {
			bad = "marker value occurs in the SQL text: " + s
		}
	}
	for _, n := range c.M.ints {
		if strings.Contains(text, strconv.Itoa(n)) {
			bad = "marker value occurs in the SQL text: " + strconv.Itoa(n)
		}
	}
	phs := c01Placeholders(text)
	if len(phs) != len(args) {
		bad = fmt.Sprintf("%d placeholders in the text, %d bound values", len(phs), len(args))
	} else {
		for k, p := range phs {
			if (dialect == "dollar" && p != k+1) || (dialect != "dollar" && p != 0) {
				bad = fmt.Sprintf("placeholder #%d is $%d", k+1, p)
				break
			}
		}
	}
	if bad == "" && strings.HasPrefix(strings.TrimSpace(text), c.Expect[0].Prefix) &&
		!reflect.DeepEqual(args, c.Expect[0].Args) && !(len(args) == 0 && len(c.Expect[0].Args) == 0) {
		bad = "bound values differ from the generator's left-to-right flattening"
	}
	if bad != "" {
		v.Bad = "DryRun Statement: " + bad
		v.Stmts = append(v.Stmts, append([]string{"[dry-run] " + text}, args...))
	}
}

func init() {
	run := func(r *Result, dialect string, seeds []int64, probe bool) {
		db, rec := c01OpenSqlite(dialect)
		c01Hist = func(h, b string) { r.H(h, b) }
		defer func() { c01Hist = nil }()
		for i, seed := range seeds {
			if expired() {
				break
			}
			c := c01GenCase(seed, db)
			v := c01Judge(db, rec, dialect, c)
			in := map[string]interface{}{"dialect": dialect, "case_seed": seed, "finisher": c.Fin, "chain": c.Desc}
			nargs := 0
			for _, e := range c.Expect {
				nargs += len(e.Args)
			}
			r.Case("e2e", dialect+"|"+c.Fin+"|"+strings.Join(c.Desc, ";"), nargs >= 1)
			r.H("e2e.finisher", c.Fin)
			r.H("e2e.dialect", dialect)
			r.H("e2e.bound-values", c01Bucket(nargs))
			r.H("e2e.statements", fmt.Sprint(len(v.Stmts)))
			for _, d := range c.Desc {
				r.H("e2e.step", d[:strings.IndexAny(d+"(", "(")])
			}
			if v.Err != "" {
				r.H("e2e.error", c01Trunc(v.Err, 40))
			}
			if i%401 == 0 {
				r.Sample(map[string]interface{}{"suite": "e2e", "input": in, "statements": v.Stmts})
			}
			if v.Bad != "" {
				r.Violate(Violation{Kind: "e2e", Suite: "e2e", Input: in, Observed: map[string]interface{}{"statements": v.Stmts, "err": v.Err},
					Expected: map[string]interface{}{"verdict": v.Bad, "expected": c.Expect}})
			}
		}
	}
	// dedicated probe of finding F21: a `?` whose positional slot is a sql.NamedArg
	probeF21 := func(r *Result, dialect string) {
		db, rec := c01OpenSqlite(dialect)
		m := &markerGen{}
		s, i := m.S(), m.I()
		c := &c01Case{Fin: "Find", M: m, Desc: []string{`Where("name = @n AND age = ?", sql.Named("n", s), i)`},
			Expect: []c01Expect{{"SELECT", normArgs([]interface{}{s, i})}},
			Run: func(d *gorm.DB) *gorm.DB {
				var us []VUser
				return d.Model(&VUser{}).Where("name = @n AND age = ?", sql.Named("n", s), i).Find(&us)
			}}
		v := c01Judge(db, rec, dialect, c)
		r.Case("e2e-probe-F21", dialect, true)
		if v.Bad == "" {
			r.Note("F21 no longer reproduces under %s: %v", dialect, v.Stmts)
			return
		}
		what := fmt.Sprintf("named+positional mix: %s; statement %q", v.Bad, v.Stmts)
		if listed("F21-C01-named-arg-in-positional-slot") {
			r.KnownFinding("F21-C01-named-arg-in-positional-slot", what)
		} else {
			r.Violate(Violation{Kind: "e2e", Suite: "e2e-probe-F21", Input: map[string]interface{}{"dialect": dialect},
				Observed: map[string]interface{}{"statements": v.Stmts, "err": v.Err}, Expected: map[string]interface{}{"verdict": v.Bad, "expected": c.Expect}})
		}
	}
	register("C01", func(r *Result, rng *rand.Rand, tier string) {
		probeF21(r, "qmark")
		probeF21(r, "dollar")
	})
	replayers["C01/e2e-probe-F21"] = func(r *Result, input json.RawMessage) {
		var in struct {
			Dialect string `json:"dialect"`
		}
		_ = json.Unmarshal(input, &in)
		probeF21(r, in.Dialect)
	}
	register("C01", func(r *Result, rng *rand.Rand, tier string) {
		n := 1500
		if tier == "thorough" {
			n = 40000
		} else if tier == "search" {
			n = 8000
		}
		for _, dialect := range []string{"qmark", "dollar"} {
			seeds := make([]int64, n)
			for i := range seeds {
				seeds[i] = rng.Int63()
			}
			run(r, dialect, seeds, false)
		}
	})
	replayers["C01/e2e"] = func(r *Result, input json.RawMessage) {
		var in struct {
			Dialect string `json:"dialect"`
			Seed    int64  `json:"case_seed"`
		}
		if err := json.Unmarshal(input, &in); err != nil {
			r.Note("bad replay input: %v", err)
			return
		}
		run(r, in.Dialect, []int64{in.Seed}, false)
	}
}
