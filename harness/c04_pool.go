package main

// C04 — suite "stmtpool": what the create / update / delete pipeline (callbacks/transaction.go BeginTransaction …
// CommitOrRollbackTransaction) leaves in `Statement.ConnPool` of the instance it ran on.
//
// For a chained (clone = 0) handle kept in a variable — `h := tx.Model(&T{})`, `tx.Table(..)`, `tx.Where(..)`, the *gorm.DB a
// finisher returned — that instance IS the handle, so this decides where the NEXT operation through the handle runs.
//   tie : real gorm vs Model/Tx.lean `writeSt` (theorems C04_write_keeps_tx_pool / C04_write_restores_pool) on the observed
//         (Statement.ConnPool, Config.ConnPool, SkipDefaultTransaction, Error == nil, BEGIN ok) of the handle
//   e2e : inside a Transaction block / manual transaction / nested block the handle must still be on the SAME transaction
//         object after the write (else its next write escapes the block's commit/rollback); outside, it must be back on its
//         pool (else the finished implicit transaction leaks into the next operation)

import (
	"database/sql"
	"encoding/json"
	"errors"
	"fmt"

	"gorm.io/gorm"
)

type c04PoolCase struct {
	Cfg        c04Cfg   `json:"cfg"`
	Lineage    []string `json:"lineage"` // derivations applied to the root handle before the site
	Site       string   `json:"site"`    // top | blk | man | nested
	Chain      string   `json:"chain"`   // how the chained handle is obtained
	Op         string   `json:"op"`      // create | update | delete
	PreErr     bool     `json:"pre_err"` // the handle already carries an Error
	BeginFault bool     `json:"begin_fault"`
}

type c04PoolObs struct {
	Before   string `json:"before"`
	CfgPool  string `json:"cfg_pool"`
	After    string `json:"after"`
	Same     bool   `json:"same"`      // Statement.ConnPool after the write is the identical object
	OnSite   bool   `json:"on_site"`   // before the write the chained handle was on the pool of the handle it was derived from
	Skip     bool   `json:"skip"`
	OpErr    string `json:"op_err"`
	siteInTx bool
}

func c04PoolName(p gorm.ConnPool) string {
	switch p.(type) {
	case *sql.DB, *c04Pool:
		return "sqlDB"
	case *gorm.PreparedStmtDB:
		return "prepDB"
	case *sql.Tx, *c04PoolTx:
		return "sqlTx"
	case *gorm.PreparedStmtTX:
		return "prepTx"
	case nil:
		return "nil"
	}
	return fmt.Sprintf("%T", p)
}

func c04PoolRun(w *c04World, c *c04PoolCase) *c04PoolObs {
	w.reset([]int64{100})
	obs := &c04PoolObs{}
	b := w.db
	for _, k := range c.Lineage {
		b = c04Derive(b, k, 103)
	}
	f := func(h *gorm.DB) {
		var hh *gorm.DB
		switch c.Chain {
		case "Model":
			hh = h.Model(&TxItem{})
		case "Table":
			hh = h.Table("tx_items")
		case "Where":
			hh = h.Where("id <> ?", 103)
		case "Select":
			hh = h.Select("*")
		case "Finisher":
			hh = h.Create(&TxItem{ID: 900})
		default:
			panic("bad chain " + c.Chain)
		}
		obs.siteInTx = false
		if _, ok := h.Statement.ConnPool.(gorm.TxCommitter); ok {
			obs.siteInTx = true
		}
		before := hh.Statement.ConnPool
		obs.OnSite = before == h.Statement.ConnPool
		obs.Before, obs.CfgPool = c04PoolName(before), c04PoolName(hh.Config.ConnPool)
		obs.Skip = hh.Config.SkipDefaultTransaction
		if c.PreErr {
			_ = hh.AddError(errors.New("earlier error on the handle"))
		}
		if c.BeginFault {
			armed := true
			w.rec.mu.Lock()
			w.rec.Fault = func(idx int, ev *Event) error {
				if armed && ev.Kind == "begin" {
					armed = false
					return &c04InjErr{0}
				}
				return nil
			}
			w.rec.mu.Unlock()
		}
		var err error
		switch c.Op {
		case "create":
			err = hh.Create(&TxItem{ID: 901}).Error
		case "update":
			err = hh.Model(&TxItem{}).Where("1 = 1").Update("v", 7).Error
		case "delete":
			err = hh.Model(&TxItem{}).Delete(&TxItem{}, 100).Error
		}
		w.rec.mu.Lock()
		w.rec.Fault = nil
		w.rec.mu.Unlock()
		if err != nil {
			obs.OpErr = err.Error()
		}
		after := hh.Statement.ConnPool
		obs.After, obs.Same = c04PoolName(after), after == before
	}
	switch c.Site {
	case "top":
		f(b)
	case "blk":
		_ = b.Transaction(func(tx *gorm.DB) error { f(tx); return errors.New("undo") })
	case "nested":
		_ = b.Transaction(func(tx *gorm.DB) error {
			_ = tx.Transaction(func(tx2 *gorm.DB) error { f(tx2); return nil })
			return errors.New("undo")
		})
	case "man":
		tx := b.Begin()
		if tx.Error == nil {
			f(tx)
			tx.Rollback()
		}
	}
	return obs
}

func c04PoolJudge(r *Result, c *c04PoolCase, o *c04PoolObs) {
	if o.Before == "" {
		return // the site was not reached
	}
	var bad []string
	if !o.OnSite {
		bad = append(bad, fmt.Sprintf("the chained handle is not on the connection pool of the handle it was derived from (%s)", o.Before))
	}
	if o.siteInTx && !o.Same {
		bad = append(bad, fmt.Sprintf("after the %s the chained handle's Statement.ConnPool is %s, no longer the transaction it was derived in (%s): its next operation escapes the block's commit/rollback", c.Op, o.After, o.Before))
	}
	if !o.siteInTx && (o.After == "sqlTx" || o.After == "prepTx") {
		bad = append(bad, fmt.Sprintf("after the %s outside any transaction the chained handle's Statement.ConnPool is a finished implicit transaction (%s)", c.Op, o.After))
	}
	if len(bad) > 0 {
		r.Violate(Violation{Kind: "e2e", Suite: "stmtpool", Input: c, Observed: o, Expected: bad})
	}
}

func c04PoolSuite(r *Result, tier string, worlds func(c04Cfg) *c04World) {
	lineages := [][]string{{}, {"prep:Session"}, {"keep:Session"}, {"skiptx:Session"}, {"where:Ne"}, {"prep:Session", "keep:WithContext"}, {"newdb:Session"}}
	var cases []*c04PoolCase
	var obs []*c04PoolObs
	n := 0
	for ci, cfg := range c04Cfgs() {
		for li, lin := range lineages {
			for _, site := range []string{"top", "blk", "man", "nested"} {
				for _, chain := range []string{"Model", "Table", "Where", "Select", "Finisher"} {
					for oi, op := range []string{"create", "update", "delete"} {
						n++
						if tier == "quick" && (ci+li+oi+n)%4 != 0 {
							continue
						}
						variants := []c04PoolCase{{}, {PreErr: true}}
						if site == "top" {
							variants = append(variants, c04PoolCase{BeginFault: true})
						}
						for _, v := range variants {
							c := &c04PoolCase{Cfg: cfg, Lineage: lin, Site: site, Chain: chain, Op: op, PreErr: v.PreErr, BeginFault: v.BeginFault}
							o := c04PoolRun(worlds(cfg), c)
							r.Case("stmtpool", canon(c), o.Before != o.CfgPool || c.BeginFault || c.PreErr)
							r.H("stmtpool_site", site+"/"+chain)
							r.H("stmtpool_before", o.Before+"/cfg:"+o.CfgPool)
							c04PoolJudge(r, c, o)
							cases, obs = append(cases, c), append(obs, o)
						}
					}
				}
			}
		}
		if expired() {
			break
		}
	}
	var ops [][]interface{}
	idx := []int{}
	for i, o := range obs {
		if o.Before == "" || o.Before == "nil" {
			continue
		}
		ops = append(ops, []interface{}{"tx.writest", o.Skip, !cases[i].PreErr, !cases[i].BeginFault, o.Before, o.CfgPool})
		idx = append(idx, i)
	}
	outs, err := AskLean(ops)
	if err != nil {
		r.Violate(Violation{Kind: "correspondence", Suite: "stmtpool", Note: err.Error()})
		return
	}
	for j, i := range idx {
		r.CorrCompared++
		var m struct {
			Pool string `json:"pool"`
		}
		if e := json.Unmarshal(outs[j], &m); e != nil {
			r.Violate(Violation{Kind: "correspondence", Suite: "stmtpool", Input: cases[i], Observed: obs[i], Expected: string(outs[j]), Note: "model rejects the input"})
			continue
		}
		r.H("model_branch_writeSt", fmt.Sprintf("%s->%s", obs[i].Before, m.Pool))
		if m.Pool != obs[i].After {
			r.Violate(Violation{Kind: "correspondence", Suite: "stmtpool", Input: cases[i], Observed: obs[i], Expected: m.Pool,
				Note: "Statement.ConnPool of a chained handle after a write: real gorm vs Model/Tx.lean `writeSt`"})
		}
	}
}

func init() {
	replayers["C04/stmtpool"] = func(r *Result, input json.RawMessage) {
		var c c04PoolCase
		if err := json.Unmarshal(input, &c); err != nil {
			r.Note("bad replay input: %v", err)
			return
		}
		w := c04Open(c.Cfg)
		defer w.close()
		o := c04PoolRun(w, &c)
		c04PoolJudge(r, &c, o)
		fmt.Printf("replayed: %s\n", canon(o))
	}
}
