package main

import (
	"context"
	"fmt"
	"math/rand"

	"gorm.io/gorm"
)

// C18: every driver call of an operation carries the caller's context; a cancelled context
// lets no statement run.

func c18Judge(events []Event, want string) string {
	for _, e := range events {
		if e.HasCtx && e.Marker != want {
			return fmt.Sprintf("%s call carried context marker %q, want %q: %s", e.Kind, e.Marker, want, e.SQL)
		}
	}
	return ""
}

func init() {
	register("C18", func(r *Result, rng *rand.Rand, tier string) {
		rounds := 40
		if tier == "thorough" {
			rounds = 4000
		} else if tier == "search" {
			rounds = 600
		}
		ops := relOps()
		n := 0
		for round := 0; round < rounds && !expired(); round++ {
			prepare := round%2 == 1
			db, rec := openRel(&gorm.Config{PrepareStmt: prepare})
			if err := c18Safely(func() error { seedRel(db, rng, 3); return nil }); err != nil {
				continue // the bind suite reports what is wrong with the root handle
			}
			rec.Reset()
			for oi, op := range ops {
				n++
				marker := fmt.Sprintf("ctx-%d-%d", round, oi)
				ctx := WithMarker(context.Background(), marker)
				depth := rng.Intn(4)
				via := rng.Intn(3)
				var h *gorm.DB
				switch via {
				case 0:
					h = db.WithContext(ctx)
				case 1:
					h = db.Session(&gorm.Session{Context: ctx})
				default:
					h = db.Where("1 = 1").WithContext(ctx).Session(&gorm.Session{NewDB: true})
				}
				// nest inside `depth` Transaction blocks
				var run func(tx *gorm.DB, d int) error
				run = func(tx *gorm.DB, d int) error {
					if d == 0 {
						return c18Safely(func() error { return op.Run(tx, rng) })
					}
					return tx.Transaction(func(tx2 *gorm.DB) error { return run(tx2, d-1) })
				}
				rec.Reset()
				err := run(h, depth)
				if np, ok := err.(c18NilCtxPanic); ok {
					r.Violate(Violation{Kind: "e2e", Suite: "ctx", Input: map[string]interface{}{"op": op.Name, "prepareStmt": prepare, "txDepth": depth, "via": via}, Observed: np.Error(), Expected: "every driver call carries the operation's context"})
				}
				evs := rec.Snapshot()
				in := map[string]interface{}{"op": op.Name, "prepareStmt": prepare, "txDepth": depth, "via": via}
				withCtx := 0
				for _, e := range evs {
					if e.HasCtx {
						withCtx++
					}
				}
				r.Case("ctx", fmt.Sprint(op.Name, prepare, depth, via), withCtx >= 2)
				r.H("op", op.Name)
				r.H("txDepth", fmt.Sprint(depth))
				r.H("driver_calls", fmt.Sprint(withCtx/5*5, "+"))
				if err != nil {
					r.H("op_error", op.Name+": "+trunc(err.Error(), 50))
				}
				if n%37 == 0 {
					r.Sample(map[string]interface{}{"input": in, "driver_calls_with_ctx": withCtx, "kinds": evKinds(evs)})
				}
				if v := c18Judge(evs, marker); v != "" {
					r.Violate(Violation{Kind: "e2e", Suite: "ctx", Input: in, Observed: v, Expected: "every driver call carries the operation's context"})
				}
				// cancelled context: nothing may reach the driver
				cctx, cancel := context.WithCancel(WithMarker(context.Background(), marker+"-cancelled"))
				cancel()
				rec.Reset()
				_ = run(db.WithContext(cctx), depth%2)
				evs2 := rec.Snapshot()
				for _, e := range evs2 {
					if e.Kind == "exec" || e.Kind == "query" || e.Kind == "stmt_exec" || e.Kind == "stmt_query" || e.Kind == "prepare" || e.Kind == "begin" {
						r.Violate(Violation{Kind: "e2e", Suite: "ctx-cancelled", Input: in, Observed: e.String(), Expected: "no statement runs under a cancelled context"})
						break
					}
				}
			}
		}
	})
}

func trunc(s string, n int) string {
	if len(s) > n {
		return s[:n]
	}
	return s
}
