package main

// C04 — driver-level identity of every statement, and a custom ConnPool whose transaction type is not *sql.Tx.
//
// c04Connector wraps the recording connector (rec.go, shared) so that every driver call made on behalf of gorm can be
// attributed to the driver CONNECTION it ran on and to the driver TRANSACTION open on that connection at that moment:
// the ordinal (1, 2, …) of the BEGIN that opened it, 0 when the call ran on a pool connection outside any driver
// transaction (auto-commit). The fault hook of the interpreter (c04_run.go) reads the tag of the call being made.
// "Everything issued through the block's handle — or through ANY handle derived from it — belongs to the block's
// transaction" is thereby observed where it is decided: on which connection the statement arrives.

import (
	"context"
	"database/sql"
	"database/sql/driver"
	"sync"

	"gorm.io/gorm"
)

type c04Tags struct {
	mu     sync.Mutex
	cur    *c04Conn // connection of the driver call being made
	nBegun int      // driver transactions begun so far (successful BEGINs)
	nConns int
}

func (t *c04Tags) enter(c *c04Conn) {
	t.mu.Lock()
	t.cur = c
	t.mu.Unlock()
}

// tag of the driver call being made: (connection id, ordinal of the driver transaction open on it or 0)
func (t *c04Tags) tag() (conn, txOrd int) {
	t.mu.Lock()
	defer t.mu.Unlock()
	if t.cur == nil {
		return 0, 0
	}
	return t.cur.id, t.cur.txOrd
}

func (t *c04Tags) resetCount() {
	t.mu.Lock()
	t.nBegun = 0
	t.mu.Unlock()
}

type c04Connector struct {
	inner *recConnector
	tags  *c04Tags
}

func (c *c04Connector) Connect(ctx context.Context) (driver.Conn, error) {
	in, err := c.inner.Connect(ctx)
	if err != nil {
		return nil, err
	}
	c.tags.mu.Lock()
	c.tags.nConns++
	id := c.tags.nConns
	c.tags.mu.Unlock()
	return &c04Conn{inner: in.(*recConn), tags: c.tags, id: id}, nil
}
func (c *c04Connector) Driver() driver.Driver { return c.inner.Driver() }

type c04Conn struct {
	inner *recConn
	tags  *c04Tags
	id    int
	txOrd int
}

func (c *c04Conn) Prepare(query string) (driver.Stmt, error) {
	return c.PrepareContext(context.Background(), query)
}
func (c *c04Conn) Close() error { return c.inner.Close() }
func (c *c04Conn) Begin() (driver.Tx, error) {
	return c.BeginTx(context.Background(), driver.TxOptions{})
}
func (c *c04Conn) BeginTx(ctx context.Context, opts driver.TxOptions) (driver.Tx, error) {
	c.tags.enter(c)
	tx, err := c.inner.BeginTx(ctx, opts)
	if err != nil {
		return nil, err
	}
	c.tags.mu.Lock()
	c.tags.nBegun++
	c.txOrd = c.tags.nBegun
	c.tags.mu.Unlock()
	return &c04Tx{inner: tx, c: c}, nil
}
func (c *c04Conn) PrepareContext(ctx context.Context, query string) (driver.Stmt, error) {
	c.tags.enter(c)
	st, err := c.inner.PrepareContext(ctx, query)
	if err != nil {
		return nil, err
	}
	return &c04Stmt{inner: st.(*recStmt), c: c}, nil
}
func (c *c04Conn) ExecContext(ctx context.Context, query string, args []driver.NamedValue) (driver.Result, error) {
	c.tags.enter(c)
	return c.inner.ExecContext(ctx, query, args)
}
func (c *c04Conn) QueryContext(ctx context.Context, query string, args []driver.NamedValue) (driver.Rows, error) {
	c.tags.enter(c)
	return c.inner.QueryContext(ctx, query, args)
}
func (c *c04Conn) Ping(ctx context.Context) error { return c.inner.Ping(ctx) }

type c04Tx struct {
	inner driver.Tx
	c     *c04Conn
}

func (t *c04Tx) end() {
	t.c.tags.mu.Lock()
	t.c.txOrd = 0
	t.c.tags.mu.Unlock()
}
func (t *c04Tx) Commit() error {
	t.c.tags.enter(t.c)
	defer t.end()
	return t.inner.Commit()
}
func (t *c04Tx) Rollback() error {
	t.c.tags.enter(t.c)
	defer t.end()
	return t.inner.Rollback()
}

type c04Stmt struct {
	inner *recStmt
	c     *c04Conn
}

func (s *c04Stmt) Close() error  { return s.inner.Close() }
func (s *c04Stmt) NumInput() int { return s.inner.NumInput() }
func (s *c04Stmt) Exec(args []driver.Value) (driver.Result, error) {
	return s.inner.Exec(args)
}
func (s *c04Stmt) Query(args []driver.Value) (driver.Rows, error) {
	return s.inner.Query(args)
}
func (s *c04Stmt) ExecContext(ctx context.Context, args []driver.NamedValue) (driver.Result, error) {
	s.c.tags.enter(s.c)
	return s.inner.ExecContext(ctx, args)
}
func (s *c04Stmt) QueryContext(ctx context.Context, args []driver.NamedValue) (driver.Rows, error) {
	s.c.tags.enter(s.c)
	return s.inner.QueryContext(ctx, args)
}

// ---------------------------------------------------------------- custom ConnPool (configuration dimension "wrap")

// c04Pool is a user-supplied gorm.ConnPool in the style of tests/connpool_test.go: it is a ConnPoolBeginner whose
// BeginTx returns a gorm.Tx that is NOT a *sql.Tx (a struct embedding it). Code that recognises "inside a transaction"
// by the concrete type *sql.Tx instead of the interfaces gorm.Tx / gorm.TxCommitter breaks on it.
type c04Pool struct{ db *sql.DB }

func (p *c04Pool) PrepareContext(ctx context.Context, query string) (*sql.Stmt, error) {
	return p.db.PrepareContext(ctx, query)
}
func (p *c04Pool) ExecContext(ctx context.Context, query string, args ...interface{}) (sql.Result, error) {
	return p.db.ExecContext(ctx, query, args...)
}
func (p *c04Pool) QueryContext(ctx context.Context, query string, args ...interface{}) (*sql.Rows, error) {
	return p.db.QueryContext(ctx, query, args...)
}
func (p *c04Pool) QueryRowContext(ctx context.Context, query string, args ...interface{}) *sql.Row {
	return p.db.QueryRowContext(ctx, query, args...)
}
func (p *c04Pool) BeginTx(ctx context.Context, opts *sql.TxOptions) (gorm.ConnPool, error) {
	tx, err := p.db.BeginTx(ctx, opts)
	if err != nil {
		return nil, err
	}
	return &c04PoolTx{Tx: tx}, nil
}
func (p *c04Pool) GetDBConn() (*sql.DB, error) { return p.db, nil }
func (p *c04Pool) Ping() error                 { return p.db.Ping() }

type c04PoolTx struct{ *sql.Tx }

var (
	_ gorm.ConnPoolBeginner = (*c04Pool)(nil)
	_ gorm.Tx               = (*c04PoolTx)(nil)
)
