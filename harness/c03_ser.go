package main

// C03, round 5: SERIALIZER fields × value boundary.
//
//  * suite "ser" (e2e): generated model types whose fields carry `serializer:json|gob|unixtime` or a custom registered
//    serializer ("c03tag"), on value / pointer / named / slice / map / struct types.  The records run through the WHOLE value
//    alphabet of the type: zero, pointer-to-zero, nil, empty-but-non-nil ([]string{}, map{}, "", []byte{}), negative,
//    boundary and large values.  AutoMigrate → Create (single / slice of values / slice of pointers / CreateInBatches; plain,
//    in a transaction, PrepareStmt; with and without RETURNING) → every record re-read with First into a FRESH struct, with
//    Find into a slice of structs and a slice of pointers (pooled holders run over nil / non-nil neighbours), and with
//    Table(..).Take into a map (the stored representation: NULL exactly where the serializer says NULL).  The loaded value
//    must be EQUAL to the given one under c03Canon, which tells nil from &0, nil from [] and nil from map{}.
//  * suite "sercodec" (correspondence): the real schema.UnixSecondSerializer / JSONSerializer / GobSerializer Value and Scan,
//    called directly on parsed fields, against Lean Model.Serializer (unixValue / unixScan / jsonValue / jsonScan / gobScan);
//    theorems C03_unixtime_roundtrip, C03_unixtime_null_iff_nil_pointer, C03_json_roundtrip, C03_json_scan_overwrites.
//
// ROUND-TRIP TABLE of the unchanged tree (what the oracle demands; established by running it, see c03SDomain):
//   unixtime  int64 / int / int32 / int16 and pointers to them: every value whose time has a 4-digit year (0001…9999)
//             round-trips, INCLUDING 0 and &0 (the epoch); nil pointer ↔ NULL.  Unsigned kinds: Value panics
//             (reflect.Value.Int on a uint) — not generated.  Named integer types: Value errors — not generated.
//   json      everything encoding/json round-trips: nil ↔ NULL (`null`), []string{} ↔ `[]`, map{} ↔ `{}`, "" ↔ `""`,
//             &0 ↔ `0`, &"" ↔ `""`, &struct{} ↔ `{…}`; []byte{} ↔ `""`.  Under NOT NULL `null` is stored as '' and read
//             back as the zero value (nil).  Pointer to a nil slice / map marshals to `null` and comes back as a nil
//             pointer — not generated.
//   gob       values and non-nil pointers; empty slices / maps come back nil (gob does not transmit empty values): the
//             oracle's normal form maps an empty slice / map to nil under gob, also inside structs.  A nil pointer cannot be
//             encoded (Create errors) — not generated.
//   c03tag    string / *string / named string: nil pointer ↔ NULL, "" ↔ 'T:'.

import (
	"bytes"
	"context"
	"encoding/gob"
	"encoding/json"
	"fmt"
	"math"
	"math/rand"
	"reflect"
	"strconv"
	"strings"
	"sync"
	"time"

	"gorm.io/gorm"
	"gorm.io/gorm/schema"
)

// ---- the custom serializer ----

type c03TagSerializer struct{}

func (c03TagSerializer) Value(ctx context.Context, field *schema.Field, dst reflect.Value, fieldValue interface{}) (interface{}, error) {
	rv := reflect.ValueOf(fieldValue)
	if rv.Kind() == reflect.Ptr {
		if rv.IsNil() {
			return nil, nil
		}
		rv = rv.Elem()
	}
	return "T:" + rv.String(), nil
}

func (c03TagSerializer) Scan(ctx context.Context, field *schema.Field, dst reflect.Value, dbValue interface{}) error {
	var s string
	switch v := dbValue.(type) {
	case nil:
		return nil
	case string:
		s = v
	case []byte:
		s = string(v)
	default:
		return fmt.Errorf("c03tag: unexpected %T", dbValue)
	}
	return field.Set(ctx, dst, strings.TrimPrefix(s, "T:"))
}

type C03SList []string
type C03SName string

// ---- type zoo ----

type c03SKind struct {
	Name string
	Typ  reflect.Type
	Sers []string
	Vals []interface{} // the value alphabet of the ELEMENT type (pointers: nil and a pointer to each are added)
}

func c03SInts(min, max int64, wide bool) []interface{} {
	base := []int64{0, 1, -1, 59, 86400, 1700000000, math.MaxInt32, math.MinInt32, int64(math.MaxInt32) + 1, 253402300799, -62135596800, math.MaxInt16, math.MinInt16}
	if wide {
		base = append(base, math.MaxInt64, math.MinInt64, 1<<53+1)
	}
	var out []interface{}
	for _, x := range base {
		if x >= min && x <= max {
			out = append(out, x)
		}
	}
	return out
}

var c03SKinds = func() []c03SKind {
	doc := func(n int, s string, l []string, m map[string]int, deep *SerDoc) SerDoc { return SerDoc{N: n, S: s, L: l, M: m, Deep: deep} }
	ks := []c03SKind{
		{Name: "int64", Typ: reflect.TypeOf(int64(0)), Sers: []string{"unixtime", "json", "gob"}},
		{Name: "int", Typ: reflect.TypeOf(int(0)), Sers: []string{"unixtime", "json"}},
		{Name: "int32", Typ: reflect.TypeOf(int32(0)), Sers: []string{"unixtime", "json"}},
		{Name: "int16", Typ: reflect.TypeOf(int16(0)), Sers: []string{"unixtime"}},
		{Name: "string", Typ: reflect.TypeOf(""), Sers: []string{"json", "gob", "c03tag"},
			Vals: []interface{}{"", "a", "null", "\"\"", "[]", "T:", "héllo 🙂", "it's", strings.Repeat("x", 300)}},
		{Name: "named-string", Typ: reflect.TypeOf(C03SName("")), Sers: []string{"json", "c03tag"}, Vals: []interface{}{C03SName(""), C03SName("n"), C03SName("null")}},
		{Name: "bool", Typ: reflect.TypeOf(false), Sers: []string{"json", "gob"}, Vals: []interface{}{false, true}},
		{Name: "[]string", Typ: reflect.TypeOf([]string(nil)), Sers: []string{"json", "gob"},
			Vals: []interface{}{[]string(nil), []string{}, []string{""}, []string{"a", "", "null"}, []string{strings.Repeat("y", 200)}}},
		{Name: "named-[]string", Typ: reflect.TypeOf(C03SList(nil)), Sers: []string{"json", "gob"}, Vals: []interface{}{C03SList(nil), C03SList{}, C03SList{"", "z"}}},
		{Name: "[]int", Typ: reflect.TypeOf([]int(nil)), Sers: []string{"json", "gob"}, Vals: []interface{}{[]int(nil), []int{}, []int{0}, []int{-1, 0, math.MaxInt32}}},
		{Name: "[]byte", Typ: reflect.TypeOf([]byte(nil)), Sers: []string{"json"}, Vals: []interface{}{[]byte(nil), []byte{}, []byte{0}, []byte("null"), []byte{255, 0, 1}}},
		{Name: "map[string]int", Typ: reflect.TypeOf(map[string]int(nil)), Sers: []string{"json", "gob"},
			Vals: []interface{}{map[string]int(nil), map[string]int{}, map[string]int{"": 0}, map[string]int{"a": -1, "b": 0}}},
		{Name: "map[string]string", Typ: reflect.TypeOf(map[string]string(nil)), Sers: []string{"json"},
			Vals: []interface{}{map[string]string(nil), map[string]string{}, map[string]string{"k": ""}}},
		{Name: "struct", Typ: reflect.TypeOf(SerDoc{}), Sers: []string{"json", "gob"},
			Vals: []interface{}{SerDoc{}, doc(0, "", []string{}, map[string]int{}, nil), doc(-1, "s", []string{""}, map[string]int{"": 0}, &SerDoc{}), doc(7, "null", nil, nil, &SerDoc{N: 1, L: []string{"x"}})}},
	}
	for i := range ks {
		switch ks[i].Name {
		case "int64", "int":
			ks[i].Vals = c03SInts(math.MinInt64, math.MaxInt64, true)
		case "int32":
			ks[i].Vals = c03SInts(math.MinInt32, math.MaxInt32, false)
		case "int16":
			ks[i].Vals = c03SInts(math.MinInt16, math.MaxInt16, false)
		}
		if ks[i].Name == "int" || ks[i].Name == "int32" || ks[i].Name == "int16" {
			for j, v := range ks[i].Vals {
				ks[i].Vals[j] = reflect.ValueOf(v).Convert(ks[i].Typ).Interface()
			}
		}
	}
	return ks
}()

var c03SKindBy = func() map[string]c03SKind {
	m := map[string]c03SKind{}
	for _, k := range c03SKinds {
		m[k.Name] = k
	}
	return m
}()

// c03SDomain: is value v of a field (kind, pointer) inside what serializer `ser` round-trips on the unchanged tree?
func c03SDomain(ser string, ptr bool, v reflect.Value) bool {
	switch ser {
	case "unixtime":
		if ptr && v.IsNil() {
			return true
		}
		x := reflect.Indirect(v).Int()
		return x >= -62135596800 && x <= 253402300799 // years 0001…9999: what the driver's time text can carry
	case "gob":
		if ptr && v.IsNil() {
			return false // gob: cannot encode nil pointer
		}
	}
	return true
}

// c03SNorm: the normal form under which given and loaded values are compared.  Identity except under gob, which does not
// transmit empty slices / maps (they come back nil), at any depth.
func c03SNorm(ser string, v reflect.Value) reflect.Value {
	if ser != "gob" {
		return v
	}
	out := reflect.New(v.Type()).Elem()
	c03GDeepCopy(out, v)
	var walk func(x reflect.Value)
	walk = func(x reflect.Value) {
		switch x.Kind() {
		case reflect.Ptr:
			if !x.IsNil() {
				walk(x.Elem())
			}
		case reflect.Struct:
			for i := 0; i < x.NumField(); i++ {
				walk(x.Field(i))
			}
		case reflect.Slice, reflect.Map:
			if !x.IsNil() && x.Len() == 0 && x.CanSet() {
				x.Set(reflect.Zero(x.Type()))
			}
		}
	}
	walk(out)
	return out
}

// ---- generated models ----

type c03SField struct {
	Name    string `json:"name"`
	Kind    string `json:"kind"`
	Ptr     bool   `json:"ptr"`
	Ser     string `json:"ser"`
	Tag     string `json:"tag"`
	NotNull bool   `json:"not_null,omitempty"`
}

func (f c03SField) typ() reflect.Type {
	t := c03SKindBy[f.Kind].Typ
	if f.Ptr {
		return reflect.PointerTo(t)
	}
	return t
}

// the value alphabet of the field: the element alphabet; for pointers nil and a pointer to each element value
func (f c03SField) alphabet() []reflect.Value {
	k := c03SKindBy[f.Kind]
	var out []reflect.Value
	if f.Ptr && c03SDomain(f.Ser, true, reflect.Zero(f.typ())) {
		out = append(out, reflect.Zero(f.typ()))
	}
	for _, x := range k.Vals {
		v := reflect.ValueOf(x)
		if f.Ptr {
			p := reflect.New(k.Typ)
			p.Elem().Set(v)
			v = p
		}
		if c03SDomain(f.Ser, f.Ptr, v) {
			out = append(out, v)
		}
	}
	return out
}

func c03SCaseSpell(rng *rand.Rand, s string) string {
	switch rng.Intn(4) {
	case 0:
		return strings.ToUpper(s)
	case 1:
		return strings.ToUpper(s[:1]) + s[1:]
	}
	return s
}

func c03SGenFields(rng *rand.Rand) []c03SField {
	n := 1 + rng.Intn(3)
	var out []c03SField
	for i := 0; i < n; i++ {
		k := c03SKinds[rng.Intn(len(c03SKinds))]
		if rng.Intn(3) == 0 { // the integer kinds under unixtime more often
			k = c03SKinds[rng.Intn(4)]
		}
		f := c03SField{Name: fmt.Sprintf("F%d", i), Kind: k.Name, Ser: k.Sers[rng.Intn(len(k.Sers))]}
		switch k.Typ.Kind() {
		case reflect.Slice, reflect.Map:
		default:
			f.Ptr = rng.Intn(2) == 0
		}
		if k.Name == "named-string" {
			f.Ptr = false
		}
		parts := []string{c03SCaseSpell(rng, "serializer") + ":" + c03SCaseSpell(rng, f.Ser)}
		switch f.Ser {
		case "unixtime":
			parts = append(parts, "type:"+[]string{"datetime", "DATETIME", "timestamp"}[rng.Intn(3)]) // (a column declared `time` comes back as text: NullTime rejects it)
		case "gob":
			// (without a column type an integer / bool field gets an integer / numeric column, which a model-less map read
			// cannot scan a blob from)
			if k.Typ.Kind() == reflect.Int64 || k.Typ.Kind() == reflect.Bool || rng.Intn(3) == 0 {
				parts = append(parts, "type:"+[]string{"blob", "BLOB", "bytes"}[rng.Intn(3)])
			}
		case "json":
			switch k.Typ.Kind() {
			case reflect.Int, reflect.Int32, reflect.Int64, reflect.Bool:
				parts = append(parts, "type:text")
			default:
				if rng.Intn(3) == 0 {
					parts = append(parts, "type:"+[]string{"text", "TEXT", "varchar(400)"}[rng.Intn(3)])
				}
			}
			if rng.Intn(5) == 0 {
				f.NotNull = true
				parts = append(parts, "not null")
			}
		}
		if rng.Intn(4) == 0 {
			parts = append(parts, "column:"+[]string{"c_", "Col"}[rng.Intn(2)]+strings.ToLower(f.Name))
		}
		if rng.Intn(2) == 0 {
			parts[0], parts[len(parts)-1] = parts[len(parts)-1], parts[0]
		}
		f.Tag = strings.Join(parts, ";")
		out = append(out, f)
	}
	return out
}

func c03SType(fields []c03SField) reflect.Type {
	sf := []reflect.StructField{
		{Name: "ID", Type: reflect.TypeOf(uint(0))},
		{Name: "Label", Type: reflect.TypeOf("")},
	}
	for _, f := range fields {
		sf = append(sf, reflect.StructField{Name: f.Name, Type: f.typ(), Tag: reflect.StructTag("gorm:" + strconv.Quote(f.Tag))})
	}
	return reflect.StructOf(sf)
}

type c03SInput struct {
	Seed      int64       `json:"seed"`
	Shape     string      `json:"shape"`
	N         int         `json:"n"`
	Batch     int         `json:"batch,omitempty"`
	Returning bool        `json:"returning"`
	Where     string      `json:"where"`
	Fields    []c03SField `json:"fields,omitempty"`
	Desc      string      `json:"desc,omitempty"`
}

func c03SRun(r *Result, in c03SInput) (bads []string, fields []c03SField) {
	bad := func(f string, a ...interface{}) { bads = append(bads, fmt.Sprintf(f, a...)) }
	defer func() {
		if p := recover(); p != nil {
			bad("panic: %v", p)
		}
	}()
	rng := rand.New(rand.NewSource(in.Seed))
	fields = in.Fields
	if fields == nil {
		fields = c03SGenFields(rng)
	}
	typ := c03SType(fields)
	cfg := &gorm.Config{NowFunc: fixedNowFunc}
	if in.Where == "prepare" {
		cfg.PrepareStmt = true
	}
	db, sqlDB := c03Open(in.Returning, cfg)
	defer sqlDB.Close()
	const tbl = "ser_models"
	if err := db.Table(tbl).AutoMigrate(reflect.New(typ).Interface()); err != nil {
		bad("AutoMigrate: %v", err)
		return
	}
	given := reflect.MakeSlice(reflect.SliceOf(typ), in.N, in.N)
	for fi, f := range fields {
		al := f.alphabet()
		off := rng.Intn(len(al))
		stride := 1
		if rng.Intn(3) == 0 {
			stride = 1 + rng.Intn(len(al))
		}
		for i := 0; i < in.N; i++ {
			v := al[(off+i*stride)%len(al)]
			dst := given.Index(i).Field(2 + fi)
			c03GDeepCopy(dst, v)
			if r != nil {
				r.H("ser.value", c03SValueClass(f, v))
			}
		}
		if r != nil {
			r.H("ser.field", f.Ser+"/"+map[bool]string{false: "", true: "*"}[f.Ptr]+f.Kind)
		}
	}
	for i := 0; i < in.N; i++ {
		given.Index(i).Field(1).SetString(fmt.Sprintf("r%d", i))
	}
	mem := reflect.MakeSlice(reflect.SliceOf(typ), in.N, in.N)
	for i := 0; i < in.N; i++ {
		c03GDeepCopy(mem.Index(i), given.Index(i))
	}
	create := func(tx *gorm.DB) error {
		switch in.Shape {
		case "single":
			for i := 0; i < in.N; i++ {
				if err := tx.Table(tbl).Create(mem.Index(i).Addr().Interface()).Error; err != nil {
					return err
				}
			}
		case "values":
			p := reflect.New(mem.Type())
			p.Elem().Set(mem)
			if err := tx.Table(tbl).Create(p.Interface()).Error; err != nil {
				return err
			}
			mem = p.Elem()
		case "pointers", "batches":
			ptrs := reflect.MakeSlice(reflect.SliceOf(reflect.PointerTo(typ)), in.N, in.N)
			for i := 0; i < in.N; i++ {
				ptrs.Index(i).Set(mem.Index(i).Addr())
			}
			if in.Shape == "pointers" {
				return tx.Table(tbl).Create(ptrs.Interface()).Error
			}
			return tx.Table(tbl).CreateInBatches(ptrs.Interface(), in.Batch).Error
		}
		return nil
	}
	var err error
	if in.Where == "tx" {
		err = db.Transaction(create)
	} else {
		err = create(db)
	}
	if err != nil {
		bad("Create: %v", err)
		return
	}
	// ---- read back ----
	all := reflect.New(reflect.SliceOf(typ))
	if e := db.Table(tbl).Order("id").Find(all.Interface()).Error; e != nil {
		bad("Find(&[]T): %v", e)
		return
	}
	allP := reflect.New(reflect.SliceOf(reflect.PointerTo(typ)))
	if e := db.Table(tbl).Order("id desc").Find(allP.Interface()).Error; e != nil {
		bad("Find(&[]*T): %v", e)
		return
	}
	if all.Elem().Len() != in.N || allP.Elem().Len() != in.N {
		bad("created %d records, Find returns %d / %d", in.N, all.Elem().Len(), allP.Elem().Len())
		return
	}
	for i := 0; i < in.N; i++ {
		label := fmt.Sprintf("r%d", i)
		first := reflect.New(typ)
		if e := db.Table(tbl).Where("label = ?", label).First(first.Interface()).Error; e != nil {
			bad("rec %d: First: %v", i, e)
			continue
		}
		var row map[string]interface{}
		if e := db.Table(tbl).Where("label = ?", label).Take(&row).Error; e != nil {
			bad("rec %d: Take(map): %v", i, e)
			continue
		}
		id := first.Elem().Field(0).Uint()
		if id == 0 || mem.Index(i).Field(0).Uint() != id {
			bad("rec %d: the row's key is %d, the in-memory record carries %d", i, id, mem.Index(i).Field(0).Uint())
		}
		views := []struct {
			what string
			v    reflect.Value
		}{{"First", first.Elem()}}
		for j := 0; j < in.N; j++ {
			if all.Elem().Index(j).Field(1).String() == label {
				views = append(views, struct {
					what string
					v    reflect.Value
				}{"Find(&[]T)", all.Elem().Index(j)})
			}
			if p := allP.Elem().Index(j); !p.IsNil() && p.Elem().Field(1).String() == label {
				views = append(views, struct {
					what string
					v    reflect.Value
				}{"Find(&[]*T)", p.Elem()})
			}
		}
		if len(views) != 3 {
			bad("rec %d: found in %d of 3 reads", i, len(views))
		}
		for fi, f := range fields {
			gv := given.Index(i).Field(2 + fi)
			want := c03Canon(c03SNorm(f.Ser, gv))
			where := fmt.Sprintf("rec %d field %s %s{%s}", i, f.Name, f.typ(), f.Tag)
			for _, vw := range views {
				if got := c03Canon(c03SNorm(f.Ser, vw.v.Field(2+fi))); got != want {
					bad("%s: stored %s, %s loads %s", where, want, vw.what, got)
				}
			}
			if got := c03Canon(c03SNorm(f.Ser, mem.Index(i).Field(2+fi))); got != want {
				bad("%s: given %s, after Create the in-memory record carries %s", where, want, got)
			}
			// the stored representation (model-less map read)
			col := ""
			for _, p := range strings.Split(f.Tag, ";") {
				if strings.HasPrefix(p, "column:") {
					col = strings.TrimPrefix(p, "column:")
				}
			}
			if col == "" {
				col = strings.ToLower(f.Name)
			}
			raw, has := row[col]
			if !has {
				bad("%s: the row has no column %q (%v)", where, col, c03GKeys(row))
				continue
			}
			wantNull, wantRaw := c03SStored(f, gv)
			if wantNull != (raw == nil) {
				bad("%s: given %s: the column holds %v (NULL expected: %v)", where, want, c03SShow(raw), wantNull)
			} else if strings.HasPrefix(wantRaw, "text:") {
				// (a column of integer / numeric affinity holds the marshalled text of a number as a number)
				if got := c03SRawText(raw); got != strings.TrimPrefix(wantRaw, "text:") {
					bad("%s: given %s: the column holds %v, expected %s", where, want, c03SShow(raw), wantRaw)
				}
			} else if wantRaw != "" && c03StoredCanon(raw) != wantRaw {
				bad("%s: given %s: the column holds %v, expected %s", where, want, c03SShow(raw), wantRaw)
			}
		}
	}
	return
}

func c03SRawText(raw interface{}) string {
	switch x := raw.(type) {
	case []byte:
		return string(x)
	case string:
		return x
	case int64:
		return strconv.FormatInt(x, 10)
	case bool:
		return strconv.FormatBool(x)
	}
	return fmt.Sprintf("?%T:%v", raw, raw)
}

func c03SShow(raw interface{}) string {
	switch x := raw.(type) {
	case nil:
		return "NULL"
	case []byte:
		return fmt.Sprintf("%q", string(x))
	case string:
		return fmt.Sprintf("%q", x)
	case time.Time:
		return x.UTC().Format(time.RFC3339)
	}
	return fmt.Sprint(raw)
}

// the stored representation the serializer's contract fixes: NULL or not, and (where simple) the canonical stored value
func c03SStored(f c03SField, v reflect.Value) (null bool, canon string) {
	isNilPtr := f.Ptr && v.IsNil()
	switch f.Ser {
	case "unixtime":
		if isNilPtr {
			return true, ""
		}
		return false, c03StoredCanon(time.Unix(reflect.Indirect(v).Int(), 0).UTC())
	case "json":
		b, _ := json.Marshal(v.Interface())
		if string(b) == "null" {
			if f.NotNull {
				return false, c03StoredCanon("")
			}
			return true, ""
		}
		return false, "text:" + string(b)
	case "c03tag":
		if isNilPtr {
			return true, ""
		}
		return false, c03StoredCanon("T:" + reflect.Indirect(v).String())
	}
	return false, ""
}

func c03SValueClass(f c03SField, v reflect.Value) string {
	if f.Ptr {
		if v.IsNil() {
			return "nil-pointer"
		}
		if v.Elem().IsZero() {
			return "pointer-to-zero"
		}
		return "pointer"
	}
	switch v.Kind() {
	case reflect.Slice, reflect.Map:
		if v.IsNil() {
			return "nil-" + v.Kind().String()
		}
		if v.Len() == 0 {
			return "empty-" + v.Kind().String()
		}
		return v.Kind().String()
	case reflect.Int, reflect.Int16, reflect.Int32, reflect.Int64:
		switch {
		case v.Int() == 0:
			return "zero"
		case v.Int() < 0:
			return "negative"
		case v.Int() > math.MaxInt32:
			return "large"
		}
	default:
		if v.IsZero() {
			return "zero"
		}
	}
	return "non-zero"
}

func c03SDesc(fields []c03SField) string {
	var parts []string
	for _, f := range fields {
		parts = append(parts, fmt.Sprintf("%s{%s}", f.typ(), f.Tag))
	}
	return strings.Join(parts, " ")
}

func c03SerSuite(r *Result, rng *rand.Rand, tier string) {
	n := 450
	if tier == "thorough" {
		n = 8000
	}
	for i := 0; i < n && !expired(); i++ {
		in := c03SInput{Seed: rng.Int63(), Shape: []string{"single", "values", "pointers", "batches"}[rng.Intn(4)], N: 2 + rng.Intn(6),
			Returning: rng.Intn(3) != 0, Where: []string{"plain", "plain", "tx", "prepare"}[rng.Intn(4)]}
		if in.Shape == "batches" {
			in.Batch = 1 + rng.Intn(in.N+1)
		}
		bads, fields := c03SRun(r, in)
		in.Desc = c03SDesc(fields)
		r.H("ser.shape", in.Shape)
		r.H("ser.where", in.Where)
		r.Case("ser", fmt.Sprint(in.Seed, in.Shape, in.N, in.Returning, in.Where), true)
		if len(bads) == 0 {
			r.H("ser.verdict", "ok")
			continue
		}
		r.H("ser.verdict", "violation")
		if len(bads) > 6 {
			bads = append(bads[:6], fmt.Sprintf("… %d more", len(bads)-6))
		}
		r.Violate(Violation{Kind: "e2e", Suite: "ser", Input: in, Observed: bads,
			Expected: "a serialized field is read back (First into a fresh struct, Find into slices, Take into a map) EQUAL to what Create was given: nil stays nil, a pointer to zero stays a pointer to zero, an empty slice / map stays empty"})
	}
}

// ---- suite "sercodec": the built-in serializers called directly vs Model.Serializer ----

type c03SCodecInput struct {
	What  string      `json:"what"`
	Field string      `json:"field"`
	Value interface{} `json:"value"`
	DB    interface{} `json:"db,omitempty"`
}

type c03SUnixModel struct {
	A int64  `gorm:"serializer:unixtime"`
	B *int64 `gorm:"serializer:unixtime"`
	C int32  `gorm:"serializer:unixtime"`
	D *int32 `gorm:"serializer:unixtime"`
	E int    `gorm:"serializer:unixtime"`
	F *int   `gorm:"serializer:unixtime"`
	G int16  `gorm:"serializer:unixtime"`
	H *int16 `gorm:"serializer:unixtime"`
}

type c03SJSONModel struct {
	L   []string          `gorm:"serializer:json"`
	LN  []string          `gorm:"serializer:json;not null"`
	M   map[string]int    `gorm:"serializer:json"`
	MN  map[string]int    `gorm:"serializer:json;NOT NULL"`
	S   string            `gorm:"serializer:json"`
	PS  *string           `gorm:"serializer:json"`
	PSN *string           `gorm:"serializer:json;not null"`
	I   int64             `gorm:"serializer:json"`
	PI  *int64            `gorm:"serializer:json"`
	D   SerDoc            `gorm:"serializer:json"`
	PD  *SerDoc           `gorm:"serializer:json"`
	Y   []byte            `gorm:"serializer:json"`
	MS  map[string]string `gorm:"serializer:json"`
}

type c03SGobModel struct {
	L  []string       `gorm:"serializer:gob"`
	M  map[string]int `gorm:"serializer:gob"`
	S  string         `gorm:"serializer:gob"`
	I  int64          `gorm:"serializer:gob"`
	PI *int64         `gorm:"serializer:gob"`
	D  SerDoc         `gorm:"serializer:gob"`
}

var c03SSchemas = func() func(x interface{}) *schema.Schema {
	var mu sync.Mutex
	cache := &sync.Map{}
	return func(x interface{}) *schema.Schema {
		mu.Lock()
		defer mu.Unlock()
		s, err := schema.Parse(x, cache, schema.NamingStrategy{})
		if err != nil {
			panic(err)
		}
		return s
	}
}()

func c03SBig(n int64) string { return strconv.FormatInt(n, 10) }

// the canonical JSON form of what a serializer's Value returned (the driver-side value)
func c03SDBV(x interface{}) interface{} {
	switch v := x.(type) {
	case nil:
		return nil
	case time.Time:
		if v.Nanosecond() != 0 || v.Location() != time.UTC {
			return []interface{}{"bad-time", v.String()}
		}
		return []interface{}{"time", c03SBig(v.Unix())}
	case string:
		return []interface{}{"text", v}
	case []byte:
		b := []interface{}{}
		for _, c := range v {
			b = append(b, int(c))
		}
		return []interface{}{"blob", b}
	}
	return []interface{}{fmt.Sprintf("%T", x)}
}

func c03SUField(v reflect.Value) interface{} {
	if v.Kind() == reflect.Ptr {
		if v.IsNil() {
			return []interface{}{"ptr", nil}
		}
		return []interface{}{"ptr", c03SBig(v.Elem().Int())}
	}
	return []interface{}{"val", c03SBig(v.Int())}
}

func c03SerCodecSuite(r *Result, rng *rand.Rand, tier string) {
	ctx := context.Background()
	var ops [][]interface{}
	var reals []interface{}
	var ins []c03SCodecInput
	add := func(in c03SCodecInput, op []interface{}, real interface{}) {
		ops = append(ops, op)
		reals = append(reals, real)
		ins = append(ins, in)
	}
	guard := func(f func() interface{}) (out interface{}) {
		defer func() {
			if p := recover(); p != nil {
				out = "panic"
			}
		}()
		return f()
	}
	// ---- unixtime ----
	us := c03SSchemas(&c03SUnixModel{})
	uvals := []int64{0, 1, -1, 59, 86400, 1700000000, math.MaxInt16, math.MinInt16, math.MaxInt32, math.MinInt32, 253402300799, -62135596800}
	rounds := 40
	if tier == "thorough" {
		rounds = 2000
	}
	for i := 0; i < rounds; i++ {
		uvals = append(uvals, int64(int16(rng.Intn(1<<16))), int64(int32(rng.Uint32())), rng.Int63n(1<<40)-(1<<39))
	}
	for _, f := range us.Fields {
		ptr := f.FieldType.Kind() == reflect.Ptr
		et := f.FieldType
		if ptr {
			et = et.Elem()
		}
		var vals []reflect.Value
		if ptr {
			vals = append(vals, reflect.Zero(f.FieldType))
		}
		for _, x := range uvals {
			e := reflect.New(et).Elem()
			e.SetInt(x)
			if e.Int() != x {
				continue
			}
			if ptr {
				p := reflect.New(et)
				p.Elem().Set(e)
				e = p
			}
			vals = append(vals, e)
		}
		for _, v := range vals {
			v := v
			f := f
			uf := c03SUField(v)
			real := guard(func() interface{} {
				rec := reflect.New(us.ModelType).Elem()
				dbv, err := schema.UnixSecondSerializer{}.Value(ctx, f, rec, v.Interface())
				if err != nil {
					return "error"
				}
				fresh := reflect.New(us.ModelType).Elem()
				if err := (schema.UnixSecondSerializer{}).Scan(ctx, f, fresh, dbv); err != nil {
					return []interface{}{c03SDBV(dbv), "error"}
				}
				return []interface{}{c03SDBV(dbv), c03SUField(f.ReflectValueOf(ctx, fresh))}
			})
			r.H("sercodec.unix", c03SValueClass(c03SField{Ptr: ptr}, v))
			add(c03SCodecInput{What: "unix-roundtrip", Field: f.Name, Value: uf}, []interface{}{"c03.ser.unix", uf}, real)
			// Scan into a field that already holds a value
			for _, dbv := range []interface{}{nil, time.Unix(uvals[rng.Intn(len(uvals))]%32000, 0).UTC(), "not a time"} {
				dbv := dbv
				real := guard(func() interface{} {
					cur := reflect.New(us.ModelType).Elem()
					f.ReflectValueOf(ctx, cur).Set(v)
					if err := (schema.UnixSecondSerializer{}).Scan(ctx, f, cur, dbv); err != nil {
						return "error"
					}
					return c03SUField(f.ReflectValueOf(ctx, cur))
				})
				add(c03SCodecInput{What: "unix-scan", Field: f.Name, Value: uf, DB: c03SDBV(dbv)}, []interface{}{"c03.ser.unixscan", uf, c03SDBV(dbv)}, real)
			}
		}
	}
	// ---- json: Value decision + what Scan does ----
	js := c03SSchemas(&c03SJSONModel{})
	str, i0 := "", int64(0)
	jvals := map[string][]interface{}{
		"L": {[]string(nil), []string{}, []string{"a"}}, "LN": {[]string(nil), []string{}, []string{"null"}},
		"M": {map[string]int(nil), map[string]int{}, map[string]int{"a": 0}}, "MN": {map[string]int(nil), map[string]int{}},
		"S": {"", "null", "x"}, "PS": {(*string)(nil), &str}, "PSN": {(*string)(nil), &str},
		"I": {int64(0), int64(-5)}, "PI": {(*int64)(nil), &i0},
		"D": {SerDoc{}, SerDoc{L: []string{}}}, "PD": {(*SerDoc)(nil), &SerDoc{}},
		"Y": {[]byte(nil), []byte{}, []byte{1}}, "MS": {map[string]string(nil), map[string]string{}},
	}
	actOf := func(f *schema.Field, dirty reflect.Value, dbv interface{}, scan func(rec reflect.Value) error, dec func(b []byte, into interface{}) error) interface{} {
		return guard(func() interface{} {
			rec := reflect.New(f.Schema.ModelType).Elem()
			f.ReflectValueOf(ctx, rec).Set(dirty)
			if err := scan(rec); err != nil {
				return "error"
			}
			return c03Canon(f.ReflectValueOf(ctx, rec))
		})
	}
	expectOf := func(f *schema.Field, act json.RawMessage, dec func(b []byte, into interface{}) error) interface{} {
		var s string
		if json.Unmarshal(act, &s) == nil {
			if s == "zero" {
				return c03Canon(reflect.Zero(f.FieldType))
			}
			return s
		}
		var a []json.RawMessage
		if json.Unmarshal(act, &a) != nil || len(a) != 2 {
			return "bad-act"
		}
		var kind string
		json.Unmarshal(a[0], &kind)
		var b []byte
		if kind == "decode" {
			var t string
			json.Unmarshal(a[1], &t)
			b = []byte(t)
		} else {
			var ns []int
			json.Unmarshal(a[1], &ns)
			for _, n := range ns {
				b = append(b, byte(n))
			}
		}
		fresh := reflect.New(f.FieldType)
		if dec(b, fresh.Interface()) != nil {
			return "error"
		}
		return c03Canon(fresh.Elem())
	}
	jsonDec := func(b []byte, into interface{}) error { return json.Unmarshal(b, into) }
	gobDec := func(b []byte, into interface{}) error { return gob.NewDecoder(bytes.NewBuffer(b)).Decode(into) }
	type pending struct {
		f   *schema.Field
		dec func(b []byte, into interface{}) error
	}
	pend := map[int]pending{}
	for _, f := range js.Fields {
		notNull := f.TagSettings["NOT NULL"] != ""
		vals := jvals[f.Name]
		for _, v := range vals {
			enc, _ := json.Marshal(v)
			v := v
			f := f
			real := guard(func() interface{} {
				dbv, err := schema.JSONSerializer{}.Value(ctx, f, reflect.New(js.ModelType).Elem(), v)
				if err != nil {
					return "error"
				}
				return c03SDBV(dbv)
			})
			r.H("sercodec.json-value", fmt.Sprintf("notnull=%v null=%v", notNull, string(enc) == "null"))
			// only the Value half of the answer is compared here (first element)
			add(c03SCodecInput{What: "json-value", Field: f.Name, Value: string(enc)}, []interface{}{"c03.ser.json", notNull, string(enc)}, []interface{}{"first", real})
		}
		dirty := reflect.ValueOf(vals[len(vals)-1])
		for _, dbv := range []interface{}{nil, "", []byte{}, "null", []byte("null"), string(func() []byte { b, _ := json.Marshal(vals[len(vals)-1]); return b }()), func() []byte { b, _ := json.Marshal(vals[0]); return b }(), "{broken"} {
			dbv := dbv
			f := f
			real := actOf(f, dirty, dbv, func(rec reflect.Value) error { return schema.JSONSerializer{}.Scan(ctx, f, rec, dbv) }, jsonDec)
			pend[len(ops)] = pending{f, jsonDec}
			add(c03SCodecInput{What: "json-scan", Field: f.Name, DB: c03SDBV(dbv)}, []interface{}{"c03.ser.scan", "json", c03SDBV(dbv)}, real)
		}
	}
	gs := c03SSchemas(&c03SGobModel{})
	gvals := map[string][]interface{}{"L": {[]string(nil), []string{"a"}}, "M": {map[string]int(nil), map[string]int{"k": 1}}, "S": {"", "s"}, "I": {int64(0), int64(9)}, "PI": {&i0}, "D": {SerDoc{}, SerDoc{N: 3}}}
	for _, f := range gs.Fields {
		vals := gvals[f.Name]
		dirty := reflect.ValueOf(vals[len(vals)-1])
		var encs []interface{}
		for _, v := range vals {
			buf := new(bytes.Buffer)
			gob.NewEncoder(buf).Encode(v)
			encs = append(encs, buf.Bytes())
		}
		for _, dbv := range append([]interface{}{nil, []byte{}, "text", []byte{1, 2, 3}}, encs...) {
			dbv := dbv
			f := f
			real := actOf(f, dirty, dbv, func(rec reflect.Value) error { return schema.GobSerializer{}.Scan(ctx, f, rec, dbv) }, gobDec)
			pend[len(ops)] = pending{f, gobDec}
			add(c03SCodecInput{What: "gob-scan", Field: f.Name, DB: c03SDBV(dbv)}, []interface{}{"c03.ser.scan", "gob", c03SDBV(dbv)}, real)
		}
	}
	outs, err := AskLean(ops)
	if err != nil {
		r.Violate(Violation{Kind: "correspondence", Suite: "sercodec", Note: "lean driver: " + err.Error()})
		return
	}
	for i := range ops {
		var expected interface{}
		real := reals[i]
		if p, ok := pend[i]; ok {
			expected = expectOf(p.f, outs[i], p.dec)
			// a failed decode: Scan reports the error (the field is assigned all the same — not judged)
		} else if fr, ok := real.([]interface{}); ok && len(fr) == 2 && fr[0] == "first" {
			var a []json.RawMessage
			json.Unmarshal(outs[i], &a)
			real = fr[1]
			if len(a) > 0 {
				var x interface{}
				json.Unmarshal(a[0], &x)
				expected = x
			}
		} else {
			var x interface{}
			json.Unmarshal(outs[i], &x)
			expected = x
		}
		r.Case("sercodec", fmt.Sprint(canon(ops[i])), true)
		r.H("sercodec.op", fmt.Sprint(ops[i][0]))
		r.CorrCompared++
		if canon(real) != canon(expected) {
			r.Violate(Violation{Kind: "correspondence", Suite: "sercodec", Input: ins[i], Observed: real, Expected: expected,
				Note: "schema/serializer.go Value / Scan of a built-in serializer differs from Model.Serializer (unixValue, unixScan, jsonValue, jsonScan, gobScan)"})
		}
	}
}

func init() {
	schema.RegisterSerializer("c03tag", c03TagSerializer{})
	register("C03", c03SerCodecSuite)
	register("C03", c03SerSuite)
	replayers["C03/sercodec"] = func(r *Result, input json.RawMessage) { r.Note("sercodec replays are correspondence-only") }
	replayers["C03/ser"] = func(r *Result, input json.RawMessage) {
		var in c03SInput
		if json.Unmarshal(input, &in) != nil {
			return
		}
		in.Fields = nil
		if bads, _ := c03SRun(nil, in); len(bads) > 0 {
			r.Violate(Violation{Kind: "e2e", Suite: "ser", Input: in, Observed: bads})
		}
	}
}
