package main

// C01 suite "e2e-api", part 2: families (query / update / delete / create / raw / first-or-x), runner, replayer.

import (
	"database/sql"
	"encoding/json"
	"fmt"
	"math/rand"
	"os"
	"sort"
	"strings"
	"time"

	"gorm.io/gorm"
	"gorm.io/gorm/clause"
)

// limitStep: Limit / Offset / Clauses(clause.Limit); returns the values (limit < 0: none)
func (g *c01ApiGen) limitStep() (lim, off int) {
	lim, off = -1, 0
	if g.rng.Intn(3) != 0 {
		return
	}
	lim = 1 + g.rng.Intn(5)
	if g.bindLimit && g.rng.Intn(2) == 0 {
		lim = g.m.I()
	}
	if g.rng.Intn(2) == 0 {
		off = 1 + g.rng.Intn(2)
	}
	how := g.pick("Limit.Offset", "Offset.Limit", "Clauses(Limit)")
	l, o := lim, off
	g.add("Limit", "none", 0, fmt.Sprintf("%s(%d,%d)", how, l, o), nil, func(d *gorm.DB) *gorm.DB {
		switch how {
		case "Clauses(Limit)":
			return d.Clauses(clause.Limit{Limit: &l, Offset: o})
		case "Offset.Limit":
			return d.Offset(o).Limit(l)
		}
		return d.Limit(l).Offset(o)
	})
	return
}

func (g *c01ApiGen) limArgs(lim, off int) []interface{} {
	out := []interface{}{}
	if !g.bindLimit {
		return out
	}
	if lim >= 0 {
		out = append(out, lim)
	}
	if off > 0 {
		out = append(out, off)
	}
	return out
}

// inline conditions of a finisher (slot 7): conds..., bound values
func (g *c01ApiGen) inline(hasSchema bool) (conds []interface{}, bound []interface{}, desc string) {
	m := g.m
	if hasSchema && g.shape == "users" && g.rng.Intn(3) == 0 {
		switch g.rng.Intn(6) {
		case 0:
			a := m.I()
			return []interface{}{a}, []interface{}{a}, "pk int"
		case 1:
			vs, b := g.ints(2 + g.rng.Intn(2))
			return []interface{}{vs}, b, "pk []int"
		case 2:
			a, b := m.I(), m.I()
			return []interface{}{a, b}, []interface{}{a, b}, "pk int, int"
		case 3:
			a := m.I()
			return []interface{}{"id = ?", a}, []interface{}{a}, `"id = ?", int`
		case 4:
			a := m.I()
			return []interface{}{fmt.Sprint(a)}, []interface{}{fmt.Sprint(a)}, "pk numeric string"
		default:
			a, b := uint(m.I()), int64(m.I())
			return []interface{}{[]interface{}{a, b}}, []interface{}{a, b}, "pk []interface{}{uint,int64}"
		}
	}
	c := g.cond()
	return append([]interface{}{c.query}, c.args...), c.bound, c.desc
}

var c01ApiFamilies = []string{"query", "query", "query", "query", "query", "query", "update", "update", "delete", "create", "raw", "raw", "firstor"}

func c01GenApiCase(seed int64, db *gorm.DB) *c01Case {
	rng := rand.New(rand.NewSource(seed))
	m := &markerGen{}
	g := &c01ApiGen{rng: rng, m: m, db: db, shape: "users", cs: "name", ci: "age", firstWhere: true, bindLimit: rng.Intn(2) == 0}
	c := &c01Case{M: m}
	fam := c01ApiFamilies[rng.Intn(len(c01ApiFamilies))]
	c01H("e2e-api.family", fam)
	switch fam {
	case "query":
		g.genQuery(c)
	case "update":
		g.genUpdate(c)
	case "delete":
		g.genDelete(c)
	case "create":
		g.genCreate(c)
	case "raw":
		g.genRaw(c)
	default:
		g.genFirstOr(c)
	}
	c.Desc = append(g.descs(), c.Desc...)
	if g.bindLimit {
		c.Desc = append(c.Desc, "[LIMIT bound by clause.Limit.Build]")
	}
	inner, bind := c.Run, g.bindLimit
	c.Run = func(d *gorm.DB) *gorm.DB {
		c01ApiSetLimit(d, bind)
		return inner(d)
	}
	return c
}

func (c *c01Case) exp(prefix string, args ...interface{}) {
	c.Expect = append(c.Expect, c01Expect{prefix, c01NormAll(args)})
}

// ---- query family ---------------------------------------------------------------------------------------------------------------

func (g *c01ApiGen) genQuery(c *c01Case) {
	rng := g.rng
	scopedN := func(f func(phase int), multi bool) {
		if rng.Intn(6) == 0 {
			g.scopeWrap(f, multi && rng.Intn(3) == 0)
		} else {
			f(0)
		}
	}
	scoped := func(f func(phase int)) { scopedN(f, false) }
	if rng.Intn(5) < 2 {
		scoped(g.tableStep)
	}
	hasTable := g.has("table")
	var fins []string
	if g.shape == "users" && g.emptyTable {
		fins = []string{"Find", "Find", "Take", "Scan", "ScanStruct", "Rows", "Row", "Count", "Pluck", "PluckExpr", "FindMaps", "TakeMap"}
	} else if g.shape == "users" {
		fins = []string{"Find", "Find", "Take", "First", "Last", "Scan", "ScanStruct", "Rows", "Row", "Count", "Pluck", "PluckExpr", "FindInBatches", "FindMaps", "TakeMap", "FirstOrInit"}
	} else {
		fins = []string{"Scan", "Scan", "Rows", "Row", "Count", "Pluck", "FindMaps", "TakeMap"}
	}
	fin := fins[rng.Intn(len(fins))]
	c.Fin = fin
	typed := fin == "Find" || fin == "Take" || fin == "First" || fin == "Last" || fin == "FindInBatches" || fin == "FirstOrInit"
	model := g.pick("before", "after", "after", "none")
	if model == "none" && !typed && !hasTable {
		model = "after"
	}
	if g.shape != "users" && model != "none" && rng.Intn(2) == 0 {
		model = "none"
	}
	if g.emptyTable && !typed {
		model = "none"
	}
	hasSchema := typed || model != "none"
	noSelOrder := fin == "Count" || fin == "First" || fin == "Last" || fin == "FindInBatches" || fin == "FirstOrInit"
	canScope := fin != "FindInBatches" && fin != "FirstOrInit"
	scm := func(f func(phase int), multi bool) {
		if canScope {
			scopedN(f, multi)
		} else {
			f(0)
		}
	}
	sc := func(f func(phase int)) { scm(f, false) }
	// 0-3 further steps
	for i, n := 0, rng.Intn(4); i < n; i++ {
		switch k := rng.Intn(20); {
		case k < 6:
			scm(g.whereStep, true)
		case k < 9 && !noSelOrder && !g.has("select"):
			sc(g.selectStep)
		case k < 12 && g.shape != "series" && !(g.emptyTable && hasSchema):
			scm(g.joinStep, true)
		case k == 12 && hasSchema && !g.emptyTable && g.shape == "users" && fin != "Count":
			g.fromJoinStep()
		case k < 15 && !g.has("having") && fin != "FindInBatches":
			sc(g.havingStep)
		case k < 18 && !g.has("order"):
			sc(func(ph int) { g.orderStep(ph, !noSelOrder) })
		case k == 18:
			g.add("Clauses(Locking)", "none", 0, "Clauses(Locking{UPDATE})", nil, func(d *gorm.DB) *gorm.DB {
				return d.Clauses(clause.Locking{Strength: "UPDATE", Options: "NOWAIT"})
			})
		default:
			scm(g.whereStep, true)
		}
	}
	lim, off := -1, 0
	if fin != "FindInBatches" {
		lim, off = g.limitStep()
	}
	// inline conditions
	var conds []interface{}
	if (typed || fin == "FindMaps" || fin == "TakeMap") && fin != "FindInBatches" && rng.Intn(5) < 2 {
		var b []interface{}
		var d string
		conds, b, d = g.inline(hasSchema && !g.emptyTable && (g.has("table") == false || g.shape == "users"))
		c01H("e2e-api.slot", "inline:"+fin)
		c01H("e2e-api.inline-form", c01Trunc(d, 28))
		g.steps = append(g.steps, c01ApiStep{c01Step{fin + " inline(" + d + ")", "where", b, nil}, "inline", 1})
	}
	switch fin {
	case "Take", "First", "Last", "TakeMap", "FirstOrInit":
		lim = 1
	case "FindInBatches":
		lim = 100
		c.ExtraOK = true
	}
	pluck := g.cs
	if fin == "PluckExpr" {
		pluck = "COALESCE(" + g.cs + ", 'x')"
	}
	c.exp("SELECT", c01Cat(g.args("select", "table", "fromjoin", "joins", "where", "having", "order"), g.limArgs(lim, off)...)...)
	c01H("e2e-api.model", model)
	c.Run = func(d *gorm.DB) *gorm.DB {
		tx := d
		if model == "before" {
			tx = tx.Model(&VUser{})
		}
		tx = g.apply(tx)
		if model == "after" {
			tx = tx.Model(&VUser{})
		}
		if tx == d {
			tx = d.Session(&gorm.Session{})
			tx = tx.Where(clause.Expr{SQL: "1=1"})
		}
		switch fin {
		case "Find":
			var us []VUser
			return tx.Find(&us, conds...)
		case "Take":
			var u VUser
			return tx.Take(&u, conds...)
		case "First":
			var u VUser
			return tx.First(&u, conds...)
		case "Last":
			var u VUser
			return tx.Last(&u, conds...)
		case "FirstOrInit":
			var u VUser
			return tx.Attrs(VUser{Email: "attr"}).Assign(map[string]interface{}{"age": 3}).FirstOrInit(&u, conds...)
		case "FindMaps":
			var rs []map[string]interface{}
			return tx.Find(&rs, conds...)
		case "TakeMap":
			r := map[string]interface{}{}
			return tx.Take(&r, conds...)
		case "Scan":
			var rs []map[string]interface{}
			return tx.Scan(&rs)
		case "ScanStruct":
			var us []VUser
			return tx.Scan(&us)
		case "Rows":
			if rows, err := tx.Rows(); err == nil {
				rows.Close()
			}
			return tx
		case "Row":
			var x interface{}
			if row := tx.Row(); row != nil {
				_ = row.Scan(&x)
			}
			return tx
		case "Count":
			var n int64
			return tx.Count(&n)
		case "Pluck", "PluckExpr":
			var xs []interface{}
			return tx.Pluck(pluck, &xs)
		default: // FindInBatches
			var us []VUser
			return tx.FindInBatches(&us, 100, func(*gorm.DB, int) error { return fmt.Errorf("stop after the first batch") })
		}
	}
}

// ---- update family (slot 12) ----------------------------------------------------------------------------------------------------

func (g *c01ApiGen) mustWhere() {
	i := g.m.I()
	g.firstWhere = false
	g.add("Where", "where", 0, "Where(id <> ?)", []interface{}{i}, func(d *gorm.DB) *gorm.DB { return d.Where("id <> ?", i) })
	for k, n := 0, g.rng.Intn(3); k < n; k++ {
		g.whereStep(0)
	}
}

// exprValue: a value for an UPDATE / INSERT column that is an expression with arguments
func (g *c01ApiGen) exprValue(col string, insert bool) (interface{}, []interface{}, string) {
	m := g.m
	ref := col
	if insert {
		ref = "1"
	}
	switch g.rng.Intn(9) {
	case 0:
		a := m.I()
		return gorm.Expr(ref+"+?", a), []interface{}{a}, "Expr(col+?)"
	case 1:
		a, b := m.I(), m.I()
		return gorm.Expr("? + ?", a, b), []interface{}{a, b}, "Expr(? + ?)"
	case 2:
		vs, b := g.ints(2 + g.rng.Intn(2))
		return gorm.Expr("(CASE WHEN "+ref+" IN(?) THEN 1 ELSE 0 END)", vs), b, "Expr(IN(?) list)"
	case 3:
		vs, b := g.ints(2)
		return clause.Expr{SQL: "(CASE WHEN " + ref + " IN ? THEN 1 ELSE 0 END)", Vars: []interface{}{vs}}, b, "clause.Expr(IN ? list)"
	case 4:
		sub, b, d := g.sub("scalar")
		return sub, b, "sub-query " + d
	case 5:
		a := m.I()
		return clause.NamedExpr{SQL: ref + "+@a", Vars: []interface{}{sql.Named("a", a)}}, []interface{}{a}, "NamedExpr(col+@a)"
	case 6:
		sub, b, d := g.sub("scalar")
		a := m.I()
		return gorm.Expr("(?)+?", sub, a), c01Cat(b, a), "Expr((?)+?, sub " + d + ")"
	case 7:
		a := m.I()
		return gorm.Expr("(?)", a), []interface{}{a}, "Expr((?))"
	default:
		a := m.I()
		return gorm.Expr("COALESCE(?,"+ref+")", a), []interface{}{a}, "Expr(COALESCE(?,col))"
	}
}

func (g *c01ApiGen) genUpdate(c *c01Case) {
	m, rng := g.m, g.rng
	g.mustWhere()
	fin := g.pick("Update", "Update", "UpdateColumn", "Updates(map)", "Updates(map)", "UpdateColumns(map)", "Select.Updates(map)", "Omit.Updates(map)", "Clauses(Set)", "Updates(struct)", "Select.Updates(struct)")
	c.Fin = fin
	ev, eb, ed := g.exprValue("age", false)
	s1 := m.S()
	ret := rng.Intn(4) == 0
	tbl := g.pick("model", "model", "table", "table-expr")
	w := func() []interface{} { return g.args("where") }
	var set []interface{}
	switch fin {
	case "Update":
		set = c01Cat(eb, nowArg())
	case "UpdateColumn":
		set = eb
	case "Updates(map)", "Select.Updates(map)":
		set = c01Cat(eb, s1, nowArg())
		if fin == "Select.Updates(map)" {
			set = c01Cat(eb, nowArg())
		}
	case "Omit.Updates(map)":
		set = c01Cat(eb, nowArg())
	case "UpdateColumns(map)":
		set = c01Cat(eb, s1)
	case "Clauses(Set)":
		set = c01Cat(eb, s1)
	case "Updates(struct)":
		i1 := m.I()
		ev, eb, ed = i1, []interface{}{i1}, "struct"
		set = []interface{}{s1, i1, nowArg()}
	default:
		i1 := m.I()
		ev, eb, ed = i1, []interface{}{i1}, "struct"
		set = []interface{}{i1, nowArg()}
	}
	c01H("e2e-api.slot", fin)
	c01H("e2e-api.update-value", c01Trunc(ed, 24))
	c.Desc = []string{fmt.Sprintf("%s(age: %s) table=%s returning=%v", fin, ed, tbl, ret)}
	c.exp("UPDATE", c01Cat(set, w()...)...)
	c.Run = func(d *gorm.DB) *gorm.DB {
		tx := g.apply(d)
		switch tbl {
		case "model":
			tx = tx.Model(&VUser{})
		case "table":
			tx = tx.Model(&VUser{}).Table("v_users")
		default:
			tx = tx.Table("`v_users`").Model(&VUser{})
		}
		if ret {
			tx = tx.Clauses(clause.Returning{Columns: []clause.Column{{Name: "id"}, {Name: "age"}}})
		}
		switch fin {
		case "Update":
			return tx.Update("age", ev)
		case "UpdateColumn":
			return tx.UpdateColumn("age", ev)
		case "Updates(map)":
			return tx.Updates(map[string]interface{}{"age": ev, "email": s1})
		case "UpdateColumns(map)":
			return tx.UpdateColumns(map[string]interface{}{"age": ev, "email": s1})
		case "Select.Updates(map)":
			return tx.Select("age").Updates(map[string]interface{}{"age": ev, "email": s1})
		case "Omit.Updates(map)":
			return tx.Omit("email").Updates(map[string]interface{}{"age": ev, "email": s1})
		case "Clauses(Set)":
			return tx.Clauses(clause.Assignments(map[string]interface{}{"age": ev, "email": s1})).Update("name", "unused")
		case "Updates(struct)":
			return tx.Updates(VUser{Name: s1, Age: ev.(int)})
		default:
			return tx.Select("age").Updates(VUser{Name: s1, Age: ev.(int)})
		}
	}
}

// ---- delete family (slot 7 on Delete) ----------------------------------------------------------------------------------------------

func (g *c01ApiGen) genDelete(c *c01Case) {
	rng := g.rng
	soft := rng.Intn(4) == 0
	if rng.Intn(3) != 0 {
		g.mustWhere()
	}
	var conds, ib []interface{}
	d := "no inline"
	if rng.Intn(4) != 0 || !g.has("where") {
		conds, ib, d = g.inline(true)
		c01H("e2e-api.slot", "inline:Delete")
		c01H("e2e-api.inline-form", c01Trunc(d, 28))
		g.steps = append(g.steps, c01ApiStep{c01Step{"Delete inline(" + d + ")", "where", ib, nil}, "inline", 1})
	}
	ret := rng.Intn(4) == 0
	c.Fin = "Delete"
	if soft {
		c.Fin = "SoftDelete"
	}
	c.Desc = []string{fmt.Sprintf("%s returning=%v", c.Fin, ret)}
	if soft {
		c.exp("UPDATE", c01Cat([]interface{}{nowArg()}, g.args("where")...)...)
	} else {
		c.exp("DELETE", g.args("where")...)
	}
	c.Run = func(db *gorm.DB) *gorm.DB {
		tx := g.apply(db)
		if ret {
			tx = tx.Clauses(clause.Returning{})
		}
		if soft {
			return tx.Delete(&VSoft{}, conds...)
		}
		if ret {
			var us []VUser
			return tx.Delete(&us, conds...)
		}
		return tx.Delete(&VUser{}, conds...)
	}
}

// ---- create family (slot 13, OnConflict / Insert / Returning of slot 8) ----------------------------------------------------------

func (g *c01ApiGen) genCreate(c *c01Case) {
	m, rng := g.m, g.rng
	fin := g.pick("Create(map)", "Create(map)", "Create([]map)", "CreateInBatches([]map)", "Create(struct)+OnConflict", "Create(struct)+OnConflict", "Create(map)+OnConflict")
	c.Fin = fin
	c01H("e2e-api.slot", fin)
	mod := g.pick("", "", "OR IGNORE", "OR REPLACE")
	ret := rng.Intn(4) == 0
	deco := func(tx *gorm.DB) *gorm.DB {
		if mod != "" {
			tx = tx.Clauses(clause.Insert{Modifier: mod})
		}
		if ret {
			tx = tx.Clauses(clause.Returning{Columns: []clause.Column{{Name: "id"}}})
		}
		return tx
	}
	// ON CONFLICT material
	onConflict := func() (clause.OnConflict, []interface{}, string) {
		oc := clause.OnConflict{Columns: []clause.Column{{Name: "id"}}}
		var b []interface{}
		d := ""
		if rng.Intn(4) == 0 {
			a := m.I()
			oc.TargetWhere = clause.Where{Exprs: []clause.Expression{clause.Expr{SQL: "id<>?", Vars: []interface{}{a}}}}
			b, d = append(b, a), d+"TargetWhere,"
		}
		switch rng.Intn(4) {
		case 0:
			oc.DoNothing = true
			d += "DoNothing"
		default:
			ev, eb, ed := g.exprValue("v_users.age", false)
			s := m.S()
			if rng.Intn(2) == 0 {
				oc.DoUpdates = clause.Assignments(map[string]interface{}{"age": ev, "email": s})
			} else {
				oc.DoUpdates = clause.Set{{Column: clause.Column{Name: "age"}, Value: ev}, {Column: clause.Column{Name: "email"}, Value: s}}
			}
			if _, isDB := ev.(*gorm.DB); isDB {
				// Set.Build hands the handle to AddVar as it is: `age`=(SELECT ..) - still one placeholder per value
				d += "sub,"
			}
			b, d = c01Cat(c01Cat(b, eb...), s), d+"DoUpdates{age: "+ed+", email}"
			if rng.Intn(3) == 0 {
				a := m.I()
				vs, lb := g.ints(2)
				oc.Where = clause.Where{Exprs: []clause.Expression{clause.Expr{SQL: "v_users.age<>?", Vars: []interface{}{a}}, clause.Expr{SQL: "v_users.age NOT IN(?)", Vars: []interface{}{vs}}}}
				b, d = c01Cat(c01Cat(b, a), lb...), d+",Where"
			}
		}
		return oc, b, d
	}
	switch fin {
	case "Create(map)", "Create(map)+OnConflict":
		ev, eb, ed := g.exprValue("age", true)
		s := m.S()
		vals := c01Cat(eb, s)
		var oc clause.OnConflict
		ocd := ""
		id := 0
		if fin == "Create(map)+OnConflict" {
			var ob []interface{}
			oc, ob, ocd = onConflict()
			id = 1 + rng.Intn(5)
			vals = c01Cat(c01Cat(eb, id, s), ob...)
		}
		c.Desc = []string{fmt.Sprintf("%s{age: %s, name} modifier=%q returning=%v %s", fin, ed, mod, ret, ocd)}
		c.exp("INSERT", vals...)
		c.Run = func(d *gorm.DB) *gorm.DB {
			tx := deco(d.Model(&VUser{}))
			mp := map[string]interface{}{"age": ev, "name": s}
			if id != 0 {
				mp["id"] = id
				tx = tx.Clauses(oc)
			}
			return tx.Create(mp)
		}
	case "Create([]map)", "CreateInBatches([]map)":
		ev, eb, ed := g.exprValue("age", true)
		s1, s2, a2 := m.S(), m.S(), m.I()
		rows := []map[string]interface{}{{"age": ev, "name": s1}, {"age": a2, "name": s2}}
		if rng.Intn(2) == 0 {
			rows[0], rows[1] = rows[1], rows[0]
		}
		r0 := c01Cat(eb, s1)
		r1 := []interface{}{a2, s2}
		if rows[0]["name"] == s2 {
			r0, r1 = r1, r0
		}
		c.Desc = []string{fmt.Sprintf("%s{age: %s} modifier=%q returning=%v", fin, ed, mod, ret)}
		if fin == "Create([]map)" {
			c.exp("INSERT", c01Cat(r0, r1...)...)
		} else {
			c.exp("INSERT", r0...)
			c.exp("INSERT", r1...)
		}
		c.Run = func(d *gorm.DB) *gorm.DB {
			tx := deco(d.Model(&VUser{}))
			if fin == "Create([]map)" {
				return tx.Create(rows)
			}
			return tx.CreateInBatches(rows, 1)
		}
	default:
		oc, ob, ocd := onConflict()
		s1, i1 := m.S(), m.I()
		id := uint(1 + rng.Intn(5))
		c.Desc = []string{fmt.Sprintf("%s %s modifier=%q returning=%v", fin, ocd, mod, ret)}
		c.exp("INSERT", c01Cat([]interface{}{s1, i1, nil, "", nowArg(), id}, ob...)...)
		c.Run = func(d *gorm.DB) *gorm.DB {
			return deco(d).Clauses(oc).Create(&VUser{ID: id, Name: s1, Age: i1})
		}
	}
}

// ---- raw family (slot 14) -----------------------------------------------------------------------------------------------------------

func (g *c01ApiGen) genRaw(c *c01Case) {
	m, rng := g.m, g.rng
	exec := rng.Intn(3) == 0
	var q string
	var args, bound []interface{}
	switch rng.Intn(8) {
	case 0:
		s := m.S()
		vs, b := g.ints(2 + rng.Intn(2))
		q, args, bound = "name<>? AND age NOT IN(?)", []interface{}{s, vs}, c01Cat([]interface{}{s}, b...)
	case 1:
		s, a := m.S(), m.I()
		q, args, bound = "(?)<>name\nAND\tage<>?", []interface{}{s, a}, []interface{}{s, a}
	case 2:
		s, a := m.S(), m.I()
		q, args, bound = "(name<>@n)AND(age NOT IN(@a,@a));", []interface{}{sql.Named("a", a), sql.Named("n", s)}, []interface{}{s, a, a}
	case 3:
		sub, b, _ := g.sub("ids")
		s := m.S()
		q, args, bound = "id NOT IN(?)AND name<>?", []interface{}{sub, s}, c01Cat(b, s)
	case 4:
		nm := c01GenNamed(rng, m, "")
		q, args, bound = nm.Tmpl, nm.Args, nm.Bound
	case 5:
		s, a := m.S(), m.I()
		q, args, bound = "name<>@Name\nAND age<>@Age", []interface{}{&c01E2EArgs{Name: s, Age: a}}, []interface{}{s, a}
	default:
		c1 := g.textCond()
		q, args, bound = c1.query.(string), c1.args, c1.bound
		if !strings.Contains(q, "@") {
			c2 := g.textCond()
			if !strings.Contains(c2.query.(string), "@") {
				q, args, bound = q+" AND "+c2.query.(string), c01Cat(args, c2.args...), c01Cat(bound, c2.bound...)
			}
		}
	}
	c01H("e2e-api.raw-spelling", c01Trunc(q, 30))
	if exec {
		head := g.pick("UPDATE v_users SET email=email WHERE ", "update`v_users`set`email`=`email`where\n", "DELETE FROM v_users WHERE ", "UPDATE v_users SET age=(SELECT MAX(age) FROM v_users) WHERE\t")
		if strings.Contains(q, "@") {
			head = strings.ReplaceAll(head, "\t", " ")
		}
		c.Fin = "Exec"
		c01H("e2e-api.slot", "Exec")
		c.Desc = []string{fmt.Sprintf("Exec(%q, %d args)", head+q, len(args))}
		c.exp(strings.ToUpper(head[:6]), bound...)
		c.Expect[0].Prefix = head[:6]
		c.Run = func(d *gorm.DB) *gorm.DB { return d.Exec(head+q, args...) }
		return
	}
	head := g.pick("SELECT * FROM v_users WHERE ", "select*from`v_users`where\n", "SELECT id,name FROM v_users WHERE\n", "SELECT * FROM (SELECT * FROM v_users) AS v_users WHERE ")
	how := g.pick("Scan", "ScanMaps", "Rows", "Row", "Find", "Take", "Count", "Pluck", "First")
	lead := rng.Intn(4) == 0 && !strings.Contains(q, "@") && !strings.HasPrefix(head, "select*")
	text := head + q
	if lead { // a value in the select list: `?` before everything else
		s := m.S()
		text = strings.Replace(text, "SELECT ", "SELECT ? AS c, ", 1)
		args, bound = c01Cat([]interface{}{s}, args...), c01Cat([]interface{}{s}, bound...)
	}
	c.Fin = "Raw." + how
	c01H("e2e-api.slot", "Raw."+how)
	c.Desc = []string{fmt.Sprintf("Raw(%q, %d args).%s", text, len(args), how)}
	c.exp(text[:6], bound...)
	c.Run = func(d *gorm.DB) *gorm.DB {
		tx := d.Raw(text, args...)
		var us []VUser
		var u VUser
		switch how {
		case "ScanMaps":
			var rs []map[string]interface{}
			return tx.Scan(&rs)
		case "Rows":
			if rows, err := tx.Rows(); err == nil {
				rows.Close()
			}
			return tx
		case "Row":
			var x interface{}
			if row := tx.Row(); row != nil {
				_ = row.Scan(&x)
			}
			return tx
		case "Find":
			return tx.Find(&us)
		case "Take":
			return tx.Take(&u)
		case "First":
			return tx.First(&u)
		case "Count":
			var n int64
			return tx.Count(&n)
		case "Pluck":
			var xs []interface{}
			return tx.Pluck("id", &xs)
		}
		return tx.Scan(&us)
	}
}

// ---- FirstOrCreate / Attrs / Assign (slot 10) ------------------------------------------------------------------------------------

func (g *c01ApiGen) genFirstOr(c *c01Case) {
	m, rng := g.m, g.rng
	found := rng.Intn(2) == 0
	s1, s2, a2 := m.S(), m.S(), m.I()
	// the chain condition: found = matches every row (the first one has id 1), not found = matches none
	var where func(d *gorm.DB) *gorm.DB
	var wb []interface{}
	wd := ""
	if found {
		switch rng.Intn(3) {
		case 0:
			where, wb, wd = func(d *gorm.DB) *gorm.DB { return d.Where("name<>?", s1) }, []interface{}{s1}, `Where("name<>?")`
		case 1:
			where, wb, wd = func(d *gorm.DB) *gorm.DB { return d.Where("name <> @n", sql.Named("n", s1)) }, []interface{}{s1}, `Where("name <> @n")`
		default:
			where, wb, wd = func(d *gorm.DB) *gorm.DB { return d.Not(map[string]interface{}{"name": s1}) }, []interface{}{s1}, "Not(map)"
		}
	} else {
		switch rng.Intn(3) {
		case 0:
			where, wb, wd = func(d *gorm.DB) *gorm.DB { return d.Where(VUser{Name: s1}) }, []interface{}{s1}, "Where(struct)"
		case 1:
			where, wb, wd = func(d *gorm.DB) *gorm.DB { return d.Where(map[string]interface{}{"name": s1}) }, []interface{}{s1}, "Where(map)"
		default:
			where, wb, wd = func(d *gorm.DB) *gorm.DB { return d.Where("name", s1) }, []interface{}{s1}, `Where("name", v)`
		}
	}
	// inline conditions of FirstOrCreate (only in the SELECT)
	var conds, ib []interface{}
	id := ""
	if rng.Intn(2) == 0 {
		e := m.S()
		if found {
			switch rng.Intn(3) {
			case 0:
				conds, ib, id = []interface{}{"email<>?", e}, []interface{}{e}, `"email<>?"`
			case 1:
				conds, ib, id = []interface{}{clause.Neq{Column: "email", Value: e}}, []interface{}{e}, "Neq"
			default:
				vs, b := g.ints(2)
				conds, ib, id = []interface{}{"age NOT IN(?) AND email <> @e", vs, sql.Named("e", e)}, nil, ""
				conds, ib, id = []interface{}{"age NOT IN(?)", vs}, b, `"age NOT IN(?)" list`
			}
		} else {
			switch rng.Intn(2) {
			case 0:
				conds, ib, id = []interface{}{map[string]interface{}{"email": e}}, []interface{}{e}, "map{email}"
			default:
				conds, ib, id = []interface{}{VUser{Email: e}}, []interface{}{e}, "struct{Email}"
			}
		}
	}
	// Attrs / Assign spellings
	attrs := g.pick("Attrs(struct)", "Attrs(map)", `Attrs("email", v)`, "Assign(struct)", "Assign(map)", `Assign("email", v)`, "Assign(map{email,age})")
	c.Fin = "FirstOrCreate"
	c01H("e2e-api.slot", "FirstOrCreate."+attrs)
	c01H("e2e-api.first-or-create", fmt.Sprintf("found=%v", found))
	c.Desc = []string{fmt.Sprintf("%s.%s.FirstOrCreate(inline %s) found=%v", wd, attrs, id, found)}
	c.exp("SELECT", c01Cat(c01Cat(wb, ib...), g.limArgs(1, 0)...)...)
	isAssign := strings.HasPrefix(attrs, "Assign")
	if found {
		if isAssign {
			if attrs == "Assign(map{email,age})" {
				c.exp("UPDATE", c01Cat([]interface{}{a2, s2, nowArg()}, c01Cat(wb, 1)...)...)
			} else {
				c.exp("UPDATE", c01Cat([]interface{}{s2, nowArg()}, c01Cat(wb, 1)...)...)
			}
		}
	} else {
		// INSERT: name, age, z, email, updated_at
		name, age, email := s1, 0, ""
		if len(ib) == 1 {
			email = ib[0].(string)
		}
		if attrs == "Assign(map{email,age})" {
			age = a2
		}
		email = s2
		c.exp("INSERT", name, age, nil, email, nowArg())
	}
	c.Run = func(d *gorm.DB) *gorm.DB {
		tx := where(d)
		switch attrs {
		case "Attrs(struct)":
			tx = tx.Attrs(VUser{Email: s2})
		case "Attrs(map)":
			tx = tx.Attrs(map[string]interface{}{"email": s2})
		case `Attrs("email", v)`:
			tx = tx.Attrs("email", s2)
		case "Assign(struct)":
			tx = tx.Assign(VUser{Email: s2})
		case "Assign(map)":
			tx = tx.Assign(map[string]interface{}{"email": s2})
		case `Assign("email", v)`:
			tx = tx.Assign("email", s2)
		default:
			tx = tx.Assign(map[string]interface{}{"email": s2, "age": a2})
		}
		var u VUser
		return tx.FirstOrCreate(&u, conds...)
	}
}

// ---- runner ---------------------------------------------------------------------------------------------------------------------------

func init() {
	run := func(r *Result, dialect string, seeds []int64) {
		db, rec := c01OpenSqlite(dialect)
		c01Hist = func(h, b string) { r.H(h, b) }
		defer func() { c01Hist = nil; c01ApiSetLimit(db, false) }()
		for i, seed := range seeds {
			if expired() {
				break
			}
			c := c01GenApiCase(seed, db)
			v := c01Judge(db, rec, dialect, c)
			in := map[string]interface{}{"dialect": dialect, "case_seed": seed, "finisher": c.Fin, "chain": c.Desc}
			nargs := 0
			for _, e := range c.Expect {
				nargs += len(e.Args)
			}
			r.Case("e2e-api", dialect+"|"+c.Fin+"|"+strings.Join(c.Desc, ";"), nargs >= 1)
			r.H("e2e-api.finisher", c.Fin)
			r.H("e2e-api.dialect", dialect)
			r.H("e2e-api.bound-values", c01Bucket(nargs))
			r.H("e2e-api.statements", fmt.Sprint(len(v.Stmts)))
			if dbg := os.Getenv("C01API_DEBUG"); dbg != "" && strings.Contains(v.Err, dbg) {
				fmt.Fprintf(os.Stderr, "DEBUG %s seed %d fin %s\n  %s\n  err %s\n", dialect, seed, c.Fin, strings.Join(c.Desc, "\n  "), v.Err)
				for _, st := range v.Stmts {
					fmt.Fprintf(os.Stderr, "  stmt %q\n", st)
				}
			}
			if v.Err != "" {
				r.H("e2e-api.error", c01Trunc(v.Err, 40))
			} else {
				r.H("e2e-api.error", "(none)")
			}
			if i%301 == 0 {
				r.Sample(map[string]interface{}{"suite": "e2e-api", "input": in, "statements": v.Stmts})
			}
			if v.Bad != "" {
				r.Violate(Violation{Kind: "e2e", Suite: "e2e-api", Input: in, Observed: map[string]interface{}{"statements": v.Stmts, "err": v.Err},
					Expected: map[string]interface{}{"verdict": v.Bad, "expected": c.Expect}})
			}
		}
	}
	register("C01", func(r *Result, rng *rand.Rand, tier string) {
		n := 1200
		if tier == "thorough" {
			n = 30000
		} else if tier == "search" {
			n = 6000
		}
		t0 := time.Now()
		for _, dialect := range []string{"qmark", "dollar"} {
			seeds := make([]int64, n)
			for i := range seeds {
				seeds[i] = rng.Int63()
			}
			run(r, dialect, seeds)
		}
		r.Note("e2e-api: %d cases per dialect in %.1fs", n, time.Since(t0).Seconds())
	})
	replayers["C01/e2e-api"] = func(r *Result, input json.RawMessage) {
		var in struct {
			Dialect string `json:"dialect"`
			Seed    int64  `json:"case_seed"`
		}
		if err := json.Unmarshal(input, &in); err != nil {
			r.Note("bad replay input: %v", err)
			return
		}
		run(r, in.Dialect, []int64{in.Seed})
	}
}

var _ = sort.Strings
