package main

// C03: what Create stores is what queries load back.
//
// This file: the (field kind × source dynamic type) arm table of schema/field.go `field.Set` / `field.ValueOf`
// compared with the Lean model (`c03.set`, `c03.valueof`), and the single-field database round trip compared
// with the model's store/load composite (`c03.rt`).  Field types are generated with reflect.StructOf and parsed
// by the real schema.Parse.  c03_backfill.go: key back-fill loops; c03_e2e.go: the end-to-end oracle.

import (
	"context"
	"database/sql/driver"
	"encoding/json"
	"errors"
	"fmt"
	"math"
	"math/rand"
	"reflect"
	"strconv"
	"strings"
	"sync"
	"time"

	"gorm.io/gorm/schema"
)

// ---- defined types over every basic kind (no methods) ----
type (
	MyBool  bool
	MyI8    int8
	MyI16   int16
	MyI32   int32
	MyI64   int64
	MyU8    uint8
	MyU16   uint16
	MyU32   uint32
	MyU64   uint64
	MyF32   float32
	MyF64   float64
	MyStr   string
	MyBytes []byte
	MyTime  time.Time
)

// c03Kind mirrors Lean `FKind`; GoInt selects Go's `int`/`uint` instead of int64/uint64 for W=64 (the model
// does not distinguish them as FIELD types).
type c03Kind struct {
	Base  string `json:"base"` // bool int uint float string bytes time
	W     int    `json:"w"`
	Ptr   bool   `json:"ptr"`
	Named bool   `json:"named"`
	TU    string `json:"tu"`
	GoInt bool   `json:"goint,omitempty"`
}

func (k c03Kind) lean() []interface{} { return []interface{}{k.Base, k.W, k.Ptr, k.Named, k.TU} }
func (k c03Kind) String() string {
	s := k.Base
	if k.W != 0 {
		s += strconv.Itoa(k.W)
	}
	if k.GoInt {
		s += "g"
	}
	if k.Ptr {
		s = "*" + s
	}
	if k.Named {
		s += "!"
	}
	if k.TU != "sec" {
		s += ":" + k.TU
	}
	return s
}

// ty = the model's Ty label of the field's T
func (k c03Kind) ty() string {
	switch k.Base {
	case "int":
		return "i" + strconv.Itoa(k.W)
	case "uint":
		return "u" + strconv.Itoa(k.W)
	case "float":
		return "f" + strconv.Itoa(k.W)
	case "string":
		return "str"
	}
	return k.Base
}

var c03TyGo = map[string]reflect.Type{
	"bool": reflect.TypeOf(false), "int": reflect.TypeOf(int(0)), "i8": reflect.TypeOf(int8(0)), "i16": reflect.TypeOf(int16(0)),
	"i32": reflect.TypeOf(int32(0)), "i64": reflect.TypeOf(int64(0)), "uint": reflect.TypeOf(uint(0)), "u8": reflect.TypeOf(uint8(0)),
	"u16": reflect.TypeOf(uint16(0)), "u32": reflect.TypeOf(uint32(0)), "u64": reflect.TypeOf(uint64(0)),
	"f32": reflect.TypeOf(float32(0)), "f64": reflect.TypeOf(float64(0)), "str": reflect.TypeOf(""),
	"bytes": reflect.TypeOf([]byte(nil)), "time": reflect.TypeOf(time.Time{}),
}
var c03NamedGo = map[string]reflect.Type{
	"bool": reflect.TypeOf(MyBool(false)), "i8": reflect.TypeOf(MyI8(0)), "i16": reflect.TypeOf(MyI16(0)), "i32": reflect.TypeOf(MyI32(0)),
	"i64": reflect.TypeOf(MyI64(0)), "u8": reflect.TypeOf(MyU8(0)), "u16": reflect.TypeOf(MyU16(0)), "u32": reflect.TypeOf(MyU32(0)),
	"u64": reflect.TypeOf(MyU64(0)), "f32": reflect.TypeOf(MyF32(0)), "f64": reflect.TypeOf(MyF64(0)), "str": reflect.TypeOf(MyStr("")),
	"bytes": reflect.TypeOf(MyBytes(nil)), "time": reflect.TypeOf(MyTime{}),
}

// elemType = Go type T of the field (without the pointer)
func (k c03Kind) elemType() reflect.Type {
	if k.Named {
		return c03NamedGo[k.ty()]
	}
	if k.GoInt && k.W == 64 {
		if k.Base == "int" {
			return c03TyGo["int"]
		}
		return c03TyGo["uint"]
	}
	return c03TyGo[k.ty()]
}
func (k c03Kind) fieldType() reflect.Type {
	if k.Ptr {
		return reflect.PointerTo(k.elemType())
	}
	return k.elemType()
}

func c03AllKinds() []c03Kind {
	var ks []c03Kind
	add := func(base string, w int) {
		for _, ptr := range []bool{false, true} {
			for _, named := range []bool{false, true} {
				ks = append(ks, c03Kind{Base: base, W: w, Ptr: ptr, Named: named, TU: "sec"})
			}
		}
	}
	add("bool", 0)
	for _, w := range []int{8, 16, 32, 64} {
		add("int", w)
		add("uint", w)
	}
	add("float", 32)
	add("float", 64)
	add("string", 0)
	add("bytes", 0)
	add("time", 0)
	// Go int/uint fields, and the autoCreateTime/autoUpdateTime units of integer fields
	for _, b := range []string{"int", "uint"} {
		ks = append(ks, c03Kind{Base: b, W: 64, TU: "sec", GoInt: true}, c03Kind{Base: b, W: 64, Ptr: true, TU: "sec", GoInt: true})
		for _, tu := range []string{"milli", "nano"} {
			ks = append(ks, c03Kind{Base: b, W: 64, TU: tu}, c03Kind{Base: b, W: 32, TU: tu}, c03Kind{Base: b, W: 64, TU: tu, Named: true})
		}
	}
	return ks
}

// c03Model = a parsed single-field model `struct{ ID uint; F T }`
type c03Model struct {
	Kind  c03Kind
	Typ   reflect.Type
	Sch   *schema.Schema
	Field *schema.Field
}

var c03Cache sync.Map // shared schema cache (as a *gorm.DB would hold)
var c03Models sync.Map

func c03ModelOf(k c03Kind) *c03Model {
	if m, ok := c03Models.Load(k); ok {
		return m.(*c03Model)
	}
	tag := `gorm:"column:f"`
	switch k.TU {
	case "milli":
		tag = `gorm:"column:f;autoUpdateTime:milli"`
	case "nano":
		tag = `gorm:"column:f;autoCreateTime:nano"`
	}
	typ := reflect.StructOf([]reflect.StructField{
		{Name: "ID", Type: reflect.TypeOf(uint(0)), Tag: `gorm:"primaryKey"`},
		{Name: "F", Type: k.fieldType(), Tag: reflect.StructTag(tag)},
	})
	s, err := schema.Parse(reflect.New(typ).Interface(), &c03Cache, schema.NamingStrategy{})
	if err != nil {
		panic(fmt.Sprintf("c03: schema.Parse %v: %v", k, err))
	}
	m := &c03Model{Kind: k, Typ: typ, Sch: s, Field: s.LookUpField("f")}
	if m.Field == nil {
		panic("c03: field f not found for " + k.String())
	}
	c03Models.Store(k, m)
	return m
}

// ---- values: JSON form shared with Lean (Drv/C03.lean parseVal) ----

func bytesJ(b []byte) []interface{} {
	out := make([]interface{}, len(b))
	for i, c := range b {
		out[i] = int(c)
	}
	return out
}

// valJ canonicalises a Go value of a basic (or defined-over-basic) type; ty is the model label to print
func valJ(v reflect.Value, ty string) interface{} {
	switch v.Kind() {
	case reflect.Bool:
		return []interface{}{"b", v.Bool()}
	case reflect.Int, reflect.Int8, reflect.Int16, reflect.Int32, reflect.Int64:
		return []interface{}{"i", ty, strconv.FormatInt(v.Int(), 10)}
	case reflect.Uint, reflect.Uint8, reflect.Uint16, reflect.Uint32, reflect.Uint64:
		return []interface{}{"i", ty, strconv.FormatUint(v.Uint(), 10)}
	case reflect.Float32, reflect.Float64:
		return []interface{}{"f", ty, strconv.FormatUint(math.Float64bits(v.Float()), 10)}
	case reflect.String:
		return []interface{}{"s", bytesJ([]byte(v.String()))}
	case reflect.Slice:
		return []interface{}{"y", bytesJ(v.Bytes())}
	case reflect.Struct:
		t := v.Convert(c03TyGo["time"]).Interface().(time.Time)
		return []interface{}{"t", strconv.FormatInt(t.Unix(), 10), t.Nanosecond()}
	}
	panic("valJ: " + v.Kind().String())
}

// fvalJ = canonical content of the field F of a record (nil pointer / nil slice ⇒ null)
func (m *c03Model) fvalJ(rec reflect.Value) interface{} {
	f := rec.Field(1)
	if m.Kind.Ptr {
		if f.IsNil() {
			return nil
		}
		f = f.Elem()
	}
	if f.Kind() == reflect.Slice && f.IsNil() {
		return nil
	}
	return valJ(f, m.Kind.ty())
}

// goVal builds the Go value of model type `ty` from its JSON form (as produced by valJ)
func goVal(j interface{}, t reflect.Type) reflect.Value {
	a := j.([]interface{})
	out := reflect.New(t).Elem()
	switch a[0].(string) {
	case "b":
		out.SetBool(a[1].(bool))
	case "i":
		s := a[2].(string)
		if out.Kind() >= reflect.Uint && out.Kind() <= reflect.Uint64 {
			n, _ := strconv.ParseUint(s, 10, 64)
			out.SetUint(n)
		} else {
			n, _ := strconv.ParseInt(s, 10, 64)
			out.SetInt(n)
		}
	case "f":
		n, _ := strconv.ParseUint(a[2].(string), 10, 64)
		out.SetFloat(math.Float64frombits(n))
	case "s":
		b := make([]byte, len(a[1].([]interface{})))
		for i, c := range a[1].([]interface{}) {
			b[i] = byte(c.(int))
		}
		out.SetString(string(b))
	case "y":
		b := make([]byte, len(a[1].([]interface{})))
		for i, c := range a[1].([]interface{}) {
			b[i] = byte(c.(int))
		}
		out.SetBytes(b)
	case "t":
		sec, _ := strconv.ParseInt(a[1].(string), 10, 64)
		out.Set(reflect.ValueOf(time.Unix(sec, int64(a[2].(int))).UTC()).Convert(t))
	}
	return out
}

// setF stores a canonical field value into record.F directly (reflection, not gorm)
func (m *c03Model) setF(rec reflect.Value, fv interface{}) {
	f := rec.Field(1)
	if fv == nil {
		f.Set(reflect.Zero(f.Type()))
		return
	}
	v := goVal(fv, m.Kind.elemType())
	if m.Kind.Ptr {
		p := reflect.New(m.Kind.elemType())
		p.Elem().Set(v)
		f.Set(p)
	} else {
		f.Set(v)
	}
}

// ---- value pools per model type label ----

var c03Strings = []string{"", "1", "t", "T", "true", "TRUE", "True", "0", "f", "false", "yes", "42", "-7", "+5", "007", "0x1F", "1_000",
	"abc", "9223372036854775807", "9223372036854775808", "-9223372036854775808", "-9223372036854775809", "18446744073709551615",
	"18446744073709551616", "3.5", " 1", "é", "300", "-129", "128", "255", "256", "65536", "-", "1e3", "2024-01-02 03:04:05", "it's \"q\"", "-0"}

var c03Floats = []float64{0, math.Copysign(0, -1), 1, -1, 1.5, -1.5, 0.1, 127.9, -128.9, 300.7, 65535.5, 1 << 31, 1 << 53, (1 << 53) + 2, 1e10, -3.99, 9.2e18,
	9223372036854775808.0, -9223372036854775808.0, 1.8e19, 1e19, 1e300, math.MaxFloat32, math.SmallestNonzeroFloat32, math.SmallestNonzeroFloat64,
	math.Inf(1), math.Inf(-1), math.NaN(), 16777217, float64(float32(0.1))}

var c03Times = []time.Time{{}, time.Unix(0, 0).UTC(), time.Unix(1700000000, 123456789).UTC(), time.Unix(-1, 999999999).UTC(),
	time.Date(9999, 12, 31, 23, 59, 59, 999999999, time.UTC), time.Date(1, 1, 1, 0, 0, 0, 1, time.UTC), time.Date(2262, 4, 11, 23, 47, 16, 854775807, time.UTC),
	time.Date(2300, 1, 1, 0, 0, 0, 0, time.UTC), time.Date(1600, 2, 29, 12, 0, 0, 5000000, time.UTC), time.Unix(1<<31, 1000000).UTC()}

// genVals returns JSON values of model type `ty`: boundaries + a few random ones
func genVals(rng *rand.Rand, ty string, n int) []interface{} {
	var out []interface{}
	addI := func(vs ...int64) {
		for _, v := range vs {
			out = append(out, []interface{}{"i", ty, strconv.FormatInt(v, 10)})
		}
	}
	addU := func(vs ...uint64) {
		for _, v := range vs {
			out = append(out, []interface{}{"i", ty, strconv.FormatUint(v, 10)})
		}
	}
	switch ty {
	case "bool":
		return []interface{}{[]interface{}{"b", true}, []interface{}{"b", false}}
	case "i8":
		addI(0, 1, -1, 127, -128, int64(int8(rng.Intn(256))))
	case "i16":
		addI(0, 1, -1, 32767, -32768, 128, -129, int64(int16(rng.Intn(65536))))
	case "i32":
		addI(0, 1, -1, math.MaxInt32, math.MinInt32, 32768, 65536, int64(int32(rng.Uint32())))
	case "i64", "int":
		addI(0, 1, -1, math.MaxInt64, math.MinInt64, 1<<31, -(1<<31)-1, 1<<32, 255, 256, 300, -129, 1<<53+1, int64(rng.Uint64()), rng.Int63n(1000))
	case "u8":
		addU(0, 1, 127, 128, 255, uint64(rng.Intn(256)))
	case "u16":
		addU(0, 1, 255, 256, 65535, uint64(rng.Intn(65536)))
	case "u32":
		addU(0, 1, 65536, math.MaxUint32, 1<<31, uint64(rng.Uint32()))
	case "u64", "uint":
		addU(0, 1, 255, 256, 1<<32, math.MaxInt64, 1<<63, math.MaxUint64, 1<<53+1, rng.Uint64(), uint64(rng.Intn(1000)))
	case "f64":
		for _, f := range c03Floats {
			out = append(out, []interface{}{"f", ty, strconv.FormatUint(math.Float64bits(f), 10)})
		}
		out = append(out, []interface{}{"f", ty, strconv.FormatUint(math.Float64bits(rng.NormFloat64()*1e6), 10)},
			[]interface{}{"f", ty, strconv.FormatUint(math.Float64bits(float64(rng.Intn(2000)-1000)), 10)})
	case "f32":
		for _, f := range c03Floats {
			out = append(out, []interface{}{"f", ty, strconv.FormatUint(math.Float64bits(float64(float32(f))), 10)})
		}
		out = append(out, []interface{}{"f", ty, strconv.FormatUint(math.Float64bits(float64(float32(rng.NormFloat64()*1e3))), 10)})
	case "str", "bytes":
		tag := "s"
		if ty == "bytes" {
			tag = "y"
		}
		for _, s := range c03Strings {
			out = append(out, []interface{}{tag, bytesJ([]byte(s))})
		}
		out = append(out, []interface{}{tag, bytesJ([]byte(strconv.Itoa(rng.Intn(100000) - 50000)))})
		if ty == "bytes" {
			out = append(out, []interface{}{tag, bytesJ([]byte{0, 255, 1, 0})})
		}
	case "time":
		for _, t := range c03Times {
			out = append(out, []interface{}{"t", strconv.FormatInt(t.Unix(), 10), t.Nanosecond()})
		}
		out = append(out, []interface{}{"t", strconv.FormatInt(rng.Int63n(4e9), 10), rng.Intn(1e9)})
	}
	if n > 0 && len(out) > n {
		// keep the first few boundaries and a random sample of the rest
		keep := out[:n/2]
		rest := out[n/2:]
		rng.Shuffle(len(rest), func(i, j int) { rest[i], rest[j] = rest[j], rest[i] })
		out = append(append([]interface{}{}, keep...), rest[:n-n/2]...)
	}
	return out
}

// normJ turns []interface{} built with Go ints into the form json.Unmarshal would give (so goVal sees ints)
func asInt(x interface{}) int {
	switch v := x.(type) {
	case int:
		return v
	case float64:
		return int(v)
	}
	panic("asInt")
}

// ---- sources ----

type c03Valuer struct {
	V   driver.Value
	Err error
}

func (v c03Valuer) Value() (driver.Value, error) { return v.V, v.Err }

type c03Other struct{ X int }

var c03TyNames = []string{"bool", "int", "i8", "i16", "i32", "i64", "uint", "u8", "u16", "u32", "u64", "f32", "f64", "str", "bytes", "time"}

type c03Src struct {
	J  []interface{} // Lean form
	Go interface{}   // the interface handed to field.Set
}

// buildSrc builds the Go value for a Lean-form source; T = Go type of the pointee / value
func buildSrc(shape string, named bool, ty string, T reflect.Type, val interface{}) c03Src {
	switch shape {
	case "val":
		return c03Src{[]interface{}{"val", named, val}, goVal(val, T).Interface()}
	case "ptr":
		if val == nil {
			return c03Src{[]interface{}{"ptr", named, ty, nil}, reflect.Zero(reflect.PointerTo(T)).Interface()}
		}
		p := reflect.New(T)
		p.Elem().Set(goVal(val, T))
		return c03Src{[]interface{}{"ptr", named, ty, val}, p.Interface()}
	case "pp-outer":
		return c03Src{[]interface{}{"pp", named, ty, "outer-nil"}, reflect.Zero(reflect.PointerTo(reflect.PointerTo(T))).Interface()}
	case "pp":
		pp := reflect.New(reflect.PointerTo(T))
		if val != nil {
			p := reflect.New(T)
			p.Elem().Set(goVal(val, T))
			pp.Elem().Set(p)
		}
		return c03Src{[]interface{}{"pp", named, ty, val}, pp.Interface()}
	}
	panic(shape)
}

// genSources enumerates the source shapes for one field kind
func genSources(rng *rand.Rand, k c03Kind, perTy int) []c03Src {
	var out []c03Src
	out = append(out, c03Src{[]interface{}{"nil"}, nil}, c03Src{[]interface{}{"other"}, c03Other{1}},
		c03Src{[]interface{}{"valuer", "err"}, c03Valuer{nil, errors.New("valuer failed")}},
		c03Src{[]interface{}{"valuer", nil}, c03Valuer{nil, nil}})
	// driver.Value results of a Valuer: int64, float64, bool, []byte, string, time.Time
	for _, ty := range []string{"i64", "f64", "bool", "bytes", "str", "time"} {
		for _, v := range genVals(rng, ty, 3) {
			out = append(out, c03Src{[]interface{}{"valuer", v}, c03Valuer{goVal(v, c03TyGo[ty]).Interface(), nil}})
		}
	}
	for _, ty := range c03TyNames {
		T := c03TyGo[ty]
		vals := genVals(rng, ty, perTy)
		for _, v := range vals {
			out = append(out, buildSrc("val", false, ty, T, v))
		}
		out = append(out, buildSrc("ptr", false, ty, T, nil), buildSrc("pp-outer", false, ty, T, nil), buildSrc("pp", false, ty, T, nil))
		for _, v := range vals[:minInt(len(vals), 3+perTy/4)] {
			out = append(out, buildSrc("ptr", false, ty, T, v), buildSrc("pp", false, ty, T, v))
		}
	}
	if k.Named {
		// values of the field's own defined type
		ty, T := k.ty(), k.elemType()
		vals := genVals(rng, ty, perTy)
		for _, v := range vals {
			out = append(out, buildSrc("val", true, ty, T, v), buildSrc("ptr", true, ty, T, v), buildSrc("pp", true, ty, T, v))
		}
		out = append(out, buildSrc("ptr", true, ty, T, nil), buildSrc("pp-outer", true, ty, T, nil), buildSrc("pp", true, ty, T, nil))
	}
	return out
}

func minInt(a, b int) int {
	if a < b {
		return a
	}
	return b
}

// errClass maps a field.Set error to the model's classes
func c03ErrClass(err error) string {
	var ne *strconv.NumError
	if errors.As(err, &ne) {
		return "parse"
	}
	s := err.Error()
	if strings.HasPrefix(s, "failed to set value") || s == "valuer failed" {
		return "failed"
	}
	return "other:" + s
}

// realSet runs the real field.Set on a record whose F currently holds cur
func (m *c03Model) realSet(cur interface{}, src interface{}) (res interface{}) {
	defer func() {
		if p := recover(); p != nil {
			res = []interface{}{"panic", fmt.Sprint(p)}
		}
	}()
	rec := reflect.New(m.Typ).Elem()
	m.setF(rec, cur)
	if err := m.Field.Set(context.Background(), rec, src); err != nil {
		return []interface{}{"err", c03ErrClass(err)}
	}
	return []interface{}{"ok", m.fvalJ(rec)}
}

// fixJ converts a Go-built JSON tree through encoding/json so that numbers are uniform (goVal wants ints)
func fixJ(v interface{}) interface{} {
	switch x := v.(type) {
	case []interface{}:
		out := make([]interface{}, len(x))
		for i := range x {
			out[i] = fixJ(x[i])
		}
		return out
	case float64:
		return int(x)
	}
	return v
}

type c03SetInput struct {
	Kind c03Kind     `json:"kind"`
	Cur  interface{} `json:"cur"`
	Src  interface{} `json:"src"`
}

func c03SetSuite(r *Result, rng *rand.Rand, tier string) {
	perTy := 6
	if tier == "thorough" {
		perTy = 14
	}
	kinds := c03AllKinds()
	type pending struct {
		in   c03SetInput
		real interface{}
	}
	var ops [][]interface{}
	var pend []pending
	for _, k := range kinds {
		m := c03ModelOf(k)
		// current contents of the destination: zero value and one non-zero value (to see "left unchanged" arms)
		curs := []interface{}{nil}
		if !k.Ptr && k.Base != "bytes" {
			curs = []interface{}{m.fvalJ(reflect.New(m.Typ).Elem())}
		}
		nz := genVals(rng, k.ty(), 0)
		curs = append(curs, nz[1+rng.Intn(len(nz)-1)])
		for _, src := range genSources(rng, k, perTy) {
			for ci, cur := range curs {
				if ci == 1 && rng.Intn(3) != 0 {
					continue
				}
				real := m.realSet(cur, src.Go)
				ops = append(ops, []interface{}{"c03.set", k.lean(), cur, src.J})
				pend = append(pend, pending{c03SetInput{k, cur, src.J}, real})
			}
		}
	}
	outs, err := AskLean(ops)
	if err != nil {
		r.Violate(Violation{Kind: "correspondence", Suite: "set", Note: err.Error()})
		return
	}
	for i, p := range pend {
		mo := canonRaw(outs[i])
		shape := fmt.Sprint(p.in.Src.([]interface{})[0])
		srcTy := ""
		if a := p.in.Src.([]interface{}); len(a) > 2 {
			if s, ok := a[2].(string); ok {
				srcTy = s
			} else if v, ok := a[2].([]interface{}); ok && len(v) > 1 {
				if s, ok := v[1].(string); ok && v[0] != "s" && v[0] != "y" {
					srcTy = s
				} else {
					srcTy = fmt.Sprint(v[0])
				}
			}
		}
		arm := p.in.Kind.String() + "<-" + shape + ":" + srcTy
		if mo == `["unmodelled"]` {
			r.H("set.result", "unmodelled(skipped)")
			r.H("set.unmodelled-arm", p.in.Kind.Base+"<-"+srcTy)
			continue
		}
		if mo == `"bad-op"` {
			r.Violate(Violation{Kind: "correspondence", Suite: "set", Input: p.in, Observed: "bad-op", Note: "driver rejected op"})
			continue
		}
		re := canon(p.real)
		r.CorrCompared++
		var mres []interface{}
		_ = json.Unmarshal(outs[i], &mres)
		cls := fmt.Sprint(mres[0])
		if cls == "err" {
			cls += ":" + fmt.Sprint(mres[1])
		} else if canon(mres[1]) == canon(p.in.Cur) && shape != "val" {
			cls = "ok:unchanged-or-same"
		}
		r.H("set.result", cls)
		r.H("set.kind", p.in.Kind.Base)
		r.H("set.shape", shape)
		r.Case("set", arm+"|"+cls, true)
		if re != mo {
			r.Violate(Violation{Kind: "correspondence", Suite: "set", Input: p.in, Observed: p.real, Expected: json.RawMessage(outs[i]),
				Note: "schema.Field.Set differs from Model.Scan.setField"})
		}
	}
	r.Note("set: %d kinds x generated sources; arms = (kind, source shape, source type)", len(kinds))
}

// ---- valueOf correspondence ----
func c03ValueOfSuite(r *Result, rng *rand.Rand, tier string) {
	var ops [][]interface{}
	type pending struct {
		k    c03Kind
		fv   interface{}
		zero bool
		iface interface{}
	}
	var pend []pending
	for _, k := range c03AllKinds() {
		m := c03ModelOf(k)
		vals := append([]interface{}{nil}, genVals(rng, k.ty(), 0)...)
		for _, fv := range vals {
			if fv == nil && !k.Ptr && k.Base != "bytes" {
				continue
			}
			rec := reflect.New(m.Typ).Elem()
			m.setF(rec, fv)
			iv, zero := m.Field.ValueOf(context.Background(), rec)
			ops = append(ops, []interface{}{"c03.valueof", k.lean(), fv})
			pend = append(pend, pending{k, fv, zero, iv})
		}
	}
	outs, err := AskLean(ops)
	if err != nil {
		r.Violate(Violation{Kind: "correspondence", Suite: "valueof", Note: err.Error()})
		return
	}
	for i, p := range pend {
		var mo []interface{}
		_ = json.Unmarshal(outs[i], &mo)
		if len(mo) != 2 {
			r.Violate(Violation{Kind: "correspondence", Suite: "valueof", Input: p, Observed: string(outs[i])})
			continue
		}
		r.CorrCompared++
		r.H("valueof.zero", fmt.Sprint(p.zero))
		r.Case("valueof", p.k.String()+fmt.Sprint(p.zero), true)
		// the interface value: dynamic type must be the field type, content the field content
		okIface := reflect.TypeOf(p.iface) == p.k.fieldType()
		if mo[1].(bool) != p.zero || !okIface {
			r.Violate(Violation{Kind: "correspondence", Suite: "valueof", Input: map[string]interface{}{"kind": p.k, "fv": p.fv},
				Observed: map[string]interface{}{"zero": p.zero, "type": fmt.Sprint(reflect.TypeOf(p.iface))}, Expected: json.RawMessage(outs[i])})
		}
	}
}

func init() {
	register("C03", c03SetSuite)
	register("C03", c03ValueOfSuite)
	replayers["C03/set"] = func(r *Result, input json.RawMessage) {
		var in c03SetInput
		dec := json.NewDecoder(strings.NewReader(string(input)))
		if dec.Decode(&in) != nil {
			return
		}
		r.Note("set replays are correspondence-only (no property verdict); kind=%v", in.Kind)
	}
}
