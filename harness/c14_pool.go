package main

// C14 suite "pool" (e2e, no model): "no goroutine deadlocks" when the database/sql pool is exhausted.
//
// The same forced world as suite "forced", but the pool is limited (MaxOpenConns = 1): a transaction owns the only
// connection from BeginTx to Commit/Rollback, every pool-level PrepareContext / statement execution of another
// goroutine waits inside database/sql until the connection comes back.  This is the situation prepare_stmt.go
// documents above conn.PrepareContext ("Reason why cannot lock conn.PrepareContext": maxopen 1, g1 in a
// transaction, g2 preparing): the cache must never make the connection's owner wait for a goroutine that waits for
// the connection.
//
// Oracle = only what the property states for this situation: every operation returns once every parked driver call
// has been released (no deadlock), and no operation panics or returns wrong rows.  Which error an operation returns
// is judged in suite "forced" (unlimited pool, model-checked), not here.
//
// Latitude / scope: the goroutines of a transaction and the pool-level goroutines use DISJOINT statement texts.
// (With the same text a transaction can wait on the `prepared` channel of a pool-level entry whose PrepareContext
// waits for the transaction's connection; that dependency is not part of this suite.)

import (
	"fmt"
	"math/rand"
	"strings"
	"time"
)

const c14PoolMaxOpen = 1

func c14PoolJudge(run *c14Run) []c14Verdict {
	if run.Hang {
		return []c14Verdict{{"hang", "pool limit " + fmt.Sprint(run.MaxOpen) + ": " + c14HangDetail(run), ""}}
	}
	var out []c14Verdict
	for t, res := range run.Results {
		if strings.HasPrefix(res, "panic") || strings.Contains(res, "wrongRows") {
			out = append(out, c14Verdict{"result", fmt.Sprintf("pool limit %d: goroutine %d returned %s", run.MaxOpen, t, res), ""})
		}
	}
	return out
}

type c14PoolCfg struct {
	NV  int
	Ops []c14Op
}

func c14PoolConfigs() []c14PoolCfg {
	return []c14PoolCfg{
		// g1: transaction with two statements (texts 0 then 2); g2: pool-level use of text 1
		{1, []c14Op{{"tx2", 0, 0}, {"use", 0, 1}}},
		// g1: transaction, one statement; g2: pool-level use of another text (ErrBadConn eviction inside the transaction)
		{1, []c14Op{{"tx", 0, 0}, {"use", 0, 1}}},
		{1, []c14Op{{"tx", 0, 0}, {"use", 0, 1}, {"use", 0, 1}}},
		{1, []c14Op{{"tx2", 0, 0}, {"use", 0, 1}, {"use", 0, 3}}},
	}
}

func c14PoolRandomOps(rng *rand.Rand) (int, []c14Op) {
	// one or two transaction goroutines on even texts, one to three pool-level goroutines on odd texts
	var ops []c14Op
	ntx := 1 + rng.Intn(2)
	for i := 0; i < ntx; i++ {
		k := "tx"
		if rng.Intn(2) == 0 {
			k = "tx2"
		}
		ops = append(ops, c14Op{k, 0, 0})
	}
	nuse := 1 + rng.Intn(3)
	for i := 0; i < nuse; i++ {
		ops = append(ops, c14Op{"use", 0, 1 + 2*rng.Intn(2)})
	}
	rng.Shuffle(len(ops), func(i, j int) { ops[i], ops[j] = ops[j], ops[i] })
	return 1, ops
}

func c14PoolSuite(r *Result, rng *rand.Rand, tier string) {
	budget := 4 * time.Second
	if tier == "thorough" {
		budget = 60 * time.Second
	} else if tier == "search" {
		budget = 15 * time.Second
	}
	t0 := time.Now()
	hangs0 := c14ForcedHangs
	stop := func() bool {
		// the suite has its own allowance of confirmed hangs on top of what suite "forced" used up
		return expired() || c14ForcedHangs-hangs0 >= c14MaxHangs
	}
	do := func(run *c14Run) {
		nt := false
		for _, s := range run.Steps {
			if s.Kind != "start" && len(s.Gates) > 0 {
				nt = true
			}
		}
		r.Case("pool", c14SampleKey(run), nt)
		r.H("c14.pool.steps", fmt.Sprint(len(run.Steps)))
		for _, x := range run.Results {
			r.H("c14.pool.result", x)
		}
		c14ReportV(r, "pool", run, c14PoolJudge(run))
	}
	// probe: the scenario of the comment in prepare_stmt.go.  g1 executes its first statement (owns the connection,
	// is outside the cache), g2 starts preparing text 1 and is released into the pool where it waits for the
	// connection, then g1 goes on to prepare its second statement.
	steps := []c14Choice{{"start", 0, "ok"}, {"prep", 0, "ok"}, {"start", 1, "ok"}, {"prep", 1, "ok"}, {"use", 0, "ok"},
		{"prep", 0, "ok"}, {"use", 0, "ok"}, {"use", 1, "ok"}}
	run := c14ExecutePool(1, []c14Op{{"tx2", 0, 0}, {"use", 0, 1}}, c14PoolMaxOpen, true, func(i int, ch []c14Choice) int {
		if i < len(steps) {
			for k, c := range ch {
				if c == steps[i] {
					return k
				}
			}
		}
		return 0
	})
	do(run)
	r.Note("probe pool (transaction owns the only connection while another goroutine prepares): hang=%v results=%v", run.Hang, run.Results)
	// exhaustive over the small configurations
	cfgs := c14PoolConfigs()
	complete := 0
	perCfg := budget / 2 / time.Duration(len(cfgs))
	for _, cfg := range cfgs {
		start := time.Now()
		prefix := []int{}
		done := false
		for !done && !stop() && time.Since(start) < perCfg {
			run := c14ExecutePool(cfg.NV, cfg.Ops, c14PoolMaxOpen, false, func(i int, ch []c14Choice) int {
				if i < len(prefix) && prefix[i] < len(ch) {
					return prefix[i]
				}
				return 0
			})
			do(run)
			p := append([]int(nil), run.Choices...)
			k := len(p) - 1
			for k >= 0 && p[k]+1 >= run.Widths[k] {
				k--
			}
			if k < 0 {
				done = true
				complete++
			} else {
				p = p[:k+1]
				p[k]++
				prefix = p
			}
		}
	}
	r.H("c14.pool.exhaustive.complete", fmt.Sprintf("%d/%d", complete, len(cfgs)))
	// random schedules
	for !stop() && time.Since(t0) < budget {
		nv, ops := c14PoolRandomOps(rng)
		do(c14ExecutePool(nv, ops, c14PoolMaxOpen, true, func(i int, ch []c14Choice) int { return rng.Intn(len(ch)) }))
	}
	if c14ForcedHangs-hangs0 >= c14MaxHangs {
		r.Note("pool suite: %d confirmed hangs, the remaining schedules are skipped", c14ForcedHangs-hangs0)
	}
}
