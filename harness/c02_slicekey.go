package main

// C02 (round 5) — "the primary key of the model value" when the model value is a SLICE / ARRAY / slice of POINTERS of records.
//
// Sentence judged: a chain "… updates or deletes exactly the rows satisfying its units combined left to right with AND (Where, Not,
// inline, primary key)"; with a slice model value the key unit is "the key tuple of the row EQUALS the key tuple of some element
// that carries a key" — exact equality: letter case, blanks, the separator `_`, digits vs numbers, unicode all count; duplicates
// and repeated pointers change nothing; elements without a key (all parts zero) contribute nothing; a composite key with SOME zero
// parts is a key.
//
// Suites
//   slicekey      (e2e)  nine key families (string, string+soft delete, string+int composite (+soft), two strings, uint+string,
//                        int64, []byte, named string type with a renamed column) × shapes (&[]T, &[]*T, &[n]T, []T, []*T, a pointer
//                        twice) × Delete / Delete with inline conds / Model(slice).Delete(&T{}) / Model(slice).Delete(&keyed) /
//                        Unscoped / Update / Updates(map|struct) / UpdateColumn(s) × extra units (Where raw, Not raw, Where map,
//                        scope, inline) before or after Model(…) × {inside a user tx, directly} × {PrepareStmt, SkipDefaultTransaction};
//                        the WHOLE table and RowsAffected are compared with the reference computed in Go from the key tuples.
//   slicekey.tie  (corr) real schema.GetIdentityFieldValuesMap on the slice value, and the clause.IN the real Delete / Update callbacks
//                        leave in Statement.Clauses["WHERE"] (DryRun) — vs Lean Model/SliceKeys.lean sliceKeyList /
//                        deleteSliceKeyCond / updateSliceKeyCond; the Lean `sliceAddressed` vs `sliceSpec` on the case's table.
//
// Latitudes (unchanged gorm, not demanded by the property text — see DESIGN.md §4 C02 round 5):
//   * no element carries a key: no key unit; with no other unit gorm refuses (ErrMissingWhereClause, C09's subject) — only "table
//     unchanged" is demanded then;
//   * nil pointers inside []*T panic in schema.Field.ValueOf on the unchanged tree (reflect on zero Value) — not generated;
//   * Find(&sliceWithKeys) / Model(&slice).Find|Count ignore the slice's keys (BuildQuerySQL reads keys of STRUCT destinations only) —
//     not judged;
//   * listed findings F6c-C02 (two distinct key tuples of the slice share one ToStringKey string: separator `_` inside a part of a
//     composite key) and F35-C02 (Update: only the LAST element decides whether the key unit is added) are reported as KNOWN-FINDING
//     when — and only when — the case matches their pattern, computed from the case itself, never from the code under test.

import (
	"context"
	"encoding/json"
	"fmt"
	"math/rand"
	"reflect"
	"sort"
	"strconv"
	"strings"

	"gorm.io/gorm"
	"gorm.io/gorm/clause"
	"gorm.io/gorm/schema"
)

type c02SKName string

type C02SKs struct {
	Code string `gorm:"primaryKey"`
	N    int
	M    int
}
type C02SKss struct {
	Code      string `gorm:"primaryKey"`
	N         int
	M         int
	DeletedAt gorm.DeletedAt
}
type C02SKc struct {
	A string `gorm:"primaryKey"`
	B int    `gorm:"primaryKey;autoIncrement:false"`
	N int
	M int
}
type C02SKcs struct {
	A         string `gorm:"primaryKey"`
	B         int    `gorm:"primaryKey;autoIncrement:false"`
	N         int
	M         int
	DeletedAt gorm.DeletedAt
}
type C02SKt struct {
	A string `gorm:"primaryKey"`
	B string `gorm:"primaryKey"`
	N int
	M int
}
type C02SKu struct {
	T    uint   `gorm:"primaryKey;autoIncrement:false"`
	Code string `gorm:"primaryKey"`
	N    int
	M    int
}
type C02SKi struct {
	ID int64 `gorm:"primaryKey;autoIncrement:false"`
	N  int
	M  int
}
type C02SKb struct {
	Code []byte `gorm:"primaryKey"`
	N    int
	M    int
}
type C02SKn struct {
	Code c02SKName `gorm:"primaryKey;column:kode"`
	N    int
	M    int
}

type c02SKPart struct{ Field, Col, Kind string }

type c02SKFam struct {
	Name  string
	Typ   reflect.Type
	Table string
	Parts []c02SKPart
	Soft  bool
}

var c02SKFams = []c02SKFam{
	{"str", reflect.TypeOf(C02SKs{}), "c02_s_ks", []c02SKPart{{"Code", "code", "str"}}, false},
	{"str-soft", reflect.TypeOf(C02SKss{}), "c02_s_ksses", []c02SKPart{{"Code", "code", "str"}}, true},
	{"str+int", reflect.TypeOf(C02SKc{}), "c02_s_kcs", []c02SKPart{{"A", "a", "str"}, {"B", "b", "int"}}, false},
	{"str+int-soft", reflect.TypeOf(C02SKcs{}), "c02_s_kcs_soft", []c02SKPart{{"A", "a", "str"}, {"B", "b", "int"}}, true},
	{"str+str", reflect.TypeOf(C02SKt{}), "c02_s_kts", []c02SKPart{{"A", "a", "str"}, {"B", "b", "str"}}, false},
	{"uint+str", reflect.TypeOf(C02SKu{}), "c02_s_kus", []c02SKPart{{"T", "t", "uint"}, {"Code", "code", "str"}}, false},
	{"int64", reflect.TypeOf(C02SKi{}), "c02_s_kis", []c02SKPart{{"ID", "id", "int"}}, false},
	{"bytes", reflect.TypeOf(C02SKb{}), "c02_s_kbs", []c02SKPart{{"Code", "code", "bytes"}}, false},
	{"named-str", reflect.TypeOf(C02SKn{}), "c02_s_kns", []c02SKPart{{"Code", "kode", "str"}}, false},
}

var c02SKLong = strings.Repeat("k", 40)

// clusters of strings that an over-eager normalisation (case folding, trimming, separator handling, numeric parsing, unicode
// folding, truncation, quoting) would confuse; SQLite's BINARY collation keeps every one of them distinct
var c02SKClusters = [][]string{
	{"ab", "AB", "Ab", "aB"},
	{"ab", " ab", "ab ", "a b", "ab\t"},
	{"a_b", "a", "b_c", "c", "a_b_c", "b", "_"},
	{"1", "01", "1.0", "1e0", "+1", "10"},
	{"é", "É", "e", "E", "é"},
	{"straße", "STRASSE", "strasse", "Straße"},
	{"i", "I", "ı", "İ"},
	{"nil", "NIL", "<nil>", "null", "0"},
	{c02SKLong + "a", c02SKLong + "A", c02SKLong + "b", c02SKLong},
	{"%", "a%", "a_", "a"},
	{"a'b", "a''b", "a\"b", "a`b", "a?b"},
	{"Zürich", "ZÜRICH", "zürich", "Zurich"},
}

var c02SKInts = []string{"1", "-1", "2", "10", "100", "9007199254740992", "9007199254740993", "-9007199254740993"}
var c02SKUints = []string{"1", "2", "10", "4611686018427387904", "4611686018427387905"}

type c02SKRow struct {
	Key     []string `json:"key"`
	N       int      `json:"n"`
	Deleted bool     `json:"deleted,omitempty"`
}

type c02SKCase struct {
	Seed    int64      `json:"seed"`
	Fam     string     `json:"family"`
	Table   []c02SKRow `json:"table"`
	Elems   [][]string `json:"slice_keys"`
	Addrs   []int      `json:"slice_addrs"`
	Shape   string     `json:"shape"`
	Op      string     `json:"op"`
	Extra   string     `json:"extra"`
	K       int        `json:"k"`
	Late    bool       `json:"extra_after_model"`
	DestKey []string   `json:"dest_key,omitempty"`
	Ctx     string     `json:"ctx"`
	Cfg     int        `json:"cfg"`
}

func c02SKZeroPart(kind, s string) bool {
	switch kind {
	case "int", "uint":
		return s == "0"
	}
	return s == ""
}

func c02SKAllZero(f *c02SKFam, key []string) bool {
	for i, p := range f.Parts {
		if !c02SKZeroPart(p.Kind, key[i]) {
			return false
		}
	}
	return true
}

// the reference reading of utils.ToStringKey for the kinds generated here (pattern of F6c only; never used to judge rows)
func c02SKRefKeyString(f *c02SKFam, key []string) string {
	parts := make([]string, len(key))
	for i, p := range f.Parts {
		parts[i] = key[i]
		if p.Kind == "int" && key[i] == "0" {
			parts[i] = "nil"
		}
	}
	return strings.Join(parts, "_")
}

func c02SKSetKey(f *c02SKFam, elem reflect.Value, key []string) {
	for i, p := range f.Parts {
		fv := elem.FieldByName(p.Field)
		switch p.Kind {
		case "str":
			fv.SetString(key[i])
		case "bytes":
			if key[i] != "" {
				fv.SetBytes([]byte(key[i]))
			}
		case "int":
			n, _ := strconv.ParseInt(key[i], 10, 64)
			fv.SetInt(n)
		case "uint":
			n, _ := strconv.ParseUint(key[i], 10, 64)
			fv.SetUint(n)
		}
	}
}

func c02SKArg(kind, s string) interface{} {
	switch kind {
	case "bytes":
		return []byte(s)
	case "int":
		n, _ := strconv.ParseInt(s, 10, 64)
		return n
	case "uint":
		n, _ := strconv.ParseUint(s, 10, 64)
		return int64(n)
	}
	return s
}

// key component as the Lean driver reads it (Drv/C11.lean parseKeyVal) + the zero flag field.ValueOf reports
func c02SKKV(kind, s string) []interface{} {
	switch kind {
	case "bytes":
		if s == "" {
			return []interface{}{nil, true}
		}
		return []interface{}{map[string]interface{}{"b": s}, false}
	case "int":
		n, _ := strconv.ParseInt(s, 10, 64)
		return []interface{}{map[string]interface{}{"i": n}, n == 0}
	case "uint":
		n, _ := strconv.ParseUint(s, 10, 64)
		return []interface{}{map[string]interface{}{"u": n}, n == 0}
	}
	return []interface{}{map[string]interface{}{"s": s}, s == ""}
}

func c02SKTag(v interface{}) string {
	rv := reflect.ValueOf(v)
	if !rv.IsValid() {
		return "nil"
	}
	switch rv.Kind() {
	case reflect.String:
		return "s:" + rv.String()
	case reflect.Slice:
		if rv.IsNil() {
			return "nil"
		}
		return "b:" + string(rv.Bytes())
	case reflect.Uint, reflect.Uint64:
		return "u:" + strconv.FormatUint(rv.Uint(), 10)
	case reflect.Int, reflect.Int64:
		return "i:" + strconv.FormatInt(rv.Int(), 10)
	}
	return fmt.Sprintf("?%T", v)
}

func c02SKTuples(values []interface{}) [][]string {
	out := [][]string{}
	for _, v := range values {
		if t, ok := v.([]interface{}); ok {
			var tags []string
			for _, x := range t {
				tags = append(tags, c02SKTag(x))
			}
			out = append(out, tags)
		} else {
			out = append(out, []string{c02SKTag(v)})
		}
	}
	return out
}

func c02SKGen(seed int64) (*c02SKFam, c02SKCase) {
	rng := rand.New(rand.NewSource(seed))
	f := &c02SKFams[rng.Intn(len(c02SKFams))]
	c := c02SKCase{Seed: seed, Fam: f.Name}
	cluster := c02SKClusters[rng.Intn(len(c02SKClusters))]
	other := c02SKClusters[rng.Intn(len(c02SKClusters))]
	part := func(kind string, allowZero bool) string {
		if allowZero && rng.Intn(5) == 0 {
			return map[string]string{"str": "", "bytes": "", "int": "0", "uint": "0"}[kind]
		}
		switch kind {
		case "int":
			return c02SKInts[rng.Intn(len(c02SKInts))]
		case "uint":
			return c02SKUints[rng.Intn(3+rng.Intn(len(c02SKUints)-2))]
		}
		if rng.Intn(6) == 0 {
			return other[rng.Intn(len(other))]
		}
		return cluster[rng.Intn(len(cluster))]
	}
	tuple := func() []string {
		k := make([]string, len(f.Parts))
		for i, p := range f.Parts {
			k[i] = part(p.Kind, true)
		}
		if len(f.Parts) > 1 && rng.Intn(2) == 0 {
			// composite keys: keep the non-string part in a tiny range so that the string part decides
			for i, p := range f.Parts {
				if p.Kind == "int" || p.Kind == "uint" {
					k[i] = []string{"0", "1", "1", "2"}[rng.Intn(4)]
				}
			}
		}
		return k
	}
	seen := map[string]bool{}
	for i, n := 0, 3+rng.Intn(5); i < n; i++ {
		k := tuple()
		id := strings.Join(k, "\x00")
		if seen[id] {
			continue
		}
		seen[id] = true
		c.Table = append(c.Table, c02SKRow{Key: k, N: rng.Intn(4), Deleted: f.Soft && rng.Intn(4) == 0})
	}
	nEl := 1 + rng.Intn(5)
	for i := 0; i < nEl; i++ {
		var k []string
		switch x := rng.Intn(10); {
		case x < 5:
			k = append([]string{}, c.Table[rng.Intn(len(c.Table))].Key...)
		case x < 8:
			k = tuple()
		case x < 9 && len(c.Elems) > 0:
			k = append([]string{}, c.Elems[rng.Intn(len(c.Elems))]...) // duplicate key at another address
		default:
			k = make([]string, len(f.Parts)) // no key
			for j, p := range f.Parts {
				k[j] = map[string]string{"str": "", "bytes": "", "int": "0", "uint": "0"}[p.Kind]
			}
		}
		c.Elems = append(c.Elems, k)
	}
	c.Shape = []string{"slice", "slice", "ptrs", "ptrs", "array", "slice-val", "ptrs-val", "ptrs-dup"}[rng.Intn(8)]
	ops := []string{"delete", "delete", "delete-inline", "model-delete", "model-delete-keyed", "delete-unscoped",
		"update", "update", "updates-map", "updates-struct", "update-column", "update-columns", "update-unscoped"}
	c.Op = ops[rng.Intn(len(ops))]
	upd := strings.HasPrefix(c.Op, "update")
	// F35 (listed): keep the last element keyed most of the time when updating
	if upd && c02SKAllZero(f, c.Elems[len(c.Elems)-1]) && rng.Intn(8) != 0 {
		for i := range c.Elems {
			if !c02SKAllZero(f, c.Elems[i]) {
				c.Elems[i], c.Elems[len(c.Elems)-1] = c.Elems[len(c.Elems)-1], c.Elems[i]
				break
			}
		}
	}
	for i := range c.Elems {
		c.Addrs = append(c.Addrs, i)
	}
	if c.Shape == "ptrs-dup" && len(c.Elems) > 1 {
		// the same pointer twice: element j is element i
		i, j := rng.Intn(len(c.Elems)), rng.Intn(len(c.Elems))
		if i > j {
			i, j = j, i
		}
		c.Elems[j] = c.Elems[i]
		c.Addrs[j] = c.Addrs[i]
	}
	c.Extra = []string{"none", "none", "where-raw", "not-raw", "where-map", "scope"}[rng.Intn(6)]
	if c.Op == "delete-inline" {
		c.Extra = "inline"
	}
	c.K = rng.Intn(4)
	c.Late = rng.Intn(2) == 0
	if c.Op == "model-delete-keyed" {
		if rng.Intn(3) > 0 {
			c.DestKey = append([]string{}, c.Elems[rng.Intn(len(c.Elems))]...)
		} else {
			c.DestKey = tuple()
		}
		if c02SKAllZero(f, c.DestKey) {
			c.Op, c.DestKey = "model-delete", nil
		}
	}
	c.Ctx = []string{"tx", "tx", "direct"}[rng.Intn(3)]
	c.Cfg = 0
	if rng.Intn(3) == 0 {
		c.Cfg = 1 + rng.Intn(3)
	}
	return f, c
}

// the slice value handed to gorm
func c02SKValue(f *c02SKFam, c *c02SKCase) interface{} {
	n := len(c.Elems)
	ptrs := make([]reflect.Value, n)
	for i := range c.Elems {
		if c.Addrs[i] != i {
			ptrs[i] = ptrs[c.Addrs[i]]
			continue
		}
		ptrs[i] = reflect.New(f.Typ)
		c02SKSetKey(f, ptrs[i].Elem(), c.Elems[i])
	}
	switch c.Shape {
	case "ptrs", "ptrs-val", "ptrs-dup":
		sl := reflect.MakeSlice(reflect.SliceOf(reflect.PtrTo(f.Typ)), n, n)
		for i := range ptrs {
			sl.Index(i).Set(ptrs[i])
		}
		if c.Shape == "ptrs-val" {
			return sl.Interface()
		}
		p := reflect.New(sl.Type())
		p.Elem().Set(sl)
		return p.Interface()
	case "array":
		p := reflect.New(reflect.ArrayOf(n, f.Typ))
		for i := range ptrs {
			p.Elem().Index(i).Set(ptrs[i].Elem())
		}
		return p.Interface()
	}
	sl := reflect.MakeSlice(reflect.SliceOf(f.Typ), n, n)
	for i := range ptrs {
		sl.Index(i).Set(ptrs[i].Elem())
	}
	if c.Shape == "slice-val" {
		return sl.Interface()
	}
	p := reflect.New(sl.Type())
	p.Elem().Set(sl)
	return p.Interface()
}

func c02SKExtraHolds(c *c02SKCase, n int) bool {
	switch c.Extra {
	case "where-raw", "scope", "inline":
		return n >= c.K
	case "not-raw":
		return n != c.K
	case "where-map":
		return n == c.K
	}
	return true
}

func c02SKApplyExtra(tx *gorm.DB, c *c02SKCase) *gorm.DB {
	switch c.Extra {
	case "where-raw":
		return tx.Where("n >= ?", c.K)
	case "not-raw":
		return tx.Not("n = ?", c.K)
	case "where-map":
		return tx.Where(map[string]interface{}{"n": c.K})
	case "scope":
		k := c.K
		return tx.Scopes(func(d *gorm.DB) *gorm.DB { return d.Where("n >= ?", k) })
	}
	return tx
}

// run the case's operation on handle h
func c02SKRun(f *c02SKFam, c *c02SKCase, h *gorm.DB) *gorm.DB {
	val := c02SKValue(f, c)
	keyless := reflect.New(f.Typ).Interface()
	switch c.Op {
	case "delete", "delete-unscoped":
		if c.Op == "delete-unscoped" {
			h = h.Unscoped()
		}
		return c02SKApplyExtra(h, c).Delete(val)
	case "delete-inline":
		return h.Delete(val, "n >= ?", c.K)
	case "model-delete", "model-delete-keyed":
		dest := keyless
		if c.DestKey != nil {
			d := reflect.New(f.Typ)
			c02SKSetKey(f, d.Elem(), c.DestKey)
			dest = d.Interface()
		}
		if c.Late {
			return c02SKApplyExtra(h.Model(val), c).Delete(dest)
		}
		return c02SKApplyExtra(h, c).Model(val).Delete(dest)
	}
	if c.Op == "update-unscoped" {
		h = h.Unscoped()
	}
	if c.Late {
		h = c02SKApplyExtra(h.Model(val), c)
	} else {
		h = c02SKApplyExtra(h, c).Model(val)
	}
	switch c.Op {
	case "updates-map":
		return h.Updates(map[string]interface{}{"m": 77})
	case "updates-struct":
		u := reflect.New(f.Typ)
		u.Elem().FieldByName("M").SetInt(77)
		return h.Updates(u.Interface())
	case "update-column":
		return h.UpdateColumn("m", 77)
	case "update-columns":
		return h.UpdateColumns(map[string]interface{}{"m": 77})
	}
	return h.Update("m", 77)
}

type c02SKWorld struct {
	dbs [4]*gorm.DB
}

func c02SKOpen() (*c02SKWorld, func()) {
	w := &c02SKWorld{}
	var closers []func()
	for i := 0; i < 4; i++ {
		db, _, sqlDB := OpenRec(&gorm.Config{NowFunc: fixedNowFunc, PrepareStmt: i&1 != 0, SkipDefaultTransaction: i&2 != 0})
		for fi := range c02SKFams {
			f := &c02SKFams[fi]
			if err := db.Table(f.Table).AutoMigrate(reflect.New(f.Typ).Interface()); err != nil {
				panic(err)
			}
		}
		w.dbs[i] = db
		closers = append(closers, func() { sqlDB.Close() })
	}
	return w, func() {
		for _, c := range closers {
			c()
		}
	}
}

func c02SKCols(f *c02SKFam) string {
	var cols []string
	for _, p := range f.Parts {
		cols = append(cols, "`"+p.Col+"`")
	}
	return strings.Join(cols, ",")
}

func c02SKDump(f *c02SKFam, h *gorm.DB) ([]string, error) {
	del := "0"
	if f.Soft {
		del = "deleted_at IS NOT NULL"
	}
	rows, err := h.Session(&gorm.Session{NewDB: true}).Raw("SELECT " + c02SKCols(f) + ", n, m, " + del + " FROM `" + f.Table + "`").Rows()
	if err != nil {
		return nil, err
	}
	defer rows.Close()
	out := []string{}
	for rows.Next() {
		vals := make([]interface{}, len(f.Parts)+3)
		ptrs := make([]interface{}, len(vals))
		for i := range vals {
			ptrs[i] = &vals[i]
		}
		if err := rows.Scan(ptrs...); err != nil {
			return nil, err
		}
		var parts []string
		for _, v := range vals {
			switch x := v.(type) {
			case []byte:
				parts = append(parts, strconv.Quote(string(x)))
			case string:
				parts = append(parts, strconv.Quote(x))
			case bool:
				parts = append(parts, map[bool]string{true: "1", false: "0"}[x])
			default:
				parts = append(parts, fmt.Sprint(x))
			}
		}
		out = append(out, strings.Join(parts, "|"))
	}
	sort.Strings(out)
	return out, rows.Err()
}

func c02SKRowString(f *c02SKFam, key []string, n, m int, deleted bool) string {
	var parts []string
	for i, p := range f.Parts {
		if p.Kind == "int" || p.Kind == "uint" {
			parts = append(parts, key[i])
		} else {
			parts = append(parts, strconv.Quote(key[i]))
		}
	}
	parts = append(parts, strconv.Itoa(n), strconv.Itoa(m), map[bool]string{true: "1", false: "0"}[deleted])
	return strings.Join(parts, "|")
}

func c02SKSameKey(a, b []string) bool {
	for i := range a {
		if a[i] != b[i] {
			return false
		}
	}
	return true
}

// c02SKOne runs one case end to end; returns the tie ops (Lean) and the real side for the batch comparison
func c02SKOne(r *Result, w *c02SKWorld, seed int64) (tieOp []interface{}, tieReal string, tc *c02SKCase) {
	f, c := c02SKGen(seed)
	tc = &c
	upd := strings.HasPrefix(c.Op, "update")
	unscoped := strings.HasSuffix(c.Op, "-unscoped")
	// ---- reference -------------------------------------------------------------------------------------------------------
	var keys [][]string // distinct key tuples of the elements that carry a key
	for _, e := range c.Elems {
		if c02SKAllZero(f, e) {
			continue
		}
		dup := false
		for _, k := range keys {
			dup = dup || c02SKSameKey(k, e)
		}
		if !dup {
			keys = append(keys, e)
		}
	}
	inKeys := func(k []string) bool {
		for _, e := range keys {
			if c02SKSameKey(e, k) {
				return true
			}
		}
		return false
	}
	collision := false // pattern of F6c
	for i := range keys {
		for j := i + 1; j < len(keys); j++ {
			collision = collision || c02SKRefKeyString(f, keys[i]) == c02SKRefKeyString(f, keys[j])
		}
	}
	lastZero := upd && len(keys) > 0 && c02SKAllZero(f, c.Elems[len(c.Elems)-1]) // pattern of F35
	noKeyUnit := len(keys) == 0
	var want []string
	affected := 0
	for _, row := range c.Table {
		hit := (noKeyUnit || inKeys(row.Key)) && c02SKExtraHolds(&c, row.N)
		if c.DestKey != nil {
			hit = hit && c02SKSameKey(row.Key, c.DestKey)
		}
		if f.Soft && !unscoped && row.Deleted {
			hit = false
		}
		m, deleted, gone := 0, row.Deleted, false
		if hit {
			affected++
			switch {
			case upd:
				m = 77
			case f.Soft && !unscoped:
				deleted = true
			default:
				gone = true
			}
		}
		if !gone {
			want = append(want, c02SKRowString(f, row.Key, row.N, m, deleted))
		}
	}
	sort.Strings(want)
	// ---- real ------------------------------------------------------------------------------------------------------------
	db := w.dbs[c.Cfg]
	h := db
	var outer *gorm.DB
	if c.Ctx == "tx" {
		outer = db.Begin()
		h = outer
	}
	cleanup := func() {
		if outer != nil {
			outer.Rollback()
		} else {
			db.Exec("DELETE FROM `" + f.Table + "`")
		}
	}
	defer cleanup()
	for _, row := range c.Table {
		ph := strings.TrimSuffix(strings.Repeat("?,", len(f.Parts)+2), ",")
		// n, m first: gorm's Exec explodes a slice argument ([]byte) that directly follows "("
		args := []interface{}{row.N, 0}
		for i, p := range f.Parts {
			args = append(args, c02SKArg(p.Kind, row.Key[i]))
		}
		cols := "n, m, " + c02SKCols(f)
		if f.Soft {
			cols += ", deleted_at"
			ph += ",?"
			if row.Deleted {
				args = append(args, fixedNow)
			} else {
				args = append(args, nil)
			}
		}
		if err := h.Exec("INSERT INTO `"+f.Table+"` ("+cols+") VALUES ("+ph+")", args...).Error; err != nil {
			panic("c02 slicekey: insert: " + err.Error())
		}
	}
	nontrivial := len(keys) >= 2
	r.Case("slicekey", fmt.Sprint(c.Fam, c.Table, c.Elems, c.Shape, c.Op, c.Extra, c.K, c.Late, c.DestKey), nontrivial)
	r.H("slicekey.family", c.Fam)
	r.H("slicekey.op", c.Op)
	r.H("slicekey.shape", c.Shape)
	r.H("slicekey.extra", c.Extra)
	r.H("slicekey.ctx", fmt.Sprintf("%s cfg=%d", c.Ctx, c.Cfg))
	r.H("slicekey.keys", fmt.Sprintf("distinct=%d elems=%d", len(keys), len(c.Elems)))
	var res *gorm.DB
	var perr interface{}
	func() {
		defer func() { perr = recover() }()
		res = c02SKRun(f, &c, h.Table(f.Table))
	}()
	fail := func(obs, exp interface{}, note string) {
		if collision && listed("F6c-C02-slice-key-string-collision") {
			r.KnownFinding("F6c-C02-slice-key-string-collision", "two distinct key tuples of the slice share one key string: a row whose key was given is not addressed")
			return
		}
		if lastZero && listed("F35-C02-update-slice-last-element-decides") {
			r.KnownFinding("F35-C02-update-slice-last-element-decides", "Update through Model(&slice): the last element has no key, the key unit is dropped")
			return
		}
		r.Violate(Violation{Kind: "e2e", Suite: "slicekey", Input: c, Observed: obs, Expected: exp,
			Note: "slice model value: the rows addressed are exactly those whose key tuple equals some element's key tuple (and satisfy the other units): " + note})
	}
	if perr != nil {
		fail(fmt.Sprint("panic: ", perr), "no panic", "panic")
	} else {
		got, derr := c02SKDump(f, h)
		if derr != nil {
			panic("c02 slicekey: dump: " + derr.Error())
		}
		same := strings.Join(got, "\n") == strings.Join(want, "\n")
		switch {
		case noKeyUnit && c.Extra == "none" && c.DestKey == nil:
			// latitude: no unit at all — gorm refuses (C09); only "nothing changed" is demanded here
			var before []string
			for _, row := range c.Table {
				before = append(before, c02SKRowString(f, row.Key, row.N, 0, row.Deleted))
			}
			sort.Strings(before)
			if res.Error == nil || strings.Join(got, "\n") != strings.Join(before, "\n") {
				// an unconditional write that went through is C09's subject; not judged here
				r.H("slicekey.verdict", "no-unit (not judged)")
			}
		case res.Error != nil:
			fail(map[string]interface{}{"error": trunc(res.Error.Error(), 120), "table": got}, map[string]interface{}{"error": nil, "table": want}, "the statement failed")
		case !same:
			fail(map[string]interface{}{"table": got, "rows_affected": res.RowsAffected}, map[string]interface{}{"table": want, "rows_affected": affected}, "whole table compared (key columns | n | m | deleted)")
		case res.RowsAffected != int64(affected):
			fail(map[string]interface{}{"rows_affected": res.RowsAffected}, map[string]interface{}{"rows_affected": affected}, "RowsAffected")
		default:
			r.H("slicekey.verdict", fmt.Sprintf("ok affected=%d", min(affected, 3)))
		}
	}
	// ---- tie: the IN list ---------------------------------------------------------------------------------------------------
	var rows []interface{}
	for i, e := range c.Elems {
		var comps []interface{}
		for j, p := range f.Parts {
			comps = append(comps, c02SKKV(p.Kind, e[j]))
		}
		rows = append(rows, []interface{}{c.Addrs[i], comps})
	}
	var table []interface{}
	for i, row := range c.Table {
		var kv []interface{}
		for j, p := range f.Parts {
			x := c02SKKV(p.Kind, row.Key[j])[0]
			if p.Kind == "bytes" && row.Key[j] == "" {
				x = map[string]interface{}{"b": ""}
			}
			kv = append(kv, x)
		}
		table = append(table, []interface{}{i, kv})
	}
	real := map[string]interface{}{}
	func() {
		defer func() {
			if p := recover(); p != nil {
				real["panic"] = fmt.Sprint(p)
			}
		}()
		stmt := &gorm.Statement{DB: db}
		if err := stmt.Parse(reflect.New(f.Typ).Interface()); err != nil {
			panic(err)
		}
		rv := reflect.ValueOf(c02SKValue(f, &c))
		_, results := schema.GetIdentityFieldValuesMap(context.Background(), rv, stmt.Schema.PrimaryFields)
		vals := [][]string{}
		for _, t := range results {
			var tags []string
			for _, x := range t {
				tags = append(tags, c02SKTag(x))
			}
			vals = append(vals, tags)
		}
		real["values"] = vals
		// a fresh statement per finisher: the handle Table(…) returns shares its Statement between finishers
		dry := func() *gorm.DB { return db.Session(&gorm.Session{DryRun: true, NewDB: true}).Table(f.Table) }
		real["del"] = c02SKKeyIN(f, dry().Delete(c02SKValue(f, &c)))
		real["upd"] = c02SKKeyIN(f, dry().Model(c02SKValue(f, &c)).Update("m", 1))
	}()
	return []interface{}{"slicekeys", rows, table}, canon(real), tc
}

// the key unit a finisher left in Statement.Clauses["WHERE"]: the clause.IN whose column is the primary key (nil = none)
func c02SKKeyIN(f *c02SKFam, tx *gorm.DB) interface{} {
	cl, ok := tx.Statement.Clauses["WHERE"]
	if !ok {
		return nil
	}
	wh, ok := cl.Expression.(clause.Where)
	if !ok {
		return nil
	}
	for _, e := range wh.Exprs {
		in, ok := e.(clause.IN)
		if !ok {
			continue
		}
		switch col := in.Column.(type) {
		case clause.Column:
			if len(f.Parts) == 1 && col.Name == f.Parts[0].Col {
				return c02SKTuples(in.Values)
			}
		case []clause.Column:
			if len(col) == len(f.Parts) {
				return c02SKTuples(in.Values)
			}
		}
	}
	return nil
}

func c02SKSuite(r *Result, rng *rand.Rand, tier string) {
	n := map[string]int{"quick": 1500, "thorough": 40000, "search": 12000}[tier]
	w, closeAll := c02SKOpen()
	defer closeAll()
	var ops [][]interface{}
	var reals []string
	var cases []*c02SKCase
	flush := func() {
		if len(ops) == 0 {
			return
		}
		var all [][]interface{}
		for _, o := range ops {
			all = append(all, []interface{}{"slicekeys", o[1]}, []interface{}{"slicekeys.addressed", o[1], o[2]})
		}
		outs, err := AskLean(all)
		if err != nil {
			r.Violate(Violation{Kind: "correspondence", Suite: "slicekey.tie", Note: err.Error()})
			ops, reals, cases = nil, nil, nil
			return
		}
		for i := range ops {
			r.CorrCompared++
			model := canonRaw(outs[2*i])
			var mo struct {
				Values [][]string `json:"values"`
			}
			_ = json.Unmarshal(outs[2*i], &mo)
			r.Case("slicekey.tie", model+canon(ops[i][1]), len(mo.Values) >= 2)
			r.H("slicekey.tie.values", fmt.Sprint(min(len(mo.Values), 4)))
			if model != reals[i] {
				r.Violate(Violation{Kind: "correspondence", Suite: "slicekey.tie", Input: cases[i], Observed: json.RawMessage(reals[i]), Expected: json.RawMessage(model),
					Note: "real schema.GetIdentityFieldValuesMap on the slice value + the key clause.IN left by the real Delete / Update callbacks (DryRun) vs Lean sliceKeyList / deleteSliceKeyCond / updateSliceKeyCond (Model/SliceKeys.lean)"})
			}
			// the model's own reading of the sentence: addressed = spec unless the key string collides (F6c)
			var ad struct {
				Addressed []int `json:"addressed"`
				Spec      []int `json:"spec"`
			}
			_ = json.Unmarshal(outs[2*i+1], &ad)
			r.H("slicekey.tie.addressed", fmt.Sprintf("addressed=%d spec=%d", min(len(ad.Addressed), 3), min(len(ad.Spec), 3)))
		}
		ops, reals, cases = nil, nil, nil
	}
	for i := 0; i < n && !expired(); i++ {
		op, real, c := c02SKOne(r, w, rng.Int63())
		ops = append(ops, op)
		reals = append(reals, real)
		cases = append(cases, c)
		if len(ops) >= 500 {
			flush()
		}
	}
	flush()
	c02SKProbes(r, w)
}

// dedicated probes: re-confirm each listed finding per run, and a fixed set of must-hold cases (letter case, blanks, unicode)
func c02SKProbes(r *Result, w *c02SKWorld) {
	type probe struct {
		fam   string
		table [][]string
		elems [][]string
		op    string
		want  []string // keys addressed
		id    string   // listed finding expected to show (empty: must hold)
	}
	probes := []probe{
		{"str", [][]string{{"ab"}, {"AB"}, {"cd"}}, [][]string{{"ab"}, {"AB"}}, "delete", []string{"ab", "AB"}, ""},
		{"str", [][]string{{"ab"}, {" ab"}, {"ab "}}, [][]string{{" ab"}, {"ab "}}, "update", []string{" ab", "ab "}, ""},
		{"str-soft", [][]string{{"é"}, {"É"}, {"e"}}, [][]string{{"é"}, {"É"}}, "delete", []string{"é", "É"}, ""},
		{"named-str", [][]string{{"a_b"}, {"a"}, {"A_B"}}, [][]string{{"a_b"}, {"A_B"}}, "update", []string{"a_b", "A_B"}, ""},
		{"str+str", [][]string{{"a_b", "c"}, {"a", "b_c"}, {"x", "y"}}, [][]string{{"a_b", "c"}, {"a", "b_c"}}, "delete", []string{"a_b\x00c", "a\x00b_c"}, "F6c-C02-slice-key-string-collision"},
		{"str", [][]string{{"ab"}, {"cd"}, {"ef"}}, [][]string{{"ab"}, {""}}, "update-where", []string{"ab"}, "F35-C02-update-slice-last-element-decides"},
	}
	for pi, p := range probes {
		var f *c02SKFam
		for i := range c02SKFams {
			if c02SKFams[i].Name == p.fam {
				f = &c02SKFams[i]
			}
		}
		c := c02SKCase{Fam: p.fam, Elems: p.elems, Shape: "slice", Op: p.op, Extra: "none"}
		if p.op == "update-where" {
			c.Op, c.Extra, c.K = "update", "where-raw", 0
		}
		for i := range p.elems {
			c.Addrs = append(c.Addrs, i)
		}
		tx := w.dbs[0].Begin()
		for _, k := range p.table {
			ph := strings.TrimSuffix(strings.Repeat("?,", len(k)+2), ",")
			args := []interface{}{}
			for _, s := range k {
				args = append(args, s)
			}
			args = append(args, 1, 0)
			if err := tx.Exec("INSERT INTO `"+f.Table+"` ("+c02SKCols(f)+", n, m) VALUES ("+ph+")", args...).Error; err != nil {
				panic(err)
			}
		}
		res := c02SKRun(f, &c, tx.Table(f.Table))
		got, _ := c02SKDump(f, tx)
		tx.Rollback()
		var want []string
		for _, k := range p.table {
			hit := false
			for _, wk := range p.want {
				hit = hit || wk == strings.Join(k, "\x00")
			}
			m, del, gone := 0, false, false
			if hit {
				switch {
				case strings.HasPrefix(c.Op, "update"):
					m = 77
				case f.Soft:
					del = true
				default:
					gone = true
				}
			}
			if !gone {
				want = append(want, c02SKRowString(f, k, 1, m, del))
			}
		}
		sort.Strings(want)
		holds := res.Error == nil && strings.Join(got, "\n") == strings.Join(want, "\n")
		r.Case("slicekey.probe", fmt.Sprint(pi), true)
		switch {
		case p.id == "" && !holds:
			r.Violate(Violation{Kind: "e2e", Suite: "slicekey", Input: map[string]interface{}{"probe": pi, "family": p.fam, "table": p.table, "slice_keys": p.elems, "op": p.op},
				Observed: map[string]interface{}{"table": got, "error": fmt.Sprint(res.Error)}, Expected: map[string]interface{}{"table": want},
				Note: "fixed probe: keys differing only by letter case / blanks / unicode case are different keys"})
		case p.id != "" && !holds:
			if listed(p.id) {
				r.KnownFinding(p.id, "probe: "+p.op+" through a slice model value does not address exactly the given keys")
			} else {
				r.Violate(Violation{Kind: "e2e", Suite: "slicekey", Input: map[string]interface{}{"probe": pi, "family": p.fam, "table": p.table, "slice_keys": p.elems, "op": p.op},
					Observed: map[string]interface{}{"table": got, "error": fmt.Sprint(res.Error)}, Expected: map[string]interface{}{"table": want}, Note: "probe of " + p.id})
			}
		case p.id != "" && holds:
			r.Note("slicekey probe %d: listed finding %s did NOT show on this tree (repaired?)", pi, p.id)
		}
	}
}

func init() {
	register("C02", c02SKSuite)
	replayers["C02/slicekey"] = func(r *Result, input json.RawMessage) {
		var c c02SKCase
		if json.Unmarshal(input, &c) != nil || c.Seed == 0 {
			w, closeAll := c02SKOpen()
			defer closeAll()
			c02SKProbes(r, w)
			return
		}
		w, closeAll := c02SKOpen()
		defer closeAll()
		c02SKOne(r, w, c.Seed)
	}
	replayers["C02/slicekey.tie"] = func(r *Result, input json.RawMessage) {
		r.Note("slicekey.tie replays are correspondence-only: rerun the suite")
	}
}
