package main

// C12, composite string keys: the in-memory clean-up of Association.Delete compares records through
// utils.ToStringKey (association.go cleanUpDeletedRelations), the key string C11 shows to be non-injective.

import (
	"encoding/json"
	"fmt"
	"math/rand"
	"sort"
	"strings"

	"gorm.io/gorm"
)

type C12Mark struct {
	A    string `gorm:"primaryKey"`
	B    string `gorm:"primaryKey"`
	Name string
}

type C12MarkUser struct {
	ID    uint `gorm:"primaryKey"`
	Name  string
	Marks []C12Mark `gorm:"many2many:c12_user_marks"`
}

type c12CK struct {
	Linked [][2]string `json:"linked"` // marks appended to the user
	Delete [][2]string `json:"delete"` // marks named in Delete
	// how the records are handed over: 0 = one []T, 1 = one *T per record, 2 = the first as *T and the others as one []T, 3 = one []*T
	AShape int `json:"append_shape,omitempty"`
	DShape int `json:"delete_shape,omitempty"`
}

func c12CKArgs(ms []C12Mark, shape int) []interface{} {
	switch {
	case shape == 1:
		var out []interface{}
		for i := range ms {
			out = append(out, &ms[i])
		}
		return out
	case shape == 2 && len(ms) > 1:
		return []interface{}{&ms[0], ms[1:]}
	case shape == 3:
		var ps []*C12Mark
		for i := range ms {
			ps = append(ps, &ms[i])
		}
		return []interface{}{ps}
	}
	return []interface{}{ms}
}

type c12CKObs struct {
	Links   []string `json:"links"`   // join rows of the user, sorted
	Created []string `json:"created"` // rows of c12_marks in insertion order
	MemRaw  []string `json:"mem_raw"` // in-memory field, field order, duplicates kept
	Mem     []string `json:"mem"`     // distinct, sorted
	Count   int64    `json:"count"`
	Find    []string `json:"find"`
}

func c12RunCKObs(in c12CK) (o c12CKObs, err error) {
	o.Links, o.Mem, o.Count, err = c12RunCK(in)
	o.Created, o.MemRaw, o.Find = c12ckCreated, c12ckMemRaw, c12ckFind
	return
}

var c12ckCreated, c12ckMemRaw, c12ckFind []string

// returns (stored links, in-memory keys, count) after Append(linked...) ; Delete(delete...)
func c12RunCK(in c12CK) (links, mem []string, count int64, err error) {
	c12ckCreated, c12ckMemRaw, c12ckFind = []string{}, []string{}, []string{}
	db, rec, sqlDB := OpenRec(&gorm.Config{NowFunc: fixedNowFunc})
	defer sqlDB.Close()
	if c12CKTrace {
		defer func() {
			for _, e := range rec.Snapshot() {
				if e.Kind == "exec" || e.Kind == "query" {
					fmt.Println("   ", e.SQL, e.Args)
				}
			}
		}()
	}
	if e := db.AutoMigrate(&C12Mark{}, &C12MarkUser{}); e != nil {
		panic(e)
	}
	u := C12MarkUser{ID: 1, Name: "u"}
	if e := db.Create(&u).Error; e != nil {
		return nil, nil, 0, e
	}
	var ms []C12Mark
	for _, k := range in.Linked {
		ms = append(ms, C12Mark{A: k[0], B: k[1], Name: k[0] + "|" + k[1]})
	}
	links, mem = []string{}, []string{}
	if len(ms) > 0 {
		if e := db.Model(&u).Association("Marks").Append(c12CKArgs(ms, in.AShape)...); e != nil {
			return nil, nil, 0, e
		}
	}
	var del []C12Mark
	for _, k := range in.Delete {
		del = append(del, C12Mark{A: k[0], B: k[1]})
	}
	if len(del) > 0 { // boundary, not judged: Delete() without values on a composite key renders `(a,b) IN (NULL)`, which SQLite rejects
		if e := db.Model(&u).Association("Marks").Delete(c12CKArgs(del, in.DShape)...); e != nil {
			return nil, nil, 0, e
		}
	}
	rows, e := db.Raw("SELECT c12_mark_a, c12_mark_b FROM c12_user_marks WHERE c12_mark_user_id = 1").Rows()
	if e != nil {
		return nil, nil, 0, e
	}
	for rows.Next() {
		var a, b string
		_ = rows.Scan(&a, &b)
		links = append(links, a+"|"+b)
	}
	rows.Close()
	if r2, e := db.Raw("SELECT a, b FROM c12_marks ORDER BY rowid").Rows(); e == nil {
		for r2.Next() {
			var a, b string
			_ = r2.Scan(&a, &b)
			c12ckCreated = append(c12ckCreated, a+"|"+b)
		}
		r2.Close()
	}
	var found []C12Mark
	if e := db.Model(&u).Association("Marks").Find(&found); e != nil {
		return nil, nil, 0, e
	}
	for _, m := range found {
		c12ckFind = append(c12ckFind, m.A+"|"+m.B)
	}
	sort.Strings(c12ckFind)
	seen := map[string]bool{}
	for _, m := range u.Marks {
		k := m.A + "|" + m.B
		c12ckMemRaw = append(c12ckMemRaw, k)
		if !seen[k] {
			seen[k] = true
			mem = append(mem, k)
		}
	}
	sort.Strings(links)
	sort.Strings(mem)
	as := db.Model(&u).Association("Marks")
	count = as.Count()
	return links, mem, count, as.Error
}

func c12CKCollision(in c12CK) bool {
	keys := map[string][2]string{}
	for _, p := range append(append([][2]string{}, in.Linked...), in.Delete...) {
		j := p[0] + "_" + p[1]
		if o, ok := keys[j]; ok && o != p {
			return true
		}
		keys[j] = p
	}
	return false
}

func c12CKWant(in c12CK) []string {
	del := map[[2]string]bool{}
	for _, d := range in.Delete {
		del[d] = true
	}
	seen := map[string]bool{}
	out := []string{}
	for _, l := range in.Linked {
		k := l[0] + "|" + l[1]
		if !del[l] && !seen[k] {
			seen[k] = true
			out = append(out, k)
		}
	}
	sort.Strings(out)
	return out
}

var c12CKTrace bool

func c12CKProbe() {
	c12CKTrace = true
	in := c12CK{Linked: [][2]string{{"a_b", "c"}, {"a", "b_c"}}, Delete: [][2]string{{"a_b", "c"}}}
	l, m, c, err := c12RunCK(in)
	fmt.Println("ck probe:", l, m, c, err, "want", c12CKWant(in))
}

// key parts: plain, containing the separator of utils.ToStringKey, differing only in letter case, with leading / trailing blanks,
// numeric-looking, the words ToStringKey prints for zero values, non-ASCII (incl. pairs that a case-folding comparison would merge)
var c12CKAlphabet = []string{"a", "b", "c", "a_b", "b_c", "x y", "a_", "_b", "nil", "0", "A", "B", " a", "a ", "1", "01", "é", "É", "ß", "ss"}
var c12CKSafeAlphabet = []string{"a", "b", "c", "x y", "nil", "0", "ab", "A", "B", "AB", "aB", " a", "a ", "1", "01", "1.0", "é", "É", "ß", "ss", "SS", "ı", "I", "i"}

func c12GenCK(rng *rand.Rand, safe bool) c12CK {
	alpha := c12CKAlphabet
	if safe {
		alpha = c12CKSafeAlphabet
	}
	in := c12CK{Linked: [][2]string{}, Delete: [][2]string{}, AShape: rng.Intn(4), DShape: rng.Intn(4)}
	for i, n := 0, 1+rng.Intn(4); i < n; i++ {
		in.Linked = append(in.Linked, [2]string{alpha[rng.Intn(len(alpha))], alpha[rng.Intn(len(alpha))]})
	}
	if !safe && rng.Intn(2) == 0 { // a deliberately colliding pair: (x_y, z) and (x, y_z)
		x, y, z := alpha[rng.Intn(3)], alpha[rng.Intn(3)], alpha[rng.Intn(3)]
		in.Linked = append(in.Linked, [2]string{x + "_" + y, z}, [2]string{x, y + "_" + z})
		rng.Shuffle(len(in.Linked), func(i, j int) { in.Linked[i], in.Linked[j] = in.Linked[j], in.Linked[i] })
	}
	if rng.Intn(2) == 0 { // a pair of keys that differ only in letter case / by a blank, in one call
		b := in.Linked[rng.Intn(len(in.Linked))]
		tw := b
		j := rng.Intn(2)
		switch rng.Intn(4) {
		case 0:
			tw[j] = strings.ToUpper(b[j])
		case 1:
			tw[j] = b[j] + " "
		case 2:
			tw[j] = " " + b[j]
		default:
			tw[j] = strings.ToLower(b[j])
		}
		in.Linked = append(in.Linked, tw)
		if rng.Intn(2) == 0 {
			in.Delete = append(in.Delete, b, tw)
		}
	}
	if rng.Intn(4) == 0 {
		in.Linked = append(in.Linked, in.Linked[rng.Intn(len(in.Linked))]) // duplicate target in one call
	}
	for i, n := 0, rng.Intn(3); i < n; i++ {
		if rng.Intn(4) > 0 {
			in.Delete = append(in.Delete, in.Linked[rng.Intn(len(in.Linked))])
		} else {
			in.Delete = append(in.Delete, [2]string{alpha[rng.Intn(len(alpha))], alpha[rng.Intn(len(alpha))]}) // not linked
		}
	}
	return in
}

func c12CKDistinct(ts [][2]string) []string {
	seen := map[string]bool{}
	out := []string{}
	for _, t := range ts {
		k := t[0] + "|" + t[1]
		if !seen[k] {
			seen[k] = true
			out = append(out, k)
		}
	}
	return out
}

// judge one composite-key case by the PROPERTY (links = appended minus named; records of all appended targets exist;
// Count/Find/in-memory agree with the links) and compare with the Lean model (distinctByKey / keepByKey)
func c12CKCase(r *Result, in c12CK, lean json.RawMessage) {
	o, err := c12RunCKObs(in)
	bad := ""
	want := c12CKWant(in)
	created := append([]string{}, o.Created...)
	sort.Strings(created)
	wantCreated := c12CKDistinct(in.Linked)
	sort.Strings(wantCreated)
	switch {
	case err != nil:
		bad = "operation failed: " + err.Error()
	case fmt.Sprint(o.Links) != fmt.Sprint(want):
		bad = "stored links differ"
	case fmt.Sprint(created) != fmt.Sprint(wantCreated):
		bad = "an appended record was not created"
	case int(o.Count) != len(want) || fmt.Sprint(o.Find) != fmt.Sprint(want):
		bad = "Count/Find differ from the links"
	case fmt.Sprint(o.Mem) != fmt.Sprint(want):
		bad = "distinct in-memory records differ from the links"
	}
	if bad != "" {
		if c12CKCollision(in) && listed("F12f-composite-key-string-collision") {
			r.KnownFinding("F12f-composite-key-string-collision", bad+fmt.Sprintf(": links=%v created=%v mem=%v count=%d want links=%v", o.Links, o.Created, o.Mem, o.Count, want))
		} else {
			r.Violate(Violation{Kind: "e2e", Suite: "composite-keys", Input: in, Observed: o, Expected: map[string]interface{}{"links": want, "verdict": bad}})
		}
	}
	if lean != nil && err == nil {
		var m struct {
			Created [][]string `json:"created"`
			Mem     [][]string `json:"mem"`
		}
		_ = json.Unmarshal(lean, &m)
		j := func(ts [][]string) []string {
			out := []string{}
			for _, t := range ts {
				out = append(out, strings.Join(t, "|"))
			}
			return out
		}
		r.CorrCompared++
		a := fmt.Sprintf("created=%v mem=%v", o.Created, o.MemRaw)
		b := fmt.Sprintf("created=%v mem=%v", j(m.Created), j(m.Mem))
		if a != b {
			r.Violate(Violation{Kind: "correspondence", Suite: "composite-keys-model", Input: in, Observed: a, Expected: b, Note: "real upsert dedupe / Delete clean-up vs Lean distinctByKey / keepByKey"})
		}
	}
}

func init() {
	register("C12", func(r *Result, rng *rand.Rand, tier string) {
		defer c12Timed("ck")()
		n := 300
		if tier == "thorough" {
			n = 15000
		} else if tier == "search" {
			n = 2000
		}
		var ins []c12CK
		var ops [][]interface{}
		probe := c12CK{Linked: [][2]string{{"a_b", "c"}, {"a", "b_c"}}, Delete: [][2]string{{"a_b", "c"}}}
		for i := 0; i < n && !expired(); i++ {
			in := c12GenCK(rng, i%5 != 0)
			if i == 0 {
				in = probe // dedicated probe of the listed finding F12f
			}
			ins = append(ins, in)
			ops = append(ops, []interface{}{"assoc.ck", in.Linked, in.Delete})
		}
		outs, err := AskLean(ops)
		if err != nil {
			r.Violate(Violation{Kind: "correspondence", Suite: "composite-keys-model", Note: err.Error()})
			outs = make([]json.RawMessage, len(ins))
		}
		for i, in := range ins {
			r.Case("composite-keys", canon(in), len(in.Linked) >= 2)
			r.H("composite.collision", fmt.Sprint(c12CKCollision(in)))
			r.H("composite.linked/deleted", fmt.Sprintf("%d/%d", len(in.Linked), len(in.Delete)))
			c12CKCase(r, in, outs[i])
		}
	})
	replayers["C12/composite-keys"] = func(r *Result, input json.RawMessage) {
		var in c12CK
		if err := json.Unmarshal(input, &in); err != nil {
			return
		}
		c12CKCase(r, in, nil)
	}
	replayers["C12/composite-keys-model"] = replayers["C12/composite-keys"]
}
