package main

// C13 round 3 -- association GRAPHS.  Until now every in-memory association structure the C13 suites handed to gorm was
// a TREE: no in-memory record was reachable along two paths.  Here the value written is a generated graph of records
// (pointers) with sharing: diamonds, the same record under two relations of one owner, a record that several members
// of one batch point to, cycles that do not / do pass through the operation's own value, the same record twice in one
// slice; over every relation kind (belongs-to, has-one, has-many, many2many, polymorphic has-many with value elements,
// self-referential and to other types), for Create (single / slice), Save (new / existing), Updates (with and without
// FullSaveAssociations), Create with FullSaveAssociations and Association().Append.
//
// Oracle (the property text, per IN-MEMORY RECORD = per pointer): every record reachable from the operation's value
// through association fields fires its documented hook sequence exactly once (root of an update: BeforeSave,
// BeforeUpdate, AfterUpdate, AfterSave; every other record: BeforeSave, BeforeCreate, AfterCreate, AfterSave), nothing
// else fires, all hooks run on ONE transaction, the traversal terminates; each record has exactly one row, values set
// by before-hooks are the values stored, many2many edges have their join rows; with SkipHooks nothing fires; a failing
// hook is returned and everything is rolled back.
// Tie: the recorded hook/statement log (with statement identities = batches) vs Lean `Gorm.VGraph.run`
// (Model/HookVisit.lean: loadOrStoreVisitMap / checkAssociationsSaved / saveAssociations / pipeline order).

import (
	"encoding/json"
	"errors"
	"fmt"
	"math/rand"
	"reflect"
	"sort"
	"strings"
	"sync"

	"gorm.io/gorm"
	"gorm.io/gorm/logger"
)

// ---- models -------------------------------------------------------------------------------------

type HgPlace struct {
	ID       uint `gorm:"primaryKey"`
	Name     string
	Tag      string
	Hits     int
	KeeperID *uint
	Keeper   *HgNode // belongs-to (back into the node graph)
}

type HgNote struct {
	ID        uint `gorm:"primaryKey"`
	Name      string
	Tag       string
	Hits      int
	OwnerID   uint
	OwnerType string
	AuthorID  *uint
	Author    *HgNode // belongs-to
}

type HgNode struct {
	ID       uint `gorm:"primaryKey"`
	Name     string
	Tag      string
	Hits     int
	BossID   *uint
	Boss     *HgNode // belongs-to, self-referential
	MentorID *uint
	Mentor   *HgNode // second belongs-to to the same model
	HomeID   *uint
	Home     *HgPlace // belongs-to another model
	Aide     *HgAide   `gorm:"foreignKey:NodeID"`           // has-one
	LeadID   *uint
	Subs     []*HgNode `gorm:"foreignKey:LeadID"`           // has-many, self-referential, pointer elements
	Notes    []HgNote  `gorm:"polymorphic:Owner"`           // polymorphic has-many, VALUE elements
	Peers    []*HgNode `gorm:"many2many:hg_peers"`          // many2many, self-referential
	Places   []*HgPlace `gorm:"many2many:hg_node_places"`   // many2many to another model
}

// has-one target with a belongs-to back into the node graph
type HgAide struct {
	ID      uint `gorm:"primaryKey"`
	Name    string
	Tag     string
	Hits    int
	NodeID  *uint
	BuddyID *uint
	Buddy   *HgNode // belongs-to
}

func (HgNode) TableName() string  { return "hg_nodes" }
func (HgPlace) TableName() string { return "hg_places" }
func (HgNote) TableName() string  { return "hg_notes" }
func (HgAide) TableName() string  { return "hg_aides" }

var c13gTables = []string{"hg_nodes", "hg_places", "hg_notes", "hg_aides"}

// relation slots per type, in the order gorm saves them: belongs-to first (before the statement), then has-one,
// has-many, many2many (after it); each kind in field order.  Slot numbers are per type; a batch is homogeneous.
const c13gNBefore = 3
const c13gNSlots = 8

type c13gRel struct {
	Name   string
	Slot   int
	Target string // node type of the targets
	Many   bool
}

var c13gRels = map[string][]c13gRel{
	"node": {
		{"Boss", 0, "node", false}, {"Mentor", 1, "node", false}, {"Home", 2, "place", false},
		{"Aide", 3, "aide", false},
		{"Subs", 4, "node", true}, {"Notes", 5, "note", true},
		{"Peers", 6, "node", true}, {"Places", 7, "place", true},
	},
	"place": {{"Keeper", 0, "node", false}},
	"note":  {{"Author", 0, "node", false}},
	"aide":  {{"Buddy", 0, "node", false}},
}

// slot -> identityMap de-duplication at the call site (has-one has none)
var c13gDedupe = []bool{true, true, true, false, true, true, true, true}

func c13gRelOf(t, name string) *c13gRel {
	for i := range c13gRels[t] {
		if c13gRels[t][i].Name == name {
			return &c13gRels[t][i]
		}
	}
	return nil
}

// ---- hook log -----------------------------------------------------------------------------------

type c13gEv struct {
	Hook string `json:"h"` // hook name or "stmt"
	Node int    `json:"n"` // node index (-1: a record that is not part of the graph)
	Stmt int    `json:"s"` // index of the distinct *gorm.Statement (= pipeline run = batch) within the case
	Pool int    `json:"p"`
	IsTx bool   `json:"tx"`
}

var c13g struct {
	mu      sync.Mutex
	log     []c13gEv
	ptrs    map[interface{}]int // pointer -> node index
	stmts   []*gorm.Statement   // kept alive: identities cannot be reused within a case
	pools   []interface{}
	failAt  string // "<Hook>/<node>" ; the first such invocation fails
	failed  bool
	runaway bool
}

var errC13g = errors.New("verif: graph hook failed")

const c13gMaxEvents = 4000

func c13gHook(hook string, self interface{}, tx *gorm.DB) error {
	c13g.mu.Lock()
	defer c13g.mu.Unlock()
	if len(c13g.log) > c13gMaxEvents {
		c13g.runaway = true
		panic("c13g: runaway traversal (more than 4000 hook events)")
	}
	idx, ok := c13g.ptrs[self]
	if !ok {
		idx = -1
	}
	sid := -1
	for i, s := range c13g.stmts {
		if s == tx.Statement {
			sid = i
		}
	}
	if sid < 0 {
		c13g.stmts = append(c13g.stmts, tx.Statement)
		sid = len(c13g.stmts) - 1
	}
	var p interface{} = tx.Statement.ConnPool
	_, isTx := p.(gorm.TxCommitter)
	pid := -1
	for i, q := range c13g.pools {
		if q == p {
			pid = i
		}
	}
	if pid < 0 {
		c13g.pools = append(c13g.pools, p)
		pid = len(c13g.pools) - 1
	}
	c13g.log = append(c13g.log, c13gEv{hook, idx, sid, pid, isTx})
	if hook != "stmt" && !c13g.failed && c13g.failAt == fmt.Sprint(hook, "/", idx) {
		c13g.failed = true
		return errC13g
	}
	return nil
}

func c13gProbe(db *gorm.DB) {
	if db.Error != nil || db.Statement.Schema == nil || db.DryRun {
		return
	}
	ok := false
	for _, t := range c13gTables {
		if db.Statement.Table == t {
			ok = true
		}
	}
	if ok {
		_ = c13gHook("stmt", nil, db)
	}
}

func (h *HgNode) BeforeSave(tx *gorm.DB) error { h.Hits++; return c13gHook("BeforeSave", h, tx) }
func (h *HgNode) BeforeCreate(tx *gorm.DB) error {
	h.Tag = "direct:" + h.Name
	return c13gHook("BeforeCreate", h, tx)
}
func (h *HgNode) AfterCreate(tx *gorm.DB) error  { return c13gHook("AfterCreate", h, tx) }
func (h *HgNode) AfterSave(tx *gorm.DB) error    { return c13gHook("AfterSave", h, tx) }
func (h *HgNode) BeforeUpdate(tx *gorm.DB) error { return c13gHook("BeforeUpdate", h, tx) }
func (h *HgNode) AfterUpdate(tx *gorm.DB) error  { return c13gHook("AfterUpdate", h, tx) }

func (h *HgPlace) BeforeSave(tx *gorm.DB) error { h.Hits++; return c13gHook("BeforeSave", h, tx) }
func (h *HgPlace) BeforeCreate(tx *gorm.DB) error {
	h.Tag = "direct:" + h.Name
	return c13gHook("BeforeCreate", h, tx)
}
func (h *HgPlace) AfterCreate(tx *gorm.DB) error  { return c13gHook("AfterCreate", h, tx) }
func (h *HgPlace) AfterSave(tx *gorm.DB) error    { return c13gHook("AfterSave", h, tx) }
func (h *HgPlace) BeforeUpdate(tx *gorm.DB) error { return c13gHook("BeforeUpdate", h, tx) }
func (h *HgPlace) AfterUpdate(tx *gorm.DB) error  { return c13gHook("AfterUpdate", h, tx) }

func (h *HgNote) BeforeSave(tx *gorm.DB) error { h.Hits++; return c13gHook("BeforeSave", h, tx) }
func (h *HgNote) BeforeCreate(tx *gorm.DB) error {
	h.Tag = "direct:" + h.Name
	return c13gHook("BeforeCreate", h, tx)
}
func (h *HgNote) AfterCreate(tx *gorm.DB) error  { return c13gHook("AfterCreate", h, tx) }
func (h *HgNote) AfterSave(tx *gorm.DB) error    { return c13gHook("AfterSave", h, tx) }
func (h *HgNote) BeforeUpdate(tx *gorm.DB) error { return c13gHook("BeforeUpdate", h, tx) }
func (h *HgNote) AfterUpdate(tx *gorm.DB) error  { return c13gHook("AfterUpdate", h, tx) }

func (h *HgAide) BeforeSave(tx *gorm.DB) error { h.Hits++; return c13gHook("BeforeSave", h, tx) }
func (h *HgAide) BeforeCreate(tx *gorm.DB) error {
	h.Tag = "direct:" + h.Name
	return c13gHook("BeforeCreate", h, tx)
}
func (h *HgAide) AfterCreate(tx *gorm.DB) error  { return c13gHook("AfterCreate", h, tx) }
func (h *HgAide) AfterSave(tx *gorm.DB) error    { return c13gHook("AfterSave", h, tx) }
func (h *HgAide) BeforeUpdate(tx *gorm.DB) error { return c13gHook("BeforeUpdate", h, tx) }
func (h *HgAide) AfterUpdate(tx *gorm.DB) error  { return c13gHook("AfterUpdate", h, tx) }

// ---- case ---------------------------------------------------------------------------------------

type c13gNode struct {
	T   string           `json:"t"`             // node | place | note | aide
	Key int              `json:"key,omitempty"` // 0 = new record (zero primary key); > 0: row pre-inserted with this id
	Rel map[string][]int `json:"rel,omitempty"` // relation name -> target node indexes (field / slice order)
}

type c13gCase struct {
	Family string     `json:"family"`
	Op     string     `json:"op"` // create createslice save updates updates-full create-full append
	Roots  []int      `json:"roots"`
	Nodes  []c13gNode `json:"nodes"`
	// append: Association(AppendRel).Append(values...) on the (existing) root
	AppendRel  string `json:"append_rel,omitempty"`
	AppendVals []int  `json:"append_vals,omitempty"`
	Ctx        string `json:"ctx,omitempty"` // "" | usertx | skipdefault
	Skip       bool   `json:"skip,omitempty"`
	FailAt     string `json:"fail_at,omitempty"` // "<Hook>/<node index>"
}

type c13gObs struct {
	Events  []c13gEv            `json:"events"`
	Err     string              `json:"err"`
	Panic   string              `json:"panic,omitempty"`
	Runaway bool                `json:"runaway,omitempty"`
	IsHook  bool                `json:"err_is_hook_error"`
	Before  map[string][]string `json:"-"`
	After   map[string][]string `json:"after"`
	IDs     []uint              `json:"ids"` // primary key of every node after the operation
}

func c13gName(i int) string { return fmt.Sprint("g", i) }

// c13gBuild allocates the in-memory records and wires the association fields.  Note records live INSIDE their
// owner's Notes slice (value elements): their identity is the address of the slice element.
func c13gBuild(c c13gCase) (objs []interface{}, ok bool) {
	objs = make([]interface{}, len(c.Nodes))
	for i, n := range c.Nodes {
		switch n.T {
		case "node":
			objs[i] = &HgNode{ID: uint(n.Key), Name: c13gName(i)}
		case "place":
			objs[i] = &HgPlace{ID: uint(n.Key), Name: c13gName(i)}
		case "aide":
			objs[i] = &HgAide{ID: uint(n.Key), Name: c13gName(i)}
		case "note": // placed below
		default:
			return nil, false
		}
	}
	// notes first: the slice element is the record
	for i, n := range c.Nodes {
		if n.T != "node" {
			continue
		}
		if ts := n.Rel["Notes"]; len(ts) > 0 {
			o := objs[i].(*HgNode)
			o.Notes = make([]HgNote, len(ts))
			for k, t := range ts {
				if t < 0 || t >= len(c.Nodes) || c.Nodes[t].T != "note" || objs[t] != nil {
					return nil, false
				}
				o.Notes[k] = HgNote{ID: uint(c.Nodes[t].Key), Name: c13gName(t)}
				objs[t] = &o.Notes[k]
			}
		}
	}
	for i := range objs {
		if objs[i] == nil {
			return nil, false // a note without owner
		}
	}
	for i, n := range c.Nodes {
		for name, ts := range n.Rel {
			rel := c13gRelOf(n.T, name)
			if rel == nil || (!rel.Many && len(ts) > 1) {
				return nil, false
			}
			for _, t := range ts {
				if t < 0 || t >= len(c.Nodes) || c.Nodes[t].T != rel.Target {
					return nil, false
				}
			}
			if len(ts) == 0 || name == "Notes" {
				continue
			}
			switch o := objs[i].(type) {
			case *HgNode:
				switch name {
				case "Boss":
					o.Boss = objs[ts[0]].(*HgNode)
				case "Mentor":
					o.Mentor = objs[ts[0]].(*HgNode)
				case "Home":
					o.Home = objs[ts[0]].(*HgPlace)
				case "Aide":
					o.Aide = objs[ts[0]].(*HgAide)
				case "Subs":
					for _, t := range ts {
						o.Subs = append(o.Subs, objs[t].(*HgNode))
					}
				case "Peers":
					for _, t := range ts {
						o.Peers = append(o.Peers, objs[t].(*HgNode))
					}
				case "Places":
					for _, t := range ts {
						o.Places = append(o.Places, objs[t].(*HgPlace))
					}
				}
			case *HgPlace:
				o.Keeper = objs[ts[0]].(*HgNode)
			case *HgNote:
				o.Author = objs[ts[0]].(*HgNode)
			case *HgAide:
				o.Buddy = objs[ts[0]].(*HgNode)
			}
		}
	}
	return objs, true
}

func c13gOpen(ctx string) (*gorm.DB, *Recorder) {
	cfg := &gorm.Config{Logger: logger.Discard, NowFunc: fixedNowFunc}
	if ctx == "skipdefault" {
		cfg.SkipDefaultTransaction = true
	}
	db, rec, _ := OpenRec(cfg)
	if err := db.AutoMigrate(&HgPlace{}, &HgNote{}, &HgAide{}, &HgNode{}); err != nil {
		panic(err)
	}
	db.Callback().Create().After("gorm:create").Before("gorm:save_after_associations").Register("verif:c13g_stmt_c", c13gProbe)
	db.Callback().Update().After("gorm:update").Before("gorm:save_after_associations").Register("verif:c13g_stmt_u", c13gProbe)
	return db, rec
}

func c13gDump(db *gorm.DB, rec *Recorder) map[string][]string {
	rec.mu.Lock()
	off := rec.Off
	rec.Off = true
	rec.mu.Unlock()
	defer func() { rec.mu.Lock(); rec.Off = off; rec.mu.Unlock() }()
	out := map[string][]string{}
	raw := db.Session(&gorm.Session{NewDB: true, SkipHooks: true})
	q := map[string]string{
		"hg_nodes":       "SELECT id, name, tag, hits, ifnull(boss_id,0), ifnull(mentor_id,0), ifnull(home_id,0), ifnull(lead_id,0) FROM hg_nodes ORDER BY id",
		"hg_places":      "SELECT id, name, tag, hits, ifnull(keeper_id,0), 0, 0, 0 FROM hg_places ORDER BY id",
		"hg_notes":       "SELECT id, name, tag, hits, ifnull(author_id,0), owner_id, 0, 0 FROM hg_notes ORDER BY id",
		"hg_aides":       "SELECT id, name, tag, hits, ifnull(buddy_id,0), ifnull(node_id,0), 0, 0 FROM hg_aides ORDER BY id",
		"hg_peers":       "SELECT 0, '', '', 0, hg_node_id, peer_id, 0, 0 FROM hg_peers ORDER BY 5, 6",
		"hg_node_places": "SELECT 0, '', '', 0, hg_node_id, hg_place_id, 0, 0 FROM hg_node_places ORDER BY 5, 6",
	}
	for t, sql := range q {
		rows, err := raw.Raw(sql).Rows()
		if err != nil {
			out[t] = []string{"ERR " + err.Error()}
			continue
		}
		list := []string{}
		for rows.Next() {
			var id, hits, a, b, c, d int
			var name, tag string
			_ = rows.Scan(&id, &name, &tag, &hits, &a, &b, &c, &d)
			list = append(list, fmt.Sprintf("%d|%s|%s|%d|%d|%d|%d|%d", id, name, tag, hits, a, b, c, d))
		}
		rows.Close()
		out[t] = list
	}
	return out
}

func c13gIDOf(o interface{}) uint {
	switch v := o.(type) {
	case *HgNode:
		return v.ID
	case *HgPlace:
		return v.ID
	case *HgNote:
		return v.ID
	case *HgAide:
		return v.ID
	}
	return 0
}

var c13gTableOf = map[string]string{"node": "hg_nodes", "place": "hg_places", "note": "hg_notes", "aide": "hg_aides"}

// c13gRun executes one case on a fresh database.
func c13gRun(c c13gCase) (obs c13gObs, valid bool) {
	objs, ok := c13gBuild(c)
	if !ok || len(c.Roots) == 0 {
		return obs, false
	}
	for _, r := range c.Roots {
		if r < 0 || r >= len(c.Nodes) || c.Nodes[r].T != "node" {
			return obs, false
		}
	}
	db, rec := c13gOpen(c.Ctx)
	defer func() {
		if sqlDB, err := db.DB(); err == nil {
			sqlDB.Close()
		}
	}()
	// pre-existing rows (plain, no relations), written without hooks
	raw := db.Session(&gorm.Session{NewDB: true, SkipHooks: true})
	for i, n := range c.Nodes {
		if n.Key > 0 {
			if err := raw.Exec("INSERT INTO "+c13gTableOf[n.T]+" (id, name, tag, hits) VALUES (?, ?, 'old', 0)", n.Key, c13gName(i)).Error; err != nil {
				return obs, false
			}
		}
	}
	obs.Before = c13gDump(db, rec)
	c13g.mu.Lock()
	c13g.log, c13g.stmts, c13g.pools = nil, nil, nil
	c13g.ptrs = map[interface{}]int{}
	for i, o := range objs {
		c13g.ptrs[o] = i
	}
	c13g.failAt, c13g.failed, c13g.runaway = c.FailAt, false, false
	c13g.mu.Unlock()

	exec := func(h *gorm.DB) (err error) {
		if c.Skip {
			h = h.Session(&gorm.Session{SkipHooks: true})
		}
		root := objs[c.Roots[0]].(*HgNode)
		switch c.Op {
		case "create":
			return h.Create(root).Error
		case "create-full":
			return h.Session(&gorm.Session{FullSaveAssociations: true}).Create(root).Error
		case "createslice":
			roots := make([]*HgNode, len(c.Roots))
			for i, r := range c.Roots {
				roots[i] = objs[r].(*HgNode)
			}
			return h.Create(&roots).Error
		case "save":
			return h.Save(root).Error
		case "updates":
			return h.Updates(root).Error
		case "updates-full":
			return h.Session(&gorm.Session{FullSaveAssociations: true}).Updates(root).Error
		case "append":
			vals := make([]interface{}, len(c.AppendVals))
			for i, v := range c.AppendVals {
				vals[i] = objs[v]
			}
			return h.Model(root).Association(c.AppendRel).Append(vals...)
		}
		return errors.New("bad op")
	}
	var err error
	func() {
		defer func() {
			if p := recover(); p != nil {
				obs.Panic = fmt.Sprint(p)
			}
		}()
		if c.Ctx == "usertx" {
			err = db.Transaction(func(tx *gorm.DB) error { return exec(tx) })
		} else {
			err = exec(db)
		}
	}()
	c13g.mu.Lock()
	obs.Events = append([]c13gEv(nil), c13g.log...)
	obs.Runaway = c13g.runaway
	c13g.failAt = ""
	c13g.ptrs = nil
	c13g.mu.Unlock()
	if err != nil {
		obs.Err = err.Error()
		obs.IsHook = errors.Is(err, errC13g)
	}
	obs.After = c13gDump(db, rec)
	for _, o := range objs {
		obs.IDs = append(obs.IDs, c13gIDOf(o))
	}
	return obs, true
}

// ---- which repairs does the tree under check carry? ---------------------------------------------------

// c13gFix mirrors Gorm.genVisitFix (regenerated facts Gen.visitFilter / visitRoot / visitDistinct, asked from the Lean
// driver): F27 element-wise guard in saveAssociations, F28 the statement's own value registered when the visit map
// is created, F29 distinctPointers before the nested Create.  Used (a) to classify surplus hook firings by the
// pattern that explains them ON THIS TREE (with F28 repaired the operation's own value counts as registered, so a
// record list holding it next to a new record is the F27 pattern), (b) to widen the generator once a pattern is
// ordinary input space.  The VERDICT never depends on it: a surplus firing is accepted only for an id that is listed.
var c13gFix struct{ Filter, Root, Distinct bool }

func c13gLoadFix(r *Result) {
	c13gFix.Filter, c13gFix.Root, c13gFix.Distinct = false, false, false
	outs, err := AskLean([][]interface{}{{"hooks.visitfix"}})
	if err != nil || len(outs) != 1 {
		if r != nil {
			r.Note("graphs: repair flags not available from the Lean driver (%v): assuming the unrepaired code", err)
		}
		return
	}
	var m struct {
		Filter   bool `json:"filter"`
		Root     bool `json:"root"`
		Distinct bool `json:"distinct"`
	}
	if json.Unmarshal(outs[0], &m) == nil {
		c13gFix.Filter, c13gFix.Root, c13gFix.Distinct = m.Filter, m.Root, m.Distinct
	}
}

// ---- the property, judged per in-memory record ---------------------------------------------------

var c13gCreateSeq = []string{"BeforeSave", "BeforeCreate", "AfterCreate", "AfterSave"}
var c13gUpdateSeq = []string{"BeforeSave", "BeforeUpdate", "AfterUpdate", "AfterSave"}

func c13gIsRoot(c c13gCase, n int) bool {
	for _, r := range c.Roots {
		if r == n {
			return true
		}
	}
	return false
}

// the relation edges the operation saves, as adjacency per node and slot (what gorm walks)
func c13gAdj(c c13gCase) [][][]int {
	adj := make([][][]int, len(c.Nodes))
	for i, n := range c.Nodes {
		adj[i] = make([][]int, c13gNSlots)
		for s := range adj[i] {
			adj[i][s] = []int{}
		}
		if c.Op == "append" {
			// Association().Append saves the owner with Select(<relation>): only that relation of the root, and the
			// nested Create omits all associations
			if i == c.Roots[0] {
				rel := c13gRelOf(n.T, c.AppendRel)
				adj[i][rel.Slot] = append(append([]int{}, n.Rel[c.AppendRel]...), c.AppendVals...)
			}
			continue
		}
		for name, ts := range n.Rel {
			adj[i][c13gRelOf(n.T, name).Slot] = append([]int{}, ts...)
		}
	}
	return adj
}

func c13gReachable(c c13gCase) map[int]bool {
	adj := c13gAdj(c)
	seen := map[int]bool{}
	stack := append([]int{}, c.Roots...)
	for len(stack) > 0 {
		n := stack[len(stack)-1]
		stack = stack[:len(stack)-1]
		if seen[n] {
			continue
		}
		seen[n] = true
		for _, ts := range adj[n] {
			stack = append(stack, ts...)
		}
	}
	return seen
}

func c13gExpectedSeq(c c13gCase, n int) []string {
	if c13gIsRoot(c, n) {
		switch c.Op {
		case "updates", "updates-full", "append":
			return c13gUpdateSeq
		case "save":
			if c.Nodes[n].Key > 0 {
				return c13gUpdateSeq
			}
		}
	}
	return c13gCreateSeq
}

// c13gExtraKnown classifies the surplus hook firings of node p by the three listed defects.
// batches: per statement identity the nodes whose BeforeSave fired under it, in order, with multiplicity.
// "registered" = in the visit map when the statement's record list was guarded: saved by an earlier statement, or --
// tree with the F28 repair -- a record of the operation's own value.
//   F27 mixed batch: p, registered, is re-saved by a nested Create whose record list also holds an unregistered
//       record (loadOrStoreVisitMap answers "all saved?" for the whole slice);
//   F28 root re-saved: p belongs to the operation's own value and the tree never registers it;
//   F29 new record twice: p has no primary key yet and occurs twice in ONE collected record list.
// Returns the finding ids that explain ALL surplus firings of p, or ok=false.
func c13gExtraKnown(c c13gCase, evs []c13gEv, p int) (ids []string, ok bool) {
	var order []int
	members := map[int][]int{}
	for _, e := range evs {
		if e.Hook == "BeforeSave" {
			if _, seen := members[e.Stmt]; !seen {
				order = append(order, e.Stmt)
			}
			members[e.Stmt] = append(members[e.Stmt], e.Node)
		}
	}
	first := map[int]int{} // node -> first statement that saved it
	for _, s := range order {
		for _, n := range members[s] {
			if _, seen := first[n]; !seen {
				first[n] = s
			}
		}
	}
	rootStmt := -1
	if len(order) > 0 {
		rootStmt = order[0]
	}
	// was q registered when the record list of statement s was guarded?
	registered := func(q, s int) bool {
		if c13gIsRoot(c, q) {
			return c13gFix.Root || (first[q] != s && first[q] != rootStmt) // a root's first save is the operation itself
		}
		return first[q] != s
	}
	idset := map[string]bool{}
	for _, s := range order {
		mult := 0
		for _, n := range members[s] {
			if n == p {
				mult++
			}
		}
		if mult == 0 || (s == rootStmt && c13gIsRoot(c, p) && mult == 1) {
			continue
		}
		if mult >= 2 {
			if c.Nodes[p].Key != 0 {
				return nil, false // a record WITH a primary key must have been filtered by identityMap
			}
			idset["F29-C13-new-record-twice-in-batch"] = true
		}
		if first[p] == s && !c13gIsRoot(c, p) {
			continue // its one legitimate save (multiplicity handled above)
		}
		// a re-save of p by statement s
		switch {
		case c13gIsRoot(c, p) && !c13gFix.Root:
			idset["F28-C13-root-resaved-by-backpointer"] = true
		default:
			// p was registered: the record list must hold an unregistered record too
			mixed := false
			for _, q := range members[s] {
				if q != p && !registered(q, s) {
					mixed = true
					if c13gIsRoot(c, q) {
						idset["F28-C13-root-resaved-by-backpointer"] = true
					}
				}
			}
			if !mixed {
				return nil, false
			}
			idset["F27-C13-mixed-association-batch"] = true
		}
	}
	for id := range idset {
		ids = append(ids, id)
	}
	sort.Strings(ids)
	return ids, len(ids) > 0
}

type c13gVerdict struct {
	Violation string
	Known     []string
}

func c13gOracle(c c13gCase, obs c13gObs) (v c13gVerdict) {
	if obs.Runaway || obs.Panic != "" {
		v.Violation = "the association traversal did not terminate normally: " + obs.Panic
		return
	}
	hooks := map[int][]string{}
	for _, e := range obs.Events {
		if e.Hook != "stmt" {
			hooks[e.Node] = append(hooks[e.Node], e.Hook)
		}
	}
	if c.Skip {
		if len(hooks) > 0 {
			v.Violation = "hooks fired although the session has SkipHooks"
		}
		return
	}
	if c.FailAt != "" {
		if obs.Err == "" || !obs.IsHook {
			v.Violation = "hook error not returned: " + obs.Err
		} else if c.Ctx == "" && !reflect.DeepEqual(obs.Before, obs.After) {
			v.Violation = "database changed although a hook failed"
		}
		return
	}
	reach := c13gReachable(c)
	known := map[string]bool{}
	if obs.Err != "" {
		// F28 also surfaces as the constraint error of a second INSERT of a record of the operation's own value
		// (a root that another root points to is created by the nested Create first)
		resaved := false
		bs := map[int]int{}
		for _, e := range obs.Events {
			if e.Hook == "BeforeSave" {
				bs[e.Node]++
			}
		}
		for _, rt := range c.Roots {
			if bs[rt] >= 2 {
				resaved = true
			}
		}
		// (tree with the F28 repair, F27 unrepaired: the root is registered, and it is the whole-list guard that lets
		// a list holding it next to a new record through -- the F27 pattern)
		id := "F28-C13-root-resaved-by-backpointer"
		if c13gFix.Root {
			id = "F27-C13-mixed-association-batch"
		}
		if resaved && listed(id) && strings.Contains(obs.Err, "UNIQUE constraint failed") {
			v.Known = []string{id}
		} else {
			v.Violation = "unexpected error: " + obs.Err
		}
		return
	}
	dirty := map[int]bool{}
	for n := range c.Nodes {
		want := c13gExpectedSeq(c, n)
		got := hooks[n]
		if !reach[n] {
			if len(got) > 0 {
				v.Violation = fmt.Sprintf("record %d is not part of the operation's value, yet hooks %v fired on it", n, got)
				return
			}
			continue
		}
		if reflect.DeepEqual(got, want) {
			continue
		}
		// more firings than documented: accept only the listed defects, and only if nothing is MISSING
		cnt := map[string]int{}
		for _, h := range got {
			cnt[h]++
		}
		for _, h := range want {
			if cnt[h] < 1 {
				v.Violation = fmt.Sprintf("record %d: hook %s did not fire (saw %v, documented %v)", n, h, got, want)
				return
			}
		}
		ids, ok := c13gExtraKnown(c, obs.Events, n)
		if !ok {
			v.Violation = fmt.Sprintf("record %d: hooks fired %v, documented: exactly once %v", n, got, want)
			return
		}
		for _, id := range ids {
			if !listed(id) {
				v.Violation = fmt.Sprintf("record %d: hooks fired %v, documented: exactly once %v (%s)", n, got, want, id)
				return
			}
			known[id] = true
		}
		dirty[n] = true
	}
	if h := hooks[-1]; len(h) > 0 {
		v.Violation = fmt.Sprintf("hooks %v fired on a record that is not one of the in-memory records of the value", h)
		return
	}
	for id := range known {
		v.Known = append(v.Known, id)
	}
	sort.Strings(v.Known)
	// one transaction for all hooks of the operation
	if c.Ctx != "skipdefault" {
		pools := map[int]bool{}
		for _, e := range obs.Events {
			pools[e.Pool] = true
			if !e.IsTx {
				v.Violation = "a hook / statement ran outside a transaction"
				return
			}
		}
		if len(pools) > 1 {
			v.Violation = fmt.Sprintf("hooks of one operation ran on %d different transactions", len(pools))
			return
		}
	}
	if len(v.Known) > 0 {
		return // duplicate INSERTs: table contents are part of the listed defects
	}
	// table contents: exactly one row per reachable record; before-hook values stored
	rows := map[string]int{}
	vals := map[string]string{}
	for _, t := range c13gTables {
		for _, r := range obs.After[t] {
			p := strings.Split(r, "|")
			rows[t+"/"+p[1]]++
			vals[t+"/"+p[1]] = r
		}
	}
	for n := range c.Nodes {
		k := c13gTableOf[c.Nodes[n].T] + "/" + c13gName(n)
		if !reach[n] {
			continue
		}
		if rows[k] != 1 {
			v.Violation = fmt.Sprintf("record %d has %d rows in %s", n, rows[k], c13gTableOf[c.Nodes[n].T])
			return
		}
		p := strings.Split(vals[k], "|")
		if fmt.Sprint(obs.IDs[n]) != p[0] {
			v.Violation = fmt.Sprintf("record %d: in-memory primary key %d, row %s", n, obs.IDs[n], vals[k])
			return
		}
		if c.Nodes[n].Key == 0 && (p[2] != "direct:"+c13gName(n) || p[3] != "1") {
			v.Violation = fmt.Sprintf("record %d: values set by BeforeSave/BeforeCreate are not the values stored: %s", n, vals[k])
			return
		}
	}
	// many2many edges have their join rows.  Latitude: a record that points (many2many) to a record whose own INSERT
	// is still pending (an ancestor, or a member of a batch that is still saving its belongs-to records) is saved
	// while that record has no primary key yet; gorm then writes 0 into the join row -- not a matter of this property.
	adj := c13gAdj(c)
	for _, jt := range []struct {
		slot  int
		table string
	}{{6, "hg_peers"}, {7, "hg_node_places"}} {
		want := map[string]bool{}
		for n := range c.Nodes {
			if reach[n] && c.Nodes[n].T == "node" {
				for _, t := range adj[n][jt.slot] {
					want[fmt.Sprintf("%d|%d", obs.IDs[n], obs.IDs[t])] = true
				}
			}
		}
		got := map[string]bool{}
		for _, r := range obs.After[jt.table] {
			p := strings.Split(r, "|")
			got[p[4]+"|"+p[5]] = true
		}
		bad := false
		for k := range want {
			if !got[k] && !got[strings.Split(k, "|")[0]+"|0"] {
				bad = true
			}
		}
		for k := range got {
			if !want[k] && !strings.HasSuffix(k, "|0") {
				bad = true
			}
		}
		if bad {
			v.Violation = fmt.Sprintf("join rows of %s: %v, in-memory edges %v", jt.table, got, want)
			return
		}
	}
	return
}

// ---- tie: recorded log vs Lean Gorm.VGraph.run -----------------------------------------------------

// canonical form of the recorded log: ["b",n] = BeforeSave+Before{Create,Update} of record n, ["s",[batch]] = the
// statement of the pipeline run whose before-hooks fired for `batch`, ["a",n] = After{Create,Update}+AfterSave.
func c13gCanonLog(evs []c13gEv) ([][]interface{}, bool) {
	members := map[int][]int{}
	for _, e := range evs {
		if e.Hook == "BeforeSave" {
			members[e.Stmt] = append(members[e.Stmt], e.Node)
		}
	}
	out := [][]interface{}{}
	for i := 0; i < len(evs); i++ {
		e := evs[i]
		switch e.Hook {
		case "stmt":
			m := members[e.Stmt]
			if m == nil {
				m = []int{}
			}
			out = append(out, []interface{}{"s", m})
		case "BeforeSave":
			if i+1 >= len(evs) || evs[i+1].Node != e.Node || evs[i+1].Stmt != e.Stmt || (evs[i+1].Hook != "BeforeCreate" && evs[i+1].Hook != "BeforeUpdate") {
				return out, false
			}
			out = append(out, []interface{}{"b", e.Node})
			i++
		case "AfterCreate", "AfterUpdate":
			if i+1 >= len(evs) || evs[i+1].Node != e.Node || evs[i+1].Stmt != e.Stmt || evs[i+1].Hook != "AfterSave" {
				return out, false
			}
			out = append(out, []interface{}{"a", e.Node})
			i++
		default:
			return out, false
		}
	}
	return out, true
}

func c13gLeanOp(c c13gCase) []interface{} {
	existing := []int{}
	for i, n := range c.Nodes {
		if n.Key > 0 {
			existing = append(existing, i)
		}
	}
	return []interface{}{"hooks.visit", len(c.Nodes), c13gNBefore, c13gNSlots, c13gAdj(c), c13gDedupe, c.Roots, existing}
}

// ---- generator -----------------------------------------------------------------------------------

func c13gAddEdge(c *c13gCase, u int, name string, v int) bool {
	rel := c13gRelOf(c.Nodes[u].T, name)
	if rel == nil || c.Nodes[v].T != rel.Target {
		return false
	}
	if c.Nodes[u].Rel == nil {
		c.Nodes[u].Rel = map[string][]int{}
	}
	if !rel.Many && len(c.Nodes[u].Rel[name]) > 0 {
		return false
	}
	c.Nodes[u].Rel[name] = append(c.Nodes[u].Rel[name], v)
	return true
}

// in-degree restrictions that keep the data meaningful: a note lives in exactly one owner's slice, an aide has one owner
func c13gExclusive(t string) bool { return t == "note" || t == "aide" }

// Association(rel).Append(values...) on an existing owner whose in-memory field already holds some records
func c13gGenAppend(rng *rand.Rand) c13gCase {
	rels := []string{"Peers", "Subs", "Places"}
	rel := rels[rng.Intn(len(rels))]
	tt := "node"
	if rel == "Places" {
		tt = "place"
	}
	c := c13gCase{Family: "append", Op: "append", Roots: []int{0}, AppendRel: rel}
	c.Nodes = []c13gNode{{T: "node", Key: 100}}
	held, added := rng.Intn(3), 1+rng.Intn(3)
	for i := 0; i < held+added; i++ {
		n := c13gNode{T: tt}
		if rng.Intn(2) == 0 {
			n.Key = 200 + i
		}
		c.Nodes = append(c.Nodes, n)
		if i < held {
			c13gAddEdge(&c, 0, rel, 1+i)
		} else {
			c.AppendVals = append(c.AppendVals, 1+i)
		}
	}
	switch rng.Intn(5) {
	case 0: // a record that is already a member is appended again
		if held > 0 {
			c.AppendVals = append(c.AppendVals, 1)
			c.Family = "append-member"
		}
	case 1: // the same value twice
		c.AppendVals = append(c.AppendVals, c.AppendVals[0])
		c.Family = "append-twice"
	case 2: // the appended records have associations of their own (not saved: Select(<relation>) restricts)
		if tt == "node" {
			c13gAddEdge(&c, c.AppendVals[0], "Peers", c.AppendVals[len(c.AppendVals)-1])
			c.Family = "append-deep"
		}
	}
	if rng.Intn(4) == 0 {
		c.Ctx = "usertx"
	}
	return c
}

func c13gGen(rng *rand.Rand, maxN int) c13gCase {
	if rng.Intn(12) == 0 {
		return c13gGenAppend(rng)
	}
	c := c13gCase{}
	ops := []string{"create", "create", "createslice", "save", "save", "updates", "updates-full", "create-full"}
	c.Op = ops[rng.Intn(len(ops))]
	n := 2 + rng.Intn(maxN-1)
	types := []string{"node", "node", "node", "node", "place", "note", "aide"}
	c.Nodes = make([]c13gNode, n)
	c.Nodes[0].T = "node"
	nroots := 1
	if c.Op == "createslice" {
		nroots = 1 + rng.Intn(3)
		if nroots > n {
			nroots = n
		}
	}
	for i := 0; i < n; i++ {
		if i < nroots {
			c.Nodes[i].T = "node"
			c.Roots = append(c.Roots, i)
		} else {
			c.Nodes[i].T = types[rng.Intn(len(types))]
		}
	}
	existing := c.Op == "updates" || c.Op == "updates-full" || (c.Op == "save" && rng.Intn(2) == 0)
	if existing {
		c.Nodes[0].Key = 100
	}
	for i := nroots; i < n; i++ {
		if rng.Intn(4) == 0 {
			c.Nodes[i].Key = 100 + i // an existing row re-attached
		}
	}
	relNames := func(t, target string) []string {
		var out []string
		for _, r := range c13gRels[t] {
			if r.Target == target {
				out = append(out, r.Name)
			}
		}
		return out
	}
	// spanning structure: every non-root record hangs below an earlier one
	for i := nroots; i < n; i++ {
		placed := false
		for try := 0; try < 20 && !placed; try++ {
			u := rng.Intn(i)
			names := relNames(c.Nodes[u].T, c.Nodes[i].T)
			if len(names) == 0 {
				continue
			}
			placed = c13gAddEdge(&c, u, names[rng.Intn(len(names))], i)
		}
		if !placed { // fall back to a kind every node can hold many of
			c.Nodes[i].T = "node"
			c.Nodes[i].Key = 0
			c13gAddEdge(&c, rng.Intn(nroots), "Peers", i)
		}
	}
	// sharing: extra edges between arbitrary records
	family := "tree"
	extra := rng.Intn(4)
	// allow back-pointers to the root(s), repeated elements: 30 % while these are listed defect patterns (exploration
	// must continue beyond them), 60 % once the tree carries the repairs (then they are ordinary input space)
	wildP := 3
	if c13gFix.Root && (c13gFix.Filter || c13gFix.Distinct) {
		wildP = 6
	}
	wild := rng.Intn(10) < wildP
	for k := 0; k < extra; k++ {
		for try := 0; try < 20; try++ {
			u, v := rng.Intn(n), rng.Intn(n)
			if c13gExclusive(c.Nodes[v].T) {
				continue
			}
			if v < nroots && !wild {
				continue
			}
			names := relNames(c.Nodes[u].T, c.Nodes[v].T)
			if len(names) == 0 {
				continue
			}
			name := names[rng.Intn(len(names))]
			if !wild {
				dup := false
				for _, t := range c.Nodes[u].Rel[name] {
					if t == v {
						dup = true
					}
				}
				if dup {
					continue
				}
			}
			if c13gAddEdge(&c, u, name, v) {
				family = "shared"
				if wild {
					family = "wild"
				}
				break
			}
		}
	}
	c.Family = family
	switch rng.Intn(6) {
	case 0:
		c.Ctx = "usertx"
	case 1:
		c.Ctx = "skipdefault"
	}
	return c
}

// templates: the classic shapes, over every pair of relations
func c13gTemplates() []c13gCase {
	var out []c13gCase
	nodeRels := []string{"Boss", "Mentor", "Subs", "Peers"}
	mk := func(n int) []c13gNode {
		ns := make([]c13gNode, n)
		for i := range ns {
			ns[i].T = "node"
		}
		return ns
	}
	for _, op := range []string{"create", "save", "updates-full", "updates", "create-full", "createslice"} {
		key := 0
		if op == "updates" || op == "updates-full" {
			key = 100
		}
		for _, r1 := range nodeRels {
			for _, r2 := range nodeRels {
				// diamond: root -r1-> b, root -r1/r2-> c, b -r2-> c
				c := c13gCase{Family: "diamond", Op: op, Roots: []int{0}, Nodes: mk(3)}
				c.Nodes[0].Key = key
				c13gAddEdge(&c, 0, r1, 1)
				if !c13gAddEdge(&c, 0, r1, 2) {
					if !c13gAddEdge(&c, 0, r2, 2) {
						c13gAddEdge(&c, 0, "Peers", 2)
					}
				}
				c13gAddEdge(&c, 1, r2, 2)
				out = append(out, c)
				// same record under two relations of one owner
				if r1 != r2 {
					c2 := c13gCase{Family: "tworel", Op: op, Roots: []int{0}, Nodes: mk(2)}
					c2.Nodes[0].Key = key
					c13gAddEdge(&c2, 0, r1, 1)
					c13gAddEdge(&c2, 0, r2, 1)
					out = append(out, c2)
				}
				// cycle below the root: root -r1-> a -r2-> b -r1-> a
				c3 := c13gCase{Family: "cycle", Op: op, Roots: []int{0}, Nodes: mk(3)}
				c3.Nodes[0].Key = key
				c13gAddEdge(&c3, 0, r1, 1)
				c13gAddEdge(&c3, 1, r2, 2)
				c13gAddEdge(&c3, 2, r1, 1)
				out = append(out, c3)
			}
		}
		// diamonds through the other models: root -> place <- sub ; note.Author / aide.Buddy / place.Keeper -> a sibling
		c4 := c13gCase{Family: "diamond-x", Op: op, Roots: []int{0}, Nodes: []c13gNode{{T: "node", Key: key}, {T: "node"}, {T: "place"}, {T: "note"}, {T: "aide"}}}
		c13gAddEdge(&c4, 0, "Boss", 1)
		c13gAddEdge(&c4, 0, "Home", 2)
		c13gAddEdge(&c4, 1, "Home", 2)
		c13gAddEdge(&c4, 0, "Notes", 3)
		c13gAddEdge(&c4, 3, "Author", 1)
		c13gAddEdge(&c4, 0, "Aide", 4)
		c13gAddEdge(&c4, 4, "Buddy", 1)
		c13gAddEdge(&c4, 2, "Keeper", 1)
		c13gAddEdge(&c4, 0, "Places", 2)
		out = append(out, c4)
	}
	// records WITH a primary key repeated inside one collected record list: the identityMap filter must keep one
	for _, op := range []string{"create", "save", "updates-full", "create-full"} {
		key := 0
		if op == "updates-full" {
			key = 100
		}
		for _, rel := range []string{"Peers", "Subs", "Places"} {
			tt := "node"
			if rel == "Places" {
				tt = "place"
			}
			c := c13gCase{Family: "dup-existing", Op: op, Roots: []int{0}, Nodes: []c13gNode{{T: "node", Key: key}, {T: tt, Key: 7}, {T: tt}}}
			c13gAddEdge(&c, 0, rel, 1)
			c13gAddEdge(&c, 0, rel, 2)
			c13gAddEdge(&c, 0, rel, 1)
			out = append(out, c)
		}
		// two members of a nested batch share an existing belongs-to record
		for _, bt := range []string{"Boss", "Mentor"} {
			c := c13gCase{Family: "batch-shared-existing", Op: op, Roots: []int{0}, Nodes: []c13gNode{{T: "node", Key: key}, {T: "node"}, {T: "node"}, {T: "node", Key: 9}}}
			c13gAddEdge(&c, 0, "Subs", 1)
			c13gAddEdge(&c, 0, "Subs", 2)
			c13gAddEdge(&c, 1, bt, 3)
			c13gAddEdge(&c, 2, bt, 3)
			out = append(out, c)
		}
		c := c13gCase{Family: "batch-shared-existing", Op: op, Roots: []int{0}, Nodes: []c13gNode{{T: "node", Key: key}, {T: "node"}, {T: "node"}, {T: "place", Key: 9}}}
		c13gAddEdge(&c, 0, "Peers", 1)
		c13gAddEdge(&c, 0, "Peers", 2)
		c13gAddEdge(&c, 1, "Home", 3)
		c13gAddEdge(&c, 2, "Home", 3)
		c13gAddEdge(&c, 1, "Places", 3)
		out = append(out, c)
	}
	for _, bt := range []string{"Boss", "Mentor", "Home"} {
		tt := "node"
		if bt == "Home" {
			tt = "place"
		}
		c := c13gCase{Family: "batch-shared-existing", Op: "createslice", Roots: []int{0, 1, 2}, Nodes: []c13gNode{{T: "node"}, {T: "node"}, {T: "node"}, {T: tt, Key: 9}, {T: tt}}}
		c13gAddEdge(&c, 0, bt, 3)
		c13gAddEdge(&c, 1, bt, 4)
		c13gAddEdge(&c, 2, bt, 3)
		out = append(out, c)
	}
	// Association().Append
	for _, rel := range []string{"Peers", "Subs"} {
		c := c13gCase{Family: "append", Op: "append", Roots: []int{0}, Nodes: mk(4), AppendRel: rel, AppendVals: []int{2, 3}}
		c.Nodes[0].Key = 100
		c.Nodes[1].Key = 101
		c13gAddEdge(&c, 0, rel, 1)
		c13gAddEdge(&c, 2, "Peers", 3) // not saved: the nested Create omits associations
		out = append(out, c)
		c2 := c13gCase{Family: "append", Op: "append", Roots: []int{0}, Nodes: mk(3), AppendRel: rel, AppendVals: []int{1, 2}}
		c2.Nodes[0].Key = 100
		c2.Nodes[1].Key = 101
		c13gAddEdge(&c2, 0, rel, 1) // appended again although already a member (has a key: filtered)
		out = append(out, c2)
	}
	pl := c13gCase{Family: "append", Op: "append", Roots: []int{0}, Nodes: []c13gNode{{T: "node", Key: 100}, {T: "place"}, {T: "place", Key: 7}}, AppendRel: "Places", AppendVals: []int{1, 2}}
	out = append(out, pl)
	return out
}

// the three listed defects of the unchanged tree, as minimal witnesses (re-confirmed on every run)
func c13gFindingWitnesses() map[string]c13gCase {
	mixed := c13gCase{Family: "finding", Op: "create", Roots: []int{0}, Nodes: []c13gNode{{T: "node"}, {T: "node"}, {T: "node"}, {T: "node"}}}
	c13gAddEdge(&mixed, 0, "Peers", 1)
	c13gAddEdge(&mixed, 0, "Peers", 2)
	c13gAddEdge(&mixed, 1, "Peers", 2)
	c13gAddEdge(&mixed, 1, "Peers", 3)
	back := c13gCase{Family: "finding", Op: "create", Roots: []int{0}, Nodes: []c13gNode{{T: "node"}, {T: "node"}}}
	c13gAddEdge(&back, 0, "Subs", 1)
	c13gAddEdge(&back, 1, "Boss", 0)
	dup := c13gCase{Family: "finding", Op: "create", Roots: []int{0}, Nodes: []c13gNode{{T: "node"}, {T: "node"}}}
	c13gAddEdge(&dup, 0, "Peers", 1)
	c13gAddEdge(&dup, 0, "Peers", 1)
	return map[string]c13gCase{
		"F27-C13-mixed-association-batch":     mixed,
		"F28-C13-root-resaved-by-backpointer": back,
		"F29-C13-new-record-twice-in-batch":   dup,
	}
}

func c13gShape(c c13gCase) string {
	indeg := map[int]int{}
	for _, n := range c.Nodes {
		for _, ts := range n.Rel {
			for _, t := range ts {
				indeg[t]++
			}
		}
	}
	shared := 0
	for _, d := range indeg {
		if d > 1 {
			shared++
		}
	}
	switch {
	case shared == 0:
		return "no-shared-record"
	case shared == 1:
		return "1-shared-record"
	}
	return "2+-shared-records"
}

func c13gJudge(r *Result, c c13gCase, obs c13gObs) c13gVerdict {
	v := c13gOracle(c, obs)
	if v.Violation != "" {
		r.Violate(Violation{Kind: "e2e", Suite: "graphs", Input: c, Observed: obs, Expected: v.Violation,
			Note: "per in-memory record: documented hook sequence exactly once for every record reachable through association fields"})
		return v
	}
	for _, id := range v.Known {
		r.KnownFinding(id, "association graph: a record's create hooks fire more than once within one operation")
		r.H("graph-known", id)
	}
	return v
}

func c13gSuite(r *Result, rng *rand.Rand, tier string) {
	old := logger.Default
	logger.Default = logger.Discard
	defer func() { logger.Default = old }()

	c13gLoadFix(r)
	r.H("graph-repairs-in-tree", fmt.Sprintf("F27-filter=%v F28-root=%v F29-distinct=%v", c13gFix.Filter, c13gFix.Root, c13gFix.Distinct))
	c13gProbeWitnesses(r)
	nrand, maxN := 500, 6
	if tier == "thorough" {
		nrand, maxN = 6000, 9
	} else if tier == "search" {
		nrand, maxN = 1500, 7
	}
	cases := c13gTemplates()
	for i := 0; i < nrand; i++ {
		cases = append(cases, c13gGen(rng, maxN))
	}
	var ops [][]interface{}
	var tieIdx []int
	var tieLog []string
	var tieCase []c13gCase
	clean := 0
	for i, c := range cases {
		if expired() {
			break
		}
		obs, valid := c13gRun(c)
		if !valid {
			r.H("graph-invalid", c.Family)
			continue
		}
		r.Case("graphs", canon(c), true)
		r.H("graph-op", c.Op)
		r.H("graph-family", c.Family)
		r.H("graph-shape", c13gShape(c))
		r.H("graph-records", fmt.Sprint(len(c.Nodes)))
		if i%97 == 0 {
			r.Sample(map[string]interface{}{"input": c, "observed": obs})
		}
		v := c13gJudge(r, c, obs)
		if v.Violation == "" && len(v.Known) == 0 {
			clean++
		}
		// tie on the failure-free log
		if lg, ok := c13gCanonLog(obs.Events); ok && obs.Err == "" && obs.Panic == "" {
			ops = append(ops, c13gLeanOp(c))
			tieIdx = append(tieIdx, i)
			tieLog = append(tieLog, canon(lg))
			tieCase = append(tieCase, c)
		} else if v.Violation == "" && obs.Err == "" {
			r.Violate(Violation{Kind: "correspondence", Suite: "graphs", Input: c, Observed: obs.Events, Note: "recorded log is not a sequence of before-pairs, statements and after-pairs"})
		}
		// variants: SkipHooks, and a failure at a hook invocation of the failure-free run
		if v.Violation == "" && obs.Err == "" && len(obs.Events) > 0 {
			if rng.Intn(6) == 0 {
				cs := c
				cs.Skip = true
				if o2, ok := c13gRun(cs); ok {
					r.Case("graphs", canon(cs), true)
					r.H("graph-kind", "skiphooks")
					c13gJudge(r, cs, o2)
				}
			}
			if rng.Intn(3) == 0 && c.Ctx != "skipdefault" {
				var hs []c13gEv
				for _, e := range obs.Events {
					if e.Hook != "stmt" {
						hs = append(hs, e)
					}
				}
				e := hs[rng.Intn(len(hs))]
				cf := c
				cf.FailAt = fmt.Sprint(e.Hook, "/", e.Node)
				if o2, ok := c13gRun(cf); ok {
					r.Case("graphs", canon(cf), true)
					r.H("graph-kind", "failing-hook")
					r.H("graph-fail-hook", e.Hook)
					c13gJudge(r, cf, o2)
				}
			}
		}
	}
	r.H("graph-clean-cases", fmt.Sprint(clean > 0))
	r.Note("graphs: %d cases without a listed defect pattern", clean)
	// Lean predictions
	outs, err := AskLean(ops)
	if err != nil {
		r.Violate(Violation{Kind: "correspondence", Suite: "graphs", Note: err.Error()})
	} else {
		for j := range tieIdx {
			var m struct {
				Log      json.RawMessage `json:"log"`
				Ok       bool            `json:"ok"`
				Clean    bool            `json:"clean"`
				OldLog   json.RawMessage `json:"oldlog"`
				OldClean bool            `json:"oldclean"`
			}
			if json.Unmarshal(outs[j], &m) != nil {
				r.Violate(Violation{Kind: "correspondence", Suite: "graphs", Input: tieCase[j], Observed: string(outs[j]), Note: "bad answer from the Lean driver"})
				continue
			}
			r.CorrCompared++
			r.H("graph-model-clean", fmt.Sprint(m.Clean))
			if !m.Ok || canonRaw(m.Log) != tieLog[j] {
				r.Violate(Violation{Kind: "correspondence", Suite: "graphs", Input: tieCase[j], Observed: tieLog[j], Expected: canonRaw(m.Log),
					Note: "recorded hook/statement log vs Lean Gorm.VGraph.run genVisitFix (visit map + pipeline order, with the repairs the regenerated facts find in this tree)"})
			} else if m.OldClean {
				// C13_visit_fix_conservative, observed: where the UNREPAIRED traversal shows none of the three patterns the
				// tree under check (whatever repairs it carries) does exactly what the unrepaired code does
				r.H("graph-unrepaired-model-clean", "real log = unrepaired model log")
				if canonRaw(m.OldLog) != tieLog[j] {
					r.Violate(Violation{Kind: "correspondence", Suite: "graphs", Input: tieCase[j], Observed: tieLog[j], Expected: canonRaw(m.OldLog),
						Note: "the unrepaired traversal is clean on this graph, yet the recorded log differs from the unrepaired model's log (C13_visit_fix_conservative)"})
				}
			} else {
				r.H("graph-unrepaired-model-clean", "unrepaired model shows a listed pattern")
			}
		}
	}
}

// c13gProbeWitnesses re-confirms the listed defects on their minimal witnesses (first thing in the suite, so that a
// witness that fails although its entry is no longer listed is the FIRST violation reported).  A witness whose entry
// is no longer listed (repaired) is an ordinary case: the oracle demands the documented behaviour of it (exactly once
// per record, one row per record, join rows).
func c13gProbeWitnesses(r *Result) {
	wit := c13gFindingWitnesses()
	var wids []string
	for id := range wit {
		wids = append(wids, id)
	}
	sort.Strings(wids)
	for _, id := range wids {
		c := wit[id]
		obs, _ := c13gRun(c)
		r.Case("graphs", canon(c), true)
		v := c13gOracle(c, obs)
		found := false
		for _, k := range v.Known {
			if k == id {
				found = true
			}
		}
		switch {
		case v.Violation != "":
			r.Violate(Violation{Kind: "e2e", Suite: "graphs", Input: c, Observed: obs, Expected: v.Violation})
		case found:
			r.KnownFinding(id, "association graph: a record's create hooks fire more than once within one operation")
		case listed(id):
			r.Note("listed finding %s did not reproduce on its witness (repaired?)", id)
			r.H("graph-known-stale", id)
		default:
			r.H("graph-former-witness-passes", id)
		}
	}
}

func init() {
	replayers["C13/graphs"] = func(r *Result, input json.RawMessage) {
		var c c13gCase
		if json.Unmarshal(input, &c) != nil {
			return
		}
		old := logger.Default
		logger.Default = logger.Discard
		defer func() { logger.Default = old }()
		c13gLoadFix(nil)
		obs, valid := c13gRun(c)
		if !valid {
			return
		}
		r.Case("graphs", canon(c), true)
		c13gJudge(r, c, obs)
	}
}
