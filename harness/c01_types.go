package main

// C01: the Go TYPE dimension of bound values, shared by the correspondence codec (c01.go) and the e2e generator.
//
// What the unchanged code does with a slice/array depends on the exact dynamic type, not on the kind:
//   * Statement.AddVar `case []byte` / default arm `rv.Type().Elem() == reflect.TypeOf(uint8(0))`: ONLY containers whose
//     element type IS uint8 (`[]byte`, json.RawMessage, named byte slices, `[N]byte`) are one bound value; a slice or
//     array of a NAMED uint8 type (`type Level uint8`) expands like every other list.   Model: `Val.bytes` vs `Val.list`.
//   * clause.Eq/Neq.Build enumerate []string []int []int32 []int64 []uint []uint32 []uint64 []interface{} (type switch
//     on the exact type): arrays, named slice types and every other element type take the generic AddVar route.
//     Model: `Val.list std`.
// The codec therefore carries the Go type next to the model encoding: ["l", std, els, "<container>:<elemtag>"],
// ["b", named, bytes, "<gotype>"], ["st", fields, vals, "<gotype>"]; the 4th element is ignored by the Lean parser
// and stripped (c01Strip) before var lists are compared.

import (
	"database/sql"
	"database/sql/driver"
	"encoding/json"
	"fmt"
	"reflect"
	"strconv"
	"strings"
)

type (
	C01U8   uint8
	C01I8   int8
	C01U16  uint16
	C01Int  int
	C01I64  int64
	C01Uint uint
	C01Str  string
	C01Bool bool
	C01F64  float64

	// named slice types
	C01U8s  []C01U8
	C01Ints []int
	C01Strs []string
)

type c01ScalarType struct {
	tag string
	t   reflect.Type
	std bool // `[]t` is enumerated in Eq.Build / Neq.Build
}

var c01ScalarTypes = []c01ScalarType{
	{"i", reflect.TypeOf(int(0)), true}, {"i8", reflect.TypeOf(int8(0)), false}, {"i16", reflect.TypeOf(int16(0)), false},
	{"i32", reflect.TypeOf(int32(0)), true}, {"i64", reflect.TypeOf(int64(0)), true},
	{"u", reflect.TypeOf(uint(0)), true}, {"y", reflect.TypeOf(uint8(0)), false}, {"u16", reflect.TypeOf(uint16(0)), false},
	{"u32", reflect.TypeOf(uint32(0)), true}, {"u64", reflect.TypeOf(uint64(0)), true},
	{"s", reflect.TypeOf(""), true}, {"f", reflect.TypeOf(float64(0)), false}, {"f32", reflect.TypeOf(float32(0)), false},
	{"B", reflect.TypeOf(false), false},
	{"ny", reflect.TypeOf(C01U8(0)), false}, {"ni8", reflect.TypeOf(C01I8(0)), false}, {"nu16", reflect.TypeOf(C01U16(0)), false},
	{"ni", reflect.TypeOf(C01Int(0)), false}, {"ni64", reflect.TypeOf(C01I64(0)), false}, {"nu", reflect.TypeOf(C01Uint(0)), false},
	{"ns", reflect.TypeOf(C01Str("")), false}, {"nB", reflect.TypeOf(C01Bool(false)), false}, {"nf", reflect.TypeOf(C01F64(0)), false},
}

var (
	c01TagType = map[string]c01ScalarType{}
	c01TypeTag = map[reflect.Type]string{}
	// element tags of lists: the scalar tags (except "y": a container of uint8 is a byte string), pointers, nested, valuers
	c01ListElemTags []string
	c01NamedSlice   = map[string]reflect.Type{"ny": reflect.TypeOf(C01U8s{}), "i": reflect.TypeOf(C01Ints{}), "s": reflect.TypeOf(C01Strs{})}
	c01PtrInt       = reflect.TypeOf((*int)(nil))
	c01PtrU8        = reflect.TypeOf((*C01U8)(nil))
	c01IntSlice     = reflect.TypeOf([]int{})
	c01NullStr      = reflect.TypeOf(sql.NullString{})
	c01ByteSlice    = reflect.TypeOf([]byte{})
	c01U8Type       = reflect.TypeOf(uint8(0))
)

func init() {
	for _, s := range c01ScalarTypes {
		c01TagType[s.tag] = s
		c01TypeTag[s.t] = s.tag
		if s.tag != "y" {
			c01ListElemTags = append(c01ListElemTags, s.tag)
		}
	}
	c01ListElemTags = append(c01ListElemTags, "pi", "pny", "dv")
}

// c01ScalarOf parses the body of a payload of a registered scalar type
func c01ScalarOf(st c01ScalarType, body string) interface{} {
	rv := reflect.New(st.t).Elem()
	switch st.t.Kind() {
	case reflect.Int, reflect.Int8, reflect.Int16, reflect.Int32, reflect.Int64:
		n, err := strconv.ParseInt(body, 10, 64)
		if err != nil {
			panic(err)
		}
		rv.SetInt(n)
	case reflect.Uint, reflect.Uint8, reflect.Uint16, reflect.Uint32, reflect.Uint64:
		n, err := strconv.ParseUint(body, 10, 64)
		if err != nil {
			panic(err)
		}
		rv.SetUint(n)
	case reflect.String:
		rv.SetString(body)
	case reflect.Float32, reflect.Float64:
		f, _ := strconv.ParseFloat(body, 64)
		rv.SetFloat(f)
	case reflect.Bool:
		rv.SetBool(body == "true")
	}
	return rv.Interface()
}

// c01ScalarPayload is the inverse of c01ScalarOf ("" when the type is not registered)
func c01ScalarPayload(v interface{}) string {
	rv := reflect.ValueOf(v)
	if !rv.IsValid() {
		return ""
	}
	tag, ok := c01TypeTag[rv.Type()]
	if !ok {
		return ""
	}
	switch rv.Kind() {
	case reflect.Int, reflect.Int8, reflect.Int16, reflect.Int32, reflect.Int64:
		return tag + ":" + strconv.FormatInt(rv.Int(), 10)
	case reflect.Uint, reflect.Uint8, reflect.Uint16, reflect.Uint32, reflect.Uint64:
		return tag + ":" + strconv.FormatUint(rv.Uint(), 10)
	case reflect.String:
		return tag + ":" + rv.String()
	case reflect.Float32, reflect.Float64:
		return tag + ":" + strconv.FormatFloat(rv.Float(), 'g', -1, 64)
	default:
		return tag + ":" + strconv.FormatBool(rv.Bool())
	}
}

func c01ElemType(tag string) reflect.Type {
	switch tag {
	case "pi":
		return c01PtrInt
	case "pny":
		return c01PtrU8
	case "l":
		return c01IntSlice
	case "dv":
		return c01NullStr
	}
	st, ok := c01TagType[tag]
	if !ok {
		panic("bad list element tag " + tag)
	}
	return st.t
}

func c01ElemTagOf(t reflect.Type) string {
	switch t {
	case c01PtrInt:
		return "pi"
	case c01PtrU8:
		return "pny"
	case c01IntSlice:
		return "l"
	case c01NullStr:
		return "dv"
	}
	return c01TypeTag[t]
}

// c01ListStd: is the Go type "<container>:<elemtag>" one of the slice types enumerated in Eq.Build?
func c01ListStd(gotype string) bool {
	i := strings.IndexByte(gotype, ':')
	return gotype[:i] == "s" && c01TagType[gotype[i+1:]].std
}

// c01MakeList builds the Go container of exactly the type named by gotype = "s:tag" ([]T) | "a:tag" ([N]T) | "n:tag" (named slice)
func c01MakeList(gotype string, els []interface{}) interface{} {
	i := strings.IndexByte(gotype, ':')
	kind, tag := gotype[:i], gotype[i+1:]
	et := c01ElemType(tag)
	var rv reflect.Value
	switch kind {
	case "s":
		rv = reflect.MakeSlice(reflect.SliceOf(et), len(els), len(els))
	case "a":
		rv = reflect.New(reflect.ArrayOf(len(els), et)).Elem()
	case "n":
		nt, ok := c01NamedSlice[tag]
		if !ok {
			panic("no named slice type for " + tag)
		}
		rv = reflect.MakeSlice(nt, len(els), len(els))
	default:
		panic("bad list container " + gotype)
	}
	for k, e := range els {
		if e == nil {
			continue // nil pointer element
		}
		rv.Index(k).Set(reflect.ValueOf(e))
	}
	return rv.Interface()
}

// c01ListTypeOf returns the gotype of a slice/array value ("" = not a list the codec knows; bytes = a byte string)
func c01ListTypeOf(rv reflect.Value) (gotype string, bytes bool) {
	t := rv.Type()
	if t.Elem() == c01U8Type {
		return "", true
	}
	tag := c01ElemTagOf(t.Elem())
	if tag == "" {
		return "", false
	}
	switch {
	case t.Kind() == reflect.Array:
		return "a:" + tag, false
	case t.Name() != "":
		return "n:" + tag, false
	}
	return "s:" + tag, false
}

// byte strings: gotype "bytes" []byte | "c01Bytes" | "raw" json.RawMessage | "arr" [N]byte
func c01MakeBytes(gotype string, bs []byte) interface{} {
	switch gotype {
	case "bytes":
		return bs
	case "c01Bytes":
		return c01Bytes(bs)
	case "raw":
		return json.RawMessage(bs)
	case "arr":
		rv := reflect.New(reflect.ArrayOf(len(bs), c01U8Type)).Elem()
		reflect.Copy(rv, reflect.ValueOf(bs))
		return rv.Interface()
	}
	panic("bad byte string type " + gotype)
}

func c01BytesTypeOf(rv reflect.Value) (gotype string, bs []byte) {
	switch {
	case rv.Kind() == reflect.Array:
		bs = make([]byte, rv.Len())
		reflect.Copy(reflect.ValueOf(bs), rv)
		return "arr", bs
	case rv.Type() == c01ByteSlice:
		return "bytes", rv.Bytes()
	case rv.Type() == reflect.TypeOf(json.RawMessage{}):
		return "raw", rv.Bytes()
	case rv.Type() == reflect.TypeOf(c01Bytes{}):
		return "c01Bytes", rv.Bytes()
	}
	return fmt.Sprintf("?%s", rv.Type()), rv.Bytes()
}

// ---- structs for NamedExpr's struct argument form ---------------------------------------------------------------
// (C01Person / C01Wrap are declared in c01.go.)  Field names never equal an exported field of a library struct.

type C01WrapP struct {
	*C01Person
	Nick string
}

// values of any kind inside a named-argument struct (IN @Ids, nil, Valuers …)
type C01Args struct {
	Pname string
	Ids   interface{}
	Anyv  interface{}
}

// c01Norm reduces a bound value (as found in Statement.Vars or as received by the driver) to the canonical string of
// normArg: pointers are followed, driver.Valuers evaluated, named scalar types reduced to their kind.
func c01Norm(v interface{}) string {
	if v == nil {
		return "nil"
	}
	if dv, ok := v.(driver.Valuer); ok {
		if rv := reflect.ValueOf(v); rv.Kind() == reflect.Ptr && rv.IsNil() {
			return "nil"
		}
		if x, err := dv.Value(); err == nil {
			if _, again := x.(driver.Valuer); !again {
				return c01Norm(x)
			}
		}
	}
	if s := normArg(v); !strings.HasPrefix(s, "?:") {
		return s
	}
	rv := reflect.ValueOf(v)
	switch rv.Kind() {
	case reflect.Ptr:
		if rv.IsNil() {
			return "nil"
		}
		return c01Norm(rv.Elem().Interface())
	case reflect.Int, reflect.Int8, reflect.Int16, reflect.Int32, reflect.Int64:
		return fmt.Sprint("i:", rv.Int())
	case reflect.Uint, reflect.Uint8, reflect.Uint16, reflect.Uint32, reflect.Uint64:
		return fmt.Sprint("i:", rv.Uint())
	case reflect.String:
		return "s:" + rv.String()
	case reflect.Bool:
		return fmt.Sprint("B:", rv.Bool())
	case reflect.Float32, reflect.Float64:
		return fmt.Sprint("f:", rv.Float())
	case reflect.Slice:
		if rv.Type().Elem().Kind() == reflect.Uint8 && rv.Type().Elem() == c01U8Type {
			return "b:" + string(rv.Bytes())
		}
	case reflect.Array:
		if rv.Type().Elem() == c01U8Type {
			bs := make([]byte, rv.Len())
			reflect.Copy(reflect.ValueOf(bs), rv)
			return "b:" + string(bs)
		}
	}
	return normArg(v)
}

func c01NormAll(vs []interface{}) []string {
	out := make([]string, len(vs))
	for i, v := range vs {
		out[i] = c01Norm(v)
	}
	return out
}
