package main

// C09 round 4 — WHERE the write runs (the MODE dimension).
//
// "returns ErrMissingWhereClause, executes no statement, changes no row" is stated for every configuration: the guard may
// not depend on how the handle was obtained.  c09.go's guard suite draws one mode per case; this file adds the modes that
// were constant before round 4 and the machinery to run a case body in any of them:
//
//	dryrun-session      db.Session(&gorm.Session{DryRun: true})            — the guard still answers, nothing is sent
//	dryrun-config       a second *gorm.DB on the same database opened with Config.DryRun
//	tosql               db.ToSQL(func(tx) { … })                           — the write's own error is judged, not the text
//	prepare-config      a second *gorm.DB opened with Config.PrepareStmt   — the guard runs before anything is prepared
//	skiphooks           Session{SkipHooks: true}
//	context             WithContext(ctx)
//	nested-transaction  Transaction(func(tx){ tx.Transaction(func(tx2){ … }) })  (SAVEPOINT … around the body)
//	savepoint           Begin / SavePoint / body / RollbackTo / Commit
//	connection          db.Connection(func(tx){ … })                       — one pinned *sql.Conn
//	begin-dryrun        Session{DryRun}.Begin() … Commit()                 — DryRun inside an explicit transaction
//	newdb-session       db.Session(&gorm.Session{NewDB: true}) as the starting handle
//	debug-free          db.Session(&gorm.Session{Logger: discard})         — a session that only swaps the logger
//
// SAVEPOINT / ROLLBACK TO / RELEASE statements are issued by the transaction wrapper the TEST put around the body, not by
// the Update/Delete under judgement: c09StmtEvents leaves them out of "statements executed".

import (
	"context"
	"strings"
	"sync"

	"gorm.io/driver/sqlite"
	"gorm.io/gorm"
	"gorm.io/gorm/logger"
)

var c09ExtraModes = []string{"dryrun-session", "dryrun-config", "tosql", "prepare-config", "skiphooks", "context",
	"nested-transaction", "savepoint", "connection", "begin-dryrun", "newdb-session", "debug-free"}

// c09ModeIsDry: nothing can reach the database in this mode (the "changes no row" half is then trivially true; the
// "returns ErrMissingWhereClause" / "is never rejected" half is what is judged)
func c09ModeIsDry(mode string) bool {
	switch mode {
	case "dryrun-session", "dryrun-config", "tosql", "begin-dryrun":
		return true
	}
	return false
}

var c09SiblingMu sync.Mutex
var c09Siblings = map[*gorm.DB]map[string]*gorm.DB{}

// c09ConfigHandle: for the config-level modes, a SECOND *gorm.DB on the same *sql.DB (same tables, same recorder) opened
// with the option in its Config; every other mode returns db itself.  Cached per (db, mode).
func c09ConfigHandle(db *gorm.DB, mode string) *gorm.DB {
	if mode != "dryrun-config" && mode != "prepare-config" {
		return db
	}
	c09SiblingMu.Lock()
	defer c09SiblingMu.Unlock()
	if m, ok := c09Siblings[db]; ok {
		if s, ok := m[mode]; ok {
			return s
		}
	} else {
		c09Siblings[db] = map[string]*gorm.DB{}
	}
	sqlDB, err := db.DB()
	if err != nil {
		panic(err)
	}
	cfg := &gorm.Config{Logger: logger.Discard, NowFunc: fixedNowFunc, AllowGlobalUpdate: db.Config.AllowGlobalUpdate,
		SkipDefaultTransaction: db.Config.SkipDefaultTransaction, DryRun: mode == "dryrun-config", PrepareStmt: mode == "prepare-config"}
	s, err := gorm.Open(sqlite.Dialector{Conn: sqlDB}, cfg)
	if err != nil {
		panic(err)
	}
	c09Siblings[db][mode] = s
	return s
}

// c09ModeSession: the session options a mode adds to the starting handle
func c09ModeSession(mode string, sess *gorm.Session) {
	switch mode {
	case "dryrun-session", "begin-dryrun":
		sess.DryRun = true
	case "skiphooks":
		sess.SkipHooks = true
	case "context":
		sess.Context = context.WithValue(context.Background(), c09CtxKey{}, "c09")
	case "newdb-session":
		sess.NewDB = true
	case "debug-free":
		sess.Logger = logger.Discard
	}
}

type c09CtxKey struct{}

// c09ModeRun runs body in the mode's wrapper; ok = false when the mode needs no wrapper (the caller runs body(h) itself)
func c09ModeRun(mode string, h *gorm.DB, body func(*gorm.DB) *gorm.DB) (res *gorm.DB, ok bool) {
	switch mode {
	case "tosql":
		h.ToSQL(func(tx *gorm.DB) *gorm.DB {
			res = body(tx)
			return res
		})
		return res, true
	case "nested-transaction":
		h.Transaction(func(tx *gorm.DB) error {
			return tx.Transaction(func(tx2 *gorm.DB) error {
				res = body(tx2)
				return nil
			})
		})
		return res, true
	case "savepoint":
		tx := h.Begin()
		tx.SavePoint("c09sp")
		res = body(tx)
		tx.Commit()
		return res, true
	case "connection":
		h.Connection(func(tx *gorm.DB) error {
			res = body(tx)
			return nil
		})
		return res, true
	case "begin-dryrun":
		tx := h.Begin()
		res = body(tx)
		tx.Commit()
		return res, true
	}
	return nil, false
}

// c09StmtEvents: number of statements that reached the driver, not counting the savepoint control statements of the
// wrapper the test itself put around the body
func c09StmtEvents(events []Event) int {
	n := 0
	for _, e := range events {
		if !isExecEvent(e) {
			continue
		}
		q := strings.ToUpper(strings.TrimSpace(e.SQL))
		if strings.HasPrefix(q, "SAVEPOINT") || strings.HasPrefix(q, "ROLLBACK TO") || strings.HasPrefix(q, "RELEASE") {
			continue
		}
		n++
	}
	return n
}

// c09ModeJ: the mode as the Lean model sees it (Model/GuardMode.lean `Mode`): [dryRun, prepareStmt, skipHooks, skipDefaultTx, inTx]
func c09ModeJ(mode string) []interface{} {
	dry := c09ModeIsDry(mode)
	prep := mode == "prepare" || mode == "prepare-config"
	skipHooks := mode == "skiphooks"
	skipTx := mode == "skip-session" || mode == "skip-config" || mode == "tosql"
	inTx := mode == "begin" || mode == "transaction" || mode == "nested-transaction" || mode == "savepoint" || mode == "begin-dryrun"
	return []interface{}{dry, prep, skipHooks, skipTx, inTx}
}
