package main

// C02 (round 4) — a primary key whose Go type is a Valuer of ARRAY or SLICE kind (uuid-style `[N]byte`, a path `[]string`).
// "The primary key of the model value" and key values "given as the condition itself" are ONE scalar per row — never a
// list of the key's elements: First(&x, uid), Find(&xs, []uid{…}), Where(uid), Not(uid), Delete(&T{}, uid), Delete(&T{ID: uid}),
// Model(&T{ID: uid}).Update / Updates / Update("id", newUid) (re-keying), Save, First(&T{ID: uid}), map / (col, v) conditions
// on the key column.  Suite `ukey` (e2e): ALL rows are compared after a write.

import (
	"database/sql/driver"
	"encoding/json"
	"fmt"
	"math/rand"
	"sort"
	"strings"

	"gorm.io/gorm"
)

type c02UID [2]byte

func (u c02UID) Value() (driver.Value, error) { return string(u[:]), nil }
func (u *c02UID) Scan(src interface{}) error {
	switch v := src.(type) {
	case string:
		copy(u[:], v)
	case []byte:
		copy(u[:], v)
	default:
		return fmt.Errorf("c02UID: cannot scan %T", src)
	}
	return nil
}
func (c02UID) GormDataType() string { return "text" }

type c02Path []string

func (p c02Path) Value() (driver.Value, error) { return strings.Join(p, "/"), nil }
func (p *c02Path) Scan(src interface{}) error {
	switch v := src.(type) {
	case string:
		*p = strings.Split(v, "/")
	case []byte:
		*p = strings.Split(string(v), "/")
	default:
		return fmt.Errorf("c02Path: cannot scan %T", src)
	}
	return nil
}
func (c02Path) GormDataType() string { return "text" }

type C02U struct {
	ID c02UID `gorm:"primaryKey"`
	N  int
	M  int
}

type C02P struct {
	ID c02Path `gorm:"primaryKey"`
	N  int
	M  int
}

type c02UKeyCase struct {
	Seed int64    `json:"seed"`
	Kind string   `json:"key_kind"`
	Rows []string `json:"rows"`
	Op   string   `json:"op"`
	Key  string   `json:"key"`
	Key2 string   `json:"key2,omitempty"`
}

var c02UKeys = []string{"a/b", "a/c", "b/a", "b/c", "c/a", "x/y"} // as c02UID: the two letters; as c02Path: the two segments

func c02UKeyOne(r *Result, seed int64) {
	rng := rand.New(rand.NewSource(seed))
	arr := rng.Intn(2) == 0
	kind := "slice"
	if arr {
		kind = "array"
	}
	mode := 0
	if rng.Intn(3) == 0 {
		mode = 1 + rng.Intn(3)
	}
	db, _, sqlDB := OpenRec(&gorm.Config{NowFunc: fixedNowFunc, PrepareStmt: mode&1 != 0, SkipDefaultTransaction: mode&2 != 0})
	defer sqlDB.Close()
	if err := db.AutoMigrate(&C02U{}, &C02P{}); err != nil {
		panic(err)
	}
	mkU := func(k string) c02UID { return c02UID{k[0], k[2]} }
	mkP := func(k string) c02Path { return c02Path(strings.Split(k, "/")) }
	keyVal := func(k string) interface{} {
		if arr {
			return mkU(k)
		}
		return mkP(k)
	}
	keyList := func(ks ...string) interface{} {
		if arr {
			var out []c02UID
			for _, k := range ks {
				out = append(out, mkU(k))
			}
			return out
		}
		var out []c02Path
		for _, k := range ks {
			out = append(out, mkP(k))
		}
		return out
	}
	norm := func(k string) string { // the stored text
		if arr {
			return string([]byte{k[0], k[2]})
		}
		return k
	}
	model := func(k string) interface{} {
		if arr {
			if k == "" {
				return &C02U{}
			}
			return &C02U{ID: mkU(k)}
		}
		if k == "" {
			return &C02P{}
		}
		return &C02P{ID: mkP(k)}
	}
	keys := append([]string{}, c02UKeys...)
	rng.Shuffle(len(keys), func(i, j int) { keys[i], keys[j] = keys[j], keys[i] })
	present := keys[:3+rng.Intn(2)]
	table := map[string]int{}
	var rowStr []string
	for _, k := range present {
		n := rng.Intn(4)
		table[norm(k)] = n
		if arr {
			db.Create(&C02U{ID: mkU(k), N: n})
		} else {
			db.Create(&C02P{ID: mkP(k), N: n})
		}
		rowStr = append(rowStr, fmt.Sprintf("%s n=%d", norm(k), n))
	}
	sort.Strings(rowStr)
	k1 := keys[rng.Intn(len(keys))] // present or absent
	k2 := keys[rng.Intn(len(keys))]
	dump := func(tx *gorm.DB) []string {
		var out []string
		if arr {
			var rs []C02U
			tx.Session(&gorm.Session{NewDB: true}).Find(&rs)
			for _, x := range rs {
				out = append(out, fmt.Sprintf("%s n=%d m=%d", string(x.ID[:]), x.N, x.M))
			}
		} else {
			var rs []C02P
			tx.Session(&gorm.Session{NewDB: true}).Find(&rs)
			for _, x := range rs {
				out = append(out, fmt.Sprintf("%s n=%d m=%d", strings.Join(x.ID, "/"), x.N, x.M))
			}
		}
		sort.Strings(out)
		return out
	}
	type st struct{ n, m int }
	expectTable := func(f func(k string, s st) (string, st, bool)) ([]string, bool) {
		var out []string
		seen := map[string]bool{}
		dup := false
		for k, n := range table {
			nk, ns, keep := f(k, st{n, 0})
			if !keep {
				continue
			}
			if seen[nk] {
				dup = true
			}
			seen[nk] = true
			out = append(out, fmt.Sprintf("%s n=%d m=%d", nk, ns.n, ns.m))
		}
		sort.Strings(out)
		return out, dup
	}
	unchanged, _ := expectTable(func(k string, s st) (string, st, bool) { return k, s, true })
	ids := func(tx *gorm.DB) ([]string, error) {
		var out []string
		var err error
		if arr {
			var rs []C02U
			err = tx.Find(&rs).Error
			for _, x := range rs {
				out = append(out, string(x.ID[:]))
			}
		} else {
			var rs []C02P
			err = tx.Find(&rs).Error
			for _, x := range rs {
				out = append(out, strings.Join(x.ID, "/"))
			}
		}
		sort.Strings(out)
		return out, err
	}
	ops := []string{"first-inline", "find-inline-list", "where-key", "not-key", "where-map", "where-col", "where-map-list", "first-dest",
		"delete-inline", "delete-value", "delete-model", "update-model", "updates-model", "rekey", "rekey-map", "save"}
	op := ops[rng.Intn(len(ops))]
	c := c02UKeyCase{Seed: seed, Kind: kind, Rows: rowStr, Op: op, Key: norm(k1), Key2: norm(k2)}
	r.Case("ukey", fmt.Sprint(kind, op, rowStr, k1, k2), true)
	r.H("ukey.op", kind+":"+op)
	fail := func(obs, exp interface{}, note string) {
		r.Violate(Violation{Kind: "e2e", Suite: "ukey", Input: c, Observed: obs, Expected: exp,
			Note: "a key of " + kind + " kind whose type is a Valuer is ONE scalar: " + note})
	}
	wantIDs := func(keep func(k string) bool) []string {
		out := []string{}
		for k := range table {
			if keep(k) {
				out = append(out, k)
			}
		}
		sort.Strings(out)
		return out
	}
	same := func(a, b []string) bool { return strings.Join(a, ";") == strings.Join(b, ";") }
	tx := db.Begin()
	defer tx.Rollback()
	var err error
	func() {
		defer func() {
			if p := recover(); p != nil {
				err = fmt.Errorf("panic: %v", p)
			}
		}()
		switch op {
		case "first-inline", "first-dest":
			var res *gorm.DB
			got := ""
			if arr {
				var x C02U
				if op == "first-dest" {
					x.ID = mkU(k1)
					res = tx.First(&x)
				} else {
					res = tx.First(&x, keyVal(k1))
				}
				got = string(x.ID[:])
			} else {
				var x C02P
				if op == "first-dest" {
					x.ID = mkP(k1)
					res = tx.First(&x)
				} else {
					res = tx.First(&x, keyVal(k1))
				}
				got = strings.Join(x.ID, "/")
			}
			_, there := table[norm(k1)]
			if res.Error == gorm.ErrRecordNotFound {
				if there {
					fail("not found", norm(k1), "First by key")
				}
				return
			}
			if err = res.Error; err != nil {
				return
			}
			if !there || got != norm(k1) {
				fail(got, map[bool]string{true: norm(k1), false: "not found"}[there], "First by key")
			}
		case "find-inline-list", "where-key", "not-key", "where-map", "where-col", "where-map-list":
			var h *gorm.DB
			var want []string
			in := func(ks ...string) func(string) bool {
				return func(k string) bool {
					for _, x := range ks {
						if norm(x) == k {
							return true
						}
					}
					return false
				}
			}
			switch op {
			case "find-inline-list":
				want = wantIDs(in(k1, k2))
				var got []string
				if arr {
					var rs []C02U
					err = tx.Find(&rs, keyList(k1, k2)).Error
					for _, x := range rs {
						got = append(got, string(x.ID[:]))
					}
				} else {
					var rs []C02P
					err = tx.Find(&rs, keyList(k1, k2)).Error
					for _, x := range rs {
						got = append(got, strings.Join(x.ID, "/"))
					}
				}
				sort.Strings(got)
				if err == nil && !same(got, want) {
					fail(got, want, "Find(&xs, []key{k1, k2})")
				}
				return
			case "where-key":
				h, want = tx.Where(keyVal(k1)), wantIDs(in(k1))
			case "not-key":
				h, want = tx.Not(keyVal(k1)), wantIDs(func(k string) bool { return k != norm(k1) })
			case "where-map":
				h, want = tx.Where(map[string]interface{}{"id": keyVal(k1)}), wantIDs(in(k1))
			case "where-col":
				h, want = tx.Where("id", keyVal(k1)), wantIDs(in(k1))
			default:
				// a PLAIN slice of keys: IN over its elements, each element one scalar
				h, want = tx.Where(map[string]interface{}{"id": keyList(k1, k2)}), wantIDs(in(k1, k2))
			}
			var got []string
			got, err = ids(h)
			if err == nil && !same(got, want) {
				fail(got, want, op)
			}
		default:
			var want []string
			dup := false
			switch op {
			case "delete-inline":
				err = tx.Delete(model(""), keyVal(k1)).Error
				want, _ = expectTable(func(k string, s st) (string, st, bool) { return k, s, k != norm(k1) })
			case "delete-value":
				err = tx.Delete(model(k1)).Error
				want, _ = expectTable(func(k string, s st) (string, st, bool) { return k, s, k != norm(k1) })
			case "delete-model":
				err = tx.Model(model(k1)).Delete(model("")).Error
				want, _ = expectTable(func(k string, s st) (string, st, bool) { return k, s, k != norm(k1) })
			case "update-model":
				err = tx.Model(model(k1)).Update("m", 77).Error
				want, _ = expectTable(func(k string, s st) (string, st, bool) {
					if k == norm(k1) {
						s.m = 77
					}
					return k, s, true
				})
			case "updates-model":
				err = tx.Model(model(k1)).Updates(map[string]interface{}{"m": 77, "n": 9}).Error
				want, _ = expectTable(func(k string, s st) (string, st, bool) {
					if k == norm(k1) {
						s.m, s.n = 77, 9
					}
					return k, s, true
				})
			case "rekey", "rekey-map":
				if op == "rekey" {
					err = tx.Model(model(k1)).Update("id", keyVal(k2)).Error
				} else {
					err = tx.Model(model(k1)).Updates(map[string]interface{}{"id": keyVal(k2), "m": 77}).Error
				}
				want, dup = expectTable(func(k string, s st) (string, st, bool) {
					if k == norm(k1) {
						if op == "rekey-map" {
							s.m = 77
						}
						return norm(k2), s, true
					}
					return k, s, true
				})
			case "save":
				if arr {
					err = tx.Save(&C02U{ID: mkU(k1), N: 9, M: 5}).Error
				} else {
					err = tx.Save(&C02P{ID: mkP(k1), N: 9, M: 5}).Error
				}
				t2 := map[string]int{}
				for k, v := range table {
					t2[k] = v
				}
				want = nil
				t2[norm(k1)] = 9
				for k, n := range t2 {
					m := 0
					if k == norm(k1) {
						m = 5
					}
					want = append(want, fmt.Sprintf("%s n=%d m=%d", k, n, m))
				}
				sort.Strings(want)
			}
			got := dump(tx)
			if dup {
				// the new key collides with another row: the statement must fail and change nothing
				if err == nil || !same(got, unchanged) {
					fail(map[string]interface{}{"error": fmt.Sprint(err), "table": got}, map[string]interface{}{"must_fail": true, "table": unchanged}, op)
				}
				err = nil
				return
			}
			if err == nil && !same(got, want) {
				fail(got, want, op+" (all rows compared)")
			}
		}
	}()
	if err != nil {
		fail(trunc(err.Error(), 100), "no error", op+" failed")
	}
}

func init() {
	register("C02", func(r *Result, rng *rand.Rand, tier string) {
		n := map[string]int{"quick": 300, "thorough": 4000, "search": 2000}[tier]
		for i := 0; i < n && !expired(); i++ {
			c02UKeyOne(r, rng.Int63())
		}
	})
	replayers["C02/ukey"] = func(r *Result, input json.RawMessage) {
		var c c02UKeyCase
		if json.Unmarshal(input, &c) != nil {
			return
		}
		c02UKeyOne(r, c.Seed)
	}
}
