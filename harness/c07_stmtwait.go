package main

// C07 suite "stmtwait" (round 3, correspondence + e2e on the same runs): goroutines that WAIT for another goroutine's
// PrepareContext, through BOTH lookup branches of (*PreparedStmtDB).prepare, when that prepare succeeds or FAILS.
//
// The real gorm.PreparedStmtDB runs on a ConnPool whose PrepareContext parks (so the harness decides when and how the
// preparation ends).  Forcing the double-check branch needs no hook inside gorm: the harness holds the exported `Mux` for
// writing while the first 1+D goroutines start; all of them block in `Mux.RLock()` (observed through their stacks); the
// harness unlocks; sync.RWMutex admits ALL blocked readers before the next writer, so every one of them misses under RLock;
// one wins `Mux.Lock()`, publishes and parks in PrepareContext (the preparer), the other D find its entry in the double check
// and block in `<-stmt.prepared`.  F further goroutines started now find the entry under RLock (fast path).  Then the
// preparation is released with the answer.
//
// Compared with Model.StmtWait (`sw.run`, wait-site configuration = the regenerated one): result of every goroutine (rows /
// preparation error / nil-statement dereference = panic) and the number of PrepareContext calls.  Judged independently (e2e,
// the property itself): every goroutine returns what the operation returns when it runs alone — the rows, or the driver's
// preparation error — and none panics or hangs.  Latitude: none.  Timeouts while waiting for a goroutine state are
// inconclusive, a program that ends with goroutines blocked on the completion channel after the release is a deadlock.

import (
	"context"
	"database/sql"
	"encoding/json"
	"errors"
	"fmt"
	"math/rand"
	"os"
	"path/filepath"
	"runtime"
	"strconv"
	"strings"
	"sync"
	"time"

	"gorm.io/gorm"
)

func init() {
	register("C07", c07StmtWait)
	replayers["C07/stmtwait"] = func(r *Result, input json.RawMessage) {
		var c c07swCase
		if json.Unmarshal(input, &c) != nil {
			return
		}
		if p := filepath.Join(c07Root(), "lean", ".lake", "build", "bin", "driver"); c07FileExists(p) {
			driverPath = p
		}
		if c.Ans == "ctx" {
			c07swPrivateFailureProbe(r)
			return
		}
		c07swBatch(r, []c07swCase{c})
	}
}

type c07swCase struct {
	Double int    `json:"double"` // goroutines that find the entry in the double check (under Lock)
	Fast   int    `json:"fast"`   // goroutines that find it on the fast path (under RLock)
	Ans    string `json:"ans"`    // how the preparation ends: ok | err | ctx (probe: only the PREPARER's own context is cancelled)
	Tx     bool   `json:"tx"`     // through a PreparedStmtTX each (Transaction entries)
	Fin    string `json:"fin"`    // exec | query | row
}

type c07swKey struct{}

var errC07swRefused = errors.New("c07 driver refuses to prepare")

type c07swPool struct {
	db      *sql.DB
	arrived chan int
	release chan string
}

func (p *c07swPool) gate(ctx context.Context) error {
	tid, _ := ctx.Value(c07swKey{}).(int)
	p.arrived <- tid
	if <-p.release == "err" {
		return errC07swRefused
	}
	return nil
}

func (p *c07swPool) PrepareContext(ctx context.Context, q string) (*sql.Stmt, error) {
	if err := p.gate(ctx); err != nil {
		return nil, err
	}
	return p.db.PrepareContext(ctx, q)
}
func (p *c07swPool) ExecContext(ctx context.Context, q string, args ...interface{}) (sql.Result, error) {
	return p.db.ExecContext(ctx, q, args...)
}
func (p *c07swPool) QueryContext(ctx context.Context, q string, args ...interface{}) (*sql.Rows, error) {
	return p.db.QueryContext(ctx, q, args...)
}
func (p *c07swPool) QueryRowContext(ctx context.Context, q string, args ...interface{}) *sql.Row {
	return p.db.QueryRowContext(ctx, q, args...)
}

// ConnPoolBeginner: the transaction's PrepareContext goes through the same gate
func (p *c07swPool) BeginTx(ctx context.Context, opts *sql.TxOptions) (gorm.ConnPool, error) {
	tx, err := p.db.BeginTx(ctx, opts)
	if err != nil {
		return nil, err
	}
	return &c07swTx{Tx: tx, pool: p}, nil
}

type c07swTx struct {
	*sql.Tx
	pool *c07swPool
}

func (t *c07swTx) PrepareContext(ctx context.Context, q string) (*sql.Stmt, error) {
	if err := t.pool.gate(ctx); err != nil {
		return nil, err
	}
	return t.Tx.PrepareContext(ctx, q)
}

// c07swStates: state of the goroutines `gids` — rlock (blocked in Mux.RLock inside prepare) / wait (blocked in
// `<-stmt.prepared`) / gate / gone / other
func c07swStates(gids []int64) []string {
	buf := make([]byte, 1<<20)
	n := runtime.Stack(buf, true)
	secs := map[int64]string{}
	for _, sec := range strings.Split(string(buf[:n]), "\n\n") {
		if !strings.HasPrefix(sec, "goroutine ") {
			continue
		}
		f := strings.Fields(sec)
		if id, err := strconv.ParseInt(f[1], 10, 64); err == nil {
			secs[id] = sec
		}
	}
	out := make([]string, len(gids))
	for i, g := range gids {
		sec, ok := secs[g]
		switch {
		case !ok:
			out[i] = "gone"
		case strings.Contains(sec, "(*c07swPool).gate("):
			out[i] = "gate"
		case strings.Contains(sec, "sync.(*RWMutex).RLock(") && strings.Contains(sec, "gorm.(*PreparedStmtDB).prepare("):
			out[i] = "rlock"
		case strings.Contains(strings.SplitN(sec, "\n", 2)[0], "chan receive") && strings.Contains(sec, "gorm.(*PreparedStmtDB).prepare("):
			lines := strings.Split(sec, "\n")
			out[i] = "other"
			for _, l := range lines[1:] {
				if strings.HasPrefix(l, "\t") || strings.HasPrefix(l, "runtime.") {
					continue
				}
				if strings.HasPrefix(l, "gorm.io/gorm.(*PreparedStmtDB).prepare(") {
					out[i] = "wait"
				}
				break
			}
		default:
			out[i] = "other"
		}
	}
	return out
}

type c07swObs struct {
	Results  []string `json:"results"`
	Preps    int      `json:"preps"`
	Preparer int      `json:"preparer"`
	Status   string   `json:"status"` // ok | inconclusive:<why> | deadlock:<detail>
}

func c07swRunReal(c c07swCase) c07swObs {
	db, err := sql.Open("sqlite3", ":memory:")
	if err != nil {
		return c07swObs{Status: "inconclusive:" + err.Error()}
	}
	defer db.Close()
	n := 1 + c.Double + c.Fast
	pool := &c07swPool{db: db, arrived: make(chan int, n), release: make(chan string, n)}
	pdb := gorm.NewPreparedStmtDB(pool)
	const q = "SELECT 1 + ?"
	results := make([]string, n)
	gids := make([]int64, n)
	started := make(chan int, n)
	var wg sync.WaitGroup
	run := func(t int) {
		defer wg.Done()
		gids[t] = c07CurGID()
		started <- t
		ctx := context.WithValue(context.Background(), c07swKey{}, t)
		if c.Ans == "ctx" && t == 0 { // the preparer's own context is already cancelled; everybody else's is live
			cctx, cancel := context.WithCancel(ctx)
			cancel()
			ctx = cctx
		}
		results[t] = c07Guard(func() string {
			class := func(err error) string {
				switch {
				case err == nil:
					return "rows"
				case errors.Is(err, errC07swRefused):
					return "prepErr"
				case errors.Is(err, context.Canceled):
					return "ctxCanceled"
				default:
					return "err:" + err.Error()
				}
			}
			var cp gorm.ConnPool = pdb
			if c.Tx {
				txp, err := pdb.BeginTx(ctx, nil)
				if err != nil {
					return "begin:" + err.Error()
				}
				defer txp.(*gorm.PreparedStmtTX).Rollback()
				cp = txp
			}
			switch c.Fin {
			case "query":
				rows, err := cp.QueryContext(ctx, q, 1)
				if err == nil {
					for rows.Next() {
					}
					err = rows.Err()
					rows.Close()
				}
				return class(err)
			case "row":
				var x int
				return class(cp.QueryRowContext(ctx, q, 1).Scan(&x))
			default:
				_, err := cp.ExecContext(ctx, q, 1)
				return class(err)
			}
		})
	}
	finish := func(status string) c07swObs {
		// let everything go, whatever state it is in
		for i := 0; i < n; i++ {
			select {
			case pool.release <- c.Ans:
			default:
			}
		}
		done := make(chan struct{})
		go func() { wg.Wait(); close(done) }()
		select {
		case <-done:
		case <-time.After(3 * time.Second):
		}
		return c07swObs{Status: status}
	}
	waitStates := func(ts []int, want string) bool {
		deadline := time.Now().Add(3 * time.Second)
		for {
			var g []int64
			for _, t := range ts {
				g = append(g, gids[t])
			}
			all := true
			for _, st := range c07swStates(g) {
				if st != want {
					all = false
				}
			}
			if all {
				return true
			}
			if time.Now().After(deadline) {
				return false
			}
			time.Sleep(200 * time.Microsecond)
		}
	}
	var initial, fast []int
	for t := 0; t <= c.Double; t++ {
		initial = append(initial, t)
	}
	for t := c.Double + 1; t < n; t++ {
		fast = append(fast, t)
	}
	if c.Double > 0 {
		pdb.Mux.Lock()
	}
	for _, t := range initial {
		wg.Add(1)
		go run(t)
	}
	for range initial {
		<-started
	}
	if c.Double > 0 {
		ok := waitStates(initial, "rlock")
		pdb.Mux.Unlock()
		if !ok {
			return finish("inconclusive:goroutines did not all block in Mux.RLock")
		}
	}
	preparer := -1
	select {
	case preparer = <-pool.arrived:
	case <-time.After(3 * time.Second):
		return finish("inconclusive:no goroutine reached PrepareContext")
	}
	var doubles []int
	for _, t := range initial {
		if t != preparer {
			doubles = append(doubles, t)
		}
	}
	if !waitStates(doubles, "wait") {
		return finish("inconclusive:double-check goroutines did not block on the completion channel")
	}
	for _, t := range fast {
		wg.Add(1)
		go run(t)
	}
	for range fast {
		<-started
	}
	if !waitStates(fast, "wait") {
		return finish("inconclusive:fast-path goroutines did not block on the completion channel")
	}
	preps := 1
	pool.release <- c.Ans
	done := make(chan struct{})
	go func() { wg.Wait(); close(done) }()
	hung := false
	for !hung {
		select {
		case <-done:
			goto finished
		case <-pool.arrived: // a further PrepareContext (not expected): let it end the same way
			preps++
			pool.release <- c.Ans
		case <-time.After(3 * time.Second):
			hung = true
		}
	}
	{
		all := make([]int, n)
		for i := range all {
			all[i] = i
		}
		st := c07swStates(gids)
		blocked := 0
		for _, s := range st {
			if s == "wait" {
				blocked++
			}
		}
		if blocked > 0 {
			return c07swObs{Status: fmt.Sprintf("deadlock:%d goroutine(s) still blocked in `<-stmt.prepared` 3 s after the preparation ended (states %v)", blocked, st), Preps: preps, Preparer: preparer}
		}
		return c07swObs{Status: "inconclusive:goroutines did not finish", Preps: preps, Preparer: preparer}
	}
finished:
	return c07swObs{Results: results, Preps: preps, Preparer: preparer, Status: "ok"}
}

// c07swLeanOp: the model schedule that corresponds to the forced real run with preparer p
func c07swLeanOp(c c07swCase, p int) []interface{} {
	n := 1 + c.Double + c.Fast
	var pre [][]interface{}
	for t := 0; t <= c.Double; t++ { // all initial goroutines miss under RLock
		pre = append(pre, []interface{}{t, "ok"})
	}
	pre = append(pre, []interface{}{p, "ok"}) // the winner publishes
	for t := 0; t <= c.Double; t++ {          // the others find the entry in the double check
		if t != p {
			pre = append(pre, []interface{}{t, "ok"})
		}
	}
	for t := c.Double + 1; t < n; t++ { // fast path
		pre = append(pre, []interface{}{t, "ok"})
	}
	pre = append(pre, []interface{}{p, c.Ans})
	return []interface{}{"sw.run", n, c.Tx, pre, "ok"}
}

type c07swLean struct {
	Results []string `json:"results"`
	Via     []string `json:"via"`
	Preps   int      `json:"preps"`
	Cfg     []bool   `json:"cfg"`
}

func c07swBatch(r *Result, cases []c07swCase) {
	type ran struct {
		c   c07swCase
		obs c07swObs
	}
	var runs []ran
	var ops [][]interface{}
	for _, c := range cases {
		if expired() {
			break
		}
		obs := c07swRunReal(c)
		r.H("stmtwait.shape", fmt.Sprintf("double=%d fast=%d", c.Double, c.Fast))
		r.H("stmtwait.answer", fmt.Sprintf("%s tx=%v %s", c.Ans, c.Tx, c.Fin))
		if strings.HasPrefix(obs.Status, "inconclusive") {
			r.H("stmtwait.result", "inconclusive")
			r.Note("stmtwait inconclusive (not judged): %s: %s", canon(c), obs.Status)
			continue
		}
		if strings.HasPrefix(obs.Status, "deadlock") {
			r.H("stmtwait.result", "deadlock")
			r.Violate(Violation{Kind: "e2e", Suite: "stmtwait", Input: c, Observed: obs.Status,
				Expected: "every goroutine returns " + map[string]string{"ok": "rows", "err": "prepErr"}[c.Ans],
				Note:     "goroutines that waited for another goroutine's PrepareContext never return"})
			continue
		}
		runs = append(runs, ran{c, obs})
		ops = append(ops, c07swLeanOp(c, obs.Preparer))
	}
	if len(runs) == 0 {
		return
	}
	outs, err := AskLean(ops)
	if err != nil || len(outs) != len(runs) {
		r.Violate(Violation{Kind: "correspondence", Suite: "stmtwait", Input: "batch", Observed: fmt.Sprint(err), Expected: "lean driver answers sw.run"})
		return
	}
	for i, rn := range runs {
		c, obs := rn.c, rn.obs
		lone := map[string]string{"ok": "rows", "err": "prepErr"}[c.Ans]
		var l c07swLean
		if json.Unmarshal(outs[i], &l) != nil || len(l.Cfg) != 2 {
			r.Violate(Violation{Kind: "correspondence", Suite: "stmtwait", Input: c, Observed: string(outs[i]), Expected: "model output"})
			continue
		}
		// the model's branch bookkeeping must be the forced one (self-check of the schedule translation)
		for t := range l.Via {
			want := "fast"
			if t == obs.Preparer {
				want = "own"
			} else if t <= c.Double {
				want = "double"
			}
			if l.Via[t] != want {
				r.Violate(Violation{Kind: "correspondence", Suite: "stmtwait", Input: c, Observed: l.Via, Expected: want, Note: "model schedule does not take the forced lookup branch"})
			}
		}
		exp := make([]string, len(l.Results))
		for t, s := range l.Results {
			exp[t] = s
		}
		got := make([]string, len(obs.Results))
		for t, s := range obs.Results {
			if strings.HasPrefix(s, "PANIC") && strings.Contains(s, "nil pointer") {
				got[t] = "nilStmt" // the model's name for the nil *sql.Stmt dereference
			} else {
				got[t] = s
			}
		}
		r.CorrCompared++
		r.Case("stmtwait", canon(c), c.Double+c.Fast >= 1)
		r.H("stmtwait.model-cfg", fmt.Sprintf("errFast=%v errDouble=%v", l.Cfg[0], l.Cfg[1]))
		if canon(got) != canon(exp) || obs.Preps != l.Preps {
			r.H("stmtwait.result", "differs-from-model")
			r.Violate(Violation{Kind: "correspondence", Suite: "stmtwait", Input: c,
				Observed: map[string]interface{}{"results": obs.Results, "prepares": obs.Preps, "preparer": obs.Preparer},
				Expected: map[string]interface{}{"results": exp, "prepares": l.Preps, "via": l.Via},
				Note:     "statement cache, waiters on a pending PrepareContext: real code and Model.StmtWait differ under a forced schedule"})
		}
		// the property itself, independent of the model
		bad := ""
		for t, s := range obs.Results {
			if s != lone {
				bad = fmt.Sprintf("goroutine %d (%s) returned %q; alone the operation returns %q", t,
					map[bool]string{true: "found the entry in the double check under Lock", false: "fast path / preparer"}[t <= c.Double && t != obs.Preparer], s, lone)
				break
			}
		}
		if bad != "" {
			r.H("stmtwait.result", "differs-from-lone-run")
			r.Violate(Violation{Kind: "e2e", Suite: "stmtwait", Input: c, Observed: map[string]interface{}{"detail": bad, "results": obs.Results, "preparer": obs.Preparer},
				Expected: "every goroutine returns " + lone + " (what the operation returns when it runs alone)",
				Note:     "an operation that waited for another goroutine's PrepareContext returns something else than alone"})
		} else if canon(got) == canon(exp) {
			r.H("stmtwait.result", "ok")
		}
		if len(r.Samples) < 4 {
			r.Sample(map[string]interface{}{"stmtwait": c, "results": obs.Results})
		}
	}
}

// c07swPrivateFailureProbe re-confirms finding F31 on the real statement cache: the PREPARER's PrepareContext fails for a reason
// that is private to that goroutine (its own context is cancelled — database/sql answers context.Canceled by itself), two
// goroutines with live contexts wait for it on the fast path: alone each of them gets its rows, here they get the preparer's
// "context canceled".  (The generators keep out of the pattern: at one operation index all goroutines share the context state.)
func c07swPrivateFailureProbe(r *Result) {
	c := c07swCase{Double: 0, Fast: 2, Ans: "ctx", Tx: false, Fin: "query"}
	obs := c07swRunReal(c)
	if obs.Status != "ok" || obs.Preparer != 0 || len(obs.Results) != 3 {
		r.Note("probe F31 (private preparation failure broadcast): inconclusive: %s", obs.Status)
		return
	}
	r.Case("stmtwait-probe", canon(c), true)
	waiters := obs.Results[1:]
	switch {
	case obs.Results[0] == "ctxCanceled" && waiters[0] == "ctxCanceled" && waiters[1] == "ctxCanceled":
		what := "goroutines with a live context that waited for another goroutine's PrepareContext return THAT goroutine's \"context canceled\" (alone they return their rows)"
		if listed("F31-C07-prepare-failure-broadcast") {
			r.KnownFinding("F31-C07-prepare-failure-broadcast", what)
		} else {
			r.Violate(Violation{Kind: "e2e", Suite: "stmtwait", Input: c, Observed: obs.Results, Expected: "[ctxCanceled rows rows]", Note: what})
		}
	case waiters[0] == "rows" && waiters[1] == "rows":
		r.Note("probe F31: did not reproduce — the waiters returned their rows (results %v)", obs.Results)
	default:
		r.Violate(Violation{Kind: "e2e", Suite: "stmtwait", Input: c, Observed: obs.Results, Expected: "[ctxCanceled rows rows] (or, listed finding F31, [ctxCanceled ctxCanceled ctxCanceled])",
			Note: "waiters on a preparation that failed for the preparer's private reason returned neither their rows nor the preparer's error"})
	}
}

func c07StmtWait(r *Result, rng *rand.Rand, tier string) {
	if o := os.Getenv("C07_ONLY"); o != "" && o != "stmtwait" {
		return
	}
	c07swPrivateFailureProbe(r)
	var cases []c07swCase
	maxN := 3
	if tier == "thorough" {
		maxN = 5
	}
	for d := 0; d <= maxN; d++ {
		for f := 0; f <= maxN; f++ {
			for _, ans := range []string{"err", "ok"} {
				for _, tx := range []bool{false, true} {
					for _, fin := range []string{"exec", "query", "row"} {
						if fin == "row" && ans == "err" {
							// QueryRowContext answers a failed preparation with an empty *sql.Row (no error to return): its Scan is
							// outside what the cache model describes
							continue
						}
						cases = append(cases, c07swCase{Double: d, Fast: f, Ans: ans, Tx: tx, Fin: fin})
					}
				}
			}
		}
	}
	rng.Shuffle(len(cases), func(i, j int) { cases[i], cases[j] = cases[j], cases[i] })
	stop := time.Now().Add(15 * time.Second)
	for i := 0; i < len(cases); i += 24 {
		if time.Now().After(stop) && tier != "thorough" {
			r.Note("stmtwait: wall-time bound reached after %d of %d forced schedules", i, len(cases))
			break
		}
		j := i + 24
		if j > len(cases) {
			j = len(cases)
		}
		before := len(r.Violations)
		c07swBatch(r, cases[i:j])
		if len(r.Violations) > before {
			break // every further case would cost the same timeouts; the violations found are replayable
		}
	}
}
