package main

// C20 relation-graph oracle: a fixed library of NAMED model families (reflect.StructOf cannot build related named types)
// covering several relations between the same two models — two belongs-to to one parent, belongs-to + has-many over the
// same / over different foreign keys, has-one + has-many, self references, many2many plus a direct relation, composite
// and renamed keys, named / disabled constraints, a polymorphic has-many, a cycle.  Each family comes in two versions
// with the SAME table names (TableName methods): V1 (before) and V2 (after relations / fields were added).
//
// Judged on SQLite, per family and per generated run configuration (order of the models passed to AutoMigrate, one call
// or several, fresh database or V1 history with rows):
//   * after every complete AutoMigrate the foreign keys the models declare are exactly the ones SQLite reports
//     (PRAGMA foreign_key_list: owning table, columns, referenced table, columns, ON DELETE/UPDATE when declared) —
//     each declared one exists, exactly once, none that nobody declared.  The expected list is WRITTEN BY HAND next to
//     the types below (never taken from Relationship.ParseConstraint);
//   * Migrator().HasConstraint reports every constraint name gorm's own parser attributes to a model of the family;
//   * a repeated AutoMigrate of the same models sends no CREATE / ALTER / DROP;
//   * rows stored before AutoMigrate(V2) keep every cell; a record of every V2 model is accepted and read back.
// Latitude: constraint names are free (judged by structure), the order of statements is free, how SQLite gets the
// constraint (table re-creation) is free.

import (
	"encoding/json"
	"fmt"
	"math/rand"
	"reflect"
	"sort"
	"strings"

	"gorm.io/gorm"
	"gorm.io/gorm/clause"
)

// ---- F01 single belongs-to -------------------------------------------------------------------
type C20rWriter1 struct {
	ID   uint
	Name string
}
type C20rPost1a struct {
	ID    uint
	Title string
}
type C20rPost1 struct {
	ID       uint
	Title    string
	AuthorID uint
	Author   C20rWriter1
}

func (C20rWriter1) TableName() string { return "c20r_writers" }
func (C20rPost1a) TableName() string  { return "c20r_posts" }
func (C20rPost1) TableName() string   { return "c20r_posts" }

// ---- F02 two belongs-to to the same parent ---------------------------------------------------
type C20rPost2a struct {
	ID       uint
	Title    string
	AuthorID uint
	Author   C20rWriter1
}
type C20rPost2 struct {
	ID       uint
	Title    string
	AuthorID uint
	Author   C20rWriter1
	EditorID *uint
	Editor   *C20rWriter1
}

func (C20rPost2a) TableName() string { return "c20r_posts" }
func (C20rPost2) TableName() string  { return "c20r_posts" }

// ---- F03 two belongs-to, the parent has-many over ONE of the two keys ---------------------------
type C20rWriter3a struct {
	ID    uint
	Name  string
	Posts []C20rPost3a `gorm:"foreignKey:AuthorID"`
}
type C20rPost3a struct {
	ID       uint
	Title    string
	AuthorID uint
	Author   *C20rWriter3a
}
type C20rWriter3 struct {
	ID    uint
	Name  string
	Posts []C20rPost3 `gorm:"foreignKey:AuthorID"`
}
type C20rPost3 struct {
	ID       uint
	Title    string
	AuthorID uint
	Author   *C20rWriter3
	EditorID uint
	Editor   *C20rWriter3
}

func (C20rWriter3a) TableName() string { return "c20r_writers" }
func (C20rPost3a) TableName() string   { return "c20r_posts" }
func (C20rWriter3) TableName() string  { return "c20r_writers" }
func (C20rPost3) TableName() string    { return "c20r_posts" }

// ---- F04 two belongs-to, the parent has-many over BOTH keys ------------------------------------
type C20rWriter4a struct {
	ID       uint
	Name     string
	Authored []C20rPost4a `gorm:"foreignKey:AuthorID"`
}
type C20rPost4a struct {
	ID       uint
	AuthorID uint
	Author   *C20rWriter4a
	EditorID uint // plain column in V1: the relation over it is added in V2
}
type C20rWriter4 struct {
	ID       uint
	Name     string
	Authored []C20rPost4 `gorm:"foreignKey:AuthorID"`
	Edited   []C20rPost4 `gorm:"foreignKey:EditorID"`
}
type C20rPost4 struct {
	ID       uint
	AuthorID uint
	Author   *C20rWriter4
	EditorID uint
	Editor   *C20rWriter4
}

func (C20rWriter4a) TableName() string { return "c20r_writers" }
func (C20rPost4a) TableName() string   { return "c20r_posts" }
func (C20rWriter4) TableName() string  { return "c20r_writers" }
func (C20rPost4) TableName() string    { return "c20r_posts" }

// ---- F05 has-many over one key, belongs-to over ANOTHER key between the same two models -----------
type C20rTeam5a struct {
	ID      uint
	Name    string
	Members []C20rPerson5a `gorm:"foreignKey:TeamID"`
}
type C20rPerson5a struct {
	ID     uint
	Name   string
	TeamID uint
}
type C20rTeam5 struct {
	ID      uint
	Name    string
	Members []C20rPerson5 `gorm:"foreignKey:TeamID"`
}
type C20rPerson5 struct {
	ID      uint
	Name    string
	TeamID  uint
	LeadsID *uint
	Leads   *C20rTeam5 `gorm:"foreignKey:LeadsID"`
}

func (C20rTeam5a) TableName() string   { return "c20r_teams" }
func (C20rPerson5a) TableName() string { return "c20r_persons" }
func (C20rTeam5) TableName() string    { return "c20r_teams" }
func (C20rPerson5) TableName() string  { return "c20r_persons" }

// ---- F06 self reference: belongs-to + has-many over the same key --------------------------------
type C20rNode6a struct {
	ID   uint
	Name string
}
type C20rNode6 struct {
	ID       uint
	Name     string
	ParentID *uint
	Parent   *C20rNode6
	Children []C20rNode6 `gorm:"foreignKey:ParentID"`
}

func (C20rNode6a) TableName() string { return "c20r_nodes" }
func (C20rNode6) TableName() string  { return "c20r_nodes" }

// ---- F07 two self references, has-many over one of them ---------------------------------------
type C20rEmp7a struct {
	ID        uint
	Name      string
	ManagerID *uint
	Manager   *C20rEmp7a
	Reports   []C20rEmp7a `gorm:"foreignKey:ManagerID"`
}
type C20rEmp7 struct {
	ID        uint
	Name      string
	ManagerID *uint
	Manager   *C20rEmp7
	Reports   []C20rEmp7 `gorm:"foreignKey:ManagerID"`
	MentorID  *uint
	Mentor    *C20rEmp7
}

func (C20rEmp7a) TableName() string { return "c20r_emps" }
func (C20rEmp7) TableName() string  { return "c20r_emps" }

// ---- F08 many2many plus a direct belongs-to between the same two models --------------------------
type C20rTag8 struct {
	ID   uint
	Name string
}
type C20rArticle8a struct {
	ID    uint
	Title string
	Tags  []C20rTag8 `gorm:"many2many:c20r_article_tags;joinForeignKey:ArticleID;joinReferences:TagID"`
}
type C20rArticle8 struct {
	ID        uint
	Title     string
	Tags      []C20rTag8 `gorm:"many2many:c20r_article_tags;joinForeignKey:ArticleID;joinReferences:TagID"`
	MainTagID *uint
	MainTag   *C20rTag8
}

func (C20rTag8) TableName() string      { return "c20r_tags" }
func (C20rArticle8a) TableName() string { return "c20r_articles" }
func (C20rArticle8) TableName() string  { return "c20r_articles" }

// ---- F09 many2many plus has-many to the same target -------------------------------------------
type C20rLang9 struct {
	ID      uint
	Name    string
	OwnerID *uint
}
type C20rUser9a struct {
	ID    uint
	Name  string
	Langs []C20rLang9 `gorm:"many2many:c20r_user_langs;joinForeignKey:UserID;joinReferences:LangID"`
}
type C20rUser9 struct {
	ID    uint
	Name  string
	Langs []C20rLang9 `gorm:"many2many:c20r_user_langs;joinForeignKey:UserID;joinReferences:LangID"`
	Owned []C20rLang9 `gorm:"foreignKey:OwnerID"`
}

func (C20rLang9) TableName() string  { return "c20r_langs" }
func (C20rUser9a) TableName() string { return "c20r_users" }
func (C20rUser9) TableName() string  { return "c20r_users" }

// ---- F10 has-one and its mirror belongs-to ---------------------------------------------------
type C20rUser10 struct {
	ID      uint
	Name    string
	Profile *C20rProfile10 `gorm:"foreignKey:UserID"`
}
type C20rProfile10 struct {
	ID     uint
	Bio    string
	UserID uint
	User   *C20rUser10
}

func (C20rUser10) TableName() string    { return "c20r_users" }
func (C20rProfile10) TableName() string { return "c20r_profiles" }

// ---- F11 has-one and has-many from the same parent to the same child over different keys -------------
type C20rTeam11a struct {
	ID      uint
	Name    string
	Members []C20rPerson11 `gorm:"foreignKey:TeamID"`
}
type C20rTeam11 struct {
	ID      uint
	Name    string
	Members []C20rPerson11 `gorm:"foreignKey:TeamID"`
	Lead    *C20rPerson11  `gorm:"foreignKey:LeadOfID"`
}
type C20rPerson11 struct {
	ID       uint
	Name     string
	TeamID   uint
	LeadOfID *uint
}

func (C20rTeam11a) TableName() string  { return "c20r_teams" }
func (C20rTeam11) TableName() string   { return "c20r_teams" }
func (C20rPerson11) TableName() string { return "c20r_persons" }

// ---- F12 / F13 composite keys: two belongs-to to a composite parent, has-many mirror over one ---------
type C20rRegion12 struct {
	Country string `gorm:"primaryKey;size:2"`
	Code    string `gorm:"primaryKey;size:8"`
	Name    string
}
type C20rCity12a struct {
	ID       uint
	Name     string
	RCountry string       `gorm:"size:2"`
	RCode    string       `gorm:"size:8"`
	Region   C20rRegion12 `gorm:"foreignKey:RCountry,RCode;references:Country,Code"`
}
type C20rCity12 struct {
	ID       uint
	Name     string
	RCountry string        `gorm:"size:2"`
	RCode    string        `gorm:"size:8"`
	Region   C20rRegion12  `gorm:"foreignKey:RCountry,RCode;references:Country,Code"`
	OCountry string        `gorm:"size:2"`
	OCode    string        `gorm:"size:8"`
	Origin   *C20rRegion12 `gorm:"foreignKey:OCountry,OCode;references:Country,Code"`
}

func (C20rRegion12) TableName() string { return "c20r_regions" }
func (C20rCity12a) TableName() string  { return "c20r_cities" }
func (C20rCity12) TableName() string   { return "c20r_cities" }

type C20rRegion13a struct {
	Country string        `gorm:"primaryKey;size:2"`
	Code    string        `gorm:"primaryKey;size:8"`
	Cities  []C20rCity13a `gorm:"foreignKey:RCountry,RCode;references:Country,Code"`
}
type C20rCity13a struct {
	ID       uint
	RCountry string         `gorm:"size:2"`
	RCode    string         `gorm:"size:8"`
	Region   *C20rRegion13a `gorm:"foreignKey:RCountry,RCode;references:Country,Code"`
}
type C20rRegion13 struct {
	Country string       `gorm:"primaryKey;size:2"`
	Code    string       `gorm:"primaryKey;size:8"`
	Cities  []C20rCity13 `gorm:"foreignKey:RCountry,RCode;references:Country,Code"`
}
type C20rCity13 struct {
	ID       uint
	RCountry string        `gorm:"size:2"`
	RCode    string        `gorm:"size:8"`
	Region   *C20rRegion13 `gorm:"foreignKey:RCountry,RCode;references:Country,Code"`
	OCountry string        `gorm:"size:2"`
	OCode    string        `gorm:"size:8"`
	Origin   *C20rRegion13 `gorm:"foreignKey:OCountry,OCode;references:Country,Code"`
}

func (C20rRegion13a) TableName() string { return "c20r_regions" }
func (C20rCity13a) TableName() string   { return "c20r_cities" }
func (C20rRegion13) TableName() string  { return "c20r_regions" }
func (C20rCity13) TableName() string    { return "c20r_cities" }

// ---- F14 references a non-primary unique column plus the primary key of the same parent ---------------
type C20rOrg14 struct {
	ID   uint
	Code string `gorm:"uniqueIndex;size:20"`
}
type C20rMember14a struct {
	ID        uint
	HomeOrgID uint
	HomeOrg   C20rOrg14
}
type C20rMember14 struct {
	ID        uint
	HomeOrgID uint
	HomeOrg   C20rOrg14
	OrgCode   string    `gorm:"size:20"`
	Org       C20rOrg14 `gorm:"foreignKey:OrgCode;references:Code"`
}

func (C20rOrg14) TableName() string     { return "c20r_orgs" }
func (C20rMember14a) TableName() string { return "c20r_members" }
func (C20rMember14) TableName() string  { return "c20r_members" }

// ---- F15 named constraints with actions, one relation switched off ------------------------------
type C20rPost15a struct {
	ID       uint
	AuthorID uint
	Author   C20rWriter1 `gorm:"constraint:fk_c20r_author,OnDelete:CASCADE"`
}
type C20rPost15 struct {
	ID         uint
	AuthorID   uint
	Author     C20rWriter1 `gorm:"constraint:fk_c20r_author,OnDelete:CASCADE"`
	EditorID   *uint
	Editor     *C20rWriter1 `gorm:"constraint:fk_c20r_editor,OnUpdate:CASCADE,OnDelete:SET NULL"`
	ReviewerID *uint
	Reviewer   *C20rWriter1 `gorm:"constraint:-"`
}

func (C20rPost15a) TableName() string { return "c20r_posts" }
func (C20rPost15) TableName() string  { return "c20r_posts" }

// ---- F16 polymorphic has-many (no constraint) plus a direct belongs-to the other way ------------------
type C20rPic16 struct {
	ID        uint
	URL       string
	OwnerID   uint
	OwnerType string
}
type C20rAlbum16a struct {
	ID   uint
	Pics []C20rPic16 `gorm:"polymorphic:Owner"`
}
type C20rAlbum16 struct {
	ID      uint
	Pics    []C20rPic16 `gorm:"polymorphic:Owner"`
	CoverID *uint
	Cover   *C20rPic16
}

func (C20rPic16) TableName() string    { return "c20r_pics" }
func (C20rAlbum16a) TableName() string { return "c20r_albums" }
func (C20rAlbum16) TableName() string  { return "c20r_albums" }

// ---- F17 cycle ---------------------------------------------------------------------------
type C20rA17 struct {
	ID  uint
	BID *uint
	B   *C20rB17
}
type C20rB17 struct {
	ID  uint
	AID *uint
	A   *C20rA17
}

func (C20rA17) TableName() string { return "c20r_as" }
func (C20rB17) TableName() string { return "c20r_bs" }

// ---- F18 renamed key columns on both sides, has-many over the SECOND key ---------------------------
type C20rWriter18a struct {
	ID   uint `gorm:"column:wid;primaryKey"`
	Name string
}
type C20rPost18a struct {
	ID       uint
	AuthorID uint           `gorm:"column:auth_ref"`
	Author   *C20rWriter18a `gorm:"foreignKey:AuthorID"`
}
type C20rWriter18 struct {
	ID    uint `gorm:"column:wid;primaryKey"`
	Name  string
	Posts []C20rPost18 `gorm:"foreignKey:EditorID"`
}
type C20rPost18 struct {
	ID       uint
	AuthorID uint          `gorm:"column:auth_ref"`
	Author   *C20rWriter18 `gorm:"foreignKey:AuthorID"`
	EditorID uint          `gorm:"column:ed_ref"`
	Editor   *C20rWriter18 `gorm:"foreignKey:EditorID"`
}

func (C20rWriter18a) TableName() string { return "c20r_writers" }
func (C20rPost18a) TableName() string   { return "c20r_posts" }
func (C20rWriter18) TableName() string  { return "c20r_writers" }
func (C20rPost18) TableName() string    { return "c20r_posts" }

// ---- F19 composite belongs-to next to a has-many over the FIRST of its two columns only ----------------
type C20rRegion19 struct {
	Country string       `gorm:"primaryKey;size:2"`
	Code    string       `gorm:"primaryKey;size:8"`
	Cities  []C20rCity19 `gorm:"foreignKey:RCountry;references:Country"`
}
type C20rCity19 struct {
	ID       uint
	RCountry string        `gorm:"size:2"`
	RCode    string        `gorm:"size:8"`
	Region   *C20rRegion19 `gorm:"foreignKey:RCountry,RCode;references:Country,Code"`
}

func (C20rRegion19) TableName() string { return "c20r_regions" }
func (C20rCity19) TableName() string   { return "c20r_cities" }

// ---- the library -----------------------------------------------------------------------------

type c20Family struct {
	Name   string
	V1, V2 []interface{}
	FK1    []c20WantFK // foreign keys declared by V1
	FK2    []c20WantFK // foreign keys declared by V2
	Tables []string    // every table of the family (V2), incl. join tables
	NoSolo []int       // V2 models whose table carries a foreign key that only ANOTHER model's has-one/has-many declares:
	//                    migrated alone on a cold schema cache they need not know about it (parse history), so not judged alone
}

func c20fk(table string, from string, ref string, to string) c20WantFK {
	return c20WantFK{Table: table, From: strings.Split(from, ","), Ref: ref, To: strings.Split(to, ",")}
}

var c20Families = []c20Family{
	{Name: "F01-single-belongs-to",
		V1: []interface{}{&C20rWriter1{}, &C20rPost1a{}}, V2: []interface{}{&C20rWriter1{}, &C20rPost1{}},
		FK2:    []c20WantFK{c20fk("c20r_posts", "author_id", "c20r_writers", "id")},
		Tables: []string{"c20r_writers", "c20r_posts"}},
	{Name: "F02-two-belongs-to-same-parent",
		V1: []interface{}{&C20rWriter1{}, &C20rPost2a{}}, V2: []interface{}{&C20rWriter1{}, &C20rPost2{}},
		FK1:    []c20WantFK{c20fk("c20r_posts", "author_id", "c20r_writers", "id")},
		FK2:    []c20WantFK{c20fk("c20r_posts", "author_id", "c20r_writers", "id"), c20fk("c20r_posts", "editor_id", "c20r_writers", "id")},
		Tables: []string{"c20r_writers", "c20r_posts"}},
	{Name: "F03-two-belongs-to-hasmany-over-one",
		V1: []interface{}{&C20rWriter3a{}, &C20rPost3a{}}, V2: []interface{}{&C20rWriter3{}, &C20rPost3{}},
		FK1:    []c20WantFK{c20fk("c20r_posts", "author_id", "c20r_writers", "id")},
		FK2:    []c20WantFK{c20fk("c20r_posts", "author_id", "c20r_writers", "id"), c20fk("c20r_posts", "editor_id", "c20r_writers", "id")},
		Tables: []string{"c20r_writers", "c20r_posts"}},
	{Name: "F04-two-belongs-to-hasmany-over-both",
		V1: []interface{}{&C20rWriter4a{}, &C20rPost4a{}}, V2: []interface{}{&C20rWriter4{}, &C20rPost4{}},
		FK1:    []c20WantFK{c20fk("c20r_posts", "author_id", "c20r_writers", "id")},
		FK2:    []c20WantFK{c20fk("c20r_posts", "author_id", "c20r_writers", "id"), c20fk("c20r_posts", "editor_id", "c20r_writers", "id")},
		Tables: []string{"c20r_writers", "c20r_posts"}},
	{Name: "F05-hasmany-and-belongs-to-over-different-keys",
		V1: []interface{}{&C20rTeam5a{}, &C20rPerson5a{}}, V2: []interface{}{&C20rTeam5{}, &C20rPerson5{}},
		FK1:    []c20WantFK{c20fk("c20r_persons", "team_id", "c20r_teams", "id")},
		FK2:    []c20WantFK{c20fk("c20r_persons", "team_id", "c20r_teams", "id"), c20fk("c20r_persons", "leads_id", "c20r_teams", "id")},
		NoSolo: []int{1}, Tables: []string{"c20r_teams", "c20r_persons"}},
	{Name: "F06-self-reference",
		V1: []interface{}{&C20rNode6a{}}, V2: []interface{}{&C20rNode6{}},
		FK2:    []c20WantFK{c20fk("c20r_nodes", "parent_id", "c20r_nodes", "id")},
		Tables: []string{"c20r_nodes"}},
	{Name: "F07-two-self-references",
		V1: []interface{}{&C20rEmp7a{}}, V2: []interface{}{&C20rEmp7{}},
		FK1:    []c20WantFK{c20fk("c20r_emps", "manager_id", "c20r_emps", "id")},
		FK2:    []c20WantFK{c20fk("c20r_emps", "manager_id", "c20r_emps", "id"), c20fk("c20r_emps", "mentor_id", "c20r_emps", "id")},
		Tables: []string{"c20r_emps"}},
	{Name: "F08-many2many-plus-belongs-to",
		V1: []interface{}{&C20rTag8{}, &C20rArticle8a{}}, V2: []interface{}{&C20rTag8{}, &C20rArticle8{}},
		FK1: []c20WantFK{c20fk("c20r_article_tags", "article_id", "c20r_articles", "id"), c20fk("c20r_article_tags", "tag_id", "c20r_tags", "id")},
		FK2: []c20WantFK{c20fk("c20r_article_tags", "article_id", "c20r_articles", "id"), c20fk("c20r_article_tags", "tag_id", "c20r_tags", "id"),
			c20fk("c20r_articles", "main_tag_id", "c20r_tags", "id")},
		Tables: []string{"c20r_tags", "c20r_articles", "c20r_article_tags"}},
	{Name: "F09-many2many-plus-hasmany",
		V1: []interface{}{&C20rLang9{}, &C20rUser9a{}}, V2: []interface{}{&C20rLang9{}, &C20rUser9{}},
		FK1: []c20WantFK{c20fk("c20r_user_langs", "user_id", "c20r_users", "id"), c20fk("c20r_user_langs", "lang_id", "c20r_langs", "id")},
		FK2: []c20WantFK{c20fk("c20r_user_langs", "user_id", "c20r_users", "id"), c20fk("c20r_user_langs", "lang_id", "c20r_langs", "id"),
			c20fk("c20r_langs", "owner_id", "c20r_users", "id")},
		NoSolo: []int{0}, Tables: []string{"c20r_langs", "c20r_users", "c20r_user_langs"}},
	{Name: "F10-hasone-and-mirror-belongs-to",
		V2:     []interface{}{&C20rUser10{}, &C20rProfile10{}},
		FK2:    []c20WantFK{c20fk("c20r_profiles", "user_id", "c20r_users", "id")},
		Tables: []string{"c20r_users", "c20r_profiles"}},
	{Name: "F11-hasone-and-hasmany-different-keys",
		V1: []interface{}{&C20rTeam11a{}, &C20rPerson11{}}, V2: []interface{}{&C20rTeam11{}, &C20rPerson11{}},
		FK1:    []c20WantFK{c20fk("c20r_persons", "team_id", "c20r_teams", "id")},
		FK2:    []c20WantFK{c20fk("c20r_persons", "team_id", "c20r_teams", "id"), c20fk("c20r_persons", "lead_of_id", "c20r_teams", "id")},
		NoSolo: []int{1}, Tables: []string{"c20r_teams", "c20r_persons"}},
	{Name: "F12-composite-two-belongs-to",
		V1: []interface{}{&C20rRegion12{}, &C20rCity12a{}}, V2: []interface{}{&C20rRegion12{}, &C20rCity12{}},
		FK1:    []c20WantFK{c20fk("c20r_cities", "r_country,r_code", "c20r_regions", "country,code")},
		FK2:    []c20WantFK{c20fk("c20r_cities", "r_country,r_code", "c20r_regions", "country,code"), c20fk("c20r_cities", "o_country,o_code", "c20r_regions", "country,code")},
		Tables: []string{"c20r_regions", "c20r_cities"}},
	{Name: "F13-composite-hasmany-mirror-plus-second-belongs-to",
		V1: []interface{}{&C20rRegion13a{}, &C20rCity13a{}}, V2: []interface{}{&C20rRegion13{}, &C20rCity13{}},
		FK1:    []c20WantFK{c20fk("c20r_cities", "r_country,r_code", "c20r_regions", "country,code")},
		FK2:    []c20WantFK{c20fk("c20r_cities", "r_country,r_code", "c20r_regions", "country,code"), c20fk("c20r_cities", "o_country,o_code", "c20r_regions", "country,code")},
		Tables: []string{"c20r_regions", "c20r_cities"}},
	{Name: "F14-references-unique-column-and-primary-key",
		V1: []interface{}{&C20rOrg14{}, &C20rMember14a{}}, V2: []interface{}{&C20rOrg14{}, &C20rMember14{}},
		FK1:    []c20WantFK{c20fk("c20r_members", "home_org_id", "c20r_orgs", "id")},
		FK2:    []c20WantFK{c20fk("c20r_members", "home_org_id", "c20r_orgs", "id"), c20fk("c20r_members", "org_code", "c20r_orgs", "code")},
		Tables: []string{"c20r_orgs", "c20r_members"}},
	{Name: "F15-named-constraints-and-a-disabled-one",
		V1: []interface{}{&C20rWriter1{}, &C20rPost15a{}}, V2: []interface{}{&C20rWriter1{}, &C20rPost15{}},
		FK1: []c20WantFK{{Table: "c20r_posts", From: []string{"author_id"}, Ref: "c20r_writers", To: []string{"id"}, Name: "fk_c20r_author", OnDelete: "CASCADE"}},
		FK2: []c20WantFK{{Table: "c20r_posts", From: []string{"author_id"}, Ref: "c20r_writers", To: []string{"id"}, Name: "fk_c20r_author", OnDelete: "CASCADE"},
			{Table: "c20r_posts", From: []string{"editor_id"}, Ref: "c20r_writers", To: []string{"id"}, Name: "fk_c20r_editor", OnDelete: "SET NULL", OnUpdate: "CASCADE"}},
		Tables: []string{"c20r_writers", "c20r_posts"}},
	{Name: "F16-polymorphic-hasmany-plus-belongs-to",
		V1: []interface{}{&C20rPic16{}, &C20rAlbum16a{}}, V2: []interface{}{&C20rPic16{}, &C20rAlbum16{}},
		FK2:    []c20WantFK{c20fk("c20r_albums", "cover_id", "c20r_pics", "id")},
		Tables: []string{"c20r_pics", "c20r_albums"}},
	{Name: "F17-cycle",
		V2:     []interface{}{&C20rA17{}, &C20rB17{}},
		FK2:    []c20WantFK{c20fk("c20r_as", "b_id", "c20r_bs", "id"), c20fk("c20r_bs", "a_id", "c20r_as", "id")},
		Tables: []string{"c20r_as", "c20r_bs"}},
	{Name: "F19-composite-belongs-to-and-hasmany-over-its-first-column",
		V2: []interface{}{&C20rRegion19{}, &C20rCity19{}},
		FK2: []c20WantFK{c20fk("c20r_cities", "r_country,r_code", "c20r_regions", "country,code"), c20fk("c20r_cities", "r_country", "c20r_regions", "country")},
		NoSolo: []int{1}, Tables: []string{"c20r_regions", "c20r_cities"}},
	{Name: "F18-renamed-key-columns-hasmany-over-second-key",
		V1: []interface{}{&C20rWriter18a{}, &C20rPost18a{}}, V2: []interface{}{&C20rWriter18{}, &C20rPost18{}},
		FK1:    []c20WantFK{c20fk("c20r_posts", "auth_ref", "c20r_writers", "wid")},
		FK2:    []c20WantFK{c20fk("c20r_posts", "auth_ref", "c20r_writers", "wid"), c20fk("c20r_posts", "ed_ref", "c20r_writers", "wid")},
		Tables: []string{"c20r_writers", "c20r_posts"}},
}

func c20FamilyByName(n string) *c20Family {
	for i := range c20Families {
		if c20Families[i].Name == n {
			return &c20Families[i]
		}
	}
	return nil
}

// one run configuration: which family, fresh or with history, and how the models are handed to AutoMigrate
type c20RelSpec struct {
	Family string  `json:"family"`
	Later  bool    `json:"later"`  // migrate V1 first, store rows, then V2
	Order1 []int   `json:"order1"` // permutation of V1 for the V1 call
	Calls2 [][]int `json:"calls2"` // AutoMigrate calls for V2: index lists into V2; the LAST call names every model
	Warm   bool    `json:"warm"`   // parse all V2 models before migrating them (schema cache warm)
	Solo   bool    `json:"solo"`   // Calls2 is ONE call naming ONE model: its dependencies must be auto-added
}

type c20RelOutcome struct {
	Stage    string   `json:"stage"`
	Verdict  string   `json:"verdict"`
	Expected string   `json:"expected,omitempty"`
	Observed string   `json:"observed,omitempty"`
	DDL      []string `json:"ddl,omitempty"`
	Master   []string `json:"sqlite_master,omitempty"`
	Err      string   `json:"err,omitempty"`
}

func c20fkKey(table string, ref string, from, to []string, ond, onu string) string {
	return strings.ToLower(table + "(" + strings.Join(from, ",") + ")->" + ref + "(" + strings.Join(to, ",") + ")" + ond + onu)
}

// c20JudgeFKs: the foreign keys SQLite reports for the family's tables are exactly `want` (multiset).
func c20JudgeFKs(db *gorm.DB, rec *Recorder, tables []string, want []c20WantFK) (verdict, expected, observed string) {
	var haveKeys, wantKeys []string
	type hv struct {
		table string
		h     c20HaveFK
	}
	var have []hv
	for _, t := range tables {
		for _, h := range c20FKList(db, rec, t) {
			have = append(have, hv{t, h})
			haveKeys = append(haveKeys, c20fkKey(t, h.Ref, h.From, h.To, "", ""))
		}
	}
	for _, w := range want {
		wantKeys = append(wantKeys, c20fkKey(w.Table, w.Ref, w.From, w.To, "", ""))
	}
	sort.Strings(haveKeys)
	sort.Strings(wantKeys)
	cnt := map[string]int{}
	for _, k := range haveKeys {
		cnt[k]++
	}
	for _, w := range want {
		k := c20fkKey(w.Table, w.Ref, w.From, w.To, "", "")
		if cnt[k] == 0 {
			return "declared foreign key " + k + " does not exist after AutoMigrate", strings.Join(wantKeys, " ; "), strings.Join(haveKeys, " ; ")
		}
	}
	wc := map[string]int{}
	for _, k := range wantKeys {
		wc[k]++
	}
	for k, n := range cnt {
		if n > wc[k] {
			if wc[k] == 0 {
				return "foreign key " + k + " exists although no model declares it", strings.Join(wantKeys, " ; "), strings.Join(haveKeys, " ; ")
			}
			return fmt.Sprintf("foreign key %s exists %d times (added although not missing)", k, n), strings.Join(wantKeys, " ; "), strings.Join(haveKeys, " ; ")
		}
	}
	for _, w := range want {
		if w.OnDelete == "" && w.OnUpdate == "" {
			continue
		}
		for _, h := range have {
			if c20fkKey(h.table, h.h.Ref, h.h.From, h.h.To, "", "") != c20fkKey(w.Table, w.Ref, w.From, w.To, "", "") {
				continue
			}
			if (w.OnDelete != "" && !strings.EqualFold(w.OnDelete, h.h.OnDelete)) || (w.OnUpdate != "" && !strings.EqualFold(w.OnUpdate, h.h.OnUpdate)) {
				return "foreign key " + c20fkKey(w.Table, w.Ref, w.From, w.To, "", "") + " lacks the declared ON DELETE / ON UPDATE action",
					w.OnDelete + "/" + w.OnUpdate, h.h.OnDelete + "/" + h.h.OnUpdate
			}
		}
	}
	return "", "", ""
}

// c20AskFKs: every constraint gorm's own parser attributes to a model (and every name spelled in a tag) is reported by HasConstraint.
func c20AskFKs(db *gorm.DB, models []interface{}, want []c20WantFK) (string, string, string) {
	mg := db.Session(&gorm.Session{NewDB: true}).Migrator()
	for _, m := range models {
		st := &gorm.Statement{DB: db}
		if err := st.Parse(m); err != nil {
			continue
		}
		for _, rel := range st.Schema.Relationships.Relations {
			if rel.Field.IgnoreMigration {
				continue
			}
			if c := rel.ParseConstraint(); c != nil && c.Schema == st.Schema && !mg.HasConstraint(m, c.Name) {
				return "Migrator().HasConstraint(" + st.Schema.Table + ", " + c.Name + ") = false after AutoMigrate although the model declares the relation constraint", "true", "false"
			}
		}
		for _, w := range want {
			if w.Name != "" && w.Table == st.Schema.Table && !mg.HasConstraint(m, w.Name) {
				return "Migrator().HasConstraint(" + st.Schema.Table + ", " + w.Name + ") = false after AutoMigrate although the tag names it", "true", "false"
			}
		}
	}
	return "", "", ""
}

// generic rows: two rows per table written with raw SQL from the table's own column list
func c20SeedRows(db *gorm.DB, rec *Recorder, table string) (cols []string, err error) {
	c20Quiet(rec, func() {
		s := db.Session(&gorm.Session{NewDB: true})
		rows, e := s.Raw("SELECT name, type, pk FROM pragma_table_info(?)", table).Rows()
		if e != nil {
			err = e
			return
		}
		type ci struct {
			n, t string
			pk   int
		}
		var cis []ci
		npk := 0
		for rows.Next() {
			var c ci
			rows.Scan(&c.n, &c.t, &c.pk)
			cis = append(cis, c)
			if c.pk > 0 {
				npk++
			}
		}
		rows.Close()
		for _, c := range cis {
			cols = append(cols, c.n)
		}
		for k := 1; k <= 2; k++ {
			var names, vals []string
			for _, c := range cis {
				t := strings.ToLower(c.t)
				if c.pk > 0 && npk == 1 && strings.HasPrefix(t, "integer") {
					continue
				}
				names = append(names, "`"+c.n+"`")
				switch {
				case strings.HasPrefix(t, "integer") || strings.HasPrefix(t, "numeric"):
					vals = append(vals, fmt.Sprint(k))
				case strings.HasPrefix(t, "real"):
					vals = append(vals, fmt.Sprintf("%d.5", k))
				case strings.HasPrefix(t, "datetime"):
					vals = append(vals, fmt.Sprintf("'2020-01-0%d 00:00:00'", k))
				case strings.HasPrefix(t, "blob"):
					vals = append(vals, fmt.Sprintf("x'0%d'", k))
				default:
					vals = append(vals, fmt.Sprintf("'t%d'", k))
				}
			}
			q := "INSERT INTO `" + table + "` DEFAULT VALUES"
			if len(names) > 0 {
				q = "INSERT INTO `" + table + "` (" + strings.Join(names, ",") + ") VALUES (" + strings.Join(vals, ",") + ")"
			}
			if e := s.Exec(q).Error; e != nil {
				err = e
				return
			}
		}
	})
	return
}

func c20TableExists(db *gorm.DB, rec *Recorder, table string) bool {
	var n int
	c20Quiet(rec, func() {
		db.Session(&gorm.Session{NewDB: true}).Raw("SELECT count(*) FROM sqlite_master WHERE type = 'table' AND name = ?", table).Row().Scan(&n)
	})
	return n > 0
}

func c20RunRel(sp c20RelSpec) (out c20RelOutcome) {
	defer func() {
		if p := recover(); p != nil {
			out = c20RelOutcome{Stage: "panic", Verdict: "AutoMigrate of a relation family panicked", Err: fmt.Sprint(p)}
		}
	}()
	fam := c20FamilyByName(sp.Family)
	if fam == nil {
		return c20RelOutcome{Stage: "bad-input"}
	}
	db, rec := c20Open("c20r_anon")
	if sq, e := db.DB(); e == nil {
		defer sq.Close()
	}
	fail := func(stage, v, e, o string) c20RelOutcome {
		out.Stage, out.Verdict, out.Expected, out.Observed = stage, v, e, o
		out.Master = c20Master(db, rec)
		return out
	}
	pick := func(ms []interface{}, idx []int) []interface{} {
		var r []interface{}
		for _, i := range idx {
			if i >= 0 && i < len(ms) {
				r = append(r, ms[i])
			}
		}
		return r
	}
	type dump struct {
		table string
		cols  []string
		rows  []string
	}
	var dumps []dump
	if sp.Later && len(fam.V1) > 0 {
		if err := db.AutoMigrate(pick(fam.V1, sp.Order1)...); err != nil {
			return fail("v1", "AutoMigrate(V1) returned an error", "", err.Error())
		}
		if v, e, o := c20JudgeFKs(db, rec, fam.Tables, fam.FK1); v != "" {
			return fail("v1-exists", v, e, o)
		}
		if v, e, o := c20AskFKs(db, fam.V1, fam.FK1); v != "" {
			return fail("v1-exists", v, e, o)
		}
		for _, t := range fam.Tables {
			if !c20TableExists(db, rec, t) {
				continue
			}
			cols, err := c20SeedRows(db, rec, t)
			if err != nil {
				return c20RelOutcome{Stage: "seed-rows-rejected", Err: err.Error()}
			}
			d, _ := c20Dump(db, rec, t, cols)
			dumps = append(dumps, dump{t, cols, d})
		}
		rec.Reset()
		err := db.AutoMigrate(pick(fam.V1, sp.Order1)...)
		if ddl := c20SchemaStmts(rec.Snapshot()); err != nil || len(ddl) > 0 {
			out.DDL = ddl
			return fail("second", "second identical AutoMigrate(V1) issued schema-changing statements or failed", "no CREATE/ALTER/DROP", strings.Join(ddl, " ;; ")+fmt.Sprint(err))
		}
	}
	if sp.Warm {
		for _, m := range fam.V2 {
			st := &gorm.Statement{DB: db}
			_ = st.Parse(m)
		}
	}
	rec.Reset()
	for _, call := range sp.Calls2 {
		if err := db.AutoMigrate(pick(fam.V2, call)...); err != nil {
			out.DDL = c20SchemaStmts(rec.Snapshot())
			return fail("v2", "AutoMigrate(V2) returned an error", "", err.Error())
		}
	}
	out.DDL = c20SchemaStmts(rec.Snapshot())
	for _, d := range dumps {
		now, err := c20Dump(db, rec, d.table, d.cols)
		if err != nil || canon(now) != canon(d.rows) {
			return fail("v2", "rows of "+d.table+" changed across AutoMigrate(V2)", canon(d.rows), canon(now)+fmt.Sprint(err))
		}
	}
	if sp.Solo {
		// one model was named: the foreign keys ITS table declares exist, and so does every table they reference
		// (ReorderModels adds the models a constraint depends on)
		solo := pick(fam.V2, sp.Calls2[0])
		st := &gorm.Statement{DB: db}
		if len(solo) != 1 || st.Parse(solo[0]) != nil {
			return c20RelOutcome{Stage: "bad-input"}
		}
		var own []c20WantFK
		for _, w := range fam.FK2 {
			if w.Table == st.Schema.Table {
				own = append(own, w)
				if !c20TableExists(db, rec, w.Ref) {
					return fail("solo", "AutoMigrate("+st.Schema.Table+") declares a foreign key to "+w.Ref+" but that table was not created (dependency not auto-added)", w.Ref, "missing")
				}
			}
		}
		if v, e, o := c20JudgeFKs(db, rec, []string{st.Schema.Table}, own); v != "" {
			return fail("solo", v, e, o)
		}
		rec.Reset()
		err := db.AutoMigrate(solo...)
		if ddl := c20SchemaStmts(rec.Snapshot()); err != nil || len(ddl) > 0 {
			out.DDL = ddl
			return fail("again", "repeated AutoMigrate of one model issued schema-changing statements or failed", "no CREATE/ALTER/DROP", strings.Join(ddl, " ;; ")+" "+fmt.Sprint(err))
		}
		out.Stage = "ok"
		return
	}
	if v, e, o := c20JudgeFKs(db, rec, fam.Tables, fam.FK2); v != "" {
		return fail("v2-exists", v, e, o)
	}
	if v, e, o := c20AskFKs(db, fam.V2, fam.FK2); v != "" {
		return fail("v2-exists", v, e, o)
	}
	// a record of every V2 model is accepted and returned
	for _, m := range fam.V2 {
		st := &gorm.Statement{DB: db}
		if err := st.Parse(m); err != nil {
			continue
		}
		recv := reflect.New(reflect.TypeOf(m).Elem())
		for _, pf := range st.Schema.PrimaryFields {
			switch pf.FieldType.Kind() {
			case reflect.String:
				_ = pf.Set(db.Statement.Context, recv, "k9")
			default:
				_ = pf.Set(db.Statement.Context, recv, 9)
			}
		}
		var cerr, rerr error
		got := reflect.New(reflect.TypeOf(m).Elem())
		c20Quiet(rec, func() {
			cerr = db.Session(&gorm.Session{NewDB: true}).Omit(clause.Associations).Create(recv.Interface()).Error
			if cerr == nil {
				q := db.Session(&gorm.Session{NewDB: true})
				for _, pf := range st.Schema.PrimaryFields {
					v, _ := pf.ValueOf(db.Statement.Context, recv)
					q = q.Where("`"+pf.DBName+"` = ?", v)
				}
				rerr = q.Take(got.Interface()).Error
			}
		})
		if cerr != nil {
			return fail("v2-create", "migrated table "+st.Schema.Table+" rejects a record of the V2 model", "", cerr.Error())
		}
		if rerr != nil {
			return fail("v2-read", "record of the V2 model cannot be read back from "+st.Schema.Table, "", rerr.Error())
		}
	}
	// a further identical AutoMigrate(V2): silent, and still the same foreign keys
	last := sp.Calls2[len(sp.Calls2)-1]
	rec.Reset()
	err := db.AutoMigrate(pick(fam.V2, last)...)
	if ddl := c20SchemaStmts(rec.Snapshot()); err != nil || len(ddl) > 0 {
		out.DDL = ddl
		return fail("again", "AutoMigrate(V2) on the database AutoMigrate(V2) produced issued schema-changing statements or failed", "no CREATE/ALTER/DROP", strings.Join(ddl, " ;; ")+" "+fmt.Sprint(err))
	}
	if v, e, o := c20JudgeFKs(db, rec, fam.Tables, fam.FK2); v != "" {
		return fail("again", v, e, o)
	}
	out.Stage = "ok"
	return
}

func c20GenRel(rng *rand.Rand) c20RelSpec {
	fam := c20Families[rng.Intn(len(c20Families))]
	sp := c20RelSpec{Family: fam.Name, Later: len(fam.V1) > 0 && rng.Intn(3) > 0, Warm: rng.Intn(4) == 0}
	sp.Order1 = rng.Perm(len(fam.V1))
	n := len(fam.V2)
	if n > 1 && rng.Intn(3) == 0 { // a partial call first (one model alone: dependencies are auto-added), then everything
		sp.Calls2 = append(sp.Calls2, []int{rng.Intn(n)})
	}
	sp.Calls2 = append(sp.Calls2, rng.Perm(n))
	if !sp.Later && rng.Intn(4) == 0 { // fresh database, one model named alone
		k := rng.Intn(n)
		ok := true
		for _, x := range fam.NoSolo {
			ok = ok && x != k
		}
		if ok {
			sp.Solo, sp.Warm = true, false
			sp.Calls2 = [][]int{{k}}
		}
	}
	return sp
}

func c20JudgeRel(r *Result, sp c20RelSpec) c20RelOutcome {
	o := c20RunRel(sp)
	r.H("rel.stage", o.Stage)
	if o.Verdict != "" {
		r.Violate(Violation{Kind: "e2e", Suite: "relations", Input: sp, Observed: o, Expected: o.Expected, Note: o.Verdict})
	}
	return o
}

func c20ReplayRel(r *Result, input json.RawMessage) {
	var sp c20RelSpec
	if err := json.Unmarshal(input, &sp); err != nil {
		r.Note("bad replay input: %v", err)
		return
	}
	c20JudgeRel(r, sp)
}

func c20RelSuite(r *Result, rng *rand.Rand, tier string) {
	if !c20Only("relations") {
		return
	}
	n := 400
	if tier == "thorough" {
		n = 4000
	} else if tier == "search" {
		n = 1500
	}
	for i := 0; i < n && !expired(); i++ {
		var sp c20RelSpec
		if i < 2*len(c20Families) { // every family at least once fresh and once with history, whatever the seed
			fam := c20Families[i/2]
			sp = c20GenRel(rng)
			sp.Family, sp.Later = fam.Name, i%2 == 1 && len(fam.V1) > 0
			sp.Order1 = rng.Perm(len(fam.V1))
			sp.Calls2 = [][]int{rng.Perm(len(fam.V2))}
		} else {
			sp = c20GenRel(rng)
		}
		o := c20JudgeRel(r, sp)
		r.Case("relations", canon(sp), o.Stage == "ok")
		r.H("rel.family", sp.Family)
		r.H("rel.mode", fmt.Sprintf("later=%v calls=%d warm=%v solo=%v", sp.Later, len(sp.Calls2), sp.Warm, sp.Solo))
		if i < 2 {
			r.Sample(sp)
		}
	}
}

func init() {
	register("C20", c20RelSuite)
	replayers["C20/relations"] = c20ReplayRel
}
