package main

// Client for the Lean model driver (line protocol: one JSON array in, one JSON value out).

import (
	"bufio"
	"bytes"
	"encoding/json"
	"fmt"
	"os"
	"os/exec"
)

var driverPath = "/verif/lean/.lake/build/bin/driver"

// AskLean sends all ops in one process run and returns the raw JSON outputs, one per op.
func AskLean(ops [][]interface{}) ([]json.RawMessage, error) {
	var in bytes.Buffer
	for _, op := range ops {
		b, err := json.Marshal(op)
		if err != nil {
			return nil, err
		}
		in.Write(b)
		in.WriteByte('\n')
	}
	cmd := exec.Command(driverPath)
	cmd.Stdin = &in
	cmd.Stderr = os.Stderr
	out, err := cmd.Output()
	if err != nil {
		return nil, fmt.Errorf("lean driver: %w", err)
	}
	var res []json.RawMessage
	sc := bufio.NewScanner(bytes.NewReader(out))
	sc.Buffer(make([]byte, 1<<20), 1<<28)
	for sc.Scan() {
		line := append([]byte(nil), sc.Bytes()...)
		res = append(res, json.RawMessage(line))
	}
	if len(res) != len(ops) {
		return nil, fmt.Errorf("lean driver returned %d lines for %d ops", len(res), len(ops))
	}
	return res, nil
}

// canon re-marshals arbitrary JSON-able data into canonical text (map keys sorted by encoding/json).
func canon(v interface{}) string {
	b, err := json.Marshal(v)
	if err != nil {
		return "<unmarshalable:" + err.Error() + ">"
	}
	var x interface{}
	if err := json.Unmarshal(b, &x); err != nil {
		return string(b)
	}
	b2, _ := json.Marshal(x)
	return string(b2)
}

func canonRaw(r json.RawMessage) string {
	var x interface{}
	if err := json.Unmarshal(r, &x); err != nil {
		return string(r)
	}
	b, _ := json.Marshal(x)
	return string(b)
}
