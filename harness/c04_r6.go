package main

// C04 round 6 — suite "nestform": write forms that are THEMSELVES transaction blocks, placed inside blocks.
//
// `CreateInBatches` with more rows than the batch size (and `Create` under `CreateBatchSize`) hands its batches to
// `tx.Transaction(callFc)`: outside a transaction that is a root block (BEGIN … COMMIT/ROLLBACK), inside a transaction /
// a hook's transaction / a user save point it is a NESTED block (SAVEPOINT … ROLLBACK TO). The property's sentences
//     "none are [durable] if it returned an error" and
//     "a nested block that fails undoes only its own writes and leaves the enclosing transaction usable"
// therefore apply to it exactly as to a block the caller writes by hand. The suite issues such a compound form with a
// failure in a LATER internal step (a later batch, the association statement of a batch, a hook of a later element, an
// injected driver fault at any INSERT of the compound), lets the enclosing function SWALLOW the error, go on writing and
// commit, and judges the complete contents of seven tables:
//     compound returned an error, compound is a block     → none of its rows; every other form's writes as in the reference run
//     compound returned nil (no failure was delivered)    → all of its rows
//     the forms after it must succeed (enclosing transaction usable), the program ends with nil, nothing leaks,
//     no write of the transaction's function runs outside its driver transaction.
// Control kind "explicit": the same batches written as `h.Transaction(func(t){ t.Create(batch)… })`.
//
// Latitudes: where gorm's own wrap decision says "no block" (SkipDefaultTransaction by config or session, a single batch) or
// the property says "undoes nothing by itself" (DisableNestedTransaction inside a transaction), the rows of a FAILED compound are
// not judged (everything else still is). A compound that returns nil although a failure was delivered is property C05's business.

import (
	"context"
	"encoding/json"
	"errors"
	"fmt"
	"math/rand"
	"reflect"
	"sort"
	"strings"
	"time"

	"gorm.io/gorm"
)

type C04rItem struct {
	ID   int64  `gorm:"primaryKey;autoIncrement:false"`
	Code string `gorm:"uniqueIndex"`
	N    int64
	Subs []C04rSub `gorm:"foreignKey:ItemID"`
}

type C04rSub struct {
	ID     int64 `gorm:"primaryKey;autoIncrement:false"`
	ItemID int64
	Tag    string `gorm:"uniqueIndex"`
}

type C04rBox struct {
	ID   int64 `gorm:"primaryKey;autoIncrement:false"`
	Name string
	Plan *c04rPlan `gorm:"-"`
}

func (C04rItem) TableName() string { return "c04r_items" }
func (C04rSub) TableName() string  { return "c04r_subs" }
func (C04rBox) TableName() string  { return "c04r_boxes" }

var errC04rHook = errors.New("c04r: hook refuses the element")
var c04rHookFired int

func (it *C04rItem) BeforeCreate(tx *gorm.DB) error {
	if strings.HasPrefix(it.Code, "hookfail") {
		c04rHookFired++
		return errC04rHook
	}
	return nil
}

func (it *C04rItem) AfterCreate(tx *gorm.DB) error {
	if strings.HasPrefix(it.Code, "afterfail") {
		c04rHookFired++
		return errC04rHook
	}
	return nil
}

// the hook runs a compound on the hook's transaction handle, SWALLOWS its error and lets the enclosing Create go on
func (b *C04rBox) AfterCreate(tx *gorm.DB) error {
	if b.Plan != nil {
		b.Plan.ran = true
		b.Plan.err = b.Plan.run(tx)
	}
	return nil
}

type c04rPlan struct {
	run func(h *gorm.DB) error
	ran bool
	err error
}

// Kind of the compound
var c04rKinds = []string{"cib", "cib-val", "cib-ptrs", "cib-array", "cib-maps", "cib-subs", "batchsize-create", "explicit", "hook-cib", "hook-batchsize-create", "fib-cib", "fib-batchsize-create"}

// Mode: what fails; At: in which batch
var c04rModes = []string{"none", "dup-pk", "dup-code", "hook-before", "hook-after", "sub-dup", "inject"}

var c04rSites = []string{"none", "blk", "blk-err", "man", "nested", "nested-err", "sp"}

// handle derivation of the compound only (on top of the case's handle)
var c04rCHs = []string{"same", "Model()", "Session{}", "WithContext", "Table()"}

var c04rHandles = []string{"tx", "Session{}", "WithContext", "Session{PrepareStmt}", "Session{NewDB}", "Session{SkipDefaultTransaction}", "Session{SkipHooks}"}

type c04rCase struct {
	Cfg    c04Cfg   `json:"cfg"`
	Site   string   `json:"site"`
	Handle string   `json:"handle"`
	CH     string   `json:"compound_handle"`
	Kind   string   `json:"kind"`
	N      int      `json:"n"`
	BS     int      `json:"batch_size"`
	Mode   string   `json:"mode"`
	At     int      `json:"at"`     // failing batch (natural modes) / index of the compound's INSERT call that is failed (inject)
	Pre    []string `json:"pre"`    // forms of c04_forms.go before the compound
	Post   []string `json:"post"`   // … after it
	Inner2 bool     `json:"inner2"` // nested sites: one more write inside the inner block before the compound
}

type c04rObs struct {
	Calls     []c04fCall `json:"calls"`
	Res       string     `json:"res"`
	CErr      string     `json:"compound_err"`
	Ran       bool       `json:"compound_ran"`
	Delivered bool       `json:"failure_delivered"`
	Rows      []string   `json:"rows"`
	Verdicts  []string   `json:"verdicts"`
	Open      int64      `json:"open"`
	InUse     int        `json:"inuse"`
	InjAt     int        `json:"injected_call"`
	IDs       []int64    `json:"ids"`
}

func (c *c04rCase) batches() int {
	if c.BS <= 0 {
		return 1
	}
	return (c.N + c.BS - 1) / c.BS
}

// the elements of the compound: ids 100.., the failing element is the LAST of batch At
func (c *c04rCase) items() []C04rItem {
	out := make([]C04rItem, c.N)
	for i := range out {
		id := int64(100 + i)
		out[i] = C04rItem{ID: id, Code: fmt.Sprintf("c%d", id), N: int64(i)}
		if c.Kind == "cib-subs" || c.Mode == "sub-dup" {
			out[i].Subs = []C04rSub{{ID: 1000 + id, Tag: fmt.Sprintf("s%d", id)}}
		}
	}
	if c.Mode == "none" || c.Mode == "inject" {
		return out
	}
	k := c.At*c.BS + c.BS - 1
	if k >= c.N {
		k = c.N - 1
	}
	switch c.Mode {
	case "dup-pk":
		out[k].ID = 1
	case "dup-code":
		out[k].Code = "taken"
	case "hook-before":
		out[k].Code = fmt.Sprintf("hookfail%d", out[k].ID)
	case "hook-after":
		out[k].Code = fmt.Sprintf("afterfail%d", out[k].ID)
	case "sub-dup":
		out[k].Subs = []C04rSub{{ID: 1000 + out[k].ID, Tag: "taken"}} // the association upsert resolves key conflicts only
	}
	return out
}

func (c *c04rCase) wantCompound() []string {
	var rows []string
	for _, it := range c.items() {
		rows = append(rows, fmt.Sprintf("ritem %d code=%s n=%d", it.ID, it.Code, it.N))
		if c.Kind != "cib-maps" {
			for _, s := range it.Subs {
				rows = append(rows, fmt.Sprintf("rsub %d item=%d tag=%s", s.ID, it.ID, s.Tag))
			}
		}
	}
	return rows
}

func c04rIsCompoundRow(row string) bool {
	var id int64
	if strings.HasPrefix(row, "ritem ") {
		fmt.Sscanf(row, "ritem %d", &id)
		return id >= 100
	}
	if strings.HasPrefix(row, "rsub ") {
		fmt.Sscanf(row, "rsub %d", &id)
		return id >= 1000
	}
	return false
}

// the compound as a function of the handle it is issued through
func (c *c04rCase) compound() func(h *gorm.DB) error {
	items := c.items()
	kind := c.Kind
	if strings.HasPrefix(kind, "hook-") {
		kind = strings.TrimPrefix(kind, "hook-")
	}
	fib := strings.HasPrefix(kind, "fib-")
	if fib {
		kind = strings.TrimPrefix(kind, "fib-")
	}
	var inner func(h *gorm.DB) error
	inner = func(h *gorm.DB) error {
		switch c.CH {
		case "Model()":
			h = h.Model(&C04rItem{})
		case "Session{}":
			h = h.Session(&gorm.Session{})
		case "WithContext":
			h = h.WithContext(context.WithValue(context.Background(), c04CtxKey{}, "nestform"))
		case "Table()":
			h = h.Table("c04r_items")
		}
		switch kind {
		case "cib", "cib-subs":
			return h.CreateInBatches(&items, c.BS).Error
		case "cib-val":
			return h.CreateInBatches(items, c.BS).Error
		case "cib-ptrs":
			ps := make([]*C04rItem, len(items))
			for i := range items {
				ps[i] = &items[i]
			}
			return h.CreateInBatches(ps, c.BS).Error
		case "cib-array":
			arr := reflect.New(reflect.ArrayOf(len(items), reflect.TypeOf(C04rItem{})))
			for i := range items {
				arr.Elem().Index(i).Set(reflect.ValueOf(items[i]))
			}
			return h.CreateInBatches(arr.Interface(), c.BS).Error
		case "cib-maps":
			ms := make([]map[string]interface{}, len(items))
			for i, it := range items {
				ms[i] = map[string]interface{}{"id": it.ID, "code": it.Code, "n": it.N}
			}
			if c.CH != "Table()" {
				h = h.Model(&C04rItem{})
			}
			return h.CreateInBatches(ms, c.BS).Error
		case "batchsize-create":
			return h.Session(&gorm.Session{CreateBatchSize: c.BS}).Create(&items).Error
		case "explicit":
			return h.Transaction(func(t *gorm.DB) error {
				for i := 0; i < len(items); i += c.BS {
					e := i + c.BS
					if e > len(items) {
						e = len(items)
					}
					b := items[i:e]
					if err := t.Create(&b).Error; err != nil {
						return err
					}
				}
				return nil
			})
		}
		panic("c04r: unknown kind " + c.Kind)
	}
	if !fib {
		return inner
	}
	// the compound issued by the SECOND callback run of a FindInBatches over the two initial items, through a fresh session of
	// the callback's handle; the callback returns its error, FindInBatches stops and reports it
	return func(h *gorm.DB) error {
		var page []C04rItem
		return h.Model(&C04rItem{}).Where("id <= ?", 2).FindInBatches(&page, 1, func(t *gorm.DB, batch int) error {
			if batch != 2 {
				return nil
			}
			return inner(t.Session(&gorm.Session{NewDB: true}))
		}).Error
	}
}

// does the property (together with gorm's documented wrap decision) make the FAILED compound a block that undoes its writes?
func (c *c04rCase) failedIsJudged() bool {
	hook := strings.HasPrefix(c.Kind, "hook-")
	skip := c.Cfg.Skip || c.Handle == "Session{SkipDefaultTransaction}"
	inTx := c.Site != "none" || (hook && !skip)
	if c.Cfg.Dis && inTx {
		return false
	}
	if c.Kind == "explicit" {
		return true
	}
	if skip || c.batches() < 2 {
		return false
	}
	return true
}

// ---------------------------------------------------------------- world

type c04rWorld struct{ *c04fWorld }

func c04rOpen(cfg c04Cfg) *c04rWorld {
	w := c04fOpen(cfg)
	w.rec.mu.Lock()
	w.rec.Off = true
	w.rec.mu.Unlock()
	if err := w.db.AutoMigrate(&C04rItem{}, &C04rSub{}, &C04rBox{}); err != nil {
		panic(err)
	}
	w.rec.mu.Lock()
	w.rec.Off = false
	w.rec.mu.Unlock()
	return &c04rWorld{w}
}

var c04rInit = []string{
	"DELETE FROM c04r_subs", "DELETE FROM c04r_items", "DELETE FROM c04r_boxes",
	"INSERT INTO c04r_items (id, code, n) VALUES (1, 'taken', 0), (2, 'second', 0)",
	"INSERT INTO c04r_subs (id, item_id, tag) VALUES (1, 1, 'taken')",
}

func (w *c04rWorld) resetAll() error {
	w.rec.mu.Lock()
	w.rec.Off = true
	w.rec.Fault = nil
	w.rec.mu.Unlock()
	for _, q := range c04rInit {
		if _, err := w.sqlDB.Exec(q); err != nil {
			return err
		}
	}
	return w.resetForms()
}

func (w *c04rWorld) dumpAll() ([]string, []int64) {
	rows, ids := w.dumpForms()
	w.rec.mu.Lock()
	w.rec.Off = true
	w.rec.mu.Unlock()
	defer func() { w.rec.mu.Lock(); w.rec.Off = false; w.rec.mu.Unlock() }()
	q := func(sqlText string, f func(a, b int64, s string) string) {
		rs, err := w.sqlDB.Query(sqlText)
		if err != nil {
			rows = append(rows, "ERR "+err.Error())
			return
		}
		defer rs.Close()
		for rs.Next() {
			var a, b int64
			var s string
			if err := rs.Scan(&a, &b, &s); err != nil {
				rows = append(rows, "ERR "+err.Error())
				return
			}
			rows = append(rows, f(a, b, s))
		}
	}
	q("SELECT id, n, code FROM c04r_items ORDER BY id", func(a, b int64, s string) string {
		ids = append(ids, 5000+a) // the model's row identity of an item
		return fmt.Sprintf("ritem %d code=%s n=%d", a, s, b)
	})
	q("SELECT id, item_id, tag FROM c04r_subs ORDER BY id", func(a, b int64, s string) string { return fmt.Sprintf("rsub %d item=%d tag=%s", a, b, s) })
	q("SELECT id, 0, name FROM c04r_boxes ORDER BY id", func(a, b int64, s string) string { return fmt.Sprintf("rbox %d name=%s", a, s) })
	sort.Slice(ids, func(i, j int) bool { return ids[i] < ids[j] })
	return rows, ids
}

// two more plain forms on the compound's own table
var c04rItemPre = c04fForm{"item-pre", func(h *gorm.DB) error { return h.Create(&C04rItem{ID: 50, Code: "pre50"}).Error }, []c04fStmt{c04fW(c04fCE, 5050)}}
var c04rItemPost = c04fForm{"item-post", func(h *gorm.DB) error {
	return h.Model(&C04rItem{}).Where("id = ?", 2).Update("n", 9).Error
}, []c04fStmt{c04fW(c04fUE, 0)}}
var c04rInner2 = c04fForm{"inner2", func(h *gorm.DB) error { return h.Create(&C04rItem{ID: 51, Code: "inner51"}).Error }, nil}

// ---------------------------------------------------------------- run

type c04rSuite struct {
	r      *Result
	forms  map[string]c04fForm
	worlds map[c04Cfg]*c04rWorld
	ref    *c04rWorld
	refs   map[string][]string
	refIDs map[string][]int64
	cases  []*c04rCase
	obs    []*c04rObs
}

func c04rNewSuite(r *Result) *c04rSuite {
	s := &c04rSuite{r: r, forms: map[string]c04fForm{}, worlds: map[c04Cfg]*c04rWorld{}, refs: map[string][]string{}, refIDs: map[string][]int64{}}
	for _, f := range c04fForms() {
		s.forms[f.Name] = f
	}
	for _, f := range []c04fForm{c04rItemPre, c04rItemPost, c04rInner2} {
		s.forms[f.Name] = f
	}
	s.forms["box"] = c04fForm{"box", func(h *gorm.DB) error { return h.Create(&C04rBox{ID: 70, Name: "box"}).Error }, nil}
	return s
}

func (s *c04rSuite) world(cfg c04Cfg) *c04rWorld {
	if w, ok := s.worlds[cfg]; ok {
		return w
	}
	w := c04rOpen(cfg)
	s.worlds[cfg] = w
	return w
}

func (s *c04rSuite) close() {
	for _, w := range s.worlds {
		w.close()
	}
	if s.ref != nil {
		s.ref.close()
	}
}

// reference: the OTHER forms through the plain handle without any transaction
func (s *c04rSuite) reference(names []string) ([]string, error) {
	key := strings.Join(names, "|")
	if r, ok := s.refs[key]; ok {
		return r, nil
	}
	if s.ref == nil {
		s.ref = c04rOpen(c04Cfg{Skip: true})
	}
	if err := s.ref.resetAll(); err != nil {
		return nil, err
	}
	for _, n := range names {
		if err := s.forms[n].Run(s.ref.db); err != nil {
			return nil, fmt.Errorf("reference run of %s: %v", n, err)
		}
	}
	rows, ids := s.ref.dumpAll()
	s.refs[key] = rows
	s.refIDs[key] = ids
	return rows, nil
}

func (s *c04rSuite) exec(c *c04rCase) *c04rObs {
	w := s.world(c.Cfg)
	o := &c04rObs{InjAt: -1}
	if err := w.resetAll(); err != nil {
		w.close()
		*w = *c04rOpen(w.cfg)
		if err := w.resetAll(); err != nil {
			panic(err)
		}
	}
	inFn, txOrd, escaped, inCompound := false, 0, false, false
	calls, cw := 0, 0
	injected := false
	w.rec.mu.Lock()
	w.rec.Fault = func(idx int, ev *Event) error {
		t := c04Tok(ev)
		if t == "" {
			return nil
		}
		k := calls
		calls++
		_, ord := w.tags.tag()
		o.Calls = append(o.Calls, c04fCall{Tok: t, Ord: ord, SQL: ev.SQL, In: inFn})
		if inFn && txOrd > 0 && ord != txOrd && (t == "W" || t == "S" || t == "T") && !escaped {
			escaped = true
			o.Verdicts = append(o.Verdicts, fmt.Sprintf("call %d (%s %q) was issued by the function of transaction #%d but ran in driver transaction #%d (0 = none): it escapes the block's commit/rollback", k, t, ev.SQL, txOrd, ord))
		}
		if inCompound && t == "W" {
			n := cw
			cw++
			if c.Mode == "inject" && n == c.At {
				o.Calls[len(o.Calls)-1].Tok = "W!"
				injected = true
				o.InjAt = k
				return &c04InjErr{k}
			}
		}
		return nil
	}
	w.rec.mu.Unlock()
	hooks0 := c04rHookFired
	userErr := &c04UserErr{tag: 77}
	enter := func() {
		w.tags.mu.Lock()
		txOrd = w.tags.nBegun
		w.tags.mu.Unlock()
		inFn = true
	}
	var formErrs []string
	runForms := func(h *gorm.DB, names []string) {
		for _, n := range names {
			if err := s.forms[n].Run(h); err != nil {
				formErrs = append(formErrs, fmt.Sprintf("%s: %v", n, err))
			}
		}
	}
	comp := c.compound()
	var cerr error
	runCompound := func(h *gorm.DB) {
		if strings.HasPrefix(c.Kind, "hook-") {
			plan := &c04rPlan{run: func(t *gorm.DB) error {
				inCompound = true
				defer func() { inCompound = false }()
				return comp(t)
			}}
			if err := h.Create(&C04rBox{ID: 70, Name: "box", Plan: plan}).Error; err != nil {
				formErrs = append(formErrs, fmt.Sprintf("box: %v", err))
			}
			o.Ran, cerr = plan.ran, plan.err
			return
		}
		inCompound = true
		cerr = comp(h)
		inCompound = false
		o.Ran = true
	}
	body := func(tx *gorm.DB) {
		h := c04fDeriveHandle(tx, c.Handle)
		runForms(h, c.Pre)
		runCompound(h)
		runForms(h, c.Post)
	}
	var ret error
	var pan interface{}
	panicked := false
	func() {
		done := false
		defer func() {
			if !done {
				pan = recover()
				panicked = true
			}
			inFn = false
		}()
		switch c.Site {
		case "none":
			body(w.db)
		case "blk", "blk-err":
			ret = w.db.Transaction(func(tx *gorm.DB) error {
				enter()
				defer func() { inFn = false }()
				body(tx)
				if c.Site == "blk-err" {
					return userErr
				}
				return nil
			})
		case "man", "sp":
			tx := w.db.Begin()
			if tx.Error != nil {
				ret = tx.Error
				break
			}
			enter()
			if c.Site == "sp" {
				runForms(tx, []string{"item-pre"})
				if err := tx.SavePoint("s1").Error; err != nil {
					formErrs = append(formErrs, fmt.Sprintf("SavePoint: %v", err))
				}
			}
			body(tx)
			inFn = false
			ret = tx.Commit().Error
		case "nested", "nested-err":
			ret = w.db.Transaction(func(tx *gorm.DB) error {
				enter()
				defer func() { inFn = false }()
				runForms(tx, []string{"item-pre"})
				nerr := tx.Transaction(func(tx2 *gorm.DB) error {
					if c.Inner2 {
						runForms(tx2, []string{"inner2"})
					}
					body(tx2)
					if c.Site == "nested-err" {
						return userErr
					}
					return nil
				})
				if c.Site == "nested-err" && nerr != error(userErr) {
					o.Verdicts = append(o.Verdicts, fmt.Sprintf("nested block returned %v instead of the function's error", nerr))
				}
				if c.Site == "nested" && nerr != nil {
					o.Verdicts = append(o.Verdicts, fmt.Sprintf("nested block whose function returned nil returned %v", nerr))
				}
				runForms(tx, []string{"item-post"})
				return nil
			})
		}
		done = true
	}()
	w.rec.mu.Lock()
	w.rec.Fault = nil
	w.rec.mu.Unlock()
	o.Delivered = injected || c04rHookFired != hooks0 || c.Mode == "dup-pk" || c.Mode == "dup-code" || c.Mode == "sub-dup"
	if cerr != nil {
		o.CErr = cerr.Error()
	}
	switch {
	case panicked:
		o.Res = fmt.Sprintf("panic:%v", pan)
	case ret != nil:
		o.Res = "err:" + ret.Error()
		if ret == error(userErr) {
			o.Res = "err:<the function's error>"
		}
	default:
		o.Res = "nil"
	}
	for _, fe := range formErrs {
		o.Verdicts = append(o.Verdicts, "a form issued through the enclosing transaction's handle before/after the swallowed failure of the compound failed (enclosing transaction not usable): "+fe)
	}
	o.Open = w.rec.OpenTx
	o.InUse = w.sqlDB.Stats().InUse
	if o.Open != 0 || o.InUse != 0 {
		w.close()
		*w = *c04rOpen(w.cfg)
		o.Verdicts = append(o.Verdicts, fmt.Sprintf("leak: %d driver transaction(s) open, %d connection(s) in use after the program", o.Open, o.InUse))
		return o
	}
	o.Rows, o.IDs = w.dumpAll()
	return o
}

// the forms other than the compound whose writes the property makes durable
func (c *c04rCase) durableOthers() []string {
	var box []string
	if strings.HasPrefix(c.Kind, "hook-") {
		box = []string{"box"}
	}
	mid := append(append(append([]string{}, c.Pre...), box...), c.Post...)
	site := c.Site
	if site == "nested-err" && c.Cfg.Dis {
		site = "nested" // nested transactions disabled: the failing inner block undoes nothing by itself, the outer one commits
	}
	switch site {
	case "none", "blk", "man":
		return mid
	case "sp":
		return append([]string{"item-pre"}, mid...)
	case "nested":
		out := []string{"item-pre"}
		if c.Inner2 {
			out = append(out, "inner2")
		}
		return append(append(out, mid...), "item-post")
	case "nested-err":
		return []string{"item-pre", "item-post"}
	}
	return nil // blk-err
}

func (s *c04rSuite) judge(c *c04rCase, o *c04rObs) {
	verdicts := append([]string{}, o.Verdicts...)
	leaked := o.Open != 0 || o.InUse != 0
	if !leaked {
		want, err := s.reference(c.durableOthers())
		if err != nil {
			s.r.Note("nestform: %v", err)
			return
		}
		wantRes := "nil"
		if c.Site == "blk-err" {
			wantRes = "err:<the function's error>"
		}
		if o.Res != wantRes {
			verdicts = append(verdicts, fmt.Sprintf("the program must end with %s (every failure was swallowed by the function), got %s", wantRes, o.Res))
		}
		outerKeeps := c.Site != "blk-err" && (c.Site != "nested-err" || c.Cfg.Dis)
		got := o.Rows
		how := ""
		switch {
		case !o.Ran || !outerKeeps:
			how = "the compound did not run or the enclosing block is undone: none of its rows"
		case o.CErr == "" && !o.Delivered:
			want = append(append([]string{}, want...), c.wantCompound()...)
			how = "the compound returned nil: all of its rows"
		case o.CErr != "" && c.failedIsJudged():
			how = "the compound is a transaction block that returned an error: none of its rows, everything else as if it had not been there"
		default:
			// not judged: drop the compound's rows on both sides
			how = "rows of the compound not judged"
			var g []string
			for _, x := range got {
				if !c04rIsCompoundRow(x) {
					g = append(g, x)
				}
			}
			got = g
		}
		s.r.H("nestform_oracle", strings.SplitN(how, ":", 2)[0])
		gs, ws := append([]string{}, got...), append([]string{}, want...)
		sort.Strings(gs)
		sort.Strings(ws)
		if canon(gs) != canon(ws) {
			verdicts = append(verdicts, fmt.Sprintf("final contents differ from what the property demands (%s; compound error %q): %s", how, o.CErr, c04fDiff(gs, ws)))
		}
	}
	if len(verdicts) > 0 {
		s.r.Violate(Violation{Kind: "e2e", Suite: "nestform", Input: c, Observed: o, Expected: "see note", Note: strings.Join(verdicts, " || ")})
	}
}

func (s *c04rSuite) run(c *c04rCase) *c04rObs {
	o := s.exec(c)
	s.r.Case("nestform", canon(c), c.Mode != "none")
	s.r.H("nestform_site", c.Site)
	s.r.H("nestform_kind", c.Kind)
	s.r.H("nestform_mode", c.Mode)
	s.r.H("nestform_handle", c.Handle+"/"+c.CH)
	s.r.H("nestform_cfg", c.Cfg.String())
	s.r.H("nestform_batches", fmt.Sprintf("%d of %d, failing %d", c.batches(), c.N, c.At))
	s.r.H("nestform_compound_failed", fmt.Sprint(o.CErr != ""))
	s.judge(c, o)
	s.cases, s.obs = append(s.cases, c), append(s.obs, o)
	if len(s.cases) >= 3000 {
		s.flush()
	}
	return o
}

// ---------------------------------------------------------------- tie
//
// Model/TxForms.lean already has the item `FItem.nested fs out tag` = `_ = h.Transaction(func(tx2) error { fs; out })`. A
// multi-batch CreateInBatches on a transaction handle IS that item with one multi-row INSERT form per batch (each `must`: callFc
// returns the first batch error) and `out = return nil` — provided the wrap decision of finisher_api.go says "Transaction"
// (regenerated: Gen.cibWrapDecision, theorem C04_batches_wrap_decision); a single batch is one form whose error the function
// ignores. The same program runs on `runFProg`; compared: kinds of all driver calls (SAVEPOINT / INSERTs / ROLLBACK TO …), the
// driver transaction of each, final row identities, result.
func (s *c04rSuite) encode(c *c04rCase, o *c04rObs) (outer []interface{}, items []interface{}, ok bool) {
	switch c.Kind {
	case "cib", "cib-val", "cib-ptrs", "cib-array", "cib-maps", "batchsize-create", "explicit":
	default:
		return nil, nil, false
	}
	if c.Mode != "none" && c.Mode != "dup-pk" && c.Mode != "inject" {
		return nil, nil, false
	}
	if c.Cfg.Dis || c.Cfg.Skip || c.Handle == "Session{SkipDefaultTransaction}" || !o.Ran {
		return nil, nil, false
	}
	switch c.Site {
	case "blk":
		outer = []interface{}{"blk", 0, 77}
	case "blk-err":
		outer = []interface{}{"blk", 1, 77}
	case "man", "sp":
		outer = []interface{}{"man", 0}
	default:
		return nil, nil, false
	}
	ok = true
	ops := func(names []string) []interface{} {
		out := []interface{}{}
		for _, n := range names {
			f := s.forms[n]
			if f.Stmts == nil {
				ok = false
				return out
			}
			var st []interface{}
			for _, x := range f.Stmts {
				st = append(st, x.enc())
			}
			out = append(out, []interface{}{st, true})
		}
		return out
	}
	its := c.items()
	var batches []interface{}
	wrap := c.Kind == "explicit" || c.batches() >= 2
	for i := 0; i < len(its); i += c.BS {
		e := i + c.BS
		if e > len(its) {
			e = len(its)
		}
		var ids []int64
		for _, it := range its[i:e] {
			ids = append(ids, 5000+it.ID)
		}
		batches = append(batches, []interface{}{[]interface{}{c04fW(c04fCE, ids...).enc()}, wrap})
	}
	if c.Site == "sp" { // Begin; item-pre; SavePoint("s1"); …; Commit — the compound's own save point nests inside the user's
		items = []interface{}{[]interface{}{"ops", ops([]string{"item-pre"})}, []interface{}{"sp", 1}}
	}
	items = append(items, []interface{}{"ops", ops(c.Pre)})
	if wrap {
		items = append(items, []interface{}{"nested", batches, 0, 78})
	} else {
		items = append(items, []interface{}{"ops", batches})
	}
	items = append(items, []interface{}{"ops", ops(c.Post)})
	return outer, items, ok
}

func (s *c04rSuite) flush() {
	r := s.r
	var ops [][]interface{}
	var idx []int
	defer func() { s.cases, s.obs = nil, nil }()
	if _, err := s.reference(nil); err != nil {
		return
	}
	initIDs := s.refIDs[""]
	for i, c := range s.cases {
		o := s.obs[i]
		outer, items, ok := s.encode(c, o)
		if !ok || o.Open != 0 || o.InUse != 0 {
			r.H("nestform_tie", "e2e-only")
			continue
		}
		mask := []int{}
		if o.InjAt >= 0 {
			mask = []int{o.InjAt}
		}
		ops = append(ops, []interface{}{"tx.fprog", c.Cfg, mask, initIDs, outer, items})
		idx = append(idx, i)
	}
	if len(ops) == 0 {
		return
	}
	outs, err := AskLean(ops)
	if err != nil {
		r.Violate(Violation{Kind: "correspondence", Suite: "nestform", Note: err.Error()})
		return
	}
	for j, i := range idx {
		c, o := s.cases[i], s.obs[i]
		r.CorrCompared++
		r.H("nestform_tie", "compared")
		var m struct {
			Store []int64       `json:"store"`
			Res   []interface{} `json:"res"`
			Open  int64         `json:"open"`
			Trace []string      `json:"trace"`
			TxOf  []int         `json:"txof"`
		}
		if e := json.Unmarshal(outs[j], &m); e != nil {
			r.Violate(Violation{Kind: "correspondence", Suite: "nestform", Input: c, Observed: o, Expected: string(outs[j]),
				Note: "the model rejects the program"})
			continue
		}
		var trace []string
		var txof []int
		for _, cl := range o.Calls {
			trace = append(trace, cl.Tok)
			txof = append(txof, cl.Ord)
		}
		res := "nil"
		if len(m.Res) > 0 && (m.Res[0] == "err" || m.Res[0] == "panic") {
			res = fmt.Sprint(m.Res[0])
		}
		ids := o.IDs
		if ids == nil {
			ids = []int64{}
		}
		real := map[string]interface{}{"trace": trace, "txof": txof, "ids": ids, "res": strings.SplitN(o.Res, ":", 2)[0], "open": o.Open}
		model := map[string]interface{}{"trace": m.Trace, "txof": m.TxOf, "ids": m.Store, "res": res, "open": m.Open}
		if canon(real) != canon(model) {
			r.Violate(Violation{Kind: "correspondence", Suite: "nestform", Input: c, Observed: real, Expected: model,
				Note: "CreateInBatches / Create+CreateBatchSize inside a transaction: real gorm vs Model/TxForms.lean runFProg with the compound as the nested-block item `FItem.nested` (wrap decision: regenerated Gen.cibWrapDecision) — driver-call kinds, driver transaction of every call, final row identities, result"})
		}
	}
}

func (c *c04rCase) normalise() bool {
	if c.Kind == "cib-maps" && (c.Mode == "sub-dup" || c.Mode == "hook-before" || c.Mode == "hook-after") {
		return false
	}
	if c.BS < 1 || c.N < 1 {
		return false
	}
	if strings.HasPrefix(c.Kind, "hook-") && (c.CH == "Session{}" || c.CH == "WithContext") {
		// gorm quirk outside this property: a hook's handle is Session{NewDB:true} of the running statement; a plain Session{} /
		// WithContext on it resurrects that statement (Model = the hook's own model), so the batches would go to the wrong table
		c.CH = "same"
	}
	if c.Kind == "hook-batchsize-create" && c.CH == "same" {
		c.CH = "Model()" // Session{CreateBatchSize} directly on the hook's handle: same quirk
	}
	if c.Mode == "none" {
		c.At = 0
	} else if c.Mode != "inject" && c.At >= c.batches() {
		c.At = c.batches() - 1
	}
	return c04fCompatible(append(append([]string{}, c.Pre...), c.Post...))
}

func init() {
	register("C04", c04rSweep)
	replayers["C04/nestform"] = func(r *Result, input json.RawMessage) {
		var sw struct {
			Sweep int64  `json:"sweep"` // debugging aid: {"sweep": seed, "tier": "quick"} runs the whole suite alone
			Tier  string `json:"tier"`
		}
		if json.Unmarshal(input, &sw) == nil && sw.Sweep != 0 {
			t0 := time.Now()
			c04rSweep(r, rand.New(rand.NewSource(sw.Sweep)), sw.Tier)
			fmt.Printf("sweep: %d cases (%d non-trivial) in %v; %s\n", r.Evaluations, r.Nontrivial, time.Since(t0), canon(r.Hist["nestform_oracle"])+canon(r.Hist["nestform_tie"]))
			for i, v := range r.Violations {
				if i < 5 {
					fmt.Printf("VIOLATION %s\n  %s\n", canon(v.Input), v.Note)
				}
			}
			return
		}
		var c c04rCase
		if err := json.Unmarshal(input, &c); err != nil {
			r.Note("bad replay input: %v", err)
			return
		}
		s := c04rNewSuite(r)
		defer s.close()
		o := s.run(&c)
		s.flush()
		fmt.Printf("replayed: %s\n", canon(o))
	}
}

func c04rSweep(r *Result, rng *rand.Rand, tier string) {
	{
		s := c04rNewSuite(r)
		defer s.close()
		budget := 7 * time.Second
		if tier != "quick" {
			budget = 60 * time.Second
		}
		stop := time.Now().Add(budget)
		over := func() bool { return expired() || time.Now().After(stop) }
		cfgs := c04Cfgs()
		var names []string
		for _, f := range c04fForms() {
			names = append(names, f.Name)
		}
		names = append(names, "item-pre", "item-post")
		off := rng.Intn(1 << 16)
		shapes := [][2]int{{4, 2}, {3, 2}, {3, 1}, {5, 2}, {6, 3}, {2, 1}, {4, 3}, {2, 2}, {3, 5}}
		// 1. every kind × site × mode, a LATER batch failing; configuration / handles / shape rotating with the run's seed
		n := 0
		for ki, kind := range c04rKinds {
			for si, site := range c04rSites {
				for mi, mode := range c04rModes {
					n++
					sh := shapes[(off+n)%6] // multi-batch shapes
					c := &c04rCase{Cfg: cfgs[(off+ki+si*3+mi*5)%len(cfgs)], Site: site, Handle: c04rHandles[(off+ki*2+si+mi)%len(c04rHandles)],
						CH: c04rCHs[(off+n)%len(c04rCHs)], Kind: kind, N: sh[0], BS: sh[1], Mode: mode,
						Pre: []string{"item-pre"}, Post: []string{"item-post", "create"}, Inner2: n%2 == 0}
					if site == "sp" || site == "nested" || site == "nested-err" {
						c.Pre = []string{"exec-insert"}
						c.Post = []string{"create"}
					}
					c.At = c.batches() - 1
					if mode == "inject" {
						c.At = 1 + (off+n)%2
					}
					if !c.normalise() {
						continue
					}
					// the plain configuration always, the rotating one as well
					c0 := *c
					c0.Cfg = c04Cfg{Prep: (off+n)%2 == 0, Wrap: (off+n)%4 == 1}
					c0.Handle = []string{"tx", "Session{}", "WithContext", "Session{NewDB}"}[(off+n)%4]
					s.run(&c0)
					s.run(c)
				}
			}
			if over() {
				break
			}
		}
		// 2. random cases
		m := 0
		for !over() {
			m++
			if tier == "quick" && m > 4000 {
				break
			}
			sh := shapes[rng.Intn(len(shapes))]
			c := &c04rCase{Cfg: cfgs[rng.Intn(len(cfgs))], Site: c04rSites[rng.Intn(len(c04rSites))], Handle: c04rHandles[rng.Intn(len(c04rHandles))],
				CH: c04rCHs[rng.Intn(len(c04rCHs))], Kind: c04rKinds[rng.Intn(len(c04rKinds))], N: sh[0], BS: sh[1], Mode: c04rModes[rng.Intn(len(c04rModes))],
				Inner2: rng.Intn(2) == 0}
			if rng.Intn(3) != 0 { // mostly plain nesting-enabled, transaction-by-default configurations: there the compound IS a block
				c.Cfg.Dis, c.Cfg.Skip = false, false
			}
			c.At = rng.Intn(c.batches() + 1)
			if c.Mode == "inject" {
				c.At = rng.Intn(2*c.batches() + 1)
			}
			perm := rng.Perm(len(names))
			np, nq := rng.Intn(3), rng.Intn(3)
			for _, p := range perm[:np] {
				c.Pre = append(c.Pre, names[p])
			}
			for _, p := range perm[np : np+nq] {
				c.Post = append(c.Post, names[p])
			}
			if c.Site == "sp" || c.Site == "nested" || c.Site == "nested-err" {
				// item-pre / item-post are part of the site itself
				bad := false
				for _, x := range append(append([]string{}, c.Pre...), c.Post...) {
					if x == "item-pre" || x == "item-post" {
						bad = true
					}
				}
				if bad {
					continue
				}
			}
			if !c.normalise() {
				continue
			}
			o := s.run(c)
			if m <= 2 {
				r.Sample(map[string]interface{}{"case": c, "real": o})
			}
		}
		s.flush()
	}
}
