package main

// GENERATED once by a script (kept in the repository as plain source): the fixed library of small model types for the
// C13 hook-detection suite (c13_subsets.go): one type per hook subset. Every hook only logs through c13sHook.

import "gorm.io/gorm"

type C13sOnlyBeforeSave struct{ C13sBase }

func (m *C13sOnlyBeforeSave) BeforeSave(tx *gorm.DB) error {
	return c13sHook("BeforeSave", "C13sOnlyBeforeSave", m.Name, tx)
}

type C13sOnlyBeforeCreate struct{ C13sBase }

func (m *C13sOnlyBeforeCreate) BeforeCreate(tx *gorm.DB) error {
	return c13sHook("BeforeCreate", "C13sOnlyBeforeCreate", m.Name, tx)
}

type C13sOnlyAfterCreate struct{ C13sBase }

func (m *C13sOnlyAfterCreate) AfterCreate(tx *gorm.DB) error {
	return c13sHook("AfterCreate", "C13sOnlyAfterCreate", m.Name, tx)
}

type C13sOnlyAfterSave struct{ C13sBase }

func (m *C13sOnlyAfterSave) AfterSave(tx *gorm.DB) error {
	return c13sHook("AfterSave", "C13sOnlyAfterSave", m.Name, tx)
}

type C13sOnlyBeforeUpdate struct{ C13sBase }

func (m *C13sOnlyBeforeUpdate) BeforeUpdate(tx *gorm.DB) error {
	return c13sHook("BeforeUpdate", "C13sOnlyBeforeUpdate", m.Name, tx)
}

type C13sOnlyAfterUpdate struct{ C13sBase }

func (m *C13sOnlyAfterUpdate) AfterUpdate(tx *gorm.DB) error {
	return c13sHook("AfterUpdate", "C13sOnlyAfterUpdate", m.Name, tx)
}

type C13sOnlyBeforeDelete struct{ C13sBase }

func (m *C13sOnlyBeforeDelete) BeforeDelete(tx *gorm.DB) error {
	return c13sHook("BeforeDelete", "C13sOnlyBeforeDelete", m.Name, tx)
}

type C13sOnlyAfterDelete struct{ C13sBase }

func (m *C13sOnlyAfterDelete) AfterDelete(tx *gorm.DB) error {
	return c13sHook("AfterDelete", "C13sOnlyAfterDelete", m.Name, tx)
}

type C13sOnlyAfterFind struct{ C13sBase }

func (m *C13sOnlyAfterFind) AfterFind(tx *gorm.DB) error {
	return c13sHook("AfterFind", "C13sOnlyAfterFind", m.Name, tx)
}

type C13sNoBeforeSave struct{ C13sBase }

func (m *C13sNoBeforeSave) BeforeCreate(tx *gorm.DB) error {
	return c13sHook("BeforeCreate", "C13sNoBeforeSave", m.Name, tx)
}
func (m *C13sNoBeforeSave) AfterCreate(tx *gorm.DB) error {
	return c13sHook("AfterCreate", "C13sNoBeforeSave", m.Name, tx)
}
func (m *C13sNoBeforeSave) AfterSave(tx *gorm.DB) error {
	return c13sHook("AfterSave", "C13sNoBeforeSave", m.Name, tx)
}
func (m *C13sNoBeforeSave) BeforeUpdate(tx *gorm.DB) error {
	return c13sHook("BeforeUpdate", "C13sNoBeforeSave", m.Name, tx)
}
func (m *C13sNoBeforeSave) AfterUpdate(tx *gorm.DB) error {
	return c13sHook("AfterUpdate", "C13sNoBeforeSave", m.Name, tx)
}
func (m *C13sNoBeforeSave) BeforeDelete(tx *gorm.DB) error {
	return c13sHook("BeforeDelete", "C13sNoBeforeSave", m.Name, tx)
}
func (m *C13sNoBeforeSave) AfterDelete(tx *gorm.DB) error {
	return c13sHook("AfterDelete", "C13sNoBeforeSave", m.Name, tx)
}
func (m *C13sNoBeforeSave) AfterFind(tx *gorm.DB) error {
	return c13sHook("AfterFind", "C13sNoBeforeSave", m.Name, tx)
}

type C13sNoBeforeCreate struct{ C13sBase }

func (m *C13sNoBeforeCreate) BeforeSave(tx *gorm.DB) error {
	return c13sHook("BeforeSave", "C13sNoBeforeCreate", m.Name, tx)
}
func (m *C13sNoBeforeCreate) AfterCreate(tx *gorm.DB) error {
	return c13sHook("AfterCreate", "C13sNoBeforeCreate", m.Name, tx)
}
func (m *C13sNoBeforeCreate) AfterSave(tx *gorm.DB) error {
	return c13sHook("AfterSave", "C13sNoBeforeCreate", m.Name, tx)
}
func (m *C13sNoBeforeCreate) BeforeUpdate(tx *gorm.DB) error {
	return c13sHook("BeforeUpdate", "C13sNoBeforeCreate", m.Name, tx)
}
func (m *C13sNoBeforeCreate) AfterUpdate(tx *gorm.DB) error {
	return c13sHook("AfterUpdate", "C13sNoBeforeCreate", m.Name, tx)
}
func (m *C13sNoBeforeCreate) BeforeDelete(tx *gorm.DB) error {
	return c13sHook("BeforeDelete", "C13sNoBeforeCreate", m.Name, tx)
}
func (m *C13sNoBeforeCreate) AfterDelete(tx *gorm.DB) error {
	return c13sHook("AfterDelete", "C13sNoBeforeCreate", m.Name, tx)
}
func (m *C13sNoBeforeCreate) AfterFind(tx *gorm.DB) error {
	return c13sHook("AfterFind", "C13sNoBeforeCreate", m.Name, tx)
}

type C13sNoAfterCreate struct{ C13sBase }

func (m *C13sNoAfterCreate) BeforeSave(tx *gorm.DB) error {
	return c13sHook("BeforeSave", "C13sNoAfterCreate", m.Name, tx)
}
func (m *C13sNoAfterCreate) BeforeCreate(tx *gorm.DB) error {
	return c13sHook("BeforeCreate", "C13sNoAfterCreate", m.Name, tx)
}
func (m *C13sNoAfterCreate) AfterSave(tx *gorm.DB) error {
	return c13sHook("AfterSave", "C13sNoAfterCreate", m.Name, tx)
}
func (m *C13sNoAfterCreate) BeforeUpdate(tx *gorm.DB) error {
	return c13sHook("BeforeUpdate", "C13sNoAfterCreate", m.Name, tx)
}
func (m *C13sNoAfterCreate) AfterUpdate(tx *gorm.DB) error {
	return c13sHook("AfterUpdate", "C13sNoAfterCreate", m.Name, tx)
}
func (m *C13sNoAfterCreate) BeforeDelete(tx *gorm.DB) error {
	return c13sHook("BeforeDelete", "C13sNoAfterCreate", m.Name, tx)
}
func (m *C13sNoAfterCreate) AfterDelete(tx *gorm.DB) error {
	return c13sHook("AfterDelete", "C13sNoAfterCreate", m.Name, tx)
}
func (m *C13sNoAfterCreate) AfterFind(tx *gorm.DB) error {
	return c13sHook("AfterFind", "C13sNoAfterCreate", m.Name, tx)
}

type C13sNoAfterSave struct{ C13sBase }

func (m *C13sNoAfterSave) BeforeSave(tx *gorm.DB) error {
	return c13sHook("BeforeSave", "C13sNoAfterSave", m.Name, tx)
}
func (m *C13sNoAfterSave) BeforeCreate(tx *gorm.DB) error {
	return c13sHook("BeforeCreate", "C13sNoAfterSave", m.Name, tx)
}
func (m *C13sNoAfterSave) AfterCreate(tx *gorm.DB) error {
	return c13sHook("AfterCreate", "C13sNoAfterSave", m.Name, tx)
}
func (m *C13sNoAfterSave) BeforeUpdate(tx *gorm.DB) error {
	return c13sHook("BeforeUpdate", "C13sNoAfterSave", m.Name, tx)
}
func (m *C13sNoAfterSave) AfterUpdate(tx *gorm.DB) error {
	return c13sHook("AfterUpdate", "C13sNoAfterSave", m.Name, tx)
}
func (m *C13sNoAfterSave) BeforeDelete(tx *gorm.DB) error {
	return c13sHook("BeforeDelete", "C13sNoAfterSave", m.Name, tx)
}
func (m *C13sNoAfterSave) AfterDelete(tx *gorm.DB) error {
	return c13sHook("AfterDelete", "C13sNoAfterSave", m.Name, tx)
}
func (m *C13sNoAfterSave) AfterFind(tx *gorm.DB) error {
	return c13sHook("AfterFind", "C13sNoAfterSave", m.Name, tx)
}

type C13sNoBeforeUpdate struct{ C13sBase }

func (m *C13sNoBeforeUpdate) BeforeSave(tx *gorm.DB) error {
	return c13sHook("BeforeSave", "C13sNoBeforeUpdate", m.Name, tx)
}
func (m *C13sNoBeforeUpdate) BeforeCreate(tx *gorm.DB) error {
	return c13sHook("BeforeCreate", "C13sNoBeforeUpdate", m.Name, tx)
}
func (m *C13sNoBeforeUpdate) AfterCreate(tx *gorm.DB) error {
	return c13sHook("AfterCreate", "C13sNoBeforeUpdate", m.Name, tx)
}
func (m *C13sNoBeforeUpdate) AfterSave(tx *gorm.DB) error {
	return c13sHook("AfterSave", "C13sNoBeforeUpdate", m.Name, tx)
}
func (m *C13sNoBeforeUpdate) AfterUpdate(tx *gorm.DB) error {
	return c13sHook("AfterUpdate", "C13sNoBeforeUpdate", m.Name, tx)
}
func (m *C13sNoBeforeUpdate) BeforeDelete(tx *gorm.DB) error {
	return c13sHook("BeforeDelete", "C13sNoBeforeUpdate", m.Name, tx)
}
func (m *C13sNoBeforeUpdate) AfterDelete(tx *gorm.DB) error {
	return c13sHook("AfterDelete", "C13sNoBeforeUpdate", m.Name, tx)
}
func (m *C13sNoBeforeUpdate) AfterFind(tx *gorm.DB) error {
	return c13sHook("AfterFind", "C13sNoBeforeUpdate", m.Name, tx)
}

type C13sNoAfterUpdate struct{ C13sBase }

func (m *C13sNoAfterUpdate) BeforeSave(tx *gorm.DB) error {
	return c13sHook("BeforeSave", "C13sNoAfterUpdate", m.Name, tx)
}
func (m *C13sNoAfterUpdate) BeforeCreate(tx *gorm.DB) error {
	return c13sHook("BeforeCreate", "C13sNoAfterUpdate", m.Name, tx)
}
func (m *C13sNoAfterUpdate) AfterCreate(tx *gorm.DB) error {
	return c13sHook("AfterCreate", "C13sNoAfterUpdate", m.Name, tx)
}
func (m *C13sNoAfterUpdate) AfterSave(tx *gorm.DB) error {
	return c13sHook("AfterSave", "C13sNoAfterUpdate", m.Name, tx)
}
func (m *C13sNoAfterUpdate) BeforeUpdate(tx *gorm.DB) error {
	return c13sHook("BeforeUpdate", "C13sNoAfterUpdate", m.Name, tx)
}
func (m *C13sNoAfterUpdate) BeforeDelete(tx *gorm.DB) error {
	return c13sHook("BeforeDelete", "C13sNoAfterUpdate", m.Name, tx)
}
func (m *C13sNoAfterUpdate) AfterDelete(tx *gorm.DB) error {
	return c13sHook("AfterDelete", "C13sNoAfterUpdate", m.Name, tx)
}
func (m *C13sNoAfterUpdate) AfterFind(tx *gorm.DB) error {
	return c13sHook("AfterFind", "C13sNoAfterUpdate", m.Name, tx)
}

type C13sNoBeforeDelete struct{ C13sBase }

func (m *C13sNoBeforeDelete) BeforeSave(tx *gorm.DB) error {
	return c13sHook("BeforeSave", "C13sNoBeforeDelete", m.Name, tx)
}
func (m *C13sNoBeforeDelete) BeforeCreate(tx *gorm.DB) error {
	return c13sHook("BeforeCreate", "C13sNoBeforeDelete", m.Name, tx)
}
func (m *C13sNoBeforeDelete) AfterCreate(tx *gorm.DB) error {
	return c13sHook("AfterCreate", "C13sNoBeforeDelete", m.Name, tx)
}
func (m *C13sNoBeforeDelete) AfterSave(tx *gorm.DB) error {
	return c13sHook("AfterSave", "C13sNoBeforeDelete", m.Name, tx)
}
func (m *C13sNoBeforeDelete) BeforeUpdate(tx *gorm.DB) error {
	return c13sHook("BeforeUpdate", "C13sNoBeforeDelete", m.Name, tx)
}
func (m *C13sNoBeforeDelete) AfterUpdate(tx *gorm.DB) error {
	return c13sHook("AfterUpdate", "C13sNoBeforeDelete", m.Name, tx)
}
func (m *C13sNoBeforeDelete) AfterDelete(tx *gorm.DB) error {
	return c13sHook("AfterDelete", "C13sNoBeforeDelete", m.Name, tx)
}
func (m *C13sNoBeforeDelete) AfterFind(tx *gorm.DB) error {
	return c13sHook("AfterFind", "C13sNoBeforeDelete", m.Name, tx)
}

type C13sNoAfterDelete struct{ C13sBase }

func (m *C13sNoAfterDelete) BeforeSave(tx *gorm.DB) error {
	return c13sHook("BeforeSave", "C13sNoAfterDelete", m.Name, tx)
}
func (m *C13sNoAfterDelete) BeforeCreate(tx *gorm.DB) error {
	return c13sHook("BeforeCreate", "C13sNoAfterDelete", m.Name, tx)
}
func (m *C13sNoAfterDelete) AfterCreate(tx *gorm.DB) error {
	return c13sHook("AfterCreate", "C13sNoAfterDelete", m.Name, tx)
}
func (m *C13sNoAfterDelete) AfterSave(tx *gorm.DB) error {
	return c13sHook("AfterSave", "C13sNoAfterDelete", m.Name, tx)
}
func (m *C13sNoAfterDelete) BeforeUpdate(tx *gorm.DB) error {
	return c13sHook("BeforeUpdate", "C13sNoAfterDelete", m.Name, tx)
}
func (m *C13sNoAfterDelete) AfterUpdate(tx *gorm.DB) error {
	return c13sHook("AfterUpdate", "C13sNoAfterDelete", m.Name, tx)
}
func (m *C13sNoAfterDelete) BeforeDelete(tx *gorm.DB) error {
	return c13sHook("BeforeDelete", "C13sNoAfterDelete", m.Name, tx)
}
func (m *C13sNoAfterDelete) AfterFind(tx *gorm.DB) error {
	return c13sHook("AfterFind", "C13sNoAfterDelete", m.Name, tx)
}

type C13sNoAfterFind struct{ C13sBase }

func (m *C13sNoAfterFind) BeforeSave(tx *gorm.DB) error {
	return c13sHook("BeforeSave", "C13sNoAfterFind", m.Name, tx)
}
func (m *C13sNoAfterFind) BeforeCreate(tx *gorm.DB) error {
	return c13sHook("BeforeCreate", "C13sNoAfterFind", m.Name, tx)
}
func (m *C13sNoAfterFind) AfterCreate(tx *gorm.DB) error {
	return c13sHook("AfterCreate", "C13sNoAfterFind", m.Name, tx)
}
func (m *C13sNoAfterFind) AfterSave(tx *gorm.DB) error {
	return c13sHook("AfterSave", "C13sNoAfterFind", m.Name, tx)
}
func (m *C13sNoAfterFind) BeforeUpdate(tx *gorm.DB) error {
	return c13sHook("BeforeUpdate", "C13sNoAfterFind", m.Name, tx)
}
func (m *C13sNoAfterFind) AfterUpdate(tx *gorm.DB) error {
	return c13sHook("AfterUpdate", "C13sNoAfterFind", m.Name, tx)
}
func (m *C13sNoAfterFind) BeforeDelete(tx *gorm.DB) error {
	return c13sHook("BeforeDelete", "C13sNoAfterFind", m.Name, tx)
}
func (m *C13sNoAfterFind) AfterDelete(tx *gorm.DB) error {
	return c13sHook("AfterDelete", "C13sNoAfterFind", m.Name, tx)
}

type C13sPairCreate struct{ C13sBase }

func (m *C13sPairCreate) BeforeCreate(tx *gorm.DB) error {
	return c13sHook("BeforeCreate", "C13sPairCreate", m.Name, tx)
}
func (m *C13sPairCreate) AfterCreate(tx *gorm.DB) error {
	return c13sHook("AfterCreate", "C13sPairCreate", m.Name, tx)
}

type C13sPairUpdate struct{ C13sBase }

func (m *C13sPairUpdate) BeforeUpdate(tx *gorm.DB) error {
	return c13sHook("BeforeUpdate", "C13sPairUpdate", m.Name, tx)
}
func (m *C13sPairUpdate) AfterUpdate(tx *gorm.DB) error {
	return c13sHook("AfterUpdate", "C13sPairUpdate", m.Name, tx)
}

type C13sPairSave struct{ C13sBase }

func (m *C13sPairSave) BeforeSave(tx *gorm.DB) error {
	return c13sHook("BeforeSave", "C13sPairSave", m.Name, tx)
}
func (m *C13sPairSave) AfterSave(tx *gorm.DB) error {
	return c13sHook("AfterSave", "C13sPairSave", m.Name, tx)
}

type C13sPairDelete struct{ C13sBase }

func (m *C13sPairDelete) BeforeDelete(tx *gorm.DB) error {
	return c13sHook("BeforeDelete", "C13sPairDelete", m.Name, tx)
}
func (m *C13sPairDelete) AfterDelete(tx *gorm.DB) error {
	return c13sHook("AfterDelete", "C13sPairDelete", m.Name, tx)
}

type C13sNone struct{ C13sBase }

type C13sAll struct{ C13sBase }

func (m *C13sAll) BeforeSave(tx *gorm.DB) error { return c13sHook("BeforeSave", "C13sAll", m.Name, tx) }
func (m *C13sAll) BeforeCreate(tx *gorm.DB) error {
	return c13sHook("BeforeCreate", "C13sAll", m.Name, tx)
}
func (m *C13sAll) AfterCreate(tx *gorm.DB) error {
	return c13sHook("AfterCreate", "C13sAll", m.Name, tx)
}
func (m *C13sAll) AfterSave(tx *gorm.DB) error { return c13sHook("AfterSave", "C13sAll", m.Name, tx) }
func (m *C13sAll) BeforeUpdate(tx *gorm.DB) error {
	return c13sHook("BeforeUpdate", "C13sAll", m.Name, tx)
}
func (m *C13sAll) AfterUpdate(tx *gorm.DB) error {
	return c13sHook("AfterUpdate", "C13sAll", m.Name, tx)
}
func (m *C13sAll) BeforeDelete(tx *gorm.DB) error {
	return c13sHook("BeforeDelete", "C13sAll", m.Name, tx)
}
func (m *C13sAll) AfterDelete(tx *gorm.DB) error {
	return c13sHook("AfterDelete", "C13sAll", m.Name, tx)
}
func (m *C13sAll) AfterFind(tx *gorm.DB) error { return c13sHook("AfterFind", "C13sAll", m.Name, tx) }

type C13sValAll struct{ C13sBase }

func (m C13sValAll) BeforeSave(tx *gorm.DB) error {
	return c13sHook("BeforeSave", "C13sValAll", m.Name, tx)
}
func (m C13sValAll) BeforeCreate(tx *gorm.DB) error {
	return c13sHook("BeforeCreate", "C13sValAll", m.Name, tx)
}
func (m C13sValAll) AfterCreate(tx *gorm.DB) error {
	return c13sHook("AfterCreate", "C13sValAll", m.Name, tx)
}
func (m C13sValAll) AfterSave(tx *gorm.DB) error {
	return c13sHook("AfterSave", "C13sValAll", m.Name, tx)
}
func (m C13sValAll) BeforeUpdate(tx *gorm.DB) error {
	return c13sHook("BeforeUpdate", "C13sValAll", m.Name, tx)
}
func (m C13sValAll) AfterUpdate(tx *gorm.DB) error {
	return c13sHook("AfterUpdate", "C13sValAll", m.Name, tx)
}
func (m C13sValAll) BeforeDelete(tx *gorm.DB) error {
	return c13sHook("BeforeDelete", "C13sValAll", m.Name, tx)
}
func (m C13sValAll) AfterDelete(tx *gorm.DB) error {
	return c13sHook("AfterDelete", "C13sValAll", m.Name, tx)
}
func (m C13sValAll) AfterFind(tx *gorm.DB) error {
	return c13sHook("AfterFind", "C13sValAll", m.Name, tx)
}

type C13sValOnlyAfterDelete struct{ C13sBase }

func (m C13sValOnlyAfterDelete) AfterDelete(tx *gorm.DB) error {
	return c13sHook("AfterDelete", "C13sValOnlyAfterDelete", m.Name, tx)
}

type C13sValOnlyAfterSave struct{ C13sBase }

func (m C13sValOnlyAfterSave) AfterSave(tx *gorm.DB) error {
	return c13sHook("AfterSave", "C13sValOnlyAfterSave", m.Name, tx)
}

type C13sMixed struct{ C13sBase }

func (m C13sMixed) BeforeSave(tx *gorm.DB) error {
	return c13sHook("BeforeSave", "C13sMixed", m.Name, tx)
}
func (m C13sMixed) BeforeCreate(tx *gorm.DB) error {
	return c13sHook("BeforeCreate", "C13sMixed", m.Name, tx)
}
func (m *C13sMixed) AfterCreate(tx *gorm.DB) error {
	return c13sHook("AfterCreate", "C13sMixed", m.Name, tx)
}
func (m *C13sMixed) AfterSave(tx *gorm.DB) error {
	return c13sHook("AfterSave", "C13sMixed", m.Name, tx)
}
func (m C13sMixed) BeforeUpdate(tx *gorm.DB) error {
	return c13sHook("BeforeUpdate", "C13sMixed", m.Name, tx)
}
func (m *C13sMixed) AfterUpdate(tx *gorm.DB) error {
	return c13sHook("AfterUpdate", "C13sMixed", m.Name, tx)
}
func (m C13sMixed) BeforeDelete(tx *gorm.DB) error {
	return c13sHook("BeforeDelete", "C13sMixed", m.Name, tx)
}
func (m *C13sMixed) AfterDelete(tx *gorm.DB) error {
	return c13sHook("AfterDelete", "C13sMixed", m.Name, tx)
}
func (m *C13sMixed) AfterFind(tx *gorm.DB) error {
	return c13sHook("AfterFind", "C13sMixed", m.Name, tx)
}

type C13sAfters struct{ C13sBase }

func (m *C13sAfters) AfterCreate(tx *gorm.DB) error {
	return c13sHook("AfterCreate", "C13sAfters", m.Name, tx)
}
func (m *C13sAfters) AfterSave(tx *gorm.DB) error {
	return c13sHook("AfterSave", "C13sAfters", m.Name, tx)
}
func (m *C13sAfters) AfterUpdate(tx *gorm.DB) error {
	return c13sHook("AfterUpdate", "C13sAfters", m.Name, tx)
}
func (m *C13sAfters) AfterDelete(tx *gorm.DB) error {
	return c13sHook("AfterDelete", "C13sAfters", m.Name, tx)
}
func (m *C13sAfters) AfterFind(tx *gorm.DB) error {
	return c13sHook("AfterFind", "C13sAfters", m.Name, tx)
}

type C13sBefores struct{ C13sBase }

func (m *C13sBefores) BeforeSave(tx *gorm.DB) error {
	return c13sHook("BeforeSave", "C13sBefores", m.Name, tx)
}
func (m *C13sBefores) BeforeCreate(tx *gorm.DB) error {
	return c13sHook("BeforeCreate", "C13sBefores", m.Name, tx)
}
func (m *C13sBefores) BeforeUpdate(tx *gorm.DB) error {
	return c13sHook("BeforeUpdate", "C13sBefores", m.Name, tx)
}
func (m *C13sBefores) BeforeDelete(tx *gorm.DB) error {
	return c13sHook("BeforeDelete", "C13sBefores", m.Name, tx)
}

type C13sKidAll struct{ C13sKidBase }

func (m *C13sKidAll) BeforeSave(tx *gorm.DB) error {
	return c13sHook("BeforeSave", "C13sKidAll", m.Name, tx)
}
func (m *C13sKidAll) BeforeCreate(tx *gorm.DB) error {
	return c13sHook("BeforeCreate", "C13sKidAll", m.Name, tx)
}
func (m *C13sKidAll) AfterCreate(tx *gorm.DB) error {
	return c13sHook("AfterCreate", "C13sKidAll", m.Name, tx)
}
func (m *C13sKidAll) AfterSave(tx *gorm.DB) error {
	return c13sHook("AfterSave", "C13sKidAll", m.Name, tx)
}
func (m *C13sKidAll) BeforeUpdate(tx *gorm.DB) error {
	return c13sHook("BeforeUpdate", "C13sKidAll", m.Name, tx)
}
func (m *C13sKidAll) AfterUpdate(tx *gorm.DB) error {
	return c13sHook("AfterUpdate", "C13sKidAll", m.Name, tx)
}
func (m *C13sKidAll) BeforeDelete(tx *gorm.DB) error {
	return c13sHook("BeforeDelete", "C13sKidAll", m.Name, tx)
}
func (m *C13sKidAll) AfterDelete(tx *gorm.DB) error {
	return c13sHook("AfterDelete", "C13sKidAll", m.Name, tx)
}
func (m *C13sKidAll) AfterFind(tx *gorm.DB) error {
	return c13sHook("AfterFind", "C13sKidAll", m.Name, tx)
}

type C13sKidNone struct{ C13sKidBase }

type C13sKidOnlyAfterCreate struct{ C13sKidBase }

func (m *C13sKidOnlyAfterCreate) AfterCreate(tx *gorm.DB) error {
	return c13sHook("AfterCreate", "C13sKidOnlyAfterCreate", m.Name, tx)
}

type C13sKidOnlyAfterDelete struct{ C13sKidBase }

func (m *C13sKidOnlyAfterDelete) AfterDelete(tx *gorm.DB) error {
	return c13sHook("AfterDelete", "C13sKidOnlyAfterDelete", m.Name, tx)
}

type C13sKidNoBeforeSave struct{ C13sKidBase }

func (m *C13sKidNoBeforeSave) BeforeCreate(tx *gorm.DB) error {
	return c13sHook("BeforeCreate", "C13sKidNoBeforeSave", m.Name, tx)
}
func (m *C13sKidNoBeforeSave) AfterCreate(tx *gorm.DB) error {
	return c13sHook("AfterCreate", "C13sKidNoBeforeSave", m.Name, tx)
}
func (m *C13sKidNoBeforeSave) AfterSave(tx *gorm.DB) error {
	return c13sHook("AfterSave", "C13sKidNoBeforeSave", m.Name, tx)
}
func (m *C13sKidNoBeforeSave) BeforeUpdate(tx *gorm.DB) error {
	return c13sHook("BeforeUpdate", "C13sKidNoBeforeSave", m.Name, tx)
}
func (m *C13sKidNoBeforeSave) AfterUpdate(tx *gorm.DB) error {
	return c13sHook("AfterUpdate", "C13sKidNoBeforeSave", m.Name, tx)
}
func (m *C13sKidNoBeforeSave) BeforeDelete(tx *gorm.DB) error {
	return c13sHook("BeforeDelete", "C13sKidNoBeforeSave", m.Name, tx)
}
func (m *C13sKidNoBeforeSave) AfterDelete(tx *gorm.DB) error {
	return c13sHook("AfterDelete", "C13sKidNoBeforeSave", m.Name, tx)
}
func (m *C13sKidNoBeforeSave) AfterFind(tx *gorm.DB) error {
	return c13sHook("AfterFind", "C13sKidNoBeforeSave", m.Name, tx)
}

var c13sGenTypes = []c13sType{
	{Name: "C13sOnlyBeforeSave", New: func() interface{} { return &C13sOnlyBeforeSave{} }, Hooks: []string{"BeforeSave"}, ValRecv: []string{}, Kid: false},
	{Name: "C13sOnlyBeforeCreate", New: func() interface{} { return &C13sOnlyBeforeCreate{} }, Hooks: []string{"BeforeCreate"}, ValRecv: []string{}, Kid: false},
	{Name: "C13sOnlyAfterCreate", New: func() interface{} { return &C13sOnlyAfterCreate{} }, Hooks: []string{"AfterCreate"}, ValRecv: []string{}, Kid: false},
	{Name: "C13sOnlyAfterSave", New: func() interface{} { return &C13sOnlyAfterSave{} }, Hooks: []string{"AfterSave"}, ValRecv: []string{}, Kid: false},
	{Name: "C13sOnlyBeforeUpdate", New: func() interface{} { return &C13sOnlyBeforeUpdate{} }, Hooks: []string{"BeforeUpdate"}, ValRecv: []string{}, Kid: false},
	{Name: "C13sOnlyAfterUpdate", New: func() interface{} { return &C13sOnlyAfterUpdate{} }, Hooks: []string{"AfterUpdate"}, ValRecv: []string{}, Kid: false},
	{Name: "C13sOnlyBeforeDelete", New: func() interface{} { return &C13sOnlyBeforeDelete{} }, Hooks: []string{"BeforeDelete"}, ValRecv: []string{}, Kid: false},
	{Name: "C13sOnlyAfterDelete", New: func() interface{} { return &C13sOnlyAfterDelete{} }, Hooks: []string{"AfterDelete"}, ValRecv: []string{}, Kid: false},
	{Name: "C13sOnlyAfterFind", New: func() interface{} { return &C13sOnlyAfterFind{} }, Hooks: []string{"AfterFind"}, ValRecv: []string{}, Kid: false},
	{Name: "C13sNoBeforeSave", New: func() interface{} { return &C13sNoBeforeSave{} }, Hooks: []string{"BeforeCreate", "AfterCreate", "AfterSave", "BeforeUpdate", "AfterUpdate", "BeforeDelete", "AfterDelete", "AfterFind"}, ValRecv: []string{}, Kid: false},
	{Name: "C13sNoBeforeCreate", New: func() interface{} { return &C13sNoBeforeCreate{} }, Hooks: []string{"BeforeSave", "AfterCreate", "AfterSave", "BeforeUpdate", "AfterUpdate", "BeforeDelete", "AfterDelete", "AfterFind"}, ValRecv: []string{}, Kid: false},
	{Name: "C13sNoAfterCreate", New: func() interface{} { return &C13sNoAfterCreate{} }, Hooks: []string{"BeforeSave", "BeforeCreate", "AfterSave", "BeforeUpdate", "AfterUpdate", "BeforeDelete", "AfterDelete", "AfterFind"}, ValRecv: []string{}, Kid: false},
	{Name: "C13sNoAfterSave", New: func() interface{} { return &C13sNoAfterSave{} }, Hooks: []string{"BeforeSave", "BeforeCreate", "AfterCreate", "BeforeUpdate", "AfterUpdate", "BeforeDelete", "AfterDelete", "AfterFind"}, ValRecv: []string{}, Kid: false},
	{Name: "C13sNoBeforeUpdate", New: func() interface{} { return &C13sNoBeforeUpdate{} }, Hooks: []string{"BeforeSave", "BeforeCreate", "AfterCreate", "AfterSave", "AfterUpdate", "BeforeDelete", "AfterDelete", "AfterFind"}, ValRecv: []string{}, Kid: false},
	{Name: "C13sNoAfterUpdate", New: func() interface{} { return &C13sNoAfterUpdate{} }, Hooks: []string{"BeforeSave", "BeforeCreate", "AfterCreate", "AfterSave", "BeforeUpdate", "BeforeDelete", "AfterDelete", "AfterFind"}, ValRecv: []string{}, Kid: false},
	{Name: "C13sNoBeforeDelete", New: func() interface{} { return &C13sNoBeforeDelete{} }, Hooks: []string{"BeforeSave", "BeforeCreate", "AfterCreate", "AfterSave", "BeforeUpdate", "AfterUpdate", "AfterDelete", "AfterFind"}, ValRecv: []string{}, Kid: false},
	{Name: "C13sNoAfterDelete", New: func() interface{} { return &C13sNoAfterDelete{} }, Hooks: []string{"BeforeSave", "BeforeCreate", "AfterCreate", "AfterSave", "BeforeUpdate", "AfterUpdate", "BeforeDelete", "AfterFind"}, ValRecv: []string{}, Kid: false},
	{Name: "C13sNoAfterFind", New: func() interface{} { return &C13sNoAfterFind{} }, Hooks: []string{"BeforeSave", "BeforeCreate", "AfterCreate", "AfterSave", "BeforeUpdate", "AfterUpdate", "BeforeDelete", "AfterDelete"}, ValRecv: []string{}, Kid: false},
	{Name: "C13sPairCreate", New: func() interface{} { return &C13sPairCreate{} }, Hooks: []string{"BeforeCreate", "AfterCreate"}, ValRecv: []string{}, Kid: false},
	{Name: "C13sPairUpdate", New: func() interface{} { return &C13sPairUpdate{} }, Hooks: []string{"BeforeUpdate", "AfterUpdate"}, ValRecv: []string{}, Kid: false},
	{Name: "C13sPairSave", New: func() interface{} { return &C13sPairSave{} }, Hooks: []string{"BeforeSave", "AfterSave"}, ValRecv: []string{}, Kid: false},
	{Name: "C13sPairDelete", New: func() interface{} { return &C13sPairDelete{} }, Hooks: []string{"BeforeDelete", "AfterDelete"}, ValRecv: []string{}, Kid: false},
	{Name: "C13sNone", New: func() interface{} { return &C13sNone{} }, Hooks: []string{}, ValRecv: []string{}, Kid: false},
	{Name: "C13sAll", New: func() interface{} { return &C13sAll{} }, Hooks: []string{"BeforeSave", "BeforeCreate", "AfterCreate", "AfterSave", "BeforeUpdate", "AfterUpdate", "BeforeDelete", "AfterDelete", "AfterFind"}, ValRecv: []string{}, Kid: false},
	{Name: "C13sValAll", New: func() interface{} { return &C13sValAll{} }, Hooks: []string{"BeforeSave", "BeforeCreate", "AfterCreate", "AfterSave", "BeforeUpdate", "AfterUpdate", "BeforeDelete", "AfterDelete", "AfterFind"}, ValRecv: []string{"BeforeSave", "BeforeCreate", "AfterCreate", "AfterSave", "BeforeUpdate", "AfterUpdate", "BeforeDelete", "AfterDelete", "AfterFind"}, Kid: false},
	{Name: "C13sValOnlyAfterDelete", New: func() interface{} { return &C13sValOnlyAfterDelete{} }, Hooks: []string{"AfterDelete"}, ValRecv: []string{"AfterDelete"}, Kid: false},
	{Name: "C13sValOnlyAfterSave", New: func() interface{} { return &C13sValOnlyAfterSave{} }, Hooks: []string{"AfterSave"}, ValRecv: []string{"AfterSave"}, Kid: false},
	{Name: "C13sMixed", New: func() interface{} { return &C13sMixed{} }, Hooks: []string{"BeforeSave", "BeforeCreate", "AfterCreate", "AfterSave", "BeforeUpdate", "AfterUpdate", "BeforeDelete", "AfterDelete", "AfterFind"}, ValRecv: []string{"BeforeSave", "BeforeCreate", "BeforeUpdate", "BeforeDelete"}, Kid: false},
	{Name: "C13sAfters", New: func() interface{} { return &C13sAfters{} }, Hooks: []string{"AfterCreate", "AfterSave", "AfterUpdate", "AfterDelete", "AfterFind"}, ValRecv: []string{}, Kid: false},
	{Name: "C13sBefores", New: func() interface{} { return &C13sBefores{} }, Hooks: []string{"BeforeSave", "BeforeCreate", "BeforeUpdate", "BeforeDelete"}, ValRecv: []string{}, Kid: false},
	{Name: "C13sKidAll", New: func() interface{} { return &C13sKidAll{} }, Hooks: []string{"BeforeSave", "BeforeCreate", "AfterCreate", "AfterSave", "BeforeUpdate", "AfterUpdate", "BeforeDelete", "AfterDelete", "AfterFind"}, ValRecv: []string{}, Kid: true},
	{Name: "C13sKidNone", New: func() interface{} { return &C13sKidNone{} }, Hooks: []string{}, ValRecv: []string{}, Kid: true},
	{Name: "C13sKidOnlyAfterCreate", New: func() interface{} { return &C13sKidOnlyAfterCreate{} }, Hooks: []string{"AfterCreate"}, ValRecv: []string{}, Kid: true},
	{Name: "C13sKidOnlyAfterDelete", New: func() interface{} { return &C13sKidOnlyAfterDelete{} }, Hooks: []string{"AfterDelete"}, ValRecv: []string{}, Kid: true},
	{Name: "C13sKidNoBeforeSave", New: func() interface{} { return &C13sKidNoBeforeSave{} }, Hooks: []string{"BeforeCreate", "AfterCreate", "AfterSave", "BeforeUpdate", "AfterUpdate", "BeforeDelete", "AfterDelete", "AfterFind"}, ValRecv: []string{}, Kid: true},
}
