package main

// C05 correspondence suite `encl-batches`: the real CreateInBatches / Create-with-CreateBatchSize / plain Create of flat
// records, issued in every enclosing context (c05_encl.go) under every configuration, with one statement failing –
// refused by the table (CHECK), failing at the driver before it is executed, or reported as failed after it took
// effect – compared with Stg.createFin of Model/Stages.lean:
//
//	err    did the write return an error
//	rows   which batches are visible after the caller (who handled the error) committed, in order
//	log    the transaction-control trace of the write: B / C / R, SP (SAVEPOINT) / RT (ROLLBACK TO), S / S! per INSERT
//
// This is the tie of the model's wrapping decisions (createInBatches: `skipDefault || len ≤ batch`; blockWrap;
// implicitWrap) to the code, next to the regenerated facts of Gen/EnclFacts.lean.

import (
	"context"
	"encoding/json"
	"flag"
	"fmt"
	"math/rand"
	"sort"
	"strings"
	"sync/atomic"

	"gorm.io/gorm"
)

type c05BatchCase struct {
	Cfg       string `json:"config"`
	Ctx       string `json:"enclosing_context"`
	Len       int    `json:"len"`
	Size      int    `json:"batch_size"` // 0: plain Create (no batching)
	ViaCreate bool   `json:"via_create_batch_size"`
	FailStmt  int    `json:"fail_stmt"` // index of the failing INSERT (-1: none)
	FailKind  string `json:"fail_kind"` // check | inject | inject-post
}

func (c c05BatchCase) batches() int {
	if c.Size == 0 {
		return 1
	}
	return (c.Len + c.Size - 1) / c.Size
}

func c05BatchWorld(cfg string) *c05World {
	db, rec, sqlDB, keep, ctl := c05OpenDBS(cfg)
	if err := db.AutoMigrate(c05EnclModels...); err != nil {
		panic(err)
	}
	rec.Reset()
	return &c05World{where: cfg, db: db, rec: rec, sqlDB: sqlDB, keep: keep, ctl: ctl, tables: c05EnclTables}
}

func (w *c05World) batchReset() {
	defer w.quiet()()
	raw := w.db.Session(&gorm.Session{NewDB: true, SkipHooks: true, Context: context.Background()})
	for _, t := range append(append([]string{}, c05EnclTables...), "sqlite_sequence") {
		if err := raw.Exec("DELETE FROM " + t).Error; err != nil {
			panic(err)
		}
	}
}

type c05BatchObs struct {
	Err  bool     `json:"err"`
	Rows []int    `json:"rows"`
	Log  []string `json:"log"`
}

func c05BatchRun(w *c05World, c c05BatchCase) (obs c05BatchObs, res c05EnclRes, note string) {
	w.batchReset()
	w.rec.Reset()
	nb := c.batches()
	per := c.Size
	if per == 0 {
		per = c.Len
	}
	w.run = func(db *gorm.DB) error {
		rows := make([]C05EnclRow, c.Len)
		for i := range rows {
			b := i / per
			rows[i] = C05EnclRow{V: 1000*(b+1) + i, Tag: "t"}
			end := (b + 1) * per
			if end > c.Len {
				end = c.Len
			}
			if c.FailKind == "check" && b == c.FailStmt && i == b*per+(end-b*per-1)/2 {
				rows[i].V = 666
				rows[i].Tag = fmt.Sprint("bad-of-batch-", b+1)
			}
		}
		switch {
		case c.Size == 0:
			return db.Create(&rows).Error
		case c.ViaCreate:
			return db.Session(&gorm.Session{CreateBatchSize: c.Size}).Create(&rows).Error
		}
		return db.CreateInBatches(&rows, c.Size).Error
	}
	if c.FailKind == "inject-post" {
		atomic.StoreInt32(&w.ctl.post, 1)
	}
	isInsert := func(ev *Event) bool {
		switch ev.Kind {
		case "exec", "query", "stmt_exec", "stmt_query":
			return strings.HasPrefix(ev.SQL, "INSERT INTO `c05_encl_rows`")
		}
		return false
	}
	if c.FailKind == "inject" || c.FailKind == "inject-post" {
		n := 0
		w.rec.Fault = func(idx int, ev *Event) error {
			if !isInsert(ev) {
				return nil
			}
			n++
			if n-1 == c.FailStmt {
				return errInjected
			}
			return nil
		}
	}
	res = w.execEncl(c.Ctx, WithMarker(context.Background(), "c05b"), true)
	w.rec.mu.Lock()
	w.rec.Fault = nil
	w.rec.mu.Unlock()
	atomic.StoreInt32(&w.ctl.post, 0)
	obs.Err = res.WErr != nil
	obs.Log = []string{}
	ins := 0
	for _, ev := range c05EnclSegment(w.rec.Snapshot()) {
		up := strings.ToUpper(ev.SQL)
		switch {
		case ev.Kind == "begin":
			obs.Log = append(obs.Log, "B")
		case ev.Kind == "commit":
			obs.Log = append(obs.Log, "C")
		case ev.Kind == "rollback":
			obs.Log = append(obs.Log, "R")
		case (ev.Kind == "exec" || ev.Kind == "stmt_exec") && strings.HasPrefix(up, "SAVEPOINT"):
			obs.Log = append(obs.Log, "SP")
		case (ev.Kind == "exec" || ev.Kind == "stmt_exec") && strings.HasPrefix(up, "ROLLBACK TO"):
			obs.Log = append(obs.Log, "RT")
		case isInsert(&ev):
			if ins == c.FailStmt {
				obs.Log = append(obs.Log, "S!")
			} else {
				obs.Log = append(obs.Log, "S")
			}
			ins++
		}
	}
	// visible batches after the caller's commit; every batch is one statement: all of its rows or none
	func() {
		defer w.quiet()()
		var vs []int
		raw := w.db.Session(&gorm.Session{NewDB: true, SkipHooks: true, Context: context.Background()})
		if err := raw.Model(&C05EnclRow{}).Order("id").Pluck("v", &vs).Error; err != nil {
			note = "cannot read rows: " + err.Error()
			return
		}
		count := map[int]int{}
		for _, v := range vs {
			count[v/1000]++
		}
		obs.Rows = []int{}
		for b := range count {
			obs.Rows = append(obs.Rows, b)
		}
		sort.Ints(obs.Rows)
		for b, n := range count {
			want := per
			if b == nb {
				want = c.Len - (nb-1)*per
			}
			if n != want {
				note = fmt.Sprintf("batch %d is visible with %d of %d rows", b, n, want)
			}
		}
	}()
	if res.OErr != nil || res.MarkErr != nil {
		note = fmt.Sprintf("enclosing context: %v %v", res.OErr, res.MarkErr)
	}
	return
}

func (c c05BatchCase) leanOp() []interface{} {
	nb := c.batches()
	var bs [][]interface{}
	for b := 0; b < nb; b++ {
		var fail interface{}
		applied := false
		if b == c.FailStmt {
			fail = "refused"
			applied = c.FailKind == "inject-post"
		}
		bs = append(bs, []interface{}{[]interface{}{b + 1, fail, applied}})
	}
	base := strings.TrimSuffix(c.Cfg, "+sp")
	cbs := c.Size
	if !c.ViaCreate && c.Size > 0 {
		// a direct CreateInBatches call = Create delegating with this batch size
		cbs = c.Size
	}
	return []interface{}{"c05.cib", c05EnclInTx(c.Ctx), base == "skipdefault", base == "nonested", cbs, c.Len, []interface{}{}, bs}
}

func c05BatchTieSuite(r *Result, rng *rand.Rand, tier string) {
	cfgs := []string{"plain", "plain+sp", "prepare", "nonested", "skipdefault", "prepare+sp", "nonested+sp"}
	shapes := [][2]int{{3, 0}, {2, 2}, {3, 3}, {4, 2}, {3, 2}, {5, 2}, {3, 1}, {7, 3}, {2, 5}} // (len, size): one batch exactly, two exactly, ragged, size 1, fits
	var cases []c05BatchCase
	var reals []c05BatchObs
	for _, cfg := range cfgs {
		if expired() {
			break
		}
		w := c05BatchWorld(cfg)
		for _, ctxKind := range c05EnclCtxs {
			for _, sh := range shapes {
				if tier == "quick" && rng.Intn(2) == 0 {
					continue
				}
				base := c05BatchCase{Cfg: cfg, Ctx: ctxKind, Len: sh[0], Size: sh[1], ViaCreate: sh[1] > 0 && rng.Intn(2) == 0, FailStmt: -1}
				variants := []c05BatchCase{base}
				for j := 0; j < base.batches(); j++ {
					kinds := []string{"check", "inject", "inject-post"}
					if tier == "quick" {
						kinds = []string{kinds[rng.Intn(3)], "check"}[:1+rng.Intn(2)]
					}
					for _, k := range kinds {
						v := base
						v.FailStmt, v.FailKind = j, k
						variants = append(variants, v)
					}
				}
				for _, c := range variants {
					obs, _, note := c05BatchRun(w, c)
					if o, i := w.quiesce(); o != 0 || i != 0 {
						note = fmt.Sprintf("%d transaction(s) open, %d connection(s) in use afterwards", o, i)
					}
					if note != "" {
						// not a statement about the model: the run itself went wrong (judged by the `enclosed` e2e suite)
						r.H("batch_tie_skipped", trunc(note, 40))
						w.Close()
						w = c05BatchWorld(cfg)
						continue
					}
					cases = append(cases, c)
					reals = append(reals, obs)
					r.H("batch_tie_ctx", c.Ctx)
					r.H("batch_tie_cfg", c.Cfg)
					r.H("batch_tie_shape", fmt.Sprintf("len=%d size=%d", c.Len, c.Size))
					r.H("batch_tie_fail", fmt.Sprintf("%s@%d", c.FailKind, c.FailStmt))
					r.H("batch_tie_log", strings.Join(obs.Log, " "))
				}
			}
		}
		w.Close()
	}
	var ops [][]interface{}
	for _, c := range cases {
		ops = append(ops, c.leanOp())
	}
	outs, err := AskLean(ops)
	if err != nil {
		r.Violate(Violation{Kind: "correspondence", Suite: "encl-batches", Note: err.Error()})
		return
	}
	for i, c := range cases {
		r.CorrCompared++
		r.Case("encl-batches", fmt.Sprint(c), true)
		real := canon(reals[i])
		if real != canonRaw(outs[i]) {
			r.Violate(Violation{Kind: "correspondence", Suite: "encl-batches", Input: c, Observed: real, Expected: canonRaw(outs[i]),
				Note: "real CreateInBatches / Create in an enclosing context (error, visible batches after the caller's commit, B/C/R/SP/RT/S trace) vs Stg.createFin (Model/Stages.lean)"})
		}
	}
}

func init() {
	register("C05", c05BatchTieSuite)
	replayers["C05/encl-batches"] = func(r *Result, input json.RawMessage) {
		var c c05BatchCase
		if err := json.Unmarshal(input, &c); err != nil {
			r.Note("bad replay input: %v", err)
			return
		}
		w := c05BatchWorld(c.Cfg)
		defer w.Close()
		obs, res, note := c05BatchRun(w, c)
		// main.go applies -driver only after the replay branch; honour it here
		if f := flag.Lookup("driver"); f != nil && f.Value.String() != "" {
			driverPath = f.Value.String()
		}
		outs, err := AskLean([][]interface{}{c.leanOp()})
		if err != nil || len(outs) != 1 {
			r.Note("model not available: %v", err)
			return
		}
		r.Case("encl-batches", fmt.Sprint(c), true)
		if note == "" && canon(obs) != canonRaw(outs[0]) {
			r.Violate(Violation{Kind: "correspondence", Suite: "encl-batches", Input: c, Observed: canon(obs), Expected: canonRaw(outs[0]),
				Note: fmt.Sprintf("write error: %v", res.WErr)})
		}
	}
}
