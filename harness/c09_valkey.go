package main

// C09 round 4 — suite `valkey`: a primary key handed over INSIDE THE UPDATING VALUE (not through Model(..)).
//
// Dimension that was constant before: the value given to Updates / UpdateColumns / Update("id", k) never carried a key
// unless it also was the Model.  callbacks/update.go ConvertToAssignments turns the key of the UPDATING value into a WHERE
// condition only when that value IS the statement's Model and is addressable (`db.Updates(&rec)`); in every other shape —
// a struct by value, a pointer, a struct of another type, a map with an "id"/"ID" entry, the column form Update("id", k) —
// the key is DATA (it goes to SET) and supplies no condition:  `db.Model(&T{}).Updates(T{ID: 2, B: &v})` must be refused
// with ErrMissingWhereClause, send nothing and change nothing, exactly like the same call without the ID.
//
//	enumerated: model kind (plain / soft delete) × placement of the Model (key-less, keyed, key-less slice, none = the value
//	is the model, Table(..) only) × value form (struct, pointer, other struct type, pointer to it, map by column name, map by
//	field name, column form) × value key (0, an existing row, the Model's own key, a missing row) × Updates/UpdateColumns
//	(Update/UpdateColumn for the column form) × Unscoped × a real condition present or not × AllowGlobalUpdate × 0–2 drawn
//	condition-free calls (incl. Select("id","b") / Omit("id")) × a drawn mode (c09Modes).
//
//	e2e (the property): no condition, Model key-less, value not the Model  ⇒ ErrMissingWhereClause, nothing sent, table
//	  unchanged;  a condition / keyed Model / the value is the keyed Model ⇒ never ErrMissingWhereClause, and no row outside
//	  {rows named by the condition, the Model's key, the value's key} changes.
//	tie: the Lean statement machine (Model/Where.lean stmtRun + `fin update valueKey same`, Model/UpdateKeysGuard.lean) —
//	  rejected?, number of WHERE expressions and the soft-delete marker the real statement ends with
//	  (`res.Statement.Clauses["WHERE"]`), so that a key condition added or lost is seen even where the guard's answer agrees.
//
// LATITUDE: what the key inside a separate value does to the SET list (it re-keys the row; a UNIQUE violation when the
// key exists) is not C09's business — only rows outside the three named sets are required to stay unchanged.

import (
	"encoding/json"
	"errors"
	"fmt"
	"math/rand"
	"sort"
	"strings"

	"gorm.io/gorm"
	"gorm.io/gorm/clause"
)

// WPatch: another struct type carrying the table's columns (ConvertToAssignments parses it as a "different schema")
type WPatch struct {
	ID uint
	B  *int
}

type c09VKCase struct {
	Kind     int      `json:"model_kind"`      // 0 plain, 1 soft delete
	Place    string   `json:"model_placement"` // keyless | keyed | keyless-slice | none | table
	ModelKey int      `json:"model_key"`
	Value    string   `json:"value_form"` // struct | ptr | other-struct | other-ptr | map-column | map-field | column
	ValueKey int      `json:"value_key"`
	Fin      string   `json:"finisher"`
	Unscoped bool     `json:"unscoped"`
	Cond     bool     `json:"real_condition"` // Where("id IN ?", []int{4, 5}) is part of the chain
	Allow    string   `json:"allow_global_update"`
	Calls    []string `json:"calls"`
	Mode     string   `json:"tx_mode,omitempty"`
}

var c09VKPlaces = []string{"keyless", "keyed", "keyless-slice", "none", "table"}
var c09VKValues = []string{"struct", "ptr", "other-struct", "other-ptr", "map-column", "map-field", "column"}

func c09VKValid(c c09VKCase) bool {
	own := c.Value == "struct" || c.Value == "ptr"
	isMap := c.Value == "map-column" || c.Value == "map-field"
	switch c.Place {
	case "none":
		return own // without Model(..) the value names the table
	case "table":
		return isMap || c.Value == "column"
	}
	if c.Value == "column" && c.ValueKey == 0 {
		return false
	}
	return true
}

func c09VKValue(c c09VKCase) interface{} {
	v := 91
	k := uint(c.ValueKey)
	soft := c.Kind == 1
	switch c.Value {
	case "struct":
		if soft {
			return WSoft{ID: k, B: &v}
		}
		return WPlain{ID: k, B: &v}
	case "ptr":
		if soft {
			return &WSoft{ID: k, B: &v}
		}
		return &WPlain{ID: k, B: &v}
	case "other-struct":
		return WPatch{ID: k, B: &v}
	case "other-ptr":
		return &WPatch{ID: k, B: &v}
	case "map-column":
		m := map[string]interface{}{"b": 91}
		if k != 0 {
			m["id"] = k
		}
		return m
	case "map-field":
		m := map[string]interface{}{"B": 91}
		if k != 0 {
			m["ID"] = k
		}
		return m
	}
	return nil
}

func c09VKFinish(h *gorm.DB, c c09VKCase) *gorm.DB {
	soft := c.Kind == 1
	c09Kind = c.Kind
	switch c.Place {
	case "keyless":
		h = h.Model(c09Model(soft, 0))
	case "keyed":
		h = h.Model(c09Model(soft, c.ModelKey))
	case "keyless-slice":
		h = h.Model(c09SliceModel(soft))
	case "table":
		h = h.Table(c09Table(soft))
	}
	if c.Cond {
		h = h.Where("id IN ?", []int{4, 5})
	}
	switch c.Fin {
	case "Updates":
		return h.Updates(c09VKValue(c))
	case "UpdateColumns":
		return h.UpdateColumns(c09VKValue(c))
	case "Update":
		return h.Update("id", c.ValueKey)
	}
	return h.UpdateColumn("id", c.ValueKey)
}

// c09VKCalls: the condition-free calls drawn in front of the finisher
func c09VKCalls(soft bool) []c09Call {
	var out []c09Call
	for _, cl := range c09Calls(soft) {
		// Returning is left to the guard suite (addressable models): with RETURNING, callbacks/update.go Update takes
		// ReflectValue.Addr() and PANICS ("reflect.Value.Addr of unaddressable value") when the statement's value is a struct by
		// value or a map under Table(..) — `db.Table("t").Clauses(clause.Returning{}).Updates(map[string]interface{}{…})`; a
		// defect of gorm, but not one of C09's sentences
		if strings.Contains(cl.Desc, "Returning") {
			continue
		}
		if cl.EmptyWhere || cl.KeylessOnly || strings.HasPrefix(cl.Desc, "Table(") || strings.HasPrefix(cl.Desc, "Select(") || strings.HasPrefix(cl.Desc, "Omit(") {
			continue
		}
		out = append(out, cl)
	}
	out = append(out,
		c09Call{Desc: "Select(id,b)", Apply: func(db *gorm.DB, _ bool) *gorm.DB { return db.Select("id", "b") }},
		c09Call{Desc: "Omit(id)", Apply: func(db *gorm.DB, _ bool) *gorm.DB { return db.Omit("id") }},
		c09Call{Desc: "Select(*)", Apply: func(db *gorm.DB, _ bool) *gorm.DB { return db.Select("*") }})
	return out
}

// c09VKSupplies: does the chain supply a condition (property text: a Where/Not/Or/inline condition, or a model value with
// a primary key)?  The value handed to the finisher is "the model value" only when no Model(..) was given.
func c09VKSupplies(c c09VKCase) bool {
	return c.Cond || c.Place == "keyed" && c.ModelKey != 0 || c.Place == "none" && c.ValueKey != 0
}

func c09RowsOf(dump string) map[string]string {
	out := map[string]string{}
	if dump == "" {
		return out
	}
	for _, row := range strings.Split(dump, ";") {
		id := row
		if i := strings.Index(row, "|"); i >= 0 {
			id = row[:i]
		}
		out[id] = row
	}
	return out
}

// c09ChangedOutside: ids of rows that differ between the dumps and are not in `allowed`
func c09ChangedOutside(before, after string, allowed map[int]bool) []string {
	b, a := c09RowsOf(before), c09RowsOf(after)
	seen := map[string]bool{}
	var out []string
	for id, row := range b {
		seen[id] = true
		if a[id] != row && !allowed[atoiOr(id, -1)] {
			out = append(out, id)
		}
	}
	for id := range a {
		if !seen[id] && !allowed[atoiOr(id, -1)] {
			out = append(out, id)
		}
	}
	sort.Strings(out)
	return out
}

func atoiOr(s string, d int) int {
	n := 0
	if s == "" {
		return d
	}
	for _, ch := range s {
		if ch < '0' || ch > '9' {
			return d
		}
		n = n*10 + int(ch-'0')
	}
	return n
}

type c09VKObs struct {
	Rejected bool   `json:"rejected"`
	Err      string `json:"error"`
	NExec    int    `json:"statements_sent"`
	NExprs   *int   `json:"where_expressions"` // nil = no WHERE entry
	Marker   bool   `json:"soft_delete_marker"`
	Built    bool   `json:"statement_built"`
	Before   string `json:"-"`
	After    string `json:"-"`
}

// c09WhereShape: what the statement the finisher ran on ends with
func c09WhereShape(res *gorm.DB) (n *int, marker bool) {
	if res == nil || res.Statement == nil {
		return nil, false
	}
	_, marker = res.Statement.Clauses["soft_delete_enabled"]
	if c, ok := res.Statement.Clauses["WHERE"]; ok {
		if w, ok := c.Expression.(clause.Where); ok {
			k := len(w.Exprs)
			return &k, marker
		}
	}
	return nil, marker
}

func c09VKExec(db *gorm.DB, rec *Recorder, c c09VKCase) c09VKObs {
	soft := c.Kind == 1
	var calls []c09Call
	all := c09VKCalls(soft)
	for _, d := range c.Calls {
		for _, cl := range all {
			if cl.Desc == d {
				calls = append(calls, cl)
			}
		}
	}
	var res *gorm.DB
	fin := c09Fin{Name: c.Fin, Run: func(h *gorm.DB, _ bool, _ int) *gorm.DB {
		res = c09VKFinish(h, c)
		return res
	}}
	cc := c09Case{Kind: c.Kind, Soft: soft, Allow: c.Allow, Key: c.ModelKey, Unscoped: c.Unscoped, Fin: c.Fin, Mode: c.Mode}
	c09Kind = c.Kind
	before := tableDumpOf(db, c09Table(soft))
	err, events, _ := c09Run(db, rec, cc, calls, fin)
	o := c09VKObs{Rejected: errors.Is(err, gorm.ErrMissingWhereClause), NExec: c09StmtEvents(events), Before: before, After: tableDumpOf(db, c09Table(soft))}
	if err != nil {
		o.Err = err.Error()
	}
	o.NExprs, o.Marker = c09WhereShape(res)
	o.Built = res != nil && res.Statement != nil && res.Statement.SQL.Len() > 0
	return o
}

// LATITUDE (nothing to update): when Select/Omit and the value leave NO assignment (`Table(t).Select("id","b").Updates(
// map{"ID": 2, "B": 91})` — without a schema the map keys are column names and none is selected; `Updates(T{})`),
// callbacks/update.go Update returns before building anything: no statement, no error, no row.  An update of nothing is not
// "an Update … that executes": neither half of the property is judged on it.
func c09VKNothingToSet(o c09VKObs) bool {
	return !o.Built && o.Err == "" && o.NExec == 0 && o.Before == o.After
}

// c09VKJudge: the property on one observed case
func c09VKJudge(r *Result, c c09VKCase, o c09VKObs) {
	if c09VKNothingToSet(o) {
		r.H("valkey.latitude", "nothing to SET: no statement built, no error")
		return
	}
	if c.Allow != "off" {
		if o.Rejected {
			r.Violate(Violation{Kind: "e2e", Suite: "valkey", Input: c, Observed: o, Expected: "AllowGlobalUpdate is enabled: never ErrMissingWhereClause"})
		}
		return
	}
	changed := o.Before != o.After
	if !c09VKSupplies(c) {
		if !o.Rejected || o.NExec != 0 || changed {
			r.Violate(Violation{Kind: "e2e", Suite: "valkey", Input: c, Observed: o,
				Expected: "ErrMissingWhereClause, nothing sent, table unchanged: the chain supplies no condition and the Model value has no primary key (a key inside the updating value is data, not a condition)"})
		}
		return
	}
	if o.Rejected {
		r.Violate(Violation{Kind: "e2e", Suite: "valkey", Input: c, Observed: o, Expected: "a chain that supplies a condition (Where / keyed model value) is never rejected for a missing WHERE"})
		return
	}
	allowed := map[int]bool{c.ValueKey: true}
	if c.Place == "keyed" {
		allowed[c.ModelKey] = true
	}
	if c.Cond {
		allowed[4], allowed[5] = true, true
	}
	if out := c09ChangedOutside(o.Before, o.After, allowed); len(out) > 0 {
		r.Violate(Violation{Kind: "e2e", Suite: "valkey", Input: c, Observed: map[string]interface{}{"rows_changed_outside": out, "before": o.Before, "after": o.After},
			Expected: "only rows named by the chain's condition, the Model's key or the value's key may change"})
	}
}

func init() {
	register("C09", func(r *Result, rng *rand.Rand, tier string) {
		type world struct {
			db  *gorm.DB
			rec *Recorder
		}
		worlds := map[string]world{}
		open := func(kind int, cfgAllow, skipTx bool) world {
			k := fmt.Sprint(kind, cfgAllow, skipTx)
			if w, ok := worlds[k]; ok {
				return w
			}
			db, rec, _ := openW(genRows(rand.New(rand.NewSource(7)), 6, kind == 1), kind == 1, &gorm.Config{AllowGlobalUpdate: cfgAllow, SkipDefaultTransaction: skipTx})
			worlds[k] = world{db, rec}
			return worlds[k]
		}
		var ops [][]interface{}
		type pending struct {
			c c09VKCase
			o c09VKObs
		}
		var pend []pending
		flush := func() {
			if len(ops) == 0 {
				return
			}
			res, err := AskLean(ops)
			if err != nil {
				r.Violate(Violation{Kind: "correspondence", Suite: "valkey", Note: err.Error()})
				ops, pend = nil, nil
				return
			}
			for i, p := range pend {
				if c09VKNothingToSet(p.o) {
					continue
				}
				var states []struct {
					NExprs   *int `json:"nexprs"`
					Marker   bool `json:"marker"`
					Rejected bool `json:"rejected"`
				}
				if json.Unmarshal(res[i], &states) != nil || len(states) == 0 {
					r.Violate(Violation{Kind: "correspondence", Suite: "valkey", Input: p.c, Observed: string(res[i]), Note: "model rejected the input"})
					continue
				}
				m := states[len(states)-1]
				r.CorrCompared++
				same := m.Rejected == p.o.Rejected && m.Marker == p.o.Marker && (m.NExprs == nil) == (p.o.NExprs == nil) && (m.NExprs == nil || *m.NExprs == *p.o.NExprs)
				if !same {
					r.Violate(Violation{Kind: "correspondence", Suite: "valkey", Input: p.c, Observed: p.o, Expected: m,
						Note: "real decision / number of WHERE expressions / marker differ from the Lean statement machine (stmtRun … fin update valueKey same)"})
				}
			}
			ops, pend = nil, nil
		}
		one := func(c c09VKCase) {
			if !c09VKValid(c) {
				return
			}
			soft := c.Kind == 1
			c.Mode = c09Modes[rng.Intn(len(c09Modes))]
			calls := c09VKCalls(soft)
			var steps []interface{}
			if c.Unscoped {
				steps = append(steps, []interface{}{"unscoped"})
			}
			for n := rng.Intn(3); n > 0; n-- {
				cl := calls[rng.Intn(len(calls))]
				c.Calls = append(c.Calls, cl.Desc)
				if cl.Step != nil {
					steps = append(steps, cl.Step)
				}
			}
			w := open(c.Kind, c.Allow == "config", c.Mode == "skip-config")
			o := c09VKExec(w.db, w.rec, c)
			r.Case("valkey", fmt.Sprint(c), true)
			r.H("valkey.shape", fmt.Sprintf("place=%s value=%s valueKey=%v cond=%v -> rejected=%v", c.Place, c.Value, c.ValueKey != 0, c.Cond, o.Rejected))
			r.H("valkey.txmode", "mode="+c.Mode)
			r.H("valkey.finisher", c.Fin)
			c09VKJudge(r, c, o)
			if o.Before != o.After {
				c09Kind = c.Kind
				w.db.Session(&gorm.Session{AllowGlobalUpdate: true}).Unscoped().Delete(modelOf(soft))
				seedRows(w.db, genRows(rand.New(rand.NewSource(7)), 6, soft), soft)
			}
			// ---- the tie
			var softJ interface{}
			if soft && c.Place != "table" { // Table(..) without a model: no schema, no soft-delete clauses
				softJ = map[string]interface{}{"col": "`w_softs`.`deleted_at`", "kind": "eq", "val": "nil", "id": 0}
			}
			key := func(k int) []interface{} {
				if k == 0 {
					return []interface{}{}
				}
				return []interface{}{map[string]interface{}{"col": "`id`", "kind": "eq", "val": "scalar", "id": 1}}
			}
			modelKeyJ, valueKeyJ, same := key(0), key(0), false
			switch c.Place {
			case "keyed":
				modelKeyJ = key(c.ModelKey)
			case "none": // the value is the statement's Model; only a pointer is addressable (`Dest == Model` AND CanAddr)
				modelKeyJ = key(c.ValueKey)
				same = c.Value == "ptr"
			}
			switch c.Value {
			case "struct", "ptr", "other-struct", "other-ptr":
				valueKeyJ = key(c.ValueKey)
			}
			if c.Cond {
				steps = append(steps, []interface{}{"cond", "where", map[string]interface{}{"col": map[string]interface{}{"col": "id", "kind": "in", "val": 2, "id": 1}}})
			}
			steps = append(steps, []interface{}{"fin", "update", valueKeyJ, same})
			ops = append(ops, []interface{}{"stmt.run", softJ, modelKeyJ, c.Allow != "off", steps})
			pend = append(pend, pending{c, o})
			if len(ops) >= 2000 {
				flush()
			}
		}
		for _, kind := range []int{0, 1} {
			for _, place := range c09VKPlaces {
				for _, value := range c09VKValues {
					for _, vk := range []int{0, 2, 3, 9} {
						for _, unscoped := range []bool{false, true} {
							for _, cond := range []bool{false, true} {
								for _, allow := range []string{"off", "config", "session"} {
									if allow != "off" && rng.Intn(4) != 0 {
										continue
									}
									fins := []string{"Updates", "UpdateColumns"}
									if value == "column" {
										fins = []string{"Update", "UpdateColumn"}
									}
									for _, fin := range fins {
										one(c09VKCase{Kind: kind, Place: place, ModelKey: 3, Value: value, ValueKey: vk, Fin: fin, Unscoped: unscoped, Cond: cond, Allow: allow})
									}
								}
							}
						}
					}
				}
				if expired() {
					flush()
					return
				}
			}
		}
		flush()
	})

	replayers["C09/valkey"] = func(r *Result, input json.RawMessage) {
		var c c09VKCase
		if json.Unmarshal(input, &c) != nil {
			return
		}
		soft := c.Kind == 1
		db, rec, sqlDB := openW(genRows(rand.New(rand.NewSource(7)), 6, soft), soft, &gorm.Config{AllowGlobalUpdate: c.Allow == "config", SkipDefaultTransaction: c.Mode == "skip-config"})
		defer sqlDB.Close()
		c09VKJudge(r, c, c09VKExec(db, rec, c))
	}
}
