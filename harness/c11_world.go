package main

import (
	"context"
	"database/sql"
	"encoding/json"
	"errors"
	"fmt"
	"math/rand"
	"reflect"
	"sort"
	"strings"

	"gorm.io/gorm"
	"gorm.io/gorm/clause"
)

// C11 generic reference-join oracle.
//
// A WORLD is the content of the tables of one model family (plain rows: column -> int64 | string | nil).
// A relation descriptor says which columns of the parent row must equal which columns of the child row
// (directly or through a join table) — written down here independently of gorm's schema parser.
// The oracle evaluates the property text literally on the world:
//   attached(parent, relation, condition) = { child | child.fk = parent.key (SQL equality: NULL equals nothing)
//                                             AND condition(child) AND child not soft-deleted }
// and compares it with what Preload / Joins / Association().Find put into the loaded structs.
//
// Latitude (written next to the oracle on purpose):
//  * a parent whose key tuple is entirely zero-valued is never generated (gorm's convention: zero key = no key);
//  * Association().Find over SEVERAL parents of a many2many relation may return a shared target once per link:
//    compared as a set; every other result is compared as a multiset;
//  * order of attached children is not part of the property: compared sorted by `n`.

type c11Row map[string]interface{}

type c11ColT struct {
	Name string
	Typ  string // int | uint | str | code | bytes   (Go type of the model field, for the reference rendering)
	Ptr  bool   // pointer-typed model field
}

type c11RelD struct {
	Field  string      // Go field name on the parent model
	Emb    string      // dotted path of the `embedded`-tagged struct fields the relation is declared in ("" = top level / promoted)
	Kind   string      // has_one has_many belongs_to many2many poly_one poly_many self_* (histogram only)
	Child  string      // child table
	Single bool        // pointer to one struct (Joins-able)
	On     [][2]string // (parent column, child column)
	Const  [][2]string // child column = text constant (polymorphic type)
	Via    string      // join table
	ViaP   [][2]string // (parent column, join column)
	ViaC   [][2]string // (join column, child column)
}

type c11Table struct {
	Name  string
	Model interface{} // nil for join tables
	Cols  []c11ColT   // besides n / deleted_at
	Rels  []c11RelD
}

type c11Family struct {
	Name   string
	Tables []*c11Table
	Gen    func(rng *rand.Rand, mode int) c11World
	Decoys []c11Decoy // scale generator: columns no relation reads, filled with the neighbouring row's value of a same-named key column
}

type c11World struct {
	Family   string              `json:"family"`
	Tables   map[string][]c11Row `json:"tables"`
	unscoped bool                // the operation runs under db.Unscoped(): the soft-delete scope is "every row"
	idx      *c11Index           // optional hash index for the reference join (scale worlds, see c11_scale.go); nil = nested loops
}

var c11Families = map[string]*c11Family{}

func (f *c11Family) table(name string) *c11Table {
	for _, t := range f.Tables {
		if t.Name == name {
			return t
		}
	}
	panic("c11: no table " + name)
}

func (t *c11Table) rel(field string) *c11RelD {
	for i := range t.Rels {
		if t.Rels[i].Field == field {
			return &t.Rels[i]
		}
	}
	panic("c11: no relation " + t.Name + "." + field)
}

func (t *c11Table) col(name string) c11ColT {
	for _, c := range t.Cols {
		if c.Name == name {
			return c
		}
	}
	return c11ColT{Name: name, Typ: "int"}
}

// ---- values -------------------------------------------------------------------------------------------

func c11Norm(v interface{}) interface{} {
	switch x := v.(type) {
	case nil:
		return nil
	case int:
		return int64(x)
	case int64:
		return x
	case uint:
		return int64(x)
	case float64:
		return int64(x)
	case string:
		return x
	case bool:
		return x
	case json.Number:
		n, _ := x.Int64()
		return n
	}
	panic(fmt.Sprintf("c11: value %T", v))
}

// SQL equality: NULL equals nothing; text comparison is exact (case-sensitive, BINARY collation)
func c11Eq(a, b interface{}) bool {
	a, b = c11Norm(a), c11Norm(b)
	if a == nil || b == nil {
		return false
	}
	return a == b
}

func c11N(r c11Row) int { return int(c11Norm(r["n"]).(int64)) }

func c11Live(r c11Row) bool {
	d, _ := r["deleted_at"].(bool)
	return !d
}

// ---- conditions on the column n -------------------------------------------------------------------------

type c11Cond struct {
	Kind  string `json:"kind"`  // "" | mod | gt | in
	K     int    `json:"k"`     // mod: n % 2 = K ; gt: n > K
	Set   []int  `json:"set"`   // in
	Style string `json:"style"` // preload/assoc: inline | scope | where ; joins: map | expr | alias
}

func (c c11Cond) ok(n int) bool {
	switch c.Kind {
	case "mod":
		return n%2 == c.K
	case "gt":
		return n > c.K
	case "eq":
		return n == c.K
	case "in":
		for _, x := range c.Set {
			if x == n {
				return true
			}
		}
		return false
	}
	return true
}

// sql text over a (possibly qualified) column
func (c c11Cond) sql(col string) (string, []interface{}) {
	switch c.Kind {
	case "mod":
		return col + " % 2 = ?", []interface{}{c.K}
	case "gt":
		return col + " > ?", []interface{}{c.K}
	case "eq":
		return col + " = ?", []interface{}{c.K}
	case "in":
		set := c.Set
		if len(set) == 0 {
			set = []int{-1}
		}
		return col + " IN ?", []interface{}{set}
	}
	return "", nil
}

func genC11Cond(rng *rand.Rand, maxN int, styles []string) c11Cond {
	c := c11Cond{}
	switch rng.Intn(4) {
	case 0:
		c.Kind, c.K = "mod", rng.Intn(2)
	case 1:
		c.Kind, c.K = "gt", rng.Intn(maxN+1)
	case 2:
		c.Kind, c.K = "eq", 1+rng.Intn(maxN)
	default:
		c.Kind = "in"
		for n := 1; n <= maxN; n++ {
			if rng.Intn(2) == 0 {
				c.Set = append(c.Set, n)
			}
		}
	}
	c.Style = styles[rng.Intn(len(styles))]
	return c
}

// ---- reference join -------------------------------------------------------------------------------------

func c11Match(pairs [][2]string, a, b c11Row) bool {
	for _, p := range pairs {
		if !c11Eq(a[p[0]], b[p[1]]) {
			return false
		}
	}
	return true
}

// children of one parent row under one relation: live, satisfying cond, sorted by n.
// A child linked twice through a join table appears twice (multiset).
func (w c11World) children(rel *c11RelD, p c11Row, cond c11Cond) []c11Row {
	if w.idx != nil {
		return w.childrenIndexed(rel, p, cond)
	}
	var out []c11Row
	for _, c := range w.Tables[rel.Child] {
		if (!w.unscoped && !c11Live(c)) || !cond.ok(c11N(c)) {
			continue
		}
		okc := true
		for _, k := range rel.Const {
			if !c11Eq(c[k[0]], k[1]) {
				okc = false
			}
		}
		if !okc {
			continue
		}
		if rel.Via == "" {
			if c11Match(rel.On, p, c) {
				out = append(out, c)
			}
			continue
		}
		for _, j := range w.Tables[rel.Via] {
			if c11Match(rel.ViaP, p, j) && c11Match(rel.ViaC, j, c) {
				out = append(out, c)
			}
		}
	}
	sort.SliceStable(out, func(i, j int) bool { return c11N(out[i]) < c11N(out[j]) })
	return out
}

// ---- F6 pattern: two distinct key tuples of one side of a relation with the same '_'-join -----------------

func c11Render(ct c11ColT, v interface{}) string {
	v = c11Norm(v)
	if v == nil {
		return "nil"
	}
	switch x := v.(type) {
	case int64:
		if x == 0 && ct.Typ != "uint" && !ct.Ptr {
			return "nil"
		}
		return fmt.Sprint(x)
	case string:
		if x == "" && ct.Typ == "code" && !ct.Ptr {
			return "nil"
		}
		return x
	}
	return fmt.Sprint(v)
}

func (w c11World) collides(f *c11Family) bool {
	side := func(t *c11Table, cols []string) bool {
		if len(cols) < 2 {
			return false
		}
		seen := map[string]string{}
		for _, r := range w.Tables[t.Name] {
			var parts, raw []string
			for _, c := range cols {
				parts = append(parts, c11Render(t.col(c), r[c]))
				raw = append(raw, fmt.Sprintf("%T:%v", c11Norm(r[c]), c11Norm(r[c])))
			}
			j, id := strings.Join(parts, "_"), strings.Join(raw, "\x00")
			if o, ok := seen[j]; ok && o != id {
				return true
			}
			seen[j] = id
		}
		return false
	}
	first := func(ps [][2]string, i int) (out []string) {
		for _, p := range ps {
			out = append(out, p[i])
		}
		return
	}
	for _, t := range f.Tables {
		for i := range t.Rels {
			rel := &t.Rels[i]
			ct := f.table(rel.Child)
			if rel.Via == "" {
				if side(t, first(rel.On, 0)) || side(ct, first(rel.On, 1)) {
					return true
				}
			} else {
				jt := f.table(rel.Via)
				if side(t, first(rel.ViaP, 0)) || side(ct, first(rel.ViaC, 1)) || side(jt, first(rel.ViaP, 1)) || side(jt, first(rel.ViaC, 0)) {
					return true
				}
			}
		}
	}
	return false
}

// ---- operations -----------------------------------------------------------------------------------------

// one node of the load tree: relation Rel of the enclosing model, loaded by Preload or by (Inner)Joins
type c11Node struct {
	Rel      string  `json:"rel"`
	Join     bool    `json:"join,omitempty"`
	Inner    bool    `json:"inner,omitempty"`
	Cond     c11Cond `json:"cond"`
	Explicit bool    `json:"explicit,omitempty"` // interior preload node without condition: call Preload(path) itself too
	// preload node of a relation declared inside embedded structs: name it by its embedded path ("Outer.Inner.Zone") instead of
	// its bare name ("Zone"); both spellings are legal
	ByEmb bool `json:"by_emb,omitempty"`
	// join nodes: column list of the joined relation, given on the join's handle as Select(...) / Omit(...) (db or Go field
	// names); the row number n always stays selected, so which child was attached remains observable
	Sel  []string   `json:"sel,omitempty"`
	Omit []string   `json:"omit,omitempty"`
	Kids []*c11Node `json:"kids,omitempty"`
}

type c11Op struct {
	Kind   string     `json:"kind"`   // query | assoc
	Parent string     `json:"parent"` // parent table
	PSel   c11Cond    `json:"psel"`   // which parents
	Shape  string     `json:"shape"`  // query: slice | ptrs | single | dup ; assoc: one | structs | ptrs | dupptrs | dupvals
	Nodes  []*c11Node `json:"nodes,omitempty"`
	All    bool       `json:"all,omitempty"` // Preload(clause.Associations [, cond])
	AllC   c11Cond    `json:"allc"`
	Rel    string     `json:"rel,omitempty"` // assoc
	Cond   c11Cond    `json:"cond"`
	Count  bool       `json:"count,omitempty"`
	// query, shape single, no joins: the destination struct is loaded twice (first with the same paths without
	// conditions), so the second load must replace, not extend, what the struct already carries
	Twice    bool `json:"twice,omitempty"`
	Unscoped bool `json:"unscoped,omitempty"` // db.Unscoped(): soft-deleted parents / children are part of the result
	// WHERE the operation runs: "" = a plain session; tx = inside a user transaction in which the WHOLE world was inserted and
	// is still uncommitted (a child query that leaves the transaction finds empty tables / a locked database); prepare = on a
	// Session{PrepareStmt: true}; conn = inside db.Connection(…) on a pinned connection; txprepare = both
	Ctx string `json:"ctx,omitempty"`
}

// an injected failure of the K-th query (0-based, counted over the queries the operation sends)
type c11Fault struct {
	K    int    `json:"k"`
	Kind string `json:"kind"` // err: driver error | cancel: the operation's context is cancelled at that query | notfound: the driver answers gorm.ErrRecordNotFound
}

type c11Case struct {
	World c11World  `json:"world"`
	Op    c11Op     `json:"op"`
	Fault *c11Fault `json:"fault,omitempty"`
}

func c11OpenWorld(f *c11Family, w c11World) (*gorm.DB, func()) {
	db, _, closeFn := c11OpenWorldRec(f, w)
	return db, closeFn
}

func c11OpenWorldRec(f *c11Family, w c11World) (*gorm.DB, *Recorder, func()) {
	db, rec, sqlDB := OpenRec(&gorm.Config{DisableForeignKeyConstraintWhenMigrating: true})
	var models []interface{}
	for _, t := range f.Tables {
		if t.Model != nil {
			models = append(models, t.Model)
		}
	}
	if err := db.AutoMigrate(models...); err != nil {
		panic(err)
	}
	for _, t := range f.Tables {
		c11InsertRows(sqlDB, t, w.Tables[t.Name])
	}
	return db, rec, func() { sqlDB.Close() }
}

// multi-row INSERTs (one transaction per table, at most ~900 bind variables per statement)
func c11InsertRows(sqlDB *sql.DB, t *c11Table, rows []c11Row) {
	if len(rows) == 0 {
		return
	}
	tx, err := sqlDB.Begin()
	if err != nil {
		panic(err)
	}
	c11InsertRowsVia(func(q string, args ...interface{}) error { _, e := tx.Exec(q, args...); return e }, t, rows)
	if err := tx.Commit(); err != nil {
		panic(err)
	}
}

func c11InsertRowsVia(exec func(q string, args ...interface{}) error, t *c11Table, rows []c11Row) {
	if len(rows) == 0 {
		return
	}
	colSet := map[string]bool{}
	for _, r := range rows {
		for k := range r {
			colSet[k] = true
		}
	}
	idCol := c11IDCol(t)
	addID := t.Model != nil && idCol != "" && !colSet[idCol] && !hasCol(t, idCol)
	keys := make([]string, 0, len(colSet))
	for k := range colSet {
		keys = append(keys, k)
	}
	sort.Strings(keys)
	var cols []string
	for _, k := range keys {
		cols = append(cols, "`"+k+"`")
	}
	if addID {
		cols = append(cols, "`"+idCol+"`")
	}
	one := "(" + strings.TrimSuffix(strings.Repeat("?,", len(cols)), ",") + ")"
	per := 900 / len(cols)
	if per < 1 {
		per = 1
	}
	for lo := 0; lo < len(rows); lo += per {
		hi := lo + per
		if hi > len(rows) {
			hi = len(rows)
		}
		args := make([]interface{}, 0, (hi-lo)*len(cols))
		for _, r := range rows[lo:hi] {
			for _, k := range keys {
				v := c11Norm(r[k])
				if k == "deleted_at" {
					if d, _ := v.(bool); d {
						v = fixedNow
					} else {
						v = nil
					}
				} else if s, ok := v.(string); ok && t.col(k).Typ == "bytes" {
					v = []byte(s)
				}
				args = append(args, v)
			}
			if addID {
				args = append(args, c11N(r))
			}
		}
		q := "INSERT INTO `" + t.Name + "` (" + strings.Join(cols, ",") + ") VALUES " + strings.TrimSuffix(strings.Repeat(one+",", hi-lo), ",")
		if err := exec(q, args...); err != nil {
			panic(fmt.Sprintf("c11 load %s rows %d..%d: %v", t.Name, lo, hi, err))
		}
	}
}

func hasCol(t *c11Table, name string) bool {
	for _, c := range t.Cols {
		if c.Name == name {
			return true
		}
	}
	return false
}

// column of the model's surrogate `ID` field ("" when it has none): `id` unless renamed by a column: tag
func c11IDCol(t *c11Table) string {
	if t.Model == nil || !modelHasID(t.Model) {
		return ""
	}
	if f := c11Schema(t).LookUpField("ID"); f != nil {
		return f.DBName
	}
	return ""
}

func modelHasID(m interface{}) bool {
	_, ok := reflect.TypeOf(m).Elem().FieldByName("ID")
	return ok
}

func (t *c11Table) typ() reflect.Type { return reflect.TypeOf(t.Model).Elem() }

// apply a condition to a Preload call
func c11PreloadArgs(c c11Cond) []interface{} {
	if c.Kind == "" {
		if c.Style == "idfunc" { // Preload(name, func(db *gorm.DB) *gorm.DB { return db }): a function condition that adds nothing
			return []interface{}{func(tx *gorm.DB) *gorm.DB { return tx }}
		}
		return nil
	}
	s, a := c.sql("n")
	if c.Style == "scope" {
		return []interface{}{func(tx *gorm.DB) *gorm.DB { return tx.Where(s, a...) }}
	}
	return append([]interface{}{s}, a...)
}

// ON condition of an association join as a *gorm.DB: a struct of the joined model (gorm qualifies its columns with
// the join alias), a clause expression over clause.CurrentTable, or SQL text naming the alias explicitly
func c11JoinOn(db *gorm.DB, c c11Cond, alias string, childType reflect.Type) *gorm.DB {
	col := clause.Column{Table: clause.CurrentTable, Name: "n"}
	switch {
	case c.Style == "struct" && c.Kind == "eq":
		v := reflect.New(childType)
		v.Elem().FieldByName("N").SetInt(int64(c.K))
		return db.Where(v.Interface())
	case c.Style != "alias" && c.Kind == "eq":
		return db.Where(clause.Eq{Column: col, Value: c.K})
	case c.Style != "alias" && c.Kind == "gt":
		return db.Where(clause.Gt{Column: col, Value: c.K})
	case c.Style != "alias" && c.Kind == "in":
		vals := []interface{}{}
		for _, x := range c.Set {
			vals = append(vals, x)
		}
		if len(vals) == 0 {
			vals = append(vals, -1)
		}
		return db.Where(clause.IN{Column: col, Values: vals})
	}
	s, a := c.sql("`" + alias + "`.`n`")
	return db.Where(s, a...)
}

func c11Alias(path []string) string { return strings.Join(path, "__") }

func (f *c11Family) applyNodes(db, q *gorm.DB, t *c11Table, prefix []string, nodes []*c11Node) *gorm.DB {
	return f.applyNodesP(db, q, t, prefix, prefix, nodes)
}

// prefix = relation names from the root (join names, aliases); pprefix = the same path as spelt for Preload (embedded paths)
func (f *c11Family) applyNodesP(db, q *gorm.DB, t *c11Table, prefix, pprefix []string, nodes []*c11Node) *gorm.DB {
	for _, nd := range nodes {
		rel := t.rel(nd.Rel)
		path := append(append([]string{}, prefix...), nd.Rel)
		ppath := append([]string{}, pprefix...)
		if nd.ByEmb && !nd.Join && rel.Emb != "" {
			ppath = append(ppath, rel.Emb)
		}
		ppath = append(ppath, nd.Rel)
		name := strings.Join(path, ".")
		if !nd.Join {
			name = strings.Join(ppath, ".")
		}
		if nd.Join {
			var args []interface{}
			if nd.Cond.Kind != "" || len(nd.Sel) > 0 || len(nd.Omit) > 0 {
				h := db
				if nd.Cond.Kind != "" {
					h = c11JoinOn(db, nd.Cond, c11Alias(path), f.table(rel.Child).typ())
				}
				if len(nd.Sel) > 0 {
					h = h.Select(append([]string{}, nd.Sel...))
				}
				if len(nd.Omit) > 0 {
					h = h.Omit(nd.Omit...)
				}
				args = append(args, h)
			}
			if nd.Inner {
				q = q.InnerJoins(name, args...)
			} else {
				q = q.Joins(name, args...)
			}
		} else if nd.Cond.Kind != "" || nd.Cond.Style == "idfunc" || len(nd.Kids) == 0 || nd.Explicit {
			q = q.Preload(name, c11PreloadArgs(nd.Cond)...)
		}
		q = f.applyNodesP(db, q, f.table(rel.Child), path, ppath, nd.Kids)
	}
	return q
}

// expected text of a loaded row under a node list
func (f *c11Family) want(w c11World, t *c11Table, row c11Row, nodes []*c11Node) string {
	var sb strings.Builder
	fmt.Fprintf(&sb, "%d", c11N(row))
	if len(nodes) > 0 {
		sb.WriteString("{")
		for _, nd := range nodes {
			rel := t.rel(nd.Rel)
			ct := f.table(rel.Child)
			var parts []string
			for _, c := range w.children(rel, row, nd.Cond) {
				parts = append(parts, f.want(w, ct, c, nd.Kids))
			}
			fmt.Fprintf(&sb, "%s=[%s]", nd.Rel, strings.Join(parts, " "))
		}
		sb.WriteString("}")
	}
	return sb.String()
}

// inner joins filter the parent rows: every inner-joined node (transitively, through matched join nodes) must match
func (f *c11Family) innerOK(w c11World, t *c11Table, row c11Row, nodes []*c11Node) bool {
	for _, nd := range nodes {
		if !nd.Join {
			continue
		}
		rel := t.rel(nd.Rel)
		cs := w.children(rel, row, nd.Cond)
		if len(cs) == 0 {
			if nd.Inner || c11HasInner(nd.Kids) {
				return false
			}
			continue
		}
		if !f.innerOK(w, f.table(rel.Child), cs[0], nd.Kids) {
			return false
		}
	}
	return true
}

// a to-one relation with several candidate rows (possible only under Unscoped: one live row plus soft-deleted ones):
// which candidate is loaded is not defined by the property; such cases are not judged
func (f *c11Family) ambiguous(w c11World, t *c11Table, row c11Row, nodes []*c11Node) bool {
	for _, nd := range nodes {
		rel := t.rel(nd.Rel)
		cs := w.children(rel, row, nd.Cond)
		if rel.Single && len(cs) > 1 {
			return true
		}
		for _, c := range cs {
			if f.ambiguous(w, f.table(rel.Child), c, nd.Kids) {
				return true
			}
		}
	}
	return false
}

func c11HasInner(nodes []*c11Node) bool {
	for _, nd := range nodes {
		if nd.Join && (nd.Inner || c11HasInner(nd.Kids)) {
			return true
		}
	}
	return false
}

// observed text of a loaded struct under a node list
func c11ViewV(v reflect.Value, nodes []*c11Node) string {
	v = reflect.Indirect(v)
	var sb strings.Builder
	fmt.Fprintf(&sb, "%d", v.FieldByName("N").Int())
	if len(nodes) > 0 {
		sb.WriteString("{")
		for _, nd := range nodes {
			fv := c11FieldDeep(v, nd.Rel) // relations may be declared inside embedded structs
			var elems []reflect.Value
			switch fv.Kind() {
			case reflect.Ptr:
				if !fv.IsNil() {
					elems = append(elems, fv)
				}
			case reflect.Slice:
				for i := 0; i < fv.Len(); i++ {
					e := fv.Index(i)
					if e.Kind() == reflect.Ptr && e.IsNil() {
						continue
					}
					elems = append(elems, e)
				}
			}
			sort.SliceStable(elems, func(i, j int) bool {
				return reflect.Indirect(elems[i]).FieldByName("N").Int() < reflect.Indirect(elems[j]).FieldByName("N").Int()
			})
			var parts []string
			for _, e := range elems {
				parts = append(parts, c11ViewV(e, nd.Kids))
			}
			fmt.Fprintf(&sb, "%s=[%s]", nd.Rel, strings.Join(parts, " "))
		}
		sb.WriteString("}")
	}
	return sb.String()
}

func (w c11World) selected(t *c11Table, sel c11Cond) []c11Row {
	var out []c11Row
	for _, r := range w.Tables[t.Name] {
		if (w.unscoped || c11Live(r)) && sel.ok(c11N(r)) {
			out = append(out, r)
		}
	}
	sort.SliceStable(out, func(i, j int) bool { return c11N(out[i]) < c11N(out[j]) })
	return out
}

func c11HasJoin(nodes []*c11Node) bool {
	for _, nd := range nodes {
		if nd.Join || c11HasJoin(nd.Kids) {
			return true
		}
	}
	return false
}

// run one case on the real code; got/want are line lists
func c11RunCase(cs c11Case) (got, want []string, err error) {
	f := c11Families[cs.World.Family]
	if f == nil {
		return nil, nil, fmt.Errorf("unknown family %q", cs.World.Family)
	}
	if cs.Op.Ctx == "tx" || cs.Op.Ctx == "txprepare" {
		return c11RunCaseInTx(f, cs)
	}
	db, closeFn := c11OpenWorld(f, cs.World)
	defer closeFn()
	return c11ExecCase(db, nil, cs)
}

// the world is inserted INSIDE a user transaction and the operation runs on the transaction handle before anything is
// committed; afterwards the transaction is rolled back
func c11RunCaseInTx(f *c11Family, cs c11Case) (got, want []string, err error) {
	empty := c11World{Family: cs.World.Family, Tables: map[string][]c11Row{}}
	db, closeFn := c11OpenWorld(f, empty)
	defer closeFn()
	if cs.Op.Ctx == "txprepare" {
		db = db.Session(&gorm.Session{PrepareStmt: true})
	}
	tx := db.Begin()
	if tx.Error != nil {
		return nil, nil, tx.Error
	}
	defer tx.Rollback()
	func() {
		defer func() {
			if p := recover(); p != nil {
				err = fmt.Errorf("loading the world inside the transaction: %v", p)
			}
		}()
		for _, t := range f.Tables {
			c11InsertRowsVia(func(q string, args ...interface{}) error { return tx.Exec(q, args...).Error }, t, cs.World.Tables[t.Name])
		}
	}()
	if err != nil {
		return nil, nil, err
	}
	return c11ExecCase(tx, nil, cs)
}

// run the operation of one case on an opened world (the operations only read); ctx (optional) becomes the operation's context
func c11ExecCase(db *gorm.DB, ctx context.Context, cs c11Case) (got, want []string, err error) {
	f := c11Families[cs.World.Family]
	defer func() {
		if p := recover(); p != nil {
			err = fmt.Errorf("panic: %v", p)
		}
	}()
	t := f.table(cs.Op.Parent)
	w, op := cs.World, cs.Op
	w.unscoped = op.Unscoped
	switch op.Ctx {
	case "prepare":
		db = db.Session(&gorm.Session{PrepareStmt: true})
	case "conn":
		op.Ctx, cs.Op.Ctx = "", ""
		cerr := db.Connection(func(pinned *gorm.DB) error {
			// the handle db.Connection passes in is a chain handle (clone = 0: every chain call piles up on its one
			// statement); as with any chain handle, independent operations are derived from a session of it
			got, want, err = c11ExecCase(pinned.Session(&gorm.Session{NewDB: true}), ctx, cs)
			return nil
		})
		if err == nil && cerr != nil {
			err = cerr
		}
		return got, want, err
	}
	qn := "`" + t.Name + "`.`n`"
	base := func() *gorm.DB {
		q := db.Session(&gorm.Session{})
		if ctx != nil {
			q = q.WithContext(ctx)
		}
		if op.Unscoped {
			q = q.Unscoped()
		}
		if op.PSel.Kind != "" {
			s, a := op.PSel.sql(qn)
			q = q.Where(s, a...)
		}
		return q.Order(qn)
	}
	sel := w.selected(t, op.PSel)
	switch op.Kind {
	case "query":
		nodes := op.Nodes
		q := base()
		if op.All {
			q = q.Preload(clause.Associations, c11PreloadArgs(op.AllC)...)
			nodes = nil
			for i := range t.Rels {
				nodes = append(nodes, &c11Node{Rel: t.Rels[i].Field, Cond: op.AllC})
			}
		} else {
			q = f.applyNodes(db, q, t, nil, nodes)
		}
		var loaded []reflect.Value
		switch op.Shape {
		case "single":
			one := reflect.New(t.typ())
			if op.Twice && !op.All && !c11HasJoin(nodes) {
				if e := f.applyNodes(db, base(), t, nil, c11StripConds(nodes)).First(one.Interface()).Error; e != nil && (ctx != nil || !errors.Is(e, gorm.ErrRecordNotFound)) {
					return nil, nil, e
				}
			}
			e := q.First(one.Interface()).Error
			if ctx != nil && e != nil {
				return nil, nil, e // fault runs: every error counts as reported
			}
			if errors.Is(e, gorm.ErrRecordNotFound) {
				e = nil
			} else if e == nil {
				loaded = append(loaded, one)
			}
			if e != nil {
				return nil, nil, e
			}
		case "ptrs":
			sl := reflect.New(reflect.SliceOf(reflect.PointerTo(t.typ())))
			if e := q.Find(sl.Interface()).Error; e != nil {
				return nil, nil, e
			}
			for i := 0; i < sl.Elem().Len(); i++ {
				loaded = append(loaded, sl.Elem().Index(i))
			}
		default:
			if op.Shape == "dup" {
				q = q.Table("(SELECT * FROM `" + t.Name + "` UNION ALL SELECT * FROM `" + t.Name + "`) AS `" + t.Name + "`")
			}
			sl := reflect.New(reflect.SliceOf(t.typ()))
			if e := q.Find(sl.Interface()).Error; e != nil {
				return nil, nil, e
			}
			for i := 0; i < sl.Elem().Len(); i++ {
				loaded = append(loaded, sl.Elem().Index(i))
			}
		}
		for _, v := range loaded {
			got = append(got, c11ViewV(v, nodes))
		}
		for _, r := range sel {
			if w.unscoped && f.ambiguous(w, t, r, nodes) {
				return nil, nil, nil
			}
			if !f.innerOK(w, t, r, nodes) {
				continue
			}
			want = append(want, f.want(w, t, r, nodes))
			if op.Shape == "dup" {
				want = append(want, f.want(w, t, r, nodes))
			}
			if op.Shape == "single" {
				break
			}
		}
	case "assoc":
		rel := t.rel(op.Rel)
		ct := f.table(rel.Child)
		sl := reflect.New(reflect.SliceOf(t.typ()))
		if e := base().Find(sl.Interface()).Error; e != nil {
			return nil, nil, e
		}
		n := sl.Elem().Len()
		if n == 0 {
			return nil, nil, nil
		}
		var model interface{}
		rows := sel
		switch op.Shape {
		case "one":
			model = sl.Elem().Index(0).Addr().Interface()
			rows = sel[:1]
		case "structs":
			model = sl.Interface()
		case "dupvals":
			d := reflect.AppendSlice(sl.Elem(), sl.Elem())
			model = d.Interface()
		default: // ptrs, dupptrs
			ps := reflect.MakeSlice(reflect.SliceOf(reflect.PointerTo(t.typ())), 0, 2*n)
			for i := 0; i < n; i++ {
				ps = reflect.Append(ps, sl.Elem().Index(i).Addr())
			}
			if op.Shape == "dupptrs" {
				for i := n - 1; i >= 0; i-- {
					ps = reflect.Append(ps, sl.Elem().Index(i).Addr())
				}
			}
			model = ps.Interface()
		}
		adb := db
		if ctx != nil {
			adb = db.WithContext(ctx)
		}
		tx := adb.Model(model)
		if op.Unscoped {
			tx = adb.Unscoped().Model(model)
		}
		var inline []interface{}
		if op.Cond.Kind != "" {
			s, a := op.Cond.sql("`" + ct.Name + "`.`n`")
			if op.Cond.Style == "where" || op.Count {
				tx = tx.Where(s, a...)
			} else {
				inline = append([]interface{}{s}, a...)
			}
		}
		asc := tx.Association(op.Rel)
		if asc.Error != nil {
			return nil, nil, asc.Error
		}
		// latitude: when NONE of the given parents has a usable (not entirely NULL/zero) key for this relation, gorm
		// sends `… IN (NULL)`; an empty result and the database's complaint about that text are both accepted
		usable := false
		for _, r := range rows {
			pcols := rel.On
			if rel.Via != "" {
				pcols = rel.ViaP
			}
			if !c11AllZero(t, pcols, r) {
				usable = true
			}
		}
		// expected: union over the given parents; a child reached from two DISTINCT parent keys of a direct relation
		// cannot exist (its fk is one tuple); through a join table it can
		var exp []int
		seenKey := map[string]bool{}
		for _, r := range rows {
			// the same parent given twice contributes once
			k := fmt.Sprint(c11N(r))
			if seenKey[k] {
				continue
			}
			seenKey[k] = true
			for _, c := range w.children(rel, r, op.Cond) {
				exp = append(exp, c11N(c))
			}
		}
		// belongs-to: several parents may point to the same target, which is one row of the target table
		setCompare := rel.Via != "" && len(rows) > 1
		if rel.Via == "" && (rel.Kind == "belongs_to" || rel.Kind == "self_belongs_to") {
			exp = c11Uniq(exp)
		}
		sort.Ints(exp)
		if op.Count {
			if setCompare {
				exp = c11Uniq(exp)
				// count over several many2many parents counts links or distinct targets: not judged
				return nil, nil, nil
			}
			cnt := asc.Count()
			if asc.Error != nil {
				if !usable && ctx == nil {
					return nil, nil, nil
				}
				return nil, nil, asc.Error
			}
			got = append(got, fmt.Sprint("count=", cnt))
			want = append(want, fmt.Sprint("count=", len(exp)))
		} else {
			out := reflect.New(reflect.SliceOf(ct.typ()))
			if e := asc.Find(out.Interface(), inline...); e != nil {
				if !usable && ctx == nil {
					return nil, nil, nil
				}
				return nil, nil, e
			}
			var ns []int
			for i := 0; i < out.Elem().Len(); i++ {
				ns = append(ns, int(out.Elem().Index(i).FieldByName("N").Int()))
			}
			sort.Ints(ns)
			if setCompare {
				ns, exp = c11Uniq(ns), c11Uniq(exp)
			}
			got = append(got, fmt.Sprint("find=", ns))
			want = append(want, fmt.Sprint("find=", exp))
		}
	default:
		return nil, nil, fmt.Errorf("unknown op kind %q", op.Kind)
	}
	return got, want, nil
}

func c11AllZero(t *c11Table, pairs [][2]string, r c11Row) bool {
	for _, p := range pairs {
		v := c11Norm(r[p[0]])
		if v == nil {
			continue
		}
		if !t.col(p[0]).Ptr && (v == int64(0) || v == "") {
			continue
		}
		return false
	}
	return true
}

func c11StripConds(nodes []*c11Node) []*c11Node {
	var out []*c11Node
	for _, nd := range nodes {
		out = append(out, &c11Node{Rel: nd.Rel, Explicit: true, Kids: c11StripConds(nd.Kids)})
	}
	return out
}

func c11Uniq(a []int) []int {
	sort.Ints(a)
	out := []int{}
	for i, x := range a {
		if i == 0 || x != a[i-1] {
			out = append(out, x)
		}
	}
	return out
}

// ---- operation generator ----------------------------------------------------------------------------------

func (f *c11Family) maxN(w c11World) int {
	m := 1
	for _, rows := range w.Tables {
		for _, r := range rows {
			if r["n"] != nil && c11N(r) > m {
				m = c11N(r)
			}
		}
	}
	return m
}

func (f *c11Family) parentTables() []*c11Table {
	var out []*c11Table
	for _, t := range f.Tables {
		if len(t.Rels) > 0 {
			out = append(out, t)
		}
	}
	return out
}

func (f *c11Family) genNodes(rng *rand.Rand, t *c11Table, depth int, joinAllowed bool, maxN int, forceJoin bool) []*c11Node {
	var out []*c11Node
	perm := rng.Perm(len(t.Rels))
	k := 1 + rng.Intn(3)
	if depth > 0 {
		k = 1 + rng.Intn(2)
	}
	for _, i := range perm {
		if len(out) >= k {
			break
		}
		rel := &t.Rels[i]
		nd := &c11Node{Rel: rel.Field}
		if joinAllowed && rel.Single && (forceJoin || rng.Intn(2) == 0) {
			nd.Join = true
			nd.Inner = rng.Intn(4) == 0
			if rng.Intn(2) == 0 {
				nd.Cond = genC11Cond(rng, maxN, []string{"struct", "expr", "alias"})
			}
		} else {
			if forceJoin && depth == 0 {
				continue
			}
			if rng.Intn(3) == 0 {
				nd.Cond = genC11Cond(rng, maxN, []string{"inline", "scope"})
			} else if rng.Intn(6) == 0 {
				nd.Cond = c11Cond{Style: "idfunc"} // a function condition that adds nothing
			}
			nd.Explicit = rng.Intn(2) == 0
		}
		ct := f.table(rel.Child)
		if depth < 2 && len(ct.Rels) > 0 && rng.Intn(3) == 0 {
			nd.Kids = f.genNodes(rng, ct, depth+1, nd.Join, maxN, false)
		}
		if nd.Join && rng.Intn(3) == 0 {
			// a Preload below the join reads the joined record's key columns: they stay selected
			var keep []string
			for _, k := range nd.Kids {
				if !k.Join {
					kr := ct.rel(k.Rel)
					ps := kr.On
					if kr.Via != "" {
						ps = kr.ViaP
					}
					for _, p := range ps {
						keep = append(keep, p[0])
					}
				}
			}
			nd.Sel, nd.Omit = f.genColList(rng, ct, keep)
		}
		out = append(out, nd)
	}
	return out
}

// every column of a model table, in an order that is NOT the declaration order
func (t *c11Table) allCols() []string {
	out := []string{"deleted_at", "n"}
	for _, c := range t.Cols {
		out = append(out, c.Name)
	}
	if idCol := c11IDCol(t); idCol != "" && !hasCol(t, idCol) {
		out = append(out, idCol)
	}
	return out
}

// column list of a join: Select(subset containing n and keep) or Omit(subset without n and keep); names are spelt as db
// column or as Go field name
func (f *c11Family) genColList(rng *rand.Rand, t *c11Table, keep []string) (sel, omit []string) {
	cols := t.allCols()
	spell := func(c string) string {
		if rng.Intn(3) == 0 {
			// family D declares the same Go name at several levels: a name that several fields carry would make gorm
			// pick ANOTHER column than the one meant here (possibly a kept key column) — spell those as db columns
			if sch := c11Schema(t); sch != nil {
				if fld := sch.LookUpField(c); fld != nil {
					same := 0
					for _, o := range sch.Fields {
						if o.Name == fld.Name {
							same++
						}
					}
					if same == 1 {
						return fld.Name
					}
				}
			}
		}
		return c
	}
	inKeep := func(c string) bool { return c == "n" || c11In(keep, c) }
	if rng.Intn(2) == 0 {
		for _, i := range rng.Perm(len(cols)) {
			if inKeep(cols[i]) || rng.Intn(2) == 0 {
				sel = append(sel, spell(cols[i]))
			}
		}
		return sel, nil
	}
	for _, i := range rng.Perm(len(cols)) {
		if !inKeep(cols[i]) && rng.Intn(2) == 0 {
			omit = append(omit, spell(cols[i]))
		}
	}
	return nil, omit
}

// Joins(X) [+ Joins(X.Y)] + Preload(X.Z…) / Preload(X.Y.Z…): the preloads run in sessions derived below a joined relation
func (f *c11Family) genBelowJoin(rng *rand.Rand, t *c11Table, maxN int) []*c11Node {
	var cands []*c11RelD
	for i := range t.Rels {
		if t.Rels[i].Single && len(f.table(t.Rels[i].Child).Rels) > 0 {
			cands = append(cands, &t.Rels[i])
		}
	}
	if len(cands) == 0 {
		return nil
	}
	rel := cands[rng.Intn(len(cands))]
	ct := f.table(rel.Child)
	nd := &c11Node{Rel: rel.Field, Join: true}
	if rng.Intn(4) == 0 {
		nd.Cond = genC11Cond(rng, maxN, []string{"struct", "expr", "alias"})
	}
	for _, i := range rng.Perm(len(ct.Rels)) {
		if len(nd.Kids) >= 1+rng.Intn(2) {
			break
		}
		kr := &ct.Rels[i]
		kid := &c11Node{Rel: kr.Field}
		kt := f.table(kr.Child)
		if kr.Single && len(kt.Rels) > 0 && rng.Intn(3) == 0 { // second joined hop with a preload below it
			kid.Join = true
			gk := &kt.Rels[rng.Intn(len(kt.Rels))]
			kid.Kids = []*c11Node{{Rel: gk.Field}}
		} else {
			if rng.Intn(3) == 0 {
				kid.Cond = genC11Cond(rng, maxN, []string{"inline", "scope"})
			}
			if len(kt.Rels) > 0 && rng.Intn(3) == 0 { // nested preload below the preload below the join
				gk := &kt.Rels[rng.Intn(len(kt.Rels))]
				kid.Kids = []*c11Node{{Rel: gk.Field}}
				kid.Explicit = rng.Intn(2) == 0
			}
		}
		nd.Kids = append(nd.Kids, kid)
	}
	out := []*c11Node{nd}
	if rng.Intn(3) == 0 { // a sibling preload next to the join
		sib := &t.Rels[rng.Intn(len(t.Rels))]
		if sib.Field != rel.Field {
			out = append(out, &c11Node{Rel: sib.Field})
		}
	}
	return out
}

func (f *c11Family) genOp(rng *rand.Rand, w c11World) c11Op {
	pts := f.parentTables()
	t := pts[0]
	if rng.Intn(3) == 0 {
		t = pts[rng.Intn(len(pts))]
	}
	maxN := f.maxN(w)
	op := c11Op{Parent: t.Name}
	if rng.Intn(3) == 0 {
		op.PSel = genC11Cond(rng, maxN, []string{"where"})
		if op.PSel.Kind == "eq" || op.PSel.Kind == "gt" {
			op.PSel = c11Cond{Kind: "in", Style: "where"}
			for n := 1; n <= maxN; n++ {
				if rng.Intn(4) > 0 {
					op.PSel.Set = append(op.PSel.Set, n)
				}
			}
		}
	}
	switch x := rng.Intn(12); {
	case x >= 10: // a joined to-one relation with preloads BELOW it (also nested), half of the time under Unscoped
		op.Kind = "query"
		op.Shape = []string{"slice", "ptrs", "single"}[rng.Intn(3)]
		op.Nodes = f.genBelowJoin(rng, t, maxN)
		if len(op.Nodes) == 0 {
			op.Nodes = f.genNodes(rng, t, 0, true, maxN, false)
		}
		op.Unscoped = rng.Intn(2) == 0
	case x < 4: // preload only
		op.Kind = "query"
		op.Shape = []string{"slice", "ptrs", "single", "dup"}[rng.Intn(4)]
		if rng.Intn(6) == 0 {
			op.All = true
			if rng.Intn(2) == 0 {
				op.AllC = genC11Cond(rng, maxN, []string{"inline", "scope"})
			}
		} else {
			op.Nodes = f.genNodes(rng, t, 0, false, maxN, false)
		}
		op.Twice = op.Shape == "single" && rng.Intn(2) == 0
		op.Unscoped = rng.Intn(4) == 0
	case x < 7: // joins (+ preloads)
		op.Kind = "query"
		op.Shape = []string{"slice", "ptrs", "single"}[rng.Intn(3)]
		op.Nodes = f.genNodes(rng, t, 0, true, maxN, rng.Intn(2) == 0)
		if len(op.Nodes) == 0 {
			op.Nodes = f.genNodes(rng, t, 0, true, maxN, false)
		}
		if op.Shape == "single" && c11DeepChain(op.Nodes, 0) && rng.Intn(4) > 0 {
			op.Shape = "slice" // stay away from the listed finding F6b most of the time
		}
		op.Unscoped = rng.Intn(3) == 0
	default:
		op.Kind = "assoc"
		op.Shape = []string{"one", "structs", "ptrs", "dupptrs", "dupvals"}[rng.Intn(5)]
		op.Rel = t.Rels[rng.Intn(len(t.Rels))].Field
		if rng.Intn(2) == 0 {
			op.Cond = genC11Cond(rng, maxN, []string{"inline", "where"})
		}
		op.Count = rng.Intn(3) == 0
		op.Unscoped = rng.Intn(5) == 0
	}
	if rng.Intn(5) == 0 {
		op.Ctx = []string{"tx", "prepare", "conn", "txprepare"}[rng.Intn(4)]
	}
	f.sprinkleEmb(rng, t, op.Nodes)
	if op.All && op.AllC.Kind != "" && op.AllC.Style != "scope" && t.hasEmb() && c11AvoidF35() && rng.Intn(4) > 0 {
		op.AllC.Style = "scope" // stay away from the listed finding F35 most of the time (unrepaired tree only)
	}
	return op
}

// preload nodes of relations declared inside embedded structs: half of them are named by their embedded path
func (f *c11Family) sprinkleEmb(rng *rand.Rand, t *c11Table, nodes []*c11Node) {
	for _, nd := range nodes {
		rel := t.rel(nd.Rel)
		if rel.Emb != "" && !nd.Join {
			nd.ByEmb = rng.Intn(2) == 0
		}
		f.sprinkleEmb(rng, f.table(rel.Child), nd.Kids)
	}
}

// ---- histogram helpers -------------------------------------------------------------------------------------

// which load paths an Unscoped operation exercises
func c11UnscopedShape(op c11Op) string {
	if op.Kind == "assoc" {
		return "assoc/" + op.Shape
	}
	var join, pre, nested, below, cond bool
	var walk func(nodes []*c11Node, depth int, underJoin bool)
	walk = func(nodes []*c11Node, depth int, underJoin bool) {
		for _, nd := range nodes {
			if nd.Join {
				join = true
			} else {
				pre = true
				nested = nested || depth > 0
				below = below || underJoin
				cond = cond || nd.Cond.Kind != ""
			}
			walk(nd.Kids, depth+1, underJoin || nd.Join)
		}
	}
	walk(op.Nodes, 0, false)
	return fmt.Sprintf("%s join=%v preload=%v nested=%v preload-below-join=%v cond=%v all=%v", op.Shape, join, pre, nested, below, cond, op.All)
}

func (f *c11Family) nodeStats(r *Result, t *c11Table, nodes []*c11Node, depth int) {
	for _, nd := range nodes {
		rel := t.rel(nd.Rel)
		how := "preload"
		if nd.Join {
			how = "join"
			if nd.Inner {
				how = "innerjoin"
			}
		}
		c := "nocond"
		if nd.Cond.Kind != "" {
			c = "cond:" + nd.Cond.Style
		}
		r.H("world.node", fmt.Sprintf("%s/%s/%s/depth%d", rel.Kind, how, c, depth))
		f.nodeStats(r, f.table(rel.Child), nd.Kids, depth+1)
	}
}
