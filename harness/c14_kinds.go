package main

// C14 round 3 — WHICH ConnPool a handle holds when prepared-statement mode is enabled or used.
//
// Dimension that was constant in the other C14 suites: every prepared handle was derived from the pool itself or from a
// transaction begun on it.  Varied here:
//   * the pool gorm.Open is given: *sql.DB, or a custom ConnPool that is also a ConnPoolBeginner + GetDBConnector / a
//     TxBeginner + GetDBConnector / only a GetDBConnector / nothing but a ConnPool; handed over through the dialector's
//     Conn or through gorm.Config{ConnPool};
//   * handles PINNED to one *sql.Conn by db.Connection(func(tx *gorm.DB) error {…}), transactions inside a Connection,
//     a Connection inside a transaction, prepared sessions enabled for the FIRST time in any of those places;
//   * handles whose Statement.ConnPool was replaced by a delegating plugin wrapper (ConnPool only / + ConnPoolBeginner +
//     GetDBConnector / + TxBeginner);
//   * texts first prepared in one place and REUSED elsewhere: after the Connection returned, after the transaction ended,
//     through other sessions, inside new transactions and new pinned connections (the closing sweep does all of them for
//     every text the program used).
//
// suite "kinds", one generated program = one case:
//   e2e (no model)   rows     every operation returns what the non-prepared reference database returns (no handle is used
//                             after its own transaction / connection ended, so no error is ever permitted);
//                    leak     when the program is over no pool connection is in use; after Close of the cache + drain no
//                             driver statement is open;
//                    prepares at most one pool-level PrepareContext per text and cache generation (counting root pools);
//   correspondence   the pool-kind world of Model/StmtCacheKinds.lean (`sc.kinds`, instantiated with the regenerated
//                    creation-site facts): per handle what Config.ConnPool / Statement.ConnPool are and finally wrap, per
//                    operation its result class, and per text what the cached *sql.Stmt is BOUND to (`Stmt.cg`: nothing =
//                    the pool, a pinned *sql.Conn, a *sql.Tx) with its Transaction flag.
//   Latitude / listed finding F14e: a prepared session derived from a PINNED handle works on the pool, not on the pinned
//   connection; programs therefore never rely on connection-scoped state through such a session (the probe does).

import (
	"context"
	"database/sql"
	"encoding/json"
	"fmt"
	"math/rand"
	"reflect"
	"sort"
	"strings"
	"sync"
	"sync/atomic"

	"github.com/mattn/go-sqlite3"
	"gorm.io/driver/sqlite"
	"gorm.io/gorm"
	"gorm.io/gorm/logger"
)

// ---- root pools ----

const (
	c14kSQLDB     = iota // *sql.DB itself
	c14kFull             // ConnPool + ConnPoolBeginner + GetDBConnector
	c14kTxB              // ConnPool + TxBeginner + GetDBConnector
	c14kConnector        // ConnPool + GetDBConnector (cannot begin)
	c14kBare             // ConnPool only
	c14kNPools
)

var c14kPoolNames = []string{"*sql.DB", "custom(ConnPoolBeginner+GetDBConnector)", "custom(TxBeginner+GetDBConnector)", "custom(GetDBConnector)", "custom(ConnPool only)"}

type c14kCount struct {
	mu    sync.Mutex
	gen   int
	preps map[string]int // "gen|text" -> pool-level PrepareContext calls
}

func (c *c14kCount) note(q string) {
	c.mu.Lock()
	c.preps[fmt.Sprintf("%d|%s", c.gen, q)]++
	c.mu.Unlock()
}

type c14kBase struct {
	db  *sql.DB
	cnt *c14kCount
}

func (p *c14kBase) PrepareContext(ctx context.Context, q string) (*sql.Stmt, error) {
	p.cnt.note(q)
	return p.db.PrepareContext(ctx, q)
}
func (p *c14kBase) ExecContext(ctx context.Context, q string, a ...interface{}) (sql.Result, error) {
	return p.db.ExecContext(ctx, q, a...)
}
func (p *c14kBase) QueryContext(ctx context.Context, q string, a ...interface{}) (*sql.Rows, error) {
	return p.db.QueryContext(ctx, q, a...)
}
func (p *c14kBase) QueryRowContext(ctx context.Context, q string, a ...interface{}) *sql.Row {
	return p.db.QueryRowContext(ctx, q, a...)
}

type c14kTx struct {
	*sql.Tx
	db *sql.DB
}

func (t *c14kTx) GetDBConn() (*sql.DB, error) { return t.db, nil }

type c14kFullPool struct{ c14kBase }

func (p *c14kFullPool) BeginTx(ctx context.Context, o *sql.TxOptions) (gorm.ConnPool, error) {
	tx, err := p.db.BeginTx(ctx, o)
	if err != nil {
		return nil, err
	}
	return &c14kTx{Tx: tx, db: p.db}, nil
}
func (p *c14kFullPool) GetDBConn() (*sql.DB, error) { return p.db, nil }

type c14kTxBPool struct{ c14kBase }

func (p *c14kTxBPool) BeginTx(ctx context.Context, o *sql.TxOptions) (*sql.Tx, error) {
	return p.db.BeginTx(ctx, o)
}
func (p *c14kTxBPool) GetDBConn() (*sql.DB, error) { return p.db, nil }

type c14kConnectorPool struct{ c14kBase }

func (p *c14kConnectorPool) GetDBConn() (*sql.DB, error) { return p.db, nil }

type c14kBarePool struct{ c14kBase }

// ---- statement-level plugin wrappers (delegate everything) ----

type c14kWrap0 struct{ inner gorm.ConnPool }

func (w *c14kWrap0) PrepareContext(ctx context.Context, q string) (*sql.Stmt, error) {
	return w.inner.PrepareContext(ctx, q)
}
func (w *c14kWrap0) ExecContext(ctx context.Context, q string, a ...interface{}) (sql.Result, error) {
	return w.inner.ExecContext(ctx, q, a...)
}
func (w *c14kWrap0) QueryContext(ctx context.Context, q string, a ...interface{}) (*sql.Rows, error) {
	return w.inner.QueryContext(ctx, q, a...)
}
func (w *c14kWrap0) QueryRowContext(ctx context.Context, q string, a ...interface{}) *sql.Row {
	return w.inner.QueryRowContext(ctx, q, a...)
}
func (w *c14kWrap0) getDBConn() (*sql.DB, error) {
	switch t := w.inner.(type) {
	case *sql.DB:
		return t, nil
	case gorm.GetDBConnector:
		return t.GetDBConn()
	}
	return nil, gorm.ErrInvalidDB
}

type c14kWrap1 struct{ c14kWrap0 } // + ConnPoolBeginner + GetDBConnector

func (w *c14kWrap1) BeginTx(ctx context.Context, o *sql.TxOptions) (gorm.ConnPool, error) {
	switch b := w.inner.(type) {
	case gorm.TxBeginner:
		tx, err := b.BeginTx(ctx, o)
		if err != nil {
			return nil, err
		}
		return tx, nil
	case gorm.ConnPoolBeginner:
		return b.BeginTx(ctx, o)
	}
	return nil, gorm.ErrInvalidTransaction
}
func (w *c14kWrap1) GetDBConn() (*sql.DB, error) { return w.getDBConn() }

type c14kWrap2 struct{ c14kWrap0 } // + TxBeginner + GetDBConnector (inner must be a TxBeginner)

func (w *c14kWrap2) BeginTx(ctx context.Context, o *sql.TxOptions) (*sql.Tx, error) {
	return w.inner.(gorm.TxBeginner).BeginTx(ctx, o)
}
func (w *c14kWrap2) GetDBConn() (*sql.DB, error) { return w.getDBConn() }

func c14kInner(p gorm.ConnPool) (gorm.ConnPool, bool) {
	switch t := p.(type) {
	case *c14kWrap0:
		return t.inner, true
	case *c14kWrap1:
		return t.inner, true
	case *c14kWrap2:
		return t.inner, true
	}
	return nil, false
}

// dialector that takes the pool from gorm.Config{ConnPool}
type c14kDialector struct{ sqlite.Dialector }

func (d c14kDialector) Initialize(db *gorm.DB) error {
	d.Dialector.Conn = db.ConnPool
	return d.Dialector.Initialize(db)
}

var c14kCounter int64

type c14kDB struct {
	db    *gorm.DB
	root  gorm.ConnPool
	sqlDB *sql.DB
	rec   *Recorder
	cnt   *c14kCount
}

func c14kOpen(kind int, viaConfig bool, cfg *gorm.Config) (*c14kDB, error) {
	n := atomic.AddInt64(&c14kCounter, 1)
	rec := &Recorder{Off: true}
	sqlDB := sql.OpenDB(&recConnector{dsn: fmt.Sprintf("file:c14kinds%d?mode=memory&cache=shared", n), drv: &sqlite3.SQLiteDriver{}, rec: rec})
	sqlDB.SetMaxIdleConns(4)
	if _, err := sqlDB.Exec("create table c14m_rows(id integer primary key, name text, age int)"); err != nil {
		panic(err)
	}
	for k := 1; k <= 6; k++ {
		sqlDB.Exec("insert into c14m_rows(id,name,age) values (?,?,?)", k, fmt.Sprintf("n%d", k%3), 10*k)
	}
	cnt := &c14kCount{preps: map[string]int{}}
	base := c14kBase{db: sqlDB, cnt: cnt}
	var root gorm.ConnPool = sqlDB
	switch kind {
	case c14kFull:
		root = &c14kFullPool{base}
	case c14kTxB:
		root = &c14kTxBPool{base}
	case c14kConnector:
		root = &c14kConnectorPool{base}
	case c14kBare:
		root = &c14kBarePool{base}
		cfg.DisableAutomaticPing = true
	}
	cfg.Logger = logger.Discard
	var db *gorm.DB
	var err error
	if viaConfig {
		cfg.ConnPool = root
		db, err = gorm.Open(c14kDialector{}, cfg)
	} else {
		db, err = gorm.Open(sqlite.Dialector{Conn: root}, cfg)
	}
	if err != nil {
		sqlDB.Close()
		return nil, err
	}
	return &c14kDB{db: db, root: root, sqlDB: sqlDB, rec: rec, cnt: cnt}, nil
}

// ---- programs ----

type c14kStep struct {
	Op      string     `json:"op"` // session | wrap | tx | conn | use | reset
	H       int        `json:"h"`
	Prep    bool       `json:"prep,omitempty"`
	Variant int        `json:"variant,omitempty"`
	Q       int        `json:"q,omitempty"`
	Arg     int        `json:"arg,omitempty"`
	Dtx     bool       `json:"dtx,omitempty"` // the operation runs inside gorm's default transaction
	Inner   []c14kStep `json:"inner,omitempty"`
}

type c14kProg struct {
	Prepare   bool       `json:"prepare"`
	Pool      int        `json:"pool"`
	ViaConfig bool       `json:"via_config"`
	SkipDefTx bool       `json:"skip_default_tx"`
	Steps     []c14kStep `json:"steps"`
	Close     bool       `json:"close"`
}

type c14kHandleObs struct {
	Cfg  string `json:"cfg"`
	Stmt string `json:"stmt"`
}

type c14kEntryObs struct {
	Text int    `json:"text"`
	On   string `json:"on"`
	Tx   bool   `json:"tx"`
}

type c14kObs struct {
	Mismatch []string        `json:"mismatch,omitempty"`
	Panic    string          `json:"panic,omitempty"`
	Dup      []string        `json:"duplicate_prepares,omitempty"`
	Leak     []string        `json:"leak,omitempty"`
	Handles  []c14kHandleObs `json:"handles"`
	Results  []string        `json:"results"`
	Entries  []c14kEntryObs  `json:"entries"`
	Ops      [][]interface{} `json:"-"`
	Aborted  bool            `json:"aborted,omitempty"`
	NPrep    int             `json:"prepared_handles"`
	NPinned  int             `json:"pinned_handles"`
	NUses    int             `json:"uses"`
	Caches   int             `json:"caches"`
}

type c14kEnv struct {
	d       *c14kDB
	ref     *gorm.DB
	obs     *c14kObs
	handles []*gorm.DB
	conns   map[uintptr]int
	txs     map[uintptr]int
	keep    []interface{} // keeps every *sql.Conn / *sql.Tx reachable: addresses stay unique
	nConn   int
	nTx     int
	structs map[*gorm.PreparedStmtDB]bool
	textQ   map[string]int
}

func (e *c14kEnv) base(p gorm.ConnPool) string {
	if p == nil {
		return "nil"
	}
	if p == e.d.root {
		return "root"
	}
	if in, ok := c14kInner(p); ok {
		return e.base(in)
	}
	switch t := p.(type) {
	case *gorm.PreparedStmtDB:
		return e.base(t.ConnPool)
	case *gorm.PreparedStmtTX:
		return e.base(t.Tx)
	case *c14kTx:
		return e.base(t.Tx)
	case *sql.Conn:
		if k, ok := e.conns[reflect.ValueOf(t).Pointer()]; ok {
			return fmt.Sprintf("conn%d", k)
		}
		return "conn?"
	case *sql.Tx:
		if k, ok := e.txs[reflect.ValueOf(t).Pointer()]; ok {
			return fmt.Sprintf("tx%d", k)
		}
		return "tx?"
	}
	return fmt.Sprintf("other(%T)", p)
}

func (e *c14kEnv) pool(p gorm.ConnPool) string {
	if in, ok := c14kInner(p); ok {
		return e.pool(in) // a delegating wrapper is transparent
	}
	switch t := p.(type) {
	case *gorm.PreparedStmtDB:
		e.structs[t] = true
		return "pdb>" + e.base(t.ConnPool)
	case *gorm.PreparedStmtTX:
		e.structs[t.PreparedStmtDB] = true
		return "ptx>" + e.base(t.Tx) + "/" + e.base(t.PreparedStmtDB.ConnPool)
	}
	return "raw>" + e.base(p)
}

func (e *c14kEnv) add(h *gorm.DB) {
	e.handles = append(e.handles, h)
	o := c14kHandleObs{Cfg: e.pool(h.Config.ConnPool), Stmt: e.pool(h.Statement.ConnPool)}
	e.obs.Handles = append(e.obs.Handles, o)
	if strings.HasPrefix(o.Stmt, "p") {
		e.obs.NPrep++
	}
	if strings.HasPrefix(o.Stmt, "raw>conn") {
		e.obs.NPinned++
	}
}

func (e *c14kEnv) regTx(p gorm.ConnPool) {
	for {
		switch t := p.(type) {
		case *gorm.PreparedStmtTX:
			p = t.Tx
			continue
		case *c14kTx:
			p = t.Tx
			continue
		case *sql.Tx:
			e.txs[reflect.ValueOf(t).Pointer()] = e.nTx
			e.keep = append(e.keep, t)
		}
		break
	}
	e.nTx++
}

func c14kIsTx(p gorm.ConnPool) bool {
	if in, ok := c14kInner(p); ok {
		return c14kIsTx(in)
	}
	_, ok := p.(gorm.TxCommitter)
	return ok
}

type c14kCtxKey struct{}

func c14kDerive(h *gorm.DB, prep bool, variant int) *gorm.DB {
	ctx := context.WithValue(context.Background(), c14kCtxKey{}, variant)
	switch variant % 4 {
	case 1:
		return h.Session(&gorm.Session{PrepareStmt: prep, NewDB: true})
	case 2:
		return h.Session(&gorm.Session{PrepareStmt: prep, Context: ctx})
	case 3:
		return h.WithContext(ctx).Session(&gorm.Session{PrepareStmt: prep})
	}
	return h.Session(&gorm.Session{PrepareStmt: prep})
}

func c14kErrClass(err error) string {
	switch {
	case err == nil:
		return "ok"
	case strings.Contains(err.Error(), "connection is already closed"):
		return "connDone"
	case strings.Contains(err.Error(), "transaction has already been committed"):
		return "txDone"
	}
	return "err: " + err.Error()
}

// the texts cached now, over every struct seen
func (e *c14kEnv) texts() map[string]bool {
	out := map[string]bool{}
	for s := range e.structs {
		s.Mux.RLock()
		for k := range s.Stmts {
			out[k] = true
		}
		s.Mux.RUnlock()
	}
	return out
}

func (e *c14kEnv) fail(f string, a ...interface{}) {
	e.obs.Mismatch = append(e.obs.Mismatch, fmt.Sprintf(f, a...))
	e.obs.Aborted = true
}

func (e *c14kEnv) run(steps []c14kStep) {
	for _, s := range steps {
		if e.obs.Aborted {
			return
		}
		if s.H >= len(e.handles) {
			e.fail("generator: handle %d does not exist", s.H)
			return
		}
		h := e.handles[s.H]
		switch s.Op {
		case "session":
			e.add(c14kDerive(h, s.Prep, s.Variant))
			e.obs.Ops = append(e.obs.Ops, []interface{}{"session", s.H, s.Prep})
		case "wrap":
			// what a plugin does in a callback: the statement's pool is replaced by a delegating wrapper
			n := h.Session(&gorm.Session{Context: context.WithValue(context.Background(), c14kCtxKey{}, -1)})
			in := n.Statement.ConnPool
			w0 := c14kWrap0{inner: in}
			_, isTxB := in.(gorm.TxBeginner)
			switch {
			case s.Variant%3 == 1:
				n.Statement.ConnPool = &c14kWrap1{w0}
			case s.Variant%3 == 2 && isTxB:
				n.Statement.ConnPool = &c14kWrap2{w0}
			case s.Variant%3 == 2:
				n.Statement.ConnPool = &c14kWrap1{w0}
			default:
				n.Statement.ConnPool = &w0
			}
			e.add(n)
			e.obs.Ops = append(e.obs.Ops, []interface{}{"session", s.H, false})
		case "tx":
			nested := c14kIsTx(h.Statement.ConnPool)
			body := func(tx *gorm.DB) {
				if !nested {
					e.regTx(tx.Statement.ConnPool)
				}
				e.add(tx)
				e.obs.Ops = append(e.obs.Ops, []interface{}{"begin", s.H})
				e.run(s.Inner)
			}
			t := e.nTx
			if nested || s.Variant%2 == 0 {
				called := false
				err := h.Transaction(func(tx *gorm.DB) error { called = true; body(tx); return nil })
				if err != nil || !called {
					e.fail("Transaction on handle %d (%s): %v", s.H, e.obs.Handles[s.H].Stmt, err)
					return
				}
			} else {
				tx := h.Begin()
				if tx.Error != nil {
					e.fail("Begin on handle %d (%s): %v", s.H, e.obs.Handles[s.H].Stmt, tx.Error)
					return
				}
				body(tx)
				var err error
				if s.Variant%4 == 1 {
					err = tx.Commit().Error
				} else {
					err = tx.Rollback().Error
				}
				if err != nil && !e.obs.Aborted {
					e.fail("end of the transaction begun on handle %d: %v", s.H, err)
					return
				}
			}
			if !nested {
				e.obs.Ops = append(e.obs.Ops, []interface{}{"endTx", t})
			}
		case "conn":
			called := false
			c := e.nConn
			err := h.Connection(func(tx *gorm.DB) error {
				called = true
				if sc, ok := tx.Statement.ConnPool.(*sql.Conn); ok {
					e.conns[reflect.ValueOf(sc).Pointer()] = c
					e.keep = append(e.keep, sc)
				}
				e.nConn++
				e.add(tx)
				e.obs.Ops = append(e.obs.Ops, []interface{}{"connection", s.H})
				e.run(s.Inner)
				return nil
			})
			if err != nil || !called {
				e.fail("Connection on handle %d (%s): %v", s.H, e.obs.Handles[s.H].Stmt, err)
				return
			}
			e.obs.Ops = append(e.obs.Ops, []interface{}{"endConn", c})
		case "use":
			before := e.texts()
			// the handle Connection passes to its callback is a clone-0 handle (conditions accumulate on it): every
			// operation starts from a fresh statement that keeps the handle's pools
			got, e1 := c14mQuery(h.Session(&gorm.Session{NewDB: true}), s.Q, s.Arg)
			want, e2 := c14mQuery(e.ref, s.Q, s.Arg)
			if e1 != nil || e2 != nil || got != want {
				e.obs.Mismatch = append(e.obs.Mismatch, fmt.Sprintf("handle %d (%s) q%d arg %d: got %s / %v, non-prepared reference %s / %v", s.H, e.obs.Handles[s.H].Stmt, s.Q, s.Arg, got, e1, want, e2))
			}
			for k := range e.texts() {
				if !before[k] {
					if _, ok := e.textQ[k]; !ok {
						e.textQ[k] = s.Q
					}
				}
			}
			e.obs.NUses++
			e.obs.Results = append(e.obs.Results, c14kErrClass(e1))
			e.obs.Ops = append(e.obs.Ops, []interface{}{"use", s.H, s.Q, s.Dtx})
			if s.Dtx {
				e.nTx++ // the model numbers gorm's own transaction too
			}
		case "reset":
			// only when the handle's statement pool IS the cache struct; through a wrapped handle (stored programs of earlier
			// generators) nothing is reset on the real code, so the model is not told either
			if p, ok := h.Statement.ConnPool.(*gorm.PreparedStmtDB); ok {
				p.Reset()
				e.d.cnt.mu.Lock()
				e.d.cnt.gen++
				e.d.cnt.mu.Unlock()
				e.obs.Ops = append(e.obs.Ops, []interface{}{"reset", s.H})
			}
		}
	}
}

// what a cached statement is bound to (database/sql: Stmt.cg)
func (e *c14kEnv) boundTo(st *sql.Stmt) string {
	if st == nil {
		return "unprepared"
	}
	v := reflect.ValueOf(st).Elem().FieldByName("cg")
	if !v.IsValid() {
		return "?"
	}
	if v.IsNil() {
		return "root"
	}
	x := v.Elem()
	if x.Kind() != reflect.Ptr {
		return "?"
	}
	switch x.Type().String() {
	case "*sql.Conn":
		if k, ok := e.conns[x.Pointer()]; ok {
			return fmt.Sprintf("conn%d", k)
		}
		return "conn?"
	case "*sql.Tx":
		if k, ok := e.txs[x.Pointer()]; ok {
			return fmt.Sprintf("tx%d", k)
		}
		return "tx?"
	}
	return "?"
}

func c14kRunProg(p c14kProg) (obs *c14kObs) {
	obs = &c14kObs{Handles: []c14kHandleObs{}, Results: []string{}, Entries: []c14kEntryObs{}}
	d, err := c14kOpen(p.Pool, p.ViaConfig, &gorm.Config{PrepareStmt: p.Prepare, SkipDefaultTransaction: p.SkipDefTx})
	if err != nil {
		obs.Mismatch = append(obs.Mismatch, "gorm.Open: "+err.Error())
		obs.Aborted = true
		return obs
	}
	defer d.sqlDB.Close()
	ref, _, _, refSQL := c14mOpen(&gorm.Config{SkipDefaultTransaction: p.SkipDefTx}, false)
	defer refSQL.Close()
	e := &c14kEnv{d: d, ref: ref, obs: obs, conns: map[uintptr]int{}, txs: map[uintptr]int{}, structs: map[*gorm.PreparedStmtDB]bool{}, textQ: map[string]int{}}
	defer func() {
		if x := recover(); x != nil {
			obs.Panic = fmt.Sprint(x)
			obs.Aborted = true
		}
	}()
	e.add(d.db)
	e.run(p.Steps)
	// ---- what every cached statement is bound to ----
	type ek struct {
		q  int
		on string
		tx bool
	}
	seen := map[ek]bool{}
	muxes := map[interface{}]bool{}
	for s := range e.structs {
		muxes[s.Mux] = true
		s.Mux.RLock()
		for text, st := range s.Stmts {
			q, ok := e.textQ[text]
			if !ok {
				continue
			}
			seen[ek{q, e.boundTo(st.Stmt), st.Transaction}] = true
		}
		s.Mux.RUnlock()
	}
	obs.Caches = len(muxes)
	for k := range seen {
		obs.Entries = append(obs.Entries, c14kEntryObs{k.q, k.on, k.tx})
	}
	sort.Slice(obs.Entries, func(i, j int) bool { return canon(obs.Entries[i]) < canon(obs.Entries[j]) })
	// ---- prepares ----
	d.cnt.mu.Lock()
	for k, n := range d.cnt.preps {
		if n > 1 {
			obs.Dup = append(obs.Dup, fmt.Sprintf("%d pool-level PrepareContext calls for generation|text %q", n, k))
		}
	}
	d.cnt.mu.Unlock()
	sort.Strings(obs.Dup)
	// ---- leaks ----
	if !obs.Aborted {
		if !c14mDrain(func() bool { return d.sqlDB.Stats().InUse == 0 }) {
			obs.Leak = append(obs.Leak, fmt.Sprintf("%d pool connections still in use after every Connection returned and every transaction ended", d.sqlDB.Stats().InUse))
		}
		if p.Close {
			for s := range e.structs {
				s.Close()
			}
			if !c14mDrain(func() bool { return atomic.LoadInt64(&d.rec.Stmts) == 0 }) {
				obs.Leak = append(obs.Leak, fmt.Sprintf("%d driver statements open after Close of the cache + drain", atomic.LoadInt64(&d.rec.Stmts)))
			}
		}
	}
	return obs
}

func c14kJudge(o *c14kObs) []c14Verdict {
	var out []c14Verdict
	if o.Panic != "" {
		out = append(out, c14Verdict{"result", "panic: " + o.Panic, ""})
	}
	if len(o.Mismatch) > 0 {
		out = append(out, c14Verdict{"result", strings.Join(o.Mismatch, "; "), ""})
	}
	if len(o.Dup) > 0 {
		out = append(out, c14Verdict{"prepares", strings.Join(o.Dup, "; "), ""})
	}
	if len(o.Leak) > 0 {
		out = append(out, c14Verdict{"leak", strings.Join(o.Leak, "; "), ""})
	}
	return out
}

// ---- generator ----

type c14kGenH struct {
	kind     string // root | conn | tx | pdb | ptx
	alive    bool
	canBegin bool
	canConn  bool
	skipDtx  bool
	wrapped  bool // the statement's pool is a plugin wrapper (op wrap, and plain sessions derived from it)
}

type c14kGen struct {
	rng      *rand.Rand
	hs       []c14kGenH
	openTx   int
	used     map[int]bool
	rootBeg  bool // the root pool can begin transactions
	rootConn bool // the root pool can hand out its *sql.DB
}

func (g *c14kGen) pick(pred func(h c14kGenH) bool) int {
	var c []int
	for i, h := range g.hs {
		if h.alive && pred(h) {
			c = append(c, i)
		}
	}
	if len(c) == 0 {
		return -1
	}
	return c[g.rng.Intn(len(c))]
}

func (g *c14kGen) inTx(h c14kGenH) bool { return h.kind == "tx" || h.kind == "ptx" }

func (g *c14kGen) session(h int, prep bool) c14kStep {
	n := g.hs[h]
	if prep {
		if g.inTx(n) {
			n.kind = "ptx"
		} else {
			// the registered cache on the root pool, whatever the handle was on (pinned connection, wrapper)
			n.kind, n.canBegin, n.canConn = "pdb", g.rootBeg, g.rootConn
			n.wrapped = false
		}
	}
	g.hs = append(g.hs, n)
	return c14kStep{Op: "session", H: h, Prep: prep, Variant: g.rng.Intn(4)}
}

func (g *c14kGen) use(h int, q int) c14kStep {
	n := g.hs[h]
	if c14mIsWrite(q) && g.openTx > 0 {
		q = g.rng.Intn(7) // SQLite shared-cache table locks: no writes while a transaction is open
	}
	g.used[q] = true
	dtx := (q == 8 || q == 9) && !n.skipDtx && n.canBegin && !g.inTx(n)
	return c14kStep{Op: "use", H: h, Q: q, Arg: g.rng.Intn(60), Dtx: dtx}
}

func (g *c14kGen) block(n int, depth int, scope func(h c14kGenH, i int) bool) []c14kStep {
	var out []c14kStep
	pickIn := func(pred func(h c14kGenH) bool) int {
		var c []int
		for i, h := range g.hs {
			if h.alive && scope(h, i) && pred(h) {
				c = append(c, i)
			}
		}
		if len(c) == 0 {
			return -1
		}
		return c[g.rng.Intn(len(c))]
	}
	any := func(h c14kGenH) bool { return true }
	for k := 0; k < n; k++ {
		r := g.rng.Intn(100)
		switch {
		case r < 20: // prepared / plain session
			if h := pickIn(any); h >= 0 {
				out = append(out, g.session(h, g.rng.Intn(4) != 0))
			}
		case r < 26: // plugin wrapper around the statement's pool
			h := pickIn(func(h c14kGenH) bool { return !g.inTx(h) })
			if h < 0 {
				continue
			}
			v := g.rng.Intn(3)
			nh := g.hs[h]
			if v == 0 {
				nh.canBegin, nh.canConn = false, false
			}
			nh.wrapped = true
			g.hs = append(g.hs, nh)
			out = append(out, c14kStep{Op: "wrap", H: h, Variant: v})
		case r < 42 && depth < 3: // Connection
			h := pickIn(func(h c14kGenH) bool { return h.canConn })
			if h < 0 {
				continue
			}
			idx := len(g.hs)
			g.hs = append(g.hs, c14kGenH{kind: "conn", alive: true, canBegin: true, canConn: false, skipDtx: g.hs[h].skipDtx})
			st := c14kStep{Op: "conn", H: h}
			st.Inner = g.block(1+g.rng.Intn(5), depth+1, func(h c14kGenH, i int) bool { return i >= idx || h.kind == "pdb" && g.rng.Intn(4) == 0 })
			for i := idx; i < len(g.hs); i++ {
				g.hs[i].alive = false
			}
			out = append(out, st)
		case r < 56 && depth < 3: // transaction (Transaction(func) or Begin … Commit/Rollback; nested: SavePoint)
			h := pickIn(func(h c14kGenH) bool { return h.canBegin || g.inTx(h) })
			if h < 0 {
				continue
			}
			nh := g.hs[h]
			nested := g.inTx(nh)
			if !nested {
				if nh.kind == "pdb" {
					nh.kind = "ptx"
				} else {
					nh.kind = "tx"
				}
				nh.canConn = g.rootConn
				nh.canBegin = false
			}
			idx := len(g.hs)
			g.hs = append(g.hs, nh)
			g.openTx++
			st := c14kStep{Op: "tx", H: h, Variant: g.rng.Intn(4)}
			st.Inner = g.block(1+g.rng.Intn(4), depth+1, func(h c14kGenH, i int) bool { return i >= idx })
			g.openTx--
			for i := idx; i < len(g.hs); i++ {
				g.hs[i].alive = false
			}
			out = append(out, st)
		case r < 59 && depth == 0: // Reset through a prepared handle
			// Reset is a method of *PreparedStmtDB: a handle whose statement pool is a plugin WRAPPER around it gives an
			// application no cache to reset (the wrapper hides it) — never generated through such a handle
			if h := pickIn(func(h c14kGenH) bool { return h.kind == "pdb" && !h.wrapped }); h >= 0 {
				out = append(out, c14kStep{Op: "reset", H: h})
			}
		default:
			if h := pickIn(any); h >= 0 {
				q := g.rng.Intn(c14mNQ)
				if g.rng.Intn(3) == 0 && len(g.used) > 0 { // a text that was used somewhere else before
					for u := range g.used {
						q = u
						break
					}
				}
				out = append(out, g.use(h, q))
			}
		}
	}
	return out
}

func c14kGenProg(rng *rand.Rand) c14kProg {
	p := c14kProg{Prepare: rng.Intn(3) == 0, Pool: rng.Intn(c14kNPools), ViaConfig: rng.Intn(4) == 0, SkipDefTx: rng.Intn(3) == 0, Close: rng.Intn(4) != 0}
	if rng.Intn(3) == 0 {
		p.Pool = c14kSQLDB
	}
	g := &c14kGen{rng: rng, used: map[int]bool{}}
	g.rootBeg = p.Pool == c14kSQLDB || p.Pool == c14kFull || p.Pool == c14kTxB
	g.rootConn = p.Pool != c14kBare
	root := c14kGenH{kind: "root", alive: true, canBegin: g.rootBeg, canConn: g.rootConn, skipDtx: p.SkipDefTx}
	if p.Prepare {
		root.kind = "pdb"
	}
	g.hs = []c14kGenH{root}
	all := func(h c14kGenH, i int) bool { return true }
	// WHERE prepared mode is enabled first: on the pool, inside a Connection, inside a transaction, inside both
	switch first := rng.Intn(5); {
	case first == 0 || (!g.rootConn && first != 2) || (!g.rootBeg && first == 2):
		p.Steps = append(p.Steps, g.session(0, true))
	case first == 1 || first == 3 || first == 4:
		idx := len(g.hs)
		g.hs = append(g.hs, c14kGenH{kind: "conn", alive: true, canBegin: true, skipDtx: p.SkipDefTx})
		st := c14kStep{Op: "conn", H: 0}
		if first == 1 {
			st.Inner = append(st.Inner, g.session(idx, true))
			st.Inner = append(st.Inner, g.use(len(g.hs)-1, rng.Intn(c14mNQ)))
		}
		st.Inner = append(st.Inner, g.block(1+rng.Intn(4), 1, func(h c14kGenH, i int) bool { return i >= idx })...)
		for i := idx; i < len(g.hs); i++ {
			g.hs[i].alive = false
		}
		p.Steps = append(p.Steps, st)
	default:
		idx := len(g.hs)
		nh := root
		if nh.kind == "pdb" {
			nh.kind = "ptx"
		} else {
			nh.kind = "tx"
		}
		nh.canBegin = false
		g.hs = append(g.hs, nh)
		g.openTx++
		st := c14kStep{Op: "tx", H: 0, Variant: rng.Intn(4)}
		st.Inner = append(st.Inner, g.session(idx, true))
		st.Inner = append(st.Inner, g.use(len(g.hs)-1, rng.Intn(7)))
		st.Inner = append(st.Inner, g.block(rng.Intn(3), 1, func(h c14kGenH, i int) bool { return i >= idx })...)
		g.openTx--
		for i := idx; i < len(g.hs); i++ {
			g.hs[i].alive = false
		}
		p.Steps = append(p.Steps, st)
	}
	p.Steps = append(p.Steps, g.block(3+rng.Intn(8), 0, all)...)
	// ---- closing sweep: every text used so far is reused elsewhere ----
	sw := len(g.hs)
	p.Steps = append(p.Steps, g.session(0, true))
	var qs []int
	for q := range g.used {
		qs = append(qs, q)
	}
	sort.Ints(qs)
	for _, q := range qs {
		p.Steps = append(p.Steps, g.use(sw, q))
	}
	if g.rootBeg && len(qs) > 0 {
		idx := len(g.hs)
		g.hs = append(g.hs, c14kGenH{kind: "ptx", alive: true, canConn: g.rootConn, skipDtx: p.SkipDefTx})
		g.openTx++
		st := c14kStep{Op: "tx", H: sw, Variant: rng.Intn(4)}
		for _, q := range qs {
			if rng.Intn(2) == 0 {
				st.Inner = append(st.Inner, g.use(idx, q))
			}
		}
		g.openTx--
		g.hs[idx].alive = false
		p.Steps = append(p.Steps, st)
	}
	if g.rootConn && len(qs) > 0 {
		idx := len(g.hs)
		g.hs = append(g.hs, c14kGenH{kind: "conn", alive: true, canBegin: true, skipDtx: p.SkipDefTx})
		st := c14kStep{Op: "conn", H: sw}
		st.Inner = append(st.Inner, g.session(idx, true))
		for _, q := range qs {
			if rng.Intn(2) == 0 {
				st.Inner = append(st.Inner, g.use(idx+1, q))
			}
		}
		g.hs[idx].alive, g.hs[idx+1].alive = false, false
		p.Steps = append(p.Steps, st)
	}
	for _, q := range qs {
		if rng.Intn(2) == 0 {
			p.Steps = append(p.Steps, g.use(sw, q))
		}
	}
	return p
}

func c14kReport(r *Result, p c14kProg, o *c14kObs) {
	for _, v := range c14kJudge(o) {
		r.Violate(Violation{Kind: "e2e", Suite: "kinds", Input: p, Observed: v.Detail, Expected: "C14: " + v.What + " oracle (prepared mode on any pool kind gives the rows of non-prepared mode, leaves nothing open)", Note: fmt.Sprintf("root pool %s, prepared handles %d, pinned handles %d", c14kPoolNames[p.Pool%c14kNPools], o.NPrep, o.NPinned)})
	}
}

type c14kModelAns struct {
	Handles []c14kHandleObs `json:"handles"`
	Entries []c14kEntryObs  `json:"entries"`
	Log     []struct {
		Res string `json:"res"`
	} `json:"log"`
	Caches int `json:"caches"`
}

// the model's answer in the form of the observation: handles, result classes, {(q, bound to, Transaction)}
func c14kModelView(m c14kModelAns) (hs []c14kHandleObs, res []string, es []c14kEntryObs) {
	hs, res, es = m.Handles, []string{}, []c14kEntryObs{}
	for _, l := range m.Log {
		res = append(res, l.Res)
	}
	seen := map[string]bool{}
	for _, e := range m.Entries {
		if k := canon(e); !seen[k] {
			seen[k] = true
			es = append(es, e)
		}
	}
	sort.Slice(es, func(i, j int) bool { return canon(es[i]) < canon(es[j]) })
	if hs == nil {
		hs = []c14kHandleObs{}
	}
	return
}

func c14kSuite(r *Result, rng *rand.Rand, n int) {
	var progs []c14kProg
	var obss []*c14kObs
	var ops [][]interface{}
	bad := 0
	for i := 0; i < n && !expired(); i++ {
		if bad >= 5 {
			r.Note("kinds suite: %d violating programs, the remaining programs are skipped", bad)
			break
		}
		p := c14kGenProg(rng)
		var o *c14kObs
		if !c14Bounded(c14GormTimeout(), func() { o = c14kRunProg(p) }) {
			r.Violate(Violation{Kind: "e2e", Suite: "kinds", Input: p, Observed: "the program did not finish (goroutines blocked inside the prepared-statement cache or waiting for a pool connection)", Expected: "no deadlock"})
			break
		}
		r.Case("kinds", canon(p), o.NPrep >= 2 && o.NUses >= 3)
		r.H("c14.kinds.root-pool", c14kPoolNames[p.Pool%c14kNPools])
		r.H("c14.kinds.open", fmt.Sprintf("PrepareStmt=%v viaConfig=%v", p.Prepare, p.ViaConfig))
		r.H("c14.kinds.pinned-handles", fmt.Sprint(o.NPinned))
		r.H("c14.kinds.cache-objects", fmt.Sprint(o.Caches))
		for _, h := range o.Handles {
			r.H("c14.kinds.statement-pool", strings.TrimRight(h.Stmt, "0123456789"))
		}
		for _, e := range o.Entries {
			r.H("c14.kinds.entry-bound-to", fmt.Sprintf("%s tx=%v", strings.TrimRight(e.On, "0123456789"), e.Tx))
		}
		var count func(ss []c14kStep, in string)
		count = func(ss []c14kStep, in string) {
			for _, s := range ss {
				k := s.Op
				if s.Op == "session" {
					k = fmt.Sprintf("session prep=%v", s.Prep)
				}
				if s.Op == "use" && s.Dtx {
					k = "use (default transaction)"
				}
				r.H("c14.kinds.step", k+in)
				if s.Op == "conn" {
					count(s.Inner, in+" in-conn")
				} else {
					count(s.Inner, in+" in-tx")
				}
			}
		}
		count(p.Steps, "")
		if i%50 == 0 {
			r.Sample(map[string]interface{}{"suite": "kinds", "prog": p, "obs": o})
		}
		c14kReport(r, p, o)
		if len(c14kJudge(o)) > 0 {
			bad++
		}
		if !o.Aborted {
			seq := o.Ops
			if seq == nil {
				seq = [][]interface{}{}
			}
			progs, obss = append(progs, p), append(obss, o)
			ops = append(ops, []interface{}{"sc.kinds", p.Prepare, seq})
		}
	}
	if len(ops) == 0 {
		return
	}
	outs, err := AskLean(ops)
	if err != nil {
		r.Violate(Violation{Kind: "correspondence", Suite: "kinds", Note: err.Error()})
		return
	}
	diff := 0
	for i, raw := range outs {
		var m c14kModelAns
		r.CorrCompared++
		if json.Unmarshal(raw, &m) != nil || m.Handles == nil {
			r.Violate(Violation{Kind: "correspondence", Suite: "kinds", Input: progs[i], Expected: json.RawMessage(raw), Note: "bad model answer"})
			continue
		}
		hs, res, es := c14kModelView(m)
		o := obss[i]
		real := map[string]interface{}{"handles": o.Handles, "results": o.Results, "entries": o.Entries}
		model := map[string]interface{}{"handles": hs, "results": res, "entries": es}
		if canon(real) != canon(model) {
			diff++
			if diff <= 5 {
				r.Violate(Violation{Kind: "correspondence", Suite: "kinds", Input: progs[i], Observed: real, Expected: model,
					Note: "pool kinds of the derived handles / result classes / what the cached statements are bound to differ from the Lean pool-kind world"})
			}
		}
	}
}

// ---- F14e probe: a prepared session derived from a PINNED handle leaves the pinned connection ----
//
// Witness of the Lean theorem C14_pinned_session_counterexample on the real code.  Connection-scoped state (a TEMP table)
// is created through the pinned handle; the same SELECT through tx.Session(&Session{PrepareStmt: p}) must see it for p =
// false (control, demanded) and for p = true (the property: same rows as non-prepared mode).
func c14kPinnedProbe(r *Result) {
	type out struct {
		N   int
		Err string
	}
	run := func(prepRoot, prepSess bool) (o out, pool string) {
		d, err := c14kOpen(c14kSQLDB, false, &gorm.Config{PrepareStmt: prepRoot})
		if err != nil {
			return out{Err: "open: " + err.Error()}, ""
		}
		defer d.sqlDB.Close()
		cerr := d.db.Connection(func(tx *gorm.DB) error {
			if e := tx.Exec("create temp table c14k_pin(x int)").Error; e != nil {
				return e
			}
			if e := tx.Exec("insert into c14k_pin values (7)").Error; e != nil {
				return e
			}
			h := tx.Session(&gorm.Session{PrepareStmt: prepSess})
			pool = fmt.Sprintf("%T", h.Statement.ConnPool)
			if e := h.Raw("select x from c14k_pin").Scan(&o.N).Error; e != nil {
				o.Err = e.Error()
			}
			return nil
		})
		if cerr != nil {
			o.Err = "Connection: " + cerr.Error()
		}
		return
	}
	r.Case("kinds", "pinned-session-probe", true)
	for _, prepRoot := range []bool{false, true} {
		if c, _ := run(prepRoot, false); c.N != 7 || c.Err != "" {
			r.Violate(Violation{Kind: "e2e", Suite: "kinds", Input: "pinned-session-probe", Observed: c, Expected: "control: a non-prepared session of a pinned handle sees the connection's TEMP table (7)"})
			return
		}
		o, pool := run(prepRoot, true)
		if o.N == 7 && o.Err == "" {
			r.H("c14.kinds.pinned-probe", "prepared session stays on the pinned connection")
			continue
		}
		r.H("c14.kinds.pinned-probe", "prepared session leaves the pinned connection")
		what := fmt.Sprintf("gorm API: db.Connection(func(tx){ tx.Exec(create temp table; insert 7); tx.Session(&Session{PrepareStmt: true}).Raw(select).Scan(&n) }) on Config.PrepareStmt=%v: n=%d err=%q (statement pool %s); Session{PrepareStmt: false} returns 7", prepRoot, o.N, o.Err, pool)
		if listed("F14e-C14-session-leaves-pinned-conn") {
			r.KnownFinding("F14e-C14-session-leaves-pinned-conn", what)
		} else {
			r.Violate(Violation{Kind: "e2e", Suite: "kinds", Input: "pinned-session-probe", Observed: what, Expected: "the rows of non-prepared mode (7)"})
		}
		return
	}
}

func init() {
	replayers["C14/kinds"] = func(r *Result, input json.RawMessage) {
		var name string
		if json.Unmarshal(input, &name) == nil && name == "pinned-session-probe" {
			c14kPinnedProbe(r)
			return
		}
		var p c14kProg
		if json.Unmarshal(input, &p) != nil {
			return
		}
		o := c14kRunProg(p)
		c14kReport(r, p, o)
	}
	register("C14", func(r *Result, rng *rand.Rand, tier string) {
		n := 260
		if tier == "thorough" {
			n = 3000
		} else if tier == "search" {
			n = 1500
		}
		c14kSuite(r, rng, n)
		c14kPinnedProbe(r)
	})
}
