package main

import (
	"context"
	"database/sql"
	"encoding/json"
	"fmt"
	"math/rand"
	"reflect"
	"regexp"
	"sort"
	"strings"
	"sync"

	"gorm.io/gorm"
	"gorm.io/gorm/schema"
)

// C11 correspondence suites beyond ToStringKey:
//   identity-map : schema.GetIdentityFieldValuesMap  vs  Lean identitySlice / identityStruct
//   join-on      : the ON clause callbacks.BuildQuerySQL renders for association joins  vs  Lean joinOnAtoms

type c11IDKey struct {
	Idx int
	S1  string
	S2  string
	B   []byte
	U   uint
	I   int
	I64 int64
	U32 uint32
	Bo  bool
	PS  *string
	PI  *int
	PU  *uint
	NS  sql.NullString
	NI  sql.NullInt64
	NC  c11Code
}

var c11IDFields = []string{"S1", "S2", "B", "U", "I", "I64", "U32", "Bo", "PS", "PI", "PU", "NS", "NI", "NC"}

var c11IDStrs = []string{"", "", "a", "A", "ab", "AB", "a_b", "nil", "0", "é", "a ", " a", "01"}

// c11KV describes one key component independently of gorm: the KeyVal the model should see and the zero flag
// that reflect's IsZero gives for a struct field holding v
func c11KV(v interface{}) (interface{}, bool) {
	switch x := v.(type) {
	case string:
		return map[string]interface{}{"s": x}, x == ""
	case []byte:
		return map[string]interface{}{"b": string(x)}, x == nil
	case uint:
		return map[string]interface{}{"u": x}, x == 0
	case int:
		return map[string]interface{}{"i": x}, x == 0
	case int64:
		return map[string]interface{}{"i": x}, x == 0
	case uint32:
		return map[string]interface{}{"i": x}, x == 0
	case bool:
		if x {
			return map[string]interface{}{"s": "true"}, false
		}
		return nil, true
	case *string:
		if x == nil {
			return nil, true
		}
		return map[string]interface{}{"s": *x}, false
	case *int:
		if x == nil {
			return nil, true
		}
		if *x == 0 {
			return map[string]interface{}{"s": "0"}, false // non-nil pointer to zero prints the pointee
		}
		return map[string]interface{}{"i": *x}, false
	case *uint:
		if x == nil {
			return nil, true
		}
		return map[string]interface{}{"u": *x}, false
	case sql.NullString:
		if !x.Valid {
			return nil, x.String == ""
		}
		return map[string]interface{}{"s": x.String}, false
	case sql.NullInt64:
		if !x.Valid {
			return nil, x.Int64 == 0
		}
		return map[string]interface{}{"i": x.Int64}, false
	case c11Code:
		if x == "" {
			return nil, true
		}
		return map[string]interface{}{"s": string(x)}, false
	}
	panic(fmt.Sprintf("c11KV %T", v))
}

func c11KVTag(js interface{}) string {
	m, ok := js.(map[string]interface{})
	if !ok || js == nil {
		return "nil"
	}
	for _, k := range []string{"s", "b", "u", "i"} {
		if v, ok := m[k]; ok {
			return fmt.Sprintf("%s:%v", k, v)
		}
	}
	return "?"
}

func genC11IDKey(rng *rand.Rand, idx int) *c11IDKey {
	k := &c11IDKey{Idx: idx}
	str := func() string { return c11IDStrs[rng.Intn(len(c11IDStrs))] }
	k.S1, k.S2 = str(), str()
	if rng.Intn(3) > 0 {
		k.B = []byte(str())
	}
	k.U = uint(rng.Intn(3))
	k.I = rng.Intn(4) - 1
	k.I64 = int64(rng.Intn(3))
	k.U32 = uint32(rng.Intn(3))
	k.Bo = rng.Intn(2) == 0
	if rng.Intn(2) == 0 {
		s := str()
		k.PS = &s
	}
	if rng.Intn(2) == 0 {
		n := rng.Intn(3)
		k.PI = &n
	}
	if rng.Intn(2) == 0 {
		n := uint(rng.Intn(3))
		k.PU = &n
	}
	if rng.Intn(2) == 0 {
		s := str()
		if s == "" {
			s = "v"
		}
		k.NS = sql.NullString{String: s, Valid: true}
	}
	if rng.Intn(2) == 0 {
		k.NI = sql.NullInt64{Int64: int64(rng.Intn(3)), Valid: true}
	}
	k.NC = c11Code(str())
	return k
}

type c11IDCase struct {
	Mode   string        `json:"mode"`
	Fields []string      `json:"fields"`
	Rows   []interface{} `json:"rows"` // [addr, [[kv, zero]…]]
}

func c11IdentitySuite(r *Result, rng *rand.Rand, tier string) {
	n := 8000
	if tier == "thorough" {
		n = 150000
	}
	sch, err := schema.Parse(&c11IDKey{}, &sync.Map{}, schema.NamingStrategy{})
	if err != nil {
		r.Violate(Violation{Kind: "correspondence", Suite: "identity-map", Note: "schema.Parse: " + err.Error()})
		return
	}
	ctx := context.Background()
	var ops [][]interface{}
	var reals []string
	var cases []c11IDCase
	for i := 0; i < n; i++ {
		nf := rng.Intn(4) // 0..3 key fields
		perm := rng.Perm(len(c11IDFields))
		var names []string
		var fields []*schema.Field
		for _, p := range perm[:nf] {
			names = append(names, c11IDFields[p])
			fields = append(fields, sch.FieldsByName[c11IDFields[p]])
		}
		// a small pool of elements; a row of the slice is a pool element (pointer modes repeat addresses)
		pool := []*c11IDKey{}
		for j, k := 0, 1+rng.Intn(4); j < k; j++ {
			e := genC11IDKey(rng, j)
			if j > 0 && rng.Intn(3) == 0 { // same key values at another address
				c := *pool[rng.Intn(len(pool))]
				c.Idx = j
				e = &c
			}
			if rng.Intn(4) == 0 { // push towards all-zero / partially-zero tuples
				z := c11IDKey{Idx: j}
				if rng.Intn(2) == 0 && nf > 0 {
					// keep exactly one of the chosen fields
					keep := names[rng.Intn(nf)]
					reflect.ValueOf(&z).Elem().FieldByName(keep).Set(reflect.ValueOf(e).Elem().FieldByName(keep))
				}
				e = &z
			}
			pool = append(pool, e)
		}
		mode := []string{"structs", "ptrs", "ptrs", "ptrslice", "array", "struct", "ptrstruct"}[rng.Intn(7)]
		var rv reflect.Value
		var rowsOf []*c11IDKey
		addrOf := map[*c11IDKey]int{}
		switch mode {
		case "structs": // []T: every element has its own address
			sl := make([]c11IDKey, len(pool))
			for j, e := range pool {
				sl[j] = *e
				sl[j].Idx = j
			}
			for j := range sl {
				rowsOf = append(rowsOf, &sl[j])
			}
			rv = reflect.ValueOf(sl)
		case "ptrs", "ptrslice", "array": // []*T / *[]*T / [k]*T with repeated pointers
			k := len(pool) + rng.Intn(3)
			var sl []*c11IDKey
			for j := 0; j < k; j++ {
				sl = append(sl, pool[rng.Intn(len(pool))])
			}
			rowsOf = sl
			switch mode {
			case "ptrs":
				rv = reflect.ValueOf(sl)
			case "ptrslice":
				rv = reflect.ValueOf(&sl)
			default:
				arr := reflect.New(reflect.ArrayOf(len(sl), reflect.TypeOf(&c11IDKey{}))).Elem()
				for j, e := range sl {
					arr.Index(j).Set(reflect.ValueOf(e))
				}
				rv = arr
			}
		case "struct":
			rowsOf = pool[:1]
			rv = reflect.ValueOf(*pool[0])
		default:
			rowsOf = pool[:1]
			rv = reflect.ValueOf(pool[0])
		}
		var rows []interface{}
		for _, e := range rowsOf {
			if _, ok := addrOf[e]; !ok {
				addrOf[e] = e.Idx
			}
			var comps []interface{}
			for _, nm := range names {
				kv, z := c11KV(reflect.ValueOf(e).Elem().FieldByName(nm).Interface())
				comps = append(comps, []interface{}{kv, z})
			}
			if comps == nil {
				comps = []interface{}{}
			}
			rows = append(rows, []interface{}{e.Idx, comps})
		}
		m, vals := schema.GetIdentityFieldValuesMap(ctx, rv, fields)
		groups := map[string][]int{}
		for k, vs := range m {
			for _, v := range vs {
				groups[k] = append(groups[k], int(reflect.Indirect(v).FieldByName("Idx").Int()))
			}
		}
		valTags := [][]string{}
		for _, tup := range vals {
			tags := []string{}
			for _, v := range tup {
				kv, _ := c11KV(v)
				tags = append(tags, c11KVTag(kv))
			}
			valTags = append(valTags, tags)
		}
		reals = append(reals, canon(map[string]interface{}{"groups": groups, "values": valTags}))
		cs := c11IDCase{Mode: mode, Fields: names, Rows: rows}
		cases = append(cases, cs)
		if mode == "struct" || mode == "ptrstruct" {
			ops = append(ops, []interface{}{"id.struct", rows[0]})
		} else {
			ops = append(ops, []interface{}{"id.slice", rows})
		}
		r.H("identity.mode", mode)
		r.H("identity.fields", fmt.Sprint(nf))
	}
	outs, err := AskLean(ops)
	if err != nil {
		r.Violate(Violation{Kind: "correspondence", Suite: "identity-map", Note: err.Error()})
		return
	}
	for i := range ops {
		var mo struct {
			Groups [][]json.RawMessage `json:"groups"`
			Values [][]string          `json:"values"`
		}
		_ = json.Unmarshal(outs[i], &mo)
		groups := map[string][]int{}
		for _, g := range mo.Groups {
			var k string
			var as []int
			_ = json.Unmarshal(g[0], &k)
			_ = json.Unmarshal(g[1], &as)
			groups[k] = as
		}
		if mo.Values == nil {
			mo.Values = [][]string{}
		}
		model := canon(map[string]interface{}{"groups": groups, "values": mo.Values})
		r.CorrCompared++
		r.Case("identity-map", canon(cases[i]), len(cases[i].Fields) >= 2 && len(cases[i].Rows) >= 2)
		// which model branches fired
		allz, partz := false, false
		for _, row := range cases[i].Rows {
			comps := row.([]interface{})[1].([]interface{})
			nz := 0
			for _, c := range comps {
				if c.([]interface{})[1].(bool) {
					nz++
				}
			}
			if nz == len(comps) {
				allz = true
			} else if nz > 0 {
				partz = true
			}
		}
		r.H("identity.branch", fmt.Sprintf("allzero=%v partzero=%v groups=%d", allz, partz, len(groups)))
		if model != reals[i] {
			r.Violate(Violation{Kind: "correspondence", Suite: "identity-map", Input: cases[i], Observed: json.RawMessage(reals[i]), Expected: json.RawMessage(model),
				Note: "real schema.GetIdentityFieldValuesMap vs Lean Gorm.identitySlice/identityStruct (an all-zero tuple is skipped, a partially-zero tuple is kept; elements deduplicated by address; one value tuple per distinct key string)"})
		}
	}
}

// ---- join ON clause -------------------------------------------------------------------------------------------

var c11JoinRe = regexp.MustCompile("(LEFT|INNER) JOIN `([^`]+)` `([^`]+)` ON ")

// split a rendered SELECT into alias -> ON pieces
func c11JoinPieces(sqlText string) map[string][]string {
	out := map[string][]string{}
	locs := c11JoinRe.FindAllStringSubmatchIndex(sqlText, -1)
	for i, l := range locs {
		alias := sqlText[l[6]:l[7]]
		end := len(sqlText)
		if i+1 < len(locs) {
			end = locs[i+1][0]
		} else {
			for _, stop := range []string{" WHERE ", " ORDER BY ", " LIMIT "} {
				if p := strings.Index(sqlText[l[1]:], stop); p >= 0 && l[1]+p < end {
					end = l[1] + p
				}
			}
		}
		on := strings.TrimSpace(sqlText[l[1]:end])
		var pieces []string
		if p := strings.Index(on, " AND ("); p >= 0 && strings.HasSuffix(on, ")") {
			pieces = append(strings.Split(on[:p], " AND "), strings.Split(on[p+6:len(on)-1], " AND ")...)
		} else {
			pieces = strings.Split(on, " AND ")
		}
		out[sqlText[l[2]:l[3]]+" "+alias] = pieces
	}
	return out
}

type c11JoinCase struct {
	Family string     `json:"family"`
	Parent string     `json:"parent"`
	Nodes  []*c11Node `json:"nodes"`
}

func c11JoinOnSuite(r *Result, rng *rand.Rand, tier string) {
	n := 1500
	if tier == "thorough" {
		n = 20000
	}
	db, _, sqlDB := OpenRec(nil)
	defer sqlDB.Close()
	type pending struct {
		cs     c11JoinCase
		alias  string
		typ    string
		parent string
		cond   c11Cond
		got    []string
	}
	var ops [][]interface{}
	var pend []pending
	fams := []string{"S", "C", "U", "R", "E", "D"}
	for i := 0; i < n; i++ {
		f := c11Families[fams[i%len(fams)]]
		pts := f.parentTables()
		t := pts[rng.Intn(len(pts))]
		nodes := f.genNodes(rng, t, 0, true, 6, true)
		if !c11HasJoin(nodes) {
			continue
		}
		cs := c11JoinCase{Family: f.Name, Parent: t.Name, Nodes: nodes}
		dry := db.Session(&gorm.Session{DryRun: true})
		q := f.applyNodes(db, dry, t, nil, nodes)
		dest := reflect.New(reflect.SliceOf(t.typ()))
		st := q.Find(dest.Interface()).Statement
		if q.Error != nil && st.SQL.Len() == 0 {
			r.Violate(Violation{Kind: "correspondence", Suite: "join-on", Input: cs, Note: "dry run failed"})
			continue
		}
		pieces := c11JoinPieces(st.SQL.String())
		ps, err := schema.Parse(t.Model, &sync.Map{}, db.NamingStrategy)
		if err != nil {
			panic(err)
		}
		var walk func(s *schema.Schema, parentAlias string, prefix []string, nodes []*c11Node)
		walk = func(s *schema.Schema, parentAlias string, prefix []string, nodes []*c11Node) {
			for _, nd := range nodes {
				if !nd.Join {
					continue
				}
				rel := s.Relationships.Relations[nd.Rel]
				path := append(append([]string{}, prefix...), nd.Rel)
				alias := c11Alias(path)
				refs := []interface{}{}
				for _, ref := range rel.References {
					pk := ""
					if ref.PrimaryKey != nil {
						pk = ref.PrimaryKey.DBName
					}
					refs = append(refs, []interface{}{ref.OwnPrimaryKey, pk, ref.ForeignKey.DBName, ref.PrimaryValue})
				}
				user := 0
				if nd.Cond.Kind != "" {
					user = 1
				}
				ops = append(ops, []interface{}{"join.on", refs, len(rel.FieldSchema.QueryClauses), user})
				typ := "LEFT"
				if nd.Inner {
					typ = "INNER"
				}
				pend = append(pend, pending{cs: cs, alias: alias, typ: typ, parent: parentAlias, cond: nd.Cond, got: pieces[typ+" "+alias]})
				walk(rel.FieldSchema, alias, path, nd.Kids)
			}
		}
		walk(ps, t.Name, nil, nodes)
	}
	outs, err := AskLean(ops)
	if err != nil {
		r.Violate(Violation{Kind: "correspondence", Suite: "join-on", Note: err.Error()})
		return
	}
	for i, p := range pend {
		var atoms []string
		_ = json.Unmarshal(outs[i], &atoms)
		var want []string
		for _, a := range atoms {
			switch {
			case strings.HasPrefix(a, "P."):
				eq := strings.SplitN(a[2:], "=A.", 2)
				want = append(want, fmt.Sprintf("`%s`.`%s` = `%s`.`%s`", p.parent, eq[0], p.alias, eq[1]))
			case strings.HasPrefix(a, "A."):
				want = append(want, fmt.Sprintf("`%s`.`%s` = ?", p.alias, strings.SplitN(a[2:], "=", 2)[0]))
			case strings.HasPrefix(a, "scope"):
				want = append(want, fmt.Sprintf("`%s`.`deleted_at` IS NULL", p.alias))
			case strings.HasPrefix(a, "user"):
				s, args := p.cond.sql("`" + p.alias + "`.`n`")
				if p.cond.Kind == "in" {
					k := len(args[0].([]int))
					if k == 1 && p.cond.Style != "alias" {
						s = strings.Replace(s, "IN ?", "= ?", 1) // clause.IN with one value is rendered as an equality
					} else {
						s = strings.Replace(s, "IN ?", "IN ("+strings.TrimSuffix(strings.Repeat("?,", k), ",")+")", 1)
					}
				}
				want = append(want, s)
			}
		}
		r.CorrCompared++
		c := "nocond"
		if p.cond.Kind != "" {
			c = "cond:" + p.cond.Style
		}
		r.H("joinon", fmt.Sprintf("%s/%s/atoms%d", p.typ, c, len(atoms)))
		r.Case("join-on", canon([]interface{}{p.cs, p.alias}), len(atoms) >= 2)
		g, w := append([]string{}, p.got...), append([]string{}, want...)
		sort.Strings(g)
		sort.Strings(w)
		if strings.Join(g, " AND ") != strings.Join(w, " AND ") {
			r.Violate(Violation{Kind: "correspondence", Suite: "join-on", Input: p.cs, Observed: p.got, Expected: want,
				Note: "ON clause of join alias " + p.alias + ": real callbacks.BuildQuerySQL vs Lean Gorm.joinOnAtoms (reference equalities, then the joined model's query clauses, then the caller's ON condition)"})
		}
	}
}

func init() {
	register("C11", c11IdentitySuite)
	register("C11", c11JoinOnSuite)
	replayers["C11/identity-map"] = func(r *Result, input json.RawMessage) { r.Note("identity-map replays are correspondence-only: rerun the suite") }
	replayers["C11/join-on"] = func(r *Result, input json.RawMessage) { r.Note("join-on replays are correspondence-only: rerun the suite") }
	replayers["C11/tostringkey"] = func(r *Result, input json.RawMessage) { r.Note("tostringkey replays are correspondence-only: rerun the suite") }
}
