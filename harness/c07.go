package main

// C07 — "One shared handle can be used from many goroutines at once, including first use".
//
// Suites:
//   sched  (correspondence) forced schedules of the schema-cache protocol: goroutines are parked inside the
//          TableName() methods of the Sc* model types (c07_types.go); the Lean model (Model.SchemaCache) predicts,
//          for the same schedule, where every goroutine stops after each release and what every Parse call returns
//          (same *schema.Schema pointer, error, relations complete at return, back references, final cache content).
//   race   (e2e) a second harness binary built with -race runs generated multi-goroutine programs through ONE
//          shared *gorm.DB (c07_race.go); race reports are normalised to pairs of gorm function names; per-goroutine
//          results and final rows are compared with a serial run of the same programs.

import (
	"encoding/json"
	"fmt"
	"math/rand"
	"os"
	"reflect"
	"sort"
	"strings"
	"sync"
	"time"

	"gorm.io/gorm/logger"
	"gorm.io/gorm/schema"
)

func init() {
	register("C07", c07Sched)
	register("C07", c07RaceParent)
	register("C07race", c07RaceChild)
	replayers["C07/sched"] = func(r *Result, input json.RawMessage) {
		var c scCase
		if json.Unmarshal(input, &c) != nil {
			return
		}
		c07SchedBatch(r, []scCase{c}, true)
	}
	replayers["C07/race"] = c07RaceReplay
}

type scCase struct {
	Progs [][]int `json:"progs"`
	Sched []int   `json:"sched"`
}

type scLean struct {
	Trace    []json.RawMessage `json:"trace"`
	Det      bool              `json:"det"`
	Done     bool              `json:"done"`
	Rets     json.RawMessage   `json:"rets"`
	Objs     [][]interface{}   `json:"objs"`
	Cache    []int             `json:"cache"`
	Branches []string          `json:"branches"`
	Nobj     int               `json:"nobj"`
}

type scStep struct {
	T  int
	St []string
}

func (l *scLean) steps() []scStep {
	var out []scStep
	for _, raw := range l.Trace {
		var pair []json.RawMessage
		if json.Unmarshal(raw, &pair) != nil || len(pair) != 2 {
			continue
		}
		var s scStep
		_ = json.Unmarshal(pair[0], &s.T)
		_ = json.Unmarshal(pair[1], &s.St)
		out = append(out, s)
	}
	return out
}

var scClusters = [][]int{
	{0, 1, 10}, {2, 3, 4}, {5}, {6, 7, 9}, {0, 1, 9, 10, 6, 7}, {11, 12, 0, 2, 5}, {7, 8}, {0, 1, 2, 3, 4, 5, 6, 7, 8, 9, 10, 11, 12},
	{11, 12}, {9, 6}, {0, 9, 11},
}

func genScCase(rng *rand.Rand) scCase {
	g := 2 + rng.Intn(3)
	cl := scClusters[rng.Intn(len(scClusters))]
	c := scCase{}
	for t := 0; t < g; t++ {
		n := 1 + rng.Intn(3)
		p := []int{}
		for i := 0; i < n; i++ {
			p = append(p, cl[rng.Intn(len(cl))])
		}
		c.Progs = append(c.Progs, p)
	}
	for i, n := 0, 4+rng.Intn(30); i < n; i++ {
		c.Sched = append(c.Sched, rng.Intn(g))
	}
	return c
}

func os07Only() string { return os.Getenv("C07_ONLY") }

func c07Sched(r *Result, rng *rand.Rand, tier string) {
	if o := os.Getenv("C07_ONLY"); o != "" && o != "sched" { // development aid
		return
	}
	n := 1500
	if tier == "thorough" {
		n = 12000
	} else if tier == "search" {
		n = 4000
	}
	logger.Default = logger.Discard // schema.Parse logs relation errors through the package-level default logger
	// static description self-check against a serial parse on the real code
	c07CheckStaticCfg(r)
	var cases []scCase
	// fixed corpus: the model-level counterexample schedules and cyclic contention
	cases = append(cases,
		scCase{Progs: [][]int{{0}, {1}}, Sched: []int{0, 1, 0, 1, 1}},
		scCase{Progs: [][]int{{0}, {0}, {0}}, Sched: []int{0, 1, 2, 2, 1, 0}},
		scCase{Progs: [][]int{{6, 6}, {6}}, Sched: []int{0, 1, 0, 1, 0, 1}},
		scCase{Progs: [][]int{{9}, {6}}, Sched: []int{1, 0, 1, 0, 0, 0, 1}},
		scCase{Progs: [][]int{{2}, {3}, {4}}, Sched: []int{0, 1, 2, 0, 1, 2, 0, 1, 2}},
	)
	for i := 0; i < n; i++ {
		cases = append(cases, genScCase(rng))
	}
	for i := 0; i < len(cases); i += 500 {
		if expired() {
			break
		}
		j := i + 500
		if j > len(cases) {
			j = len(cases)
		}
		c07SchedBatch(r, cases[i:j], false)
	}
}

// c07CheckStaticCfg parses every Sc* type serially with a fresh cache and compares relation fields / back references /
// errors with the hand-written relation graph scCfg that is sent to the model.
func c07CheckStaticCfg(r *Result) {
	for ty := range scTypes {
		cache := &sync.Map{}
		s, err := schema.Parse(scTypes[ty](), cache, schema.NamingStrategy{})
		wantErr := false
		for _, rel := range scCfg[ty] {
			if rel.Bad {
				wantErr = true
			}
		}
		// nested error: ScM -> ScBad
		if ty == 9 {
			wantErr = true
		}
		if (err != nil) != wantErr {
			r.Violate(Violation{Kind: "correspondence", Suite: "sched-static", Input: scTypeNames[ty],
				Observed: fmt.Sprint(err), Expected: fmt.Sprintf("error=%v", wantErr), Note: "static relation graph description differs from gorm's serial parse"})
			continue
		}
		if err != nil {
			continue
		}
		for _, rel := range scCfg[ty] {
			rr, ok := s.Relationships.Relations[rel.Field]
			if !ok || rr.FieldSchema.ModelType.Name() != scTypeNames[rel.Target] {
				r.Violate(Violation{Kind: "correspondence", Suite: "sched-static", Input: scTypeNames[ty] + "." + rel.Field,
					Observed: fmt.Sprint(ok), Expected: scTypeNames[rel.Target], Note: "relation target differs"})
				continue
			}
			isHas := (rr.Type == schema.HasOne || rr.Type == schema.HasMany) && rr.Polymorphic == nil
			if isHas != rel.Has {
				r.Violate(Violation{Kind: "correspondence", Suite: "sched-static", Input: scTypeNames[ty] + "." + rel.Field,
					Observed: string(rr.Type), Expected: fmt.Sprintf("has=%v", rel.Has), Note: "relation kind differs"})
			}
		}
		n := 0
		for k := range s.Relationships.Relations {
			if !strings.HasPrefix(k, "_") {
				n++
			}
		}
		if n != len(scCfg[ty]) {
			r.Violate(Violation{Kind: "correspondence", Suite: "sched-static", Input: scTypeNames[ty],
				Observed: n, Expected: len(scCfg[ty]), Note: "number of relation fields differs"})
		}
	}
}

func c07SchedBatch(r *Result, cases []scCase, replay bool) {
	ops := make([][]interface{}, len(cases))
	cfg := scCfgJSON()
	for i, c := range cases {
		ops[i] = []interface{}{"sc.sched", cfg, c.Progs, c.Sched}
	}
	outs, err := AskLean(ops)
	if err != nil {
		r.Violate(Violation{Kind: "correspondence", Suite: "sched", Input: "batch", Observed: err.Error(), Expected: "lean driver answers"})
		return
	}
	mismatches := 0
	for i, c := range cases {
		if mismatches >= 5 || expired() {
			// every mismatch costs a goroutine-state timeout; five replays are enough to report
			break
		}
		var l scLean
		if err := json.Unmarshal(outs[i], &l); err != nil {
			r.Violate(Violation{Kind: "correspondence", Suite: "sched", Input: c, Observed: string(outs[i]), Expected: "model output"})
			continue
		}
		r.H("sched.threads", fmt.Sprint(len(c.Progs)))
		r.H("sched.model-objects", fmt.Sprint(l.Nobj))
		if !l.Done {
			// the model proves deadlock freedom; a schedule after which the drained model is not finished is a model bug
			r.Violate(Violation{Kind: "correspondence", Suite: "sched", Input: c, Observed: "model not finished after drain", Expected: "all threads done"})
			continue
		}
		if !l.Det {
			r.H("sched.kind", "skipped:interleaving-not-determined-by-schedule")
			r.Case("sched-skipped", canon(c), false)
			continue
		}
		steps := l.steps()
		r.H("sched.releases", bucket(len(steps)))
		for _, b := range l.Branches {
			r.H("sched.model-branch", b)
		}
		blocked, parkedNested := 0, 0
		for _, s := range steps {
			for t, st := range s.St {
				if strings.HasPrefix(st, "B") {
					blocked++
				}
				if strings.HasPrefix(st, "P") && t != s.T {
					parkedNested++
				}
			}
		}
		contended := c07Contended(c)
		r.H("sched.kind", fmt.Sprintf("contended=%v blockedStates=%v", contended, blocked > 0))
		obs, status := scRunReal(c, steps)
		if status == "inconclusive" {
			r.H("sched.kind", "inconclusive:"+fmt.Sprint(obs["why"]))
			continue
		}
		// expected observables from the model (drop the `closed` flags: not observable from outside)
		var lrets [][][]interface{}
		_ = json.Unmarshal(l.Rets, &lrets)
		for _, tr := range lrets {
			for k := range tr {
				tr[k] = tr[k][:4]
			}
		}
		lobjs := [][]interface{}{}
		for _, o := range l.Objs {
			lobjs = append(lobjs, o[:4])
		}
		exp := map[string]interface{}{"status": "ok", "rets": lrets, "objs": lobjs, "cache": l.Cache}
		obs["status"] = status
		r.CorrCompared++
		r.Case("sched", canon(c), contended)
		if canon(obs) != canon(exp) {
			mismatches++
			r.Violate(Violation{Kind: "correspondence", Suite: "sched", Input: c, Observed: obs, Expected: exp,
				Note: "schema-cache protocol: real code and Model.SchemaCache differ under a forced schedule"})
			// independent judgement of the property on this input (e2e): pointer uniqueness and completeness
			c07JudgeSched(r, c, obs)
		} else if replay {
			r.Note("replay sched: real code equals model")
		}
		if len(r.Samples) < 3 {
			r.Sample(map[string]interface{}{"case": c, "model": exp})
		}
	}
}

func bucket(n int) string {
	switch {
	case n <= 2:
		return "0-2"
	case n <= 5:
		return "3-5"
	case n <= 10:
		return "6-10"
	case n <= 20:
		return "11-20"
	default:
		return ">20"
	}
}

// contended: at least two threads request the same type or directly related types
func c07Contended(c scCase) bool {
	for a := 0; a < len(c.Progs); a++ {
		for b := a + 1; b < len(c.Progs); b++ {
			for _, x := range c.Progs[a] {
				for _, y := range c.Progs[b] {
					if x == y {
						return true
					}
					for _, rel := range scCfg[x] {
						if rel.Target == y {
							return true
						}
					}
					for _, rel := range scCfg[y] {
						if rel.Target == x {
							return true
						}
					}
				}
			}
		}
	}
	return false
}

// c07JudgeSched: property-level judgement on the observed results of a forced schedule, independent of the model:
// all error-free returns for one type must be the same object and have all relation fields set.
func c07JudgeSched(r *Result, c scCase, obs map[string]interface{}) {
	rets, _ := obs["rets"].([][][]interface{})
	byTy := map[int]int{}
	for _, tr := range rets {
		for _, e := range tr {
			ty, o, er, nrel := e[0].(int), e[1].(int), e[2].(bool), e[3].(int)
			if er {
				continue
			}
			if p, ok := byTy[ty]; ok && p != o {
				r.Violate(Violation{Kind: "e2e", Suite: "sched", Input: c, Observed: obs, Expected: "one schema object per model type",
					Note: "two goroutines received different *schema.Schema for the same model type"})
				return
			}
			byTy[ty] = o
			if nrel != len(scCfg[ty]) {
				r.Violate(Violation{Kind: "e2e", Suite: "sched", Input: c, Observed: obs, Expected: "all relation fields set at return",
					Note: "schema.Parse returned a schema whose relations are incomplete"})
				return
			}
		}
	}
}

type scRet struct {
	ty   int
	ptr  *schema.Schema
	err  bool
	nrel int
}

func scOwnRelCount(s *schema.Schema) int {
	s.Relationships.Mux.RLock()
	defer s.Relationships.Mux.RUnlock()
	n := 0
	for k := range s.Relationships.Relations {
		if !strings.HasPrefix(k, "_") {
			n++
		}
	}
	return n
}

// scRunReal executes the forced schedule on the real schema package with a fresh (cold) cacheStore.
func scRunReal(c scCase, steps []scStep) (map[string]interface{}, string) {
	g := len(c.Progs)
	cache := &sync.Map{}
	namer := schema.NamingStrategy{}
	ctl := &scController{gids: map[int64]int{}, events: make(chan scEvent, 1024)}
	for t := 0; t < g; t++ {
		ctl.release = append(ctl.release, make(chan struct{}))
	}
	scCtl.Store(ctl)
	defer scCtl.Store(nil)
	results := make([][]scRet, g)
	gids := make([]int64, g)
	var wg sync.WaitGroup
	ready := make(chan struct{}, g)
	for t := 0; t < g; t++ {
		wg.Add(1)
		go func(t int) {
			defer wg.Done()
			gid := curGID()
			ctl.mu.Lock()
			ctl.gids[gid] = t
			gids[t] = gid
			ctl.mu.Unlock()
			ready <- struct{}{}
			for _, ty := range c.Progs[t] {
				ctl.park(t, "S", ty)
				s, err := schema.Parse(scTypes[ty](), cache, namer)
				rt := scRet{ty: ty, ptr: s, err: err != nil}
				if s != nil {
					rt.nrel = scOwnRelCount(s)
				}
				results[t] = append(results[t], rt)
			}
			if !ctl.free.Load() {
				ctl.events <- scEvent{t, "D", 0}
			}
		}(t)
	}
	for t := 0; t < g; t++ {
		<-ready
	}
	status := make([]string, g)
	for t := range status {
		status[t] = "R"
	}
	apply := func(e scEvent) {
		switch e.Kind {
		case "S":
			status[e.Tid] = "S"
		case "P":
			status[e.Tid] = fmt.Sprintf("P%d", e.Ty)
		case "D":
			status[e.Tid] = "D"
		}
	}
	abort := func(why string, detail interface{}) (map[string]interface{}, string) {
		ctl.free.Store(true)
		for _, ch := range ctl.release {
			close(ch)
		}
		done := make(chan struct{})
		go func() { wg.Wait(); close(done) }()
		select {
		case <-done:
		case <-time.After(5 * time.Second):
		}
		return map[string]interface{}{"why": why, "detail": detail}, "mismatch"
	}
	waitFor := func(expected []string) ([]string, bool) {
		deadline := time.Now().Add(2 * time.Second)
		obs := make([]string, g)
		for {
			// drain events
			for {
				select {
				case e := <-ctl.events:
					apply(e)
					continue
				default:
				}
				break
			}
			all := true
			for t := 0; t < g; t++ {
				obs[t] = status[t]
				if status[t] == "R" && strings.HasPrefix(expected[t], "B") {
					if goroutineState(gids[t]) == "chanrecv-parse" {
						obs[t] = "B"
					}
				}
				if strings.HasPrefix(expected[t], "B") {
					if obs[t] != "B" {
						all = false
					}
				} else if obs[t] != expected[t] {
					all = false
				}
			}
			if all {
				return obs, true
			}
			if time.Now().After(deadline) {
				return obs, false
			}
			select {
			case e := <-ctl.events:
				apply(e)
			case <-time.After(200 * time.Microsecond):
			}
		}
	}
	init := make([]string, g)
	for t := range init {
		if len(c.Progs[t]) == 0 {
			init[t] = "D"
		} else {
			init[t] = "S"
		}
	}
	if obs, ok := waitFor(init); !ok {
		return abort("initial park", obs)
	}
	for i, st := range steps {
		if st.T >= g || (status[st.T] != "S" && !strings.HasPrefix(status[st.T], "P")) {
			return abort(fmt.Sprintf("step %d: model releases thread %d which is not parked on the real side (%s)", i, st.T, status[st.T]), status)
		}
		status[st.T] = "R"
		ctl.release[st.T] <- struct{}{}
		if obs, ok := waitFor(st.St); !ok {
			return abort(fmt.Sprintf("step %d (release %d): goroutine states differ", i, st.T), map[string]interface{}{"observed": obs, "expected": st.St})
		}
	}
	done := make(chan struct{})
	go func() { wg.Wait(); close(done) }()
	select {
	case <-done:
	case <-time.After(5 * time.Second):
		return abort("goroutines did not finish", status)
	}
	// canonical object numbering: first appearance over (thread 0's returns, thread 1's, …, then cache by type)
	idx := map[*schema.Schema]int{}
	var order []*schema.Schema
	see := func(p *schema.Schema) int {
		if p == nil {
			return -1
		}
		if i, ok := idx[p]; ok {
			return i
		}
		idx[p] = len(order)
		order = append(order, p)
		return idx[p]
	}
	errOf := map[*schema.Schema]bool{}
	rets := make([][][]interface{}, g)
	for t := 0; t < g; t++ {
		rets[t] = [][]interface{}{}
		for _, rt := range results[t] {
			rets[t] = append(rets[t], []interface{}{rt.ty, see(rt.ptr), rt.err, rt.nrel})
			if rt.err {
				errOf[rt.ptr] = true
			}
		}
	}
	cacheOut := make([]int, len(scTypes))
	for ty := range scTypes {
		cacheOut[ty] = -1
		if v, ok := cache.Load(reflect.TypeOf(scTypes[ty]()).Elem()); ok {
			cacheOut[ty] = see(v.(*schema.Schema))
		}
	}
	backName := map[string][2]int{}
	for ty, rs := range scCfg {
		for k, rel := range rs {
			backName["_"+scTypeNames[ty]+"_"+rel.Field] = [2]int{ty, k}
		}
	}
	tyIdx := map[string]int{}
	for i, n := range scTypeNames {
		tyIdx[n] = i
	}
	objs := [][]interface{}{}
	for _, p := range order {
		p.Relationships.Mux.RLock()
		n := 0
		backs := [][2]int{}
		for k := range p.Relationships.Relations {
			if strings.HasPrefix(k, "_") {
				if b, ok := backName[k]; ok {
					backs = append(backs, b)
				} else {
					backs = append(backs, [2]int{-1, -1})
				}
			} else {
				n++
			}
		}
		p.Relationships.Mux.RUnlock()
		sort.Slice(backs, func(i, j int) bool {
			if backs[i][0] != backs[j][0] {
				return backs[i][0] < backs[j][0]
			}
			return backs[i][1] < backs[j][1]
		})
		objs = append(objs, []interface{}{tyIdx[p.ModelType.Name()], n, backs, errOf[p]})
	}
	return map[string]interface{}{"rets": rets, "objs": objs, "cache": cacheOut}, "ok"
}
