package main

// C07 — "One shared handle can be used from many goroutines at once, including first use".
//
// Suites:
//   sched  (correspondence) forced schedules of the schema-cache protocol: goroutines are parked inside the
//          TableName() methods of the Sc* model types (c07_types.go); the Lean model (Model.SchemaCache) predicts,
//          for the same schedule, where every goroutine stops after each release and what every Parse call returns
//          (same *schema.Schema pointer, error, relations complete at return, back references, final cache content).
//   race   (e2e) a second harness binary built with -race runs generated multi-goroutine programs through ONE
//          shared *gorm.DB (c07_race.go); race reports are normalised to pairs of gorm function names; per-goroutine
//          results and final rows are compared with a serial run of the same programs.

import (
	"encoding/json"
	"fmt"
	"math/rand"
	"os"
	"path/filepath"
	"reflect"
	"runtime"
	"sort"
	"strings"
	"sync"
	"sync/atomic"
	"time"

	"gorm.io/gorm/logger"
	"gorm.io/gorm/schema"
)

func init() {
	register("C07", c07Sched)
	register("C07", c07Stampede)
	register("C07", c07RaceParent)
	register("C07race", c07RaceChild)
	replayers["C07/sched"] = func(r *Result, input json.RawMessage) {
		var c c07ScCase
		if json.Unmarshal(input, &c) != nil {
			return
		}
		// main.go does not apply -driver in replay mode: use this tree's driver
		if p := filepath.Join(c07Root(), "lean", ".lake", "build", "bin", "driver"); c07FileExists(p) {
			driverPath = p
		}
		logger.Default = logger.Discard
		c07SchedBatch(r, []c07ScCase{c}, true)
	}
	replayers["C07/sched-static"] = func(r *Result, input json.RawMessage) { c07CheckStaticCfg(r) }
	replayers["C07/stampede"] = func(r *Result, input json.RawMessage) {
		var c c07StampedeCase
		if json.Unmarshal(input, &c) == nil && c.Type < len(c07ScTypes) {
			c.Reps *= 4
			c07StampedeRun(r, c)
		}
	}
	replayers["C07/race"] = c07RaceReplay
	replayers["C07/race-single-winner"] = c07RaceReplay
}

type c07ScCase struct {
	Progs [][]int `json:"progs"`
	Sched []int   `json:"sched"`
}

type c07ScLean struct {
	Trace    []json.RawMessage `json:"trace"`
	Det      bool              `json:"det"`
	Done     bool              `json:"done"`
	Rets     json.RawMessage   `json:"rets"`
	Objs     [][]interface{}   `json:"objs"`
	Cache    []int             `json:"cache"`
	Branches []string          `json:"branches"`
	Nobj     int               `json:"nobj"`
}

type c07ScStep struct {
	T  int
	St []string
}

func (l *c07ScLean) steps() []c07ScStep {
	var out []c07ScStep
	for _, raw := range l.Trace {
		var pair []json.RawMessage
		if json.Unmarshal(raw, &pair) != nil || len(pair) != 2 {
			continue
		}
		var s c07ScStep
		_ = json.Unmarshal(pair[0], &s.T)
		_ = json.Unmarshal(pair[1], &s.St)
		out = append(out, s)
	}
	return out
}

var c07ScClusters = [][]int{
	{0, 1, 10}, {2, 3, 4}, {5}, {6, 7, 9}, {0, 1, 9, 10, 6, 7}, {11, 12, 0, 2, 5}, {7, 8}, {0, 1, 2, 3, 4, 5, 6, 7, 8, 9, 10, 11, 12},
	{11, 12}, {9, 6}, {0, 9, 11}, {0, 1, 13}, {13, 1},
}

func c07GenScCase(rng *rand.Rand) c07ScCase {
	g := 2 + rng.Intn(3)
	cl := c07ScClusters[rng.Intn(len(c07ScClusters))]
	c := c07ScCase{}
	for t := 0; t < g; t++ {
		n := 1 + rng.Intn(3)
		p := []int{}
		for i := 0; i < n; i++ {
			p = append(p, cl[rng.Intn(len(cl))])
		}
		c.Progs = append(c.Progs, p)
	}
	for i, n := 0, 4+rng.Intn(30); i < n; i++ {
		c.Sched = append(c.Sched, rng.Intn(g))
	}
	return c
}

func c07FileExists(p string) bool { _, err := os.Stat(p); return err == nil }

func c07Only() string { return os.Getenv("C07_ONLY") }

func c07Sched(r *Result, rng *rand.Rand, tier string) {
	if o := os.Getenv("C07_ONLY"); o != "" && o != "sched" { // development aid
		return
	}
	// the forced-schedule runs are latency bound (goroutine wake-ups, runtime.Stack polling): bounded by wall time too
	n, wall := 800, 30*time.Second
	if tier == "thorough" {
		n, wall = 12000, 8*time.Minute
	} else if tier == "search" {
		n, wall = 2000, 40*time.Second
	}
	stopAt := time.Now().Add(wall)
	logger.Default = logger.Discard // schema.Parse logs relation errors through the package-level default logger
	// static description self-check against a serial parse on the real code
	c07CheckStaticCfg(r)
	var cases []c07ScCase
	// fixed corpus: the model-level counterexample schedules and cyclic contention
	cases = append(cases,
		c07ScCase{Progs: [][]int{{0}, {1}}, Sched: []int{0, 1, 0, 1, 1}},
		c07ScCase{Progs: [][]int{{0}, {0}, {0}}, Sched: []int{0, 1, 2, 2, 1, 0}},
		c07ScCase{Progs: [][]int{{6, 6}, {6}}, Sched: []int{0, 1, 0, 1, 0, 1}},
		c07ScCase{Progs: [][]int{{9}, {6}}, Sched: []int{1, 0, 1, 0, 0, 0, 1}},
		c07ScCase{Progs: [][]int{{2}, {3}, {4}}, Sched: []int{0, 1, 2, 0, 1, 2, 0, 1, 2}},
	)
	for i := 0; i < n; i++ {
		cases = append(cases, c07GenScCase(rng))
	}
	for i := 0; i < len(cases); i += 100 {
		if expired() {
			break
		}
		if c07SchedMismatches >= 5 {
			break
		}
		if time.Now().After(stopAt) {
			r.Note("sched: wall-time bound reached after %d of %d generated schedules (machine load)", i, len(cases))
			break
		}
		j := i + 100
		if j > len(cases) {
			j = len(cases)
		}
		c07SchedBatch(r, cases[i:j], false)
	}
}

// c07CheckStaticCfg parses every Sc* type serially with a fresh cache and compares relation fields / back references /
// errors with the hand-written relation graph c07ScCfg that is sent to the model.
func c07CheckStaticCfg(r *Result) {
	for ty := range c07ScTypes {
		cache := &sync.Map{}
		type pr struct {
			s   *schema.Schema
			err error
		}
		ch := make(chan pr, 1)
		go func() {
			s, err := schema.Parse(c07ScTypes[ty](), cache, schema.NamingStrategy{})
			ch <- pr{s, err}
		}()
		var s *schema.Schema
		var err error
		select {
		case v := <-ch:
			s, err = v.s, v.err
		case <-time.After(10 * time.Second):
			// a single goroutine parsing one model with a cold cache must terminate (20x margin over the observed < 1 ms is
			// far exceeded): this is the property failing on the simplest possible input, not an inconclusive timeout
			r.Violate(Violation{Kind: "e2e", Suite: "sched-static", Input: c07ScTypeNames[ty], Observed: "schema.Parse did not return within 10 s (single goroutine, cold cache)",
				Expected: "Parse returns", Note: "first use of a model type blocks forever"})
			return
		}
		wantErr := false
		for _, rel := range c07ScCfg[ty] {
			if rel.Bad {
				wantErr = true
			}
		}
		// nested error: C07ScM -> C07ScBad
		if ty == 9 {
			wantErr = true
		}
		if (err != nil) != wantErr {
			r.Violate(Violation{Kind: "correspondence", Suite: "sched-static", Input: c07ScTypeNames[ty],
				Observed: fmt.Sprint(err), Expected: fmt.Sprintf("error=%v", wantErr), Note: "static relation graph description differs from gorm's serial parse"})
			continue
		}
		if err != nil {
			continue
		}
		for _, rel := range c07ScCfg[ty] {
			rr, ok := s.Relationships.Relations[rel.Field]
			if !ok || rr.FieldSchema.ModelType.Name() != c07ScTypeNames[rel.Target] {
				r.Violate(Violation{Kind: "correspondence", Suite: "sched-static", Input: c07ScTypeNames[ty] + "." + rel.Field,
					Observed: fmt.Sprint(ok), Expected: c07ScTypeNames[rel.Target], Note: "relation target differs"})
				continue
			}
			isHas := (rr.Type == schema.HasOne || rr.Type == schema.HasMany) && rr.Polymorphic == nil
			if isHas != rel.Has {
				r.Violate(Violation{Kind: "correspondence", Suite: "sched-static", Input: c07ScTypeNames[ty] + "." + rel.Field,
					Observed: string(rr.Type), Expected: fmt.Sprintf("has=%v", rel.Has), Note: "relation kind differs"})
			}
		}
		n := 0
		for k := range s.Relationships.Relations {
			if !strings.HasPrefix(k, "_") {
				n++
			}
		}
		if n != len(c07ScCfg[ty]) {
			r.Violate(Violation{Kind: "correspondence", Suite: "sched-static", Input: c07ScTypeNames[ty],
				Observed: n, Expected: len(c07ScCfg[ty]), Note: "number of relation fields differs"})
		}
	}
}

// mismatches seen by the sched suite in this process: every one costs a goroutine-state timeout, five replays are enough
var c07SchedMismatches = 0

func c07SchedBatch(r *Result, cases []c07ScCase, replay bool) {
	ops := make([][]interface{}, len(cases))
	cfg := c07ScCfgJSON()
	for i, c := range cases {
		ops[i] = []interface{}{"sc.sched", cfg, c.Progs, c.Sched}
	}
	outs, err := AskLean(ops)
	if err != nil {
		r.Violate(Violation{Kind: "correspondence", Suite: "sched", Input: "batch", Observed: err.Error(), Expected: "lean driver answers"})
		return
	}
	for i, c := range cases {
		if c07SchedMismatches >= 5 || expired() {
			// every mismatch costs a goroutine-state timeout; five replays are enough to report
			break
		}
		var l c07ScLean
		if err := json.Unmarshal(outs[i], &l); err != nil {
			r.Violate(Violation{Kind: "correspondence", Suite: "sched", Input: c, Observed: string(outs[i]), Expected: "model output"})
			continue
		}
		r.H("sched.threads", fmt.Sprint(len(c.Progs)))
		r.H("sched.model-objects", fmt.Sprint(l.Nobj))
		if !l.Done {
			// the model proves deadlock freedom; a schedule after which the drained model is not finished is a model bug
			r.Violate(Violation{Kind: "correspondence", Suite: "sched", Input: c, Observed: "model not finished after drain", Expected: "all threads done"})
			continue
		}
		if !l.Det {
			r.H("sched.kind", "skipped:interleaving-not-determined-by-schedule")
			r.Case("sched-skipped", canon(c), false)
			continue
		}
		steps := l.steps()
		r.H("sched.releases", c07Bucket(len(steps)))
		for _, b := range l.Branches {
			r.H("sched.model-branch", b)
		}
		blocked, parkedNested := 0, 0
		for _, s := range steps {
			for t, st := range s.St {
				if strings.HasPrefix(st, "B") {
					blocked++
				}
				if strings.HasPrefix(st, "P") && t != s.T {
					parkedNested++
				}
			}
		}
		contended := c07Contended(c)
		r.H("sched.kind", fmt.Sprintf("contended=%v blockedStates=%v", contended, blocked > 0))
		obs, status := c07ScRunReal(c, steps)
		if status == "inconclusive" {
			r.H("sched.kind", "inconclusive:"+fmt.Sprint(obs["why"]))
			continue
		}
		// expected observables from the model (drop the `closed` flags: not observable from outside)
		var lrets [][][]interface{}
		_ = json.Unmarshal(l.Rets, &lrets)
		for _, tr := range lrets {
			for k := range tr {
				tr[k] = tr[k][:4]
			}
		}
		lobjs := [][]interface{}{}
		for _, o := range l.Objs {
			lobjs = append(lobjs, o[:4])
		}
		exp := map[string]interface{}{"status": "ok", "rets": lrets, "objs": lobjs, "cache": l.Cache}
		obs["status"] = status
		r.CorrCompared++
		r.Case("sched", canon(c), contended)
		if canon(obs) != canon(exp) {
			c07SchedMismatches++
			r.Violate(Violation{Kind: "correspondence", Suite: "sched", Input: c, Observed: obs, Expected: exp,
				Note: "schema-cache protocol: real code and Model.SchemaCache differ under a forced schedule"})
			// independent judgement of the property on this input (e2e): pointer uniqueness and completeness
			c07JudgeSched(r, c, obs)
		} else if replay {
			r.Note("replay sched: real code equals model")
		}
		if len(r.Samples) < 3 {
			r.Sample(map[string]interface{}{"case": c, "model": exp})
		}
	}
}

func c07Bucket(n int) string {
	switch {
	case n <= 2:
		return "0-2"
	case n <= 5:
		return "3-5"
	case n <= 10:
		return "6-10"
	case n <= 20:
		return "11-20"
	default:
		return ">20"
	}
}

// contended: at least two threads request the same type or directly related types
func c07Contended(c c07ScCase) bool {
	for a := 0; a < len(c.Progs); a++ {
		for b := a + 1; b < len(c.Progs); b++ {
			for _, x := range c.Progs[a] {
				for _, y := range c.Progs[b] {
					if x == y {
						return true
					}
					for _, rel := range c07ScCfg[x] {
						if rel.Target == y {
							return true
						}
					}
					for _, rel := range c07ScCfg[y] {
						if rel.Target == x {
							return true
						}
					}
				}
			}
		}
	}
	return false
}

// c07JudgeSched: property-level judgement on the observed results of a forced schedule, independent of the model:
// all error-free returns for one type must be the same object and have all relation fields set.
func c07JudgeSched(r *Result, c c07ScCase, obs map[string]interface{}) {
	rets, _ := obs["rets"].([][][]interface{})
	byTy := map[int]int{}
	for _, tr := range rets {
		for _, e := range tr {
			ty, o, er, nrel := e[0].(int), e[1].(int), e[2].(bool), e[3].(int)
			if er {
				continue
			}
			if p, ok := byTy[ty]; ok && p != o {
				r.Violate(Violation{Kind: "e2e", Suite: "sched", Input: c, Observed: obs, Expected: "one schema object per model type",
					Note: "two goroutines received different *schema.Schema for the same model type"})
				return
			}
			byTy[ty] = o
			if nrel != len(c07ScCfg[ty]) {
				r.Violate(Violation{Kind: "e2e", Suite: "sched", Input: c, Observed: obs, Expected: "all relation fields set at return",
					Note: "schema.Parse returned a schema whose relations are incomplete"})
				return
			}
		}
	}
}

type c07ScRet struct {
	ty   int
	ptr  *schema.Schema
	err  bool
	nrel int
}

func c07ScOwnRelCount(s *schema.Schema) int {
	s.Relationships.Mux.RLock()
	defer s.Relationships.Mux.RUnlock()
	n := 0
	for k := range s.Relationships.Relations {
		if !strings.HasPrefix(k, "_") {
			n++
		}
	}
	return n
}

// c07ScRunReal executes the forced schedule on the real schema package with a fresh (cold) cacheStore.
func c07ScRunReal(c c07ScCase, steps []c07ScStep) (map[string]interface{}, string) {
	g := len(c.Progs)
	cache := &sync.Map{}
	namer := schema.NamingStrategy{}
	ctl := &c07ScController{gids: map[int64]int{}, events: make(chan c07ScEvent, 1024)}
	for t := 0; t < g; t++ {
		ctl.release = append(ctl.release, make(chan struct{}))
	}
	c07ScCtl.Store(ctl)
	defer c07ScCtl.Store(nil)
	results := make([][]c07ScRet, g)
	gids := make([]int64, g)
	var wg sync.WaitGroup
	ready := make(chan struct{}, g)
	for t := 0; t < g; t++ {
		wg.Add(1)
		go func(t int) {
			defer wg.Done()
			gid := c07CurGID()
			ctl.mu.Lock()
			ctl.gids[gid] = t
			gids[t] = gid
			ctl.mu.Unlock()
			ready <- struct{}{}
			for _, ty := range c.Progs[t] {
				ctl.park(t, "S", ty)
				s, err := schema.Parse(c07ScTypes[ty](), cache, namer)
				rt := c07ScRet{ty: ty, ptr: s, err: err != nil}
				if s != nil {
					rt.nrel = c07ScOwnRelCount(s)
				}
				results[t] = append(results[t], rt)
			}
			if !ctl.free.Load() {
				ctl.events <- c07ScEvent{t, "D", 0}
			}
		}(t)
	}
	for t := 0; t < g; t++ {
		<-ready
	}
	status := make([]string, g)
	for t := range status {
		status[t] = "R"
	}
	apply := func(e c07ScEvent) {
		switch e.Kind {
		case "S":
			status[e.Tid] = "S"
		case "P":
			status[e.Tid] = fmt.Sprintf("P%d", e.Ty)
		case "D":
			status[e.Tid] = "D"
		}
	}
	abort := func(why string, detail interface{}) (map[string]interface{}, string) {
		ctl.free.Store(true)
		for _, ch := range ctl.release {
			close(ch)
		}
		done := make(chan struct{})
		go func() { wg.Wait(); close(done) }()
		select {
		case <-done:
		case <-time.After(5 * time.Second):
		}
		return map[string]interface{}{"why": why, "detail": detail}, "mismatch"
	}
	waitFor := func(expected []string) ([]string, bool) {
		deadline := time.Now().Add(2 * time.Second)
		obs := make([]string, g)
		for {
			// drain events
			for {
				select {
				case e := <-ctl.events:
					apply(e)
					continue
				default:
				}
				break
			}
			all := true
			for t := 0; t < g; t++ {
				obs[t] = status[t]
				if status[t] == "R" && strings.HasPrefix(expected[t], "B") {
					if c07GoroutineState(gids[t]) == "chanrecv-parse" {
						obs[t] = "B"
					}
				}
				if strings.HasPrefix(expected[t], "B") {
					if obs[t] != "B" {
						all = false
					}
				} else if obs[t] != expected[t] {
					all = false
				}
			}
			if all {
				return obs, true
			}
			if time.Now().After(deadline) {
				return obs, false
			}
			select {
			case e := <-ctl.events:
				apply(e)
			case <-time.After(200 * time.Microsecond):
			}
		}
	}
	init := make([]string, g)
	for t := range init {
		if len(c.Progs[t]) == 0 {
			init[t] = "D"
		} else {
			init[t] = "S"
		}
	}
	if obs, ok := waitFor(init); !ok {
		return abort("initial park", obs)
	}
	for i, st := range steps {
		if st.T >= g || (status[st.T] != "S" && !strings.HasPrefix(status[st.T], "P")) {
			return abort(fmt.Sprintf("step %d: model releases thread %d which is not parked on the real side (%s)", i, st.T, status[st.T]), status)
		}
		status[st.T] = "R"
		ctl.release[st.T] <- struct{}{}
		if obs, ok := waitFor(st.St); !ok {
			return abort(fmt.Sprintf("step %d (release %d): goroutine states differ", i, st.T), map[string]interface{}{"observed": obs, "expected": st.St})
		}
	}
	done := make(chan struct{})
	go func() { wg.Wait(); close(done) }()
	select {
	case <-done:
	case <-time.After(5 * time.Second):
		return abort("goroutines did not finish", status)
	}
	// canonical object numbering: first appearance over (thread 0's returns, thread 1's, …, then cache by type)
	idx := map[*schema.Schema]int{}
	var order []*schema.Schema
	see := func(p *schema.Schema) int {
		if p == nil {
			return -1
		}
		if i, ok := idx[p]; ok {
			return i
		}
		idx[p] = len(order)
		order = append(order, p)
		return idx[p]
	}
	errOf := map[*schema.Schema]bool{}
	rets := make([][][]interface{}, g)
	for t := 0; t < g; t++ {
		rets[t] = [][]interface{}{}
		for _, rt := range results[t] {
			rets[t] = append(rets[t], []interface{}{rt.ty, see(rt.ptr), rt.err, rt.nrel})
			if rt.err {
				errOf[rt.ptr] = true
			}
		}
	}
	cacheOut := make([]int, len(c07ScTypes))
	for ty := range c07ScTypes {
		cacheOut[ty] = -1
		if v, ok := cache.Load(reflect.TypeOf(c07ScTypes[ty]()).Elem()); ok {
			cacheOut[ty] = see(v.(*schema.Schema))
		}
	}
	backName := map[string][2]int{}
	for ty, rs := range c07ScCfg {
		for k, rel := range rs {
			backName["_"+c07ScTypeNames[ty]+"_"+rel.Field] = [2]int{ty, k}
		}
	}
	tyIdx := map[string]int{}
	for i, n := range c07ScTypeNames {
		tyIdx[n] = i
	}
	objs := [][]interface{}{}
	for _, p := range order {
		p.Relationships.Mux.RLock()
		n := 0
		backs := [][2]int{}
		for k := range p.Relationships.Relations {
			if strings.HasPrefix(k, "_") {
				if b, ok := backName[k]; ok {
					backs = append(backs, b)
				} else {
					backs = append(backs, [2]int{-1, -1})
				}
			} else {
				n++
			}
		}
		p.Relationships.Mux.RUnlock()
		sort.Slice(backs, func(i, j int) bool {
			if backs[i][0] != backs[j][0] {
				return backs[i][0] < backs[j][0]
			}
			return backs[i][1] < backs[j][1]
		})
		objs = append(objs, []interface{}{tyIdx[p.ModelType.Name()], n, backs, errOf[p]})
	}
	return map[string]interface{}{"rets": rets, "objs": objs, "cache": cacheOut}, "ok"
}

// ---- suite "stampede": single winner under REAL concurrency (no forced schedule) ----
//
// G goroutines leave a spin barrier together and call schema.Parse on the same model type with a fresh cacheStore;
// all must receive the same *schema.Schema (Gorm.C07_cache_single_winner).  The forced-schedule suite cannot place a
// goroutine between two adjacent statements of ParseWithSpecialTableName; this one samples exactly those interleavings.

type c07StampedeCase struct {
	Type int `json:"type"`
	G    int `json:"g"`
	Reps int `json:"reps"`
}

func c07Stampede(r *Result, rng *rand.Rand, tier string) {
	if o := c07Only(); o != "" && o != "stampede" {
		return
	}
	logger.Default = logger.Discard
	reps := 1500
	if tier == "thorough" {
		reps = 20000
	}
	g := runtime.NumCPU() - 2
	if g > 12 {
		g = 12
	}
	if g < 2 {
		g = 2
	}
	for _, ty := range []int{7, 0, 5, 2} {
		c07StampedeRun(r, c07StampedeCase{Type: ty, G: g, Reps: reps})
	}
}

var c07StampedeHung = false

func c07StampedeRun(r *Result, c c07StampedeCase) {
	if c07StampedeHung {
		return
	}
	namer := schema.NamingStrategy{}
	bad := 0
	for rep := 0; rep < c.Reps && bad == 0; rep++ {
		cache := &sync.Map{}
		ptrs := make([]*schema.Schema, c.G)
		var ready int32
		var wg sync.WaitGroup
		for t := 0; t < c.G; t++ {
			wg.Add(1)
			go func(t int) {
				defer wg.Done()
				v := c07ScTypes[c.Type]()
				atomic.AddInt32(&ready, 1)
				for atomic.LoadInt32(&ready) < int32(c.G) {
					runtime.Gosched()
				}
				s, _ := schema.Parse(v, cache, namer)
				ptrs[t] = s
			}(t)
		}
		done := make(chan struct{})
		go func() { wg.Wait(); close(done) }()
		select {
		case <-done:
		case <-time.After(20 * time.Second):
			r.Note("stampede: schema.Parse(%s) from %d goroutines did not finish within 20 s: inconclusive, suite stopped", c07ScTypeNames[c.Type], c.G)
			r.H("stampede.result", "inconclusive-timeout")
			c07StampedeHung = true
			return
		}
		r.CorrCompared++
		for t := 1; t < c.G; t++ {
			if ptrs[t] != ptrs[0] {
				bad++
				r.Violate(Violation{Kind: "correspondence", Suite: "stampede", Input: c,
					Observed: fmt.Sprintf("repetition %d: goroutine 0 received %p, goroutine %d received %p for %s", rep, ptrs[0], t, ptrs[t], c07ScTypeNames[c.Type]),
					Expected: "one *schema.Schema per model type for all callers (Gorm.C07_cache_single_winner)",
					Note:     "schema-cache protocol under real concurrency: two winners"})
				break
			}
		}
	}
	r.Case("stampede", canon(c), true)
	r.H("stampede.type", c07ScTypeNames[c.Type])
	r.H("stampede.G", fmt.Sprint(c.G))
}
