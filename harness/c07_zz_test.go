package main

import (
	"fmt"
	"os"
	"strings"
	"testing"
	"time"
)

func TestC07DeriveModes(t *testing.T) {
	fams := []string{"zoo", "related", "mutual", "unrelated", "readers"}
	if f := os.Getenv("FAM"); f != "" {
		fams = []string{f}
	}
	for _, fam := range fams {
		for _, mode := range c07DeriveModes {
			if m := os.Getenv("MODE"); m != "" && m != mode {
				continue
			}
			p := c07RaceProg{Seed: 7, G: 2, Cold: true, Family: fam, Handle: "db", Ops: 30, Derive: mode}
			done := make(chan c07RaceRun, 1)
			go func() { done <- c07RunRaceProg(p, true) }()
			select {
			case r := <-done:
				fmt.Println(fam, mode, "ok errs", r.errs, len(r.kinds))
				if r.errs > 0 && os.Getenv("SHOWERR") != "" {
					for _, o := range r.outs {
						for _, s := range o {
							if len(s) > 0 && strings.Contains(s, " err:") {
								fmt.Println("    ", s[:min(len(s), 300)])
							}
						}
					}
				}
			case <-time.After(20 * time.Second):
				t.Fatalf("HANG fam=%s mode=%s", fam, mode)
			}
		}
	}
}

