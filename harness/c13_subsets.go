package main

// C13 round 2, class 2: hook DETECTION by method set.
//
// "each APPLICABLE hook fires exactly once per affected in-memory record": which hooks are applicable is decided by
// schema.Parse from the model's method set (nine MethodByName look-ups -> nine Schema flags) and again by the hook
// callbacks (flag test + type assertion). The other C13 suites use models with all nine hooks, for which every such
// decision is "yes". Here the model varies: a fixed library of small named types (c13_subsets_types.go: one hook
// only x9, all but one x9, Before/After pairs, none, all, value receivers, mixed receivers) plus hand-written ones
// (hooks promoted from an embedded struct, shadowed by the outer type, methods with hook NAMES but other signatures,
// hooks only on the associated model / only on the owner).
// Judged from the declared subset (the property text), never from gorm's flags:
//   S1 per record exactly the documented sequence restricted to the type's hooks, each once; nothing else fires
//   S2 before-hooks, then the statement, then after-hooks; AfterFind once per loaded record
//   S3 write hooks on one transaction (the statement's)
//   S4 a failing hook invocation (error values rotate, c13_errvals.go): returned, no later phase, dumps unchanged
// Ties: schema.Parse's nine flags vs Lean genFlags (Gen.hookMethodArms …) for the reflected method set; the real
// hook+statement log vs Lean opEventsMs (Gen.hookSites, Gen.hookInterfaces).

import (
	"encoding/json"
	"fmt"
	"math/rand"
	"reflect"
	"sort"
	"strings"
	"sync"

	"gorm.io/gorm"
	"gorm.io/gorm/logger"
	"gorm.io/gorm/schema"
)

type C13sBase struct {
	ID      uint `gorm:"primaryKey"`
	Name    string
	Tag     string
	OwnerID uint
}

func (C13sBase) TableName() string { return "c13s" }

type C13sKidBase struct {
	ID      uint `gorm:"primaryKey"`
	Name    string
	Tag     string
	OwnerID uint
}

func (C13sKidBase) TableName() string { return "c13skid" }

type c13sType struct {
	Name    string
	New     func() interface{}
	Hooks   []string // the hooks the type HAS (right name, right signature) -- what the property calls applicable
	ValRecv []string
	Kid     bool
	KidOf   string // for owners: name of the kid type in field Kids
}

// ---- hand-written types --------------------------------------------------------------------------------------

// hooks promoted from an embedded struct
type C13sHookedBase struct {
	ID      uint `gorm:"primaryKey"`
	Name    string
	Tag     string
	OwnerID uint
}

func (C13sHookedBase) TableName() string { return "c13s" }
func (m *C13sHookedBase) BeforeSave(tx *gorm.DB) error {
	return c13sHook("BeforeSave", "C13sHookedBase", m.Name, tx)
}
func (m *C13sHookedBase) AfterCreate(tx *gorm.DB) error {
	return c13sHook("AfterCreate", "C13sHookedBase", m.Name, tx)
}
func (m *C13sHookedBase) AfterDelete(tx *gorm.DB) error {
	return c13sHook("AfterDelete", "C13sHookedBase", m.Name, tx)
}
func (m *C13sHookedBase) AfterFind(tx *gorm.DB) error {
	return c13sHook("AfterFind", "C13sHookedBase", m.Name, tx)
}

type C13sEmb struct{ C13sHookedBase }

// the outer type shadows one promoted hook and adds another
type C13sEmbOver struct{ C13sHookedBase }

func (m *C13sEmbOver) AfterDelete(tx *gorm.DB) error {
	return c13sHook("AfterDelete", "C13sEmbOver", m.Name, tx)
}
func (m *C13sEmbOver) BeforeUpdate(tx *gorm.DB) error {
	return c13sHook("BeforeUpdate", "C13sEmbOver", m.Name, tx)
}

// methods with hook NAMES: three with other signatures (not hooks: must never run), two valid spellings
type C13sBadSig struct{ C13sBase }

func (m *C13sBadSig) BeforeSave() error {
	return c13sHook("BADSIG:BeforeSave", "C13sBadSig", m.Name, nil)
}
func (m *C13sBadSig) AfterCreate(tx *gorm.DB) {
	_ = c13sHook("BADSIG:AfterCreate", "C13sBadSig", m.Name, nil)
}
func (m *C13sBadSig) AfterFind(tx *gorm.DB, more ...int) error {
	return c13sHook("BADSIG:AfterFind", "C13sBadSig", m.Name, nil)
}
func (m *C13sBadSig) AfterSave(tx interface{}) error {
	return c13sHook("BADSIG:AfterSave", "C13sBadSig", m.Name, nil)
}
func (m *C13sBadSig) BeforeDelete(db *gorm.DB) (err error) {
	return c13sHook("BeforeDelete", "C13sBadSig", m.Name, db)
}
func (m *C13sBadSig) AfterUpdate(d *gorm.DB) error {
	return c13sHook("AfterUpdate", "C13sBadSig", m.Name, d)
}

// owners: hooks only on the associated model / only on the owner / different subsets on both sides
type C13sOwnerPlain struct {
	C13sBase
	Kids []C13sKidAll `gorm:"foreignKey:OwnerID"`
}
type C13sOwnerAll struct {
	C13sBase
	Kids []C13sKidNone `gorm:"foreignKey:OwnerID"`
}

func (m *C13sOwnerAll) BeforeSave(tx *gorm.DB) error {
	return c13sHook("BeforeSave", "C13sOwnerAll", m.Name, tx)
}
func (m *C13sOwnerAll) BeforeCreate(tx *gorm.DB) error {
	return c13sHook("BeforeCreate", "C13sOwnerAll", m.Name, tx)
}
func (m *C13sOwnerAll) AfterCreate(tx *gorm.DB) error {
	return c13sHook("AfterCreate", "C13sOwnerAll", m.Name, tx)
}
func (m *C13sOwnerAll) AfterSave(tx *gorm.DB) error {
	return c13sHook("AfterSave", "C13sOwnerAll", m.Name, tx)
}
func (m *C13sOwnerAll) BeforeUpdate(tx *gorm.DB) error {
	return c13sHook("BeforeUpdate", "C13sOwnerAll", m.Name, tx)
}
func (m *C13sOwnerAll) AfterUpdate(tx *gorm.DB) error {
	return c13sHook("AfterUpdate", "C13sOwnerAll", m.Name, tx)
}
func (m *C13sOwnerAll) BeforeDelete(tx *gorm.DB) error {
	return c13sHook("BeforeDelete", "C13sOwnerAll", m.Name, tx)
}
func (m *C13sOwnerAll) AfterDelete(tx *gorm.DB) error {
	return c13sHook("AfterDelete", "C13sOwnerAll", m.Name, tx)
}
func (m *C13sOwnerAll) AfterFind(tx *gorm.DB) error {
	return c13sHook("AfterFind", "C13sOwnerAll", m.Name, tx)
}

type C13sOwnerKidAC struct {
	C13sBase
	Kids []C13sKidOnlyAfterCreate `gorm:"foreignKey:OwnerID"`
}

func (m *C13sOwnerKidAC) BeforeSave(tx *gorm.DB) error {
	return c13sHook("BeforeSave", "C13sOwnerKidAC", m.Name, tx)
}

type C13sOwnerKidAD struct {
	C13sBase
	Kids []C13sKidOnlyAfterDelete `gorm:"foreignKey:OwnerID"`
}
type C13sOwnerKidNBS struct {
	C13sBase
	Kids []C13sKidNoBeforeSave `gorm:"foreignKey:OwnerID"`
}

func (m *C13sOwnerKidNBS) AfterDelete(tx *gorm.DB) error {
	return c13sHook("AfterDelete", "C13sOwnerKidNBS", m.Name, tx)
}

var c13sHandTypes = []c13sType{
	{Name: "C13sEmb", New: func() interface{} { return &C13sEmb{} }, Hooks: []string{"BeforeSave", "AfterCreate", "AfterDelete", "AfterFind"}},
	{Name: "C13sEmbOver", New: func() interface{} { return &C13sEmbOver{} }, Hooks: []string{"BeforeSave", "AfterCreate", "BeforeUpdate", "AfterDelete", "AfterFind"}},
	{Name: "C13sBadSig", New: func() interface{} { return &C13sBadSig{} }, Hooks: []string{"AfterUpdate", "BeforeDelete"}},
	{Name: "C13sOwnerPlain", New: func() interface{} { return &C13sOwnerPlain{} }, KidOf: "C13sKidAll"},
	{Name: "C13sOwnerAll", New: func() interface{} { return &C13sOwnerAll{} }, Hooks: allHooks, KidOf: "C13sKidNone"},
	{Name: "C13sOwnerKidAC", New: func() interface{} { return &C13sOwnerKidAC{} }, Hooks: []string{"BeforeSave"}, KidOf: "C13sKidOnlyAfterCreate"},
	{Name: "C13sOwnerKidAD", New: func() interface{} { return &C13sOwnerKidAD{} }, KidOf: "C13sKidOnlyAfterDelete"},
	{Name: "C13sOwnerKidNBS", New: func() interface{} { return &C13sOwnerKidNBS{} }, Hooks: []string{"AfterDelete"}, KidOf: "C13sKidNoBeforeSave"},
}

func c13sTypes() []c13sType { return append(append([]c13sType{}, c13sGenTypes...), c13sHandTypes...) }

func c13sTypeByName(n string) *c13sType {
	for _, t := range c13sTypes() {
		if t.Name == n {
			t := t
			return &t
		}
	}
	return nil
}

func (t c13sType) has(h string) bool {
	for _, x := range t.Hooks {
		if x == h {
			return true
		}
	}
	return false
}

func (t c13sType) table() string {
	if t.Kid {
		return "c13skid"
	}
	return "c13s"
}

// ---- log -----------------------------------------------------------------------------------------------------

type c13sEv struct {
	Kind  string `json:"k"` // hook name | stmt:<pipeline>
	Type  string `json:"ty"`
	Table string `json:"t"`
	Name  string `json:"n"`
	Pool  string `json:"-"`
	IsTx  bool   `json:"tx"`
}

func (e c13sEv) isStmt() bool { return strings.HasPrefix(e.Kind, "stmt:") }
func (e c13sEv) short() string {
	if e.isStmt() {
		return e.Kind + "/" + e.Table
	}
	return e.Kind + "/" + e.Table + "/" + e.Name
}

var c13s struct {
	mu       sync.Mutex
	log      []c13sEv
	failAt   string // "<Hook>/<table>/<name>"
	failErr  string
	returned []error
	tables   map[string]string // type name -> table
}

func c13sHook(hook, typ, name string, tx *gorm.DB) error {
	c13s.mu.Lock()
	defer c13s.mu.Unlock()
	ev := c13sEv{Kind: hook, Type: typ, Table: c13s.tables[typ], Name: name}
	if tx != nil {
		ev.Pool = fmt.Sprintf("%p", tx.Statement.ConnPool)
		_, ev.IsTx = tx.Statement.ConnPool.(gorm.TxCommitter)
	}
	c13s.log = append(c13s.log, ev)
	if tx != nil && c13s.failAt == hook+"/"+ev.Table+"/"+name {
		kind := c13s.failErr
		c13s.mu.Unlock()
		err := c13MakeErr(kind, tx, hook)
		c13s.mu.Lock()
		c13s.returned = append(c13s.returned, err)
		return err
	}
	return nil
}

func c13sProbe(kind string) func(db *gorm.DB) {
	return func(db *gorm.DB) {
		if db.Error != nil || db.Statement.Schema == nil || db.DryRun || db.Statement.Table == "hxuniq" {
			return
		}
		c13s.mu.Lock()
		defer c13s.mu.Unlock()
		_, isTx := db.Statement.ConnPool.(gorm.TxCommitter)
		c13s.log = append(c13s.log, c13sEv{Kind: "stmt:" + kind, Table: db.Statement.Table, Pool: fmt.Sprintf("%p", db.Statement.ConnPool), IsTx: isTx})
	}
}

// ---- case ----------------------------------------------------------------------------------------------------

type c13sCase struct {
	Type    string `json:"type"`
	Op      string `json:"op"`    // create save-new save-existing updates delete find first foc-new foc-existing find-preload delete-select
	Shape   string `json:"shape"` // single ptrslice valslice
	N       int    `json:"n"`
	FailAt  string `json:"fail_at,omitempty"`
	FailErr string `json:"fail_err,omitempty"`
}

type c13sObs struct {
	Events      []c13sEv `json:"events"`
	Err         string   `json:"err"`
	ErrReturned bool     `json:"err_returned"`
	Before      []string `json:"-"`
	After       []string `json:"after"`
}

func c13sDump(db *gorm.DB) []string {
	raw := db.Session(&gorm.Session{NewDB: true, SkipHooks: true})
	out := []string{}
	for _, t := range []string{"c13s", "c13skid"} {
		rows, err := raw.Raw("SELECT id, name, tag, owner_id FROM " + t + " ORDER BY id").Rows()
		if err != nil {
			out = append(out, "ERR "+err.Error())
			continue
		}
		for rows.Next() {
			var id, o int
			var a, b string
			_ = rows.Scan(&id, &a, &b, &o)
			out = append(out, fmt.Sprintf("%s|%d|%s|%s|%d", t, id, a, b, o))
		}
		rows.Close()
	}
	return append(out, c13AuxDump(db)...)
}

func c13sSet(v reflect.Value, field string, x interface{}) {
	v.FieldByName(field).Set(reflect.ValueOf(x).Convert(v.FieldByName(field).Type()))
}

// c13sMake builds record i of type t (pointer to struct), with two kids for owner types when withKids
func c13sMake(t c13sType, i int, id uint, withKids bool) reflect.Value {
	p := reflect.ValueOf(t.New())
	v := p.Elem()
	name := fmt.Sprint("r", i)
	c13sSet(v, "ID", id)
	c13sSet(v, "Name", name)
	c13sSet(v, "Tag", "mem")
	if f := v.FieldByName("Kids"); withKids && f.IsValid() {
		ks := reflect.MakeSlice(f.Type(), 2, 2)
		for j := 0; j < 2; j++ {
			c13sSet(ks.Index(j), "Name", fmt.Sprint(name, "k", j))
			c13sSet(ks.Index(j), "Tag", "mem")
		}
		f.Set(ks)
	}
	return p
}

// c13sValue builds the operation's argument: *T, *[]*T or *[]T
func c13sValue(t c13sType, c c13sCase, keyed, withKids bool) interface{} {
	id := func(i int) uint {
		if keyed {
			return uint(i + 1)
		}
		return 0
	}
	elem := reflect.TypeOf(t.New()).Elem()
	switch c.Shape {
	case "ptrslice":
		s := reflect.New(reflect.SliceOf(reflect.PointerTo(elem)))
		for i := 0; i < c.N; i++ {
			s.Elem().Set(reflect.Append(s.Elem(), c13sMake(t, i, id(i), withKids)))
		}
		return s.Interface()
	case "valslice":
		s := reflect.New(reflect.SliceOf(elem))
		for i := 0; i < c.N; i++ {
			s.Elem().Set(reflect.Append(s.Elem(), c13sMake(t, i, id(i), withKids).Elem()))
		}
		return s.Interface()
	}
	return c13sMake(t, 0, id(0), withKids).Interface()
}

func c13sRun(c c13sCase) c13sObs {
	t := c13sTypeByName(c.Type)
	db, rec, sqlDB := OpenRec(nil)
	defer sqlDB.Close()
	_ = rec
	if err := db.AutoMigrate(&C13sBase{}, &C13sKidBase{}); err != nil {
		panic(err)
	}
	c13EnsureAux(db)
	_ = db.Callback().Create().After("gorm:create").Before("gorm:save_after_associations").Register("c13s:stmt", c13sProbe("create"))
	_ = db.Callback().Update().After("gorm:update").Before("gorm:save_after_associations").Register("c13s:stmt", c13sProbe("update"))
	_ = db.Callback().Delete().After("gorm:delete").Before("gorm:after_delete").Register("c13s:stmt", c13sProbe("delete"))
	_ = db.Callback().Query().After("gorm:query").Before("gorm:preload").Register("c13s:stmt", c13sProbe("query"))
	owner := t.KidOf != ""
	seed := db.Session(&gorm.Session{SkipHooks: true})
	nseed := 0
	switch c.Op {
	case "save-existing", "updates", "delete", "find", "first", "find-preload", "delete-select":
		nseed = c.N
	case "foc-existing":
		nseed = 1
	}
	for i := 0; i < nseed; i++ {
		if err := seed.Create(c13sMake(*t, i, uint(i+1), owner).Interface()).Error; err != nil {
			panic(err)
		}
	}
	var obs c13sObs
	obs.Before = c13sDump(db)
	c13s.mu.Lock()
	c13s.log, c13s.failAt, c13s.failErr, c13s.returned = nil, c.FailAt, c.FailErr, nil
	c13s.mu.Unlock()
	var res *gorm.DB
	res = c13Guard(func() *gorm.DB {
		switch c.Op {
		case "create":
			res = db.Create(c13sValue(*t, c, false, owner))
		case "save-new":
			res = db.Save(c13sValue(*t, c, false, owner))
		case "save-existing":
			res = db.Save(c13sValue(*t, c, true, false))
		case "updates":
			res = db.Model(c13sValue(*t, c, true, false)).Updates(map[string]interface{}{"tag": "upd"})
		case "delete":
			res = db.Delete(c13sValue(*t, c, true, false))
		case "delete-select":
			res = db.Select("Kids").Delete(c13sValue(*t, c, true, false))
		case "find", "find-preload":
			h := db.Order("id")
			if c.Op == "find-preload" {
				h = h.Preload("Kids")
			}
			sh := c
			sh.N = 0
			if sh.Shape == "single" {
				sh.Shape = "valslice"
			}
			res = h.Find(c13sValue(*t, sh, false, false))
		case "first":
			res = db.First(t.New())
		case "foc-new", "foc-existing":
			q := t.New()
			c13sSet(reflect.ValueOf(q).Elem(), "Name", "r0")
			res = db.Where(q).FirstOrCreate(t.New())
		default:
			panic("c13s: unknown op " + c.Op)
		}
		return res
	})
	if res.Error != nil {
		obs.Err = res.Error.Error()
	}
	c13s.mu.Lock()
	obs.Events = append([]c13sEv{}, c13s.log...)
	returned := c13s.returned
	c13s.log, c13s.failAt, c13s.failErr, c13s.returned = nil, "", "", nil
	c13s.mu.Unlock()
	obs.ErrReturned = res.Error != nil && len(returned) > 0
	for _, e := range returned {
		if !c13ErrCarries(res.Error, e) {
			obs.ErrReturned = false
		}
	}
	obs.After = c13sDump(db)
	return obs
}

// ---- oracle (from the declared subset) -------------------------------------------------------------------------

// c13sExpect: record -> (write flavour | "", AfterFind expected?) for a failure-free run
func c13sExpect(t c13sType, c c13sCase) map[string][2]string {
	exp := map[string][2]string{}
	n := c.N
	if c.Shape == "single" {
		n = 1
	}
	kt := c13sTypeByName(t.KidOf)
	top := func(fl, find string) {
		for i := 0; i < n; i++ {
			exp[t.table()+"/"+fmt.Sprint("r", i)] = [2]string{fl, find}
		}
	}
	kids := func(fl, find string) {
		if kt == nil {
			return
		}
		for i := 0; i < n; i++ {
			for j := 0; j < 2; j++ {
				exp[kt.table()+"/"+fmt.Sprint("r", i, "k", j)] = [2]string{fl, find}
			}
		}
	}
	switch c.Op {
	case "create", "save-new":
		top("create", "")
		kids("create", "")
	case "save-existing", "updates":
		top("update", "")
	case "delete":
		top("delete", "")
	case "delete-select":
		top("delete", "")
		if kt != nil {
			exp[kt.table()+"/"] = [2]string{"delete", ""} // the blank model value gorm deletes the Select-ed kids through
		}
	case "find":
		n = c.N
		top("", "find")
	case "find-preload":
		n = c.N
		top("", "find")
		kids("", "find")
	case "first":
		n = 1
		top("", "find")
	case "foc-new":
		n = 1
		top("create", "")
	case "foc-existing":
		n = 1
		top("", "find")
	}
	return exp
}

func c13sTypeOfTable(t c13sType, table string) c13sType {
	if table == "c13skid" {
		if kt := c13sTypeByName(t.KidOf); kt != nil {
			return *kt
		}
	}
	return t
}

func c13sRestrict(seq []string, t c13sType) []string {
	out := []string{}
	for _, h := range seq {
		if t.has(h) {
			out = append(out, h)
		}
	}
	return out
}

func c13sOracleOK(c c13sCase, obs c13sObs) string {
	t := *c13sTypeByName(c.Type)
	if obs.Err != "" {
		return "unexpected error: " + obs.Err
	}
	exp := c13sExpect(t, c)
	got := map[string][]c13sEv{}
	for _, e := range obs.Events {
		if strings.HasPrefix(e.Kind, "BADSIG") {
			return "S1: method " + e.Kind + " has a hook's name but not its signature -- it is not a hook and must not run"
		}
		if !e.isStmt() {
			got[e.Table+"/"+e.Name] = append(got[e.Table+"/"+e.Name], e)
		}
	}
	keys := map[string]bool{}
	for k := range exp {
		keys[k] = true
	}
	for k := range got {
		keys[k] = true
	}
	for _, k := range c13xSortedKeys(keys) {
		table := strings.SplitN(k, "/", 2)[0]
		rt := c13sTypeOfTable(t, table)
		want := []string{}
		if x, ok := exp[k]; ok {
			want = c13sRestrict(c13xSeqs[x[0]], rt)
			if x[1] == "find" && rt.has("AfterFind") {
				want = append(want, "AfterFind")
			}
		}
		seq := []string{}
		for _, e := range got[k] {
			seq = append(seq, e.Kind)
		}
		if !reflect.DeepEqual(seq, want) {
			return fmt.Sprintf("S1: record %s of a model with hooks %v saw %v, applicable hooks in documented order: %v", k, rt.Hooks, seq, want)
		}
	}
	// S2 / S3 per table: before* < statement < after*, one transaction for write hooks
	pool := ""
	for _, table := range []string{"c13s", "c13skid"} {
		phase := 0
		for _, e := range obs.Events {
			if e.Table != table || e.Kind == "AfterFind" || e.Kind == "stmt:query" {
				continue
			}
			switch {
			case e.isStmt():
				if phase > 1 {
					return "S2: a statement of " + table + " was sent after an after-hook: " + strings.Join(c13sShorts(obs.Events), " ")
				}
				phase = 1
			case c13xBefore[e.Kind]:
				if phase > 0 {
					return "S2: before-hook " + e.short() + " ran after the statement: " + strings.Join(c13sShorts(obs.Events), " ")
				}
			default:
				if phase == 0 {
					return "S2: after-hook " + e.short() + " ran before the statement: " + strings.Join(c13sShorts(obs.Events), " ")
				}
				phase = 2
			}
			if !e.isStmt() {
				if !e.IsTx {
					return "S3: hook " + e.short() + " received a tx that is not on a transaction"
				}
				if pool != "" && e.Pool != pool {
					return "S3: write hooks of one operation ran on different transactions (" + e.short() + ")"
				}
				pool = e.Pool
			}
		}
	}
	return ""
}

func c13sShorts(evs []c13sEv) []string {
	out := make([]string, len(evs))
	for i, e := range evs {
		out[i] = e.short()
	}
	return out
}

func c13sOracleFail(c c13sCase, obs, base c13sObs) string {
	for _, e := range obs.Events {
		if strings.HasPrefix(e.Kind, "BADSIG") {
			return "S1: " + e.Kind + " ran"
		}
	}
	if !obs.ErrReturned {
		return "S4: hook error not returned: " + obs.Err
	}
	S, F := base.Events, obs.Events
	k := -1
	for i, e := range S {
		if !e.isStmt() && e.short() == c.FailAt {
			k = i
			break
		}
	}
	if k < 0 {
		return ""
	}
	if len(F) <= k || !reflect.DeepEqual(c13sShorts(F[:k+1]), c13sShorts(S[:k+1])) {
		return fmt.Sprintf("S4: the events up to the failing hook differ from the failure-free run: %v vs %v", c13sShorts(F), c13sShorts(S[:k+1]))
	}
	var rest []string
	for i := k + 1; i < len(S); i++ {
		if S[i].isStmt() || S[i].Table != S[k].Table || c13xClass(S[i].Kind) != c13xClass(S[k].Kind) {
			break
		}
		rest = append(rest, S[i].short())
	}
	j := 0
	for _, e := range F[k+1:] {
		for j < len(rest) && rest[j] != e.short() {
			j++
		}
		if j == len(rest) {
			return fmt.Sprintf("S4: %s ran after %s failed (a later phase of the operation)", e.short(), c.FailAt)
		}
		j++
	}
	if !reflect.DeepEqual(obs.Before, obs.After) {
		return "S4: a hook failed but part of the operation stayed in the database"
	}
	return ""
}

func c13sJudge(c c13sCase) (c13sObs, string) {
	obs := c13sRun(c)
	if c.FailAt == "" {
		return obs, c13sOracleOK(c, obs)
	}
	b := c
	b.FailAt, b.FailErr = "", ""
	return obs, c13sOracleFail(c, obs, c13sRun(b))
}

// ---- ties ----------------------------------------------------------------------------------------------------

// c13sMethods: the pointer method set of the type as schema.Parse sees it: (name, bound method type)
func c13sMethods(t c13sType) [][]string {
	v := reflect.ValueOf(t.New())
	var ms [][]string
	for i := 0; i < v.NumMethod(); i++ {
		ms = append(ms, []string{v.Type().Method(i).Name, v.Method(i).Type().String()})
	}
	return ms
}

var c13sPipelineOf = map[string]string{"create": "create", "save-new": "create", "save-existing": "update", "updates": "update",
	"delete": "delete", "find": "query", "first": "query"}

func c13sReport(r *Result, c c13sCase, obs c13sObs, v string) {
	if v == "" {
		return
	}
	r.Violate(Violation{Kind: "e2e", Suite: "subsets", Input: c, Observed: map[string]interface{}{
		"events": c13sShorts(obs.Events), "err": obs.Err, "before": obs.Before, "after": obs.After}, Expected: v})
}

func c13sSuite(r *Result, rng *rand.Rand, tier string) {
	oldDefault := logger.Default
	logger.Default = logger.Discard // schema.Parse warns about C13sBadSig's methods on the process-wide default logger
	defer func() { logger.Default = oldDefault }()
	types := c13sTypes()
	c13s.mu.Lock()
	c13s.tables = map[string]string{"C13sHookedBase": "c13s"}
	for _, t := range types {
		c13s.tables[t.Name] = t.table()
	}
	c13s.mu.Unlock()
	maxFaults, ns := 5, []int{2}
	if tier == "thorough" {
		maxFaults, ns = 1000, []int{1, 3}
	} else if tier == "search" {
		maxFaults = 8
	}
	// tie 1: schema.Parse's flags vs Lean genFlags for the reflected method set
	var flagOps [][]interface{}
	var flagReal []string
	var flagType []string
	for _, t := range types {
		s, err := schema.Parse(t.New(), &sync.Map{}, schema.NamingStrategy{})
		if err != nil {
			r.Violate(Violation{Kind: "e2e", Suite: "subsets", Input: t.Name, Observed: err.Error(), Expected: "schema parses"})
			continue
		}
		sv := reflect.ValueOf(s).Elem()
		var flags [][]interface{}
		for _, h := range []string{"BeforeCreate", "AfterCreate", "BeforeUpdate", "AfterUpdate", "BeforeSave", "AfterSave", "BeforeDelete", "AfterDelete", "AfterFind"} {
			flags = append(flags, []interface{}{h, sv.FieldByName(h).Bool()})
		}
		r.Case("subsets-flags", t.Name, true)
		flagOps = append(flagOps, []interface{}{"hooks.flags", c13sMethods(t)})
		flagReal = append(flagReal, canon(flags))
		flagType = append(flagType, t.Name)
	}
	if outs, err := AskLean(flagOps); err != nil {
		r.Violate(Violation{Kind: "correspondence", Suite: "subsets-flags", Note: err.Error()})
	} else {
		for i, o := range outs {
			var ans struct {
				Flags json.RawMessage `json:"flags"`
			}
			_ = json.Unmarshal(o, &ans)
			r.CorrCompared++
			r.H("s.tie", "flags")
			if canonRaw(ans.Flags) != flagReal[i] {
				r.Violate(Violation{Kind: "correspondence", Suite: "subsets-flags", Input: flagType[i], Observed: flagReal[i], Expected: canonRaw(ans.Flags),
					Note: "schema.Parse's hook flags vs Lean genFlags (Gen.hookTypeConsts/hookMethodArms/hookSigCases/hookTypesLoop) on the reflected method set"})
			}
		}
	}
	// cases
	var cases []c13sCase
	for _, t := range types {
		if t.Kid {
			continue
		}
		for _, n := range ns {
			shapes := []string{"ptrslice", "valslice"}
			cases = append(cases, c13sCase{Type: t.Name, Op: "create", Shape: "single", N: 1},
				c13sCase{Type: t.Name, Op: "create", Shape: shapes[rng.Intn(2)], N: n},
				c13sCase{Type: t.Name, Op: "save-new", Shape: "single", N: 1},
				c13sCase{Type: t.Name, Op: "save-existing", Shape: "single", N: 1},
				c13sCase{Type: t.Name, Op: "updates", Shape: "single", N: 1},
				c13sCase{Type: t.Name, Op: "updates", Shape: shapes[rng.Intn(2)], N: n},
				c13sCase{Type: t.Name, Op: "delete", Shape: "single", N: 1},
				c13sCase{Type: t.Name, Op: "delete", Shape: shapes[rng.Intn(2)], N: n},
				c13sCase{Type: t.Name, Op: "find", Shape: shapes[rng.Intn(2)], N: n},
				c13sCase{Type: t.Name, Op: "first", Shape: "single", N: n},
				c13sCase{Type: t.Name, Op: "foc-new", Shape: "single", N: 1},
				c13sCase{Type: t.Name, Op: "foc-existing", Shape: "single", N: 1})
			if t.KidOf != "" {
				cases = append(cases, c13sCase{Type: t.Name, Op: "find-preload", Shape: shapes[rng.Intn(2)], N: n},
					c13sCase{Type: t.Name, Op: "delete-select", Shape: "single", N: 1},
					c13sCase{Type: t.Name, Op: "delete-select", Shape: shapes[rng.Intn(2)], N: n})
			}
		}
	}
	kinds := append([]string{}, c13ErrKinds...)
	rng.Shuffle(len(kinds), func(i, j int) { kinds[i], kinds[j] = kinds[j], kinds[i] })
	kctr := 0
	var tieOps [][]interface{}
	var tieReal []string
	var tieCase []c13sCase
	done := map[string]bool{}
	for i, c := range cases {
		if expired() {
			break
		}
		if done[canon(c)] {
			continue
		}
		done[canon(c)] = true
		t := *c13sTypeByName(c.Type)
		base, v := c13sJudge(c)
		nh := 0
		for _, e := range base.Events {
			if !e.isStmt() {
				nh++
			}
		}
		r.Case("subsets", canon(c), true)
		r.H("s.type", c.Type)
		r.H("s.op", c.Op+"/"+c.Shape)
		r.H("s.hooks", fmt.Sprint(nh))
		if i%53 == 0 {
			r.Sample(map[string]interface{}{"input": c, "events": c13sShorts(base.Events)})
		}
		c13sReport(r, c, base, v)
		if v != "" {
			continue
		}
		// tie 2: the real log of the top-level table vs Lean opEventsMs for the reflected method set
		if p, ok := c13sPipelineOf[c.Op]; ok {
			n := c.N
			if c.Shape == "single" && c.Op != "find" {
				n = 1
			}
			if c.Op == "first" {
				n = 1
			}
			real := [][]interface{}{}
			seen := map[string]int{}
			for _, e := range base.Events {
				if e.Table != "c13s" {
					continue
				}
				if e.isStmt() {
					real = append(real, []interface{}{"stmt"})
					continue
				}
				if _, ok := seen[e.Name]; !ok {
					seen[e.Name] = len(seen)
				}
				idx := seen[e.Name]
				fmt.Sscanf(strings.TrimPrefix(e.Name, "r"), "%d", &idx)
				real = append(real, []interface{}{e.Kind, idx})
			}
			tieOps = append(tieOps, []interface{}{"hooks.eventsms", p, c13sMethods(t), n})
			tieReal = append(tieReal, canon(real))
			tieCase = append(tieCase, c)
		}
		// S4: failing hook invocations of the failure-free run, error values rotating
		var points []int
		for j, e := range base.Events {
			if !e.isStmt() {
				points = append(points, j)
			}
		}
		if len(points) > maxFaults {
			rng.Shuffle(len(points), func(a, b int) { points[a], points[b] = points[b], points[a] })
			points = points[:maxFaults]
			sort.Ints(points)
		}
		for _, j := range points {
			fc := c
			fc.FailAt = base.Events[j].short()
			for tries := 0; tries < len(kinds); tries++ {
				kctr++
				fc.FailErr = kinds[kctr%len(kinds)]
				if !(base.Events[j].Kind == "AfterFind" && c13KindWrites(fc.FailErr)) {
					break
				}
			}
			o := c13sRun(fc)
			r.Case("subsets", canon(fc), true)
			r.H("s.kind", "failing-hook")
			r.H("s.failhook", base.Events[j].Kind)
			c13sReport(r, fc, o, c13sOracleFail(fc, o, base))
		}
	}
	outs, err := AskLean(tieOps)
	if err != nil {
		r.Violate(Violation{Kind: "correspondence", Suite: "subsets", Note: err.Error()})
		return
	}
	for i, o := range outs {
		r.CorrCompared++
		r.H("s.tie", "eventsms/"+tieCase[i].Op)
		if canonRaw(o) != tieReal[i] {
			r.Violate(Violation{Kind: "correspondence", Suite: "subsets", Input: tieCase[i], Observed: tieReal[i], Expected: canonRaw(o),
				Note: "real hook+statement log vs Lean opEventsMs (Gen.hookSites/hookInterfaces/hookMethodArms) for the reflected method set"})
		}
	}
}

func init() {
	replayers["C13/subsets"] = func(r *Result, input json.RawMessage) {
		var c c13sCase
		if json.Unmarshal(input, &c) != nil {
			return
		}
		oldDefault := logger.Default
		logger.Default = logger.Discard
		defer func() { logger.Default = oldDefault }()
		c13s.mu.Lock()
		c13s.tables = map[string]string{"C13sHookedBase": "c13s"}
		for _, t := range c13sTypes() {
			c13s.tables[t.Name] = t.table()
		}
		c13s.mu.Unlock()
		obs, v := c13sJudge(c)
		r.Case("subsets", canon(c), true)
		c13sReport(r, c, obs, v)
	}
}
