package main

import (
	"encoding/json"
	"fmt"
	"os"
	"testing"
)

func TestC10Dbg(t *testing.T) {
	b, _ := os.ReadFile(os.Getenv("C10DBG"))
	var d struct{ Input json.RawMessage }
	json.Unmarshal(b, &d)
	c, err := c10ZDecode(d.Input)
	if err != nil {
		t.Fatal(err)
	}
	db := c10OpenDry()
	sch, typ, err := c10ZParse(db, c.Schema)
	fmt.Println(err)
	for _, f := range sch.Fields {
		fmt.Println(f.Name, f.DBName, f.DataType, f.StructField.Index, f.Serializer != nil)
	}
	tx := c10ZExec(db, typ, c)
	fmt.Println(tx.Statement.SQL.String(), tx.Error)
}
