package main

// Relation model family shared by C05/C11/C12/C13/C18 suites.

import (
	"fmt"
	"math/rand"

	"gorm.io/gorm"
	"gorm.io/gorm/clause"
)

type RCompany struct {
	ID   uint `gorm:"primaryKey"`
	Name string
}

type RProfile struct {
	ID      uint `gorm:"primaryKey"`
	RUserID uint
	Bio     string
}

type RPet struct {
	ID        uint `gorm:"primaryKey"`
	RUserID   *uint
	Name      string
	DeletedAt gorm.DeletedAt
}

type RLang struct {
	Code string `gorm:"primaryKey"`
	Name string
}

type RToy struct {
	ID        uint `gorm:"primaryKey"`
	Name      string
	OwnerID   uint
	OwnerType string
}

type RUser struct {
	ID        uint `gorm:"primaryKey"`
	Name      string
	Age       int
	CompanyID *uint
	Company   *RCompany
	Profile   *RProfile
	Pets      []RPet
	Langs     []RLang `gorm:"many2many:r_user_langs"`
	Toys      []RToy  `gorm:"polymorphic:Owner"`
	ManagerID *uint
	Manager   *RUser
	Team      []RUser `gorm:"foreignKey:ManagerID"`
}

var relModels = []interface{}{&RCompany{}, &RProfile{}, &RPet{}, &RLang{}, &RToy{}, &RUser{}}
var relTables = []string{"r_companies", "r_profiles", "r_pets", "r_langs", "r_toys", "r_users", "r_user_langs"}

func openRel(cfg *gorm.Config) (*gorm.DB, *Recorder) {
	db, rec, _ := OpenRec(cfg)
	if err := db.AutoMigrate(relModels...); err != nil {
		panic(err)
	}
	rec.Reset()
	return db, rec
}

// dumpTables returns a canonical dump of every relation table (raw SQL through the recorder-off path).
func dumpTables(db *gorm.DB, rec *Recorder) map[string][]string {
	rec.mu.Lock()
	off := rec.Off
	rec.Off = true
	rec.mu.Unlock()
	defer func() { rec.mu.Lock(); rec.Off = off; rec.mu.Unlock() }()
	out := map[string][]string{}
	raw := db.Session(&gorm.Session{NewDB: true, SkipHooks: true, Context: db.Statement.Context})
	for _, t := range relTables {
		rows, err := raw.Raw("SELECT * FROM " + t + " ORDER BY 1, 2").Rows()
		if err != nil {
			out[t] = []string{"ERR " + err.Error()}
			continue
		}
		cols, _ := rows.Columns()
		list := []string{}
		for rows.Next() {
			vals := make([]interface{}, len(cols))
			ptrs := make([]interface{}, len(cols))
			for i := range vals {
				ptrs[i] = &vals[i]
			}
			_ = rows.Scan(ptrs...)
			s := ""
			for i, v := range vals {
				if b, ok := v.([]byte); ok {
					v = string(b)
				}
				s += fmt.Sprintf("%s=%v;", cols[i], v)
			}
			list = append(list, s)
		}
		rows.Close()
		out[t] = list
	}
	return out
}

// genUser builds a user record graph with random association values.
func genUser(rng *rand.Rand, tag string) *RUser {
	u := &RUser{Name: "u" + tag, Age: 20 + rng.Intn(30)}
	if rng.Intn(2) == 0 {
		u.Company = &RCompany{Name: "c" + tag}
	}
	if rng.Intn(2) == 0 {
		u.Profile = &RProfile{Bio: "bio" + tag}
	}
	for i, n := 0, rng.Intn(3); i < n; i++ {
		u.Pets = append(u.Pets, RPet{Name: fmt.Sprint("p", tag, i)})
	}
	for i, n := 0, rng.Intn(3); i < n; i++ {
		u.Langs = append(u.Langs, RLang{Code: fmt.Sprint("l", tag, i), Name: "lang"})
	}
	for i, n := 0, rng.Intn(2); i < n; i++ {
		u.Toys = append(u.Toys, RToy{Name: fmt.Sprint("t", tag, i)})
	}
	if rng.Intn(3) == 0 {
		u.Manager = &RUser{Name: "m" + tag}
	}
	return u
}

// RelOp = one operation family over the relation models, run from the given handle.
type RelOp struct {
	Name string
	Run  func(db *gorm.DB, rng *rand.Rand) error
}

func seedRel(db *gorm.DB, rng *rand.Rand, n int) {
	for i := 0; i < n; i++ {
		u := genUser(rng, fmt.Sprint("s", i))
		if err := db.Create(u).Error; err != nil {
			panic(err)
		}
	}
}

func relOps() []RelOp {
	return []RelOp{
		{"CreateGraph", func(db *gorm.DB, rng *rand.Rand) error { return db.Create(genUser(rng, "a")).Error }},
		{"CreateSliceGraph", func(db *gorm.DB, rng *rand.Rand) error {
			us := []*RUser{genUser(rng, "b"), genUser(rng, "c")}
			return db.Create(&us).Error
		}},
		{"CreateInBatches", func(db *gorm.DB, rng *rand.Rand) error {
			us := []RUser{*genUser(rng, "d"), *genUser(rng, "e"), *genUser(rng, "f")}
			return db.CreateInBatches(&us, 2).Error
		}},
		{"FindPreloadAll", func(db *gorm.DB, rng *rand.Rand) error {
			var us []RUser
			return db.Preload(clause.Associations).Find(&us).Error
		}},
		{"FindPreloadNested", func(db *gorm.DB, rng *rand.Rand) error {
			var us []RUser
			return db.Preload("Manager.Company").Preload("Pets", "name <> ?", "zz").Preload("Langs").Find(&us).Error
		}},
		{"JoinsCompany", func(db *gorm.DB, rng *rand.Rand) error {
			var us []RUser
			return db.Joins("Company").Joins("Manager").Find(&us).Error
		}},
		{"SaveGraph", func(db *gorm.DB, rng *rand.Rand) error {
			var u RUser
			if err := db.Preload(clause.Associations).First(&u).Error; err != nil {
				return err
			}
			u.Name += "x"
			u.Pets = append(u.Pets, RPet{Name: "newpet"})
			return db.Session(&gorm.Session{FullSaveAssociations: true}).Save(&u).Error
		}},
		{"UpdatesWithAssoc", func(db *gorm.DB, rng *rand.Rand) error {
			var u RUser
			if err := db.First(&u).Error; err != nil {
				return err
			}
			return db.Model(&u).Updates(RUser{Age: 77, Company: &RCompany{Name: "newco"}}).Error
		}},
		{"DeleteSelectAssoc", func(db *gorm.DB, rng *rand.Rand) error {
			var u RUser
			if err := db.Last(&u).Error; err != nil {
				return err
			}
			return db.Select("Pets", "Langs", "Profile").Delete(&u).Error
		}},
		{"AssocAppendReplace", func(db *gorm.DB, rng *rand.Rand) error {
			var u RUser
			if err := db.First(&u).Error; err != nil {
				return err
			}
			if err := db.Model(&u).Association("Pets").Append(&RPet{Name: "ap"}); err != nil {
				return err
			}
			if err := db.Model(&u).Association("Langs").Replace(&RLang{Code: "zz", Name: "z"}); err != nil {
				return err
			}
			_ = db.Model(&u).Association("Langs").Count()
			var pets []RPet
			return db.Model(&u).Association("Pets").Find(&pets)
		}},
		{"AssocDeleteClear", func(db *gorm.DB, rng *rand.Rand) error {
			var u RUser
			if err := db.Preload("Pets").First(&u).Error; err != nil {
				return err
			}
			if len(u.Pets) > 0 {
				if err := db.Model(&u).Association("Pets").Delete(&u.Pets[0]); err != nil {
					return err
				}
			}
			return db.Model(&u).Association("Toys").Clear()
		}},
		{"FindInBatches", func(db *gorm.DB, rng *rand.Rand) error {
			var us []RUser
			return db.Where("age > ?", 0).FindInBatches(&us, 2, func(tx *gorm.DB, b int) error { return nil }).Error
		}},
		{"FirstOrCreate", func(db *gorm.DB, rng *rand.Rand) error {
			var u RUser
			return db.Where(RUser{Name: fmt.Sprint("foc", rng.Intn(3))}).Attrs(RUser{Age: 5}).FirstOrCreate(&u).Error
		}},
		{"CountPluckRows", func(db *gorm.DB, rng *rand.Rand) error {
			var n int64
			if err := db.Model(&RUser{}).Count(&n).Error; err != nil {
				return err
			}
			var names []string
			if err := db.Model(&RUser{}).Pluck("name", &names).Error; err != nil {
				return err
			}
			rows, err := db.Model(&RUser{}).Rows()
			if err != nil {
				return err
			}
			return rows.Close()
		}},
		{"RawExec", func(db *gorm.DB, rng *rand.Rand) error {
			if err := db.Exec("UPDATE r_users SET age = age + ? WHERE id = ?", 1, 1).Error; err != nil {
				return err
			}
			var n int
			return db.Raw("SELECT COUNT(*) FROM r_users WHERE age > ?", 1).Scan(&n).Error
		}},
	}
}
