package main

// C09: an Update or Delete without any condition never executes.
//
// suites
//   guard  (correspondence + e2e, EXHAUSTIVE for the blocking side): every condition-free form in every slot
//          (Where/Not/Or/inline), sequences of one and two condition-free calls mixed with other condition-free chain
//          methods, × {Update, Updates(map), Updates(struct), UpdateColumn, UpdateColumns, Delete, Delete+inline}
//          × {plain, soft-delete} × AllowGlobalUpdate {off, config, session} × model key {zero, set} × Unscoped:
//          the real decision (ErrMissingWhereClause or not) vs the Lean model `missingWhere (guardState …)`, and the
//          property itself: rejected ⇒ no exec/query/prepare event, table unchanged, errors.Is(ErrMissingWhereClause)
//   admit  (e2e): chains that DO supply a condition are never rejected on this ground
//   reuse  (c08_reuse.go): call sequences on one statement — tie with the Lean statement machine + the guard after any history
//   witness (e2e): the three inputs of Lean's C09_empty_where_counterexample / C09_empty_where_repaired, literally — the per-run
//          probe of F26 (Clauses(clause.Where{}) as the only "condition"). The property is demanded as stated on every tree;
//          the unrepaired outcome is a KNOWN-FINDING only while known_findings.d/C09.json lists the entry as "finding".
//          The Lean side follows the regenerated fact Gen.guardRejectsEmptyWhere (driver op c09.facts; c09Facts()).

import (
	"encoding/json"
	"errors"
	"fmt"
	"math/rand"
	"strings"

	"gorm.io/gorm"
	"gorm.io/gorm/clause"
	"gorm.io/gorm/schema"
)

// a model with TWO soft-delete columns (only the first one's filter is added: the statement-wide marker stops the second)
type WSoft2 struct {
	ID         uint `gorm:"primaryKey"`
	A          *int
	B          *int
	S          *string
	DeletedAt  gorm.DeletedAt
	ArchivedAt gorm.DeletedAt
}

type c09Call struct {
	Desc  string
	Apply func(db *gorm.DB, soft bool) *gorm.DB
	// Lean mirror: a statement-machine op (["cond", slot, "empty"] / ["cw", []]), or nothing for a call that touches
	// neither the WHERE entry nor Unscoped
	Step []interface{}
	// EmptyWhere: the call installs a WHERE entry with ZERO expressions (listed finding F26 on plain / Unscoped statements)
	EmptyWhere bool
	// KeylessOnly: used on the blocking side only (with a preset SET entry Update skips ConvertToAssignments, which is also
	// what adds the Model value's key)
	KeylessOnly bool
}

func c09EmptyForms(soft bool) []struct {
	desc string
	q    func(db *gorm.DB) interface{}
} {
	type ef = struct {
		desc string
		q    func(db *gorm.DB) interface{}
	}
	zero := func(*gorm.DB) interface{} {
		if soft {
			return WSoft{}
		}
		return WPlain{}
	}
	zeroPtr := func(*gorm.DB) interface{} {
		if soft {
			return &WSoft{}
		}
		return &WPlain{}
	}
	return []ef{
		{`""`, func(*gorm.DB) interface{} { return "" }},
		{"map[string]interface{}{}", func(*gorm.DB) interface{} { return map[string]interface{}{} }},
		{"map[string]string{}", func(*gorm.DB) interface{} { return map[string]string{} }},
		{"zero struct", zero},
		{"&zero struct", zeroPtr},
		{"[]int{}", func(*gorm.DB) interface{} { return []int{} }},
		{"nil", func(*gorm.DB) interface{} { return nil }},
		{"group without conditions", func(db *gorm.DB) interface{} { return freshHandle(db) }},
		{"group of empty forms", func(db *gorm.DB) interface{} { return freshHandle(db).Where("").Or(map[string]interface{}{}) }},
	}
}

func c09Calls(soft bool) []c09Call {
	var out []c09Call
	for _, f := range c09EmptyForms(soft) {
		f := f
		for _, slot := range []string{"where", "not", "or"} {
			slot := slot
			out = append(out, c09Call{
				Desc: slot + "(" + f.desc + ")",
				Step: []interface{}{"cond", slot, "empty"},
				Apply: func(db *gorm.DB, _ bool) *gorm.DB {
					q := f.q(db)
					switch slot {
					case "where":
						return db.Where(q)
					case "not":
						return db.Not(q)
					}
					return db.Or(q)
				}})
		}
	}
	other := []c09Call{
		{Desc: "Order(id)", Apply: func(db *gorm.DB, _ bool) *gorm.DB { return db.Order("id") }},
		{Desc: "Limit(3)", Apply: func(db *gorm.DB, _ bool) *gorm.DB { return db.Limit(3) }},
		{Desc: "Select(b)", Apply: func(db *gorm.DB, _ bool) *gorm.DB { return db.Select("b") }},
		{Desc: "Omit(s)", Apply: func(db *gorm.DB, _ bool) *gorm.DB { return db.Omit("s") }},
		{Desc: "Scopes(no condition)", Apply: func(db *gorm.DB, _ bool) *gorm.DB {
			return db.Scopes(func(d *gorm.DB) *gorm.DB { return d.Order("id") })
		}},
		{Desc: "Session{}", Apply: func(db *gorm.DB, _ bool) *gorm.DB { return db.Session(&gorm.Session{}) }},
		// extra clauses on a write: none of them is a condition, none may let the write through
		{Desc: "Clauses(Returning{})", Apply: func(db *gorm.DB, _ bool) *gorm.DB { return db.Clauses(clause.Returning{}) }},
		{Desc: "Clauses(Returning{id})", Apply: func(db *gorm.DB, _ bool) *gorm.DB {
			return db.Clauses(clause.Returning{Columns: []clause.Column{{Name: "id"}}})
		}},
		{Desc: "Clauses(OnConflict{DoNothing})", Apply: func(db *gorm.DB, _ bool) *gorm.DB { return db.Clauses(clause.OnConflict{DoNothing: true}) }},
		{Desc: "Clauses(OnConflict{Where})", Apply: func(db *gorm.DB, _ bool) *gorm.DB {
			return db.Clauses(clause.OnConflict{Columns: []clause.Column{{Name: "id"}}, UpdateAll: true,
				Where: clause.Where{Exprs: []clause.Expression{clause.Eq{Column: "id", Value: 2}}}})
		}},
		{Desc: "Clauses(Locking{UPDATE})", Apply: func(db *gorm.DB, _ bool) *gorm.DB { return db.Clauses(clause.Locking{Strength: "UPDATE"}) }},
		{Desc: "Clauses(From{})", Apply: func(db *gorm.DB, _ bool) *gorm.DB { return db.Clauses(clause.From{}) }},
		{Desc: "Clauses(Limit{1})", Apply: func(db *gorm.DB, _ bool) *gorm.DB { l := 1; return db.Clauses(clause.Limit{Limit: &l}) }},
		{Desc: "Clauses(OrderBy{id})", Apply: func(db *gorm.DB, _ bool) *gorm.DB {
			return db.Clauses(clause.OrderBy{Columns: []clause.OrderByColumn{{Column: clause.Column{Name: "id"}}}})
		}},
		{Desc: "Clauses(GroupBy{Having})", Apply: func(db *gorm.DB, _ bool) *gorm.DB {
			return db.Clauses(clause.GroupBy{Columns: []clause.Column{{Name: "a"}}, Having: []clause.Expression{clause.Eq{Column: "id", Value: 2}}})
		}},
		{Desc: "Having(id = 2)", Apply: func(db *gorm.DB, _ bool) *gorm.DB { return db.Having("id = ?", 2) }},
		{Desc: "Group(a)", Apply: func(db *gorm.DB, _ bool) *gorm.DB { return db.Group("a") }},
		{Desc: "Joins(raw)", Apply: func(db *gorm.DB, _ bool) *gorm.DB { return db.Joins("JOIN w_plains p ON p.id = 2") }},
		{Desc: "Select(*)", Apply: func(db *gorm.DB, _ bool) *gorm.DB { return db.Select("*") }},
		{Desc: "Distinct()", Apply: func(db *gorm.DB, _ bool) *gorm.DB { return db.Distinct() }},
		{Desc: "Offset(1)", Apply: func(db *gorm.DB, _ bool) *gorm.DB { return db.Offset(1) }},
		{Desc: "Table(name)", Apply: func(db *gorm.DB, soft bool) *gorm.DB { return db.Table(c09Table(soft)) }},
		{Desc: "Attrs(b=1)", Apply: func(db *gorm.DB, _ bool) *gorm.DB { return db.Attrs(map[string]interface{}{"b": 1}) }},
		{Desc: "Clauses(Update{Modifier})", Apply: func(db *gorm.DB, _ bool) *gorm.DB { return db.Clauses(clause.Update{Modifier: "OR IGNORE"}) }},
		{Desc: "Clauses(Set{a=1})", KeylessOnly: true, Apply: func(db *gorm.DB, _ bool) *gorm.DB {
			return db.Clauses(clause.Set{{Column: clause.Column{Name: "a"}, Value: 1}})
		}},
		{Desc: "Clauses(Where{})", EmptyWhere: true, Step: []interface{}{"cw", []interface{}{}},
			Apply: func(db *gorm.DB, _ bool) *gorm.DB { return db.Clauses(clause.Where{}) }},
		{Desc: "Clauses(Where{Exprs: empty slice})", EmptyWhere: true, Step: []interface{}{"cw", []interface{}{}},
			Apply: func(db *gorm.DB, _ bool) *gorm.DB { return db.Clauses(clause.Where{Exprs: []clause.Expression{}}) }},
	}
	return append(out, other...)
}

type c09Fin struct {
	Name string
	Run  func(db *gorm.DB, soft bool, key int) *gorm.DB
	// KEY PLACEMENT (round 3).  Where the primary key of "the model value" is handed over: through Model(..), through the
	// value given to the finisher, through both (two distinct values), through one value used for both (Dest == Model),
	// as the finisher's inline condition, or in a slice.  Placement finishers are enumerated with a non-zero key only (with
	// a zero key they coincide with the plain ones).  Place tells the Lean statement machine which of
	// callbacks/update.go ConvertToAssignments / callbacks/delete.go Delete / soft_delete.go SoftDeleteDeleteClause
	// key blocks is concerned:  "" (Update: Model key; Delete: value key) | model | both | same | inline | value
	KeyedOnly bool
	Place     string
}

// c09Value: a record of the case's model type with key and (optionally) the new B
func c09Value(soft bool, key int, b *int) interface{} {
	if c09Kind == 2 {
		return &WSoft2{ID: uint(key), B: b}
	}
	if soft {
		return &WSoft{ID: uint(key), B: b}
	}
	return &WPlain{ID: uint(key), B: b}
}

// c09KeyedSlice: a slice model value carrying keys — in every record ("all"), in the last record only ("last"), in the
// first record only ("first").
// LATITUDE: callbacks/update.go ConvertToAssignments lets the LAST record decide whether the slice's keys become a
// condition (`Model(&[]T{{ID: 3}, {}}).Update(..)` is rejected although a record carries a key, the reversed slice is
// not); the property does not say which records of a mixed slice count, so "first" is used for Delete only (whose key
// collection skips key-less records) and the mixed-slice Update is not judged.
func c09KeyedSlice(soft bool, key int, variant string) interface{} {
	k1, k2 := uint(key), uint(key+1)
	switch variant {
	case "last":
		k1, k2 = 0, uint(key)
	case "first":
		k2 = 0
	}
	if c09Kind == 2 {
		return &[]WSoft2{{ID: k1}, {ID: k2}}
	}
	if soft {
		return &[]WSoft{{ID: k1}, {ID: k2}}
	}
	return &[]WPlain{{ID: k1}, {ID: k2}}
}

// c09Kind: the table used by a case — 0 plain, 1 soft-delete, 2 two soft-delete columns
var c09Kind = 0

func c09Model(soft bool, key int) interface{} {
	if c09Kind == 2 {
		return &WSoft2{ID: uint(key)}
	}
	if soft {
		return &WSoft{ID: uint(key)}
	}
	return &WPlain{ID: uint(key)}
}

// c09SliceModel: a non-empty slice of records WITHOUT primary keys (a model value without primary key)
func c09SliceModel(soft bool) interface{} {
	if c09Kind == 2 {
		return &[]WSoft2{{}, {}}
	}
	if soft {
		return &[]WSoft{{}, {}}
	}
	return &[]WPlain{{}, {}}
}

func c09Table(soft bool) string {
	if c09Kind == 2 {
		return schema.NamingStrategy{}.TableName("WSoft2")
	}
	return tableOf(soft)
}

func c09Finishers() []c09Fin {
	return []c09Fin{
		{Name: "Update", Run: func(db *gorm.DB, soft bool, key int) *gorm.DB { return db.Model(c09Model(soft, key)).Update("b", 91) }},
		{Name: "Updates(map)", Run: func(db *gorm.DB, soft bool, key int) *gorm.DB {
			return db.Model(c09Model(soft, key)).Updates(map[string]interface{}{"b": 91})
		}},
		{Name: "Updates(struct)", Run: func(db *gorm.DB, soft bool, key int) *gorm.DB {
			v := 91
			if soft {
				return db.Model(c09Model(soft, key)).Updates(WSoft{B: &v})
			}
			return db.Model(c09Model(soft, key)).Updates(WPlain{B: &v})
		}},
		{Name: "UpdateColumn", Run: func(db *gorm.DB, soft bool, key int) *gorm.DB {
			return db.Model(c09Model(soft, key)).UpdateColumn("b", 91)
		}},
		{Name: "UpdateColumns", Run: func(db *gorm.DB, soft bool, key int) *gorm.DB {
			return db.Model(c09Model(soft, key)).UpdateColumns(map[string]interface{}{"b": 91})
		}},
		{Name: "Delete", Run: func(db *gorm.DB, soft bool, key int) *gorm.DB { return db.Delete(c09Model(soft, key)) }},
		{Name: "Delete(inline empty)", Run: func(db *gorm.DB, soft bool, key int) *gorm.DB {
			return db.Delete(c09Model(soft, key), map[string]interface{}{})
		}},
		// model values that are slices of key-less records (only meaningful with key == 0)
		{Name: "Update(slice model)", Run: func(db *gorm.DB, soft bool, key int) *gorm.DB {
			if key != 0 {
				return db.Model(c09Model(soft, key)).Update("b", 91)
			}
			return db.Model(c09SliceModel(soft)).Update("b", 91)
		}},
		{Name: "UpdateColumns(slice model)", Run: func(db *gorm.DB, soft bool, key int) *gorm.DB {
			if key != 0 {
				return db.Model(c09Model(soft, key)).UpdateColumns(map[string]interface{}{"b": 91})
			}
			return db.Model(c09SliceModel(soft)).UpdateColumns(map[string]interface{}{"b": 91})
		}},
		{Name: "Delete(slice)", Run: func(db *gorm.DB, soft bool, key int) *gorm.DB {
			if key != 0 {
				return db.Delete(c09Model(soft, key))
			}
			return db.Delete(c09SliceModel(soft))
		}},
		// ---- key placements (non-zero key): "a chain that does supply a condition is never rejected"
		{Name: "Model(&keyed).Delete(&T{})", KeyedOnly: true, Place: "model", Run: func(db *gorm.DB, soft bool, key int) *gorm.DB {
			return db.Model(c09Model(soft, key)).Delete(c09Model(soft, 0))
		}},
		{Name: "Model(&keyed).Delete(&otherKeyed)", KeyedOnly: true, Place: "both", Run: func(db *gorm.DB, soft bool, key int) *gorm.DB {
			return db.Model(c09Model(soft, key)).Delete(c09Model(soft, key))
		}},
		{Name: "Model(m).Delete(m)", KeyedOnly: true, Place: "same", Run: func(db *gorm.DB, soft bool, key int) *gorm.DB {
			m := c09Model(soft, key)
			return db.Model(m).Delete(m)
		}},
		{Name: "Delete(&T{}, key)", KeyedOnly: true, Place: "inline", Run: func(db *gorm.DB, soft bool, key int) *gorm.DB {
			return db.Delete(c09Model(soft, 0), key)
		}},
		{Name: "Delete(&T{}, []int{key})", KeyedOnly: true, Place: "inline", Run: func(db *gorm.DB, soft bool, key int) *gorm.DB {
			return db.Delete(c09Model(soft, 0), []int{key})
		}},
		{Name: "Model(&T{}).Delete(&keyed)", KeyedOnly: true, Place: "", Run: func(db *gorm.DB, soft bool, key int) *gorm.DB {
			return db.Model(c09Model(soft, 0)).Delete(c09Model(soft, key))
		}},
		{Name: "Delete(&[]T{{keyed},{}})", KeyedOnly: true, Place: "", Run: func(db *gorm.DB, soft bool, key int) *gorm.DB {
			return db.Delete(c09KeyedSlice(soft, key, "first"))
		}},
		{Name: "Delete(&[]T{{},{keyed}})", KeyedOnly: true, Place: "", Run: func(db *gorm.DB, soft bool, key int) *gorm.DB {
			return db.Delete(c09KeyedSlice(soft, key, "last"))
		}},
		{Name: "Model(&keyed).Delete(&[]T{{},{}})", KeyedOnly: true, Place: "model", Run: func(db *gorm.DB, soft bool, key int) *gorm.DB {
			return db.Model(c09Model(soft, key)).Delete(c09SliceModel(soft))
		}},
		{Name: "Updates(&keyedValue) without Model", KeyedOnly: true, Place: "value", Run: func(db *gorm.DB, soft bool, key int) *gorm.DB {
			v := 91
			return db.Updates(c09Value(soft, key, &v))
		}},
		{Name: "Model(&keyed).Updates(&otherKeyed)", KeyedOnly: true, Place: "", Run: func(db *gorm.DB, soft bool, key int) *gorm.DB {
			v := 91
			return db.Model(c09Model(soft, key)).Updates(c09Value(soft, key, &v))
		}},
		{Name: "Model(&[]T{{keyed},{keyed}}).Update", KeyedOnly: true, Place: "", Run: func(db *gorm.DB, soft bool, key int) *gorm.DB {
			return db.Model(c09KeyedSlice(soft, key, "all")).Update("b", 91)
		}},
		{Name: "Model(&[]T{{},{keyed}}).UpdateColumn", KeyedOnly: true, Place: "", Run: func(db *gorm.DB, soft bool, key int) *gorm.DB {
			return db.Model(c09KeyedSlice(soft, key, "last")).UpdateColumn("b", 91)
		}},
	}
}

func (f c09Fin) isDelete() bool { return strings.Contains(f.Name, "Delete") }

type c09Case struct {
	Kind     int      `json:"model_kind"` // 0 plain, 1 soft-delete, 2 two soft-delete columns
	Pre      string   `json:"earlier_finisher_on_same_statement,omitempty"`
	Soft     bool     `json:"soft"`
	Allow    string   `json:"allow_global_update"` // off | config | session
	Key      int      `json:"model_key"`
	Unscoped bool     `json:"unscoped"`
	Calls    []string `json:"calls"`
	Fin      string   `json:"finisher"`
	// transaction mode: "" (implicit transaction) | skip-session | skip-config (SkipDefaultTransaction) | begin (explicit
	// Begin … Commit) | transaction (inside db.Transaction(func) that commits) | prepare (PrepareStmt session)
	Mode string `json:"tx_mode,omitempty"`
}

var c09Modes = append([]string{"", "", "", "skip-session", "skip-config", "begin", "transaction", "prepare"}, c09ExtraModes...)

func tableDump(db *gorm.DB, soft bool) string { return tableDumpOf(db, tableOf(soft)) }

func tableDumpOf(db *gorm.DB, table string) string {
	cols := "id||'|'||ifnull(a,'N')||'|'||ifnull(b,'N')||'|'||ifnull(s,'N')"
	if table != "w_plains" {
		cols += "||'|'||ifnull(deleted_at,'N')"
	}
	if table != "w_plains" && table != "w_softs" {
		cols += "||'|'||ifnull(archived_at,'N')"
	}
	var out *string
	db.Session(&gorm.Session{NewDB: true}).Raw("SELECT group_concat(x, ';') FROM (SELECT " + cols + " AS x FROM " + table + " ORDER BY id)").Scan(&out)
	if out == nil {
		return ""
	}
	return *out
}

func isExecEvent(e Event) bool {
	switch e.Kind {
	case "exec", "query", "prepare", "stmt_exec", "stmt_query":
		return true
	}
	return false
}

// c09Run executes one case inside a transaction that is rolled back; returns the error, the statement events and
// whether the table changed
func c09Run(db *gorm.DB, rec *Recorder, c c09Case, calls []c09Call, fin c09Fin) (err error, events []Event, changed bool) {
	base := c09ConfigHandle(db, c.Mode) // config-level modes (Config.DryRun / Config.PrepareStmt): a sibling handle on the same database
	sess := &gorm.Session{AllowGlobalUpdate: c.Allow == "session", SkipDefaultTransaction: c.Mode == "skip-session", PrepareStmt: c.Mode == "prepare"}
	c09ModeSession(c.Mode, sess)
	base = base.Session(sess)
	c09Kind = c.Kind
	before := tableDumpOf(db, c09Table(c.Soft))
	h := base
	if c.Pre != "" {
		// an earlier condition-free finisher on the SAME statement (a handle with clone = 0 keeps its statement)
		h = h.Model(c09Model(c.Soft, 0))
		var n int64
		switch c.Pre {
		case "count":
			h.Count(&n)
		case "pluck":
			var ids []int
			h.Pluck("id", &ids)
		}
	}
	rec.Reset()
	body := func(h *gorm.DB) *gorm.DB {
		if c.Unscoped {
			h = h.Unscoped()
		}
		for _, cl := range calls {
			h = cl.Apply(h, c.Soft)
		}
		return fin.Run(h, c.Soft, c.Key)
	}
	var res *gorm.DB
	switch c.Mode {
	case "begin":
		// the owner of the transaction does not abort on the error and commits
		tx := h.Begin()
		res = body(tx)
		tx.Commit()
	case "transaction":
		h.Transaction(func(tx *gorm.DB) error {
			res = body(tx)
			return nil
		})
	default:
		var ok bool
		if res, ok = c09ModeRun(c.Mode, h, body); !ok {
			res = body(h)
		}
	}
	events = rec.Snapshot()
	after := tableDumpOf(db, c09Table(c.Soft))
	return res.Error, events, before != after
}

// c09Witness: the three inputs of the Lean theorem C09_empty_where_counterexample / C09_empty_where_repaired, literally
// (known_findings.d/C09.json F26 gives the first one as its witness)
type c09Witness struct {
	Chain string `json:"chain"`
}

var c09Witnesses = []c09Witness{
	{"db.Model(&WPlain{}).Clauses(clause.Where{}).Update(\"b\", 5)"},
	{"db.Clauses(clause.Where{}).Delete(&WPlain{})"},
	{"db.Unscoped().Clauses(clause.Where{}).Delete(&WSoft{})"},
}

// c09ProbeWitness: the per-run probe of F26's witnesses on the real code. What is demanded is the property itself —
// ErrMissingWhereClause, nothing sent, table unchanged — on every tree; while the entry is LISTED the known outcome of the
// unrepaired guard (statement sent, refused by the database, no row changed) is reported as the known finding.
func c09ProbeWitness(r *Result, w c09Witness) {
	soft := strings.Contains(w.Chain, "WSoft")
	rows := genRows(rand.New(rand.NewSource(7)), 6, soft)
	db, rec, sqlDB := openW(rows, soft, nil)
	defer sqlDB.Close()
	before := tableDumpOf(db, tableOf(soft))
	rec.Reset()
	var res *gorm.DB
	switch w.Chain {
	case c09Witnesses[0].Chain:
		res = db.Model(&WPlain{}).Clauses(clause.Where{}).Update("b", 5)
	case c09Witnesses[1].Chain:
		res = db.Clauses(clause.Where{}).Delete(&WPlain{})
	case c09Witnesses[2].Chain:
		res = db.Unscoped().Clauses(clause.Where{}).Delete(&WSoft{})
	default:
		return
	}
	nExec := 0
	for _, e := range rec.Snapshot() {
		if isExecEvent(e) {
			nExec++
		}
	}
	errText := ""
	if res.Error != nil {
		errText = res.Error.Error()
	}
	changed := tableDumpOf(db, tableOf(soft)) != before
	r.Case("witness", w.Chain, true)
	c09JudgeEmptyWhere(r, "witness", w, errors.Is(res.Error, gorm.ErrMissingWhereClause), errText, nExec, changed)
}

func init() {
	replayers["C09/witness"] = func(r *Result, input json.RawMessage) {
		var w c09Witness
		if json.Unmarshal(input, &w) == nil {
			c09ProbeWitness(r, w)
		}
	}
	register("C09", func(r *Result, rng *rand.Rand, tier string) {
		rows := genRows(rand.New(rand.NewSource(7)), 6, false)
		fins := c09Finishers()
		type world struct {
			db  *gorm.DB
			rec *Recorder
		}
		worlds := map[string]world{}
		seed2 := func(db *gorm.DB) {
			if err := db.AutoMigrate(&WSoft2{}); err != nil {
				panic(err)
			}
			for _, x := range genRows(rand.New(rand.NewSource(7)), 6, true) {
				rec := WSoft2{ID: uint(x.ID), A: x.A, B: x.B, S: x.S}
				if x.Deleted {
					rec.DeletedAt = gorm.DeletedAt{Time: fixedNow.Add(-3600e9), Valid: true}
				}
				db.Create(&rec)
			}
		}
		open := func(kind int, cfgAllow bool, skipTx bool) world {
			k := fmt.Sprint(kind, cfgAllow, skipTx)
			if w, ok := worlds[k]; ok {
				return w
			}
			rr := rows
			if kind >= 1 {
				rr = genRows(rand.New(rand.NewSource(7)), 6, true)
			}
			db, rec, _ := openW(rr, kind >= 1, &gorm.Config{AllowGlobalUpdate: cfgAllow, SkipDefaultTransaction: skipTx})
			if kind == 2 {
				seed2(db)
				rec.Reset()
			}
			worlds[k] = world{db, rec}
			return worlds[k]
		}
		var ops [][]interface{}
		type pending struct {
			c        c09Case
			rejected bool
		}
		var pend []pending
		flush := func() {
			if len(ops) == 0 {
				return
			}
			res, err := AskLean(ops)
			if err != nil {
				r.Violate(Violation{Kind: "correspondence", Suite: "guard", Note: err.Error()})
			} else {
				for i, p := range pend {
					var missing bool
					var states []struct {
						Rejected bool `json:"rejected"`
					}
					if json.Unmarshal(res[i], &states) == nil && len(states) > 0 {
						missing = states[len(states)-1].Rejected
					} else {
						r.Violate(Violation{Kind: "correspondence", Suite: "guard", Input: p.c, Observed: string(res[i]), Note: "model rejected the input"})
						continue
					}
					r.CorrCompared++
					if missing != p.rejected {
						r.Violate(Violation{Kind: "correspondence", Suite: "guard", Input: p.c, Observed: p.rejected, Expected: missing,
							Note: "real decision (ErrMissingWhereClause?) differs from the Lean statement machine (finRejected (stmtRun …))"})
					}
				}
			}
			ops, pend = nil, nil
		}
		restore := func(w world, kind int, before string) {
			soft := kind >= 1
			c09Kind = kind
			if tableDumpOf(w.db, c09Table(soft)) != before {
				// an executed global update/delete (AllowGlobalUpdate or a keyed row): re-seed
				if kind == 2 {
					w.db.Session(&gorm.Session{AllowGlobalUpdate: true}).Unscoped().Delete(&WSoft2{})
					seed2(w.db)
					return
				}
				w.db.Session(&gorm.Session{AllowGlobalUpdate: true}).Unscoped().Delete(modelOf(soft))
				rr := genRows(rand.New(rand.NewSource(7)), 6, soft)
				seedRows(w.db, rr, soft)
			}
		}
		one := func(kind int, pre string, allow string, key int, unscoped bool, calls []c09Call, fin c09Fin) {
			soft := kind >= 1
			mode := c09Modes[rng.Intn(len(c09Modes))]
			w := open(kind, allow == "config", mode == "skip-config")
			c09Kind = kind
			c := c09Case{Kind: kind, Pre: pre, Soft: soft, Allow: allow, Key: key, Unscoped: unscoped, Fin: fin.Name, Mode: mode}
			var steps []interface{}
			emptyWhere := false
			if pre != "" {
				steps = append(steps, []interface{}{"fin", pre, []interface{}{}, false})
			}
			if unscoped {
				steps = append(steps, []interface{}{"unscoped"})
			}
			for _, cl := range calls {
				if cl.KeylessOnly && key != 0 {
					return
				}
				c.Calls = append(c.Calls, cl.Desc)
				emptyWhere = emptyWhere || cl.EmptyWhere
				if cl.Step != nil {
					steps = append(steps, cl.Step)
				}
			}
			before := tableDumpOf(w.db, c09Table(soft))
			err, events, changed := c09Run(w.db, w.rec, c, calls, fin)
			rejected := errors.Is(err, gorm.ErrMissingWhereClause)
			nExec := c09StmtEvents(events)
			r.Case("guard", fmt.Sprint(c), true)
			r.H("guard.finisher", fin.Name)
			r.H("guard.txmode", "mode="+mode)
			r.H("guard.decision", fmt.Sprintf("kind=%d pre=%q allow=%s key=%v unscoped=%v -> rejected=%v", kind, pre, allow, key != 0, unscoped, rejected))
			// ---- the property
			if allow == "off" && key == 0 && emptyWhere {
				// the chain's only "condition" is an empty clause.Where{}: see c09JudgeEmptyWhere (listed finding F26)
				c09JudgeEmptyWhere(r, "guard", c, rejected, fmt.Sprint(err), nExec, changed)
			} else if allow == "off" && key == 0 {
				// blocking side: must be rejected, nothing sent, nothing changed
				if !rejected || nExec != 0 || changed {
					r.Violate(Violation{Kind: "e2e", Suite: "guard", Input: c,
						Observed: map[string]interface{}{"error": fmt.Sprint(err), "statements_sent": nExec, "table_changed": changed, "events": evKinds(events)},
						Expected: "ErrMissingWhereClause, no exec/query/prepare event, table unchanged"})
				}
			} else if key != 0 && rejected {
				// a model value with a primary key supplies a condition: never rejected on this ground
				r.Violate(Violation{Kind: "e2e", Suite: "guard", Input: c, Observed: fmt.Sprint(err), Expected: "not ErrMissingWhereClause (the model value has a primary key)"})
			}
			if rejected && (nExec != 0 || changed) {
				r.Violate(Violation{Kind: "e2e", Suite: "guard", Input: c,
					Observed: map[string]interface{}{"statements_sent": nExec, "table_changed": changed}, Expected: "a rejected operation executes no statement"})
			}
			restore(w, kind, before)
			// ---- the tie: the Lean statement machine on [earlier finisher, Unscoped, calls…, the write finisher]
			var softJ interface{}
			if soft {
				softJ = map[string]interface{}{"col": "`w_softs`.`deleted_at`", "kind": "eq", "val": "nil", "id": 0}
			}
			keyJ := []interface{}{}
			if key != 0 {
				keyJ = append(keyJ, map[string]interface{}{"col": "`id`", "kind": "eq", "val": "scalar", "id": 1})
			}
			none := []interface{}{}
			if fin.isDelete() {
				switch fin.Place {
				case "model": // Model(&keyed).Delete(&T{}): only the `Dest != Model` block supplies the key
					steps = append(steps, []interface{}{"fin", "delete", none, false})
					ops = append(ops, []interface{}{"stmt.run", softJ, keyJ, allow != "off", steps})
				case "both":
					steps = append(steps, []interface{}{"fin", "delete", keyJ, false})
					ops = append(ops, []interface{}{"stmt.run", softJ, keyJ, allow != "off", steps})
				case "same":
					steps = append(steps, []interface{}{"fin", "delete", keyJ, true})
					ops = append(ops, []interface{}{"stmt.run", softJ, keyJ, allow != "off", steps})
				case "inline": // the key is an inline condition: one more Where call, the values are key-less
					if key != 0 {
						steps = append(steps, []interface{}{"cond", "where", map[string]interface{}{"col": map[string]interface{}{"col": "`id`", "kind": "in", "val": 1, "id": 1}}})
					}
					steps = append(steps, []interface{}{"fin", "delete", none, false})
					ops = append(ops, []interface{}{"stmt.run", softJ, none, allow != "off", steps})
				default:
					// the deleted value's key; the statement's Model (if any) is key-less
					steps = append(steps, []interface{}{"fin", "delete", keyJ, false})
					ops = append(ops, []interface{}{"stmt.run", softJ, none, allow != "off", steps})
				}
			} else if fin.Place == "value" {
				// Updates(&keyed) without Model: the updating value IS the statement's Model (Dest == Model), its key counts
				steps = append(steps, []interface{}{"fin", "update", keyJ, true})
				ops = append(ops, []interface{}{"stmt.run", softJ, keyJ, allow != "off", steps})
			} else {
				steps = append(steps, []interface{}{"fin", "update", none, false})
				ops = append(ops, []interface{}{"stmt.run", softJ, keyJ, allow != "off", steps})
			}
			pend = append(pend, pending{c, rejected})
			if len(ops) >= 3000 {
				flush()
			}
		}
		for _, kind := range []int{0, 1, 2} {
			calls := c09Calls(kind >= 1)
			for _, pre := range []string{"", "count", "pluck"} {
				for _, allow := range []string{"off", "config", "session"} {
					for _, key := range []int{0, 3} {
						if pre != "" && (key != 0 || allow != "off") {
							continue // statement reuse is explored on the blocking side
						}
						for _, unscoped := range []bool{false, true} {
							for _, fin := range fins {
								if fin.KeyedOnly && key == 0 {
									continue
								}
								// no call at all, every single call
								one(kind, pre, allow, key, unscoped, nil, fin)
								for _, a := range calls {
									if pre != "" && a.Step == nil && rng.Intn(3) != 0 {
										continue
									}
									if key != 0 && allow != "off" && rng.Intn(4) != 0 {
										continue // keyed AND AllowGlobalUpdate: nothing can be rejected — a sample
									}
									one(kind, pre, allow, key, unscoped, []c09Call{a}, fin)
								}
								// pairs: all of them in the thorough tier (first-use statements), a seeded sample otherwise
								for _, a := range calls {
									for _, b := range calls {
										if tier != "thorough" && rng.Intn(330) != 0 || tier == "thorough" && rng.Intn(2) != 0 || pre != "" && rng.Intn(4) != 0 {
											continue
										}
										if tier == "thorough" && key != 0 && rng.Intn(4) != 0 {
											continue // keyed side (27 finishers with the key placements): an eighth of the pairs
										}
										one(kind, pre, allow, key, unscoped, []c09Call{a, b}, fin)
									}
								}
								if expired() {
									flush()
									return
								}
							}
						}
					}
				}
			}
		}
		flush()
		r.Exhaustive = true
		r.Note("blocking side enumerated exhaustively: %d condition-free calls (9 empty forms x Where/Not/Or + 28 other chain methods and extra clauses), "+
			"none/one call and pairs (half of the pairs in thorough, 1/330 sample in quick) x 10 finishers (struct and slice model values) x plain/soft-delete/two-soft-delete-columns x "+
			"first use or reuse of the statement after Count/Pluck x AllowGlobalUpdate off/config/session x key zero/set x Unscoped; the transaction mode "+
			"(implicit / SkipDefaultTransaction session+config / Begin..Commit / Transaction / PrepareStmt) is drawn per case", len(c09Calls(false)))
	})

	// admitting side: a chain that supplies a condition is never rejected with ErrMissingWhereClause
	register("C09", func(r *Result, rng *rand.Rand, tier string) {
		n := map[string]int{"quick": 250, "thorough": 8000, "search": 1500}[tier]
		fins := c09Finishers()
		for i := 0; i < n && !expired(); i++ {
			soft := rng.Intn(2) == 0
			w := newWorld()
			rows := genRows(rng, 6, soft)
			ch := genChainN(rng, w, 1, 1+rng.Intn(3), chainGenCfg{exGenCfg: exGenCfg{table: tableOf(soft)}, soft: soft, allowEmpty: true, leadingOr: true})
			if !ch.hasCond() {
				continue
			}
			db, rec, sqlDB := openW(rows, soft, nil)
			fin := fins[rng.Intn(len(fins))]
			rec.Reset()
			res := fin.Run(ch.apply(db.Session(&gorm.Session{})), soft, 0)
			r.Case("admit", fmt.Sprint(ch.desc(), fin.Name), true)
			r.H("admit.finisher", fin.Name)
			if errors.Is(res.Error, gorm.ErrMissingWhereClause) {
				r.Violate(Violation{Kind: "e2e", Suite: "admit", Input: map[string]interface{}{"soft": soft, "chain": ch.desc(), "finisher": fin.Name},
					Observed: res.Error.Error(), Expected: "a chain that supplies a condition is never rejected for a missing WHERE"})
			}
			sqlDB.Close()
		}
	})

	replayers["C09/guard"] = func(r *Result, input json.RawMessage) {
		var c c09Case
		if json.Unmarshal(input, &c) != nil {
			return
		}
		rr := genRows(rand.New(rand.NewSource(7)), 6, c.Soft)
		db, rec, sqlDB := openW(rr, c.Soft, &gorm.Config{AllowGlobalUpdate: c.Allow == "config", SkipDefaultTransaction: c.Mode == "skip-config"})
		defer sqlDB.Close()
		if c.Kind == 2 {
			db.AutoMigrate(&WSoft2{})
			for _, x := range rr {
				db.Create(&WSoft2{ID: uint(x.ID), A: x.A, B: x.B, S: x.S})
			}
		}
		var calls []c09Call
		all := c09Calls(c.Soft)
		for _, d := range c.Calls {
			for _, cl := range all {
				if cl.Desc == d {
					calls = append(calls, cl)
				}
			}
		}
		var fin c09Fin
		for _, f := range c09Finishers() {
			if f.Name == c.Fin {
				fin = f
			}
		}
		if fin.Run == nil {
			return
		}
		err, events, changed := c09Run(db, rec, c, calls, fin)
		nExec := c09StmtEvents(events)
		rejected := errors.Is(err, gorm.ErrMissingWhereClause)
		for _, cl := range calls {
			if cl.EmptyWhere && c.Allow == "off" && c.Key == 0 {
				c09JudgeEmptyWhere(r, "guard", c, rejected, fmt.Sprint(err), nExec, changed)
				return
			}
		}
		if c.Allow == "off" && c.Key == 0 && (!rejected || nExec != 0 || changed) || rejected && (nExec != 0 || changed) || c.Key != 0 && rejected {
			r.Violate(Violation{Kind: "e2e", Suite: "guard", Input: c, Observed: map[string]interface{}{"error": fmt.Sprint(err), "statements_sent": nExec, "table_changed": changed}})
		}
	}
}
