package main

// C08 / C09 / C02 — STATEMENT REUSE: several calls in a row on ONE statement (a chain kept in a variable, or the handle a
// finisher returned): condition calls, Clauses(clause.Where{…}), Unscoped(), read and write finishers in every order.
//
// suite `reuse`
//   correspondence  after EVERY call the real `Statement.Clauses` (WHERE expression count, the soft_delete_enabled marker,
//                   the other keys), `Statement.Unscoped`, the guard's decision and the WHERE text that reached the driver
//                   are compared with the Lean statement machine `stmtRun` (Model/Where.lean) — the tie of the theorems
//                   C08_marker_implies_filter / C09_blocks_reuse_partial / C09_admits_reuse
//   e2e (C08)       DIFFERENTIAL: the same calls on a twin database in which the soft-deleted rows are physically absent —
//                   "behaves as if the marked rows did not exist" literally: same ids returned, same counts, same plucked
//                   values, same RowsAffected, same live rows afterwards, and the marked rows untouched; judged for every
//                   finisher issued before the first Unscoped()
//   e2e (C09)       a write finisher on a statement that was never given a condition (and whose values carry no key) is
//                   rejected with ErrMissingWhereClause, NOTHING reaches the driver during that call, the table is
//                   unchanged — under every transaction mode; once a condition was supplied no write is rejected on
//                   that ground

import (
	"encoding/json"
	"errors"
	"fmt"
	"math/rand"
	"sort"
	"strings"

	"gorm.io/gorm"
	"gorm.io/gorm/clause"
)

type c08SeqOp struct {
	Kind string // cond cw unscoped session fin
	Op   string // where not or
	form *wForm
	cw   []*wAtom
	Fin  string
	VKey int  // key of the value handed to Delete (0 = none)
	Same bool // the value handed to Delete IS the Model value
	Desc string
}

type c08SeqCase struct {
	Seed     int64    `json:"seed"`
	Flavour  string   `json:"flavour"`
	Soft     bool     `json:"soft"`
	ModelKey int      `json:"model_key"`
	TxMode   string   `json:"tx_mode"`
	Ops      []string `json:"calls"`
	Step     int      `json:"failing_call,omitempty"`
}

type c08StepObs struct {
	NExprs   int // -1 = no WHERE entry
	Marker   bool
	Unscoped bool
	Keys     []string
	Rejected bool
	Err      string
	IDs      []int
	HasIDs   bool
	Count    int64
	HasCount bool
	Rows     int64
	NExec    int
	Where    string
	Sent     bool
	Live     string // dump of the live rows after the call
	Dead     string // dump of the marked rows after the call
	Lenient  bool   // LIMIT without ORDER BY on the statement: which row comes back is not determined
}

var c08ReadFins = []string{"count", "find", "first", "take", "last", "pluck", "scan"}

func c08GenSeq(rng *rand.Rand, w *wWorld, flavour string, soft bool, modelKey int) []c08SeqOp {
	n := 2 + rng.Intn(4)
	var ops []c08SeqOp
	cfg := chainGenCfg{exGenCfg: exGenCfg{table: tableOf(soft)}, soft: soft, allowEmpty: true}
	condFree := flavour == "C09" && rng.Intn(3) > 0 // C09: mostly statements that never get a condition
	session := rng.Intn(3) == 0
	loaded := false
	reads := 0
	if flavour == "C08" {
		// the usual shape of a reused statement: conditions first, then several finishers (count-then-read pagination …)
		for i, m := 0, rng.Intn(3); i < m; i++ {
			f := genForm(rng, w, 1, cfg)
			op := []string{"where", "where", "not", "or"}[rng.Intn(4)]
			if op == "not" && f.notMixed() {
				op = "where"
			}
			ops = append(ops, c08SeqOp{Kind: "cond", Op: op, form: f, Desc: op + "(" + f.GoDesc + ")"})
		}
	}
	for i := 0; i < n; i++ {
		k := rng.Intn(20)
		if flavour == "C08" && k >= 15 && reads < 2 {
			k = 9 + rng.Intn(6) // writes mostly come after the reads (a write after a read on one statement usually ends in a database error)
		}
		switch {
		case k < 5:
			var f *wForm
			if condFree {
				f = genEmptyForm(rng, soft)
			} else {
				f = genForm(rng, w, 1, cfg)
			}
			op := []string{"where", "where", "not", "or"}[rng.Intn(4)]
			if op == "not" && f.notMixed() {
				op = "where"
			}
			if op == "or" && flavour != "C09" && rng.Intn(4) > 0 {
				// an Or call on a statement that already carries the filter is the listed finding F25: visit it rarely
				op = "where"
			}
			ops = append(ops, c08SeqOp{Kind: "cond", Op: op, form: f, Desc: op + "(" + f.GoDesc + ")"})
		case k < 6 && flavour != "C02":
			m := rng.Intn(3)
			if condFree {
				m = 0
				if !c09Facts().GuardRejectsEmptyWhere && rng.Intn(3) > 0 {
					// the empty clause.Where{} is the finding F26 on a tree whose guard only tests the presence of the WHERE
					// entry: visit it rarely there.  When the regenerated fact says the guard counts expressions (repaired) it
					// is ordinary input space (no draw then: the unrepaired tree keeps its RNG stream).
					continue
				}
			}
			var as []*wAtom
			for j := 0; j < m; j++ {
				as = append(as, genAtom(rng, w, tableOf(soft), 0))
			}
			ops = append(ops, c08SeqOp{Kind: "cw", cw: as, Desc: fmt.Sprintf("Clauses(clause.Where{%d exprs})", m)})
		case k < 8:
			ops = append(ops, c08SeqOp{Kind: "unscoped", Desc: "Unscoped()"})
		case k < 9 && session:
			session = false
			ops = append(ops, c08SeqOp{Kind: "session", Desc: "Session(&gorm.Session{})"})
		case k < 15:
			f := c08ReadFins[rng.Intn(len(c08ReadFins))]
			if f == "scan" && (loaded || modelKey != 0) {
				// (a Scan on a statement without Dest also takes the keyed Model value as its Dest)
				// Scan (through Rows) keeps the statement's Dest: after First/Take/Last that is the LOADED record, whose key
				// becomes a condition of the statement — a value with a primary key, outside the sequences judged here
				f = "find"
			}
			loaded = loaded || f == "first" || f == "take" || f == "last"
			reads++
			ops = append(ops, c08SeqOp{Kind: "fin", Fin: f, Desc: f})
		case k < 17:
			ops = append(ops, c08SeqOp{Kind: "fin", Fin: "update", Desc: "Update(b, 77)"})
		default:
			o := c08SeqOp{Kind: "fin", Fin: "delete", Desc: "Delete(&T{})"}
			if !condFree {
				switch rng.Intn(4) {
				case 0:
					o.VKey = 1 + rng.Intn(3)
					o.Desc = fmt.Sprintf("Delete(&T{ID:%d})", o.VKey)
				case 1:
					o.Same = true
					o.Desc = "Delete(the Model value)"
				}
			}
			loaded = true // the deleted value stays the statement's Dest
			ops = append(ops, o)
		}
	}
	// always end in a finisher; C09 in a write finisher
	last := c08SeqOp{Kind: "fin", Fin: []string{"find", "count", "pluck", "find", "update", "delete"}[rng.Intn(6)]}
	if flavour == "C09" {
		last.Fin = []string{"update", "delete"}[rng.Intn(2)]
	}
	last.Desc = last.Fin
	return append(ops, last)
}

func c08KeyAtom(w *wWorld, key int) *wAtom {
	return &wAtom{Col: "`id`", Kind: "eq", Val: "scalar", ID: w.id(wPred{Col: "id", Op: "eq", Vals: []int{key}})}
}

func c08NormWhere(s string) string {
	s = strings.ReplaceAll(s, "`w_softs`.`id`", "`id`")
	s = strings.ReplaceAll(s, "`w_plains`.`id`", "`id`")
	if i := strings.Index(s, " RETURNING "); i >= 0 {
		s = s[:i]
	}
	return s
}

func c08SeqJSON(w *wWorld, ops []c08SeqOp, soft bool, modelKey int) (filter interface{}, mk []interface{}, out []interface{}) {
	if soft {
		filter = map[string]interface{}{"col": "`w_softs`.`deleted_at`", "kind": "eq", "val": "nil", "id": w.id(wPred{Col: "deleted", Op: "null"})}
	}
	mk = []interface{}{}
	if modelKey != 0 {
		mk = append(mk, c08KeyAtom(w, modelKey).json())
	}
	for _, o := range ops {
		switch o.Kind {
		case "cond":
			out = append(out, []interface{}{"cond", o.Op, o.form.json()})
		case "cw":
			es := []interface{}{}
			for _, a := range o.cw {
				es = append(es, map[string]interface{}{"atom": a.json()})
			}
			out = append(out, []interface{}{"cw", es})
		case "unscoped":
			out = append(out, []interface{}{"unscoped"})
		case "fin":
			vk := []interface{}{}
			if o.VKey != 0 {
				vk = append(vk, c08KeyAtom(w, o.VKey).json())
			} else if o.Same && modelKey != 0 {
				vk = append(vk, c08KeyAtom(w, modelKey).json()) // the deleted value IS the Model value
			}
			out = append(out, []interface{}{"fin", o.Fin, vk, o.Same})
		}
	}
	return
}

func c08Dumps(db *gorm.DB, soft bool) (live, dead string) {
	var rows []map[string]interface{}
	db.Session(&gorm.Session{NewDB: true}).Unscoped().Table(tableOf(soft)).Order("id").Find(&rows)
	var l, d strings.Builder
	for _, r := range rows {
		if soft && r["deleted_at"] != nil {
			fmt.Fprintf(&d, "%v|%v|%v|%v|%v;", r["id"], r["a"], r["b"], r["s"], r["deleted_at"])
		} else {
			fmt.Fprintf(&l, "%v|%v|%v|%v;", r["id"], r["a"], r["b"], r["s"])
		}
	}
	return l.String(), d.String()
}

// c08SeqRun executes the calls one after the other on ONE statement and observes the statement after each of them.
// It stops after the first call that leaves an error (the error sticks to the handle).
func c08SeqRun(db *gorm.DB, rec *Recorder, c c08SeqCase, ops []c08SeqOp) (obs []c08StepObs) {
	soft := c.Soft
	var model interface{}
	if soft {
		model = &WSoft{ID: uint(c.ModelKey)}
	} else {
		model = &WPlain{ID: uint(c.ModelKey)}
	}
	base := db.Session(&gorm.Session{})
	var finish func()
	switch c.TxMode {
	case "skip":
		base = db.Session(&gorm.Session{SkipDefaultTransaction: true})
	case "prepare":
		base = db.Session(&gorm.Session{PrepareStmt: true})
	case "begin":
		tx := db.Begin()
		base = tx
		finish = func() { tx.Commit() }
	}
	root := db.Session(&gorm.Session{})
	h := base.Model(model)
	for _, o := range ops {
		if o.Kind == "session" {
			h = h.Session(&gorm.Session{})
			continue
		}
		var so c08StepObs
		rec.Reset()
		var err error
		func() {
			defer func() {
				if e := recover(); e != nil {
					err = fmt.Errorf("panic: %v", e)
				}
			}()
			switch o.Kind {
			case "cond":
				q, args := o.form.Go(root)
				switch o.Op {
				case "where":
					h = h.Where(q, args...)
				case "not":
					h = h.Not(q, args...)
				default:
					h = h.Or(q, args...)
				}
			case "cw":
				es := []clause.Expression{}
				for _, a := range o.cw {
					es = append(es, a.Go)
				}
				h = h.Clauses(clause.Where{Exprs: es})
			case "unscoped":
				h = h.Unscoped()
			case "fin":
				switch o.Fin {
				case "count":
					h = h.Count(&so.Count)
					so.HasCount = true
				case "find":
					if soft {
						var out []WSoft
						h = h.Find(&out)
						for _, x := range out {
							so.IDs = append(so.IDs, int(x.ID))
						}
					} else {
						var out []WPlain
						h = h.Find(&out)
						for _, x := range out {
							so.IDs = append(so.IDs, int(x.ID))
						}
					}
					so.HasIDs = true
				case "first", "take", "last":
					one := func(dst interface{}) *gorm.DB {
						switch o.Fin {
						case "first":
							return h.First(dst)
						case "take":
							return h.Take(dst)
						}
						return h.Last(dst)
					}
					if soft {
						var x WSoft
						h = one(&x)
						if h.Error == nil {
							so.IDs = []int{int(x.ID)}
						}
					} else {
						var x WPlain
						h = one(&x)
						if h.Error == nil {
							so.IDs = []int{int(x.ID)}
						}
					}
					so.HasIDs = true
				case "pluck":
					var ids []int
					h = h.Pluck("id", &ids)
					so.IDs, so.HasIDs = ids, true
				case "scan":
					type lite struct{ ID int }
					var out []lite
					h = h.Scan(&out)
					for _, x := range out {
						so.IDs = append(so.IDs, x.ID)
					}
					so.HasIDs = true
				case "update":
					h = h.Update("b", 77)
					so.Rows = h.RowsAffected
				case "delete":
					var v interface{}
					switch {
					case o.Same:
						v = model
					case soft:
						v = &WSoft{ID: uint(o.VKey)}
					default:
						v = &WPlain{ID: uint(o.VKey)}
					}
					h = h.Delete(v)
					so.Rows = h.RowsAffected
				}
			}
		}()
		if err == nil {
			err = h.Error
		}
		for _, e := range rec.Snapshot() {
			if isExecEvent(e) {
				so.NExec++
				so.Sent = true
				so.Where = whereOf(e.SQL)
			}
		}
		if err != nil {
			so.Err = err.Error()
			so.Rejected = errors.Is(err, gorm.ErrMissingWhereClause)
		}
		so.NExprs = -1
		_, hasLimit := h.Statement.Clauses["LIMIT"]
		_, hasOrder := h.Statement.Clauses["ORDER BY"]
		so.Lenient = hasLimit && !hasOrder
		for k, cl := range h.Statement.Clauses {
			switch k {
			case "WHERE":
				if wc, ok := cl.Expression.(clause.Where); ok {
					so.NExprs = len(wc.Exprs)
				}
			case "soft_delete_enabled":
				so.Marker = true
			default:
				so.Keys = append(so.Keys, k)
			}
		}
		sort.Strings(so.Keys)
		so.Unscoped = h.Statement.Unscoped
		sort.Ints(so.IDs)
		if c.TxMode != "begin" {
			so.Live, so.Dead = c08Dumps(db, soft)
		}
		obs = append(obs, so)
		if err != nil {
			break
		}
	}
	if finish != nil {
		finish()
		if len(obs) > 0 {
			obs[len(obs)-1].Live, obs[len(obs)-1].Dead = c08Dumps(db, soft)
		}
	}
	return obs
}

// c08SeqJob: one generated call sequence, executed on the real code (phase 1); judged once the Lean statement machine
// answered (phase 2) — the model is asked for many sequences in ONE driver run
type c08SeqJob struct {
	c            c08SeqCase
	w            *wWorld
	rows         []wRow
	ops, steps   []c08SeqOp
	obs          []c08StepObs
	live0, dead0 string
	ask          []interface{}
}

func c08SeqPrepare(seed int64, flavour string) *c08SeqJob {
	rng := rand.New(rand.NewSource(seed))
	w := newWorld()
	soft := flavour == "C08" || flavour == "C09" && rng.Intn(2) == 0
	rows := genRows(rng, 5+rng.Intn(3), soft)
	c := c08SeqCase{Seed: seed, Flavour: flavour, Soft: soft}
	if flavour != "C09" && (rng.Intn(3) == 0 || flavour == "C02" && rng.Intn(3) > 0) {
		c.ModelKey = 1 + rng.Intn(3)
	} else if flavour == "C09" && rng.Intn(4) == 0 {
		// round 3: the key given through Model(..) only (`h := db.Model(&keyed)`; later `h.Delete(&T{})` / `h.Update(..)`):
		// such a statement supplies a condition, no write on it may be rejected
		c.ModelKey = 1 + rng.Intn(3)
	}
	c.TxMode = []string{"default", "default", "skip", "prepare", "begin"}[rng.Intn(5)]
	ops := c08GenSeq(rng, w, flavour, soft, c.ModelKey)
	// the non-session ops, aligned with the observations and the model's answers
	var steps []c08SeqOp
	for _, o := range ops {
		c.Ops = append(c.Ops, o.Desc)
		if o.Kind != "session" {
			steps = append(steps, o)
		}
	}
	db, rec, sqlDB := openW(rows, soft, nil)
	defer sqlDB.Close()
	j := &c08SeqJob{c: c, w: w, rows: rows, ops: ops, steps: steps}
	j.live0, j.dead0 = c08Dumps(db, soft)
	j.obs = c08SeqRun(db, rec, c, ops)
	filter, mk, opsJ := c08SeqJSON(w, steps, soft, c.ModelKey)
	j.ask = []interface{}{"stmt.run", filter, mk, false, opsJ}
	return j
}

func c08SeqBatch(r *Result, jobs []*c08SeqJob) {
	if len(jobs) == 0 {
		return
	}
	ask := make([][]interface{}, len(jobs))
	for i, j := range jobs {
		ask[i] = j.ask
	}
	res, err := AskLean(ask)
	if err != nil {
		r.Violate(Violation{Kind: "correspondence", Suite: "reuse", Note: err.Error()})
		return
	}
	for i, j := range jobs {
		c08SeqFinish(r, j, res[i])
	}
}

func c08SeqOne(r *Result, seed int64, flavour string) {
	c08SeqBatch(r, []*c08SeqJob{c08SeqPrepare(seed, flavour)})
}

func c08SeqFinish(r *Result, j *c08SeqJob, raw json.RawMessage) {
	c, w, rows, ops, steps, obs, live0, dead0 := j.c, j.w, j.rows, j.ops, j.steps, j.obs, j.live0, j.dead0
	flavour, soft := c.Flavour, c.Soft
	_, _ = w, soft
	r.Case("reuse", fmt.Sprint(flavour, soft, c.ModelKey, c.TxMode, c.Ops), true)
	r.H("reuse.txmode", c.TxMode)
	r.H("reuse.calls", fmt.Sprint(len(steps)))
	r.H("reuse.completed", fmt.Sprint(len(obs) == len(steps)))

	// ---------------------------------------------------------------- the tie: Lean statement machine
	type mstate struct {
		NExprs   *int     `json:"nexprs"`
		Marker   bool     `json:"marker"`
		Unscoped bool     `json:"unscoped"`
		Keys     []string `json:"keys"`
		Rejected bool     `json:"rejected"`
		Sound    bool     `json:"sound"`
		Where    string   `json:"where"`
	}
	var model []mstate
	if json.Unmarshal(raw, &model) != nil || len(model) != len(steps) {
		r.Violate(Violation{Kind: "correspondence", Suite: "reuse", Input: c, Observed: string(raw), Note: "the Lean statement machine rejected the call sequence"})
		return
	}
	sound := true
	for i, so := range obs {
		m := model[i]
		sound = sound && m.Sound
		r.CorrCompared++
		r.H("reuse.call", steps[i].Kind+":"+steps[i].Fin)
		mn := -1
		if m.NExprs != nil {
			mn = *m.NExprs
		}
		mkeys := m.Keys
		if mkeys == nil {
			mkeys = []string{}
		}
		skeys := so.Keys
		if skeys == nil {
			skeys = []string{}
		}
		diff := ""
		switch {
		case strings.HasPrefix(so.Err, "panic:"):
			// a panic inside gorm leaves the statement half-built: nothing to compare (reads after reads on one statement
			// can trip over the SELECT entry the earlier one left; not this property's subject)
			r.H("reuse.panic", trunc(so.Err, 50))
		case mn != so.NExprs:
			diff = fmt.Sprintf("WHERE expressions: real %d, model %d (-1 = no entry)", so.NExprs, mn)
		case m.Marker != so.Marker:
			diff = fmt.Sprintf("soft_delete_enabled marker: real %v, model %v", so.Marker, m.Marker)
		case m.Unscoped != so.Unscoped:
			diff = fmt.Sprintf("Statement.Unscoped: real %v, model %v", so.Unscoped, m.Unscoped)
		case steps[i].Kind == "fin" && m.Rejected != so.Rejected:
			diff = fmt.Sprintf("guard decision: real rejected=%v (%s), model rejected=%v", so.Rejected, so.Err, m.Rejected)
		case fmt.Sprint(mkeys) != fmt.Sprint(skeys):
			diff = fmt.Sprintf("other Statement.Clauses keys: real %v, model %v", skeys, mkeys)
		case so.Sent && c08NormWhere(so.Where) != c08NormWhere(m.Where):
			diff = fmt.Sprintf("WHERE text at the driver: real %q, model %q", so.Where, m.Where)
		}
		if diff != "" {
			c2 := c
			c2.Step = i + 1
			r.Violate(Violation{Kind: "correspondence", Suite: "reuse", Input: c2, Observed: diff,
				Note: "state of the shared Statement after call " + fmt.Sprint(i+1) + " (" + steps[i].Desc + ") differs from the Lean statement machine (Model/Where.lean stmtStep)"})
			break
		}
	}

	// ---------------------------------------------------------------- e2e
	switch flavour {
	case "C08":
		c08SeqJudgeSoft(r, c, rows, steps, obs, ops, sound, live0, dead0)
	case "C09":
		c09SeqJudge(r, c, steps, obs, live0, dead0)
	}
}

func firstRaw(res []json.RawMessage) json.RawMessage {
	if len(res) > 0 {
		return res[0]
	}
	return nil
}

// c08SeqJudgeSoft: differential against the twin database without the marked rows
func c08SeqJudgeSoft(r *Result, c c08SeqCase, rows []wRow, steps []c08SeqOp, obs []c08StepObs, ops []c08SeqOp, sound bool, live0, dead0 string) {
	liveRows := rows[:len(rows)/2]
	dbB, recB, sqlB := openW(liveRows, true, nil)
	defer sqlB.Close()
	obsB := c08SeqRun(dbB, recB, c, ops)
	installed, orAfter := false, false
	for i, so := range obs {
		st := steps[i]
		if st.Kind == "unscoped" {
			break // from here on the marked rows are meant to be visible / removable
		}
		if st.Kind == "cond" && st.Op == "or" && st.form.Kind != "empty" && installed {
			orAfter = true
		}
		if st.Kind == "fin" {
			installed = true
		}
		if st.Kind != "fin" || strings.HasPrefix(so.Err, "panic:") {
			continue
		}
		if i >= len(obsB) {
			break
		}
		sb := obsB[i]
		bad := ""
		switch {
		case (so.Err == "") != (sb.Err == ""):
			bad = fmt.Sprintf("error with the marked rows present: %q, with them absent: %q", so.Err, sb.Err)
		case so.Err != "":
		case so.HasCount && so.Count != sb.Count:
			bad = fmt.Sprintf("count %d with the marked rows present, %d with them absent", so.Count, sb.Count)
		case so.HasIDs && !so.Lenient && !sameInts(so.IDs, sb.IDs):
			bad = fmt.Sprintf("ids %v with the marked rows present, %v with them absent", so.IDs, sb.IDs)
		case so.HasIDs && so.Lenient && len(so.IDs) != len(sb.IDs):
			bad = fmt.Sprintf("%d rows with the marked rows present, %d with them absent", len(so.IDs), len(sb.IDs))
		case st.Fin == "update" || st.Fin == "delete":
			if so.Rows != sb.Rows {
				bad = fmt.Sprintf("RowsAffected %d with the marked rows present, %d with them absent", so.Rows, sb.Rows)
			} else if so.Live != "" && so.Live != sb.Live {
				bad = "live rows after the write differ: " + so.Live + " vs " + sb.Live
			}
		}
		if bad == "" && so.HasIDs {
			for _, id := range so.IDs {
				if id > len(liveRows) {
					bad = fmt.Sprintf("soft-deleted id %d returned (ids %v)", id, so.IDs)
				}
			}
		}
		if bad == "" && so.Dead != "" && (st.Fin == "update" || st.Fin == "delete") {
			// the marked rows are untouched: every one of them still there with the same values (a soft delete ADDS marked rows)
			for _, d := range strings.Split(dead0, ";") {
				if d != "" && !strings.Contains(so.Dead, d+";") {
					bad = "a soft-deleted row was changed or removed: " + d
				}
			}
		}
		r.Case("reuse.soft", fmt.Sprint(c.Ops[:], i), true)
		r.H("reuse.judged", st.Fin)
		if bad == "" {
			continue
		}
		if orAfter && listed("F25-C08-or-after-filter") {
			r.KnownFinding("F25-C08-or-after-filter", "reused statement, Or added after the filter was installed: "+trunc(bad, 80))
			return
		}
		if !sound && listed("F2-C08-or-raw-regroup") {
			r.KnownFinding("F2-C08-or-raw-regroup", "reused statement: "+trunc(bad, 80))
			return
		}
		c2 := c
		c2.Step = i + 1
		r.Violate(Violation{Kind: "e2e", Suite: "reuse", Input: c2, Observed: bad,
			Expected: "the same outcome as on a database in which the soft-deleted rows do not exist (call " + fmt.Sprint(i+1) + ": " + st.Desc + ")",
			Note:     "WHERE at the driver: " + so.Where})
		return
	}
}

// c09SeqJudge: the guard on a reused statement
func c09SeqJudge(r *Result, c c08SeqCase, steps []c08SeqOp, obs []c08StepObs, live0, dead0 string) {
	eff, emptyCw := false, false
	prevLive, prevDead := live0, dead0
	for i, so := range obs {
		st := steps[i]
		switch st.Kind {
		case "cond":
			eff = eff || st.form.Kind != "empty"
		case "cw":
			eff = eff || len(st.cw) > 0
			emptyCw = emptyCw || len(st.cw) == 0
		}
		if st.Kind == "fin" && (st.Fin == "update" || st.Fin == "delete") && !strings.HasPrefix(so.Err, "panic:") {
			keyed := c.ModelKey != 0 || st.VKey != 0
			changed := so.Live != "" && (so.Live != prevLive || so.Dead != prevDead)
			r.Case("reuse.guard", fmt.Sprint(c.Ops, i), true)
			r.H("reuse.guard", fmt.Sprintf("eff=%v keyed=%v emptyWhereClause=%v -> rejected=%v sent=%d", eff, keyed, emptyCw, so.Rejected, so.NExec))
			c2 := c
			c2.Step = i + 1
			switch {
			case !eff && !keyed && !emptyCw:
				if !so.Rejected || so.NExec != 0 || changed {
					r.Violate(Violation{Kind: "e2e", Suite: "reuse", Input: c2,
						Observed: map[string]interface{}{"error": so.Err, "statements_sent": so.NExec, "table_changed": changed},
						Expected: "ErrMissingWhereClause, no exec/query/prepare event, table unchanged (no call on this statement supplied a condition)"})
					return
				}
			case !eff && !keyed && emptyCw:
				c09JudgeEmptyWhere(r, "reuse", c2, so.Rejected, so.Err, so.NExec, changed)
			case so.Rejected:
				r.Violate(Violation{Kind: "e2e", Suite: "reuse", Input: c2, Observed: so.Err,
					Expected: "not ErrMissingWhereClause: a condition was supplied on this statement (or the value carries a primary key)"})
				return
			}
			if so.Rejected && (so.NExec != 0 || changed) {
				r.Violate(Violation{Kind: "e2e", Suite: "reuse", Input: c2,
					Observed: map[string]interface{}{"statements_sent": so.NExec, "table_changed": changed}, Expected: "a rejected operation executes no statement"})
				return
			}
		}
		if st.Kind == "fin" && (c.ModelKey != 0 && st.Fin == "update" || st.Fin == "delete" && (st.VKey != 0 || c.ModelKey != 0)) {
			eff = true // the key condition a write added stays on the statement
		}
		if so.Live != "" {
			prevLive, prevDead = so.Live, so.Dead
		}
	}
}

// c09Facts: the regenerated facts (extract/gen_c09_fix.go → Gen/GuardWhereFacts.lean, read through the Lean driver) that
// tell whether the repair of F26-C09-empty-where-entry is present in the tree under test. They select the model's
// transcription of the guard (Lean side) and switch the generator: a repaired pattern is no longer avoided.
type c09FactsT struct {
	GuardRejectsEmptyWhere bool `json:"guardRejectsEmptyWhere"`
}

var c09FactsCache *c09FactsT

func c09Facts() c09FactsT {
	if c09FactsCache == nil {
		f := c09FactsT{}
		if outs, err := AskLean([][]interface{}{{"c09.facts"}}); err == nil && len(outs) == 1 {
			_ = json.Unmarshal(outs[0], &f)
		}
		c09FactsCache = &f
	}
	return *c09FactsCache
}

// c09JudgeEmptyWhere: a chain whose only "condition" is a WHERE entry with ZERO expressions (Clauses(clause.Where{})).
// The property demands a rejection without any statement — that is what is demanded here, on every tree. Finding F26
// (while it is LISTED; a "fixed" entry suppresses nothing): on a plain / Unscoped statement the guard passes, `… WHERE `
// reaches the database and is refused by its parser. Anything worse (no error, rows changed) is a violation.
func c09JudgeEmptyWhere(r *Result, suite string, input interface{}, rejected bool, errText string, nExec int, changed bool) {
	if rejected && nExec == 0 && !changed {
		r.H("emptywhere.judged", "rejected, nothing sent")
		return
	}
	if !rejected && errText != "" && !changed && listed("F26-C09-empty-where-entry") {
		r.H("emptywhere.judged", "F26: sent and refused by the database")
		r.KnownFinding("F26-C09-empty-where-entry", "Clauses(clause.Where{}) passes the guard; the statement is sent and refused by the database: "+trunc(errText, 40))
		return
	}
	r.Violate(Violation{Kind: "e2e", Suite: suite, Input: input,
		Observed: map[string]interface{}{"error": errText, "statements_sent": nExec, "table_changed": changed},
		Expected: "ErrMissingWhereClause, no statement, table unchanged (an empty clause.Where{} supplies no condition)"})
}

func init() {
	for _, p := range []string{"C02", "C08", "C09"} {
		p := p
		register(p, func(r *Result, rng *rand.Rand, tier string) {
			n := map[string]int{"quick": 220, "thorough": 4000, "search": 2500}[tier]
			if p == "C09" {
				n = map[string]int{"quick": 300, "thorough": 5000, "search": 2500}[tier]
			}
			if p == "C08" {
				n = map[string]int{"quick": 400, "thorough": 5000, "search": 2500}[tier]
			}
			if p == "C09" {
				// first of all: the listed witnesses of F26, literally (c09.go)
				for _, w := range c09Witnesses {
					c09ProbeWitness(r, w)
				}
			}
			var jobs []*c08SeqJob
			for i := 0; i < n && !expired(); i++ {
				jobs = append(jobs, c08SeqPrepare(rng.Int63(), p))
				if len(jobs) >= 400 {
					c08SeqBatch(r, jobs)
					jobs = nil
				}
			}
			c08SeqBatch(r, jobs)
		})
		replayers[p+"/reuse"] = func(r *Result, input json.RawMessage) {
			var c c08SeqCase
			if json.Unmarshal(input, &c) != nil {
				return
			}
			c08SeqOne(r, c.Seed, c.Flavour)
		}
	}
}
