package main

// C08 (round 3) — how the soft-delete column is DECLARED, and the FIRST USE of a model under concurrency.
//
// suite `decl`  "For a model with a soft-delete field …" — whatever way the field is declared: gorm.DeletedAt by value, by
//   pointer, inside an embedded gorm.Model, inside an own embedded base struct (value and pointer embedding), inside an
//   embedded struct with a column prefix, under a custom column name, a soft_delete-plugin-like custom type implementing
//   Query/Update/DeleteClauses of STRUCT kind and of NON-struct kind (`type C08Flag int64`), two soft-delete columns.
//   For every declaration, on every path: Delete marks instead of removing; Find / First / Take / Last / Count / Pluck /
//   Find-into-maps / Rows / FindInBatches, Update and a repeated Delete issued without Unscoped behave as if the marked
//   rows did not exist (conditions incl. OR / NOT / map); with Unscoped the marked rows are visible again and Delete
//   removes physically.  Generic over the zoo through reflection; expectations from an in-memory copy of the rows.
//
// suite `firstuse`  the same declarations used for the FIRST time on a handle with a cold schema cache by several goroutines
//   at once (a second *gorm.DB on the same database does the DDL and seeding, so the handle under test has never parsed
//   the model).  A custom type whose QueryClauses takes a few milliseconds widens the window in which a schema is already
//   in the cache but not yet complete.  No goroutine may see / count / update / physically delete a marked row.

import (
	"database/sql"
	"encoding/json"
	"fmt"
	"math/rand"
	"reflect"
	"sort"
	"sync"
	"time"

	"gorm.io/driver/sqlite"
	"gorm.io/gorm"
	"gorm.io/gorm/clause"
	"gorm.io/gorm/logger"
	"gorm.io/gorm/schema"
)

// ---------------------------------------------------------------------------------------------
// custom soft-delete types (what the soft_delete plugin does, on gorm's public API)

// C08Flag: NON-struct kind, flag mode — 0 = live, otherwise the unix time of deletion
type C08Flag int64

// C08Stamp: STRUCT kind — NULL = live
type C08Stamp struct{ sql.NullInt64 }

func (C08Flag) QueryClauses(f *schema.Field) []clause.Interface {
	return []clause.Interface{c08CustomQuery{Field: f, Zero: 0}}
}
func (C08Flag) UpdateClauses(f *schema.Field) []clause.Interface {
	return []clause.Interface{c08CustomQuery{Field: f, Zero: 0}}
}
func (C08Flag) DeleteClauses(f *schema.Field) []clause.Interface {
	return []clause.Interface{c08CustomDelete{Field: f, Zero: 0}}
}
func (C08Stamp) GormDataType() string { return "int" }
func (C08Stamp) QueryClauses(f *schema.Field) []clause.Interface {
	return []clause.Interface{c08CustomQuery{Field: f, Zero: nil}}
}
func (C08Stamp) UpdateClauses(f *schema.Field) []clause.Interface {
	return []clause.Interface{c08CustomQuery{Field: f, Zero: nil}}
}
func (C08Stamp) DeleteClauses(f *schema.Field) []clause.Interface {
	return []clause.Interface{c08CustomDelete{Field: f, Zero: nil}}
}

// C08SlowDeletedAt: gorm.DeletedAt whose QueryClauses (called once, while the schema is being parsed) takes a moment
type C08SlowDeletedAt struct{ gorm.DeletedAt }

func (s C08SlowDeletedAt) QueryClauses(f *schema.Field) []clause.Interface {
	time.Sleep(3 * time.Millisecond)
	return s.DeletedAt.QueryClauses(f)
}

type c08CustomQuery struct {
	Field *schema.Field
	Zero  interface{}
}

func (c08CustomQuery) Name() string               { return "" }
func (c08CustomQuery) Build(clause.Builder)       {}
func (c08CustomQuery) MergeClause(*clause.Clause) {}
func (q c08CustomQuery) ModifyStatement(stmt *gorm.Statement) {
	if _, ok := stmt.Clauses["soft_delete_enabled"]; !ok && !stmt.Statement.Unscoped {
		if c, ok := stmt.Clauses["WHERE"]; ok {
			if where, ok := c.Expression.(clause.Where); ok && len(where.Exprs) >= 1 {
				for _, expr := range where.Exprs {
					if orCond, ok := expr.(clause.OrConditions); ok && len(orCond.Exprs) == 1 {
						where.Exprs = []clause.Expression{clause.And(where.Exprs...)}
						c.Expression = where
						stmt.Clauses["WHERE"] = c
						break
					}
				}
			}
		}
		stmt.AddClause(clause.Where{Exprs: []clause.Expression{
			clause.Eq{Column: clause.Column{Table: clause.CurrentTable, Name: q.Field.DBName}, Value: q.Zero}}})
		stmt.Clauses["soft_delete_enabled"] = clause.Clause{}
	}
}

type c08CustomDelete struct {
	Field *schema.Field
	Zero  interface{}
}

func (c08CustomDelete) Name() string               { return "" }
func (c08CustomDelete) Build(clause.Builder)       {}
func (c08CustomDelete) MergeClause(*clause.Clause) {}
func (d c08CustomDelete) ModifyStatement(stmt *gorm.Statement) {
	if stmt.SQL.Len() == 0 && !stmt.Statement.Unscoped {
		ts := stmt.DB.NowFunc().Unix()
		stmt.AddClause(clause.Set{{Column: clause.Column{Name: d.Field.DBName}, Value: ts}})
		stmt.SetColumn(d.Field.DBName, ts, true)
		if stmt.Schema != nil {
			_, queryValues := schema.GetIdentityFieldValuesMap(stmt.Context, stmt.ReflectValue, stmt.Schema.PrimaryFields)
			column, values := schema.ToQueryValues(stmt.Table, stmt.Schema.PrimaryFieldDBNames, queryValues)
			if len(values) > 0 {
				stmt.AddClause(clause.Where{Exprs: []clause.Expression{clause.IN{Column: column, Values: values}}})
			}
			if stmt.ReflectValue.CanAddr() && stmt.Dest != stmt.Model && stmt.Model != nil {
				_, queryValues = schema.GetIdentityFieldValuesMap(stmt.Context, reflect.ValueOf(stmt.Model), stmt.Schema.PrimaryFields)
				column, values = schema.ToQueryValues(stmt.Table, stmt.Schema.PrimaryFieldDBNames, queryValues)
				if len(values) > 0 {
					stmt.AddClause(clause.Where{Exprs: []clause.Expression{clause.IN{Column: column, Values: values}}})
				}
			}
		}
		c08CustomQuery{Field: d.Field, Zero: d.Zero}.ModifyStatement(stmt)
		stmt.AddClauseIfNotExists(clause.Update{})
		stmt.Build(stmt.DB.Callback().Update().Clauses...)
	}
}

// ---------------------------------------------------------------------------------------------
// the zoo (every model: ID, V, Name + its soft-delete declaration)

type DValue struct {
	ID        uint `gorm:"primaryKey"`
	V         int
	Name      string
	DeletedAt gorm.DeletedAt
}
type DPtr struct {
	ID        uint `gorm:"primaryKey"`
	V         int
	Name      string
	DeletedAt *gorm.DeletedAt `json:"deleted_at,omitempty"`
}
type DModel struct {
	gorm.Model
	V    int
	Name string
}
type C08Base struct {
	ID        uint `gorm:"primaryKey"`
	DeletedAt gorm.DeletedAt
}
type DOwnBase struct {
	C08Base
	V    int
	Name string
}
type DPtrBase struct {
	*C08Base
	V    int
	Name string
}
type C08Meta struct {
	DeletedAt gorm.DeletedAt
}
type DPrefix struct {
	ID   uint `gorm:"primaryKey"`
	V    int
	Name string
	Meta C08Meta `gorm:"embedded;embeddedPrefix:meta_"`
}
type DColumn struct {
	ID        uint `gorm:"primaryKey"`
	V         int
	Name      string
	RemovedAt gorm.DeletedAt `gorm:"column:gone_at"`
}
type DFlag struct {
	ID   uint `gorm:"primaryKey"`
	V    int
	Name string
	Gone C08Flag
}
type DStamp struct {
	ID   uint `gorm:"primaryKey"`
	V    int
	Name string
	Gone C08Stamp
}
type DTwo struct {
	ID         uint `gorm:"primaryKey"`
	V          int
	Name       string
	DeletedAt  gorm.DeletedAt
	ArchivedAt gorm.DeletedAt
}
type DSlow struct {
	ID        uint `gorm:"primaryKey"`
	V         int
	Name      string
	DeletedAt C08SlowDeletedAt
}
type DPtrSlow struct {
	ID        uint `gorm:"primaryKey"`
	V         int
	Name      string
	DeletedAt *C08SlowDeletedAt
}

type c08Decl struct {
	Name   string
	Type   reflect.Type
	Col    string      // the soft-delete column
	Marked interface{} // a raw value that marks a row
	Live   string      // raw SQL predicate "row is live"
}

var c08Zoo = []c08Decl{
	{"gorm.DeletedAt (value)", reflect.TypeOf(DValue{}), "deleted_at", "2020-01-01 00:00:00", "deleted_at IS NULL"},
	{"*gorm.DeletedAt (pointer)", reflect.TypeOf(DPtr{}), "deleted_at", "2020-01-01 00:00:00", "deleted_at IS NULL"},
	{"embedded gorm.Model", reflect.TypeOf(DModel{}), "deleted_at", "2020-01-01 00:00:00", "deleted_at IS NULL"},
	{"own embedded base struct", reflect.TypeOf(DOwnBase{}), "deleted_at", "2020-01-01 00:00:00", "deleted_at IS NULL"},
	{"own embedded base struct (pointer)", reflect.TypeOf(DPtrBase{}), "deleted_at", "2020-01-01 00:00:00", "deleted_at IS NULL"},
	{"embedded struct with prefix", reflect.TypeOf(DPrefix{}), "meta_deleted_at", "2020-01-01 00:00:00", "meta_deleted_at IS NULL"},
	{"custom column name", reflect.TypeOf(DColumn{}), "gone_at", "2020-01-01 00:00:00", "gone_at IS NULL"},
	{"custom type, non-struct kind (int64 flag)", reflect.TypeOf(DFlag{}), "gone", 1577836800, "gone = 0"},
	{"custom type, struct kind (null stamp)", reflect.TypeOf(DStamp{}), "gone", 1577836800, "gone IS NULL"},
	{"two soft-delete columns", reflect.TypeOf(DTwo{}), "deleted_at", "2020-01-01 00:00:00", "deleted_at IS NULL"},
	{"custom type wrapping gorm.DeletedAt (slow QueryClauses)", reflect.TypeOf(DSlow{}), "deleted_at", "2020-01-01 00:00:00", "deleted_at IS NULL"},
	{"pointer to the wrapping type", reflect.TypeOf(DPtrSlow{}), "deleted_at", "2020-01-01 00:00:00", "deleted_at IS NULL"},
}

type c08DRow struct {
	ID   int
	V    int
	Name string
	Dead bool
}

func (d c08Decl) newModel() interface{} { return reflect.New(d.Type).Interface() }
func (d c08Decl) newSlice() interface{} { return reflect.New(reflect.SliceOf(d.Type)).Interface() }
func (d c08Decl) keyed(id int) interface{} {
	v := reflect.New(d.Type)
	f := v.Elem().FieldByName("C08Base")
	if f.IsValid() && f.Kind() == reflect.Ptr {
		f.Set(reflect.ValueOf(&C08Base{}))
	}
	v.Elem().FieldByName("ID").SetUint(uint64(id))
	return v.Interface()
}

func c08IDsOf(slicePtr interface{}) []int {
	rv := reflect.ValueOf(slicePtr).Elem()
	out := []int{}
	for i := 0; i < rv.Len(); i++ {
		e := rv.Index(i)
		if b := e.FieldByName("C08Base"); b.IsValid() && b.Kind() == reflect.Ptr && b.IsNil() {
			continue
		}
		out = append(out, int(e.FieldByName("ID").Uint()))
	}
	sort.Ints(out)
	return out
}

// c08DeclSetup: table + rows (every live row has a marked twin with identical V/Name), through handle `db`
func c08DeclSetup(db *gorm.DB, d c08Decl, rng *rand.Rand) (table string, rows []c08DRow) {
	if err := db.AutoMigrate(d.newModel()); err != nil {
		panic(fmt.Sprint(d.Name, ": ", err))
	}
	stmt := &gorm.Statement{DB: db}
	if err := stmt.Parse(d.newModel()); err != nil {
		panic(err)
	}
	table = stmt.Schema.Table
	n := 3 + rng.Intn(3)
	names := []string{"x", "y", "z"}
	for i := 1; i <= n; i++ {
		rows = append(rows, c08DRow{ID: i, V: rng.Intn(4), Name: names[rng.Intn(3)]})
	}
	for i := 0; i < n; i++ {
		t := rows[i]
		t.ID, t.Dead = n+i+1, true
		rows = append(rows, t)
	}
	for _, x := range rows {
		m := d.keyed(x.ID)
		reflect.ValueOf(m).Elem().FieldByName("V").SetInt(int64(x.V))
		reflect.ValueOf(m).Elem().FieldByName("Name").SetString(x.Name)
		if err := db.Create(m).Error; err != nil {
			panic(fmt.Sprint(d.Name, ": ", err))
		}
	}
	// the twins are marked behind gorm's back
	if err := db.Exec("UPDATE "+table+" SET "+d.Col+" = ? WHERE id > ?", d.Marked, n).Error; err != nil {
		panic(err)
	}
	return
}

type c08Cond struct {
	Desc  string
	Apply func(*gorm.DB) *gorm.DB
	Holds func(c08DRow) bool
}

func c08GenCond(rng *rand.Rand) c08Cond {
	k, nm := rng.Intn(4), []string{"x", "y", "z"}[rng.Intn(3)]
	switch rng.Intn(6) {
	case 0:
		return c08Cond{"(none)", func(db *gorm.DB) *gorm.DB { return db }, func(c08DRow) bool { return true }}
	case 1:
		return c08Cond{fmt.Sprintf("Where(v >= %d)", k), func(db *gorm.DB) *gorm.DB { return db.Where("v >= ?", k) }, func(r c08DRow) bool { return r.V >= k }}
	case 2:
		return c08Cond{fmt.Sprintf("Where(v = %d).Or(name = %s)", k, nm), func(db *gorm.DB) *gorm.DB { return db.Where("v = ?", k).Or("name = ?", nm) },
			func(r c08DRow) bool { return r.V == k || r.Name == nm }}
	case 3:
		return c08Cond{fmt.Sprintf("Or(v = %d OR name = %s) [one raw string]", k, nm), func(db *gorm.DB) *gorm.DB { return db.Where("(v = ? OR name = ?)", k, nm) },
			func(r c08DRow) bool { return r.V == k || r.Name == nm }}
	case 4:
		return c08Cond{fmt.Sprintf("Not(map v:%d)", k), func(db *gorm.DB) *gorm.DB { return db.Not(map[string]interface{}{"v": k}) }, func(r c08DRow) bool { return r.V != k }}
	}
	return c08Cond{fmt.Sprintf("Where(map name:%s)", nm), func(db *gorm.DB) *gorm.DB { return db.Where(map[string]interface{}{"name": nm}) }, func(r c08DRow) bool { return r.Name == nm }}
}

type c08DeclCase struct {
	Seed int64  `json:"seed"`
	Decl string `json:"declaration"`
	Cond string `json:"condition,omitempty"`
	Path string `json:"path"`
}

func c08RawInts(db *gorm.DB, q string, args ...interface{}) []int {
	var out []int
	db.Session(&gorm.Session{NewDB: true}).Raw(q, args...).Scan(&out)
	sort.Ints(out)
	if out == nil {
		out = []int{}
	}
	return out
}

func c08DeclOne(r *Result, seed int64, di int) {
	rng := rand.New(rand.NewSource(seed))
	d := c08Zoo[di%len(c08Zoo)]
	db, _, sqlDB := OpenRec(&gorm.Config{NowFunc: fixedNowFunc})
	defer sqlDB.Close()
	table, rows := c08DeclSetup(db, d, rng)
	n := len(rows) / 2
	want := func(c c08Cond, unscoped bool) []int {
		out := []int{}
		for _, x := range rows {
			if c.Holds(x) && (unscoped || !x.Dead) {
				out = append(out, x.ID)
			}
		}
		return out
	}
	bad := func(c c08Cond, path string, obs, exp interface{}, note string) {
		r.Violate(Violation{Kind: "e2e", Suite: "decl", Input: c08DeclCase{seed, d.Name, c.Desc, path}, Observed: obs, Expected: exp, Note: note})
	}
	r.H("decl.declaration", d.Name)
	base := db.Session(&gorm.Session{})
	for round := 0; round < 3; round++ {
		c := c08GenCond(rng)
		exp := want(c, false)
		expU := want(c, true)
		cs := func(path string) { r.Case("decl", fmt.Sprint(d.Name, c.Desc, path), true); r.H("decl.path", path) }
		// --- reads
		{
			sl := d.newSlice()
			if err := c.Apply(base).Order("id").Find(sl).Error; err == nil {
				cs("find")
				if got := c08IDsOf(sl); !sameInts(got, exp) {
					bad(c, "find", got, exp, "Find without Unscoped")
				}
			}
			sl = d.newSlice()
			if err := c.Apply(base.Unscoped()).Order("id").Find(sl).Error; err == nil {
				cs("unscoped-find")
				if got := c08IDsOf(sl); !sameInts(got, expU) {
					bad(c, "unscoped-find", got, expU, "with Unscoped the marked rows are visible again")
				}
			}
			var cnt int64
			if err := c.Apply(base.Model(d.newModel())).Count(&cnt).Error; err == nil {
				cs("count")
				if int(cnt) != len(exp) {
					bad(c, "count", cnt, len(exp), "Count without Unscoped")
				}
			}
			var plucked []int
			if err := c.Apply(base.Model(d.newModel())).Order("id").Pluck("id", &plucked).Error; err == nil {
				cs("pluck")
				sort.Ints(plucked)
				if plucked == nil {
					plucked = []int{}
				}
				if !sameInts(plucked, exp) {
					bad(c, "pluck", plucked, exp, "Pluck without Unscoped")
				}
			}
			var maps []map[string]interface{}
			if err := c.Apply(base.Model(d.newModel())).Order("id").Find(&maps).Error; err == nil {
				cs("findmaps")
				got := []int{}
				for _, m := range maps {
					got = append(got, toInt(m["id"]))
				}
				sort.Ints(got)
				if !sameInts(got, exp) {
					bad(c, "findmaps", got, exp, "Find into maps without Unscoped")
				}
			}
			for _, p := range []string{"first", "take", "last"} {
				m := d.newModel()
				var err error
				switch p {
				case "first":
					err = c.Apply(base).First(m).Error
				case "take":
					err = c.Apply(base).Take(m).Error
				default:
					err = c.Apply(base).Last(m).Error
				}
				cs(p)
				if err == gorm.ErrRecordNotFound {
					if len(exp) != 0 {
						bad(c, p, "record not found", exp, p+" without Unscoped")
					}
					continue
				}
				if err != nil {
					continue
				}
				id := int(reflect.ValueOf(m).Elem().FieldByName("ID").Uint())
				if i := sort.SearchInts(exp, id); i >= len(exp) || exp[i] != id {
					bad(c, p, id, exp, p+" without Unscoped returned a row outside the live matching rows")
				}
			}
			{
				got := []int{}
				batch := d.newSlice()
				nb := 0
				err := c.Apply(base).FindInBatches(batch, 2, func(tx *gorm.DB, _ int) error {
					got = append(got, c08IDsOf(batch)...)
					if nb++; nb > 20 {
						return errC08Stop
					}
					return nil
				}).Error
				if err == nil {
					cs("batches")
					sort.Ints(got)
					for _, id := range got {
						if id > n {
							bad(c, "batches", got, exp, "FindInBatches without Unscoped delivered a marked row")
							break
						}
					}
				}
			}
			if rowsIt, err := c.Apply(base.Model(d.newModel())).Order("id").Rows(); err == nil {
				got := []int{}
				for rowsIt.Next() {
					m := map[string]interface{}{}
					if db.ScanRows(rowsIt, &m) == nil {
						got = append(got, toInt(m["id"]))
					}
				}
				rowsIt.Close()
				cs("rows")
				sort.Ints(got)
				if !sameInts(got, exp) {
					bad(c, "rows", got, exp, "Rows without Unscoped")
				}
			}
		}
		// --- writes, in a transaction that is rolled back
		{
			tx := base.Begin()
			res := c.Apply(tx.Model(d.newModel())).Update("v", 99)
			if res.Error == nil {
				cs("update")
				got := c08RawInts(tx, "SELECT id FROM "+table+" WHERE v = 99")
				if !sameInts(got, exp) {
					bad(c, "update", got, exp, "Update without Unscoped must change exactly the live matching rows (marked rows untouched)")
				}
			}
			tx.Rollback()
			tx = base.Begin()
			var res2 *gorm.DB
			if c.Desc == "(none)" {
				res2 = tx.Delete(d.newModel(), []int{1, n + 1}) // a live row and a marked one, by key
				exp = []int{1}
			} else {
				res2 = c.Apply(tx).Delete(d.newModel())
			}
			if res2.Error == nil {
				cs("delete")
				phys := c08RawInts(tx, "SELECT id FROM "+table)
				liveNow := c08RawInts(tx, "SELECT id FROM "+table+" WHERE "+d.Live)
				if len(phys) != len(rows) {
					bad(c, "delete", fmt.Sprintf("%d rows left", len(phys)), fmt.Sprintf("%d rows (Delete marks the matching live rows instead of removing them)", len(rows)), "physical row count after Delete")
				} else {
					expLive := []int{}
					for _, x := range rows {
						if !x.Dead && !c08ContainsInt(exp, x.ID) {
							expLive = append(expLive, x.ID)
						}
					}
					if !sameInts(liveNow, expLive) {
						bad(c, "delete", liveNow, expLive, "live rows after Delete (exactly the live matching rows get marked)")
					}
					if int(res2.RowsAffected) != len(exp) {
						bad(c, "delete", res2.RowsAffected, len(exp), "RowsAffected of Delete: the marked rows are not deleted again")
					}
				}
				// a repeated delete touches nothing
				var res3 *gorm.DB
				if c.Desc == "(none)" {
					res3 = tx.Delete(d.newModel(), []int{1, n + 1})
				} else {
					res3 = c.Apply(tx).Delete(d.newModel())
				}
				if res3.Error == nil && res3.RowsAffected != 0 {
					bad(c, "delete-again", res3.RowsAffected, 0, "a repeated Delete affects no row")
				}
			}
			tx.Rollback()
			tx = base.Begin()
			res4 := tx.Unscoped().Delete(d.newModel(), []int{2, n + 2})
			if res4.Error == nil {
				cs("unscoped-delete")
				phys := c08RawInts(tx, "SELECT id FROM "+table)
				if len(phys) != len(rows)-2 || res4.RowsAffected != 2 {
					bad(c, "unscoped-delete", fmt.Sprintf("%d rows left, %d affected", len(phys), res4.RowsAffected), fmt.Sprintf("%d rows left, 2 affected", len(rows)-2), "Unscoped Delete removes rows physically, marked or not")
				}
			}
			tx.Rollback()
			// Delete(&keyed value) of a live row marks it
			tx = base.Begin()
			res5 := tx.Delete(d.keyed(1))
			if res5.Error == nil {
				cs("delete-keyed")
				phys := c08RawInts(tx, "SELECT id FROM "+table)
				liveNow := c08RawInts(tx, "SELECT id FROM "+table+" WHERE "+d.Live)
				if len(phys) != len(rows) || len(liveNow) != n-1 {
					bad(c, "delete-keyed", fmt.Sprintf("%d rows, %d live", len(phys), len(liveNow)), fmt.Sprintf("%d rows, %d live", len(rows), n-1), "Delete(&keyed) marks the row")
				}
			}
			tx.Rollback()
		}
	}
}

func c08ContainsInt(a []int, x int) bool {
	for _, y := range a {
		if y == x {
			return true
		}
	}
	return false
}

// ---------------------------------------------------------------------------------------------
// first use under concurrency

type c08FirstUseCase struct {
	Seed int64    `json:"seed"`
	Decl string   `json:"declaration"`
	Ops  []string `json:"goroutines"`
}

func c08FirstUse(r *Result, seed int64, di int) {
	rng := rand.New(rand.NewSource(seed))
	d := c08Zoo[di%len(c08Zoo)]
	setup, _, sqlDB := OpenRec(&gorm.Config{NowFunc: fixedNowFunc})
	defer sqlDB.Close()
	table, rows := c08DeclSetup(setup, d, rng)
	n := len(rows) / 2
	// the handle under test: same database, its OWN (cold) schema cache
	db, err := gorm.Open(sqlite.Dialector{Conn: sqlDB}, &gorm.Config{NowFunc: fixedNowFunc, Logger: logger.Discard})
	if err != nil {
		panic(err)
	}
	sqlDB.SetMaxOpenConns(1) // one connection: the goroutines race on the schema cache, not on SQLite's table locks
	g := 2 + rng.Intn(3)
	ops := make([]string, g)
	delay := make([]time.Duration, g)
	for i := range ops {
		ops[i] = []string{"find", "find", "count", "pluck", "first", "update", "delete"}[rng.Intn(7)]
		// arrival: together with the first goroutine (both miss the cache and parse: the LoadOrStore collision path) or a
		// little later (the cache already holds the schema the first one is still completing: the Load path)
		delay[i] = []time.Duration{0, 0, 50, 150, 400, 1000}[rng.Intn(6)] * time.Microsecond
	}
	delay[0] = 0
	c := c08FirstUseCase{seed, d.Name, ops}
	r.Case("firstuse", fmt.Sprint(d.Name, ops), true)
	r.H("firstuse.declaration", d.Name)
	type obs struct {
		ids []int
		cnt int64
		err error
	}
	out := make([]obs, g)
	start := make(chan struct{})
	var wg sync.WaitGroup
	for i := 0; i < g; i++ {
		wg.Add(1)
		go func(i int) {
			defer wg.Done()
			<-start
			if delay[i] > 0 {
				time.Sleep(delay[i])
			}
			h := db.Session(&gorm.Session{})
			switch ops[i] {
			case "find":
				sl := d.newSlice()
				out[i].err = h.Find(sl).Error
				out[i].ids = c08IDsOf(sl)
			case "count":
				out[i].err = h.Model(d.newModel()).Count(&out[i].cnt).Error
			case "pluck":
				out[i].err = h.Model(d.newModel()).Pluck("id", &out[i].ids).Error
			case "first":
				m := d.newModel()
				out[i].err = h.Order("id DESC").First(m).Error
				if out[i].err == nil {
					out[i].ids = []int{int(reflect.ValueOf(m).Elem().FieldByName("ID").Uint())}
				}
			case "update":
				out[i].err = h.Model(d.newModel()).Where("v >= ?", 0).Update("name", "w").Error
			case "delete":
				out[i].err = h.Where("v >= ?", 2).Delete(d.newModel()).Error
			}
		}(i)
	}
	close(start)
	wg.Wait()
	bad := func(what string, obs, exp interface{}) {
		r.Violate(Violation{Kind: "e2e", Suite: "firstuse", Input: c, Observed: obs, Expected: exp,
			Note: what + " — first use of the model on a handle with a cold schema cache, " + fmt.Sprint(g) + " goroutines at once"})
	}
	for i, o := range out {
		if o.err != nil {
			r.H("firstuse.error", trunc(o.err.Error(), 40))
			continue
		}
		r.H("firstuse.op", ops[i])
		for _, id := range o.ids {
			if id > n {
				bad(fmt.Sprintf("goroutine %d (%s) saw a marked row", i, ops[i]), o.ids, fmt.Sprintf("ids ≤ %d only (the live rows)", n))
				break
			}
		}
		if ops[i] == "count" && int(o.cnt) > n {
			bad(fmt.Sprintf("goroutine %d counted marked rows", i), o.cnt, fmt.Sprintf("at most %d", n))
		}
	}
	phys := c08RawInts(setup, "SELECT id FROM "+table)
	if len(phys) != len(rows) {
		bad("a Delete without Unscoped removed rows physically", fmt.Sprintf("%d rows left", len(phys)), fmt.Sprintf("%d rows", len(rows)))
	}
	touched := c08RawInts(setup, "SELECT id FROM "+table+" WHERE id > ? AND name = 'w'", n)
	if len(touched) != 0 {
		bad("an Update without Unscoped wrote marked rows", touched, "no marked row updated")
	}
	still := c08RawInts(setup, "SELECT id FROM "+table+" WHERE id > ? AND NOT ("+d.Live+")", n)
	if len(still) != n {
		bad("marked rows changed their mark", still, fmt.Sprintf("all %d marked rows still marked as before", n))
	}
}

func init() {
	register("C08", func(r *Result, rng *rand.Rand, tier string) {
		n := map[string]int{"quick": 57, "thorough": 950, "search": 380}[tier]
		off := rng.Intn(len(c08Zoo))
		for i := 0; i < n && !expired(); i++ {
			c08DeclOne(r, rng.Int63(), off+i)
		}
		m := map[string]int{"quick": 60, "thorough": 1200, "search": 400}[tier]
		for i := 0; i < m && !expired(); i++ {
			c08FirstUse(r, rng.Int63(), off+i)
		}
	})
	replayers["C08/decl"] = func(r *Result, input json.RawMessage) {
		var c c08DeclCase
		if json.Unmarshal(input, &c) != nil {
			return
		}
		for i, d := range c08Zoo {
			if d.Name == c.Decl {
				c08DeclOne(r, c.Seed, i)
			}
		}
	}
	replayers["C08/firstuse"] = func(r *Result, input json.RawMessage) {
		var c c08FirstUseCase
		if json.Unmarshal(input, &c) != nil {
			return
		}
		for i, d := range c08Zoo {
			if d.Name == c.Decl {
				for k := 0; k < 5; k++ { // an interleaving: re-run a few times
					c08FirstUse(r, c.Seed, i)
				}
			}
		}
	}
}
